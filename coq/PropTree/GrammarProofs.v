(* GrammarProofs: the descriptor parser accepts exactly the language of DescGrammar and returns the
   expression list the grammar denotes (soundness and completeness, for all byte strings). *)
Require Import List NArith ZArith Bool Lia.
Import ListNotations.
Require Import LV.PropTree.PropModel LV.PropTree.QuoteProofs LV.PropTree.DescGrammar.

(* ------------------------------------------------------------------ the parser's own LL(1) grammar *)
Inductive G : pstate -> list tok -> tok -> list expr -> Prop :=
| g0_dot ts t es : G P1 ts t es -> G P0 (T_DOT :: ts) t es
| g0_id k ts t es : G P2 ts t es -> G P0 (T_ID k :: ts) t (E_MAP_ELEMENT k :: es)
| g0_br ts t es : G P3 ts t es -> G P0 (T_LBRACKET :: ts) t es
| g0_map t : G P0 [T_LCURLY; T_RCURLY] t [E_MAP]
| g1_id k ts t es : G P2 ts t es -> G P1 (T_ID k :: ts) t (E_MAP_ELEMENT k :: es)
| g1_br ts t es : G P3 ts t es -> G P1 (T_LBRACKET :: ts) t es
| g1_map t : G P1 [T_LCURLY; T_RCURLY] t [E_MAP]
| g1_end t : ends_dot t -> G P1 [] t [E_DOT]
| g2_dot ts t es : G P1 ts t es -> G P2 (T_DOT :: ts) t es
| g2_br ts t es : G P3 ts t es -> G P2 (T_LBRACKET :: ts) t es
| g2_map t : G P2 [T_LCURLY; T_RCURLY] t [E_MAP]
| g2_end t : ends_path t -> G P2 [] t []
| g3_idx i ts t es : G P2 ts t es -> G P3 (T_INT i :: T_RBRACKET :: ts) t (E_LIST_ELEMENT i :: es)
| g3_ins i ts t es : G P2 ts t es -> G P3 (T_INT i :: T_PLUS :: T_RBRACKET :: ts) t (E_LIST_INSERT i :: es)
| g3_app ts t es : G P2 ts t es -> G P3 (T_PLUS :: T_RBRACKET :: ts) t (E_LIST_APPEND :: es)
| g3_list t : G P3 [T_RBRACKET] t [E_LIST].

(* the token stream seen by parse_loop: current token t, unread bytes r *)
Inductive stream : tok -> bytes -> list tok -> tok -> bytes -> Prop :=
| st_nil t r : stream t r [] t r
| st_cons t r t1 r1 ts t' r' :
    scan r = (t1, r1) -> stream t1 r1 ts t' r' -> stream t r (t :: ts) t' r'.

Lemma stream_cons_inv t r t0 ts t' r' :
  stream t r (t0 :: ts) t' r' -> t0 = t /\ stream (fst (scan r)) (snd (scan r)) ts t' r'.
Proof.
  intros H. inversion H as [|? ? t1 r1 ? ? ? S Hs]; subst. split; [reflexivity|]. now rewrite S.
Qed.

Lemma stream_nil_inv t r t' r' : stream t r [] t' r' -> t' = t /\ r' = r.
Proof. intros H. inversion H; subst. auto. Qed.

(* ------------------------------------------------------------------ completeness of parse_loop w.r.t. G *)
Ltac step_stream H :=
  let E := fresh "E" in
  apply stream_cons_inv in H as [E H]; subst.

Lemma parse_loop_complete : forall st ts t' es,
    G st ts t' es ->
    forall fuel t r r' acc,
      stream t r ts t' r' -> (length ts < fuel)%nat ->
      parse_loop fuel st t r acc = Some (rev acc ++ es, t', r').
Proof.
  induction 1; intros fuel t0 r r' acc Hs Hf;
    (destruct fuel as [|f]; [simpl in Hf; lia|]); cbn [parse_loop].
  - step_stream Hs. destruct (scan r) as [t1 r1]. cbn [fst snd] in Hs.
    apply IHG; [exact Hs|simpl in Hf; lia].
  - step_stream Hs. destruct (scan r) as [t1 r1]. cbn [fst snd] in Hs.
    rewrite (IHG f t1 r1 r' (E_MAP_ELEMENT k :: acc) Hs) by (simpl in Hf; lia).
    simpl. now rewrite <- app_assoc.
  - step_stream Hs. destruct (scan r) as [t1 r1]. cbn [fst snd] in Hs.
    apply IHG; [exact Hs|simpl in Hf; lia].
  - step_stream Hs. unfold abstract_map. destruct (scan r) as [t1 r1]. cbn [fst snd] in Hs.
    step_stream Hs. destruct (scan r1) as [t2 r2]. cbn [fst snd] in Hs.
    apply stream_nil_inv in Hs as [-> ->]. reflexivity.
  - step_stream Hs. destruct (scan r) as [t1 r1]. cbn [fst snd] in Hs.
    rewrite (IHG f t1 r1 r' (E_MAP_ELEMENT k :: acc) Hs) by (simpl in Hf; lia).
    simpl. now rewrite <- app_assoc.
  - step_stream Hs. destruct (scan r) as [t1 r1]. cbn [fst snd] in Hs.
    apply IHG; [exact Hs|simpl in Hf; lia].
  - step_stream Hs. unfold abstract_map. destruct (scan r) as [t1 r1]. cbn [fst snd] in Hs.
    step_stream Hs. destruct (scan r1) as [t2 r2]. cbn [fst snd] in Hs.
    apply stream_nil_inv in Hs as [-> ->]. reflexivity.
  - apply stream_nil_inv in Hs as [-> ->]. destruct t0; simpl in H; try contradiction; reflexivity.
  - step_stream Hs. destruct (scan r) as [t1 r1]. cbn [fst snd] in Hs.
    apply IHG; [exact Hs|simpl in Hf; lia].
  - step_stream Hs. destruct (scan r) as [t1 r1]. cbn [fst snd] in Hs.
    apply IHG; [exact Hs|simpl in Hf; lia].
  - step_stream Hs. unfold abstract_map. destruct (scan r) as [t1 r1]. cbn [fst snd] in Hs.
    step_stream Hs. destruct (scan r1) as [t2 r2]. cbn [fst snd] in Hs.
    apply stream_nil_inv in Hs as [-> ->]. reflexivity.
  - apply stream_nil_inv in Hs as [-> ->]. rewrite app_nil_r.
    destruct t0; simpl in H; try contradiction; reflexivity.
  - step_stream Hs. destruct (scan r) as [t1 r1]. cbn [fst snd] in Hs.
    step_stream Hs. destruct (scan r1) as [t2 r2]. cbn [fst snd] in Hs.
    rewrite (IHG f t2 r2 r' (E_LIST_ELEMENT i :: acc) Hs) by (simpl in Hf; lia).
    simpl. now rewrite <- app_assoc.
  - step_stream Hs. destruct (scan r) as [t1 r1]. cbn [fst snd] in Hs.
    step_stream Hs. destruct (scan r1) as [t2 r2]. cbn [fst snd] in Hs.
    step_stream Hs. destruct (scan r2) as [t3 r3]. cbn [fst snd] in Hs.
    rewrite (IHG f t3 r3 r' (E_LIST_INSERT i :: acc) Hs) by (simpl in Hf; lia).
    simpl. now rewrite <- app_assoc.
  - step_stream Hs. destruct (scan r) as [t1 r1]. cbn [fst snd] in Hs.
    step_stream Hs. destruct (scan r1) as [t2 r2]. cbn [fst snd] in Hs.
    rewrite (IHG f t2 r2 r' (E_LIST_APPEND :: acc) Hs) by (simpl in Hf; lia).
    simpl. now rewrite <- app_assoc.
  - step_stream Hs. destruct (scan r) as [t1 r1]. cbn [fst snd] in Hs.
    apply stream_nil_inv in Hs as [-> ->]. reflexivity.
Qed.

(* ------------------------------------------------------------------ soundness of parse_loop w.r.t. G *)
Lemma parse_loop_sound : forall fuel st t r acc es t' r',
    parse_loop fuel st t r acc = Some (es, t', r') ->
    exists ts es', stream t r ts t' r' /\ G st ts t' es' /\ es = rev acc ++ es'.
Proof.
  induction fuel as [|f IH]; intros st t r acc es t' r' H; [discriminate|].
  assert (AM : abstract_map r acc = Some (es, t', r') ->
               exists ts es', stream t r (t :: ts) t' r' /\ ts = [T_RCURLY] /\ es' = [E_MAP] /\ es = rev acc ++ es').
  { unfold abstract_map. destruct (scan r) as [t1 r1] eqn:S1. destruct t1; try discriminate.
    destruct (scan r1) as [t2 r2] eqn:S2. intros Hm. injection Hm as <- <- <-.
    exists [T_RCURLY], [E_MAP]. split; [|repeat split].
    eapply st_cons; [exact S1|]. eapply st_cons; [exact S2|]. constructor. }
  assert (NEXT : forall st1 acc1,
             (let '(t1, r1) := scan r in parse_loop f st1 t1 r1 acc1) = Some (es, t', r') ->
             exists ts es', stream t r (t :: ts) t' r' /\ G st1 ts t' es' /\ es = rev acc1 ++ es').
  { intros st1 acc1 Hn. destruct (scan r) as [t1 r1] eqn:S1.
    destruct (IH _ _ _ _ _ _ _ Hn) as [ts [es' [Hs [Hg He]]]].
    exists ts, es'. repeat split; auto. eapply st_cons; eauto. }
  cbn [parse_loop] in H. destruct st.
  - destruct t; try discriminate.
    + destruct (NEXT _ _ H) as [ts [es' [Hs [Hg He]]]]. exists (T_DOT :: ts), es'. repeat split; auto. now constructor.
    + destruct (NEXT _ _ H) as [ts [es' [Hs [Hg He]]]]. exists (T_LBRACKET :: ts), es'. repeat split; auto. now constructor.
    + destruct (AM H) as [ts [es' [Hs [-> [-> He]]]]]. exists [T_LCURLY; T_RCURLY], [E_MAP]. repeat split; auto. constructor.
    + destruct (NEXT _ _ H) as [ts [es' [Hs [Hg He]]]].
      exists (T_ID k :: ts), (E_MAP_ELEMENT k :: es'). repeat split; auto; [now constructor|].
      subst es. simpl. now rewrite <- app_assoc.
  - destruct t; try (injection H as <- <- <-; exists [], [E_DOT];
                     split; [constructor|split; [constructor; exact I|reflexivity]]).
    + destruct (NEXT _ _ H) as [ts [es' [Hs [Hg He]]]]. exists (T_LBRACKET :: ts), es'. repeat split; auto. now constructor.
    + destruct (AM H) as [ts [es' [Hs [-> [-> He]]]]]. exists [T_LCURLY; T_RCURLY], [E_MAP]. repeat split; auto. constructor.
    + destruct (NEXT _ _ H) as [ts [es' [Hs [Hg He]]]].
      exists (T_ID k :: ts), (E_MAP_ELEMENT k :: es'). repeat split; auto; [now constructor|].
      subst es. simpl. now rewrite <- app_assoc.
  - destruct t; try (injection H as <- <- <-; exists [], [];
                     split; [constructor|split; [constructor; exact I|now rewrite app_nil_r]]).
    + destruct (NEXT _ _ H) as [ts [es' [Hs [Hg He]]]]. exists (T_DOT :: ts), es'. repeat split; auto. now constructor.
    + destruct (NEXT _ _ H) as [ts [es' [Hs [Hg He]]]]. exists (T_LBRACKET :: ts), es'. repeat split; auto. now constructor.
    + destruct (AM H) as [ts [es' [Hs [-> [-> He]]]]]. exists [T_LCURLY; T_RCURLY], [E_MAP]. repeat split; auto. constructor.
  - destruct t; try discriminate.
    + (* T_PLUS *)
      destruct (scan r) as [t1 r1] eqn:S1. destruct t1; try discriminate.
      destruct (scan r1) as [t2 r2] eqn:S2.
      destruct (IH _ _ _ _ _ _ _ H) as [ts [es' [Hs [Hg He]]]].
      exists (T_PLUS :: T_RBRACKET :: ts), (E_LIST_APPEND :: es'). repeat split.
      * eapply st_cons; [exact S1|]. eapply st_cons; [exact S2|]. exact Hs.
      * now constructor.
      * subst es. simpl. now rewrite <- app_assoc.
    + (* T_RBRACKET *)
      destruct (scan r) as [t1 r1] eqn:S1. injection H as <- <- <-.
      exists [T_RBRACKET], [E_LIST]. split; [|split; [constructor|reflexivity]].
      eapply st_cons; [exact S1|constructor].
    + (* T_INT *)
      destruct (scan r) as [t1 r1] eqn:S1. destruct t1; try discriminate.
      * destruct (scan r1) as [t2 r2] eqn:S2. destruct t2; try discriminate.
        destruct (scan r2) as [t3 r3] eqn:S3.
        destruct (IH _ _ _ _ _ _ _ H) as [ts [es' [Hs [Hg He]]]].
        exists (T_INT i :: T_PLUS :: T_RBRACKET :: ts), (E_LIST_INSERT i :: es'). repeat split.
        -- eapply st_cons; [exact S1|]. eapply st_cons; [exact S2|]. eapply st_cons; [exact S3|]. exact Hs.
        -- now constructor.
        -- subst es. simpl. now rewrite <- app_assoc.
      * destruct (scan r1) as [t2 r2] eqn:S2.
        destruct (IH _ _ _ _ _ _ _ H) as [ts [es' [Hs [Hg He]]]].
        exists (T_INT i :: T_RBRACKET :: ts), (E_LIST_ELEMENT i :: es'). repeat split.
        -- eapply st_cons; [exact S1|]. eapply st_cons; [exact S2|]. exact Hs.
        -- now constructor.
        -- subst es. simpl. now rewrite <- app_assoc.
Qed.

(* ------------------------------------------------------------------ the LL(1) grammar is the manual's grammar *)
Lemma od_nil : optdot []. Proof. now left. Qed.
Lemma od_dot : optdot [T_DOT]. Proof. now right. Qed.

(* from the parser's grammar to the declarative one, per parser state *)
Definition manual (st : pstate) (ts : list tok) (t : tok) (es : list expr) : Prop :=
  match st with
  | P0 => desc ts t es
  | P2 => tail ts t es
  | P1 => tail (T_DOT :: ts) t es /\ desc (T_DOT :: ts) t es
  | P3 => tail (T_LBRACKET :: ts) t es /\ tail (T_DOT :: T_LBRACKET :: ts) t es /\
          desc (T_LBRACKET :: ts) t es /\ desc (T_DOT :: T_LBRACKET :: ts) t es
  end.

Lemma G_manual : forall st ts t es, G st ts t es -> manual st ts t es.
Proof.
  induction 1; cbn [manual] in *.
  - tauto.
  - apply (d_key [] k ts t es od_nil IHG).
  - tauto.
  - apply (d_map [] t od_nil).
  - split; [now apply tl_key|apply (d_key [T_DOT] k ts t es od_dot IHG)].
  - tauto.
  - split; [apply (tl_map [T_DOT] t od_dot)|apply (d_map [T_DOT] t od_dot)].
  - split; [now apply tl_dot|now apply d_root].
  - tauto.
  - tauto.
  - apply (tl_map [] t od_nil).
  - now apply tl_end.
  - repeat split.
    + apply (tl_sub [] _ _ ts t es od_nil (sub_idx i) IHG).
    + apply (tl_sub [T_DOT] _ _ ts t es od_dot (sub_idx i) IHG).
    + apply (d_sub [] _ _ ts t es od_nil (sub_idx i) IHG).
    + apply (d_sub [T_DOT] _ _ ts t es od_dot (sub_idx i) IHG).
  - repeat split.
    + apply (tl_sub [] _ _ ts t es od_nil (sub_ins i) IHG).
    + apply (tl_sub [T_DOT] _ _ ts t es od_dot (sub_ins i) IHG).
    + apply (d_sub [] _ _ ts t es od_nil (sub_ins i) IHG).
    + apply (d_sub [T_DOT] _ _ ts t es od_dot (sub_ins i) IHG).
  - repeat split.
    + apply (tl_sub [] _ _ ts t es od_nil sub_app IHG).
    + apply (tl_sub [T_DOT] _ _ ts t es od_dot sub_app IHG).
    + apply (d_sub [] _ _ ts t es od_nil sub_app IHG).
    + apply (d_sub [T_DOT] _ _ ts t es od_dot sub_app IHG).
  - repeat split.
    + apply (tl_list [] t od_nil).
    + apply (tl_list [T_DOT] t od_dot).
    + apply (d_list [] t od_nil).
    + apply (d_list [T_DOT] t od_dot).
Qed.

(* from the declarative grammar to the parser's *)
Lemma subscript_G c e ts t es : subscript c e -> G P2 ts t es -> G P3 (tl c ++ ts) t (e :: es) /\ hd T_EOF c = T_LBRACKET.
Proof. intros H Hg. destruct H; simpl; split; try reflexivity; now constructor. Qed.

Lemma tail_G : forall ts t es, tail ts t es -> G P2 ts t es.
Proof.
  induction 1.
  - now constructor.
  - apply g2_dot. now apply g1_end.
  - destruct H as [-> | ->]; simpl; [apply g2_map|apply g2_dot, g1_map].
  - destruct H as [-> | ->]; simpl; [apply g2_br, g3_list|apply g2_dot, g1_br, g3_list].
  - apply g2_dot. now apply g1_id.
  - destruct (subscript_G c e ts t es H0 IHtail) as [Hg Hh].
    destruct c as [|c0 c]; [inversion H0|]. simpl in Hh, Hg. subst c0.
    destruct H as [-> | ->]; simpl; [now apply g2_br|apply g2_dot; now apply g1_br].
Qed.

Lemma desc_G : forall ts t es, desc ts t es -> G P0 ts t es.
Proof.
  intros ts t es H. destruct H.
  - apply g0_dot. now apply g1_end.
  - destruct H as [-> | ->]; simpl; [apply g0_map|apply g0_dot, g1_map].
  - destruct H as [-> | ->]; simpl; [apply g0_br, g3_list|apply g0_dot, g1_br, g3_list].
  - apply tail_G in H0. destruct H as [-> | ->]; simpl; [now apply g0_id|apply g0_dot; now apply g1_id].
  - apply tail_G in H1. destruct (subscript_G c e ts t es H0 H1) as [Hg Hh].
    destruct c as [|c0 c]; [inversion H0|]. simpl in Hh, Hg. subst c0.
    destruct H as [-> | ->]; simpl; [now apply g0_br|apply g0_dot; now apply g1_br].
Qed.

Theorem G_desc ts t es : G P0 ts t es <-> desc ts t es.
Proof. split; [apply (G_manual P0)|apply desc_G]. Qed.

(* ------------------------------------------------------------------ tokens consume input *)
Definition real (t : tok) : Prop := match t with T_EOF | T_ERROR => False | _ => True end.

Lemma span_digits_len : forall s acc, (length (snd (span_digits s acc)) <= length s)%nat.
Proof.
  induction s as [|c s IH]; intros acc; cbn [span_digits snd length]; [lia|].
  destruct (is_digit c); cbn [snd length]; [specialize (IH (10 * acc + Z.of_N (c - 48))%Z); lia|lia].
Qed.

Lemma id_loop_rest_aux : forall n s src dest prot d p r,
    (length s <= n)%nat -> id_loop s src dest prot = Some (d, p, r) -> (length r <= length s)%nat.
Proof.
  induction n as [|n IH]; intros s src dest prot d p r Hn H.
  - destruct s; [|simpl in Hn; lia]. simpl in H. injection H as _ _ <-. simpl. lia.
  - destruct s as [|c s]; simpl in H.
    + injection H as _ _ <-. simpl. lia.
    + destruct (negb (is_idchar c)); [injection H as _ _ <-; lia|].
      destruct (c =? 92)%N.
      * destruct s as [|e s2]; [discriminate|].
        apply IH in H; [simpl in *; lia|simpl in Hn; lia].
      * apply IH in H; [simpl in *; lia|simpl in Hn; lia].
Qed.

Lemma scan_consumes : forall s t r, scan s = (t, r) -> real t -> (length r < length s)%nat.
Proof.
  induction s as [|c s IH]; intros t r H Hr; [injection H as <- _; contradiction|].
  rewrite scan_unfold in H.
  destruct (is_ws c); [specialize (IH t r H Hr); simpl; lia|].
  destruct (c =? 35)%N; [injection H as _ <-; simpl; lia|].
  destruct (c =? 43)%N; [injection H as _ <-; simpl; lia|].
  destruct (c =? 46)%N; [injection H as _ <-; simpl; lia|].
  destruct (c =? 61)%N; [injection H as _ <-; simpl; lia|].
  destruct (c =? 91)%N; [injection H as _ <-; simpl; lia|].
  destruct (c =? 93)%N; [injection H as _ <-; simpl; lia|].
  destruct (c =? 123)%N; [injection H as _ <-; simpl; lia|].
  destruct (c =? 125)%N; [injection H as _ <-; simpl; lia|].
  destruct (is_digit c) eqn:D.
  - pose proof (span_digits_len s (10 * 0 + Z.of_N (c - 48))%Z) as L.
    cbn [span_digits] in H. rewrite D in H.
    destruct (span_digits s (10 * 0 + Z.of_N (c - 48))%Z) as [v rest]. injection H as _ <-. simpl in *. lia.
  - destruct (is_idchar1 c) eqn:I1; [|injection H as <- _; contradiction].
    destruct (id_loop (c :: s) 0 [] 0) as [[[d p] rest]|] eqn:L; [|injection H as <- _; contradiction].
    injection H as _ <-.
    cbn [id_loop] in L. rewrite (idchar1_idchar c I1) in L. cbn [negb] in L.
    destruct (c =? 92)%N.
    + destruct s as [|e s2]; [discriminate|].
      apply (id_loop_rest_aux (length s2)) in L; [simpl; lia|lia].
    + apply (id_loop_rest_aux (length s)) in L; [simpl; lia|lia].
Qed.

Lemma lexes_len : forall d ts t r, lexes d ts t r -> Forall real ts -> (length ts <= length d)%nat.
Proof.
  induction 1; intros Hr; [simpl; lia|].
  inversion Hr; subst. specialize (IHlexes H4). apply scan_consumes in H; [simpl; lia|assumption].
Qed.

Lemma G_real : forall st ts t es, G st ts t es -> Forall real ts.
Proof. induction 1; repeat constructor; auto. Qed.

Lemma lexes_stream : forall ts d t0 r0 t r,
    scan d = (t0, r0) -> (lexes d ts t r <-> stream t0 r0 ts t r).
Proof.
  induction ts as [|a ts IH]; intros d t0 r0 t r S.
  - split; intros H.
    + inversion H; subst. rewrite S in H0. injection H0 as <- <-. constructor.
    + apply stream_nil_inv in H as [-> ->]. now constructor.
  - split; intros H.
    + inversion H; subst. rewrite S in H3. injection H3 as <- <-.
      destruct (scan r0) as [t1 r1] eqn:S1. eapply st_cons; [exact S1|]. now apply (IH r0 t1 r1 t r S1).
    + apply stream_cons_inv in H as [-> H]. destruct (scan r0) as [t1 r1] eqn:S1. cbn [fst snd] in H.
      eapply lx_cons; [exact S|]. now apply (IH r0 t1 r1 t r S1).
Qed.

(* ------------------------------------------------------------------ main theorem *)
Theorem parse_iff_grammar d es t r : parse d = Some (es, t, r) <-> denotes d es t r.
Proof.
  unfold parse, denotes. destruct (scan d) as [t0 r0] eqn:Sc. split.
  - intros H. destruct (parse_loop_sound _ _ _ _ _ _ _ _ H) as [ts [es' [Hs [Hg He]]]].
    simpl in He. subst es'. exists ts. split; [now apply (lexes_stream ts d t0 r0 t r Sc)|now apply G_desc].
  - intros [ts [Hl Hd]]. apply G_desc in Hd.
    pose proof (lexes_len _ _ _ _ Hl (G_real _ _ _ _ Hd)) as Hlen.
    apply (lexes_stream ts d t0 r0 t r Sc) in Hl.
    rewrite (parse_loop_complete P0 ts t es Hd (S (S (length d))) t0 r0 r [] Hl) by lia. reflexivity.
Qed.

(* fuel adequacy, every input: the fuel length + 2 that parse gives parse_loop is enough - any larger
   amount gives the same answer, so a None of parse is a rejection by the grammar, never "out of fuel" *)
Theorem parse_fuel_adequate d fuel :
  (S (S (length d)) <= fuel)%nat ->
  (let '(t, r) := scan d in parse_loop fuel P0 t r []) = parse d.
Proof.
  intros Hf. unfold parse. destruct (scan d) as [t0 r0] eqn:Sc.
  assert (K : forall f1 f2 x, (S (S (length d)) <= f2)%nat ->
                              parse_loop f1 P0 t0 r0 [] = Some x -> parse_loop f2 P0 t0 r0 [] = Some x).
  { intros f1 f2 [[es t] r] H2 H. destruct (parse_loop_sound _ _ _ _ _ _ _ _ H) as [ts [es' [Hs [Hg He]]]].
    simpl in He. subst es'.
    pose proof (proj2 (lexes_stream ts d t0 r0 t r Sc) Hs) as Hl.
    pose proof (lexes_len _ _ _ _ Hl (G_real _ _ _ _ Hg)) as Hlen.
    rewrite (parse_loop_complete P0 ts t es Hg f2 t0 r0 r [] Hs) by lia. reflexivity. }
  destruct (parse_loop fuel P0 t0 r0 []) as [x|] eqn:A.
  - symmetry. apply (K fuel); [lia|exact A].
  - destruct (parse_loop (S (S (length d))) P0 t0 r0 []) as [y|] eqn:B; [|reflexivity].
    rewrite (K _ fuel y Hf B) in A. discriminate.
Qed.

(* parse fails exactly on the byte strings that do not start with a descriptor *)
Corollary parse_none_iff d : parse d = None <-> forall es t r, ~ denotes d es t r.
Proof.
  split.
  - intros H es t r Hd. apply parse_iff_grammar in Hd. congruence.
  - intros H. destruct (parse d) as [[[es t] r]|] eqn:P; [|reflexivity].
    exfalso. apply (H es t r). now apply parse_iff_grammar.
Qed.

(* the denotation is unique *)
Corollary denotes_unique d es t r es' t' r' :
  denotes d es t r -> denotes d es' t' r' -> es = es' /\ t = t' /\ r = r'.
Proof.
  intros H1 H2. apply parse_iff_grammar in H1, H2. rewrite H1 in H2. injection H2 as <- <- <-. auto.
Qed.

(* examples of the language *)
Example denotes_example :
  denotes [46; 97; 46; 98; 91; 50; 93; 91; 43; 93; 46; 123; 125; 61; 120]%N   (* ".a.b[2][+].{}=x" *)
          [E_MAP_ELEMENT [97%N]; E_MAP_ELEMENT [98%N]; E_LIST_ELEMENT 2; E_LIST_APPEND; E_MAP] T_ASSIGN [120%N].
Proof. apply parse_iff_grammar. vm_compute. reflexivity. Qed.
Example not_a_descriptor : forall es t r, ~ denotes [97; 46; 46; 98]%N es t r \/ t <> T_EOF.  (* "a..b" *)
Proof.
  intros es t r. destruct t; try (right; discriminate). left. intros H.
  apply parse_iff_grammar in H. vm_compute in H. discriminate.
Qed.
