(* GrammarProofs: the descriptor parser accepts exactly the language of DescGrammar and returns the
   expression list the grammar denotes (soundness and completeness, for all byte strings). *)
Require Import List NArith ZArith Bool Lia.
Import ListNotations.
Require Import LV.PropTree.PropModel LV.PropTree.QuoteProofs LV.PropTree.DescGrammar.

(* ------------------------------------------------------------------ the parser's own LL(1) grammar *)
Inductive G : pstate -> list tok -> tok -> list expr -> Prop :=
| g0_dot ts t es : G P1 ts t es -> G P0 (T_DOT :: ts) t es
| g0_id k ts t es : G P2 ts t es -> G P0 (T_ID k :: ts) t (E_MAP_ELEMENT k :: es)
| g0_br ts t es : G P3 ts t es -> G P0 (T_LBRACKET :: ts) t es
| g0_map t : G P0 [T_LCURLY; T_RCURLY] t [E_MAP]
| g1_id k ts t es : G P2 ts t es -> G P1 (T_ID k :: ts) t (E_MAP_ELEMENT k :: es)
| g1_br ts t es : G P3 ts t es -> G P1 (T_LBRACKET :: ts) t es
| g1_map t : G P1 [T_LCURLY; T_RCURLY] t [E_MAP]
| g1_end t : ends_dot t -> G P1 [] t [E_DOT]
| g2_dot ts t es : G P1 ts t es -> G P2 (T_DOT :: ts) t es
| g2_br ts t es : G P3 ts t es -> G P2 (T_LBRACKET :: ts) t es
| g2_map t : G P2 [T_LCURLY; T_RCURLY] t [E_MAP]
| g2_end t : ends_path t -> G P2 [] t []
| g3_idx i ts t es : G P2 ts t es -> G P3 (T_INT i :: T_RBRACKET :: ts) t (E_LIST_ELEMENT i :: es)
| g3_ins i ts t es : G P2 ts t es -> G P3 (T_INT i :: T_PLUS :: T_RBRACKET :: ts) t (E_LIST_INSERT i :: es)
| g3_app ts t es : G P2 ts t es -> G P3 (T_PLUS :: T_RBRACKET :: ts) t (E_LIST_APPEND :: es)
| g3_list t : G P3 [T_RBRACKET] t [E_LIST].

(* the token stream seen by parse_loop: current token t, unread bytes r *)
Inductive stream : tok -> bytes -> list tok -> tok -> bytes -> Prop :=
| st_nil t r : stream t r [] t r
| st_cons t r t1 r1 ts t' r' :
    scan r = (t1, r1) -> stream t1 r1 ts t' r' -> stream t r (t :: ts) t' r'.

Lemma stream_cons_inv t r t0 ts t' r' :
  stream t r (t0 :: ts) t' r' -> t0 = t /\ stream (fst (scan r)) (snd (scan r)) ts t' r'.
Proof.
  intros H. inversion H as [|? ? t1 r1 ? ? ? S Hs]; subst. split; [reflexivity|]. now rewrite S.
Qed.

Lemma stream_nil_inv t r t' r' : stream t r [] t' r' -> t' = t /\ r' = r.
Proof. intros H. inversion H; subst. auto. Qed.

(* ------------------------------------------------------------------ completeness of parse_loop w.r.t. G *)
Ltac step_stream H :=
  let E := fresh "E" in
  apply stream_cons_inv in H as [E H]; subst.

Lemma parse_loop_complete : forall st ts t' es,
    G st ts t' es ->
    forall fuel t r r' acc,
      stream t r ts t' r' -> (length ts < fuel)%nat ->
      parse_loop fuel st t r acc = Some (rev acc ++ es, t', r').
Proof.
  induction 1; intros fuel t0 r r' acc Hs Hf;
    (destruct fuel as [|f]; [simpl in Hf; lia|]); cbn [parse_loop].
  - step_stream Hs. destruct (scan r) as [t1 r1]. cbn [fst snd] in Hs.
    apply IHG; [exact Hs|simpl in Hf; lia].
  - step_stream Hs. destruct (scan r) as [t1 r1]. cbn [fst snd] in Hs.
    rewrite (IHG f t1 r1 r' (E_MAP_ELEMENT k :: acc) Hs) by (simpl in Hf; lia).
    simpl. now rewrite <- app_assoc.
  - step_stream Hs. destruct (scan r) as [t1 r1]. cbn [fst snd] in Hs.
    apply IHG; [exact Hs|simpl in Hf; lia].
  - step_stream Hs. unfold abstract_map. destruct (scan r) as [t1 r1]. cbn [fst snd] in Hs.
    step_stream Hs. destruct (scan r1) as [t2 r2]. cbn [fst snd] in Hs.
    apply stream_nil_inv in Hs as [-> ->]. reflexivity.
  - step_stream Hs. destruct (scan r) as [t1 r1]. cbn [fst snd] in Hs.
    rewrite (IHG f t1 r1 r' (E_MAP_ELEMENT k :: acc) Hs) by (simpl in Hf; lia).
    simpl. now rewrite <- app_assoc.
  - step_stream Hs. destruct (scan r) as [t1 r1]. cbn [fst snd] in Hs.
    apply IHG; [exact Hs|simpl in Hf; lia].
  - step_stream Hs. unfold abstract_map. destruct (scan r) as [t1 r1]. cbn [fst snd] in Hs.
    step_stream Hs. destruct (scan r1) as [t2 r2]. cbn [fst snd] in Hs.
    apply stream_nil_inv in Hs as [-> ->]. reflexivity.
  - apply stream_nil_inv in Hs as [-> ->]. destruct t0; simpl in H; try contradiction; reflexivity.
  - step_stream Hs. destruct (scan r) as [t1 r1]. cbn [fst snd] in Hs.
    apply IHG; [exact Hs|simpl in Hf; lia].
  - step_stream Hs. destruct (scan r) as [t1 r1]. cbn [fst snd] in Hs.
    apply IHG; [exact Hs|simpl in Hf; lia].
  - step_stream Hs. unfold abstract_map. destruct (scan r) as [t1 r1]. cbn [fst snd] in Hs.
    step_stream Hs. destruct (scan r1) as [t2 r2]. cbn [fst snd] in Hs.
    apply stream_nil_inv in Hs as [-> ->]. reflexivity.
  - apply stream_nil_inv in Hs as [-> ->]. rewrite app_nil_r.
    destruct t0; simpl in H; try contradiction; reflexivity.
  - step_stream Hs. destruct (scan r) as [t1 r1]. cbn [fst snd] in Hs.
    step_stream Hs. destruct (scan r1) as [t2 r2]. cbn [fst snd] in Hs.
    rewrite (IHG f t2 r2 r' (E_LIST_ELEMENT i :: acc) Hs) by (simpl in Hf; lia).
    simpl. now rewrite <- app_assoc.
  - step_stream Hs. destruct (scan r) as [t1 r1]. cbn [fst snd] in Hs.
    step_stream Hs. destruct (scan r1) as [t2 r2]. cbn [fst snd] in Hs.
    step_stream Hs. destruct (scan r2) as [t3 r3]. cbn [fst snd] in Hs.
    rewrite (IHG f t3 r3 r' (E_LIST_INSERT i :: acc) Hs) by (simpl in Hf; lia).
    simpl. now rewrite <- app_assoc.
  - step_stream Hs. destruct (scan r) as [t1 r1]. cbn [fst snd] in Hs.
    step_stream Hs. destruct (scan r1) as [t2 r2]. cbn [fst snd] in Hs.
    rewrite (IHG f t2 r2 r' (E_LIST_APPEND :: acc) Hs) by (simpl in Hf; lia).
    simpl. now rewrite <- app_assoc.
  - step_stream Hs. destruct (scan r) as [t1 r1]. cbn [fst snd] in Hs.
    apply stream_nil_inv in Hs as [-> ->]. reflexivity.
Qed.

(* ------------------------------------------------------------------ soundness of parse_loop w.r.t. G *)
Lemma parse_loop_sound : forall fuel st t r acc es t' r',
    parse_loop fuel st t r acc = Some (es, t', r') ->
    exists ts es', stream t r ts t' r' /\ G st ts t' es' /\ es = rev acc ++ es'.
Proof.
  induction fuel as [|f IH]; intros st t r acc es t' r' H; [discriminate|].
  assert (AM : abstract_map r acc = Some (es, t', r') ->
               exists ts es', stream t r (t :: ts) t' r' /\ ts = [T_RCURLY] /\ es' = [E_MAP] /\ es = rev acc ++ es').
  { unfold abstract_map. destruct (scan r) as [t1 r1] eqn:S1. destruct t1; try discriminate.
    destruct (scan r1) as [t2 r2] eqn:S2. intros Hm. injection Hm as <- <- <-.
    exists [T_RCURLY], [E_MAP]. split; [|repeat split].
    eapply st_cons; [exact S1|]. eapply st_cons; [exact S2|]. constructor. }
  assert (NEXT : forall st1 acc1,
             (let '(t1, r1) := scan r in parse_loop f st1 t1 r1 acc1) = Some (es, t', r') ->
             exists ts es', stream t r (t :: ts) t' r' /\ G st1 ts t' es' /\ es = rev acc1 ++ es').
  { intros st1 acc1 Hn. destruct (scan r) as [t1 r1] eqn:S1.
    destruct (IH _ _ _ _ _ _ _ Hn) as [ts [es' [Hs [Hg He]]]].
    exists ts, es'. repeat split; auto. eapply st_cons; eauto. }
  cbn [parse_loop] in H. destruct st.
  - destruct t; try discriminate.
    + destruct (NEXT _ _ H) as [ts [es' [Hs [Hg He]]]]. exists (T_DOT :: ts), es'. repeat split; auto. now constructor.
    + destruct (NEXT _ _ H) as [ts [es' [Hs [Hg He]]]]. exists (T_LBRACKET :: ts), es'. repeat split; auto. now constructor.
    + destruct (AM H) as [ts [es' [Hs [-> [-> He]]]]]. exists [T_LCURLY; T_RCURLY], [E_MAP]. repeat split; auto. constructor.
    + destruct (NEXT _ _ H) as [ts [es' [Hs [Hg He]]]].
      exists (T_ID k :: ts), (E_MAP_ELEMENT k :: es'). repeat split; auto; [now constructor|].
      subst es. simpl. now rewrite <- app_assoc.
  - destruct t; try (injection H as <- <- <-; exists [], [E_DOT];
                     split; [constructor|split; [constructor; exact I|reflexivity]]).
    + destruct (NEXT _ _ H) as [ts [es' [Hs [Hg He]]]]. exists (T_LBRACKET :: ts), es'. repeat split; auto. now constructor.
    + destruct (AM H) as [ts [es' [Hs [-> [-> He]]]]]. exists [T_LCURLY; T_RCURLY], [E_MAP]. repeat split; auto. constructor.
    + destruct (NEXT _ _ H) as [ts [es' [Hs [Hg He]]]].
      exists (T_ID k :: ts), (E_MAP_ELEMENT k :: es'). repeat split; auto; [now constructor|].
      subst es. simpl. now rewrite <- app_assoc.
  - destruct t; try (injection H as <- <- <-; exists [], [];
                     split; [constructor|split; [constructor; exact I|now rewrite app_nil_r]]).
    + destruct (NEXT _ _ H) as [ts [es' [Hs [Hg He]]]]. exists (T_DOT :: ts), es'. repeat split; auto. now constructor.
    + destruct (NEXT _ _ H) as [ts [es' [Hs [Hg He]]]]. exists (T_LBRACKET :: ts), es'. repeat split; auto. now constructor.
    + destruct (AM H) as [ts [es' [Hs [-> [-> He]]]]]. exists [T_LCURLY; T_RCURLY], [E_MAP]. repeat split; auto. constructor.
  - destruct t; try discriminate.
    + (* T_PLUS *)
      destruct (scan r) as [t1 r1] eqn:S1. destruct t1; try discriminate.
      destruct (scan r1) as [t2 r2] eqn:S2.
      destruct (IH _ _ _ _ _ _ _ H) as [ts [es' [Hs [Hg He]]]].
      exists (T_PLUS :: T_RBRACKET :: ts), (E_LIST_APPEND :: es'). repeat split.
      * eapply st_cons; [exact S1|]. eapply st_cons; [exact S2|]. exact Hs.
      * now constructor.
      * subst es. simpl. now rewrite <- app_assoc.
    + (* T_RBRACKET *)
      destruct (scan r) as [t1 r1] eqn:S1. injection H as <- <- <-.
      exists [T_RBRACKET], [E_LIST]. repeat split; [|constructor|reflexivity].
      eapply st_cons; [exact S1|constructor].
    + (* T_INT *)
      destruct (scan r) as [t1 r1] eqn:S1. destruct t1; try discriminate.
      * destruct (scan r1) as [t2 r2] eqn:S2. destruct t2; try discriminate.
        destruct (scan r2) as [t3 r3] eqn:S3.
        destruct (IH _ _ _ _ _ _ _ H) as [ts [es' [Hs [Hg He]]]].
        exists (T_INT i :: T_PLUS :: T_RBRACKET :: ts), (E_LIST_INSERT i :: es'). repeat split.
        -- eapply st_cons; [exact S1|]. eapply st_cons; [exact S2|]. eapply st_cons; [exact S3|]. exact Hs.
        -- now constructor.
        -- subst es. simpl. now rewrite <- app_assoc.
      * destruct (scan r1) as [t2 r2] eqn:S2.
        destruct (IH _ _ _ _ _ _ _ H) as [ts [es' [Hs [Hg He]]]].
        exists (T_INT i :: T_RBRACKET :: ts), (E_LIST_ELEMENT i :: es'). repeat split.
        -- eapply st_cons; [exact S1|]. eapply st_cons; [exact S2|]. exact Hs.
        -- now constructor.
        -- subst es. simpl. now rewrite <- app_assoc.
Qed.
