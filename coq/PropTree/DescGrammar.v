(* DescGrammar: the descriptor language of vnaproperty(3) as a declarative grammar over scanner
   tokens, written from the manual page ("Syntax of the Descriptor"), independently of the parser's
   state machine.  No proofs in this file.

     descriptor ::= "." | [ "." ] first rest* [ ending ]  | [ "." ] "{}" | [ "." ] "[]"
     first      ::= key | subscript
     rest       ::= "." key | [ "." ] subscript
     ending     ::= "." | [ "." ] "{}" | [ "." ] "[]"
     subscript  ::= "[" int "]" | "[" int "+" "]" | "[" "+" "]"

   (The manual separates path elements by dots and writes subscripts directly after a key; the
   code also takes a dot before a subscript and before "{}" / "[]", e.g. "a.[0]" and "a.{}"; the
   grammar below is the liberal reading.)  [desc ts t es]: the token list ts, followed by the
   look-ahead token t, is a descriptor denoting the expression list es.  The conditions on t make
   the split between descriptor and look-ahead unique (the longest descriptor is taken). *)
Require Import List NArith ZArith Bool.
Import ListNotations.
Require Import LV.PropTree.PropModel.

Inductive subscript : list tok -> expr -> Prop :=
| sub_idx i : subscript [T_LBRACKET; T_INT i; T_RBRACKET] (E_LIST_ELEMENT i)
| sub_ins i : subscript [T_LBRACKET; T_INT i; T_PLUS; T_RBRACKET] (E_LIST_INSERT i)
| sub_app : subscript [T_LBRACKET; T_PLUS; T_RBRACKET] E_LIST_APPEND.

Definition optdot (od : list tok) : Prop := od = [] \/ od = [T_DOT].

(* tokens that cannot continue a path / cannot follow a dot *)
Definition ends_path (t : tok) : Prop :=
  match t with T_DOT | T_LBRACKET | T_LCURLY => False | _ => True end.
Definition ends_dot (t : tok) : Prop :=
  match t with T_ID _ | T_LBRACKET | T_LCURLY => False | _ => True end.

(* what may follow a path element *)
Inductive tail : list tok -> tok -> list expr -> Prop :=
| tl_end t : ends_path t -> tail [] t []
| tl_dot t : ends_dot t -> tail [T_DOT] t [E_DOT]
| tl_map od t : optdot od -> tail (od ++ [T_LCURLY; T_RCURLY]) t [E_MAP]
| tl_list od t : optdot od -> tail (od ++ [T_LBRACKET; T_RBRACKET]) t [E_LIST]
| tl_key k ts t es : tail ts t es -> tail (T_DOT :: T_ID k :: ts) t (E_MAP_ELEMENT k :: es)
| tl_sub od c e ts t es :
    optdot od -> subscript c e -> tail ts t es -> tail (od ++ c ++ ts) t (e :: es).

Inductive desc : list tok -> tok -> list expr -> Prop :=
| d_root t : ends_dot t -> desc [T_DOT] t [E_DOT]
| d_map od t : optdot od -> desc (od ++ [T_LCURLY; T_RCURLY]) t [E_MAP]
| d_list od t : optdot od -> desc (od ++ [T_LBRACKET; T_RBRACKET]) t [E_LIST]
| d_key od k ts t es :
    optdot od -> tail ts t es -> desc (od ++ T_ID k :: ts) t (E_MAP_ELEMENT k :: es)
| d_sub od c e ts t es :
    optdot od -> subscript c e -> tail ts t es -> desc (od ++ c ++ ts) t (e :: es).

(* tokenisation: scanning d yields the tokens ts, then the token t, leaving the bytes r *)
Inductive lexes : bytes -> list tok -> tok -> bytes -> Prop :=
| lx_nil d t r : scan d = (t, r) -> lexes d [] t r
| lx_cons d t0 d' ts t r : scan d = (t0, d') -> lexes d' ts t r -> lexes d (t0 :: ts) t r.

(* d is a descriptor denoting es, followed by the token t and the bytes r *)
Definition denotes (d : bytes) (es : list expr) (t : tok) (r : bytes) : Prop :=
  exists ts, lexes d ts t r /\ desc ts t es.
