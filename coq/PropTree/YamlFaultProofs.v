(* YamlFaultProofs: failure atomicity and error class of the public YAML importers (fixes DO90, DO91) over
   the total model of YamlFault.v - every document tree (aliases included), every failure class (syntax
   error, empty document, recursive alias, refused key, allocation failure at any request, whatever the
   failing call leaves behind), every previous content of the destination. *)
Require Import List NArith ZArith Bool Lia.
Import ListNotations.
Require Import LV.PropTree.PropModel LV.PropTree.PropProofs LV.PropTree.RebuildProofs
        LV.PropTree.YamlModel LV.PropTree.YamlFault LV.PropTree.YamlImportProofs.

Lemma xnode_ind' (P : xnode -> Prop) :
  (forall v st, P (XScalar v st)) ->
  (forall kv, Forall (fun p => P (snd p)) kv -> P (XMapping kv)) ->
  (forall l, Forall P l -> P (XSequence l)) ->
  P XCycle ->
  forall y, P y.
Proof.
  intros HS HM HL HC. fix IH 1. intros [v st | kv | l |].
  - apply HS.
  - apply HM. induction kv as [|[k v] r IHr]; constructor; [apply IH|exact IHr].
  - apply HL. induction l as [|v r IHr]; constructor; [apply IH|exact IHr].
  - exact HC.
Qed.

(* ---------------------------------------------------------------- DO90: failure atomicity *)

(* Every parser result, every document tree, every failure - syntax error, empty document, recursive
   alias, refused key (however it is reported), a set / set_subtree call refused for another reason,
   allocation failure at any request whatever the failing call leaves in the tree under construction -
   and every previous content: a failing import leaves the destination EXACTLY as it was (Leibniz
   equality on the byte-level tree, list allocations included). *)
Theorem import_failure_leaves_root_unchanged_lemma
        (key_err : ecode -> ierr) (junk : node -> node) (l : xload) (root : node) (f : fault) :
  is_ok (snd (import_public_x key_err junk l root f)) = false ->
  fst (import_public_x key_err junk l root f) = root.
Proof.
  destruct l as [| | y]; cbn [import_public_x fst snd]; try reflexivity.
  destruct (import_x key_err junk y NNull f) as [r [f' [|e]]]; cbn [fst snd is_ok]; [discriminate|reflexivity].
Qed.

(* ... and a successful one installs what the import into an EMPTY root builds: nothing of the old content *)
Theorem import_success_replaces_root_lemma
        (key_err : ecode -> ierr) (junk : node -> node) (y : xnode) (root : node) (f : fault) :
  is_ok (snd (import_public_x key_err junk (XDocument y) root f)) = true ->
  import_public_x key_err junk (XDocument y) root f = (fst (import_x key_err junk y NNull f), IOk).
Proof.
  cbn [import_public_x].
  destruct (import_x key_err junk y NNull f) as [r [f' [|e]]]; cbn [fst snd is_ok]; [reflexivity|discriminate].
Qed.

(* The documented behaviour on success is kept: the call succeeds after DO90 exactly when it succeeded
   before, with the same report when it fails, and on success *rootptr is the same tree.  Before DO90 the
   deletion of the old content was one more allocating call in front: [shift]. *)
Definition shift (f : fault) : fault := match f with None => None | Some k => Some (S k) end.

Theorem import_same_outcome_as_before_DO90_lemma
        (key_err : ecode -> ierr) (junk : node -> node) (l : xload) (root : node) (f : fault) :
  snd (import_public_x key_err junk l root f) = snd (import_public_x_before_DO90 key_err junk l root (shift f))
  /\ (is_ok (snd (import_public_x key_err junk l root f)) = true ->
      fst (import_public_x key_err junk l root f) = fst (import_public_x_before_DO90 key_err junk l root (shift f))).
Proof.
  destruct l as [| | y]; cbn [import_public_x import_public_x_before_DO90 fst snd]; try (split; reflexivity).
  assert (Ht : tick (shift f) = (false, f)) by (destruct f; reflexivity).
  rewrite Ht. rewrite vdelete_dot. cbn [fst].
  destruct (import_x key_err junk y NNull f) as [r [f' [|e]]]; cbn [fst snd is_ok]; split; try reflexivity.
  discriminate.
Qed.

(* ---------------------------------------------------------------- nothing is lost: the partial tree is freed *)

(* the ledger version is import_public_x, and after ANY outcome - every parser result, fault, junk, content -
   no detached tree is left allocated: the part built before the failure (whatever the failing call left in
   it) has been released *)
Theorem import_failure_frees_partial_tree_lemma
        (key_err : ecode -> ierr) (junk : node -> node) (l : xload) (root : node) (f : fault) :
  l_lost (fst (import_public_x_ledger key_err junk true l root f)) = []
  /\ (l_root (fst (import_public_x_ledger key_err junk true l root f)),
      snd (import_public_x_ledger key_err junk true l root f)) = import_public_x key_err junk l root f.
Proof.
  destruct l as [| | y]; cbn [import_public_x_ledger import_public_x fst snd l_lost l_root]; try (split; reflexivity).
  destruct (import_x key_err junk y NNull f) as [r [f' [|e]]]; cbn [fst snd l_lost l_root]; split; reflexivity.
Qed.

(* without the release (seeded C09-11) the partial tree  p: 1  of {p: 1, 'a[': 2, z: 3} is lost *)
Theorem model_variant_without_free_refuted_lemma :
  exists l root f,
    is_ok (snd (import_public_x_ledger key_err_DO91 (fun n => n) false l root f)) = false /\
    l_lost (fst (import_public_x_ledger key_err_DO91 (fun n => n) false l root f)) <> [].
Proof.
  exists (XDocument (XMapping [(XScalar [112] YPlain, XScalar [49] YPlain);
                               (XScalar [97; 91] YDouble, XScalar [50] YPlain)]%N)), NNull, None.
  split; [vm_compute; reflexivity|vm_compute; discriminate].
Qed.

(* ---------------------------------------------------------------- the model before DO90 / DO91: refuted *)
Definition b (s : list N) : bytes := s.
Definition pl (s : list N) : xnode := XScalar s YPlain.

(* { old: { x: 1 } } *)
Definition old_content : node := NMap [([111; 108; 100], NMap [([120], NScalar [49])])]%N.
(* {a: 1, b: 2, c: &x [3, *x]} *)
Definition doc_alias : xnode :=
  XMapping [(pl [97], pl [49]); (pl [98], pl [50]); (pl [99], XSequence [pl [51]; XCycle])]%N.
(* {p: 1, 'a[': 2, z: 3} *)
Definition doc_badkey : xnode :=
  XMapping [(pl [112], pl [49]); (XScalar [97; 91] YDouble, pl [50]); (pl [122], pl [51])]%N.

(* recursive alias: -1 / EBADMSG, and the caller's root holds  a: 1, b: 2, c: [3, ~]  instead of its old content *)
Theorem model_variant_before_DO90_alias_refuted_lemma :
  exists l root f,
    is_ok (snd (import_public_x_before_DO90 key_err_before_DO91 (fun n => n) l root f)) = false /\
    fst (import_public_x_before_DO90 key_err_before_DO91 (fun n => n) l root f) <> root.
Proof.
  exists (XDocument doc_alias), old_content, None. split; [vm_compute; reflexivity|].
  vm_compute. discriminate.
Qed.

Example before_DO90_alias_left :
  import_public_x_before_DO90 key_err_before_DO91 (fun n => n) (XDocument doc_alias) old_content None
  = (NMap [([97], NScalar [49]); ([98], NScalar [50]); ([99], NList [NScalar [51]; NNull] 8)]%N, IFail IE_BADMSG).
Proof. vm_compute. reflexivity. Qed.

(* refused key: -1, and the root holds  p: 1 *)
Theorem model_variant_before_DO90_key_refuted_lemma :
  exists l root f,
    is_ok (snd (import_public_x_before_DO90 key_err_before_DO91 (fun n => n) l root f)) = false /\
    fst (import_public_x_before_DO90 key_err_before_DO91 (fun n => n) l root f) <> root.
Proof.
  exists (XDocument doc_badkey), old_content, None. split; [vm_compute; reflexivity|].
  vm_compute. discriminate.
Qed.

Example before_DO90_key_left :
  import_public_x_before_DO90 key_err_before_DO91 (fun n => n) (XDocument doc_badkey) old_content None
  = (NMap [([112], NScalar [49])]%N, IFail (IE_SYS EINVAL)).
Proof. vm_compute. reflexivity. Qed.

(* allocation failure at request 3 (0 = the deletion, 1 = "{}", 2 = key a, 3 = ".=1" ...) of a plain document:
   the old content is gone and a half-built tree is left (what C12 forbids) *)
Theorem model_variant_before_DO90_alloc_refuted_lemma :
  exists l root f,
    snd (import_public_x_before_DO90 key_err_before_DO91 (fun n => n) l root f) = IFail IE_NOMEM /\
    fst (import_public_x_before_DO90 key_err_before_DO91 (fun n => n) l root f) <> root.
Proof.
  exists (XDocument (XMapping [(pl [97], pl [49]); (pl [98], pl [50])]%N)), old_content, (Some 4%nat).
  split; [vm_compute; reflexivity|]. vm_compute. discriminate.
Qed.

(* the same three inputs after DO90 (+ DO91): failure, root unchanged, class EBADMSG / ENOMEM *)
Example after_DO90_examples :
  import_public_x key_err_DO91 (fun n => n) (XDocument doc_alias) old_content None = (old_content, IFail IE_BADMSG) /\
  import_public_x key_err_DO91 (fun n => n) (XDocument doc_badkey) old_content None = (old_content, IFail IE_BADMSG) /\
  import_public_x key_err_DO91 (fun _ => NScalar [33]%N)
                  (XDocument (XMapping [(pl [97], pl [49]); (pl [98], pl [50])]%N)) old_content (Some 3%nat)
  = (old_content, IFail IE_NOMEM) /\
  import_public_x key_err_DO91 (fun n => n)
                  (XDocument (XMapping [(pl [97], pl [49]); (pl [98], pl [50])]%N)) old_content (Some 5%nat)
  = (NMap [([97], NScalar [49]); ([98], NScalar [50])]%N, IOk).
Proof. vm_compute. repeat split; reflexivity. Qed.

(* DO91: before it a refused key was reported as a system error (category 0, errno EINVAL) *)
Theorem model_variant_before_DO91_key_class_refuted_lemma :
  exists y root,
    snd (snd (import_x key_err_before_DO91 (fun n => n) y root None)) = IFail (IE_SYS EINVAL).
Proof. exists doc_badkey, NNull. vm_compute. reflexivity. Qed.

(* ---------------------------------------------------------------- the total model extends YamlModel *)

(* two final operations that build the same node and related results give the same tree and related results *)
Definition rel_res {A B} (R : A -> B -> Prop) (x : ecode + A) (y : ecode + B) : Prop :=
  match x, y with
  | inl e1, inl e2 => e1 = e2
  | inr a, inr b0 => R a b0
  | _, _ => False
  end.

Lemma descend_set_rel {A B} (R : A -> B -> Prop) (fin1 : node -> node * A) (fin2 : node -> node * B) :
  (forall a, fst (fin1 a) = fst (fin2 a) /\ R (snd (fin1 a)) (snd (fin2 a))) ->
  forall es n, fst (descend_set es fin1 n) = fst (descend_set es fin2 n)
               /\ rel_res R (snd (descend_set es fin1 n)) (snd (descend_set es fin2 n)).
Proof.
  intros H.
  assert (FIN : forall x, fst (let '(n', a) := fin1 x in (n', @inr ecode A a))
                          = fst (let '(n', a) := fin2 x in (n', @inr ecode B a))
                          /\ rel_res R (snd (let '(n', a) := fin1 x in (n', @inr ecode A a)))
                                     (snd (let '(n', a) := fin2 x in (n', @inr ecode B a)))).
  { intros x. destruct (H x) as [H1 H2]. destruct (fin1 x), (fin2 x). cbn in *. subst. split; [reflexivity|exact H2]. }
  induction es as [|e es IH]; intros n.
  - cbn [descend_set]. apply FIN.
  - destruct e as [|k| |i|i| |]; cbn [descend_set].
    + apply FIN.
    + destruct (lookup k (map_entries n)) as [child|].
      * destruct (IH child) as [H1 H2].
        destruct (descend_set es fin1 child), (descend_set es fin2 child). cbn in *. subst. split; [reflexivity|exact H2].
      * destruct (IH NNull) as [H1 H2].
        destruct (descend_set es fin1 NNull), (descend_set es fin2 NNull). cbn in *. subst. split; [reflexivity|exact H2].
    + destruct (list_parts n) as [vec al]. apply FIN.
    + destruct (list_parts n) as [vec al]. destruct (list_extend vec al i) as [[[vec1 al1] j]|].
      * destruct (IH (nth j vec1 NNull)) as [H1 H2].
        destruct (descend_set es fin1 (nth j vec1 NNull)), (descend_set es fin2 (nth j vec1 NNull)).
        cbn in *. subst. split; [reflexivity|exact H2].
      * cbn. split; reflexivity.
    + destruct (list_parts n) as [vec al]. destruct (list_insert vec al i) as [[[vec1 al1] j]|].
      * destruct (IH (nth j vec1 NNull)) as [H1 H2].
        destruct (descend_set es fin1 (nth j vec1 NNull)), (descend_set es fin2 (nth j vec1 NNull)).
        cbn in *. subst. split; [reflexivity|exact H2].
      * cbn. split; reflexivity.
    + destruct (list_parts n) as [vec al]. destruct (list_append vec al) as [[vec1 al1] j].
      destruct (IH (nth j vec1 NNull)) as [H1 H2].
      destruct (descend_set es fin1 (nth j vec1 NNull)), (descend_set es fin2 (nth j vec1 NNull)).
      cbn in *. subst. split; [reflexivity|exact H2].
    + apply FIN.
Qed.

Lemma vset_subtree_then_rel {A B} (R : A -> B -> Prop) (fin1 : node -> node * A) (fin2 : node -> node * B) :
  (forall a, fst (fin1 a) = fst (fin2 a) /\ R (snd (fin1 a)) (snd (fin2 a))) ->
  forall root d, fst (vset_subtree_then root d fin1) = fst (vset_subtree_then root d fin2)
                 /\ rel_res R (snd (vset_subtree_then root d fin1)) (snd (vset_subtree_then root d fin2)).
Proof.
  intros H root d. unfold vset_subtree_then. destruct (parse d) as [[[es t] rest]|]; [|cbn; split; reflexivity].
  destruct (is_eof t); [apply descend_set_rel; exact H|cbn; split; reflexivity].
Qed.

Definition rel (x : fault * ires) (ok : bool) : Prop := fst x = None /\ is_ok (snd x) = ok.

Section Embed.
  Variable key_err : ecode -> ierr.
  Variable junk : node -> node.

  Definition emb_ok (y : ynode) : Prop :=
    forall root, fst (import_x key_err junk (embed y) root None) = fst (yaml_import y root)
                 /\ rel (snd (import_x key_err junk (embed y) root None)) (snd (yaml_import y root)).

  Lemma embed_map_loop : forall kv,
      Forall (fun p => emb_ok (snd p)) kv ->
      forall r x ok, rel x ok ->
        let X := fold_left
            (fun (st : node * (fault * ires)) p =>
               let '(r, (fc, res)) := st in
               let '(k, v) := p in
               match res with
               | IFail _ => st
               | IOk =>
                 match k with
                 | XScalar kb _ =>
                   let '(hit1, f1) := tick fc in
                   if hit1 then (junk r, (f1, IFail IE_NOMEM))
                   else
                     let '(r', res') := vset_subtree_then r kb (fun a => import_x key_err junk v a f1) in
                     (r', match res' with inl e => (f1, IFail (key_err e)) | inr x => x end)
                 | _ => st
                 end
               end)
            (map (fun p : ynode * ynode => let '(k, v) := p in (embed k, embed v)) kv) (r, x) in
        let Y := fold_left
            (fun (st : node * bool) p =>
               let '(r, ok) := st in
               let '(k, v) := p in
               if negb ok then st
               else match k with
                    | YScalar kb _ =>
                      let '(r', res) := vset_subtree_then r kb (fun a => yaml_import v a) in
                      (r', match res with inl _ => false | inr b => b end)
                    | _ => st
                    end)
            kv (r, ok) in
        fst X = fst Y /\ rel (snd X) (snd Y).
  Proof.
    induction kv as [|[k v] kv IH]; intros HP r x ok Hrel; [cbn; split; [reflexivity|exact Hrel]|].
    inversion HP as [|? ? Hv Hr]; subst. cbn [snd] in Hv. cbn [map fold_left].
    destruct x as [fc res]. destruct Hrel as [Hf Hok]. cbn [fst snd] in Hf, Hok. subst fc.
    destruct res as [|e]; cbn [is_ok] in Hok; subst ok; cbn [negb].
    - destruct k as [kb st | |]; cbn [embed]; try (apply IH; [exact Hr|split; reflexivity]).
      cbn [tick].
      destruct (vset_subtree_then_rel rel (fun a => import_x key_err junk (embed v) a None)
                                      (fun a => yaml_import v a) Hv r kb) as [H1 H2].
      destruct (vset_subtree_then r kb (fun a => import_x key_err junk (embed v) a None)) as [r1 res1].
      destruct (vset_subtree_then r kb (fun a => yaml_import v a)) as [r2 res2].
      cbn [fst snd] in H1, H2. subst r2.
      destruct res1 as [e1|x1], res2 as [e2|b2]; cbn [rel_res] in H2; try contradiction.
      + apply IH; [exact Hr|split; reflexivity].
      + apply IH; [exact Hr|exact H2].
    - apply IH; [exact Hr|split; reflexivity].
  Qed.

  Lemma embed_list_loop : forall l,
      Forall emb_ok l ->
      forall i r x ok, rel x ok ->
        let X := fold_left
            (fun (st : nat * node * (fault * ires)) v =>
               let '(i, r, (fc, res)) := st in
               match res with
               | IFail _ => st
               | IOk =>
                 let '(hit1, f1) := tick fc in
                 if hit1 then (S i, junk r, (f1, IFail IE_NOMEM))
                 else
                   let '(r', res') := vset_subtree_then r (index_desc i) (fun a => import_x key_err junk v a f1) in
                   (S i, r', match res' with inl e => (f1, IFail (IE_SYS e)) | inr x => x end)
               end)
            (map embed l) (i, r, x) in
        let Y := fold_left
            (fun (st : nat * node * bool) v =>
               let '(i, r, ok) := st in
               if negb ok then st
               else let '(r', res) := vset_subtree_then r (index_desc i) (fun a => yaml_import v a) in
                    (S i, r', match res with inl _ => false | inr b => b end))
            l (i, r, ok) in
        snd (fst X) = snd (fst Y) /\ rel (snd X) (snd Y).
  Proof.
    induction l as [|v l IH]; intros HP i r x ok Hrel; [cbn; split; [reflexivity|exact Hrel]|].
    inversion HP as [|? ? Hv Hr]; subst. cbn [map fold_left].
    destruct x as [fc res]. destruct Hrel as [Hf Hok]. cbn [fst snd] in Hf, Hok. subst fc.
    destruct res as [|e]; cbn [is_ok] in Hok; subst ok; cbn [negb].
    - cbn [tick].
      destruct (vset_subtree_then_rel rel (fun a => import_x key_err junk (embed v) a None)
                                      (fun a => yaml_import v a) Hv r (index_desc i)) as [H1 H2].
      destruct (vset_subtree_then r (index_desc i) (fun a => import_x key_err junk (embed v) a None)) as [r1 res1].
      destruct (vset_subtree_then r (index_desc i) (fun a => yaml_import v a)) as [r2 res2].
      cbn [fst snd] in H1, H2. subst r2.
      destruct res1 as [e1|x1], res2 as [e2|b2]; cbn [rel_res] in H2; try contradiction.
      + apply IH; [exact Hr|split; reflexivity].
      + apply IH; [exact Hr|exact H2].
    - apply IH; [exact Hr|split; reflexivity].
  Qed.

  (* on an alias-free document, without allocation failure, the total model is YamlModel.yaml_import:
     same tree in the anchor, success exactly when that one succeeds, for every anchor content *)
  Theorem import_x_embed_lemma : forall y, emb_ok y.
  Proof.
    induction y as [v st | kv IH | l IH] using ynode_ind'; intros root.
    - cbn [embed import_x yaml_import]. destruct (is_yaml_null v && is_plain st); [cbn; repeat split; reflexivity|].
      cbn [tick]. destruct (vset root (46 :: 61 :: v)%N) as [r out]. cbn [fst snd]. split; [reflexivity|].
      split; [reflexivity|]. cbn [snd]. destruct (o_ret out =? 0)%Z; reflexivity.
    - cbn [embed import_x yaml_import tick].
      destruct (vset_subtree root [123; 125]%N) as [r0 out0].
      destruct (negb (o_ret out0 =? 0)%Z); [cbn; repeat split; reflexivity|].
      apply (embed_map_loop kv IH r0 (None, IOk) true). split; reflexivity.
    - cbn [embed import_x yaml_import tick].
      destruct (vset_subtree root [91; 93]%N) as [r0 out0].
      destruct (negb (o_ret out0 =? 0)%Z); [cbn; repeat split; reflexivity|].
      match goal with |- context [fold_left ?fx (map embed l) ?sx] => set (X := fold_left fx (map embed l) sx) end.
      match goal with |- context [fold_left ?fy l ?sy] => set (Y := fold_left fy l sy) end.
      assert (H : snd (fst X) = snd (fst Y) /\ rel (snd X) (snd Y))
        by exact (embed_list_loop l IH O r0 (None, IOk) true (conj eq_refl eq_refl)).
      clearbody X Y. destruct X as [[i1 r1] x1], Y as [[i2 r2] ok2].
      exact H.
  Qed.

  (* ... and the public importers of the total model are YamlModel.import_public *)
  Theorem import_public_x_embed_lemma (l : yload) (root : node) :
    fst (import_public_x key_err junk (embed_load l) root None) = fst (import_public l root)
    /\ is_ok (snd (import_public_x key_err junk (embed_load l) root None)) = snd (import_public l root).
  Proof.
    destruct l as [| | y]; cbn [embed_load import_public_x import_public fst snd is_ok]; try (split; reflexivity).
    unfold import_document. destruct (import_x_embed_lemma y NNull) as [H1 [H2 H3]].
    destruct (import_x key_err junk (embed y) NNull None) as [r [f' res]].
    destruct (yaml_import y NNull) as [r2 ok2]. cbn [fst snd] in *. subst.
    destruct res; cbn [is_ok fst snd]; split; reflexivity.
  Qed.
End Embed.

(* ---------------------------------------------------------------- DO91: the class of every failure *)
Lemma tick_facts (fc : fault) :
  (fc = None -> tick fc = (false, None)) /\ (fst (tick fc) = true -> fc <> None)
  /\ (snd (tick fc) <> None -> fc <> None).
Proof. destruct fc as [[|k]|]; cbn; repeat split; congruence. Qed.

(* the result handed back by vset_subtree_then is the result of the final operation on some anchor content *)
Lemma vset_subtree_then_inr {A} (inner : node -> node * A) root d x :
  snd (vset_subtree_then root d inner) = inr x -> exists a0, x = snd (inner a0).
Proof.
  intros H.
  destruct (vset_subtree_then_rel (fun (x : A) (_ : unit) => exists a0, x = snd (inner a0))
                                  inner (fun a => (fst (inner a), tt))
                                  (fun a => conj eq_refl (ex_intro _ a eq_refl)) root d) as [_ H2].
  rewrite H in H2. destruct (snd (vset_subtree_then root d (fun a => (fst (inner a), tt)))) as [e|[]]; cbn in H2;
    [contradiction|exact H2].
Qed.

(* storing item i < INT_MAX of a sequence cannot be refused *)
Lemma index_step {A} (inner : node -> node * A) vec al i :
  (Z.of_nat i < INT_MAX)%Z ->
  exists vec' al' a0, vset_subtree_then (NList vec al) (index_desc i) inner = (NList vec' al', inr (snd (inner a0))).
Proof.
  intros Hi. unfold vset_subtree_then. rewrite parse_index_desc by (unfold INT_MAX in Hi; lia).
  cbn [is_eof descend_set list_parts]. unfold list_extend.
  replace (Z.of_nat i <? 0)%Z with false by (symmetry; apply Z.ltb_ge; lia).
  replace (Z.of_nat i =? INT_MAX)%Z with false by (symmetry; apply Z.eqb_neq; lia).
  destruct (Z.of_nat i <? Z.of_nat (length vec))%Z; cbn [descend_set].
  - destruct (inner (nth (Z.to_nat (Z.of_nat i)) vec NNull)) as [n' a] eqn:E.
    eexists _, _, (nth (Z.to_nat (Z.of_nat i)) vec NNull). rewrite E. reflexivity.
  - match goal with |- context [inner ?x] => destruct (inner x) as [n' a] eqn:E; eexists _, _, x; rewrite E end.
    reflexivity.
Qed.

Definition good_class (f : fault) (e : ierr) : Prop := e = IE_BADMSG \/ (e = IE_NOMEM /\ f <> None).

Section ErrClass.
  Variable junk : node -> node.

  Definition cls_ok (y : xnode) : Prop :=
    forall root f, seqs_small y = true ->
      (f = None -> fst (snd (import_x key_err_DO91 junk y root f)) = None)
      /\ forall e, snd (snd (import_x key_err_DO91 junk y root f)) = IFail e -> good_class f e.

  Lemma class_map_loop : forall kv,
      Forall (fun p => cls_ok (snd p)) kv ->
      forallb (fun p : xnode * xnode => let '(k, v) := p in seqs_small v) kv = true ->
      forall (f : fault) r fc res,
        (f = None -> fc = None) -> (forall e, res = IFail e -> good_class f e) ->
        let X := fold_left
            (fun (st : node * (fault * ires)) p =>
               let '(r, (fc, res)) := st in
               let '(k, v) := p in
               match res with
               | IFail _ => st
               | IOk =>
                 match k with
                 | XScalar kb _ =>
                   let '(hit1, f1) := tick fc in
                   if hit1 then (junk r, (f1, IFail IE_NOMEM))
                   else
                     let '(r', res') := vset_subtree_then r kb (fun a => import_x key_err_DO91 junk v a f1) in
                     (r', match res' with inl e => (f1, IFail (key_err_DO91 e)) | inr x => x end)
                 | _ => st
                 end
               end)
            kv (r, (fc, res)) in
        (f = None -> fst (snd X) = None) /\ forall e, snd (snd X) = IFail e -> good_class f e.
  Proof.
    induction kv as [|[k v] kv IH]; intros HP Hs f r fc res Hf Hres; [cbn; split; assumption|].
    inversion HP as [|? ? Hv Hr]; subst. cbn [snd] in Hv.
    cbn [forallb] in Hs. apply andb_true_iff in Hs as [Hsv Hsr]. cbn [fold_left].
    destruct res as [|e0]; [|apply IH; assumption].
    destruct k as [kb st| | |]; try (apply IH; assumption).
    destruct (tick_facts fc) as [T1 [T2 T3]].
    destruct (tick fc) as [hit1 f1] eqn:ET. cbn [fst snd] in T2, T3.
    assert (Hf1 : f = None -> f1 = None).
    { intros E. specialize (T1 (Hf E)). congruence. }
    assert (Hup : forall e, good_class f1 e -> good_class f e).
    { intros e [G|[G1 G2]]; [left; exact G|right; split; [exact G1|]]. intros E. apply (T3 G2). exact (Hf E). }
    destruct hit1.
    - apply IH; try assumption.
      intros e He. injection He as <-. right. split; [reflexivity|]. intros E. apply (T2 eq_refl). exact (Hf E).
    - destruct (vset_subtree_then r kb (fun a => import_x key_err_DO91 junk v a f1)) as [r' [e1|x]] eqn:EV.
      + apply IH; try assumption. intros e He. injection He as <-. left. reflexivity.
      + destruct (vset_subtree_then_inr (fun a => import_x key_err_DO91 junk v a f1) r kb x) as [a0 Ha0];
          [rewrite EV; reflexivity|].
        destruct (Hv a0 f1 Hsv) as [V1 V2]. destruct x as [fx rx]. rewrite <- Ha0 in V1, V2. cbn [fst snd] in V1, V2.
        apply IH; try assumption.
        * intros E. apply V1. exact (Hf1 E).
        * intros e He. apply Hup. apply V2. exact He.
  Qed.

  Lemma class_list_loop : forall l,
      Forall cls_ok l -> forallb seqs_small l = true ->
      forall (f : fault) i r fc res,
        (Z.of_nat (i + length l) < INT_MAX)%Z ->
        (res = IOk -> exists vec al, r = NList vec al) ->
        (f = None -> fc = None) -> (forall e, res = IFail e -> good_class f e) ->
        let X := fold_left
            (fun (st : nat * node * (fault * ires)) v =>
               let '(i, r, (fc, res)) := st in
               match res with
               | IFail _ => st
               | IOk =>
                 let '(hit1, f1) := tick fc in
                 if hit1 then (S i, junk r, (f1, IFail IE_NOMEM))
                 else
                   let '(r', res') := vset_subtree_then r (index_desc i) (fun a => import_x key_err_DO91 junk v a f1) in
                   (S i, r', match res' with inl e => (f1, IFail (IE_SYS e)) | inr x => x end)
               end)
            l (i, r, (fc, res)) in
        (f = None -> fst (snd X) = None) /\ forall e, snd (snd X) = IFail e -> good_class f e.
  Proof.
    induction l as [|v l IH]; intros HP Hs f i r fc res Hi Hr Hf Hres; [cbn; split; assumption|].
    inversion HP as [|? ? Hv HPr]; subst.
    cbn [forallb] in Hs. apply andb_true_iff in Hs as [Hsv Hsr]. cbn [fold_left]. cbn [length] in Hi.
    destruct res as [|e0].
    2:{ apply IH; try assumption; try lia; discriminate. }
    destruct (Hr eq_refl) as [vec [al ->]].
    destruct (tick_facts fc) as [T1 [T2 T3]].
    destruct (tick fc) as [hit1 f1] eqn:ET. cbn [fst snd] in T2, T3.
    assert (Hf1 : f = None -> f1 = None).
    { intros E. specialize (T1 (Hf E)). congruence. }
    assert (Hup : forall e, good_class f1 e -> good_class f e).
    { intros e [G|[G1 G2]]; [left; exact G|right; split; [exact G1|]]. intros E. apply (T3 G2). exact (Hf E). }
    destruct hit1.
    - apply IH; try assumption; [lia|discriminate|].
      intros e He. injection He as <-. right. split; [reflexivity|]. intros E. apply (T2 eq_refl). exact (Hf E).
    - destruct (index_step (fun a => import_x key_err_DO91 junk v a f1) vec al i) as [vec' [al' [a0 EV]]]; [lia|].
      rewrite EV.
      destruct (Hv a0 f1 Hsv) as [V1 V2].
      destruct (import_x key_err_DO91 junk v a0 f1) as [n' [fx rx]]. cbn [fst snd] in V1, V2 |- *.
      apply IH; try assumption; [lia|intros _; eauto| |].
      + intros E. apply V1. exact (Hf1 E).
      + intros e He. apply Hup. apply V2. exact He.
  Qed.

  Theorem import_x_class_lemma : forall y, cls_ok y.
  Proof.
    induction y as [v st | kv IH | l IH |] using xnode_ind'; intros root f Hs.
    - cbn [import_x]. destruct (is_yaml_null v && is_plain st); [cbn; split; [auto|discriminate]|].
      destruct (tick_facts f) as [T1 [T2 T3]]. destruct (tick f) as [hit f1] eqn:ET. cbn [fst snd] in T2, T3.
      destruct hit.
      + cbn [fst snd]. split; [intros E; specialize (T1 E); congruence|].
        intros e He. injection He as <-. right. split; [reflexivity|exact (T2 eq_refl)].
      + rewrite vset_dot_assign. cbn. split; [intros E; specialize (T1 E); congruence|discriminate].
    - cbn [import_x]. cbn [seqs_small] in Hs.
      destruct (tick_facts f) as [T1 [T2 T3]]. destruct (tick f) as [hit f0] eqn:ET. cbn [fst snd] in T2, T3.
      destruct hit.
      + cbn [fst snd]. split; [intros E; specialize (T1 E); congruence|].
        intros e He. injection He as <-. right. split; [reflexivity|exact (T2 eq_refl)].
      + rewrite vset_subtree_map. cbn [o_ret ok0 Z.eqb negb].
        apply (class_map_loop kv IH Hs f (NMap (map_entries root)) f0 IOk).
        * intros E. specialize (T1 E). congruence.
        * discriminate.
    - cbn [import_x]. cbn [seqs_small] in Hs. apply andb_true_iff in Hs as [Hlen Hs]. apply Z.ltb_lt in Hlen.
      destruct (tick_facts f) as [T1 [T2 T3]]. destruct (tick f) as [hit f0] eqn:ET. cbn [fst snd] in T2, T3.
      destruct hit.
      + cbn [fst snd]. split; [intros E; specialize (T1 E); congruence|].
        intros e He. injection He as <-. right. split; [reflexivity|exact (T2 eq_refl)].
      + rewrite vset_subtree_list. cbn [o_ret ok0 Z.eqb negb].
        match goal with |- context [fold_left ?fx l ?sx] => set (X := fold_left fx l sx) end.
        assert (H : (f = None -> fst (snd X) = None) /\ forall e, snd (snd X) = IFail e -> good_class f e).
        { apply (class_list_loop l IH Hs f O _ f0 IOk); [cbn; lia|intros _; eauto| |discriminate].
          intros E. specialize (T1 E). congruence. }
        clearbody X. destruct X as [[i1 r1] x1]. exact H.
    - cbn. split; [auto|]. intros e He. injection He as <-. left. reflexivity.
  Qed.
End ErrClass.

(* After DO91, for every document whose sequences can be indexed (fewer than INT_MAX items each), every
   previous content, every fault and whatever a faulted call leaves behind: a failing import reports
   EBADMSG (VNAERR_SYNTAX) - or ENOMEM, and that only if an allocation was made to fail.  In particular a
   refused mapping key is EBADMSG; no failure is reported as a usage error (EINVAL) in the system category. *)
Theorem import_failure_class_lemma (junk : node -> node) (l : xload) (root : node) (f : fault) (e : ierr) :
  match l with XDocument y => seqs_small y = true | _ => True end ->
  snd (import_public_x key_err_DO91 junk l root f) = IFail e ->
  e = IE_BADMSG \/ (e = IE_NOMEM /\ f <> None).
Proof.
  destruct l as [| | y]; cbn [import_public_x snd]; intros Hs H; try (injection H as <-; left; reflexivity).
  destruct (import_x_class_lemma junk y NNull f Hs) as [_ H2].
  destruct (import_x key_err_DO91 junk y NNull f) as [r [f' [|e']]]; cbn [fst snd] in *; [discriminate|].
  injection H as <-. apply H2. reflexivity.
Qed.
