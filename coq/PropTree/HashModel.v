(* HashModel: the hash table of a property map as coded in src/vnaproperty.c (map_compare_keys,
   map_find_anchor, the insertion in map_subtree, map_delete, map_expand with its in-place rehash),
   for an arbitrary hash function h (the code uses CRC-32C).  No proofs in this file.

   A table is the list of its buckets; a bucket is its chain of keys in chain order (the element's
   stored hash value is h key).  The insertion-order list and the values are not part of this
   model: PropModel keeps them as the association list, HashProofs shows that the table finds
   exactly the keys of that list. *)
Require Import List NArith Bool.
Import ListNotations.
Require Import LV.PropTree.PropModel.

Section Hash.
  Variable h : bytes -> N.

  (* strcmp on unsigned bytes *)
  Fixpoint bytes_cmp (a b : bytes) : comparison :=
    match a, b with
    | [], [] => Eq
    | [], _ :: _ => Lt
    | _ :: _, [] => Gt
    | x :: a', y :: b' => match N.compare x y with Eq => bytes_cmp a' b' | c => c end
    end.

  (* map_compare_keys: by hash value first, then by key *)
  Definition ecmp (k e : bytes) : comparison :=
    match N.compare (h k) (h e) with Eq => bytes_cmp k e | c => c end.

  (* map_find_anchor on one chain: the elements passed over (compare > 0) and the chain from the
     anchor on *)
  Fixpoint chain_split (k : bytes) (c : list bytes) : list bytes * list bytes :=
    match c with
    | [] => ([], [])
    | e :: r => match ecmp k e with
                | Gt => let '(p, q) := chain_split k r in (e :: p, q)
                | _ => ([], c)
                end
    end.

  (* "return cmp == 0" *)
  Definition chain_found (k : bytes) (c : list bytes) : bool :=
    match snd (chain_split k c) with
    | e :: _ => match ecmp k e with Eq => true | _ => false end
    | [] => false
    end.

  (* vmep->vme_hash_next = *anchor; *anchor = vmep   (also the re-insertion loop of map_expand) *)
  Definition chain_insert (k : bytes) (c : list bytes) : list bytes :=
    let '(p, q) := chain_split k c in p ++ k :: q.

  (* *anchor = vmep->vme_hash_next   (map_delete, after the key was found) *)
  Definition chain_delete (k : bytes) (c : list bytes) : list bytes :=
    let '(p, q) := chain_split k c in p ++ tl q.

  Definition table := list (list bytes).

  Definition bucket (size : nat) (k : bytes) : nat := N.to_nat (h k mod N.of_nat size).

  Definition t_found (k : bytes) (t : table) : bool :=
    chain_found k (nth (bucket (length t) k) t []).
  Definition t_insert (k : bytes) (t : table) : table :=
    let b := bucket (length t) k in set_nth b (chain_insert k (nth b t [])) t.
  Definition t_delete (k : bytes) (t : table) : table :=
    let b := bucket (length t) k in set_nth b (chain_delete k (nth b t [])) t.

  (* map_expand: new_allocation = (count + 1) + (count + 2) / 2, at least 11; the table is
     realloc'ed (old chains stay where they are, new buckets empty); then for s = 0 .. old - 1 the
     chain of bucket s is detached and each of its elements is re-inserted, in chain order, into
     the bucket its hash selects in the *new* size (elements that land in a not yet visited bucket
     are processed again when the loop gets there) *)
  Definition new_size (count : nat) : nat := Nat.max 11 (Nat.add (Nat.add count 1) (Nat.div (Nat.add count 2) 2)).

  Definition rehash_chain (c : list bytes) (t : table) : table :=
    fold_left (fun t e => t_insert e t) c t.

  Definition expand_step (t : table) (s : nat) : table :=
    rehash_chain (nth s t []) (set_nth s [] t).

  Definition t_expand (count : nat) (t : table) : table :=
    let old := length t in
    let new := new_size count in
    fold_left expand_step (seq 0 old) (t ++ repeat [] (Nat.sub new old)).

  (* map_subtree: "if (count + 1 >= 2 * hash_size) map_expand", then find; insert when adding *)
  Definition needs_expand (count : nat) (t : table) : bool := Nat.leb (Nat.mul 2 (length t)) (Nat.add count 1).
  Definition t_prepare (count : nat) (t : table) : table :=
    if needs_expand count t then t_expand count t else t.
End Hash.
