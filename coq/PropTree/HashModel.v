(* HashModel: the hash table of a property map as coded in src/vnaproperty.c (map_compare_keys,
   map_find_anchor, the insertion in map_subtree, map_delete, map_expand with its in-place rehash),
   for an arbitrary hash function h (the code uses CRC-32C).  No proofs in this file.

   A table is the list of its buckets; a bucket is its chain of keys in chain order (the element's
   stored hash value is h key).  The insertion-order list and the values are not part of this
   model: PropModel keeps them as the association list, HashProofs shows that the table finds
   exactly the keys of that list. *)
Require Import List NArith Bool.
Import ListNotations.
Require Import LV.PropTree.PropModel.

Section Hash.
  Variable h : bytes -> N.

  (* strcmp on unsigned bytes *)
  Fixpoint bytes_cmp (a b : bytes) : comparison :=
    match a, b with
    | [], [] => Eq
    | [], _ :: _ => Lt
    | _ :: _, [] => Gt
    | x :: a', y :: b' => match N.compare x y with Eq => bytes_cmp a' b' | c => c end
    end.

  (* map_compare_keys: by hash value first, then by key *)
  Definition ecmp (k e : bytes) : comparison :=
    match N.compare (h k) (h e) with Eq => bytes_cmp k e | c => c end.

  (* map_find_anchor on one chain: the elements passed over (compare > 0) and the chain from the
     anchor on *)
  Fixpoint chain_split (k : bytes) (c : list bytes) : list bytes * list bytes :=
    match c with
    | [] => ([], [])
    | e :: r => match ecmp k e with
                | Gt => let '(p, q) := chain_split k r in (e :: p, q)
                | _ => ([], c)
                end
    end.

  (* "return cmp == 0" *)
  Definition chain_found (k : bytes) (c : list bytes) : bool :=
    match snd (chain_split k c) with
    | e :: _ => match ecmp k e with Eq => true | _ => false end
    | [] => false
    end.

  (* vmep->vme_hash_next = *anchor; *anchor = vmep   (also the re-insertion loop of map_expand) *)
  Definition chain_insert (k : bytes) (c : list bytes) : list bytes :=
    let '(p, q) := chain_split k c in p ++ k :: q.

  (* *anchor = vmep->vme_hash_next   (map_delete, after the key was found) *)
  Definition chain_delete (k : bytes) (c : list bytes) : list bytes :=
    let '(p, q) := chain_split k c in p ++ tl q.

  Definition table := list (list bytes).

  Definition bucket (size : nat) (k : bytes) : nat := N.to_nat (h k mod N.of_nat size).

  Definition t_found (k : bytes) (t : table) : bool :=
    chain_found k (nth (bucket (length t) k) t []).
  Definition t_insert (k : bytes) (t : table) : table :=
    let b := bucket (length t) k in set_nth b (chain_insert k (nth b t [])) t.
  Definition t_delete (k : bytes) (t : table) : table :=
    let b := bucket (length t) k in set_nth b (chain_delete k (nth b t [])) t.

  (* map_expand: new_allocation = (count + 1) + (count + 2) / 2, at least 11; the table is
     realloc'ed (old chains stay where they are, new buckets empty); then for s = 0 .. old - 1 the
     chain of bucket s is detached and each of its elements is re-inserted, in chain order, into
     the bucket its hash selects in the *new* size (elements that land in a not yet visited bucket
     are processed again when the loop gets there) *)
  Definition new_size (count : nat) : nat := Nat.max 11 (Nat.add (Nat.add count 1) (Nat.div (Nat.add count 2) 2)).

  Definition rehash_chain (c : list bytes) (t : table) : table :=
    fold_left (fun t e => t_insert e t) c t.

  Definition expand_step (t : table) (s : nat) : table :=
    rehash_chain (nth s t []) (set_nth s [] t).

  Definition t_expand (count : nat) (t : table) : table :=
    let old := length t in
    let new := new_size count in
    fold_left expand_step (seq 0 old) (t ++ repeat [] (Nat.sub new old)).

  (* map_subtree: "if (count + 1 >= 2 * hash_size) map_expand", then find; insert when adding *)
  Definition needs_expand (count : nat) (t : table) : bool := Nat.leb (Nat.mul 2 (length t)) (Nat.add count 1).
  Definition t_prepare (count : nat) (t : table) : table :=
    if needs_expand count t then t_expand count t else t.

  (* The four ways the code reaches the table of a map.  State = (vpm_hash_table, vpm_count); the
     boolean result is "the key was found".
       HSet k  : map_subtree(map, add = true, k)   (descend with set = true)
       HLook k : map_subtree(map, add = false, k)  (descend with set = false: it expands, too)
       HGet k  : map_get(map, k)                   (copy / YAML export: no expansion; an empty table
                                                    is answered without touching it)
       HDel k  : map_delete(map, k)                (count == 0 is answered first) *)
  Inductive hop := HSet (k : bytes) | HLook (k : bytes) | HGet (k : bytes) | HDel (k : bytes).

  Definition hstate := (table * nat)%type.
  Definition h_empty : hstate := ([], O).

  Definition h_step (s : hstate) (o : hop) : hstate * bool :=
    let '(t, count) := s in
    match o with
    | HSet k =>
        let t1 := t_prepare count t in
        if t_found k t1 then ((t1, count), true) else ((t_insert k t1, S count), false)
    | HLook k =>
        let t1 := t_prepare count t in ((t1, count), t_found k t1)
    | HGet k =>
        (s, match t with [] => false | _ :: _ => t_found k t end)
    | HDel k =>
        match count with
        | O => (s, false)
        | S c => if t_found k t then ((t_delete k t, c), true) else (s, false)
        end
    end.

  Fixpoint h_run (s : hstate) (ops : list hop) : hstate * list bool :=
    match ops with
    | [] => (s, [])
    | o :: r => let '(s1, b) := h_step s o in let '(s2, bs) := h_run s1 r in (s2, b :: bs)
    end.
End Hash.

(* CRC-32C as crc32c() of src/vnaproperty.c computes it: most significant bit first, polynomial
   0x1EDC6F41, start value 0xFFFFFFFF (the callers pass -1), no final inversion.  The C code reads
   crc32c_table[i]; crc_entry i is that entry computed from the polynomial (checks/C13.py compares
   the 256 entries of the C source with this definition). *)
Definition crc_poly : N := 517762881%N.          (* 0x1EDC6F41 *)
Definition crc_mask : N := 4294967295%N.         (* 0xFFFFFFFF *)
Fixpoint crc_bits (n : nat) (v : N) : N :=
  match n with
  | O => v
  | S m => let v2 := N.land (N.shiftl v 1) crc_mask in
           crc_bits m (if N.testbit v 31 then N.lxor v2 crc_poly else v2)
  end.
Definition crc_entry (i : N) : N := crc_bits 8 (N.shiftl i 24).
Definition crc_byte (v b : N) : N :=
  N.lxor (N.land (N.shiftl v 8) crc_mask) (crc_entry (N.lxor (N.shiftr v 24) b)).
Definition crc32c (k : bytes) : N := fold_left crc_byte k crc_mask.
