(* HashProofs: the insertion-ordered association list that PropModel uses for a map node is a sound
   abstraction of the hash table as coded in src/vnaproperty.c (HashModel), for EVERY hash function
   h and EVERY sequence of operations, growth with the in-place rehash of map_expand included.

   Main results
     Rep_empty, Rep_step, hash_refines_assoc_lemma : the found-flags of the table (h_run) and of the
       association list (a_run) agree on every script, and the invariant Rep relates the two states;
     Rep_found (map_get), Rep_keys, expand_keeps_keys / prepare_keeps_keys (map_expand);
     hash_refines_const_hash, hash_refines_growth : executable instances (all keys collide; growth
       0 -> 11 -> 33 buckets with CRC-32C);
     sorted_needed_refuted : look-up really relies on the chain order. *)
Require Import List NArith Bool Arith Lia Permutation Sorted.
Import ListNotations.
Require Import LV.PropTree.PropModel LV.PropTree.HashModel.
Local Close Scope N_scope.
Local Open Scope nat_scope.

(* ================================================================== the association-list side *)
(* what PropModel does to the entries of a map node (descend_set / descend_get / delete_at) *)
Definition a_step {A} (kv : list (bytes * A)) (ov : hop * A) : list (bytes * A) * bool :=
  let '(o, v) := ov in
  match o with
  | HSet k => match lookup k kv with
              | Some _ => (update k v kv, true)
              | None => (kv ++ [(k, v)], false)
              end
  | HLook k | HGet k => (kv, match lookup k kv with Some _ => true | None => false end)
  | HDel k => match lookup k kv with
              | Some _ => (remove_key k kv, true)
              | None => (kv, false)
              end
  end.

Fixpoint a_run {A} (kv : list (bytes * A)) (ops : list (hop * A)) : list (bytes * A) * list bool :=
  match ops with
  | [] => (kv, [])
  | ov :: r => let '(kv1, b) := a_step kv ov in let '(kv2, bs) := a_run kv1 r in (kv2, b :: bs)
  end.

(* ================================================================== keys: equality and order *)
Lemma hp_bytes_eqb_eq : forall a b, bytes_eqb a b = true <-> a = b.
Proof.
  induction a as [|x a IH]; intros [|y b]; simpl; split; intros H; try discriminate; auto.
  - apply andb_true_iff in H. destruct H as [H1 H2]. apply N.eqb_eq in H1. apply IH in H2. subst. reflexivity.
  - injection H as H1 H2. subst. apply andb_true_iff. split; [apply N.eqb_refl | apply IH; reflexivity].
Qed.

Lemma hp_bytes_eqb_refl : forall a, bytes_eqb a a = true.
Proof. intro a. apply hp_bytes_eqb_eq. reflexivity. Qed.

Lemma bytes_cmp_eq : forall a b, bytes_cmp a b = Eq <-> a = b.
Proof.
  induction a as [|x a IH]; intros [|y b]; simpl.
  - split; reflexivity.
  - split; discriminate.
  - split; discriminate.
  - destruct (N.compare_spec x y) as [Hxy|Hxy|Hxy].
    + subst y. rewrite IH. split; [intros ->; reflexivity | intros H; injection H as H; exact H].
    + split; [discriminate | intros H; injection H as H1 H2; subst; exfalso; revert Hxy; apply N.lt_irrefl].
    + split; [discriminate | intros H; injection H as H1 H2; subst; exfalso; revert Hxy; apply N.lt_irrefl].
Qed.

Lemma bytes_cmp_antisym : forall a b, bytes_cmp b a = CompOpp (bytes_cmp a b).
Proof.
  induction a as [|x a IH]; intros [|y b]; simpl; try reflexivity.
  rewrite (N.compare_antisym x y). destruct (N.compare x y); simpl; [apply IH | reflexivity | reflexivity].
Qed.

Lemma bytes_cmp_gt_lt : forall a b, bytes_cmp a b = Gt <-> bytes_cmp b a = Lt.
Proof.
  intros a b. rewrite (bytes_cmp_antisym a b). destruct (bytes_cmp a b); simpl; split; intro H; try discriminate; reflexivity.
Qed.

Lemma bytes_cmp_lt_trans : forall a b c, bytes_cmp a b = Lt -> bytes_cmp b c = Lt -> bytes_cmp a c = Lt.
Proof.
  induction a as [|x a IH]; intros [|y b] [|z c]; simpl; intros H1 H2; try discriminate; try reflexivity.
  destruct (N.compare_spec x y) as [Hxy|Hxy|Hxy]; try discriminate;
  destruct (N.compare_spec y z) as [Hyz|Hyz|Hyz]; try discriminate; subst.
  - rewrite N.compare_refl. eapply IH; eassumption.
  - apply N.compare_lt_iff in Hyz. rewrite Hyz. reflexivity.
  - apply N.compare_lt_iff in Hxy. rewrite Hxy. reflexivity.
  - assert (Hxz : (x < z)%N) by (eapply N.lt_trans; eassumption).
    apply N.compare_lt_iff in Hxz. rewrite Hxz. reflexivity.
Qed.

Section Order.
  Variable h : bytes -> N.

  (* map_compare_keys is a strict total order on keys (the hash is a function of the key) *)
  Lemma ecmp_eq : forall a b, ecmp h a b = Eq <-> a = b.
  Proof.
    intros a b. unfold ecmp. destruct (N.compare_spec (h a) (h b)) as [He|He|He].
    - apply bytes_cmp_eq.
    - split; [discriminate | intros ->; exfalso; revert He; apply N.lt_irrefl].
    - split; [discriminate | intros ->; exfalso; revert He; apply N.lt_irrefl].
  Qed.

  Lemma ecmp_refl : forall a, ecmp h a a = Eq.
  Proof. intro a. apply ecmp_eq. reflexivity. Qed.

  Lemma ecmp_antisym : forall a b, ecmp h b a = CompOpp (ecmp h a b).
  Proof.
    intros a b. unfold ecmp. rewrite (N.compare_antisym (h a) (h b)).
    destruct (N.compare (h a) (h b)); simpl; [apply bytes_cmp_antisym | reflexivity | reflexivity].
  Qed.

  Lemma ecmp_gt_lt : forall a b, ecmp h a b = Gt <-> ecmp h b a = Lt.
  Proof.
    intros a b. rewrite (ecmp_antisym a b). destruct (ecmp h a b); simpl; split; intro H; try discriminate; reflexivity.
  Qed.

  Lemma ecmp_lt_trans : forall a b c, ecmp h a b = Lt -> ecmp h b c = Lt -> ecmp h a c = Lt.
  Proof.
    intros a b c. unfold ecmp.
    destruct (N.compare_spec (h a) (h b)) as [Hab|Hab|Hab]; try discriminate;
    destruct (N.compare_spec (h b) (h c)) as [Hbc|Hbc|Hbc]; try discriminate; intros H1 H2.
    - rewrite Hab, Hbc, N.compare_refl. eapply bytes_cmp_lt_trans; eassumption.
    - rewrite Hab. apply N.compare_lt_iff in Hbc. rewrite Hbc. reflexivity.
    - rewrite <- Hbc. apply N.compare_lt_iff in Hab. rewrite Hab. reflexivity.
    - assert (Hac : (h a < h c)%N) by (eapply N.lt_trans; eassumption).
      apply N.compare_lt_iff in Hac. rewrite Hac. reflexivity.
  Qed.

  Definition elt (a b : bytes) : Prop := ecmp h a b = Lt.
  Definition sorted (c : list bytes) : Prop := StronglySorted elt c.

  Lemma elt_irrefl : forall a, ~ elt a a.
  Proof. intros a H. unfold elt in H. rewrite ecmp_refl in H. discriminate. Qed.

  (* ---------------------------------------------------------------- one chain *)
  Lemma chain_found_cons : forall k e r,
    chain_found h k (e :: r) = match ecmp h k e with Gt => chain_found h k r | Eq => true | Lt => false end.
  Proof.
    intros k e r. unfold chain_found. cbn [chain_split].
    destruct (ecmp h k e) eqn:E; cbn [snd].
    - rewrite E. reflexivity.
    - rewrite E. reflexivity.
    - destruct (chain_split h k r) as [p q]. reflexivity.
  Qed.

  Lemma chain_insert_cons : forall k e r,
    chain_insert h k (e :: r) = match ecmp h k e with Gt => e :: chain_insert h k r | _ => k :: e :: r end.
  Proof.
    intros k e r. unfold chain_insert. cbn [chain_split].
    destruct (ecmp h k e); try reflexivity.
    destruct (chain_split h k r) as [p q]. reflexivity.
  Qed.

  Lemma chain_delete_cons : forall k e r,
    chain_delete h k (e :: r) = match ecmp h k e with Gt => e :: chain_delete h k r | _ => r end.
  Proof.
    intros k e r. unfold chain_delete. cbn [chain_split].
    destruct (ecmp h k e); try reflexivity.
    destruct (chain_split h k r) as [p q]. reflexivity.
  Qed.

  (* map_find_anchor splits a sorted chain into the elements below the key and the rest *)
  Lemma chain_split_spec : forall k c p q, sorted c -> chain_split h k c = (p, q) ->
    c = p ++ q /\ Forall (fun e => elt e k) p /\ Forall (fun e => ecmp h k e <> Gt) q.
  Proof.
    intros k c; induction c as [|e r IH]; intros p q Hs Hsp.
    - simpl in Hsp. injection Hsp as <- <-. split; [reflexivity | split; constructor].
    - inversion Hs as [|? ? Hsr Hall]; subst. rewrite Forall_forall in Hall.
      cbn [chain_split] in Hsp. destruct (ecmp h k e) eqn:E.
      + injection Hsp as <- <-. split; [reflexivity | split; [constructor|]].
        apply Forall_forall. intros x [Hx|Hx].
        * subst x. rewrite E. discriminate.
        * apply ecmp_eq in E. subst e. specialize (Hall x Hx). unfold elt in Hall. rewrite Hall. discriminate.
      + injection Hsp as <- <-. split; [reflexivity | split; [constructor|]].
        apply Forall_forall. intros x [Hx|Hx].
        * subst x. rewrite E. discriminate.
        * rewrite (ecmp_lt_trans k e x E (Hall x Hx)). discriminate.
      + destruct (chain_split h k r) as [p1 q1] eqn:Er. injection Hsp as <- <-.
        destruct (IH p1 q1 Hsr eq_refl) as [Hc [Hp Hq]]. split; [simpl; rewrite <- Hc; reflexivity|].
        split; [|exact Hq]. constructor; [apply ecmp_gt_lt; exact E | exact Hp].
  Qed.

  Lemma chain_found_iff : forall k c, sorted c -> (chain_found h k c = true <-> In k c).
  Proof.
    intros k c; induction c as [|e r IH]; intros Hs.
    - unfold chain_found; simpl. split; [discriminate | intros []].
    - inversion Hs as [|? ? Hsr Hall]; subst. rewrite Forall_forall in Hall.
      rewrite chain_found_cons. destruct (ecmp h k e) eqn:E.
      + apply ecmp_eq in E. subst e. split; [intros _; left; reflexivity | reflexivity].
      + split; [discriminate|]. intros [He|Hin].
        * subst e. rewrite ecmp_refl in E. discriminate.
        * specialize (Hall k Hin). unfold elt in Hall. apply ecmp_gt_lt in Hall. rewrite Hall in E. discriminate.
      + rewrite (IH Hsr). split; [intro Hin; right; exact Hin|]. intros [He|Hin]; [|exact Hin].
        subst e. rewrite ecmp_refl in E. discriminate.
  Qed.

  Lemma chain_insert_perm : forall k c, Permutation (chain_insert h k c) (k :: c).
  Proof.
    intros k c; induction c as [|e r IH].
    - unfold chain_insert; simpl. apply Permutation_refl.
    - rewrite chain_insert_cons. destruct (ecmp h k e); try apply Permutation_refl.
      eapply perm_trans; [apply perm_skip; exact IH | apply perm_swap].
  Qed.

  Lemma chain_insert_in : forall k c x, In x (chain_insert h k c) <-> x = k \/ In x c.
  Proof.
    intros k c x. split; intro H.
    - apply (Permutation_in _ (chain_insert_perm k c)) in H. destruct H as [H|H]; [left; symmetry; exact H | right; exact H].
    - apply (Permutation_in _ (Permutation_sym (chain_insert_perm k c))).
      destruct H as [H|H]; [left; symmetry; exact H | right; exact H].
  Qed.

  Lemma chain_insert_sorted : forall k c, sorted c -> ~ In k c -> sorted (chain_insert h k c).
  Proof.
    intros k c; induction c as [|e r IH]; intros Hs Hn.
    - unfold chain_insert; simpl. constructor; constructor.
    - inversion Hs as [|? ? Hsr Hall]; subst.
      assert (Hne : ecmp h k e <> Eq).
      { intro E. apply ecmp_eq in E. apply Hn. left. symmetry. exact E. }
      assert (Hlt : ecmp h k e = Lt -> sorted (k :: e :: r)).
      { intro E. constructor; [exact Hs|]. constructor; [exact E|].
        rewrite Forall_forall in *. intros x Hx. eapply ecmp_lt_trans; [exact E | apply Hall; exact Hx]. }
      rewrite chain_insert_cons. destruct (ecmp h k e) eqn:E.
      + exfalso. apply Hne. reflexivity.
      + apply Hlt. reflexivity.
      + constructor.
        * apply IH; [exact Hsr | intro Hin; apply Hn; right; exact Hin].
        * rewrite Forall_forall in *. intros x Hx. apply chain_insert_in in Hx.
          destruct Hx as [Hx|Hx]; [subst x; apply ecmp_gt_lt; exact E | apply Hall; exact Hx].
  Qed.

  Lemma chain_delete_perm : forall k c, sorted c -> In k c -> Permutation c (k :: chain_delete h k c).
  Proof.
    intros k c; induction c as [|e r IH]; intros Hs Hin; [destruct Hin|].
    inversion Hs as [|? ? Hsr Hall]; subst. rewrite Forall_forall in Hall.
    rewrite chain_delete_cons. destruct (ecmp h k e) eqn:E.
    - apply ecmp_eq in E. subst e. apply Permutation_refl.
    - exfalso. destruct Hin as [He|Hin].
      + subst e. rewrite ecmp_refl in E. discriminate.
      + specialize (Hall k Hin). unfold elt in Hall. apply ecmp_gt_lt in Hall. rewrite Hall in E. discriminate.
    - destruct Hin as [He|Hin]; [subst e; rewrite ecmp_refl in E; discriminate|].
      eapply perm_trans; [apply perm_skip; apply IH; assumption | apply perm_swap].
  Qed.

  Lemma chain_delete_incl : forall k c x, In x (chain_delete h k c) -> In x c.
  Proof.
    intros k c; induction c as [|e r IH]; intros x Hx.
    - exact Hx.
    - rewrite chain_delete_cons in Hx. destruct (ecmp h k e); try (right; exact Hx).
      destruct Hx as [Hx|Hx]; [left; exact Hx | right; apply IH; exact Hx].
  Qed.

  Lemma chain_delete_sorted : forall k c, sorted c -> sorted (chain_delete h k c).
  Proof.
    intros k c; induction c as [|e r IH]; intros Hs.
    - exact Hs.
    - inversion Hs as [|? ? Hsr Hall]; subst. rewrite chain_delete_cons.
      destruct (ecmp h k e); try exact Hsr.
      constructor; [apply IH; exact Hsr|]. rewrite Forall_forall in *.
      intros x Hx. apply Hall. eapply chain_delete_incl; exact Hx.
  Qed.

  (* ---------------------------------------------------------------- tables *)
  Lemma hp_length_set_nth : forall (A : Type) (l : list A) j x, length (set_nth j x l) = length l.
  Proof. induction l as [|a l IH]; destruct j; simpl; intros; auto. Qed.

  Lemma hp_nth_set_nth_same : forall (A : Type) j (l : list A) x d, j < length l -> nth j (set_nth j x l) d = x.
  Proof.
    induction j as [|j IH]; destruct l as [|a l]; simpl; intros x d Hj; try lia; auto.
    apply IH. lia.
  Qed.

  Lemma hp_nth_set_nth_other : forall (A : Type) j m (l : list A) x d, j <> m -> nth m (set_nth j x l) d = nth m l d.
  Proof.
    induction j as [|j IH]; destruct l as [|a l], m as [|m]; simpl; intros x d Hne; try lia; auto.
  Qed.

  Lemma concat_set_nth_split : forall (t : table) j c, j < length t ->
    Permutation (concat (set_nth j c t)) (c ++ concat (set_nth j [] t)) /\
    Permutation (concat t) (nth j t [] ++ concat (set_nth j [] t)).
  Proof.
    induction t as [|a t IH]; intros j c Hj; simpl in *; [lia|].
    destruct j as [|j]; simpl.
    - split; apply Permutation_refl.
    - destruct (IH j c ltac:(lia)) as [H1 H2]. split.
      + eapply perm_trans; [apply Permutation_app_head; exact H1|].
        rewrite !app_assoc. apply Permutation_app_tail. apply Permutation_app_comm.
      + eapply perm_trans; [apply Permutation_app_head; exact H2|].
        rewrite !app_assoc. apply Permutation_app_tail. apply Permutation_app_comm.
  Qed.

  Lemma in_concat_nth : forall (t : table) k, In k (concat t) <-> exists j, j < length t /\ In k (nth j t []).
  Proof.
    intros t k. rewrite in_concat. split.
    - intros [c [Hc Hk]]. destruct (In_nth _ _ [] Hc) as [j [Hj He]]. exists j. split; [exact Hj | rewrite He; exact Hk].
    - intros [j [Hj Hk]]. exists (nth j t []). split; [apply nth_In; exact Hj | exact Hk].
  Qed.

  Lemma concat_repeat_nil : forall (A : Type) n, concat (repeat (@nil A) n) = [].
  Proof. induction n; simpl; auto. Qed.

  Lemma nth_repeat_nil : forall (A : Type) n j, nth j (repeat (@nil A) n) [] = [].
  Proof. induction n; destruct j; simpl; auto. Qed.

  Lemma bucket_lt : forall size k, 0 < size -> bucket h size k < size.
  Proof.
    intros size k Hs. unfold bucket.
    assert (Hm : (h k mod N.of_nat size < N.of_nat size)%N) by (apply N.mod_lt; lia).
    lia.
  Qed.

  (* every chain sorted; every key in the bucket its hash selects for the current size, or in a
     bucket lo <= j < old that map_expand has not yet visited *)
  Definition chains_ok (t : table) (lo old : nat) : Prop :=
    forall j, j < length t ->
      sorted (nth j t []) /\
      forall k, In k (nth j t []) -> bucket h (length t) k = j \/ lo <= j < old.

  (* the invariant of a table outside map_expand *)
  Definition table_ok (t : table) : Prop :=
    forall j, j < length t ->
      sorted (nth j t []) /\ forall k, In k (nth j t []) -> bucket h (length t) k = j.

  Lemma table_ok_chains : forall t lo old, table_ok t -> chains_ok t lo old.
  Proof.
    intros t lo old H j Hj. destruct (H j Hj) as [Hs Hb]. split; [exact Hs|].
    intros k Hk. left. apply Hb. exact Hk.
  Qed.

  Lemma chains_table_ok : forall t old, chains_ok t old old -> table_ok t.
  Proof.
    intros t old H j Hj. destruct (H j Hj) as [Hs Hb]. split; [exact Hs|].
    intros k Hk. destruct (Hb k Hk) as [Hl|Hr]; [exact Hl | lia].
  Qed.

  Lemma t_insert_length : forall k t, length (t_insert h k t) = length t.
  Proof. intros k t. unfold t_insert. apply hp_length_set_nth. Qed.

  Lemma t_delete_length : forall k t, length (t_delete h k t) = length t.
  Proof. intros k t. unfold t_delete. apply hp_length_set_nth. Qed.

  Lemma t_insert_perm : forall k t, 0 < length t -> Permutation (concat (t_insert h k t)) (k :: concat t).
  Proof.
    intros k t Hpos. unfold t_insert. set (b := bucket h (length t) k).
    assert (Hb : b < length t) by (apply bucket_lt; exact Hpos).
    destruct (concat_set_nth_split t b (chain_insert h k (nth b t [])) Hb) as [H1 H2].
    eapply perm_trans; [exact H1|].
    eapply perm_trans; [apply Permutation_app_tail; apply chain_insert_perm|].
    simpl. apply perm_skip. apply Permutation_sym. exact H2.
  Qed.

  Lemma t_insert_ok : forall k t lo old, chains_ok t lo old -> 0 < length t -> ~ In k (concat t) ->
    chains_ok (t_insert h k t) lo old.
  Proof.
    intros k t lo old Hok Hpos Hn j Hj. rewrite t_insert_length in *. unfold t_insert.
    set (b := bucket h (length t) k).
    assert (Hb : b < length t) by (apply bucket_lt; exact Hpos).
    destruct (Nat.eq_dec b j) as [He|Hne].
    - subst j. rewrite hp_nth_set_nth_same by exact Hb. destruct (Hok b Hb) as [Hs Hp]. split.
      + apply chain_insert_sorted; [exact Hs|]. intro Hin. apply Hn. apply in_concat_nth. exists b. split; assumption.
      + intros x Hx. apply chain_insert_in in Hx. destruct Hx as [Hx|Hx]; [subst x; left; reflexivity | apply Hp; exact Hx].
    - rewrite hp_nth_set_nth_other by exact Hne. apply Hok. exact Hj.
  Qed.

  Lemma t_found_iff : forall k t, table_ok t -> (t_found h k t = true <-> In k (concat t)).
  Proof.
    intros k t Hok. destruct (Nat.eq_dec (length t) 0) as [Hz|Hnz].
    - destruct t as [|c t]; [|discriminate]. unfold t_found. simpl.
      destruct (bucket h 0 k); unfold chain_found; simpl; split; [discriminate | intros [] | discriminate | intros []].
    - assert (Hpos : 0 < length t) by lia. unfold t_found. set (b := bucket h (length t) k).
      assert (Hb : b < length t) by (apply bucket_lt; exact Hpos).
      destruct (Hok b Hb) as [Hs _]. rewrite (chain_found_iff k _ Hs). split.
      + intro Hin. apply in_concat_nth. exists b. split; assumption.
      + intro Hin. apply in_concat_nth in Hin. destruct Hin as [j [Hj Hin]].
        destruct (Hok j Hj) as [_ Hp]. rewrite <- (Hp k Hin) in Hin. exact Hin.
  Qed.

  Lemma t_delete_perm : forall k t, table_ok t -> In k (concat t) ->
    Permutation (concat t) (k :: concat (t_delete h k t)).
  Proof.
    intros k t Hok Hin. apply in_concat_nth in Hin. destruct Hin as [j [Hj Hin]].
    destruct (Hok j Hj) as [Hs Hp]. pose proof (Hp k Hin) as Hbj.
    unfold t_delete. rewrite Hbj.
    destruct (concat_set_nth_split t j (chain_delete h k (nth j t [])) Hj) as [H1 H2].
    eapply perm_trans; [exact H2|].
    eapply perm_trans; [apply Permutation_app_tail; apply (chain_delete_perm k _ Hs Hin)|].
    simpl. apply perm_skip. apply Permutation_sym. exact H1.
  Qed.

  Lemma t_delete_ok : forall k t, table_ok t -> table_ok (t_delete h k t).
  Proof.
    intros k t Hok j Hj. rewrite t_delete_length in *. unfold t_delete.
    set (b := bucket h (length t) k).
    destruct (Nat.eq_dec b j) as [He|Hne].
    - subst j. rewrite hp_nth_set_nth_same by exact Hj. destruct (Hok b Hj) as [Hs Hp]. split.
      + apply chain_delete_sorted. exact Hs.
      + intros x Hx. apply Hp. eapply chain_delete_incl. exact Hx.
    - rewrite hp_nth_set_nth_other by exact Hne. apply Hok. exact Hj.
  Qed.

  (* ---------------------------------------------------------------- map_expand *)
  (* re-inserting the detached chain c (the "pending" elements) *)
  Lemma rehash_chain_ok : forall c t lo old, chains_ok t lo old -> 0 < length t -> NoDup (c ++ concat t) ->
    chains_ok (rehash_chain h c t) lo old /\
    Permutation (concat (rehash_chain h c t)) (c ++ concat t) /\
    length (rehash_chain h c t) = length t.
  Proof.
    induction c as [|e c IH]; intros t lo old Hok Hpos Hnd.
    - simpl. split; [exact Hok | split; [apply Permutation_refl | reflexivity]].
    - unfold rehash_chain. cbn [fold_left]. fold (rehash_chain h c (t_insert h e t)).
      simpl in Hnd. inversion Hnd as [|? ? Hnin Hnd']; subst.
      assert (Hne : ~ In e (concat t)) by (intro Hin; apply Hnin; apply in_or_app; right; exact Hin).
      pose proof (t_insert_perm e t Hpos) as Hpi.
      assert (Hnd1 : NoDup (c ++ concat (t_insert h e t))).
      { eapply Permutation_NoDup; [|exact Hnd].
        eapply perm_trans; [apply Permutation_middle|]. apply Permutation_app_head. apply Permutation_sym. exact Hpi. }
      destruct (IH (t_insert h e t) lo old (t_insert_ok e t lo old Hok Hpos Hne)
                   ltac:(rewrite t_insert_length; exact Hpos) Hnd1) as [Hok1 [Hp1 Hl1]].
      split; [exact Hok1|]. split; [|rewrite Hl1; apply t_insert_length].
      eapply perm_trans; [exact Hp1|]. eapply perm_trans; [apply Permutation_app_head; exact Hpi|].
      apply Permutation_sym. apply Permutation_middle.
  Qed.

  Lemma expand_step_ok : forall t lo old, chains_ok t lo old -> lo < old -> old <= length t -> NoDup (concat t) ->
    chains_ok (expand_step h t lo) (S lo) old /\
    Permutation (concat (expand_step h t lo)) (concat t) /\
    length (expand_step h t lo) = length t.
  Proof.
    intros t lo old Hok Hlo Hold Hnd. unfold expand_step.
    assert (Hlt : lo < length t) by lia.
    destruct (concat_set_nth_split t lo [] Hlt) as [_ Hsp].
    assert (Hok0 : chains_ok (set_nth lo [] t) (S lo) old).
    { intros j Hj. rewrite hp_length_set_nth in *. destruct (Nat.eq_dec lo j) as [He|Hne].
      - subst j. rewrite hp_nth_set_nth_same by exact Hlt. split; [constructor | intros k []].
      - rewrite hp_nth_set_nth_other by exact Hne. destruct (Hok j Hj) as [Hs Hp]. split; [exact Hs|].
        intros k Hk. destruct (Hp k Hk) as [Hl|Hr]; [left; exact Hl | right; lia]. }
    destruct (rehash_chain_ok (nth lo t []) (set_nth lo [] t) (S lo) old Hok0
                ltac:(rewrite hp_length_set_nth; lia)
                ltac:(eapply Permutation_NoDup; [exact Hsp | exact Hnd])) as [Hok1 [Hp1 Hl1]].
    split; [exact Hok1|]. split; [|rewrite Hl1; apply hp_length_set_nth].
    eapply perm_trans; [exact Hp1|]. apply Permutation_sym. exact Hsp.
  Qed.

  Lemma expand_loop_ok : forall n lo t old, chains_ok t lo old -> lo + n = old -> old <= length t -> NoDup (concat t) ->
    chains_ok (fold_left (expand_step h) (seq lo n) t) old old /\
    Permutation (concat (fold_left (expand_step h) (seq lo n) t)) (concat t) /\
    length (fold_left (expand_step h) (seq lo n) t) = length t.
  Proof.
    induction n as [|n IH]; intros lo t old Hok Hlo Hold Hnd.
    - simpl. assert (He : lo = old) by lia. subst lo.
      split; [exact Hok | split; [apply Permutation_refl | reflexivity]].
    - cbn [seq fold_left].
      destruct (expand_step_ok t lo old Hok ltac:(lia) Hold Hnd) as [Hok1 [Hp1 Hl1]].
      destruct (IH (S lo) (expand_step h t lo) old Hok1 ltac:(lia) ltac:(lia)
                   ltac:(eapply Permutation_NoDup; [apply Permutation_sym; exact Hp1 | exact Hnd]))
        as [Hok2 [Hp2 Hl2]].
      split; [exact Hok2|]. split; [eapply perm_trans; eassumption | congruence].
  Qed.

  Lemma new_size_ge11 : forall count, 11 <= new_size count.
  Proof. intro count. unfold new_size. apply Nat.le_max_l. Qed.

  Lemma new_size_gt : forall count, count + 1 <= new_size count.
  Proof.
    intro count. unfold new_size.
    eapply Nat.le_trans; [|apply Nat.le_max_r]. apply Nat.le_add_r.
  Qed.

  (* map_expand keeps the key multiset and the invariant, whatever the count, as long as the new
     size is not below the old one (map_subtree calls it only when 2 * size <= count + 1) *)
  Lemma expand_keeps_keys : forall count t, table_ok t -> NoDup (concat t) -> length t <= new_size count ->
    table_ok (t_expand h count t) /\
    Permutation (concat (t_expand h count t)) (concat t) /\
    length (t_expand h count t) = new_size count.
  Proof.
    intros count t Hok Hnd Hle. unfold t_expand.
    set (t0 := t ++ repeat [] (new_size count - length t)).
    assert (Hl0 : length t0 = new_size count).
    { unfold t0. rewrite app_length, repeat_length. lia. }
    assert (Hc0 : concat t0 = concat t).
    { unfold t0. rewrite concat_app, concat_repeat_nil, app_nil_r. reflexivity. }
    assert (Hok0 : chains_ok t0 0 (length t)).
    { intros j Hj. rewrite Hl0. destruct (Nat.lt_ge_cases j (length t)) as [Hlt|Hge].
      - unfold t0. rewrite app_nth1 by exact Hlt. destruct (Hok j Hlt) as [Hs _]. split; [exact Hs|].
        intros k _. right. lia.
      - unfold t0. rewrite app_nth2 by exact Hge. rewrite nth_repeat_nil. split; [constructor | intros k []]. }
    destruct (expand_loop_ok (length t) 0 t0 (length t) Hok0 ltac:(lia) ltac:(lia)
                ltac:(rewrite Hc0; exact Hnd)) as [Hok1 [Hp1 Hl1]].
    split; [eapply chains_table_ok; exact Hok1|].
    split; [rewrite <- Hc0; exact Hp1 | rewrite Hl1; exact Hl0].
  Qed.

  (* "if (count + 1 >= 2 * hash_size) map_expand": afterwards the table is not empty *)
  Lemma prepare_keeps_keys : forall count t, table_ok t -> NoDup (concat t) ->
    table_ok (t_prepare h count t) /\
    Permutation (concat (t_prepare h count t)) (concat t) /\
    count + 1 < 2 * length (t_prepare h count t).
  Proof.
    intros count t Hok Hnd. unfold t_prepare, needs_expand.
    destruct (Nat.leb_spec (2 * length t) (count + 1)) as [Hle|Hgt].
    - pose proof (new_size_gt count) as Hg. pose proof (new_size_ge11 count) as H11.
      destruct (expand_keeps_keys count t Hok Hnd ltac:(lia)) as [Hok1 [Hp1 Hl1]].
      split; [exact Hok1|]. split; [exact Hp1 | lia].
    - split; [exact Hok|]. split; [apply Permutation_refl | lia].
  Qed.
End Order.

(* ================================================================== association lists *)
Lemma hp_lookup_none_iff : forall A k (kv : list (bytes * A)), lookup k kv = None <-> ~ In k (map fst kv).
Proof.
  intros A k kv; induction kv as [|[k1 v1] r IH]; simpl; [tauto|].
  destruct (bytes_eqb k k1) eqn:E.
  - apply hp_bytes_eqb_eq in E. subst k1. split; [discriminate|]. intros H. exfalso. apply H. left. reflexivity.
  - rewrite IH. split; intros H; [|tauto]. intros [H1|H1]; [|tauto].
    subst k1. rewrite hp_bytes_eqb_refl in E. discriminate.
Qed.

Lemma hp_lookup_flag_iff : forall A k (kv : list (bytes * A)),
  (match lookup k kv with Some _ => true | None => false end) = true <-> In k (map fst kv).
Proof.
  intros A k kv. pose proof (hp_lookup_none_iff A k kv) as Hn.
  destruct (lookup k kv) as [v|].
  - split; [intros _|reflexivity].
    destruct (in_dec (list_eq_dec N.eq_dec) k (map fst kv)) as [Hin|Hnin]; [exact Hin|].
    apply Hn in Hnin. discriminate.
  - split; [discriminate|]. intro Hin. exfalso. apply (proj1 Hn eq_refl). exact Hin.
Qed.

Lemma hp_update_keys : forall A k (v : A) kv, map fst (update k v kv) = map fst kv.
Proof.
  intros A k v kv; induction kv as [|[k1 v1] r IH]; simpl; [reflexivity|].
  destruct (bytes_eqb k k1); simpl; [reflexivity | rewrite IH; reflexivity].
Qed.

Lemma hp_update_length : forall A k (v : A) kv, length (update k v kv) = length kv.
Proof. intros A k v kv. rewrite <- (map_length fst), hp_update_keys, map_length. reflexivity. Qed.

Lemma hp_remove_key_perm : forall A k (kv : list (bytes * A)), In k (map fst kv) ->
  Permutation (map fst kv) (k :: map fst (remove_key k kv)).
Proof.
  intros A k kv; induction kv as [|[k1 v1] r IH]; simpl; intros Hin; [destruct Hin|].
  destruct (bytes_eqb k k1) eqn:E.
  - apply hp_bytes_eqb_eq in E. subst k1. apply Permutation_refl.
  - destruct Hin as [He|Hin]; [subst k1; rewrite hp_bytes_eqb_refl in E; discriminate|].
    simpl. eapply perm_trans; [apply perm_skip; apply IH; exact Hin | apply perm_swap].
Qed.

(* ================================================================== the representation invariant *)
(* the table state (t, count) represents the association list kv *)
Definition Rep (h : bytes -> N) {A} (kv : list (bytes * A)) (s : hstate) : Prop :=
  let '(t, count) := s in
  count = length kv /\
  NoDup (map fst kv) /\
  Permutation (concat t) (map fst kv) /\
  (forall j, j < length t ->
     StronglySorted (fun a b => ecmp h a b = Lt) (nth j t []) /\
     forall k, In k (nth j t []) -> bucket h (length t) k = j) /\
  (length t = 0 -> kv = []) /\
  (0 < count -> count < 2 * length t).

Lemma Rep_table_ok : forall h A (kv : list (bytes * A)) t count, Rep h kv (t, count) -> table_ok h t.
Proof. intros h A kv t count [_ [_ [_ [H _]]]]. exact H. Qed.

Lemma Rep_nodup_table : forall h A (kv : list (bytes * A)) t count, Rep h kv (t, count) -> NoDup (concat t).
Proof.
  intros h A kv t count [_ [Hnd [Hp _]]].
  eapply Permutation_NoDup; [apply Permutation_sym; exact Hp | exact Hnd].
Qed.

Lemma Rep_empty : forall h A, Rep h (@nil (bytes * A)) h_empty.
Proof.
  intros h A. unfold Rep, h_empty. simpl.
  split; [reflexivity|]. split; [constructor|]. split; [apply Permutation_refl|].
  split; [intros j Hj; lia|]. split; [reflexivity | lia].
Qed.

Lemma Rep_keys : forall h A (kv : list (bytes * A)) t count, Rep h kv (t, count) ->
  count = length kv /\ Permutation (concat t) (map fst kv).
Proof. intros h A kv t count [Hc [_ [Hp _]]]. split; assumption. Qed.

Lemma Rep_t_found : forall h A (kv : list (bytes * A)) t count k, Rep h kv (t, count) ->
  t_found h k t = match lookup k kv with Some _ => true | None => false end.
Proof.
  intros h A kv t count k HR. pose proof (Rep_table_ok _ _ _ _ _ HR) as Hok.
  destruct HR as [_ [_ [Hp _]]].
  apply eq_true_iff_eq. rewrite (t_found_iff h k t Hok), hp_lookup_flag_iff. split; intro Hin.
  - eapply Permutation_in; [exact Hp | exact Hin].
  - eapply Permutation_in; [apply Permutation_sym; exact Hp | exact Hin].
Qed.

(* map_get: an empty table is answered without touching it *)
Lemma Rep_found : forall h A (kv : list (bytes * A)) t count k, Rep h kv (t, count) ->
  (match t with [] => false | _ :: _ => t_found h k t end)
  = (match lookup k kv with Some _ => true | None => false end).
Proof.
  intros h A kv t count k HR. destruct t as [|c t].
  - destruct HR as [_ [_ [_ [_ [He _]]]]]. rewrite (He eq_refl). reflexivity.
  - eapply Rep_t_found. exact HR.
Qed.

(* map_subtree's "expand if needed" keeps the representation (same kv, same count) *)
Lemma Rep_prepare : forall h A (kv : list (bytes * A)) t count, Rep h kv (t, count) ->
  Rep h kv (t_prepare h count t, count) /\ count + 1 < 2 * length (t_prepare h count t).
Proof.
  intros h A kv t count HR.
  destruct (prepare_keeps_keys h count t (Rep_table_ok _ _ _ _ _ HR) (Rep_nodup_table _ _ _ _ _ HR))
    as [Hok1 [Hp1 Hl1]].
  destruct HR as [Hc [Hnd [Hp _]]].
  split; [|exact Hl1].
  split; [exact Hc|]. split; [exact Hnd|]. split; [eapply perm_trans; eassumption|].
  split; [exact Hok1|]. split; [intro Hz; lia | intros _; lia].
Qed.

Lemma Rep_step_eq : forall h A (kv : list (bytes * A)) s ov kv' fa s' fh, Rep h kv s ->
  a_step kv ov = (kv', fa) -> h_step h s (fst ov) = (s', fh) -> fh = fa /\ Rep h kv' s'.
Proof.
  intros h A kv [t count] [o v] kv' fa s' fh HR Ha Hh. cbn [fst] in Hh.
  destruct o as [k|k|k|k]; cbn [a_step h_step] in Ha, Hh.
  - (* HSet *)
    destruct (Rep_prepare h A kv t count HR) as [HR1 Hl1].
    set (t1 := t_prepare h count t) in *.
    rewrite (Rep_t_found h A kv t1 count k HR1) in Hh.
    pose proof (hp_lookup_none_iff A k kv) as Hnone.
    destruct HR1 as [Hc [Hnd [Hp [Hok [_ _]]]]].
    destruct (lookup k kv) as [v0|].
    + injection Ha as <- <-. injection Hh as <- <-. split; [reflexivity|].
      split; [rewrite hp_update_length; exact Hc|]. rewrite hp_update_keys.
      split; [exact Hnd|]. split; [exact Hp|]. split; [exact Hok|].
      split; [intro Hz; lia | intros _; lia].
    + injection Ha as <- <-. injection Hh as <- <-. split; [reflexivity|].
      assert (Hnin : ~ In k (map fst kv)) by (apply Hnone; reflexivity).
      assert (Hnin1 : ~ In k (concat t1)).
      { intro Hin. apply Hnin. eapply Permutation_in; [exact Hp | exact Hin]. }
      assert (Hpos : 0 < length t1) by lia.
      assert (Hkeys : map fst (kv ++ [(k, v)]) = map fst kv ++ [k]) by (rewrite map_app; reflexivity).
      split; [rewrite app_length; simpl; lia|]. rewrite Hkeys.
      split; [eapply Permutation_NoDup; [apply Permutation_cons_append | constructor; assumption]|].
      split.
      { eapply perm_trans; [apply t_insert_perm; exact Hpos|].
        eapply perm_trans; [apply perm_skip; exact Hp | apply Permutation_cons_append]. }
      split.
      { apply (chains_table_ok h _ 0). apply t_insert_ok; [apply table_ok_chains; exact Hok | exact Hpos | exact Hnin1]. }
      rewrite t_insert_length. split; [intro Hz; lia | intros _; lia].
  - (* HLook *)
    destruct (Rep_prepare h A kv t count HR) as [HR1 Hl1].
    rewrite (Rep_t_found h A kv _ count k HR1) in Hh.
    injection Ha as <- <-. injection Hh as <- <-. split; [reflexivity | exact HR1].
  - (* HGet *)
    rewrite (Rep_found h A kv t count k HR) in Hh.
    injection Ha as <- <-. injection Hh as <- <-. split; [reflexivity | exact HR].
  - (* HDel *)
    destruct count as [|c].
    + assert (Hkv : kv = []).
      { destruct HR as [Hc _]. destruct kv; [reflexivity | discriminate]. }
      subst kv. simpl in Ha. injection Ha as <- <-. injection Hh as <- <-. split; [reflexivity | exact HR].
    + rewrite (Rep_t_found h A kv t (S c) k HR) in Hh.
      pose proof (hp_lookup_flag_iff A k kv) as Hflag.
      pose proof (Rep_table_ok _ _ _ _ _ HR) as Hok.
      destruct HR as [Hc [Hnd [Hp [_ [He Hload]]]]].
      destruct (lookup k kv) as [v0|].
      * injection Ha as <- <-. injection Hh as <- <-. split; [reflexivity|].
        assert (Hin : In k (map fst kv)) by (apply Hflag; reflexivity).
        assert (Hin1 : In k (concat t)).
        { eapply Permutation_in; [apply Permutation_sym; exact Hp | exact Hin]. }
        pose proof (hp_remove_key_perm A k kv Hin) as Hpr.
        pose proof (t_delete_perm h k t Hok Hin1) as Hpd.
        assert (Hlen : length kv = S (length (remove_key k kv))).
        { rewrite <- (map_length fst kv), (Permutation_length Hpr). simpl. rewrite map_length. reflexivity. }
        assert (Hpos : 0 < length t).
        { destruct t as [|c0 t]; [destruct Hin1 | simpl; lia]. }
        split; [lia|].
        split.
        { assert (Hnd2 : NoDup (k :: map fst (remove_key k kv))) by (eapply Permutation_NoDup; eassumption).
          inversion Hnd2; assumption. }
        split.
        { apply (Permutation_cons_inv (a := k)).
          eapply perm_trans; [apply Permutation_sym; exact Hpd|].
          eapply perm_trans; [exact Hp | exact Hpr]. }
        split; [apply t_delete_ok; exact Hok|].
        rewrite t_delete_length. split; [intro Hz; lia | intros _; lia].
      * injection Ha as <- <-. injection Hh as <- <-. split; [reflexivity|].
        split; [exact Hc|]. split; [exact Hnd|]. split; [exact Hp|]. split; [exact Hok|]. split; assumption.
Qed.

Lemma Rep_step : forall h A (kv : list (bytes * A)) s ov, Rep h kv s ->
  let '(kv', fa) := a_step kv ov in
  let '(s', fh) := h_step h s (fst ov) in
  fh = fa /\ Rep h kv' s'.
Proof.
  intros h A kv s ov HR.
  destruct (a_step kv ov) as [kv' fa] eqn:Ea. destruct (h_step h s (fst ov)) as [s' fh] eqn:Eh.
  eapply Rep_step_eq; eassumption.
Qed.

Lemma hash_refines_from : forall (h : bytes -> N) (A : Type) (ops : list (hop * A)) kv0 s0 kv fa s fh,
  Rep h kv0 s0 ->
  a_run kv0 ops = (kv, fa) -> h_run h s0 (map fst ops) = (s, fh) ->
  fh = fa /\ Rep h kv s.
Proof.
  intros h A ops; induction ops as [|ov r IH]; intros kv0 s0 kv fa s fh HR Ha Hh.
  - simpl in Ha, Hh. injection Ha as <- <-. injection Hh as <- <-. split; [reflexivity | exact HR].
  - cbn [a_run h_run map] in Ha, Hh.
    destruct (a_step kv0 ov) as [kv1 b] eqn:Ea. destruct (h_step h s0 (fst ov)) as [s1 b'] eqn:Eh.
    destruct (Rep_step_eq h A kv0 s0 ov kv1 b s1 b' HR Ea Eh) as [Hb HR1].
    destruct (a_run kv1 r) as [kv2 bs] eqn:Ea2. destruct (h_run h s1 (map fst r)) as [s2 bs'] eqn:Eh2.
    destruct (IH kv1 s1 kv2 bs s2 bs' HR1 Ea2 Eh2) as [Hbs HR2].
    injection Ha as <- <-. injection Hh as <- <-. subst. split; [reflexivity | exact HR2].
Qed.

(* every script, every hash function: same found-flags, and the final states are related *)
Theorem hash_refines_assoc_lemma : forall (h : bytes -> N) (A : Type) (ops : list (hop * A)) kv fa s fh,
  a_run [] ops = (kv, fa) -> h_run h h_empty (map fst ops) = (s, fh) ->
  fh = fa /\ Rep h kv s.
Proof.
  intros h A ops kv fa s fh Ha Hh.
  eapply hash_refines_from; [apply Rep_empty | exact Ha | exact Hh].
Qed.

(* ================================================================== executable instances *)
(* every key collides: one chain *)
Definition const_script : list (hop * nat) :=
  [ (HSet [98%N], 1); (HSet [97%N], 2); (HLook [97%N], 0); (HSet [99%N; 1%N], 3); (HSet [97%N], 4);
    (HDel [97%N], 0); (HGet [97%N], 0); (HDel [97%N], 0); (HSet [97%N], 5); (HGet [97%N], 0);
    (HGet [98%N], 0); (HLook [100%N], 0) ].

Example hash_refines_const_hash :
  let h := fun _ : bytes => 0%N in
  snd (h_run h h_empty (map fst const_script)) = snd (a_run [] const_script) /\
  snd (a_run [] const_script)
    = [false; false; true; false; true; true; false; false; false; true; true; false] /\
  map fst (fst (a_run [] const_script)) = [[98%N]; [99%N; 1%N]; [97%N]] /\
  fst (h_run h h_empty (map fst const_script))
    = ([[97%N]; [98%N]; [99%N; 1%N]] :: repeat [] 10, 3).
Proof. vm_compute. repeat split. Qed.

(* growth 0 -> 11 -> 33 buckets with the real hash function *)
Definition growth_key (i : nat) : bytes := [N.of_nat (65 + i / 5); N.of_nat (97 + i mod 7); N.of_nat (48 + i)].
Definition growth_deleted : list nat := [3; 17; 29].
Definition growth_script : list (hop * nat) :=
  map (fun i => (HSet (growth_key i), i)) (seq 0 30)
  ++ map (fun i => (HDel (growth_key i), 0)) growth_deleted
  ++ map (fun i => (HGet (growth_key i), 0)) (seq 0 30)
  ++ map (fun i => (HLook (growth_key i), 0)) (seq 0 30).

Example hash_refines_growth :
  NoDup (map growth_key (seq 0 30)) /\
  (* the table after 1, 21, 22 insertions *)
  length (fst (fst (h_run crc32c h_empty (map fst (firstn 1 growth_script))))) = 11 /\
  length (fst (fst (h_run crc32c h_empty (map fst (firstn 21 growth_script))))) = 11 /\
  length (fst (fst (h_run crc32c h_empty (map fst (firstn 22 growth_script))))) = 33 /\
  let '((t, count), fh) := h_run crc32c h_empty (map fst growth_script) in
  length t = 33 /\ count = 27 /\
  fh = snd (a_run [] growth_script) /\
  fh = repeat false 30 ++ repeat true 3
       ++ map (fun i => negb (existsb (Nat.eqb i) growth_deleted)) (seq 0 30)
       ++ map (fun i => negb (existsb (Nat.eqb i) growth_deleted)) (seq 0 30) /\
  length (concat t) = 27 /\
  forallb (fun c => Nat.leb (length c) 3) t = true.
Proof.
  split.
  { apply (NoDup_map_inv (fun k => nth 2 k 0%N)). vm_compute.
    repeat (constructor; [simpl; intuition discriminate|]). constructor. }
  vm_compute. repeat split.
Qed.

(* ================================================================== the chain order is needed *)
(* a key stored in its own bucket of a table whose chain is NOT sorted is not found: look-up relies
   on the order that insertion and rehash maintain *)
Lemma sorted_needed_refuted :
  exists (h : bytes -> N) (t : table) (k : bytes),
    ~ StronglySorted (fun a b => ecmp h a b = Lt) (nth (bucket h (length t) k) t []) /\
    In k (concat t) /\
    In k (nth (bucket h (length t) k) t []) /\
    (forall j e, j < length t -> In e (nth j t []) -> bucket h (length t) e = j) /\
    NoDup (concat t) /\
    t_found h k t = false.
Proof.
  exists (fun _ => 0%N), [[[2%N]; [1%N]]], [1%N].
  split.
  { vm_compute. intro H. inversion H as [|? ? _ Hall]; subst.
    inversion Hall as [|? ? Hlt _]; subst. vm_compute in Hlt. discriminate. }
  split; [vm_compute; tauto|]. split; [vm_compute; tauto|].
  split.
  { intros j e Hj _. simpl in Hj. vm_compute. lia. }
  split; [simpl; repeat constructor; simpl; intuition discriminate | vm_compute; reflexivity].
Qed.

Print Assumptions hash_refines_assoc_lemma.
Print Assumptions Rep_found.
Print Assumptions expand_keeps_keys.
