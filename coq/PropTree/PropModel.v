(* PropModel: executable byte-level model of src/vnaproperty.c (scanner, descriptor parser,
   parse_and_descend, vset/vdelete/vget/vtype/vcount/vkeys/vget_subtree/vset_subtree, quote_key,
   copy).  Follows the C code as it is after the fixes D01, D02, D03, D39, D39b, D54, DP1 (all committed
   in /repo);
   no proofs in this file.

   Conventions
   - a C string is a [list N] of bytes 1..255 (no NUL inside; the drivers never send one);
   - maps are insertion-ordered association lists (the hash chains are not modelled: look-up is
     by key, the order list is what vnaproperty_keys shows);
   - a list node is its vector restricted to [0, vpl_length) plus the number vpl_allocation
     (cells at and beyond the length are NULL in the C code and are not represented);
   - NNull is the C NULL pointer in an anchor. *)
Require Import List NArith ZArith Bool.
Import ListNotations.
Open Scope N_scope.

Definition bytes := list N.

Fixpoint bytes_eqb (a b : bytes) : bool :=
  match a, b with
  | [], [] => true
  | x :: a', y :: b' => (x =? y) && bytes_eqb a' b'
  | _, _ => false
  end.

(* ------------------------------------------------------------------ character classes (C locale) *)
Definition is_alpha (c : N) : bool := ((65 <=? c) && (c <=? 90)) || ((97 <=? c) && (c <=? 122)).
Definition is_digit (c : N) : bool := (48 <=? c) && (c <=? 57).
Definition is_ws (c : N) : bool :=
  (c =? 12) || (c =? 10) || (c =? 13) || (c =? 9) || (c =? 11) || (c =? 32).
(* ISIDCHAR1: isalpha || !isascii || '_' || '\\' *)
Definition is_idchar1 (c : N) : bool := is_alpha c || (128 <=? c) || (c =? 95) || (c =? 92).
(* ISIDCHAR: adds digits, space and '-' *)
Definition is_idchar (c : N) : bool :=
  is_alpha c || is_digit c || (128 <=? c) || (c =? 32) || (c =? 95) || (c =? 45) || (c =? 92).

(* ------------------------------------------------------------------ tokens and scanner *)
Inductive tok :=
| T_ERROR | T_EOF | T_HASH | T_PLUS | T_DOT | T_ASSIGN | T_LBRACKET | T_RBRACKET
| T_LCURLY | T_RCURLY | T_ID (k : bytes) | T_INT (i : Z).

(* identifier loop.  [src] = index of the head of [s] relative to the first byte of the
   identifier, [dest] = bytes written so far (reversed), [prot] = source index of the last
   escaped character ("protected", initially 0 = the start).  None = backslash at end of
   input (T_ERROR). *)
Fixpoint id_loop (s : bytes) (src : nat) (dest : bytes) (prot : nat) {struct s}
  : option (bytes * nat * bytes) :=
  match s with
  | [] => Some (dest, prot, [])
  | c :: s1 =>
    if negb (is_idchar c) then Some (dest, prot, s)
    else if c =? 92 then
      match s1 with
      | [] => None
      | d :: s2 => id_loop s2 (S (S src)) (d :: dest) (S src)
      end
    else id_loop s1 (S src) (c :: dest) prot
  end.

(* trailing-space trim as coded: while (&destination[-1] > protected && destination[-1] == ' ')
   compares the destination index with a source index *)
Fixpoint trim (dest : bytes) (prot : nat) : bytes :=
  match dest with
  | [] => []
  | c :: d' => if (Nat.ltb prot (length d')) && (c =? 32) then trim d' prot else dest
  end.

Fixpoint span_digits (s : bytes) (acc : Z) : Z * bytes :=
  match s with
  | c :: r => if is_digit c then span_digits r (10 * acc + Z.of_N (c - 48))%Z else (acc, s)
  | [] => (acc, [])
  end.

Definition LONG_MAX : Z := 9223372036854775807%Z.
Definition INT_MAX : Z := 2147483647%Z.
(* strtol saturates at LONG_MAX; the assignment to int keeps the low 32 bits (two's complement) *)
Definition to_int (v : Z) : Z :=
  let v := if (LONG_MAX <? v)%Z then LONG_MAX else v in
  ((v + 2147483648) mod 4294967296 - 2147483648)%Z.

(* scan s = (token, remaining input after the token) *)
Fixpoint scan (s : bytes) : tok * bytes :=
  match s with
  | [] => (T_EOF, [])
  | c :: r =>
    if is_ws c then scan r
    else if c =? 35 then (T_HASH, r)
    else if c =? 43 then (T_PLUS, r)
    else if c =? 46 then (T_DOT, r)
    else if c =? 61 then (T_ASSIGN, r)
    else if c =? 91 then (T_LBRACKET, r)
    else if c =? 93 then (T_RBRACKET, r)
    else if c =? 123 then (T_LCURLY, r)
    else if c =? 125 then (T_RCURLY, r)
    else if is_digit c then
      let '(v, rest) := span_digits s 0%Z in (T_INT (to_int v), rest)
    else if is_idchar1 c then
      match id_loop s 0 [] 0 with
      | None => (T_ERROR, [])
      | Some (d, p, rest) => (T_ID (rev (trim d p)), rest)
      end
    else (T_ERROR, s)
  end.

(* ------------------------------------------------------------------ descriptor parser *)
Inductive expr :=
| E_MAP | E_MAP_ELEMENT (k : bytes) | E_LIST | E_LIST_ELEMENT (i : Z)
| E_LIST_INSERT (i : Z) | E_LIST_APPEND | E_DOT.

Inductive pstate := P0 | P1 | P2 | P3.

(* The state machine of parse(); acc = expression list so far (reversed).  Result: expression
   list, look-ahead token, input after the look-ahead; None = syntax error (EINVAL). *)
Definition abstract_map (r : bytes) (acc : list expr) : option (list expr * tok * bytes) :=
  let '(t1, r1) := scan r in
  match t1 with
  | T_RCURLY => let '(t2, r2) := scan r1 in Some (rev (E_MAP :: acc), t2, r2)
  | _ => None
  end.

Fixpoint parse_loop (fuel : nat) (st : pstate) (t : tok) (r : bytes) (acc : list expr)
  : option (list expr * tok * bytes) :=
  match fuel with
  | O => None
  | S f =>
    match st with
    | P0 =>
      match t with
      | T_DOT => let '(t1, r1) := scan r in parse_loop f P1 t1 r1 acc
      | T_ID k => let '(t1, r1) := scan r in parse_loop f P2 t1 r1 (E_MAP_ELEMENT k :: acc)
      | T_LBRACKET => let '(t1, r1) := scan r in parse_loop f P3 t1 r1 acc
      | T_LCURLY => abstract_map r acc
      | _ => None
      end
    | P1 =>
      match t with
      | T_ID k => let '(t1, r1) := scan r in parse_loop f P2 t1 r1 (E_MAP_ELEMENT k :: acc)
      | T_LBRACKET => let '(t1, r1) := scan r in parse_loop f P3 t1 r1 acc
      | T_LCURLY => abstract_map r acc
      | _ => Some (rev (E_DOT :: acc), t, r)
      end
    | P2 =>
      match t with
      | T_DOT => let '(t1, r1) := scan r in parse_loop f P1 t1 r1 acc
      | T_LBRACKET => let '(t1, r1) := scan r in parse_loop f P3 t1 r1 acc
      | T_LCURLY => abstract_map r acc
      | _ => Some (rev acc, t, r)
      end
    | P3 =>
      match t with
      | T_INT i =>
        let '(t1, r1) := scan r in
        match t1 with
        | T_PLUS =>
          let '(t2, r2) := scan r1 in
          match t2 with
          | T_RBRACKET => let '(t3, r3) := scan r2 in parse_loop f P2 t3 r3 (E_LIST_INSERT i :: acc)
          | _ => None
          end
        | T_RBRACKET => let '(t2, r2) := scan r1 in parse_loop f P2 t2 r2 (E_LIST_ELEMENT i :: acc)
        | _ => None
        end
      | T_PLUS =>
        let '(t1, r1) := scan r in
        match t1 with
        | T_RBRACKET => let '(t2, r2) := scan r1 in parse_loop f P2 t2 r2 (E_LIST_APPEND :: acc)
        | _ => None
        end
      | T_RBRACKET => let '(t1, r1) := scan r in Some (rev (E_LIST :: acc), t1, r1)
      | _ => None
      end
    end
  end.

(* every iteration but the first consumes at least one byte *)
Definition parse (s : bytes) : option (list expr * tok * bytes) :=
  let '(t, r) := scan s in parse_loop (S (S (length s))) P0 t r [].

(* ------------------------------------------------------------------ tree *)
Inductive node :=
| NNull
| NScalar (v : bytes)
| NMap (kv : list (bytes * node))
| NList (vec : list node) (alloc : nat).

Inductive ecode := E0 | EINVAL | ENOENT.

(* association lists *)
Fixpoint lookup {A} (k : bytes) (kv : list (bytes * A)) : option A :=
  match kv with
  | [] => None
  | (k', v) :: r => if bytes_eqb k k' then Some v else lookup k r
  end.
Fixpoint update {A} (k : bytes) (v : A) (kv : list (bytes * A)) : list (bytes * A) :=
  match kv with
  | [] => []
  | (k', v') :: r => if bytes_eqb k k' then (k', v) :: r else (k', v') :: update k v r
  end.
Fixpoint remove_key {A} (k : bytes) (kv : list (bytes * A)) : list (bytes * A) :=
  match kv with
  | [] => []
  | (k', v') :: r => if bytes_eqb k k' then r else (k', v') :: remove_key k r
  end.

(* positional lists *)
Fixpoint set_nth {A} (i : nat) (x : A) (l : list A) : list A :=
  match l, i with
  | [], _ => []
  | _ :: r, O => x :: r
  | y :: r, S j => y :: set_nth j x r
  end.
Fixpoint remove_nth {A} (i : nat) (l : list A) : list A :=
  match l, i with
  | [], _ => []
  | _ :: r, O => r
  | y :: r, S j => y :: remove_nth j r
  end.
Definition insert_nth {A} (i : nat) (x : A) (l : list A) : list A := firstn i l ++ x :: skipn i l.

(* list_check_allocation: new := max 8 alloc; while new <= size do new *= 2 *)
Fixpoint grow (fuel new size : nat) : nat :=
  match fuel with
  | O => new
  | S f => if Nat.leb new size then grow f (2 * new) size else new
  end.
Definition check_allocation (alloc size : nat) : nat :=
  if Nat.leb size alloc then alloc else grow (S size) (Nat.max 8 alloc) size.

Definition map_entries (n : node) : list (bytes * node) :=
  match n with NMap kv => kv | _ => [] end.
Definition list_parts (n : node) : list node * nat :=
  match n with NList vec a => (vec, a) | _ => ([], O) end.

(* list_subtree(add = true) / list_insert / list_append on (vec, alloc):
   Some (vec', alloc', index of the anchor) or None = EINVAL *)
Definition list_extend (vec : list node) (alloc : nat) (i : Z) : option (list node * nat * nat) :=
  if (i <? 0)%Z then None
  else if (i <? Z.of_nat (length vec))%Z then Some (vec, alloc, Z.to_nat i)
  else if (i =? INT_MAX)%Z then None                          (* fix D39 *)
  else Some (vec ++ repeat NNull (S (Z.to_nat i) - length vec), check_allocation alloc (S (Z.to_nat i)),
             Z.to_nat i).
Definition list_insert (vec : list node) (alloc : nat) (i : Z) : option (list node * nat * nat) :=
  if (i <? 0)%Z then None
  else if (i <? Z.of_nat (length vec))%Z
       then Some (insert_nth (Z.to_nat i) NNull vec, check_allocation alloc (S (length vec)), Z.to_nat i)
       else list_extend vec alloc i.
Definition list_append (vec : list node) (alloc : nat) : list node * nat * nat :=
  (vec ++ [NNull], check_allocation alloc (S (length vec)), length vec).

(* ------------------------------------------------------------------ parse_and_descend, set = true.
   The tree is made to conform to the expression list; [fin] is applied to the node in the final
   anchor and returns the node to store there plus a result.  The returned tree is the state of
   the C tree after the call whether or not an error is returned (the C code conforms the tree
   as it walks). *)
Fixpoint descend_set {A} (es : list expr) (fin : node -> node * A) (n : node)
  : node * (ecode + A) :=
  match es with
  | [] => let '(n', a) := fin n in (n', inr a)
  | E_DOT :: _ => let '(n', a) := fin n in (n', inr a)
  | E_MAP :: _ => let '(n', a) := fin (NMap (map_entries n)) in (n', inr a)
  | E_LIST :: _ =>
    let '(vec, al) := list_parts n in let '(n', a) := fin (NList vec al) in (n', inr a)
  | E_MAP_ELEMENT k :: es' =>
    let kv := map_entries n in
    match lookup k kv with
    | Some child => let '(c', r) := descend_set es' fin child in (NMap (update k c' kv), r)
    | None => let '(c', r) := descend_set es' fin NNull in (NMap (kv ++ [(k, c')]), r)
    end
  | E_LIST_ELEMENT i :: es' =>
    let '(vec, al) := list_parts n in
    match list_extend vec al i with
    | None => (NList vec al, inl EINVAL)
    | Some (vec1, al1, j) =>
      let '(c', r) := descend_set es' fin (nth j vec1 NNull) in (NList (set_nth j c' vec1) al1, r)
    end
  | E_LIST_INSERT i :: es' =>
    let '(vec, al) := list_parts n in
    match list_insert vec al i with
    | None => (NList vec al, inl EINVAL)
    | Some (vec1, al1, j) =>
      let '(c', r) := descend_set es' fin (nth j vec1 NNull) in (NList (set_nth j c' vec1) al1, r)
    end
  | E_LIST_APPEND :: es' =>
    let '(vec, al) := list_parts n in
    let '(vec1, al1, j) := list_append vec al in
    let '(c', r) := descend_set es' fin (nth j vec1 NNull) in (NList (set_nth j c' vec1) al1, r)
  end.

(* parse_and_descend, set = false: the node in the final anchor, or the error *)
Fixpoint descend_get (es : list expr) (n : node) : ecode + node :=
  match es with
  | [] => inr n
  | E_DOT :: _ => inr n
  | E_MAP :: _ =>
    match n with NNull => inl ENOENT | NMap _ => inr n | _ => inl EINVAL end
  | E_MAP_ELEMENT k :: es' =>
    match n with
    | NNull => inl ENOENT
    | NMap kv => match lookup k kv with Some c => descend_get es' c | None => inl ENOENT end
    | _ => inl EINVAL
    end
  | E_LIST :: _ =>
    match n with NNull => inl ENOENT | NList _ _ => inr n | _ => inl EINVAL end
  | E_LIST_ELEMENT i :: es' =>
    match n with
    | NNull => inl ENOENT
    | NList vec _ =>
      if (i <? 0)%Z then inl EINVAL
      else if (i <? Z.of_nat (length vec))%Z
           then match nth_error vec (Z.to_nat i) with
                | Some c => descend_get es' c
                | None => inl ENOENT
                end
           else inl ENOENT
    | _ => inl EINVAL
    end
  | E_LIST_INSERT _ :: _ | E_LIST_APPEND :: _ =>
    match n with NNull => inl ENOENT | _ => inl EINVAL end
  end.

(* the structural update performed by vnaproperty_vdelete once descend_get has succeeded *)
Fixpoint delete_at (es : list expr) (n : node) : node :=
  match es with
  | [] => NNull
  | E_MAP_ELEMENT k :: es' =>
    match es' with
    | [] => NMap (remove_key k (map_entries n))
    | _ =>
      let kv := map_entries n in
      match lookup k kv with
      | Some c => NMap (update k (delete_at es' c) kv)
      | None => n
      end
    end
  | E_LIST_ELEMENT i :: es' =>
    let '(vec, al) := list_parts n in
    let j := Z.to_nat i in
    match es' with
    | [] => NList (remove_nth j vec) al                       (* fix D2: element freed, no over-read *)
    | _ => NList (set_nth j (delete_at es' (nth j vec NNull)) vec) al
    end
  | _ => NNull                                                (* E_DOT, E_MAP, E_LIST: free *anchor *)
  end.

(* ------------------------------------------------------------------ the entry points *)
Definition is_eof (t : tok) : bool := match t with T_EOF => true | _ => false end.

(* get_node: parse, descend (set = false), no trailing tokens *)
Definition get_node (root : node) (d : bytes) : ecode + node :=
  match parse d with
  | None => inl EINVAL
  | Some (es, t, _) =>
    match descend_get es root with
    | inl e => inl e
    | inr n => if is_eof t then inr n else inl EINVAL
    end
  end.

Inductive payload := PNone | PStr (s : bytes) | PKeys (ks : list bytes) | PNode (n : node).
Record outcome := mkOut { o_ret : Z; o_err : ecode; o_pay : payload }.
Definition fail (e : ecode) := mkOut (-1) e PNone.
Definition ok0 := mkOut 0 E0 PNone.

Definition vtype (root : node) (d : bytes) : outcome :=
  match get_node root d with
  | inl e => fail e
  | inr NNull => fail E0                 (* NULL node: -1 with errno untouched *)
  | inr (NScalar _) => mkOut 115 E0 PNone
  | inr (NMap _) => mkOut 109 E0 PNone
  | inr (NList _ _) => mkOut 108 E0 PNone
  end.

Definition vcount (root : node) (d : bytes) : outcome :=
  match get_node root d with
  | inl e => fail e
  | inr NNull => fail E0
  | inr (NMap kv) => mkOut (Z.of_nat (length kv)) E0 PNone
  | inr (NList vec _) => mkOut (Z.of_nat (length vec)) E0 PNone
  | inr (NScalar _) => fail EINVAL
  end.

Definition vkeys (root : node) (d : bytes) : outcome :=
  match get_node root d with
  | inl e => fail e
  | inr NNull => fail E0
  | inr (NMap kv) => mkOut 0 E0 (PKeys (map fst kv))
  | inr _ => fail EINVAL
  end.

Definition vget (root : node) (d : bytes) : outcome :=
  match get_node root d with
  | inl e => fail e
  | inr NNull => fail E0
  | inr (NScalar v) => mkOut 0 E0 (PStr v)
  | inr _ => fail EINVAL
  end.

(* vget_subtree (fix D1: trailing tokens give NULL/EINVAL).  ret 0 = non-NULL subtree, -1 = NULL;
   a NULL subtree that is not an error has errno untouched *)
Definition vget_subtree (root : node) (d : bytes) : outcome :=
  match get_node root d with
  | inl e => fail e
  | inr NNull => fail E0
  | inr n => mkOut 0 E0 (PNode n)
  end.

Definition last_is_collection (es : list expr) : bool :=
  match last es E_DOT with E_MAP | E_LIST => true | _ => false end.

(* vset (after fix D54): the tail and the look-ahead are validated before descending, so a
   refused call leaves the tree unchanged; an error found while descending (a subscript that is
   out of range) still leaves the part of the path conformed so far *)
Definition vset (root : node) (d : bytes) : node * outcome :=
  match parse d with
  | None => (root, fail EINVAL)
  | Some (es, t, rest) =>
    let verdict : ecode + node :=
        if last_is_collection es then inl EINVAL
        else match t with
             | T_ASSIGN => inr (NScalar rest)
             | T_HASH => inr NNull
             | _ => inl EINVAL
             end in
    match verdict with
    | inl e => (root, fail e)
    | inr v =>
      let '(root', r) := descend_set es (fun _ => (v, tt)) root in
      match r with
      | inl e => (root', fail e)
      | inr _ => (root', ok0)
      end
    end
  end.

Definition vdelete (root : node) (d : bytes) : node * outcome :=
  match parse d with
  | None => (root, fail EINVAL)
  | Some (es, t, _) =>
    match descend_get es root with
    | inl e => (root, fail e)
    | inr _ => if is_eof t then (delete_at es root, ok0) else (root, fail EINVAL)
    end
  end.

(* vset_subtree followed by an operation [inner] on the returned anchor (the C harness calls
   the inner function with the returned vnaproperty_t ** straight away).  Trailing tokens are
   refused before descending (fix D54). *)
Definition vset_subtree_then {A} (root : node) (d : bytes) (inner : node -> node * A)
  : node * (ecode + A) :=
  match parse d with
  | None => (root, inl EINVAL)
  | Some (es, t, _) =>
    if is_eof t then descend_set es inner root else (root, inl EINVAL)
  end.

Definition vset_subtree (root : node) (d : bytes) : node * outcome :=
  let '(root', r) := vset_subtree_then root d (fun n => (n, tt)) in
  (root', match r with inl e => fail e | inr _ => ok0 end).

(* ------------------------------------------------------------------ quote_key *)
(* number of trailing spaces of k that are "special": while (i > 1 && key[i-1] == ' ') *)
Fixpoint trailing_spaces (rk : bytes) (len : nat) : nat :=
  match rk with
  | c :: r => if (Nat.ltb 1 len) && (c =? 32) then S (trailing_spaces r (pred len)) else O
  | [] => O
  end.

(* special i c: position i (0-based) of a key of length len with ts special trailing spaces *)
Definition special (len ts i : nat) (c : N) : bool :=
  (if Nat.eqb i 0 then negb (is_idchar1 c) || (c =? 92) else negb (is_idchar c) || (c =? 92))
  || Nat.leb (len - ts) i.

Fixpoint quote_from (len ts i : nat) (k : bytes) : bytes :=
  match k with
  | [] => []
  | c :: r => (if special len ts i c then [92; c] else [c]) ++ quote_from len ts (S i) r
  end.

Definition quote_key (k : bytes) : bytes :=
  quote_from (length k) (trailing_spaces (rev k) (length k)) 0 k.

(* ------------------------------------------------------------------ copy (dfs_copy, with fix D41:
   the destination is first made a map / list so that empty collections are kept).  The source is
   walked structurally; the destination is built through the API entry points with the quoted
   keys exactly as the C code does.  vnaproperty_copy (after fix D71) builds the copy under a
   fresh NULL root, then frees the old content of the destination and stores the copy there: the
   result does not depend on what the destination held, and the source is read completely before
   the destination is released (so it may lie inside the destination or around it). *)
Definition dot : bytes := [46].
Fixpoint dec_digits (fuel : nat) (n : nat) (acc : bytes) : bytes :=
  match fuel with
  | O => acc
  | S f => let d := N.of_nat (Nat.modulo n 10) + 48 in
           if Nat.ltb n 10 then d :: acc else dec_digits f (Nat.div n 10) (d :: acc)
  end.
Definition index_desc (i : nat) : bytes := 91 :: dec_digits (S i) i [93].     (* "[%d]" *)

Fixpoint dfs_copy (src : node) (dest : node) : node :=
  match src with
  | NNull => dest
  | NScalar v => fst (vset dest (46 :: 61 :: v))                                (* ".=%s" *)
  | NMap kv =>
    let d0 := fst (vset_subtree dest [123; 125]) in                             (* "{}" *)
    fold_left (fun d p => let '(k, v) := p in
                 fst (vset_subtree_then d (46 :: quote_key k) (fun a => (dfs_copy v a, tt))))
              kv d0
  | NList vec _ =>
    let d0 := fst (vset_subtree dest [91; 93]) in                               (* "[]" *)
    snd (fold_left (fun (st : nat * node) v => let '(i, d) := st in
                 (S i, fst (vset_subtree_then d (index_desc i) (fun a => (dfs_copy v a, tt)))))
              vec (O, d0))
  end.

Definition copy (dest src : node) : node := dfs_copy src NNull.

(* ------------------------------------------------------------------ operation scripts *)
Inductive op :=
| OSet (d : bytes) | ODel (d : bytes) | OGet (d : bytes) | OType (d : bytes) | OCount (d : bytes)
| OKeys (d : bytes) | OGetSub (d : bytes) | OSetSub (d : bytes)
| OSubSet (d d2 : bytes)      (* p = set_subtree(&root, d); if (p) vnaproperty_set(p, d2) *)
| OSubDel (d d2 : bytes)      (* p = set_subtree(&root, d); if (p) vnaproperty_delete(p, d2) *)
| OCopyOut (d : bytes)        (* vnaproperty_copy(&aux, get_subtree(root, d)) *)
| OCopyIn (d : bytes)         (* p = set_subtree(&root, d); if (p) vnaproperty_copy(p, aux) *)
| OCopyWithin (d d2 : bytes)  (* p = set_subtree(&root, d); s = get_subtree(root, d2); if (p) vnaproperty_copy(p, s):
                                 source and destination in the SAME tree (d2 inside d, d inside d2, equal, disjoint) *)
| OQuote (k : bytes).

Record state := mkState { st_root : node; st_aux : node }.
Definition init_state := mkState NNull NNull.

Definition sub_outcome (r : ecode + outcome) : outcome :=
  match r with inl e => mkOut (-2) e PNone | inr o => o end.

(* The aliased copy.  C sequence:
     p = vnaproperty_set_subtree(&root, d);        the path of d is conformed FIRST
     s = vnaproperty_get_subtree(root, d2);        the source is looked up in the conformed tree (NULL when absent / error)
     if (p != NULL) vnaproperty_copy(p, s);        *p := deep copy of s, built before the old *p is freed
   [r1] is the tree after the first call.  The anchor p is the place descend_set reaches for d in [root]; storing
   through p is the same walk with another function applied at the anchor (the walk itself does not depend on that
   function: ApiProofs.descend_set_result_indep), so insert / append subscripts in d are executed once. *)
Definition source_of (r1 : node) (d2 : bytes) : node :=
  match get_node r1 d2 with inr n => n | inl _ => NNull end.

Definition copy_within (root : node) (d d2 : bytes) : node * outcome :=
  let '(r1, res1) := vset_subtree_then root d (fun a => (a, tt)) in
  match res1 with
  | inl e => (r1, mkOut (-2) e PNone)
  | inr _ =>
    let '(r2, res2) := vset_subtree_then root d (fun a => (copy a (source_of r1 d2), ok0)) in
    (r2, sub_outcome res2)
  end.

Definition step (s : state) (o : op) : state * outcome :=
  let root := st_root s in
  let aux := st_aux s in
  match o with
  | OSet d => let '(r', out) := vset root d in (mkState r' aux, out)
  | ODel d => let '(r', out) := vdelete root d in (mkState r' aux, out)
  | OGet d => (s, vget root d)
  | OType d => (s, vtype root d)
  | OCount d => (s, vcount root d)
  | OKeys d => (s, vkeys root d)
  | OGetSub d => (s, vget_subtree root d)
  | OSetSub d => let '(r', out) := vset_subtree root d in (mkState r' aux, out)
  | OSubSet d d2 =>
    let '(r', res) := vset_subtree_then root d (fun a => vset a d2) in (mkState r' aux, sub_outcome res)
  | OSubDel d d2 =>
    let '(r', res) := vset_subtree_then root d (fun a => vdelete a d2) in (mkState r' aux, sub_outcome res)
  | OCopyOut d =>
    let src := match get_node root d with inr n => n | inl _ => NNull end in
    (mkState root (copy aux src), ok0)
  | OCopyIn d =>
    let '(r', res) := vset_subtree_then root d (fun a => (copy a aux, ok0)) in
    (mkState r' aux, sub_outcome res)
  | OCopyWithin d d2 => let '(r', out) := copy_within root d d2 in (mkState r' aux, out)
  | OQuote k => (s, mkOut 0 E0 (PStr (quote_key k)))
  end.

Fixpoint run (s : state) (ops : list op) : state * list outcome :=
  match ops with
  | [] => (s, [])
  | o :: r => let '(s1, out) := step s o in let '(s2, outs) := run s1 r in (s2, out :: outs)
  end.
