(* YamlSpec: what importing a YAML document means for the abstract document of DocSpec.v - no
   allocations, no anchors, no old content.  Written from vnaproperty(3) ("imports ... replacing any
   previous content") and the file format: a plain null word is the null value, any other scalar is
   that string, a mapping sets one entry per pair in order - the key is a DESCRIPTOR, so "a.b" and
   "l[1]" address nested values and equal keys merge -, a sequence sets the items [0], [1], ...; the
   first pair / item that cannot be stored stops the import with an error.  Non-scalar keys are skipped.
   No proofs in this file. *)
Require Import List NArith ZArith Bool.
Import ListNotations.
Require Import LV.PropTree.PropModel LV.PropTree.DocSpec LV.PropTree.YamlModel.
Open Scope N_scope.

Fixpoint d_yaml_import (y : ynode) (root : doc) : doc * bool :=
  match y with
  | YScalar v st =>
    if is_yaml_null v && is_plain st then (root, true)
    else let '(r, out) := d_set root (46 :: 61 :: v) in (r, (d_ret out =? 0)%Z)
  | YMapping kv =>
    let '(r0, out0) := d_set_subtree root [123; 125] in
    if negb (d_ret out0 =? 0)%Z then (r0, false)
    else
      fold_left
        (fun (st : doc * bool) p =>
           let '(r, ok) := st in
           let '(k, v) := p in
           if negb ok then st
           else match k with
                | YScalar kb _ =>
                  let '(r', res) := d_set_subtree_then r kb (fun a => d_yaml_import v a) in
                  (r', match res with inl _ => false | inr b => b end)
                | _ => st
                end)
        kv (r0, true)
  | YSequence l =>
    let '(r0, out0) := d_set_subtree root [91; 93] in
    if negb (d_ret out0 =? 0)%Z then (r0, false)
    else
      let '(_, r, ok) :=
          fold_left
            (fun (st : nat * doc * bool) v =>
               let '(i, r, ok) := st in
               if negb ok then st
               else let '(r', res) := d_set_subtree_then r (index_desc i) (fun a => d_yaml_import v a) in
                    (S i, r', match res with inl _ => false | inr b => b end))
            l (O, r0, true) in
      (r, ok)
  end.

(* the public importers: a document that can be imported REPLACES the destination - the result is the import
   into the EMPTY document and does not mention the old one; when no document could be read, or the import
   of the document fails (a key that is no descriptor), the destination is unchanged (fix DO90) *)
Definition d_import_public (l : yload) (root : doc) : doc * bool :=
  match l with
  | YSyntaxError | YEmptyDocument => (root, false)
  | YDocument y => let '(d, ok) := d_yaml_import y DNull in if ok then (d, true) else (root, false)
  end.
