(* RebuildProofs: facts shared by vnaproperty_copy and the YAML importer, which both rebuild a
   tree through the public entry points: "[%d]" descriptors, one rebuilding step for a map
   element and for a list element, well-formed trees, and vnaproperty_copy = deep copy. *)
Require Import List NArith ZArith Bool Lia.
Import ListNotations.
Require Import LV.PropTree.PropModel LV.PropTree.DocSpec LV.PropTree.PropProofs LV.PropTree.QuoteProofs.

Ltac Zify.zify_post_hook ::= Z.div_mod_to_equations.

(* ------------------------------------------------------------------ "[%d]" *)
Lemma digit_char n : (n < 10)%nat -> is_digit (N.of_nat n + 48) = true /\ Z.of_N (N.of_nat n + 48 - 48) = Z.of_nat n.
Proof.
  intros H. split.
  - unfold is_digit. apply andb_true_iff. split; apply N.leb_le; lia.
  - lia.
Qed.

Lemma dec_span : forall fuel n acc, (n < fuel)%nat ->
    exists p : Z, forall z, span_digits (dec_digits fuel n acc) z = span_digits acc (z * p + Z.of_nat n)%Z.
Proof.
  induction fuel as [|f IH]; intros n acc Hlt; [lia|].
  cbn [dec_digits].
  assert (Hm : (Nat.modulo n 10 < 10)%nat) by (apply Nat.mod_upper_bound; lia).
  destruct (digit_char _ Hm) as [Hd Hv].
  destruct (Nat.ltb n 10) eqn:E.
  - apply Nat.ltb_lt in E. exists 10%Z. intros z. cbn [span_digits]. rewrite Hd, Hv.
    f_equal. rewrite Nat.mod_small by assumption. lia.
  - apply Nat.ltb_ge in E.
    assert (Hq : (Nat.div n 10 < f)%nat).
    { assert (Nat.div n 10 < n)%nat by (apply Nat.div_lt; lia). lia. }
    destruct (IH (Nat.div n 10) (N.of_nat (Nat.modulo n 10) + 48 :: acc)%N Hq) as [p Hp].
    exists (p * 10)%Z. intros z. rewrite Hp. cbn [span_digits]. rewrite Hd, Hv. f_equal.
    pose proof (Nat.div_mod n 10). lia.
Qed.

Lemma dec_head : forall fuel n acc, exists c r, dec_digits (S fuel) n acc = c :: r /\ is_digit c = true.
Proof.
  induction fuel as [|f IH]; intros n acc.
  - cbn [dec_digits].
    assert (Hm : (Nat.modulo n 10 < 10)%nat) by (apply Nat.mod_upper_bound; lia).
    destruct (digit_char _ Hm) as [Hd _]. destruct (Nat.ltb n 10); eauto.
  - cbn [dec_digits].
    assert (Hm : (Nat.modulo n 10 < 10)%nat) by (apply Nat.mod_upper_bound; lia).
    destruct (digit_char _ Hm) as [Hd _]. destruct (Nat.ltb n 10); [eauto|].
    apply IH.
Qed.

Lemma scan_digitstart c r :
  is_digit c = true ->
  scan (c :: r) = let '(v, rest) := span_digits (c :: r) 0%Z in (T_INT (to_int v), rest).
Proof.
  intros H. rewrite scan_unfold, H.
  assert (C : (48 <= c /\ c <= 57)%N).
  { unfold is_digit in H. apply andb_true_iff in H as [H1 H2]. apply N.leb_le in H1, H2. lia. }
  assert (W : is_ws c = false).
  { unfold is_ws. rewrite !orb_false_iff. repeat split; apply N.eqb_neq; lia. }
  rewrite W.
  replace (c =? 35)%N with false by (symmetry; apply N.eqb_neq; lia).
  replace (c =? 43)%N with false by (symmetry; apply N.eqb_neq; lia).
  replace (c =? 46)%N with false by (symmetry; apply N.eqb_neq; lia).
  replace (c =? 61)%N with false by (symmetry; apply N.eqb_neq; lia).
  replace (c =? 91)%N with false by (symmetry; apply N.eqb_neq; lia).
  replace (c =? 93)%N with false by (symmetry; apply N.eqb_neq; lia).
  replace (c =? 123)%N with false by (symmetry; apply N.eqb_neq; lia).
  replace (c =? 125)%N with false by (symmetry; apply N.eqb_neq; lia).
  reflexivity.
Qed.

Lemma to_int_small z : (0 <= z < 2147483648)%Z -> to_int z = z.
Proof.
  intros H. unfold to_int, LONG_MAX.
  destruct (9223372036854775807 <? z)%Z eqn:E; [apply Z.ltb_lt in E; lia|].
  rewrite Z.mod_small by lia. lia.
Qed.

Theorem parse_index_desc i :
  (Z.of_nat i < 2147483648)%Z ->
  parse (index_desc i) = Some ([E_LIST_ELEMENT (Z.of_nat i)], T_EOF, []).
Proof.
  intros Hi. unfold parse, index_desc.
  rewrite scan_unfold. change (is_ws 91) with false. cbn [N.eqb Pos.eqb]. cbv iota.
  destruct (dec_head i i [93%N]) as [c [r [E Hd]]].
  destruct (dec_span (S i) i [93%N] (Nat.lt_succ_diag_r i)) as [p Hp].
  cbn [length]. cbn [parse_loop]. rewrite E at 1. rewrite scan_digitstart by assumption.
  rewrite <- E. rewrite Hp. cbn [span_digits]. change (is_digit 93) with false. cbv iota.
  rewrite Z.mul_0_l, Z.add_0_l. rewrite to_int_small by lia.
  rewrite E. cbn [length parse_loop]. reflexivity.
Qed.

(* ------------------------------------------------------------------ one rebuilding step *)
Lemma step_map_element d k kv {A} (inner : node -> node * A) :
  parse d = Some ([E_MAP_ELEMENT k], T_EOF, []) ->
  lookup k kv = None ->
  vset_subtree_then (NMap kv) d inner
  = (NMap (kv ++ [(k, fst (inner NNull))]), inr (snd (inner NNull))).
Proof.
  intros Hp Hl. unfold vset_subtree_then. rewrite Hp. simpl. rewrite Hl.
  destruct (inner NNull); reflexivity.
Qed.

Lemma set_nth_last {A} (l : list A) (x y : A) : set_nth (length l) y (l ++ [x]) = l ++ [y].
Proof. induction l as [|a l IH]; simpl; [reflexivity|now rewrite IH]. Qed.
Lemma nth_last {A} (l : list A) (x d : A) : nth (length l) (l ++ [x]) d = x.
Proof. induction l as [|a l IH]; simpl; [reflexivity|exact IH]. Qed.

Lemma step_list_element d vec al {A} (inner : node -> node * A) :
  parse d = Some ([E_LIST_ELEMENT (Z.of_nat (length vec))], T_EOF, []) ->
  (Z.of_nat (length vec) < INT_MAX)%Z ->
  vset_subtree_then (NList vec al) d inner
  = (NList (vec ++ [fst (inner NNull)]) (check_allocation al (S (length vec))), inr (snd (inner NNull))).
Proof.
  intros Hp Hlen. unfold vset_subtree_then. rewrite Hp. cbn [is_eof descend_set list_parts].
  unfold list_extend.
  replace (Z.of_nat (length vec) <? 0)%Z with false by (symmetry; apply Z.ltb_ge; lia).
  rewrite Z.ltb_irrefl.
  replace (Z.of_nat (length vec) =? INT_MAX)%Z with false by (symmetry; apply Z.eqb_neq; lia).
  rewrite Nat2Z.id.
  replace (S (length vec) - length vec)%nat with 1%nat by lia. cbn [repeat].
  rewrite nth_last. cbn [descend_set]. destruct (inner NNull) as [n' a]. cbn [fst snd].
  now rewrite set_nth_last.
Qed.

(* ------------------------------------------------------------------ well-formed trees *)
(* what every tree built through the API satisfies: map keys are non-empty and pairwise different;
   [small]: no list has 2^31 - 1 or more elements (so that "%d" of an index reads back) *)
Definition keys_ok (ks : list bytes) : Prop := NoDup ks /\ Forall (fun k => k <> []) ks.

Lemma bytes_eqb_eq a b : bytes_eqb a b = true <-> a = b.
Proof.
  revert b. induction a as [|x a IH]; intros [|y b]; simpl; split; intros H; try discriminate; auto.
  - apply andb_true_iff in H as [H1 H2]. apply N.eqb_eq in H1. apply IH in H2. now subst.
  - injection H as H1 H2. subst. apply andb_true_iff. split; [apply N.eqb_refl|now apply IH].
Qed.
Lemma bytes_eqb_refl a : bytes_eqb a a = true.
Proof. now apply bytes_eqb_eq. Qed.

Lemma lookup_none_iff {A} k (kv : list (bytes * A)) : lookup k kv = None <-> ~ In k (map fst kv).
Proof.
  induction kv as [|[k1 v1] r IH]; simpl; [tauto|].
  destruct (bytes_eqb k k1) eqn:E.
  - apply bytes_eqb_eq in E. subst. split; [discriminate|]. intros H. exfalso. apply H. now left.
  - rewrite IH. split; intros H; [|tauto]. intros [H1|H1]; [|tauto].
    subst. rewrite bytes_eqb_refl in E. discriminate.
Qed.

Fixpoint wf (n : node) : Prop :=
  match n with
  | NNull | NScalar _ => True
  | NMap kv => keys_ok (map fst kv)
               /\ (fix all (l : list (bytes * node)) : Prop :=
                     match l with [] => True | (_, v) :: r => wf v /\ all r end) kv
  | NList vec _ => (Z.of_nat (length vec) < INT_MAX)%Z
                   /\ (fix all (l : list node) : Prop :=
                         match l with [] => True | v :: r => wf v /\ all r end) vec
  end.

Definition wf_vals (kv : list (bytes * node)) : Prop := Forall (fun p => wf (snd p)) kv.
Definition wf_items (l : list node) : Prop := Forall wf l.

Lemma wf_map kv : wf (NMap kv) <-> keys_ok (map fst kv) /\ wf_vals kv.
Proof.
  simpl. split; intros [H1 H2]; split; auto.
  - clear H1. induction kv as [|[k v] r IH]; constructor.
    + simpl. apply H2.
    + apply IH. apply H2.
  - clear H1. induction kv as [|[k v] r IH]; [exact I|].
    inversion H2; subst. split; [assumption|]. now apply IH.
Qed.
Lemma wf_list vec al : wf (NList vec al) <-> (Z.of_nat (length vec) < INT_MAX)%Z /\ wf_items vec.
Proof.
  simpl. split; intros [H1 H2]; split; auto.
  - clear H1. induction vec as [|v r IH]; constructor; [apply H2|]. apply IH. apply H2.
  - clear H1. induction vec as [|v r IH]; [exact I|].
    inversion H2; subst. split; [assumption|]. now apply IH.
Qed.

(* induction over the nested tree *)
Lemma node_ind' (P : node -> Prop) :
  P NNull -> (forall v, P (NScalar v)) ->
  (forall kv, Forall (fun p => P (snd p)) kv -> P (NMap kv)) ->
  (forall vec al, Forall P vec -> P (NList vec al)) ->
  forall n, P n.
Proof.
  intros HN HS HM HL.
  fix IH 1. intros [| v | kv | vec al].
  - exact HN.
  - apply HS.
  - apply HM. induction kv as [|[k v] r IHr]; constructor; [apply IH|exact IHr].
  - apply HL. induction vec as [|v r IHr]; constructor; [apply IH|exact IHr].
Qed.

(* ------------------------------------------------------------------ vnaproperty_copy *)
Lemma parse_dot_quote k : k <> [] -> parse (46%N :: quote_key k) = Some ([E_MAP_ELEMENT k], T_EOF, []).
Proof.
  intros Hk. unfold parse. rewrite scan_unfold. change (is_ws 46) with false.
  change (46 =? 35)%N with false. change (46 =? 43)%N with false. change (46 =? 46)%N with true. cbv iota.
  cbn [length parse_loop].
  rewrite <- (app_nil_r (quote_key k)) at 1. rewrite scan_quote_key by (auto; exact I).
  destruct (quote_key_nonempty k Hk) as [c [q E]]. rewrite E. reflexivity.
Qed.

Lemma vset_dot_assign n v : vset n (46%N :: 61%N :: v) = (NScalar v, ok0).
Proof. reflexivity. Qed.
Lemma vset_subtree_map n : vset_subtree n [123%N; 125%N] = (NMap (map_entries n), ok0).
Proof. reflexivity. Qed.
Lemma vset_subtree_list n :
  vset_subtree n [91%N; 93%N] = (NList (fst (list_parts n)) (snd (list_parts n)), ok0).
Proof. unfold vset_subtree, vset_subtree_then. simpl. destruct (list_parts n); reflexivity. Qed.
Lemma vdelete_dot n : vdelete n dot = (NNull, ok0).
Proof. reflexivity. Qed.

(* the map loop of dfs_copy *)
Lemma copy_map_loop : forall kv2 kv1',
    Forall (fun p => wf (snd p) -> abs (dfs_copy (snd p) NNull) = abs (snd p)) kv2 ->
    keys_ok (map fst kv1' ++ map fst kv2) -> wf_vals kv2 ->
    abs (fold_left (fun d p => let '(k, v) := p in
                      fst (vset_subtree_then d (46%N :: quote_key k) (fun a => (dfs_copy v a, tt))))
                   kv2 (NMap kv1'))
    = DMap (map absp kv1' ++ map absp kv2).
Proof.
  induction kv2 as [|[k v] r IH]; intros kv1' HP Hk Hv.
  - simpl. now rewrite app_nil_r.
  - inversion HP as [|? ? HPv HPr]; subst. inversion Hv as [|? ? Hwv Hwr]; subst.
    cbn [fold_left].
    assert (Hkk : k <> [] /\ lookup k kv1' = None).
    { destruct Hk as [Hnd Hne]. cbn [map fst] in Hnd, Hne. split.
      - apply Forall_app in Hne as [_ Hne]. now inversion Hne.
      - apply lookup_none_iff. apply NoDup_remove_2 in Hnd. intros Hin. apply Hnd.
        apply in_or_app. now left. }
    destruct Hkk as [Hne Hl].
    rewrite (step_map_element _ k kv1' _ (parse_dot_quote k Hne) Hl). cbn [fst].
    rewrite (IH (kv1' ++ [(k, dfs_copy v NNull)])); [| assumption | | assumption].
    + rewrite map_app. cbn [map absp]. simpl snd in HPv. rewrite (HPv Hwv).
      rewrite <- app_assoc. reflexivity.
    + rewrite map_app. cbn [map fst]. rewrite <- app_assoc. exact Hk.
Qed.

(* the list loop of dfs_copy *)
Lemma copy_list_loop : forall vec2 vec1' al,
    Forall (fun v => wf v -> abs (dfs_copy v NNull) = abs v) vec2 ->
    wf_items vec2 ->
    (Z.of_nat (length vec1' + length vec2) < INT_MAX)%Z ->
    abs (snd (fold_left (fun (st : nat * node) v => let '(i, d) := st in
                 (S i, fst (vset_subtree_then d (index_desc i) (fun a => (dfs_copy v a, tt)))))
              vec2 (length vec1', NList vec1' al)))
    = DList (map abs vec1' ++ map abs vec2).
Proof.
  induction vec2 as [|v r IH]; intros vec1' al HP Hw Hlen.
  - simpl. now rewrite app_nil_r.
  - inversion HP as [|? ? HPv HPr]; subst. inversion Hw as [|? ? Hwv Hwr]; subst.
    cbn [fold_left]. cbn [length] in Hlen.
    assert (Hi : (Z.of_nat (length vec1') < INT_MAX)%Z) by lia.
    rewrite (step_list_element (index_desc (length vec1')) vec1' al).
    + cbn [fst].
      replace (S (length vec1')) with (length (vec1' ++ [dfs_copy v NNull]))
        by (rewrite app_length; simpl; lia).
      rewrite IH; [| assumption | assumption | rewrite app_length; simpl; lia].
      rewrite map_app. cbn [map]. rewrite (HPv Hwv). now rewrite <- app_assoc.
    + apply parse_index_desc. unfold INT_MAX in Hi. lia.
    + exact Hi.
Qed.

Theorem dfs_copy_abs : forall src, wf src -> abs (dfs_copy src NNull) = abs src.
Proof.
  induction src as [| v | kv IH | vec al IH] using node_ind'; intros Hw.
  - reflexivity.
  - reflexivity.
  - apply wf_map in Hw as [Hk Hv]. cbn [dfs_copy]. rewrite vset_subtree_map. cbn [fst map_entries].
    rewrite (copy_map_loop kv []); [reflexivity| exact IH | exact Hk | exact Hv].
  - apply wf_list in Hw as [Hl Hv]. cbn [dfs_copy]. rewrite vset_subtree_list. cbn [fst snd list_parts].
    change (O, NList [] O) with (length (@nil node), NList [] O).
    rewrite (copy_list_loop vec [] O); [reflexivity| exact IH | exact Hv | exact Hl].
Qed.

(* vnaproperty_copy is a deep copy, whatever the destination held *)
Theorem copy_abs dest src : wf src -> abs (copy dest src) = abs src.
Proof. intros Hw. unfold copy. now apply dfs_copy_abs. Qed.
