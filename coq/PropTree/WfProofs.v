(* WfProofs: well-formedness (non-empty distinct keys) is an invariant of every operation as long
   as no list reaches 2^31 - 1 elements; with it the refinement theorem holds for every
   operation sequence including vnaproperty_copy, from the empty state. *)
Require Import List NArith ZArith Bool Lia.
Import ListNotations.
Require Import LV.PropTree.PropModel LV.PropTree.DocSpec LV.PropTree.PropProofs LV.PropTree.QuoteProofs
        LV.PropTree.RebuildProofs LV.PropTree.ApiProofs.

(* ------------------------------------------------------------------ lists stay short *)
Fixpoint lens (n : node) : Prop :=
  match n with
  | NMap kv => (fix all (l : list (bytes * node)) : Prop :=
                  match l with [] => True | (_, v) :: r => lens v /\ all r end) kv
  | NList vec _ => (Z.of_nat (length vec) < INT_MAX)%Z
                   /\ (fix all (l : list node) : Prop :=
                         match l with [] => True | v :: r => lens v /\ all r end) vec
  | _ => True
  end.

Lemma lens_map kv : lens (NMap kv) <-> Forall (fun p => lens (snd p)) kv.
Proof.
  induction kv as [|[k v] r IH].
  - split; intros; [constructor|exact I].
  - split; intros H.
    + simpl in H. destruct H as [H1 H2]. constructor; [exact H1|]. apply IH. exact H2.
    + inversion H; subst. simpl. split; [assumption|]. apply IH. assumption.
Qed.
Lemma lens_list vec al : lens (NList vec al) <-> (Z.of_nat (length vec) < INT_MAX)%Z /\ Forall lens vec.
Proof.
  simpl. split; intros [H1 H2]; split; auto.
  - clear H1. induction vec as [|v r IH]; constructor; [apply H2|]. apply IH. apply H2.
  - clear H1. induction vec as [|v r IH]; [exact I|].
    inversion H2; subst. split; [assumption|]. now apply IH.
Qed.

(* ------------------------------------------------------------------ keys produced by the scanner *)
Lemma trim_nonempty : forall d p, d <> [] -> trim d p <> [].
Proof.
  induction d as [|c d IH]; intros p H; [congruence|].
  simpl. destruct (Nat.ltb p (length d) && (c =? 32)%N) eqn:E; [|discriminate].
  apply andb_true_iff in E as [E _]. apply Nat.ltb_lt in E.
  apply IH. destruct d; [simpl in E; lia|discriminate].
Qed.

Lemma id_loop_grows_aux : forall n s src dest prot d p r,
    (length s <= n)%nat ->
    id_loop s src dest prot = Some (d, p, r) -> (length dest <= length d)%nat.
Proof.
  induction n as [|n IH]; intros s src dest prot d p r Hn H.
  - destruct s; [|simpl in Hn; lia]. simpl in H. injection H as <- _ _. lia.
  - destruct s as [|c s]; simpl in H.
    + injection H as <- _ _. lia.
    + destruct (negb (is_idchar c)); [injection H as <- _ _; lia|].
      destruct (c =? 92)%N.
      * destruct s as [|e s2]; [discriminate|].
        apply IH in H; [simpl in H; lia|]. simpl in Hn. lia.
      * apply IH in H; [simpl in H; lia|]. simpl in Hn. lia.
Qed.
Lemma id_loop_grows s src dest prot d p r :
    id_loop s src dest prot = Some (d, p, r) -> (length dest <= length d)%nat.
Proof. apply (id_loop_grows_aux (length s)). lia. Qed.

Lemma id_loop_start_nonempty c s d p r :
  is_idchar1 c = true -> id_loop (c :: s) 0 [] 0 = Some (d, p, r) -> d <> [].
Proof.
  intros Hc H. simpl in H. rewrite (idchar1_idchar c Hc) in H. simpl in H.
  destruct (c =? 92)%N.
  - destruct s as [|e s2]; [discriminate|]. apply id_loop_grows in H. destruct d; [simpl in H; lia|discriminate].
  - apply id_loop_grows in H. destruct d; [simpl in H; lia|discriminate].
Qed.

Lemma rev_nonempty {A} (l : list A) : l <> [] -> rev l <> [].
Proof. destruct l; [congruence|]. intros _ H. apply (f_equal (@length A)) in H. rewrite rev_length in H. discriminate. Qed.

Lemma scan_id_nonempty : forall s k r, scan s = (T_ID k, r) -> k <> [].
Proof.
  induction s as [|c s IH]; intros k r H; [discriminate|].
  rewrite scan_unfold in H.
  destruct (is_ws c); [eapply IH; exact H|].
  destruct (c =? 35)%N; [discriminate|]. destruct (c =? 43)%N; [discriminate|].
  destruct (c =? 46)%N; [discriminate|]. destruct (c =? 61)%N; [discriminate|].
  destruct (c =? 91)%N; [discriminate|]. destruct (c =? 93)%N; [discriminate|].
  destruct (c =? 123)%N; [discriminate|]. destruct (c =? 125)%N; [discriminate|].
  destruct (is_digit c); [destruct (span_digits (c :: s) 0); discriminate|].
  destruct (is_idchar1 c) eqn:E1; [|discriminate].
  destruct (id_loop (c :: s) 0 [] 0) as [[[d p] rest]|] eqn:L; [|discriminate].
  injection H as <- _. apply rev_nonempty, trim_nonempty. eapply id_loop_start_nonempty; eauto.
Qed.

Definition key_ok (e : expr) : Prop := match e with E_MAP_ELEMENT k => k <> [] | _ => True end.

Lemma parse_loop_keys : forall fuel st t r acc es t' r',
    Forall key_ok acc ->
    (forall k, t = T_ID k -> k <> []) ->
    parse_loop fuel st t r acc = Some (es, t', r') -> Forall key_ok es.
Proof.
  induction fuel as [|f IH]; intros st t r acc es t' r' Ha Ht H; [discriminate|].
  assert (R : forall e, key_ok e -> Forall key_ok (rev (e :: acc))).
  { intros e He. apply Forall_rev. now constructor. }
  assert (AM : forall r0, abstract_map r0 acc = Some (es, t', r') -> Forall key_ok es).
  { intros r0 Hm. unfold abstract_map in Hm. destruct (scan r0) as [t1 r1].
    destruct t1; try discriminate. destruct (scan r1). injection Hm as <- _ _. now apply R. }
  assert (NX : forall st1 r0 acc1, Forall key_ok acc1 ->
               (let '(t1, r1) := scan r0 in parse_loop f st1 t1 r1 acc1) = Some (es, t', r') -> Forall key_ok es).
  { intros st1 r0 acc1 Hacc Hp. destruct (scan r0) as [t1 r1] eqn:S.
    eapply IH; [exact Hacc| |exact Hp]. intros k Hk. subst t1. eapply scan_id_nonempty; exact S. }
  cbn [parse_loop] in H.
  destruct st.
  - destruct t; try discriminate.
    + eapply NX; [exact Ha|exact H].
    + eapply NX; [exact Ha|exact H].
    + now apply AM in H.
    + eapply NX; [|exact H]. constructor; [simpl; now apply Ht|exact Ha].
  - destruct t; try (injection H as <- _ _; now apply R).
    + eapply NX; [exact Ha|exact H].
    + now apply AM in H.
    + eapply NX; [|exact H]. constructor; [simpl; now apply Ht|exact Ha].
  - destruct t; try (injection H as <- _ _; now apply Forall_rev).
    + eapply NX; [exact Ha|exact H].
    + eapply NX; [exact Ha|exact H].
    + now apply AM in H.
  - destruct t; try discriminate.
    + destruct (scan r) as [t1 r1]. destruct t1; try discriminate.
      eapply NX; [|exact H]. now constructor.
    + destruct (scan r) as [t1 r1]. injection H as <- _ _. now apply R.
    + destruct (scan r) as [t1 r1]. destruct t1; try discriminate.
      * destruct (scan r1) as [t2 r2]. destruct t2; try discriminate.
        eapply NX; [|exact H]. now constructor.
      * eapply NX; [|exact H]. now constructor.
Qed.

Lemma parse_keys d es t r : parse d = Some (es, t, r) -> Forall key_ok es.
Proof.
  unfold parse. destruct (scan d) as [t0 r0] eqn:S. intros H.
  eapply parse_loop_keys; [constructor| |exact H].
  intros k Hk. subst t0. eapply scan_id_nonempty; exact S.
Qed.

(* ------------------------------------------------------------------ list / association-list facts *)
Lemma keys_update {A} k (v : A) kv : map fst (update k v kv) = map fst kv.
Proof.
  induction kv as [|[k1 v1] r IH]; simpl; [reflexivity|].
  destruct (bytes_eqb k k1); simpl; [reflexivity|now rewrite IH].
Qed.
Lemma Forall_update {A} (P : A -> Prop) k v kv :
  Forall (fun p => P (snd p)) kv -> P v -> Forall (fun p => P (snd p)) (update k v kv).
Proof.
  intros H Hv. induction kv as [|[k1 v1] r IH]; simpl; [constructor|].
  inversion H; subst. destruct (bytes_eqb k k1); constructor; auto.
Qed.
Lemma update_in {A} k (v c0 : A) kv : lookup k kv = Some c0 -> exists k', In (k', v) (update k v kv).
Proof.
  induction kv as [|[k1 v1] r IH]; simpl; [discriminate|].
  destruct (bytes_eqb k k1).
  - intros _. exists k1. now left.
  - intros H. destruct (IH H) as [k' Hin]. exists k'. now right.
Qed.
Lemma NoDup_snoc {A} (l : list A) k : NoDup l -> ~ In k l -> NoDup (l ++ [k]).
Proof.
  induction l as [|a l IH]; intros Hn Hk; simpl.
  - constructor; [intros []|constructor].
  - inversion Hn; subst. constructor.
    + intros Hin. apply in_app_or in Hin as [Hin|[Hin|[]]]; [contradiction|]. subst. apply Hk. now left.
    + apply IH; [assumption|]. intros Hin. apply Hk. now right.
Qed.
Lemma Forall_set_nth {A} (P : A -> Prop) j x l : Forall P l -> P x -> Forall P (set_nth j x l).
Proof.
  intros H Hx. revert j. induction H as [|y r Hy Hr IH]; intros [|j]; simpl; constructor; auto.
Qed.
Lemma set_nth_in {A} j (x : A) l : (j < length l)%nat -> In x (set_nth j x l).
Proof.
  revert j. induction l as [|y r IH]; intros [|j] H; simpl in *; try lia; [now left|]. right. apply IH. lia.
Qed.
Lemma Forall_nth_default {A} (P : A -> Prop) j l d : Forall P l -> P d -> P (nth j l d).
Proof.
  intros H Hd. revert j. induction H as [|y r Hy Hr IH]; intros [|j]; simpl; auto.
Qed.
Lemma Forall_insert_nth {A} (P : A -> Prop) j x l : Forall P l -> P x -> Forall P (insert_nth j x l).
Proof.
  unfold insert_nth. intros H Hx. revert j. induction H as [|y r Hy Hr IH]; intros j.
  - destruct j; simpl; constructor; auto.
  - destruct j as [|j]; simpl.
    + constructor; [exact Hx|]. constructor; assumption.
    + constructor; [exact Hy|]. apply IH.
Qed.
Lemma length_insert_nth {A} j (x : A) l : (j <= length l)%nat -> length (insert_nth j x l) = S (length l).
Proof.
  unfold insert_nth. intros H. rewrite app_length. simpl. rewrite firstn_length, skipn_length. lia.
Qed.
Lemma Forall_remove_nth {A} (P : A -> Prop) j l : Forall P l -> Forall P (remove_nth j l).
Proof.
  intros H. revert j. induction H as [|y r Hy Hr IH]; intros [|j]; simpl; auto.
Qed.
Lemma length_remove_nth {A} j (l : list A) : (length (remove_nth j l) <= length l)%nat.
Proof.
  revert j. induction l as [|y r IH]; intros [|j]; simpl; try lia. specialize (IH j). lia.
Qed.
Lemma remove_key_sub {A} k (kv : list (bytes * A)) p : In p (remove_key k kv) -> In p kv.
Proof.
  induction kv as [|[k1 v1] r IH]; simpl; [auto|].
  destruct (bytes_eqb k k1); [now right|]. intros [H|H]; [now left|right; auto].
Qed.
Lemma NoDup_remove_key {A} k (kv : list (bytes * A)) : NoDup (map fst kv) -> NoDup (map fst (remove_key k kv)).
Proof.
  induction kv as [|[k1 v1] r IH]; simpl; intros H; [constructor|].
  inversion H; subst. destruct (bytes_eqb k k1); [assumption|]. simpl. constructor; [|auto].
  intros Hin. apply H2. apply in_map_iff in Hin as [[k2 v2] [E Hin]]. simpl in E. subst k2.
  apply remove_key_sub in Hin. apply in_map_iff. exists (k1, v2). auto.
Qed.

Lemma wf_as_map n : wf n -> keys_ok (map fst (map_entries n)) /\ wf_vals (map_entries n).
Proof.
  intros H. destruct n; simpl; try (split; [split; constructor|constructor]). now apply wf_map.
Qed.
Lemma wf_as_list n :
  wf n -> wf_items (fst (list_parts n)) /\ (Z.of_nat (length (fst (list_parts n))) < INT_MAX)%Z.
Proof.
  intros H. destruct n; simpl; try (split; [constructor|reflexivity]).
  apply wf_list in H. tauto.
Qed.

Lemma list_extend_specP (P : node -> Prop) vec al i vec1 al1 j :
  P NNull -> list_extend vec al i = Some (vec1, al1, j) -> Forall P vec -> Forall P vec1 /\ (j < length vec1)%nat.
Proof.
  unfold list_extend. intros HN H Hv.
  destruct (i <? 0)%Z eqn:E0; [discriminate|]. apply Z.ltb_ge in E0.
  destruct (i <? Z.of_nat (length vec))%Z eqn:E1.
  - injection H as <- _ <-. apply Z.ltb_lt in E1. split; [assumption|lia].
  - destruct (i =? INT_MAX)%Z; [discriminate|]. injection H as <- _ <-. apply Z.ltb_ge in E1. split.
    + apply Forall_app. split; [assumption|]. apply Forall_forall. intros x Hx.
      apply repeat_spec in Hx. subst. exact HN.
    + rewrite app_length, repeat_length.
      assert (length vec <= Z.to_nat i)%nat by (apply Nat2Z.inj_le; rewrite Z2Nat.id; lia).
      destruct (length vec); lia.
Qed.
Lemma list_insert_specP (P : node -> Prop) vec al i vec1 al1 j :
  P NNull -> list_insert vec al i = Some (vec1, al1, j) -> Forall P vec -> Forall P vec1 /\ (j < length vec1)%nat.
Proof.
  unfold list_insert. intros HN H Hv.
  destruct (i <? 0)%Z eqn:E0; [discriminate|]. apply Z.ltb_ge in E0.
  destruct (i <? Z.of_nat (length vec))%Z eqn:E1.
  - injection H as <- _ <-. apply Z.ltb_lt in E1. split.
    + apply Forall_insert_nth; [assumption|exact HN].
    + rewrite length_insert_nth by lia. lia.
  - eapply list_extend_specP; [exact HN|exact H|exact Hv].
Qed.
Lemma list_extend_spec vec al i vec1 al1 j :
  list_extend vec al i = Some (vec1, al1, j) -> Forall wf vec -> Forall wf vec1 /\ (j < length vec1)%nat.
Proof. apply (list_extend_specP wf). exact I. Qed.
Lemma list_insert_spec vec al i vec1 al1 j :
  list_insert vec al i = Some (vec1, al1, j) -> Forall wf vec -> Forall wf vec1 /\ (j < length vec1)%nat.
Proof. apply (list_insert_specP wf). exact I. Qed.

(* ------------------------------------------------------------------ descend (set) keeps well-formedness *)
Lemma descend_set_wf {A} : forall es (fin : node -> node * A),
    Forall key_ok es ->
    (forall a, wf a -> lens (fst (fin a)) -> wf (fst (fin a))) ->
    forall n, wf n -> lens (fst (descend_set es fin n)) -> wf (fst (descend_set es fin n)).
Proof.
  induction es as [|e es IH]; intros fin Hk Hfin n Hw Hl.
  - cbn [descend_set] in *. destruct (fin n) as [n' a] eqn:F. cbn [fst] in *.
    specialize (Hfin n Hw). rewrite F in Hfin. cbn [fst] in Hfin. exact (Hfin Hl).
  - inversion Hk as [|? ? Hke Hkes]; subst.
    assert (LIST : forall vec1 al1 j,
               Forall wf vec1 -> (j < length vec1)%nat ->
               lens (fst (let '(c', r) := descend_set es fin (nth j vec1 NNull) in
                          (NList (set_nth j c' vec1) al1, r))) ->
               wf (fst (let '(c', r) := descend_set es fin (nth j vec1 NNull) in
                        (NList (set_nth j c' vec1) al1, r)))).
    { intros vec1 al1 j Hv Hj Hl1.
      destruct (descend_set es fin (nth j vec1 NNull)) as [c' r] eqn:D. cbn [fst] in *.
      apply lens_list in Hl1 as [Hb Hf]. apply wf_list. split; [exact Hb|].
      apply Forall_set_nth; [exact Hv|].
      replace c' with (fst (descend_set es fin (nth j vec1 NNull))) by now rewrite D.
      apply IH; [assumption|assumption| |].
      - apply Forall_nth_default; [exact Hv|exact I].
      - rewrite D. cbn [fst]. rewrite Forall_forall in Hf. apply Hf. now apply set_nth_in. }
    destruct e; cbn [descend_set] in *.
    + (* E_MAP *)
      destruct (wf_as_map n Hw) as [K V].
      destruct (fin (NMap (map_entries n))) as [n' a] eqn:F. cbn [fst] in *.
      specialize (Hfin (NMap (map_entries n))). rewrite F in Hfin. cbn [fst] in Hfin. apply Hfin; [|exact Hl].
      apply wf_map. split; assumption.
    + (* E_MAP_ELEMENT *)
      destruct (wf_as_map n Hw) as [K V].
      destruct (lookup k (map_entries n)) as [child|] eqn:L.
      * destruct (descend_set es fin child) as [c' r] eqn:D. cbn [fst] in *.
        apply lens_map in Hl. apply wf_map. split.
        -- now rewrite keys_update.
        -- apply Forall_update; [exact V|].
           replace c' with (fst (descend_set es fin child)) by now rewrite D.
           apply IH; [assumption|assumption| |].
           ++ destruct (lookup_in _ _ _ L) as [k' Hin]. unfold wf_vals in V. rewrite Forall_forall in V.
              apply (V _ Hin).
           ++ rewrite D. cbn [fst]. destruct (update_in k c' child _ L) as [k' Hin].
              rewrite Forall_forall in Hl. apply (Hl _ Hin).
      * destruct (descend_set es fin NNull) as [c' r] eqn:D. cbn [fst] in *.
        apply lens_map in Hl. apply wf_map. split.
        -- rewrite map_app. cbn [map fst]. destruct K as [K1 K2]. split.
           ++ apply NoDup_snoc; [exact K1|]. now apply lookup_none_iff.
           ++ apply Forall_app. split; [exact K2|]. constructor; [exact Hke|constructor].
        -- apply Forall_app. split; [exact V|]. constructor; [|constructor]. cbn [snd].
           replace c' with (fst (descend_set es fin NNull)) by now rewrite D.
           apply IH; [assumption|assumption|exact I|].
           rewrite D. cbn [fst]. apply Forall_app in Hl as [_ Hl]. now inversion Hl.
    + (* E_LIST *)
      destruct (wf_as_list n Hw) as [V B]. destruct (list_parts n) as [vec al]. cbn [fst] in *.
      destruct (fin (NList vec al)) as [n' a] eqn:F. cbn [fst] in *.
      specialize (Hfin (NList vec al)). rewrite F in Hfin. cbn [fst] in Hfin. apply Hfin; [|exact Hl].
      apply wf_list. split; assumption.
    + (* E_LIST_ELEMENT *)
      destruct (wf_as_list n Hw) as [V B]. destruct (list_parts n) as [vec al]. cbn [fst] in *.
      destruct (list_extend vec al i) as [[[vec1 al1] j]|] eqn:X.
      * destruct (list_extend_spec _ _ _ _ _ _ X V) as [V1 J]. now apply LIST.
      * cbn [fst]. apply wf_list. split; assumption.
    + (* E_LIST_INSERT *)
      destruct (wf_as_list n Hw) as [V B]. destruct (list_parts n) as [vec al]. cbn [fst] in *.
      destruct (list_insert vec al i) as [[[vec1 al1] j]|] eqn:X.
      * destruct (list_insert_spec _ _ _ _ _ _ X V) as [V1 J]. now apply LIST.
      * cbn [fst]. apply wf_list. split; assumption.
    + (* E_LIST_APPEND *)
      destruct (wf_as_list n Hw) as [V B]. destruct (list_parts n) as [vec al]. cbn [fst] in *.
      unfold list_append in *. apply LIST; [| |exact Hl].
      * apply Forall_app. split; [exact V|]. constructor; [exact I|constructor].
      * rewrite app_length. simpl. lia.
    + (* E_DOT *)
      destruct (fin n) as [n' a] eqn:F. cbn [fst] in *.
      specialize (Hfin n Hw). rewrite F in Hfin. cbn [fst] in Hfin. exact (Hfin Hl).
Qed.

(* ------------------------------------------------------------------ delete keeps well-formedness *)
Lemma delete_at_wf : forall es n, wf n -> wf (delete_at es n).
Proof.
  induction es as [|e es IH]; intros n Hw; [exact I|].
  destruct e; try exact I.
  - destruct (wf_as_map n Hw) as [[K1 K2] V]. destruct es as [|e' es'].
    + cbn [delete_at]. apply wf_map. split; [split|].
      * now apply NoDup_remove_key.
      * apply Forall_forall. intros k0 Hin. apply in_map_iff in Hin as [[k1 v1] [E Hin]]. simpl in E. subst k1.
        apply remove_key_sub in Hin. rewrite Forall_forall in K2. apply K2. apply in_map_iff. exists (k0, v1). auto.
      * apply Forall_forall. intros p Hin. apply remove_key_sub in Hin.
        unfold wf_vals in V. rewrite Forall_forall in V. auto.
    + rewrite delete_at_key_cons. destruct (lookup k (map_entries n)) as [c|] eqn:L; [|exact Hw].
      apply wf_map. split; [rewrite keys_update; split; assumption|].
      apply Forall_update; [exact V|]. apply IH.
      destruct (lookup_in _ _ _ L) as [k' Hin]. unfold wf_vals in V. rewrite Forall_forall in V. apply (V _ Hin).
  - destruct (wf_as_list n Hw) as [V B]. destruct es as [|e' es'].
    + cbn [delete_at]. destruct (list_parts n) as [vec al]. cbn [fst] in *. apply wf_list. split.
      * pose proof (length_remove_nth (Z.to_nat i) vec). lia.
      * now apply Forall_remove_nth.
    + rewrite delete_at_idx_cons. apply wf_list. split.
      * now rewrite length_set_nth.
      * apply Forall_set_nth; [exact V|]. apply IH. apply Forall_nth_default; [exact V|exact I].
Qed.

(* ------------------------------------------------------------------ "lists stay short" does not depend on what is
   stored at the anchor: if the tree is short after descend_set with one function it is short with any other
   function that keeps short nodes short (the lists on the path are the same) *)
Lemma wf_lens : forall n, wf n -> lens n.
Proof.
  induction n as [| v | kv IH | vec al IH] using node_ind'; intros Hw; try exact I.
  - apply wf_map in Hw as [_ Hv]. apply lens_map. unfold wf_vals in Hv. rewrite Forall_forall in *.
    intros p Hin. apply IH; auto.
  - apply wf_list in Hw as [Hb Hv]. apply lens_list. split; [exact Hb|]. unfold wf_items in Hv.
    rewrite Forall_forall in *. auto.
Qed.

Lemma lens_as_map n : lens n -> Forall (fun p => lens (snd p)) (map_entries n).
Proof. intros H. destruct n; simpl; try constructor. now apply lens_map. Qed.
Lemma lens_as_list n :
  lens n -> Forall lens (fst (list_parts n)) /\ (Z.of_nat (length (fst (list_parts n))) < INT_MAX)%Z.
Proof.
  intros H. destruct n; simpl; try (split; [constructor|reflexivity]).
  apply lens_list in H. tauto.
Qed.

Lemma descend_set_lens {A B} : forall es (fin : node -> node * A) (fin' : node -> node * B),
    (forall a, lens a -> lens (fst (fin' a))) ->
    forall n, lens n -> lens (fst (descend_set es fin n)) -> lens (fst (descend_set es fin' n)).
Proof.
  induction es as [|e es IH]; intros fin fin' Hfin n Hn Hl.
  - cbn [descend_set]. specialize (Hfin n Hn). destruct (fin' n); exact Hfin.
  - assert (LIST : forall vec1 al1 j,
               Forall lens vec1 -> (j < length vec1)%nat ->
               lens (fst (let '(c', r) := descend_set es fin (nth j vec1 NNull) in
                          (NList (set_nth j c' vec1) al1, r))) ->
               lens (fst (let '(c', r) := descend_set es fin' (nth j vec1 NNull) in
                          (NList (set_nth j c' vec1) al1, r)))).
    { intros vec1 al1 j Hv Hj Hl1.
      destruct (descend_set es fin (nth j vec1 NNull)) as [c1 r1] eqn:D1.
      destruct (descend_set es fin' (nth j vec1 NNull)) as [c2 r2] eqn:D2. cbn [fst] in *.
      apply lens_list in Hl1 as [Hb Hf]. apply lens_list. rewrite length_set_nth in *. split; [exact Hb|].
      apply Forall_set_nth; [exact Hv|].
      replace c2 with (fst (descend_set es fin' (nth j vec1 NNull))) by now rewrite D2.
      apply (IH fin fin' Hfin).
      - apply Forall_nth_default; [exact Hv|exact I].
      - rewrite D1. cbn [fst]. rewrite Forall_forall in Hf. apply Hf. now apply set_nth_in. }
    destruct e; cbn [descend_set] in *.
    + (* E_MAP *)
      pose proof (lens_as_map n Hn) as V.
      specialize (Hfin (NMap (map_entries n))). destruct (fin' (NMap (map_entries n))). apply Hfin. now apply lens_map.
    + (* E_MAP_ELEMENT *)
      pose proof (lens_as_map n Hn) as V.
      destruct (lookup k (map_entries n)) as [child|] eqn:L.
      * destruct (descend_set es fin child) as [c1 r1] eqn:D1.
        destruct (descend_set es fin' child) as [c2 r2] eqn:D2. cbn [fst] in *.
        apply lens_map in Hl. apply lens_map. apply Forall_update; [exact V|].
        replace c2 with (fst (descend_set es fin' child)) by now rewrite D2.
        apply (IH fin fin' Hfin).
        -- destruct (lookup_in _ _ _ L) as [k' Hin]. rewrite Forall_forall in V. apply (V _ Hin).
        -- rewrite D1. cbn [fst]. destruct (update_in k c1 child _ L) as [k' Hin].
           rewrite Forall_forall in Hl. apply (Hl _ Hin).
      * destruct (descend_set es fin NNull) as [c1 r1] eqn:D1.
        destruct (descend_set es fin' NNull) as [c2 r2] eqn:D2. cbn [fst] in *.
        apply lens_map in Hl. apply lens_map. apply Forall_app. split; [exact V|]. constructor; [|constructor]. cbn [snd].
        replace c2 with (fst (descend_set es fin' NNull)) by now rewrite D2.
        apply (IH fin fin' Hfin); [exact I|].
        rewrite D1. cbn [fst]. apply Forall_app in Hl as [_ Hl]. now inversion Hl.
    + (* E_LIST *)
      destruct (lens_as_list n Hn) as [V Bd]. destruct (list_parts n) as [vec al]. cbn [fst] in *.
      specialize (Hfin (NList vec al)). destruct (fin' (NList vec al)). apply Hfin. apply lens_list. split; assumption.
    + (* E_LIST_ELEMENT *)
      destruct (lens_as_list n Hn) as [V Bd]. destruct (list_parts n) as [vec al]. cbn [fst] in *.
      destruct (list_extend vec al i) as [[[vec1 al1] j]|] eqn:X.
      * destruct (list_extend_specP lens _ _ _ _ _ _ I X V) as [V1 J]. now apply LIST.
      * exact Hl.
    + (* E_LIST_INSERT *)
      destruct (lens_as_list n Hn) as [V Bd]. destruct (list_parts n) as [vec al]. cbn [fst] in *.
      destruct (list_insert vec al i) as [[[vec1 al1] j]|] eqn:X.
      * destruct (list_insert_specP lens _ _ _ _ _ _ I X V) as [V1 J]. now apply LIST.
      * exact Hl.
    + (* E_LIST_APPEND *)
      destruct (lens_as_list n Hn) as [V Bd]. destruct (list_parts n) as [vec al]. cbn [fst] in *.
      unfold list_append in *. apply LIST; [| |exact Hl].
      * apply Forall_app. split; [exact V|]. constructor; [exact I|constructor].
      * rewrite app_length. simpl. lia.
    + (* E_DOT *)
      specialize (Hfin n Hn). destruct (fin' n); exact Hfin.
Qed.

(* ------------------------------------------------------------------ well-formedness only depends on the document *)
Lemma Forall2_wf_transfer (P : node -> Prop) l1 : 
  Forall (fun x => forall y, abs x = abs y -> wf x -> wf y) l1 ->
  forall l2, map abs l1 = map abs l2 -> Forall wf l1 -> Forall wf l2.
Proof.
  induction 1 as [|x r Hx Hr IH]; intros [|y l2] E Hw; try discriminate; [constructor|].
  simpl in E. injection E as E1 E2. inversion Hw; subst. constructor; [eapply Hx; eauto|now apply IH].
Qed.

Lemma wf_abs_eq : forall n1 n2, abs n1 = abs n2 -> wf n1 -> wf n2.
Proof.
  induction n1 as [| v | kv IH | vec al IH] using node_ind'; intros n2 E Hw.
  - destruct n2; try discriminate. exact I.
  - destruct n2; try discriminate. exact I.
  - destruct n2 as [| |kv2|]; try discriminate. simpl in E. injection E as E.
    apply wf_map in Hw as [K V]. apply wf_map. split.
    + rewrite <- (keys_map abs absp absp_ok kv2). change (fun p : bytes * node => let '(k, v) := p in (k, abs v)) with absp in E.
      rewrite <- E. now rewrite (keys_map abs absp absp_ok).
    + change (fun p : bytes * node => let '(k, v) := p in (k, abs v)) with absp in E.
      clear K. revert kv2 E. unfold wf_vals in *.
      induction IH as [|[k1 v1] r Hx Hr IHr]; intros [|[k2 v2] kv2] E; try discriminate; [constructor|].
      simpl in E. injection E as Ek Ev Er. inversion V; subst. constructor.
      * simpl in *. eapply Hx; eauto.
      * apply IHr; assumption.
  - destruct n2 as [| | |vec2 al2]; try discriminate. simpl in E. injection E as E.
    apply wf_list in Hw as [B V]. apply wf_list. split.
    + rewrite <- (map_length abs vec2), <- E, map_length. exact B.
    + eapply (Forall2_wf_transfer (fun _ => True)); eauto.
Qed.

Lemma copy_wf dest src : wf src -> wf (copy dest src).
Proof. intros H. apply (wf_abs_eq src); [symmetry; now apply copy_abs|exact H]. Qed.

(* ------------------------------------------------------------------ entry points *)
Lemma fst_let_sum {A B C} (X : node * (A + B)) (f : A -> C) (g : C) :
  fst (let '(a, r) := X in match r with inl e => (a, f e) | inr _ => (a, g) end) = fst X.
Proof. destruct X as [a [e|u]]; reflexivity. Qed.

Lemma vset_wf root d : wf root -> lens (fst (vset root d)) -> wf (fst (vset root d)).
Proof.
  unfold vset. intros Hw. destruct (parse d) as [[[es t] rest]|] eqn:P; [|intros _; exact Hw].
  pose proof (parse_keys _ _ _ _ P) as Hk.
  destruct (last_is_collection es); [intros _; exact Hw|].
  destruct t; try (intros _; exact Hw); rewrite fst_let_sum; apply descend_set_wf; auto; intros; exact I.
Qed.

Lemma vdelete_wf root d : wf root -> wf (fst (vdelete root d)).
Proof.
  unfold vdelete. intros Hw. destruct (parse d) as [[[es t] rest]|]; [|exact Hw].
  destruct (descend_get es root); [exact Hw|]. destruct (is_eof t); [|exact Hw]. now apply delete_at_wf.
Qed.

Lemma vset_subtree_then_wf {A} root d (inner : node -> node * A) :
  wf root -> (forall a, wf a -> lens (fst (inner a)) -> wf (fst (inner a))) ->
  lens (fst (vset_subtree_then root d inner)) -> wf (fst (vset_subtree_then root d inner)).
Proof.
  unfold vset_subtree_then. intros Hw Hin. destruct (parse d) as [[[es t] rest]|] eqn:P; [|intros _; exact Hw].
  destruct (is_eof t); [|intros _; exact Hw]. apply descend_set_wf; auto. eapply parse_keys; eauto.
Qed.

Lemma vset_subtree_then_lens {A B} root d (inner : node -> node * A) (inner' : node -> node * B) :
  lens root -> (forall a, lens a -> lens (fst (inner' a))) ->
  lens (fst (vset_subtree_then root d inner)) -> lens (fst (vset_subtree_then root d inner')).
Proof.
  unfold vset_subtree_then. intros Hn Hin. destruct (parse d) as [[[es t] rest]|]; [|intros _; exact Hn].
  destruct (is_eof t); [|intros _; exact Hn]. now apply descend_set_lens.
Qed.

(* ------------------------------------------------------------------ the aliased copy *)
Lemma copy_within_ok root d d2 r1 u :
  vset_subtree_then root d (fun a => (a, tt)) = (r1, inr u) ->
  copy_within root d d2
  = (let '(r2, res2) := vset_subtree_then root d (fun a => (copy a (source_of r1 d2), ok0)) in (r2, sub_outcome res2)).
Proof. intros E. unfold copy_within. now rewrite E. Qed.
Lemma copy_within_err root d d2 r1 e :
  vset_subtree_then root d (fun a => (a, tt)) = (r1, inl e) -> copy_within root d d2 = (r1, mkOut (-2) e PNone).
Proof. intros E. unfold copy_within. now rewrite E. Qed.

(* the source is read in the conformed tree, which is well-formed when the final tree's lists are short *)
Lemma copy_within_conformed_wf root d d2 r1 u :
  wf root -> vset_subtree_then root d (fun a => (a, tt)) = (r1, inr u) ->
  lens (fst (copy_within root d d2)) -> wf r1.
Proof.
  intros Hw E Hl. rewrite (copy_within_ok _ _ _ _ _ E) in Hl.
  replace r1 with (fst (vset_subtree_then root d (fun a : node => (a, tt)))) by now rewrite E.
  apply vset_subtree_then_wf; [exact Hw|intros a Ha _; exact Ha|].
  apply (vset_subtree_then_lens root d (fun a => (copy a (source_of r1 d2), ok0))); [now apply wf_lens|intros a Ha; exact Ha|].
  destruct (vset_subtree_then root d (fun a => (copy a (source_of r1 d2), ok0))); exact Hl.
Qed.

Lemma source_of_wf r1 d2 : wf r1 -> wf (source_of r1 d2).
Proof.
  intros Hw. unfold source_of. destruct (get_node r1 d2) as [e|n] eqn:G; [exact I|]. exact (get_node_wf r1 d2 n Hw G).
Qed.

Lemma copy_within_wf root d d2 :
  wf root -> lens (fst (copy_within root d d2)) -> wf (fst (copy_within root d d2)).
Proof.
  intros Hw Hl. destruct (vset_subtree_then root d (fun a => (a, tt))) as [r1 [e|u]] eqn:E.
  - rewrite (copy_within_err _ _ _ _ _ E) in *. cbn [fst] in *.
    replace r1 with (fst (vset_subtree_then root d (fun a : node => (a, tt)))) in * by now rewrite E.
    apply vset_subtree_then_wf; [exact Hw|intros a Ha _; exact Ha|exact Hl].
  - pose proof (copy_within_conformed_wf root d d2 r1 u Hw E Hl) as W1.
    rewrite (copy_within_ok _ _ _ _ _ E) in *.
    destruct (vset_subtree_then root d (fun a => (copy a (source_of r1 d2), ok0))) as [r2 res2] eqn:E2. cbn [fst] in *.
    replace r2 with (fst (vset_subtree_then root d (fun a => (copy a (source_of r1 d2), ok0)))) in * by now rewrite E2.
    apply vset_subtree_then_wf; [exact Hw| |exact Hl].
    intros a _ _. cbn [fst]. apply copy_wf. now apply source_of_wf.
Qed.

(* refinement: the byte-level aliased copy is the document rule "the value at d becomes the old value at d2" *)
Lemma sim_copy_within root d d2 :
  wf root -> lens (fst (copy_within root d d2)) ->
  d_copy_within (abs root) d d2 = (abs (fst (copy_within root d d2)), abs_out (snd (copy_within root d d2))).
Proof.
  intros Hw Hl. unfold d_copy_within.
  rewrite (sim_vset_subtree_then (fun u : unit => u) root d (fun a => (a, tt)) (fun a => (a, tt))) by (intro; reflexivity).
  destruct (vset_subtree_then root d (fun a => (a, tt))) as [r1 [e|u]] eqn:E; cbn [fst snd map_inr].
  - rewrite (copy_within_err _ _ _ _ _ E). reflexivity.
  - pose proof (copy_within_conformed_wf root d d2 r1 u Hw E Hl) as W1.
    rewrite (copy_within_ok _ _ _ _ _ E).
    rewrite (sim_vset_subtree_then abs_out root d (fun a => (copy a (source_of r1 d2), ok0))
                                   (fun _ => (d_source_of (abs r1) d2, dok0))).
    + destruct (vset_subtree_then root d (fun a => (copy a (source_of r1 d2), ok0))) as [r2 [e|o]]; reflexivity.
    + intros n. cbn [fst snd]. rewrite (copy_abs n _ (source_of_wf r1 d2 W1)).
      unfold d_source_of, source_of. rewrite sim_get_node. destruct (get_node r1 d2); reflexivity.
Qed.

(* ------------------------------------------------------------------ operation sequences *)
Definition lens_state (s : state) : Prop := lens (st_root s) /\ lens (st_aux s).

Lemma step_wf s o : wf_state s -> lens_state (fst (step s o)) -> wf_state (fst (step s o)).
Proof.
  intros [Hr Ha]. destruct s as [root aux]. cbn [st_root st_aux] in *.
  destruct o; unfold step; cbn [st_root st_aux].
  - destruct (vset root d) as [r' out] eqn:E. intros [L1 L2]. split; [|exact Ha]. cbn [fst st_root] in *.
    replace r' with (fst (vset root d)) in * by now rewrite E. now apply vset_wf.
  - destruct (vdelete root d) as [r' out] eqn:E. intros _. split; [|exact Ha]. cbn [fst st_root].
    replace r' with (fst (vdelete root d)) by now rewrite E. now apply vdelete_wf.
  - intros _. now split.
  - intros _. now split.
  - intros _. now split.
  - intros _. now split.
  - intros _. now split.
  - unfold vset_subtree. destruct (vset_subtree_then root d _) as [r' res] eqn:E. intros [L1 L2].
    split; [|exact Ha]. cbn [fst st_root] in *.
    replace r' with (fst (vset_subtree_then root d (fun n => (n, tt)))) in * by now rewrite E.
    apply vset_subtree_then_wf; auto.
  - destruct (vset_subtree_then root d _) as [r' res] eqn:E. intros [L1 L2].
    split; [|exact Ha]. cbn [fst st_root] in *.
    replace r' with (fst (vset_subtree_then root d (fun a => vset a d2))) in * by now rewrite E.
    apply vset_subtree_then_wf; auto. intros a Hwa. now apply vset_wf.
  - destruct (vset_subtree_then root d _) as [r' res] eqn:E. intros [L1 L2].
    split; [|exact Ha]. cbn [fst st_root] in *.
    replace r' with (fst (vset_subtree_then root d (fun a => vdelete a d2))) in * by now rewrite E.
    apply vset_subtree_then_wf; auto. intros a Hwa _. now apply vdelete_wf.
  - intros _. split; [exact Hr|]. cbn [fst st_aux]. apply copy_wf.
    destruct (get_node root d) as [e|n] eqn:G; [exact I|]. exact (get_node_wf root d n Hr G).
  - destruct (vset_subtree_then root d _) as [r' res] eqn:E. intros [L1 L2].
    split; [|exact Ha]. cbn [fst st_root] in *.
    replace r' with (fst (vset_subtree_then root d (fun a => (copy a aux, ok0)))) in * by now rewrite E.
    apply vset_subtree_then_wf; auto. intros a _ _. cbn [fst]. now apply copy_wf.
  - destruct (copy_within root d d2) as [r' out] eqn:E. intros [L1 L2]. split; [|exact Ha]. cbn [fst st_root] in *.
    replace r' with (fst (copy_within root d d2)) in * by now rewrite E. now apply copy_within_wf.
  - intros _. now split.
Qed.

(* ------------------------------------------------------------------ refinement, every op (copies included) *)
Lemma sim_step s o :
  wf_state s -> lens_state (fst (step s o)) ->
  d_step (abs_state s) o = (abs_state (fst (step s o)), abs_out (snd (step s o))).
Proof.
  intros [Hr Ha] Hl. destruct (is_copy o) eqn:C; [|now apply sim_step_nocopy].
  destruct s as [root aux]. cbn [st_root st_aux] in *.
  destruct o; try discriminate C; unfold d_step, step, abs_state in *; cbn [ds_root ds_aux st_root st_aux fst snd] in *.
  - rewrite sim_get_node. destruct (get_node root d) as [e|n] eqn:G; cbn [map_inr].
    + unfold d_copy. now rewrite (copy_abs aux NNull I).
    + unfold d_copy. now rewrite (copy_abs aux n (get_node_wf root d n Hr G)).
  - rewrite (sim_vset_subtree_then abs_out root d (fun a => (copy a aux, ok0))).
    + destruct (vset_subtree_then root d _) as [r' [e|u]]; reflexivity.
    + intros n. unfold d_copy. cbn [fst snd]. now rewrite (copy_abs n aux Ha).
  - destruct (copy_within root d d2) as [r' out] eqn:E. destruct Hl as [L1 _]. cbn [fst st_root] in L1.
    replace r' with (fst (copy_within root d d2)) in L1 by now rewrite E.
    rewrite (sim_copy_within root d d2 Hr L1), E. reflexivity.
Qed.

Lemma sim_run : forall ops s,
    wf_run s ops ->
    d_run (abs_state s) ops = (abs_state (fst (run s ops)), map abs_out (snd (run s ops))).
Proof.
  induction ops as [|o ops IH]; intros s H; [reflexivity|].
  destruct H as [Hs Hr]. simpl.
  assert (Hn : lens_state (fst (step s o))).
  { destruct ops; destruct Hr as [[W1 W2] _]; split; now apply wf_lens. }
  rewrite (sim_step s o Hs Hn). destruct (step s o) as [s1 out]. cbn [fst snd] in *.
  rewrite (IH s1 Hr). destruct (run s1 ops); reflexivity.
Qed.

(* non-vacuity: a script with sets, a delete, a copy out, a copy into a subtree, and aliased copies: source inside
   the destination ("c" := "c.d.l"), destination inside the source ("a.x.y" := "a"), source = destination, a missing
   source, a destination that is created by an append *)
Definition example_ops : list op :=
  [OSet [97; 46; 98; 61; 120]%N; OSet [108; 91; 43; 93; 61; 121]%N; OSetSub [101; 123; 125]%N;
   OCopyOut [46]%N; OCopyIn [99; 46; 100]%N; ODel [97; 46; 98]%N; OGet [99; 46; 100; 46; 108; 91; 48; 93]%N;
   OCopyWithin [99]%N [99; 46; 100; 46; 108]%N; OCopyWithin [97; 46; 120; 46; 121]%N [97]%N;
   OCopyWithin [108]%N [108]%N; OCopyWithin [101]%N [113]%N; OCopyWithin [108; 91; 43; 93]%N [46]%N;
   OGet [108; 91; 49; 93; 46; 99; 91; 48; 93]%N].
Lemma wf_run_example : wf_run init_state example_ops.
Proof.
  vm_compute. repeat split; try lia; repeat constructor; simpl; intuition (try discriminate; try congruence).
Qed.

(* no list reaches 2^31 - 1 elements in any state met while running the script *)
Fixpoint lens_run (s : state) (ops : list op) : Prop :=
  lens_state s /\ match ops with [] => True | o :: r => lens_run (fst (step s o)) r end.

Lemma wf_run_of_lens : forall ops s, wf_state s -> lens_run s ops -> wf_run s ops.
Proof.
  induction ops as [|o ops IH]; intros s Hw Hl; simpl; [tauto|].
  split; [exact Hw|]. destruct Hl as [_ Hl]. apply IH; [|exact Hl].
  apply step_wf; [exact Hw|]. destruct ops; simpl in Hl; tauto.
Qed.

Theorem sim_run_full ops s :
  wf_state s -> lens_run s ops ->
  d_run (abs_state s) ops = (abs_state (fst (run s ops)), map abs_out (snd (run s ops))).
Proof. intros Hw Hl. apply sim_run. now apply wf_run_of_lens. Qed.

Theorem sim_run_from_empty ops :
  lens_run init_state ops ->
  d_run d_init ops = (abs_state (fst (run init_state ops)), map abs_out (snd (run init_state ops))).
Proof. intros Hl. apply (sim_run_full ops init_state); [split; exact I|exact Hl]. Qed.

Lemma lens_run_example : lens_run init_state example_ops.
Proof. vm_compute. repeat split; reflexivity. Qed.
