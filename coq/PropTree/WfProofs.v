(* WfProofs: well-formedness (non-empty distinct keys) is an invariant of every operation as long
   as no list reaches 2^31 - 1 elements; with it the refinement theorem holds for every
   operation sequence including vnaproperty_copy, from the empty state. *)
Require Import List NArith ZArith Bool Lia.
Import ListNotations.
Require Import LV.PropTree.PropModel LV.PropTree.DocSpec LV.PropTree.PropProofs LV.PropTree.QuoteProofs
        LV.PropTree.RebuildProofs LV.PropTree.ApiProofs.

(* ------------------------------------------------------------------ lists stay short *)
Fixpoint lens (n : node) : Prop :=
  match n with
  | NMap kv => (fix all (l : list (bytes * node)) : Prop :=
                  match l with [] => True | (_, v) :: r => lens v /\ all r end) kv
  | NList vec _ => (Z.of_nat (length vec) < INT_MAX)%Z
                   /\ (fix all (l : list node) : Prop :=
                         match l with [] => True | v :: r => lens v /\ all r end) vec
  | _ => True
  end.

Lemma lens_map kv : lens (NMap kv) <-> Forall (fun p => lens (snd p)) kv.
Proof.
  induction kv as [|[k v] r IH].
  - split; intros; [constructor|exact I].
  - split; intros H.
    + simpl in H. destruct H as [H1 H2]. constructor; [exact H1|]. apply IH. exact H2.
    + inversion H; subst. simpl. split; [assumption|]. apply IH. assumption.
Qed.
Lemma lens_list vec al : lens (NList vec al) <-> (Z.of_nat (length vec) < INT_MAX)%Z /\ Forall lens vec.
Proof.
  simpl. split; intros [H1 H2]; split; auto.
  - clear H1. induction vec as [|v r IH]; constructor; [apply H2|]. apply IH. apply H2.
  - clear H1. induction vec as [|v r IH]; [exact I|].
    inversion H2; subst. split; [assumption|]. now apply IH.
Qed.

(* ------------------------------------------------------------------ keys produced by the scanner *)
Lemma trim_nonempty : forall d p, d <> [] -> trim d p <> [].
Proof.
  induction d as [|c d IH]; intros p H; [congruence|].
  simpl. destruct (Nat.ltb p (length d) && (c =? 32)%N) eqn:E; [|discriminate].
  apply andb_true_iff in E as [E _]. apply Nat.ltb_lt in E.
  apply IH. destruct d; [simpl in E; lia|discriminate].
Qed.

Lemma id_loop_grows_aux : forall n s src dest prot d p r,
    (length s <= n)%nat ->
    id_loop s src dest prot = Some (d, p, r) -> (length dest <= length d)%nat.
Proof.
  induction n as [|n IH]; intros s src dest prot d p r Hn H.
  - destruct s; [|simpl in Hn; lia]. simpl in H. injection H as <- _ _. lia.
  - destruct s as [|c s]; simpl in H.
    + injection H as <- _ _. lia.
    + destruct (negb (is_idchar c)); [injection H as <- _ _; lia|].
      destruct (c =? 92)%N.
      * destruct s as [|e s2]; [discriminate|].
        apply IH in H; [simpl in H; lia|]. simpl in Hn. lia.
      * apply IH in H; [simpl in H; lia|]. simpl in Hn. lia.
Qed.
Lemma id_loop_grows s src dest prot d p r :
    id_loop s src dest prot = Some (d, p, r) -> (length dest <= length d)%nat.
Proof. apply (id_loop_grows_aux (length s)). lia. Qed.

Lemma id_loop_start_nonempty c s d p r :
  is_idchar1 c = true -> id_loop (c :: s) 0 [] 0 = Some (d, p, r) -> d <> [].
Proof.
  intros Hc H. simpl in H. rewrite (idchar1_idchar c Hc) in H. simpl in H.
  destruct (c =? 92)%N.
  - destruct s as [|e s2]; [discriminate|]. apply id_loop_grows in H. destruct d; [simpl in H; lia|discriminate].
  - apply id_loop_grows in H. destruct d; [simpl in H; lia|discriminate].
Qed.

Lemma rev_nonempty {A} (l : list A) : l <> [] -> rev l <> [].
Proof. destruct l; [congruence|]. intros _ H. apply (f_equal (@length A)) in H. rewrite rev_length in H. discriminate. Qed.

Lemma scan_id_nonempty : forall s k r, scan s = (T_ID k, r) -> k <> [].
Proof.
  induction s as [|c s IH]; intros k r H; [discriminate|].
  rewrite scan_unfold in H.
  destruct (is_ws c); [eapply IH; exact H|].
  destruct (c =? 35)%N; [discriminate|]. destruct (c =? 43)%N; [discriminate|].
  destruct (c =? 46)%N; [discriminate|]. destruct (c =? 61)%N; [discriminate|].
  destruct (c =? 91)%N; [discriminate|]. destruct (c =? 93)%N; [discriminate|].
  destruct (c =? 123)%N; [discriminate|]. destruct (c =? 125)%N; [discriminate|].
  destruct (is_digit c); [destruct (span_digits (c :: s) 0); discriminate|].
  destruct (is_idchar1 c) eqn:E1; [|discriminate].
  destruct (id_loop (c :: s) 0 [] 0) as [[[d p] rest]|] eqn:L; [|discriminate].
  injection H as <- _. apply rev_nonempty, trim_nonempty. eapply id_loop_start_nonempty; eauto.
Qed.

Definition key_ok (e : expr) : Prop := match e with E_MAP_ELEMENT k => k <> [] | _ => True end.

Lemma parse_loop_keys : forall fuel st t r acc es t' r',
    Forall key_ok acc ->
    (forall k, t = T_ID k -> k <> []) ->
    parse_loop fuel st t r acc = Some (es, t', r') -> Forall key_ok es.
Proof.
  induction fuel as [|f IH]; intros st t r acc es t' r' Ha Ht H; [discriminate|].
  assert (R : forall e, key_ok e -> Forall key_ok (rev (e :: acc))).
  { intros e He. apply Forall_rev. now constructor. }
  assert (AM : forall r0, abstract_map r0 acc = Some (es, t', r') -> Forall key_ok es).
  { intros r0 Hm. unfold abstract_map in Hm. destruct (scan r0) as [t1 r1].
    destruct t1; try discriminate. destruct (scan r1). injection Hm as <- _ _. now apply R. }
  assert (NX : forall st1 r0 acc1, Forall key_ok acc1 ->
               (let '(t1, r1) := scan r0 in parse_loop f st1 t1 r1 acc1) = Some (es, t', r') -> Forall key_ok es).
  { intros st1 r0 acc1 Hacc Hp. destruct (scan r0) as [t1 r1] eqn:S.
    eapply IH; [exact Hacc| |exact Hp]. intros k Hk. subst t1. eapply scan_id_nonempty; exact S. }
  cbn [parse_loop] in H.
  destruct st.
  - destruct t; try discriminate.
    + eapply NX; [exact Ha|exact H].
    + eapply NX; [exact Ha|exact H].
    + now apply AM in H.
    + eapply NX; [|exact H]. constructor; [simpl; now apply Ht|exact Ha].
  - destruct t; try (injection H as <- _ _; now apply R).
    + eapply NX; [exact Ha|exact H].
    + now apply AM in H.
    + eapply NX; [|exact H]. constructor; [simpl; now apply Ht|exact Ha].
  - destruct t; try (injection H as <- _ _; now apply Forall_rev).
    + eapply NX; [exact Ha|exact H].
    + eapply NX; [exact Ha|exact H].
    + now apply AM in H.
  - destruct t; try discriminate.
    + destruct (scan r) as [t1 r1]. destruct t1; try discriminate.
      eapply NX; [|exact H]. now constructor.
    + destruct (scan r) as [t1 r1]. injection H as <- _ _. now apply R.
    + destruct (scan r) as [t1 r1]. destruct t1; try discriminate.
      * destruct (scan r1) as [t2 r2]. destruct t2; try discriminate.
        eapply NX; [|exact H]. now constructor.
      * eapply NX; [|exact H]. now constructor.
Qed.

Lemma parse_keys d es t r : parse d = Some (es, t, r) -> Forall key_ok es.
Proof.
  unfold parse. destruct (scan d) as [t0 r0] eqn:S. intros H.
  eapply parse_loop_keys; [constructor| |exact H].
  intros k Hk. subst t0. eapply scan_id_nonempty; exact S.
Qed.
