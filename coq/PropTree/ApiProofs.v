(* ApiProofs: API-level consequences of the model (documented errors, refused calls leave the
   tree unchanged, get after set, index shifting, conflicting nodes replaced, trailing dot) and
   the shape of what the descriptor parser returns. *)
Require Import List NArith ZArith Bool Lia.
Import ListNotations.
Require Import LV.PropTree.PropModel LV.PropTree.DocSpec LV.PropTree.PropProofs LV.PropTree.QuoteProofs
        LV.PropTree.RebuildProofs.

(* ------------------------------------------------------------------ non-modifying calls *)
Definition readonly (o : op) : bool :=
  match o with OGet _ | OType _ | OCount _ | OKeys _ | OGetSub _ | OQuote _ => true | _ => false end.

Lemma readonly_preserves s o : readonly o = true -> fst (step s o) = s.
Proof. destruct o; try discriminate; reflexivity. Qed.

(* ------------------------------------------------------------------ malformed descriptors *)
Lemma malformed_einval root aux d :
  parse d = None ->
  vget root d = fail EINVAL /\ vtype root d = fail EINVAL /\ vcount root d = fail EINVAL /\
  vkeys root d = fail EINVAL /\ vget_subtree root d = fail EINVAL /\
  vset root d = (root, fail EINVAL) /\ vdelete root d = (root, fail EINVAL) /\
  vset_subtree root d = (root, fail EINVAL) /\
  (forall o, In o [OSet d; ODel d; OGet d; OType d; OCount d; OKeys d; OGetSub d; OSetSub d] ->
             step (mkState root aux) o = (mkState root aux, fail EINVAL)).
Proof.
  intros H.
  assert (G : get_node root d = inl EINVAL) by (unfold get_node; now rewrite H).
  assert (V1 : vget root d = fail EINVAL) by (unfold vget; now rewrite G).
  assert (V2 : vtype root d = fail EINVAL) by (unfold vtype; now rewrite G).
  assert (V3 : vcount root d = fail EINVAL) by (unfold vcount; now rewrite G).
  assert (V4 : vkeys root d = fail EINVAL) by (unfold vkeys; now rewrite G).
  assert (V5 : vget_subtree root d = fail EINVAL) by (unfold vget_subtree; now rewrite G).
  assert (V6 : vset root d = (root, fail EINVAL)) by (unfold vset; now rewrite H).
  assert (V7 : vdelete root d = (root, fail EINVAL)) by (unfold vdelete; now rewrite H).
  assert (V8 : vset_subtree root d = (root, fail EINVAL))
    by (unfold vset_subtree, vset_subtree_then; now rewrite H).
  repeat split; auto.
  intros o Ho. simpl in Ho.
  destruct Ho as [E|[E|[E|[E|[E|[E|[E|[E|[]]]]]]]]]; subst o; unfold step; cbn [st_root st_aux];
    rewrite ?V1, ?V2, ?V3, ?V4, ?V5, ?V6, ?V7, ?V8; reflexivity.
Qed.

(* ------------------------------------------------------------------ trailing tokens (D1) and refused
   modifying calls (D54) *)
Definition is_error (o : outcome) : Prop := o_ret o = (-1)%Z /\ (o_err o = EINVAL \/ o_err o = ENOENT).

Lemma trailing_tokens_rejected root d es t r :
  parse d = Some (es, t, r) -> is_eof t = false ->
  is_error (vget root d) /\ is_error (vtype root d) /\ is_error (vcount root d) /\
  is_error (vkeys root d) /\ is_error (vget_subtree root d) /\
  (fst (vdelete root d) = root /\ is_error (snd (vdelete root d))) /\
  vset_subtree root d = (root, fail EINVAL).
Proof.
  intros H Ht.
  assert (G : exists e, get_node root d = inl e /\ (e = EINVAL \/ e = ENOENT)).
  { unfold get_node. rewrite H.
    assert (D : forall es n, match descend_get es n with inl e => e = EINVAL \/ e = ENOENT | inr _ => True end).
    { clear. induction es as [|e es IH]; intros n; [exact I|].
      destruct e; simpl; try (destruct n; auto).
      - destruct (lookup k kv); [apply IH|auto].
      - destruct (i <? 0)%Z; auto. destruct (i <? Z.of_nat (length vec))%Z; auto.
        destruct (nth_error vec (Z.to_nat i)); [apply IH|auto]. }
    specialize (D es root). destruct (descend_get es root) as [e|n]; [eauto|].
    rewrite Ht. eauto. }
  destruct G as [e [G He]].
  unfold vget, vtype, vcount, vkeys, vget_subtree, is_error. rewrite G. cbn.
  repeat split; auto.
  - unfold vdelete. rewrite H. destruct (descend_get es root); [reflexivity|now rewrite Ht].
  - unfold vdelete. rewrite H. destruct (descend_get es root) as [e'|n]; [reflexivity|now rewrite Ht].
  - unfold vdelete. rewrite H.
    assert (D : forall es n, match descend_get es n with inl e => e = EINVAL \/ e = ENOENT | inr _ => True end).
    { clear. induction es as [|e es IH]; intros n; [exact I|].
      destruct e; simpl; try (destruct n; auto).
      - destruct (lookup k kv); [apply IH|auto].
      - destruct (i <? 0)%Z; auto. destruct (i <? Z.of_nat (length vec))%Z; auto.
        destruct (nth_error vec (Z.to_nat i)); [apply IH|auto]. }
    specialize (D es root). destruct (descend_get es root) as [e'|n]; [exact D|]. rewrite Ht. now left.
  - unfold vset_subtree, vset_subtree_then. rewrite H, Ht. reflexivity.
Qed.

Lemma refused_set_unchanged root d es t rest :
  parse d = Some (es, t, rest) ->
  last_is_collection es = true \/ (t <> T_ASSIGN /\ t <> T_HASH) ->
  vset root d = (root, fail EINVAL).
Proof.
  intros H [Hc|[H1 H2]]; unfold vset; rewrite H.
  - now rewrite Hc.
  - destruct (last_is_collection es); [reflexivity|]. destruct t; try reflexivity; congruence.
Qed.

(* ------------------------------------------------------------------ documented errors of look-ups *)
Lemma lookup_errors k i es v kv vec al :
  (* a key applied to something that is not a map, a subscript to something that is not a list *)
  descend_get (E_MAP_ELEMENT k :: es) (NScalar v) = inl EINVAL /\
  descend_get (E_MAP_ELEMENT k :: es) (NList vec al) = inl EINVAL /\
  descend_get (E_LIST_ELEMENT i :: es) (NScalar v) = inl EINVAL /\
  descend_get (E_LIST_ELEMENT i :: es) (NMap kv) = inl EINVAL /\
  descend_get (E_MAP :: es) (NList vec al) = inl EINVAL /\
  descend_get (E_LIST :: es) (NMap kv) = inl EINVAL /\
  (* missing key, missing index, anything below a null *)
  (lookup k kv = None -> descend_get (E_MAP_ELEMENT k :: es) (NMap kv) = inl ENOENT) /\
  ((Z.of_nat (length vec) <= i)%Z -> descend_get (E_LIST_ELEMENT i :: es) (NList vec al) = inl ENOENT) /\
  descend_get (E_MAP_ELEMENT k :: es) NNull = inl ENOENT /\
  descend_get (E_LIST_ELEMENT i :: es) NNull = inl ENOENT /\
  (* insert / append subscripts in a non-modifying call *)
  descend_get (E_LIST_INSERT i :: es) (NList vec al) = inl EINVAL /\
  descend_get (E_LIST_APPEND :: es) (NList vec al) = inl EINVAL.
Proof.
  repeat split; try reflexivity.
  - intros H. simpl. now rewrite H.
  - intros H. simpl. destruct (i <? 0)%Z eqn:E; [apply Z.ltb_lt in E; lia|].
    replace (i <? Z.of_nat (length vec))%Z with false by (symmetry; apply Z.ltb_ge; lia). reflexivity.
Qed.

Lemma value_kind_errors root d n :
  get_node root d = inr n ->
  (forall kv, n = NMap kv -> vget root d = fail EINVAL) /\
  (forall vec al, n = NList vec al -> vget root d = fail EINVAL /\ vkeys root d = fail EINVAL) /\
  (forall v, n = NScalar v -> vcount root d = fail EINVAL /\ vkeys root d = fail EINVAL).
Proof.
  intros H. unfold vget, vkeys, vcount. rewrite H. repeat split; intros; subst; reflexivity.
Qed.

(* ------------------------------------------------------------------ association / positional list facts *)
Lemma lookup_update_same {A} k (v v0 : A) kv : lookup k kv = Some v0 -> lookup k (update k v kv) = Some v.
Proof.
  induction kv as [|[k1 v1] r IH]; simpl; [discriminate|].
  destruct (bytes_eqb k k1) eqn:E; simpl; rewrite E; auto.
Qed.
Lemma lookup_app_new {A} k (v : A) kv : lookup k kv = None -> lookup k (kv ++ [(k, v)]) = Some v.
Proof.
  induction kv as [|[k1 v1] r IH]; simpl.
  - now rewrite bytes_eqb_refl.
  - destruct (bytes_eqb k k1); [discriminate|exact IH].
Qed.
Lemma lookup_update_other {A} k k' (v : A) kv : bytes_eqb k' k = false -> lookup k' (update k v kv) = lookup k' kv.
Proof.
  intros H. induction kv as [|[k1 v1] r IH]; simpl; [reflexivity|].
  destruct (bytes_eqb k k1) eqn:E; simpl.
  - apply bytes_eqb_eq in E. subst k1. now rewrite H.
  - destruct (bytes_eqb k' k1); [reflexivity|exact IH].
Qed.
Lemma length_set_nth {A} j (x : A) l : length (set_nth j x l) = length l.
Proof. revert j; induction l as [|y r IH]; intros [|j]; simpl; auto. Qed.
Lemma nth_error_set_nth {A} j (x : A) l : (j < length l)%nat -> nth_error (set_nth j x l) j = Some x.
Proof.
  revert j; induction l as [|y r IH]; intros [|j] H; simpl in *; try lia; [reflexivity|]. apply IH. lia.
Qed.
Lemma nth_error_set_nth_other {A} j j' (x : A) l : j <> j' -> nth_error (set_nth j x l) j' = nth_error l j'.
Proof.
  revert j j'; induction l as [|y r IH]; intros [|j] [|j'] H; simpl; try reflexivity; try congruence.
  apply IH. congruence.
Qed.
Lemma nth_error_remove_nth {A} i j (l : list A) :
  nth_error (remove_nth i l) j = if Nat.ltb j i then nth_error l j else nth_error l (S j).
Proof.
  revert i j; induction l as [|y r IH]; intros i j.
  - destruct i, j; simpl; try reflexivity; destruct (Nat.ltb _ _); reflexivity.
  - destruct i as [|i], j as [|j]; simpl; try reflexivity.
    rewrite IH. reflexivity.
Qed.
Lemma nth_error_insert_nth {A} i j (x : A) (l : list A) :
  (i <= length l)%nat ->
  nth_error (insert_nth i x l) j
  = if Nat.ltb j i then nth_error l j else if Nat.eqb j i then Some x else nth_error l (pred j).
Proof.
  unfold insert_nth. revert i j; induction l as [|y r IH]; intros i j H.
  - simpl in H. assert (i = O) by lia. subst i. destruct j as [|[|j]]; reflexivity.
  - destruct i as [|i].
    + destruct j; reflexivity.
    + destruct j as [|j]; [reflexivity|].
      cbn [firstn skipn app nth_error]. rewrite IH by (simpl in H; lia).
      change (Nat.ltb (S j) (S i)) with (Nat.ltb j i). change (Nat.eqb (S j) (S i)) with (Nat.eqb j i).
      destruct (Nat.ltb j i) eqn:E; [reflexivity|].
      destruct (Nat.eqb j i) eqn:E2; [reflexivity|].
      apply Nat.ltb_ge in E. apply Nat.eqb_neq in E2.
      destruct j as [|j']; [lia|reflexivity].
Qed.

(* ------------------------------------------------------------------ get after set *)
Definition plain_step (e : expr) : Prop :=
  match e with
  | E_MAP_ELEMENT _ => True
  | E_LIST_ELEMENT i => (0 <= i < INT_MAX)%Z
  | _ => False
  end.

Lemma get_set_path : forall es n x,
    Forall plain_step es ->
    descend_get es (fst (descend_set es (fun _ => (x, tt)) n)) = inr x
    /\ snd (descend_set es (fun _ => (x, tt)) n) = inr tt.
Proof.
  induction es as [|e es IH]; intros n x H; [split; reflexivity|].
  inversion H as [|? ? He Hes]; subst. destruct e; simpl in He; try contradiction.
  - simpl. destruct (lookup k (map_entries n)) as [c|] eqn:L.
    + destruct (IH c x Hes) as [I1 I2]. destruct (descend_set es _ c) as [c' r]. simpl in *.
      rewrite (lookup_update_same _ _ _ _ L). split; assumption.
    + destruct (IH NNull x Hes) as [I1 I2]. destruct (descend_set es _ NNull) as [c' r]. simpl in *.
      rewrite (lookup_app_new _ _ _ L). split; assumption.
  - simpl. destruct (list_parts n) as [vec al]. unfold list_extend.
    replace (i <? 0)%Z with false by (symmetry; apply Z.ltb_ge; lia).
    destruct (i <? Z.of_nat (length vec))%Z eqn:E.
    + destruct (IH (nth (Z.to_nat i) vec NNull) x Hes) as [I1 I2].
      destruct (descend_set es _ _) as [c' r]. simpl in *.
      replace (i <? 0)%Z with false by (symmetry; apply Z.ltb_ge; lia).
      rewrite length_set_nth, E. apply Z.ltb_lt in E.
      rewrite nth_error_set_nth by lia. split; assumption.
    + replace (i =? INT_MAX)%Z with false by (symmetry; apply Z.eqb_neq; lia).
      apply Z.ltb_ge in E.
      remember (vec ++ repeat NNull (S (Z.to_nat i) - length vec)) as vec1 eqn:Ev.
      assert (Hlen : length vec1 = S (Z.to_nat i)).
      { subst vec1. rewrite app_length, repeat_length. lia. }
      destruct (IH (nth (Z.to_nat i) vec1 NNull) x Hes) as [I1 I2].
      destruct (descend_set es _ _) as [c' r]. cbn [fst snd] in *. cbn [descend_get].
      replace (i <? 0)%Z with false by (symmetry; apply Z.ltb_ge; lia).
      rewrite length_set_nth, Hlen.
      replace (i <? Z.of_nat (S (Z.to_nat i)))%Z with true by (symmetry; apply Z.ltb_lt; lia).
      rewrite nth_error_set_nth by lia. split; assumption.
Qed.

(* byte level: set through the quoted key, get through the quoted key *)
Theorem get_after_set_quoted root k v :
  k <> [] ->
  vget (fst (vset root (quote_key k ++ 61%N :: v))) (quote_key k) = mkOut 0 E0 (PStr v)
  /\ snd (vset root (quote_key k ++ 61%N :: v)) = ok0.
Proof.
  intros Hk. unfold vset. rewrite (parse_quote_key_assign k v Hk). cbn [last_is_collection last].
  destruct (get_set_path [E_MAP_ELEMENT k] root (NScalar v)) as [G1 G2]; [repeat constructor|].
  destruct (descend_set [E_MAP_ELEMENT k] _ root) as [r' res]. cbn [fst snd] in *. subst res.
  cbn [fst snd]. split; [|reflexivity].
  unfold vget, get_node. rewrite (parse_quote_key k Hk), G1. reflexivity.
Qed.

(* ------------------------------------------------------------------ conflicting nodes are replaced *)
Lemma set_replaces_conflict {A} k es (fin : node -> node * A) n :
  (forall kv, n <> NMap kv) ->
  fst (descend_set (E_MAP_ELEMENT k :: es) fin n) = NMap [(k, fst (descend_set es fin NNull))].
Proof.
  intros H. destruct n; try (exfalso; eapply H; reflexivity); simpl;
    destruct (descend_set es fin NNull); reflexivity.
Qed.
Lemma set_replaces_conflict_list {A} es (fin : node -> node * A) n :
  (forall vec al, n <> NList vec al) ->
  fst (descend_set (E_LIST_ELEMENT 0 :: es) fin n)
  = NList [fst (descend_set es fin NNull)] 8.
Proof.
  intros H. destruct n; try (exfalso; eapply H; reflexivity); simpl;
    destruct (descend_set es fin NNull); reflexivity.
Qed.

(* ------------------------------------------------------------------ delete *)
Lemma delete_entry_vs_trailing_dot k kv c :
  lookup k kv = Some c ->
  delete_at [E_MAP_ELEMENT k] (NMap kv) = NMap (remove_key k kv) /\
  delete_at [E_MAP_ELEMENT k; E_DOT] (NMap kv) = NMap (update k NNull kv).
Proof. intros H. split; [reflexivity|]. simpl. now rewrite H. Qed.

Lemma delete_shifts i vec al j :
  (i < length vec)%nat ->
  delete_at [E_LIST_ELEMENT (Z.of_nat i)] (NList vec al) = NList (remove_nth i vec) al /\
  nth_error (remove_nth i vec) j = (if Nat.ltb j i then nth_error vec j else nth_error vec (S j)) /\
  length (remove_nth i vec) = pred (length vec).
Proof.
  intros H. split; [simpl; now rewrite Nat2Z.id|]. split; [apply nth_error_remove_nth|].
  revert i H. induction vec as [|y r IH]; intros [|i] H; simpl in *; try lia.
  rewrite IH by lia. destruct r; simpl in *; lia.
Qed.

Lemma insert_shifts i vec al j :
  (i < length vec)%nat ->
  list_insert vec al (Z.of_nat i) = Some (insert_nth i NNull vec, check_allocation al (S (length vec)), i) /\
  nth_error (insert_nth i NNull vec) j
  = (if Nat.ltb j i then nth_error vec j else if Nat.eqb j i then Some NNull else nth_error vec (pred j)).
Proof.
  intros H. split.
  - unfold list_insert. replace (Z.of_nat i <? 0)%Z with false by (symmetry; apply Z.ltb_ge; lia).
    replace (Z.of_nat i <? Z.of_nat (length vec))%Z with true by (symmetry; apply Z.ltb_lt; lia).
    now rewrite Nat2Z.id.
  - apply nth_error_insert_nth. lia.
Qed.

Lemma append_at_end vec al : list_append vec al = (vec ++ [NNull], check_allocation al (S (length vec)), length vec).
Proof. reflexivity. Qed.

(* ------------------------------------------------------------------ shape of parsed descriptors *)
Definition nonterminal (e : expr) : bool :=
  match e with E_MAP_ELEMENT _ | E_LIST_ELEMENT _ | E_LIST_INSERT _ | E_LIST_APPEND => true | _ => false end.

(* a parsed descriptor is never empty and E_DOT / E_MAP / E_LIST occur only in the last place *)
Definition shape (es : list expr) : Prop :=
  exists init e, es = init ++ [e] /\ forallb nonterminal init = true.

Lemma forallb_rev {A} (f : A -> bool) l : forallb f (rev l) = forallb f l.
Proof.
  induction l as [|a l IH]; [reflexivity|]. simpl. rewrite forallb_app, IH. simpl.
  rewrite andb_true_r. apply andb_comm.
Qed.

Lemma shape_rev_cons e acc : forallb nonterminal acc = true -> shape (rev (e :: acc)).
Proof. intros H. exists (rev acc), e. split; [reflexivity|now rewrite forallb_rev]. Qed.

Lemma parse_loop_shape : forall fuel st t r acc es t' r',
    forallb nonterminal acc = true ->
    (st = P2 -> acc <> []) ->
    parse_loop fuel st t r acc = Some (es, t', r') -> shape es.
Proof.
  induction fuel as [|f IH]; intros st t r acc es t' r' Ha Hne H; [discriminate|].
  assert (AM : forall r0, abstract_map r0 acc = Some (es, t', r') -> shape es).
  { intros r0 Hm. unfold abstract_map in Hm. destruct (scan r0) as [t1 r1].
    destruct t1; try discriminate. destruct (scan r1). injection Hm as <- _ _. now apply shape_rev_cons. }
  assert (P2acc : forall k, forallb nonterminal (k :: acc) = true -> forall t1 r1,
               parse_loop f P2 t1 r1 (k :: acc) = Some (es, t', r') -> shape es).
  { intros k Hk t1 r1 Hp. eapply IH; [exact Hk| |exact Hp]. intros _. discriminate. }
  cbn [parse_loop] in H.
  destruct st.
  - destruct t; try discriminate.
    + destruct (scan r) as [t1 r1]. eapply IH; [exact Ha| |exact H]. discriminate.
    + destruct (scan r) as [t1 r1]. eapply IH; [exact Ha| |exact H]. discriminate.
    + now apply AM in H.
    + destruct (scan r) as [t1 r1]. eapply (P2acc (E_MAP_ELEMENT k)); [simpl; exact Ha|exact H].
  - destruct t; try (injection H as <- _ _; now apply shape_rev_cons).
    + destruct (scan r) as [t1 r1]. eapply IH; [exact Ha| |exact H]. discriminate.
    + now apply AM in H.
    + destruct (scan r) as [t1 r1]. eapply (P2acc (E_MAP_ELEMENT k)); [simpl; exact Ha|exact H].
  - assert (Hacc : shape (rev acc)).
    { specialize (Hne eq_refl). destruct acc as [|a acc']; [congruence|].
      simpl in Ha. apply andb_true_iff in Ha as [_ Ha]. now apply shape_rev_cons. }
    destruct t; try (injection H as <- _ _; exact Hacc).
    + destruct (scan r) as [t1 r1]. eapply IH; [exact Ha| |exact H]. discriminate.
    + destruct (scan r) as [t1 r1]. eapply IH; [exact Ha| |exact H]. discriminate.
    + now apply AM in H.
  - destruct t; try discriminate.
    + destruct (scan r) as [t1 r1]. destruct t1; try discriminate.
      destruct (scan r1) as [t2 r2]. eapply (P2acc E_LIST_APPEND); [simpl; exact Ha|exact H].
    + destruct (scan r) as [t1 r1]. injection H as <- _ _. now apply shape_rev_cons.
    + destruct (scan r) as [t1 r1]. destruct t1; try discriminate.
      * destruct (scan r1) as [t2 r2]. destruct t2; try discriminate.
        destruct (scan r2) as [t3 r3]. eapply (P2acc (E_LIST_INSERT i)); [simpl; exact Ha|exact H].
      * destruct (scan r1) as [t2 r2]. eapply (P2acc (E_LIST_ELEMENT i)); [simpl; exact Ha|exact H].
Qed.

Theorem parse_shape d es t r : parse d = Some (es, t, r) -> shape es.
Proof.
  unfold parse. destruct (scan d) as [t0 r0]. intros H.
  refine (parse_loop_shape _ _ _ _ [] _ _ _ eq_refl _ H). discriminate.
Qed.

(* the empty descriptor and a lone key separator are refused *)
Lemma parse_empty : parse [] = None.
Proof. reflexivity. Qed.

(* ------------------------------------------------------------------ operation sequences with copy *)
Definition wf_state (s : state) : Prop := wf (st_root s) /\ wf (st_aux s).

(* every state met while running the script is well-formed (non-empty distinct keys, lists
   shorter than 2^31 - 1) *)
Fixpoint wf_run (s : state) (ops : list op) : Prop :=
  wf_state s /\ match ops with [] => True | o :: r => wf_run (fst (step s o)) r end.

Lemma lookup_in {A} k (kv : list (bytes * A)) c : lookup k kv = Some c -> exists k', In (k', c) kv.
Proof.
  induction kv as [|[k1 v1] r IH]; simpl; [discriminate|].
  destruct (bytes_eqb k k1).
  - intros H. injection H as <-. eauto.
  - intros H. destruct (IH H) as [k' Hin]. eauto.
Qed.

Lemma descend_get_wf : forall es n m, wf n -> descend_get es n = inr m -> wf m.
Proof.
  induction es as [|e es IH]; intros n m Hw H; [simpl in H; congruence|].
  destruct e; simpl in H; try (destruct n; congruence).
  - destruct n; try discriminate. destruct (lookup k kv) as [c|] eqn:L; [|discriminate].
    apply wf_map in Hw as [_ Hv]. destruct (lookup_in _ _ _ L) as [k' Hin].
    eapply IH; [|exact H]. unfold wf_vals in Hv. rewrite Forall_forall in Hv. apply (Hv _ Hin).
  - destruct n; try discriminate. destruct (i <? 0)%Z; [discriminate|].
    destruct (i <? Z.of_nat (length vec))%Z; [|discriminate].
    destruct (nth_error vec (Z.to_nat i)) as [c|] eqn:L; [|discriminate].
    apply wf_list in Hw as [_ Hv]. eapply IH; [|exact H].
    unfold wf_items in Hv. rewrite Forall_forall in Hv. apply Hv. eapply nth_error_In; eauto.
Qed.

Lemma get_node_wf root d n : wf root -> get_node root d = inr n -> wf n.
Proof.
  unfold get_node. intros Hw. destruct (parse d) as [[[es t] r]|]; [|discriminate].
  destruct (descend_get es root) as [e|m] eqn:G; [discriminate|].
  destruct (is_eof t); [|discriminate]. intros H. injection H as <-. eapply descend_get_wf; eauto.
Qed.

(* ------------------------------------------------------------------ the walk of descend_set does not depend on
   the function applied at the anchor: same error / success, whatever is stored there *)
Lemma descend_set_result_indep {A B} : forall es (fin : node -> node * A) (fin' : node -> node * B) n,
    map_inr (fun _ => tt) (snd (descend_set es fin n)) = map_inr (fun _ => tt) (snd (descend_set es fin' n)).
Proof.
  induction es as [|e es IH]; intros fin fin' n.
  - simpl. destruct (fin n), (fin' n); reflexivity.
  - destruct e; simpl.
    + destruct (fin _), (fin' _); reflexivity.
    + destruct (lookup k (map_entries n)) as [c|].
      * specialize (IH fin fin' c). destruct (descend_set es fin c), (descend_set es fin' c); exact IH.
      * specialize (IH fin fin' NNull). destruct (descend_set es fin NNull), (descend_set es fin' NNull); exact IH.
    + destruct (list_parts n) as [vec al]. destruct (fin _), (fin' _); reflexivity.
    + destruct (list_parts n) as [vec al]. destruct (list_extend vec al i) as [[[v1 a1] j]|]; [|reflexivity].
      specialize (IH fin fin' (nth j v1 NNull)).
      destruct (descend_set es fin _), (descend_set es fin' _); exact IH.
    + destruct (list_parts n) as [vec al]. destruct (list_insert vec al i) as [[[v1 a1] j]|]; [|reflexivity].
      specialize (IH fin fin' (nth j v1 NNull)).
      destruct (descend_set es fin _), (descend_set es fin' _); exact IH.
    + destruct (list_parts n) as [vec al]. simpl.
      specialize (IH fin fin' (nth (length vec) (vec ++ [NNull]) NNull)).
      destruct (descend_set es fin _), (descend_set es fin' _); exact IH.
    + destruct (fin n), (fin' n); reflexivity.
Qed.

(* along a path of keys and in-range subscripts: the walk succeeds, there is one node [a] at which the
   function is applied (the same for every function), and looking the path up afterwards finds what the
   function stored *)
Lemma descend_set_anchor {A} : forall es (fin : node -> node * A) n,
    Forall plain_step es ->
    exists a, snd (descend_set es (fun x => (x, x)) n) = inr a /\
              descend_get es (fst (descend_set es fin n)) = inr (fst (fin a)) /\
              snd (descend_set es fin n) = inr (snd (fin a)).
Proof.
  induction es as [|e es IH]; intros fin n H.
  - exists n. simpl. destruct (fin n); repeat split; reflexivity.
  - inversion H as [|? ? He Hes]; subst. destruct e; simpl in He; try contradiction.
    + simpl. destruct (lookup k (map_entries n)) as [c|] eqn:L.
      * destruct (IH fin c Hes) as [a [I0 [I1 I2]]]. exists a.
        destruct (descend_set es (fun x => (x, x)) c) as [c0 r0]. destruct (descend_set es fin c) as [c' r]. simpl in *.
        rewrite (lookup_update_same _ _ _ _ L). repeat split; assumption.
      * destruct (IH fin NNull Hes) as [a [I0 [I1 I2]]]. exists a.
        destruct (descend_set es (fun x => (x, x)) NNull) as [c0 r0]. destruct (descend_set es fin NNull) as [c' r]. simpl in *.
        rewrite (lookup_app_new _ _ _ L). repeat split; assumption.
    + simpl. destruct (list_parts n) as [vec al]. unfold list_extend.
      replace (i <? 0)%Z with false by (symmetry; apply Z.ltb_ge; lia).
      destruct (i <? Z.of_nat (length vec))%Z eqn:E.
      * destruct (IH fin (nth (Z.to_nat i) vec NNull) Hes) as [a [I0 [I1 I2]]]. exists a.
        destruct (descend_set es (fun x => (x, x)) _) as [c0 r0]. destruct (descend_set es fin _) as [c' r]. simpl in *.
        replace (i <? 0)%Z with false by (symmetry; apply Z.ltb_ge; lia).
        rewrite length_set_nth, E. apply Z.ltb_lt in E.
        rewrite nth_error_set_nth by lia. repeat split; assumption.
      * replace (i =? INT_MAX)%Z with false by (symmetry; apply Z.eqb_neq; lia).
        apply Z.ltb_ge in E.
        remember (vec ++ repeat NNull (S (Z.to_nat i) - length vec)) as vec1 eqn:Ev.
        assert (Hlen : length vec1 = S (Z.to_nat i)).
        { subst vec1. rewrite app_length, repeat_length. lia. }
        destruct (IH fin (nth (Z.to_nat i) vec1 NNull) Hes) as [a [I0 [I1 I2]]]. exists a.
        destruct (descend_set es (fun x => (x, x)) _) as [c0 r0]. destruct (descend_set es fin _) as [c' r].
        cbn [fst snd] in *. cbn [descend_get].
        replace (i <? 0)%Z with false by (symmetry; apply Z.ltb_ge; lia).
        rewrite length_set_nth, Hlen.
        replace (i <? Z.of_nat (S (Z.to_nat i)))%Z with true by (symmetry; apply Z.ltb_lt; lia).
        rewrite nth_error_set_nth by lia. repeat split; assumption.
Qed.

(* a look-up along a plain path composes *)
Lemma descend_get_app : forall p q n,
    Forall plain_step p ->
    descend_get (p ++ q) n = match descend_get p n with inr m => descend_get q m | inl e => inl e end.
Proof.
  induction p as [|e p IH]; intros q n H; [reflexivity|].
  inversion H as [|? ? He Hp]; subst. destruct e; simpl in He; try contradiction; simpl.
  - destruct n; try reflexivity. destruct (lookup k kv); [now apply IH|reflexivity].
  - destruct n; try reflexivity. destruct (i <? 0)%Z; [reflexivity|].
    destruct (i <? Z.of_nat (length vec))%Z; [|reflexivity].
    destruct (nth_error vec (Z.to_nat i)); [now apply IH|reflexivity].
Qed.
