(* PropProofs: the byte-level model refines the abstract document (DocSpec): per-operation
   simulation lemmas and the induction over operation sequences. *)
Require Import List NArith ZArith Bool Lia.
Import ListNotations.
Require Import LV.PropTree.PropModel LV.PropTree.DocSpec.

(* abstraction: forget the allocation *)
Fixpoint abs (n : node) : doc :=
  match n with
  | NNull => DNull
  | NScalar v => DScalar v
  | NMap kv => DMap (map (fun p => let '(k, v) := p in (k, abs v)) kv)
  | NList vec _ => DList (map abs vec)
  end.

Definition abs_pay (p : payload) : dpayload :=
  match p with
  | PNone => DPNone | PStr s => DPStr s | PKeys ks => DPKeys ks | PNode n => DPNode (abs n)
  end.
Definition abs_out (o : outcome) : doutcome := mkDOut (o_ret o) (o_err o) (abs_pay (o_pay o)).
Definition abs_state (s : state) : dstate := mkDState (abs (st_root s)) (abs (st_aux s)).

(* ------------------------------------------------------------------ association lists *)
Section Assoc.
  Context {A B : Type} (f : A -> B) (g : bytes * A -> bytes * B).
  Hypothesis Hg : forall k v, g (k, v) = (k, f v).

  Lemma lookup_map k kv : lookup k (map g kv) = option_map f (lookup k kv).
  Proof.
    induction kv as [|[k' v] r IH]; simpl; [reflexivity|].
    rewrite Hg. destruct (bytes_eqb k k'); [reflexivity|exact IH].
  Qed.
  Lemma update_map k v kv : update k (f v) (map g kv) = map g (update k v kv).
  Proof.
    induction kv as [|[k' v'] r IH]; simpl; [reflexivity|].
    rewrite Hg. destruct (bytes_eqb k k'); simpl; rewrite ?Hg; [reflexivity|now rewrite IH].
  Qed.
  Lemma remove_map k kv : remove_key k (map g kv) = map g (remove_key k kv).
  Proof.
    induction kv as [|[k' v'] r IH]; simpl; [reflexivity|].
    rewrite Hg. destruct (bytes_eqb k k'); simpl; rewrite ?Hg; [reflexivity|now rewrite IH].
  Qed.
  Lemma keys_map kv : map fst (map g kv) = map fst kv.
  Proof. induction kv as [|[k v] r IH]; simpl; [reflexivity|]. now rewrite Hg, IH. Qed.
End Assoc.

Definition absp (p : bytes * node) : bytes * doc := let '(k, v) := p in (k, abs v).
Lemma absp_ok : forall k v, absp (k, v) = (k, abs v).
Proof. reflexivity. Qed.

(* ------------------------------------------------------------------ positional lists *)
Section Pos.
  Context {A B : Type} (f : A -> B).
  Lemma set_nth_map j x l : set_nth j (f x) (map f l) = map f (set_nth j x l).
  Proof. revert j; induction l as [|y r IH]; intros [|j]; simpl; try reflexivity. now rewrite IH. Qed.
  Lemma remove_nth_map j l : remove_nth j (map f l) = map f (remove_nth j l).
  Proof. revert j; induction l as [|y r IH]; intros [|j]; simpl; try reflexivity. now rewrite IH. Qed.
  Lemma firstn_map' j l : firstn j (map f l) = map f (firstn j l).
  Proof. revert j; induction l as [|y r IH]; intros [|j]; simpl; try reflexivity. now rewrite IH. Qed.
  Lemma skipn_map' j l : skipn j (map f l) = map f (skipn j l).
  Proof. revert j; induction l as [|y r IH]; intros [|j]; simpl; try reflexivity. now rewrite IH. Qed.
  Lemma insert_nth_map j x l : insert_nth j (f x) (map f l) = map f (insert_nth j x l).
  Proof. unfold insert_nth. now rewrite map_app, firstn_map', skipn_map'. Qed.
  Lemma repeat_map x n : map f (repeat x n) = repeat (f x) n.
  Proof. induction n; simpl; [reflexivity|now rewrite IHn]. Qed.
  Lemma nth_error_map j l : nth_error (map f l) j = option_map f (nth_error l j).
  Proof. revert j; induction l as [|y r IH]; intros [|j]; simpl; try reflexivity. apply IH. Qed.
End Pos.

Lemma nth_abs j l : nth j (map abs l) DNull = abs (nth j l NNull).
Proof. change DNull with (abs NNull). apply map_nth. Qed.

Lemma dmap_entries_abs n : dmap_entries (abs n) = map absp (map_entries n).
Proof. destruct n; reflexivity. Qed.
Lemma abs_as_map n : DMap (dmap_entries (abs n)) = abs (NMap (map_entries n)).
Proof. destruct n; reflexivity. Qed.
Lemma dlist_items_abs n : dlist_items (abs n) = map abs (fst (list_parts n)).
Proof. destruct n; reflexivity. Qed.

Definition drop_alloc (r : option (list node * nat * nat)) : option (list doc * nat) :=
  match r with Some (v, _, j) => Some (map abs v, j) | None => None end.

Lemma d_index_abs vec al i : d_index (map abs vec) i = drop_alloc (list_extend vec al i).
Proof.
  unfold d_index, list_extend. rewrite map_length.
  destruct (i <? 0)%Z; [reflexivity|].
  destruct (i <? Z.of_nat (length vec))%Z; [reflexivity|].
  destruct (i =? INT_MAX)%Z; [reflexivity|].
  simpl. unfold pad_to. now rewrite map_app, map_length, repeat_map.
Qed.
Lemma d_insert_abs vec al i : d_insert (map abs vec) i = drop_alloc (list_insert vec al i).
Proof.
  unfold d_insert, list_insert. rewrite map_length.
  destruct (i <? 0)%Z eqn:Hneg; [reflexivity|].
  destruct (i <? Z.of_nat (length vec))%Z.
  - simpl. change DNull with (abs NNull). now rewrite insert_nth_map.
  - apply d_index_abs.
Qed.

(* ------------------------------------------------------------------ simulation: descend *)
Definition map_inr {E A B} (h : A -> B) (r : E + A) : E + B :=
  match r with inl e => inl e | inr a => inr (h a) end.

Lemma sim_get : forall es n, doc_get es (abs n) = map_inr abs (descend_get es n).
Proof.
  induction es as [|e es IH]; intros n; [reflexivity|].
  destruct e; simpl; try (destruct n; reflexivity).
  - destruct n; try reflexivity. simpl.
    rewrite (lookup_map abs) by (intros; reflexivity).
    destruct (lookup k kv); simpl; [apply IH|reflexivity].
  - destruct n; try reflexivity. simpl.
    destruct (i <? 0)%Z; [reflexivity|]. rewrite map_length.
    destruct (i <? Z.of_nat (length vec))%Z; [|reflexivity].
    rewrite nth_error_map. destruct (nth_error vec (Z.to_nat i)); simpl; [apply IH|reflexivity].
Qed.

Lemma sim_set {A B} (h : A -> B) :
  forall es (fin : node -> node * A) (dfin : doc -> doc * B),
    (forall n, dfin (abs n) = (abs (fst (fin n)), h (snd (fin n)))) ->
    forall n, doc_set es dfin (abs n)
              = (abs (fst (descend_set es fin n)), map_inr h (snd (descend_set es fin n))).
Proof.
  induction es as [|e es IH]; intros fin dfin H n.
  - simpl. rewrite H. destruct (fin n); reflexivity.
  - destruct e; simpl.
    + rewrite abs_as_map, H. destruct (fin _); reflexivity.
    + rewrite dmap_entries_abs. rewrite (lookup_map abs) by (intros; reflexivity).
      destruct (lookup k (map_entries n)) as [child|]; simpl.
      * rewrite (IH fin dfin H child). destruct (descend_set es fin child) as [c' r]; simpl.
        now rewrite (update_map abs absp absp_ok).
      * change DNull with (abs NNull). rewrite (IH fin dfin H NNull).
        destruct (descend_set es fin NNull) as [c' r]; simpl. now rewrite map_app.
    + rewrite dlist_items_abs. destruct (list_parts n) as [vec al]; simpl.
      change (DList (map abs vec)) with (abs (NList vec al)). rewrite H.
      destruct (fin _); reflexivity.
    + rewrite dlist_items_abs. destruct (list_parts n) as [vec al]; simpl.
      rewrite (d_index_abs vec al). destruct (list_extend vec al i) as [[[v1 a1] j]|]; simpl; [|reflexivity].
      rewrite nth_abs, (IH fin dfin H). destruct (descend_set es fin _) as [c' r]; simpl.
      now rewrite set_nth_map.
    + rewrite dlist_items_abs. destruct (list_parts n) as [vec al]; simpl.
      rewrite (d_insert_abs vec al). destruct (list_insert vec al i) as [[[v1 a1] j]|]; simpl; [|reflexivity].
      rewrite nth_abs, (IH fin dfin H). destruct (descend_set es fin _) as [c' r]; simpl.
      now rewrite set_nth_map.
    + rewrite dlist_items_abs. destruct (list_parts n) as [vec al]; simpl.
      unfold d_append. rewrite map_length.
      change (map abs vec ++ [DNull]) with (map abs vec ++ map abs [NNull]). rewrite <- map_app.
      rewrite nth_abs, (IH fin dfin H). destruct (descend_set es fin _) as [c' r]; simpl.
      now rewrite set_nth_map.
    + rewrite H. destruct (fin n); reflexivity.
Qed.

Lemma doc_delete_key_cons k e es d :
  doc_delete (E_MAP_ELEMENT k :: e :: es) d =
  match lookup k (dmap_entries d) with
  | Some c => DMap (update k (doc_delete (e :: es) c) (dmap_entries d))
  | None => d
  end.
Proof. reflexivity. Qed.
Lemma delete_at_key_cons k e es n :
  delete_at (E_MAP_ELEMENT k :: e :: es) n =
  match lookup k (map_entries n) with
  | Some c => NMap (update k (delete_at (e :: es) c) (map_entries n))
  | None => n
  end.
Proof. reflexivity. Qed.
Lemma doc_delete_idx_cons i e es d :
  doc_delete (E_LIST_ELEMENT i :: e :: es) d =
  DList (set_nth (Z.to_nat i) (doc_delete (e :: es) (nth (Z.to_nat i) (dlist_items d) DNull)) (dlist_items d)).
Proof. reflexivity. Qed.
Lemma delete_at_idx_cons i e es n :
  delete_at (E_LIST_ELEMENT i :: e :: es) n =
  NList (set_nth (Z.to_nat i) (delete_at (e :: es) (nth (Z.to_nat i) (fst (list_parts n)) NNull)) (fst (list_parts n)))
        (snd (list_parts n)).
Proof. simpl. destruct (list_parts n); reflexivity. Qed.

Lemma sim_delete : forall es n, doc_delete es (abs n) = abs (delete_at es n).
Proof.
  induction es as [|e es IH]; intros n; [reflexivity|].
  destruct e; try reflexivity.
  - destruct es as [|e' es'].
    + simpl. rewrite dmap_entries_abs. now rewrite (remove_map abs absp absp_ok).
    + rewrite doc_delete_key_cons, delete_at_key_cons, dmap_entries_abs.
      rewrite (lookup_map abs absp absp_ok).
      destruct (lookup k (map_entries n)) as [c|]; cbn [option_map]; [|reflexivity].
      rewrite IH. rewrite (update_map abs absp absp_ok). reflexivity.
  - destruct es as [|e' es'].
    + simpl. rewrite dlist_items_abs. destruct (list_parts n); simpl. now rewrite remove_nth_map.
    + rewrite doc_delete_idx_cons, delete_at_idx_cons, dlist_items_abs.
      rewrite nth_abs, IH. simpl. now rewrite set_nth_map.
Qed.

(* ------------------------------------------------------------------ simulation: entry points *)
Lemma sim_get_node root d : d_get_node (abs root) d = map_inr abs (get_node root d).
Proof.
  unfold d_get_node, get_node. destruct (parse d) as [[[es t] r]|]; [|reflexivity].
  rewrite sim_get. destruct (descend_get es root); simpl; [reflexivity|].
  destruct (is_eof t); reflexivity.
Qed.

Lemma sim_vtype root d : d_type (abs root) d = abs_out (vtype root d).
Proof. unfold d_type, vtype. rewrite sim_get_node. destruct (get_node root d) as [e|[]]; reflexivity. Qed.
Lemma sim_vcount root d : d_count (abs root) d = abs_out (vcount root d).
Proof.
  unfold d_count, vcount. rewrite sim_get_node.
  destruct (get_node root d) as [e|[]]; simpl; try reflexivity; now rewrite map_length.
Qed.
Lemma sim_vkeys root d : d_keys (abs root) d = abs_out (vkeys root d).
Proof.
  unfold d_keys, vkeys. rewrite sim_get_node.
  destruct (get_node root d) as [e|[]]; simpl; try reflexivity.
  now rewrite (keys_map abs absp absp_ok).
Qed.
Lemma sim_vget root d : d_get (abs root) d = abs_out (vget root d).
Proof. unfold d_get, vget. rewrite sim_get_node. destruct (get_node root d) as [e|[]]; reflexivity. Qed.
Lemma sim_vget_subtree root d : d_get_subtree (abs root) d = abs_out (vget_subtree root d).
Proof.
  unfold d_get_subtree, vget_subtree. rewrite sim_get_node.
  destruct (get_node root d) as [e|[]]; reflexivity.
Qed.

Ltac use_sim_set :=
  match goal with
  | |- context [descend_set ?es ?f ?root] =>
    rewrite (sim_set (fun u : unit => u) es f) by (intro; reflexivity)
  end.

Lemma sim_vset root d : d_set (abs root) d = (abs (fst (vset root d)), abs_out (snd (vset root d))).
Proof.
  unfold d_set, vset. destruct (parse d) as [[[es t] rest]|]; [|reflexivity].
  destruct (last_is_collection es); [reflexivity|].
  destruct t; try reflexivity; use_sim_set; destruct (descend_set es _ root) as [r' [e|u]]; reflexivity.
Qed.

Lemma sim_vdelete root d :
  d_delete (abs root) d = (abs (fst (vdelete root d)), abs_out (snd (vdelete root d))).
Proof.
  unfold d_delete, vdelete. destruct (parse d) as [[[es t] rest]|]; [|reflexivity].
  rewrite sim_get. destruct (descend_get es root); simpl; [reflexivity|].
  destruct (is_eof t); simpl; [|reflexivity]. now rewrite sim_delete.
Qed.

Lemma sim_vset_subtree_then {A B} (h : A -> B) root d (inner : node -> node * A) (dinner : doc -> doc * B) :
  (forall n, dinner (abs n) = (abs (fst (inner n)), h (snd (inner n)))) ->
  d_set_subtree_then (abs root) d dinner
  = (abs (fst (vset_subtree_then root d inner)), map_inr h (snd (vset_subtree_then root d inner))).
Proof.
  intros H. unfold d_set_subtree_then, vset_subtree_then.
  destruct (parse d) as [[[es t] rest]|]; [|reflexivity].
  destruct (is_eof t); [|reflexivity].
  apply sim_set; exact H.
Qed.

Lemma sim_vset_subtree root d :
  d_set_subtree (abs root) d = (abs (fst (vset_subtree root d)), abs_out (snd (vset_subtree root d))).
Proof.
  unfold d_set_subtree, vset_subtree.
  rewrite (sim_vset_subtree_then (fun u : unit => u) root d (fun n => (n, tt))) by (intro; reflexivity).
  destruct (vset_subtree_then root d _) as [r' [e|u]]; reflexivity.
Qed.

(* ------------------------------------------------------------------ operation sequences.
   [copy_sim]: the only place where the byte-level copy (rebuilding the tree through quoted
   descriptors) has to agree with the abstract "deep copy"; it is discharged in QuoteProofs for
   well-formed trees. *)
Definition is_copy (o : op) : bool := match o with OCopyOut _ | OCopyIn _ | OCopyWithin _ _ => true | _ => false end.

Lemma sim_step_nocopy s o :
  is_copy o = false ->
  d_step (abs_state s) o = (abs_state (fst (step s o)), abs_out (snd (step s o))).
Proof.
  intros Hc. destruct s as [root aux]. destruct o; try discriminate Hc; unfold d_step, step, abs_state; simpl.
  - rewrite sim_vset. destruct (vset root d); reflexivity.
  - rewrite sim_vdelete. destruct (vdelete root d); reflexivity.
  - now rewrite sim_vget.
  - now rewrite sim_vtype.
  - now rewrite sim_vcount.
  - now rewrite sim_vkeys.
  - now rewrite sim_vget_subtree.
  - rewrite sim_vset_subtree. destruct (vset_subtree root d); reflexivity.
  - rewrite (sim_vset_subtree_then abs_out root d (fun a => vset a d2)) by (intro; apply sim_vset).
    destruct (vset_subtree_then root d _) as [r' [e|u]]; reflexivity.
  - rewrite (sim_vset_subtree_then abs_out root d (fun a => vdelete a d2)) by (intro; apply sim_vdelete).
    destruct (vset_subtree_then root d _) as [r' [e|u]]; reflexivity.
  - reflexivity.
Qed.

Lemma sim_run_nocopy : forall ops s,
    forallb (fun o => negb (is_copy o)) ops = true ->
    d_run (abs_state s) ops = (abs_state (fst (run s ops)), map abs_out (snd (run s ops))).
Proof.
  induction ops as [|o ops IH]; intros s H; [reflexivity|].
  simpl in H. apply andb_true_iff in H as [Ho Hr]. apply negb_true_iff in Ho.
  simpl. rewrite (sim_step_nocopy s o Ho). destruct (step s o) as [s1 out]; simpl.
  rewrite (IH s1 Hr). destruct (run s1 ops); reflexivity.
Qed.
