(* Frame law of vnaproperty_set / vnaproperty_set_subtree (parse_and_descend, set = true):
   a set along one path changes nothing that can be read along a path that branches off it.
   "Branches off" = the two expression lists share a prefix of key / subscript steps and then
   take two different keys of the same map or two different subscripts of the same list.  The
   premise that the read path exists before the set is needed: a set may extend a list with
   nulls (so a subscript that was ENOENT reads null afterwards) - see [frame_needs_existing]. *)
Require Import List NArith ZArith Bool Lia.
Import ListNotations.
Require Import LV.PropTree.PropModel LV.PropTree.QuoteProofs LV.PropTree.RebuildProofs LV.PropTree.ApiProofs.

Inductive diverge : list expr -> list expr -> Prop :=
| div_key k k' es es' :
    bytes_eqb k' k = false -> diverge (E_MAP_ELEMENT k :: es) (E_MAP_ELEMENT k' :: es')
| div_idx i i' es es' :
    i <> i' -> diverge (E_LIST_ELEMENT i :: es) (E_LIST_ELEMENT i' :: es')
| div_cons e es es' :
    plain_step e -> diverge es es' -> diverge (e :: es) (e :: es').

Lemma lookup_app_old {A} k k0 (v c : A) kv : lookup k kv = Some c -> lookup k (kv ++ [(k0, v)]) = Some c.
Proof.
  induction kv as [|[k1 v1] r IH]; simpl; [discriminate|].
  destruct (bytes_eqb k k1); [auto|exact IH].
Qed.

Lemma nth_error_app_old {A} (l l2 : list A) j c : nth_error l j = Some c -> nth_error (l ++ l2) j = Some c.
Proof.
  intros H. rewrite nth_error_app1; [exact H|]. apply nth_error_Some. congruence.
Qed.

Lemma nth_nth_error {A} (l : list A) j d c : nth_error l j = Some c -> nth j l d = c.
Proof. revert j; induction l as [|y r IH]; intros [|j]; simpl; try discriminate; [congruence|apply IH]. Qed.

Lemma set_frame {A} : forall es1 es2, diverge es1 es2 ->
  forall (fin : node -> node * A) n v,
    descend_get es2 n = inr v ->
    descend_get es2 (fst (descend_set es1 fin n)) = inr v.
Proof.
  induction 1 as [k k' es es' Hk | i i' es es' Hi | e es es' He Hd IH]; intros fin n v Hg.
  - (* two keys of one map *)
    cbn [descend_get] in Hg. destruct n as [| | kv | ]; try discriminate.
    destruct (lookup k' kv) as [c|] eqn:L; [|discriminate].
    cbn [descend_set map_entries].
    destruct (lookup k kv) as [c0|] eqn:L0.
    + destruct (descend_set es fin c0) as [c' r]. cbn [fst descend_get].
      rewrite (lookup_update_other _ _ _ _ Hk), L. exact Hg.
    + destruct (descend_set es fin NNull) as [c' r]. cbn [fst descend_get].
      rewrite (lookup_app_old _ _ _ _ _ L). exact Hg.
  - (* two subscripts of one list *)
    cbn [descend_get] in Hg. destruct n as [| | | vec al]; try discriminate.
    destruct (i' <? 0)%Z eqn:E0; [discriminate|].
    destruct (i' <? Z.of_nat (length vec))%Z eqn:E1; [|discriminate].
    destruct (nth_error vec (Z.to_nat i')) as [c|] eqn:N; [|discriminate].
    apply Z.ltb_ge in E0. apply Z.ltb_lt in E1.
    cbn [descend_set list_parts]. unfold list_extend.
    destruct (i <? 0)%Z eqn:F0.
    { cbn [fst descend_get]. apply Z.ltb_ge in E0.
      replace (i' <? 0)%Z with false by (symmetry; apply Z.ltb_ge; lia).
      replace (i' <? Z.of_nat (length vec))%Z with true by (symmetry; apply Z.ltb_lt; lia).
      rewrite N. exact Hg. }
    apply Z.ltb_ge in F0.
    assert (Hne : Z.to_nat i <> Z.to_nat i') by lia.
    destruct (i <? Z.of_nat (length vec))%Z eqn:F1.
    + destruct (descend_set es fin _) as [c' r]. cbn [fst descend_get].
      replace (i' <? 0)%Z with false by (symmetry; apply Z.ltb_ge; lia).
      rewrite length_set_nth.
      replace (i' <? Z.of_nat (length vec))%Z with true by (symmetry; apply Z.ltb_lt; lia).
      rewrite (nth_error_set_nth_other _ _ _ _ Hne), N. exact Hg.
    + destruct (i =? INT_MAX)%Z.
      { cbn [fst descend_get].
        replace (i' <? 0)%Z with false by (symmetry; apply Z.ltb_ge; lia).
        replace (i' <? Z.of_nat (length vec))%Z with true by (symmetry; apply Z.ltb_lt; lia).
        rewrite N. exact Hg. }
      apply Z.ltb_ge in F1.
      remember (vec ++ repeat NNull (S (Z.to_nat i) - length vec)) as vec1 eqn:Ev.
      assert (Hlen : (length vec <= length vec1)%nat) by (subst vec1; rewrite app_length; lia).
      assert (N1 : nth_error vec1 (Z.to_nat i') = Some c) by (subst vec1; now apply nth_error_app_old).
      destruct (descend_set es fin _) as [c' r]. cbn [fst descend_get].
      replace (i' <? 0)%Z with false by (symmetry; apply Z.ltb_ge; lia).
      rewrite length_set_nth.
      replace (i' <? Z.of_nat (length vec1))%Z with true by (symmetry; apply Z.ltb_lt; lia).
      rewrite (nth_error_set_nth_other _ _ _ _ Hne), N1. exact Hg.
  - (* common step *)
    destruct e; simpl in He; try contradiction.
    + cbn [descend_get] in Hg. destruct n as [| | kv | ]; try discriminate.
      destruct (lookup k kv) as [c|] eqn:L; [|discriminate].
      cbn [descend_set map_entries]. rewrite L.
      specialize (IH fin c v Hg).
      destruct (descend_set es fin c) as [c' r]. cbn [fst descend_get] in *.
      rewrite (lookup_update_same _ _ _ _ L). exact IH.
    + cbn [descend_get] in Hg. destruct n as [| | | vec al]; try discriminate.
      destruct (i <? 0)%Z eqn:E0; [discriminate|].
      destruct (i <? Z.of_nat (length vec))%Z eqn:E1; [|discriminate].
      destruct (nth_error vec (Z.to_nat i)) as [c|] eqn:N; [|discriminate].
      cbn [descend_set list_parts]. unfold list_extend. rewrite E0, E1.
      rewrite (nth_nth_error _ _ NNull _ N).
      specialize (IH fin c v Hg).
      destruct (descend_set es fin c) as [c' r]. cbn [fst descend_get] in *.
      rewrite E0, length_set_nth, E1. apply Z.ltb_lt in E1. apply Z.ltb_ge in E0.
      rewrite nth_error_set_nth by lia. exact IH.
Qed.

(* the premise "the read path exists" cannot be dropped: a set at [2] of a one-element list makes
   [1] readable (null) where it was ENOENT before *)
Lemma frame_needs_existing :
  let n := NList [NScalar [97%N]] 8 in
  diverge [E_LIST_ELEMENT 2] [E_LIST_ELEMENT 1] /\
  descend_get [E_LIST_ELEMENT 1] n = inl ENOENT /\
  descend_get [E_LIST_ELEMENT 1] (fst (descend_set [E_LIST_ELEMENT 2] (fun _ => (NScalar [98%N], tt)) n)) = inr NNull.
Proof. split; [constructor; discriminate|split; reflexivity]. Qed.

(* non-vacuity: a nested tree, a set three levels down, a read of a sibling *)
Lemma set_frame_example :
  let n := NMap [([97%N], NList [NScalar [120%N]; NMap [([98%N], NScalar [121%N])]] 8)] in
  let es1 := [E_MAP_ELEMENT [97%N]; E_LIST_ELEMENT 1; E_MAP_ELEMENT [99%N]] in
  let es2 := [E_MAP_ELEMENT [97%N]; E_LIST_ELEMENT 1; E_MAP_ELEMENT [98%N]] in
  diverge es1 es2 /\ descend_get es2 n = inr (NScalar [121%N]) /\
  descend_get es2 (fst (descend_set es1 (fun _ => (NScalar [122%N], tt)) n)) = inr (NScalar [121%N]) /\
  descend_get es1 (fst (descend_set es1 (fun _ => (NScalar [122%N], tt)) n)) = inr (NScalar [122%N]).
Proof.
  split; [|repeat split; reflexivity].
  apply div_cons; [exact I|]. apply div_cons; [unfold plain_step, INT_MAX; lia|]. apply div_key. reflexivity.
Qed.

(* ------------------------------------------------------------------ frame law of vnaproperty_delete
   [delete_at] is applied by vdelete once the path has been found.  Deleting the LAST subscript of a
   path removes the element and moves the higher ones down, so only lower subscripts keep their
   position there (the shift itself is [delete_shifts]); everywhere else a different subscript is
   enough. *)
Inductive diverge_del : list expr -> list expr -> Prop :=
| dd_key k k' es es' :
    bytes_eqb k' k = false -> diverge_del (E_MAP_ELEMENT k :: es) (E_MAP_ELEMENT k' :: es')
| dd_idx_last i i' es' :
    (i' < i)%Z -> diverge_del [E_LIST_ELEMENT i] (E_LIST_ELEMENT i' :: es')
| dd_idx i i' e es es' :
    (0 <= i)%Z -> i <> i' -> diverge_del (E_LIST_ELEMENT i :: e :: es) (E_LIST_ELEMENT i' :: es')
| dd_cons e e1 es es' :
    plain_step e -> diverge_del (e1 :: es) es' -> diverge_del (e :: e1 :: es) (e :: es').

Lemma lookup_remove_other {A} k k' (kv : list (bytes * A)) :
  bytes_eqb k' k = false -> lookup k' (remove_key k kv) = lookup k' kv.
Proof.
  intros H. induction kv as [|[k1 v1] r IH]; simpl; [reflexivity|].
  destruct (bytes_eqb k k1) eqn:E; simpl.
  - apply bytes_eqb_eq in E. subst k1. now rewrite H.
  - destruct (bytes_eqb k' k1); [reflexivity|exact IH].
Qed.

Lemma get_list_element_inv i' es' n v :
  descend_get (E_LIST_ELEMENT i' :: es') n = inr v ->
  exists vec al c, n = NList vec al /\ (0 <= i')%Z /\ nth_error vec (Z.to_nat i') = Some c /\ descend_get es' c = inr v.
Proof.
  cbn [descend_get]. destruct n as [| | | vec al]; try discriminate.
  destruct (i' <? 0)%Z eqn:E0; [discriminate|].
  destruct (i' <? Z.of_nat (length vec))%Z eqn:E1; [|discriminate].
  destruct (nth_error vec (Z.to_nat i')) as [c|] eqn:N; [|discriminate].
  intros H. exists vec, al, c. apply Z.ltb_ge in E0. auto.
Qed.

Lemma get_list_element_intro i' es' vec al c :
  (0 <= i')%Z -> nth_error vec (Z.to_nat i') = Some c ->
  descend_get (E_LIST_ELEMENT i' :: es') (NList vec al) = descend_get es' c.
Proof.
  intros H0 N. cbn [descend_get].
  replace (i' <? 0)%Z with false by (symmetry; apply Z.ltb_ge; lia).
  assert (Z.to_nat i' < length vec)%nat by (apply nth_error_Some; congruence).
  replace (i' <? Z.of_nat (length vec))%Z with true by (symmetry; apply Z.ltb_lt; lia).
  now rewrite N.
Qed.

Lemma delete_frame : forall es1 es2, diverge_del es1 es2 ->
  forall n v, descend_get es2 n = inr v -> descend_get es2 (delete_at es1 n) = inr v.
Proof.
  induction 1 as [k k' es es' Hk | i i' es' Hi | i i' e es es' H0 Hi | e e1 es es' He Hd IH]; intros n v Hg.
  - cbn [descend_get] in Hg. destruct n as [| | kv | ]; try discriminate.
    destruct (lookup k' kv) as [c|] eqn:L; [|discriminate].
    cbn [delete_at map_entries]. destruct es as [|e0 es0].
    + cbn [descend_get]. rewrite (lookup_remove_other _ _ _ Hk), L. exact Hg.
    + destruct (lookup k kv) as [c0|] eqn:L0.
      * cbn [descend_get]. rewrite (lookup_update_other _ _ _ _ Hk), L. exact Hg.
      * cbn [descend_get]. rewrite L. exact Hg.
  - destruct (get_list_element_inv _ _ _ _ Hg) as (vec & al & c & -> & Hp & N & Hc).
    cbn [delete_at list_parts].
    rewrite (get_list_element_intro i' es' _ al c Hp); [exact Hc|].
    rewrite nth_error_remove_nth.
    replace (Nat.ltb (Z.to_nat i') (Z.to_nat i)) with true by (symmetry; apply Nat.ltb_lt; lia).
    exact N.
  - destruct (get_list_element_inv _ _ _ _ Hg) as (vec & al & c & -> & Hp & N & Hc).
    cbn [delete_at list_parts].
    rewrite (get_list_element_intro i' es' _ al c Hp); [exact Hc|].
    rewrite nth_error_set_nth_other by lia. exact N.
  - destruct e; simpl in He; try contradiction.
    + cbn [descend_get] in Hg. destruct n as [| | kv | ]; try discriminate.
      destruct (lookup k kv) as [c|] eqn:L; [|discriminate].
      cbn [delete_at map_entries]. rewrite L. cbn [descend_get].
      rewrite (lookup_update_same _ _ _ _ L). apply IH. exact Hg.
    + destruct (get_list_element_inv _ _ _ _ Hg) as (vec & al & c & -> & Hp & N & Hc).
      cbn [delete_at list_parts].
      assert (Hlt : (Z.to_nat i < length vec)%nat) by (apply nth_error_Some; congruence).
      rewrite (get_list_element_intro i es' _ al (delete_at (e1 :: es) c) Hp).
      * apply IH. exact Hc.
      * rewrite (nth_nth_error _ _ NNull _ N). now apply nth_error_set_nth.
Qed.

(* non-vacuity, and the shift that makes the "lower subscript" side condition necessary *)
Lemma delete_frame_example :
  let n := NMap [([97%N], NList [NScalar [120%N]; NScalar [121%N]; NScalar [122%N]] 8); ([98%N], NScalar [119%N])] in
  let del := [E_MAP_ELEMENT [97%N]; E_LIST_ELEMENT 1] in
  diverge_del del [E_MAP_ELEMENT [97%N]; E_LIST_ELEMENT 0] /\
  diverge_del del [E_MAP_ELEMENT [98%N]] /\
  descend_get [E_MAP_ELEMENT [97%N]; E_LIST_ELEMENT 0] (delete_at del n) = inr (NScalar [120%N]) /\
  descend_get [E_MAP_ELEMENT [98%N]] (delete_at del n) = inr (NScalar [119%N]) /\
  (* the higher subscript moved down: [2] was "z", now [1] is "z" and [2] is gone *)
  descend_get [E_MAP_ELEMENT [97%N]; E_LIST_ELEMENT 1] (delete_at del n) = inr (NScalar [122%N]) /\
  descend_get [E_MAP_ELEMENT [97%N]; E_LIST_ELEMENT 2] (delete_at del n) = inl ENOENT.
Proof.
  split; [apply dd_cons; [exact I|]; apply dd_idx_last; lia|].
  split; [apply dd_key; reflexivity|]. repeat split; reflexivity.
Qed.

(* ------------------------------------------------------------------ byte level, through quote_key:
   "k=v" leaves whatever the descriptor of another key k' finds (scalar, null, map or list:
   vget, vget_subtree, vtype, vcount, vkeys all go through get_node) unchanged *)
Lemma bytes_eqb_neq a b : a <> b -> bytes_eqb a b = false.
Proof.
  intros H. destruct (bytes_eqb a b) eqn:E; [|reflexivity]. apply bytes_eqb_eq in E. contradiction.
Qed.

Theorem set_quoted_frame root k k' v x :
  k <> [] -> k' <> [] -> k' <> k ->
  get_node root (quote_key k') = inr x ->
  get_node (fst (vset root (quote_key k ++ 61%N :: v))) (quote_key k') = inr x.
Proof.
  intros Hk Hk' Hne Hg. unfold vset. rewrite (parse_quote_key_assign k v Hk). cbn [last_is_collection last].
  unfold get_node in *. rewrite (parse_quote_key k' Hk') in *.
  destruct (descend_get [E_MAP_ELEMENT k'] root) as [e|y] eqn:G; [discriminate|].
  pose proof (set_frame [E_MAP_ELEMENT k] [E_MAP_ELEMENT k'] (div_key k k' [] [] (bytes_eqb_neq _ _ Hne))
                        (fun _ => (NScalar v, tt)) root y G) as F.
  destruct (descend_set [E_MAP_ELEMENT k] _ root) as [r' res]. cbn [fst] in F.
  destruct res as [e|[]]; cbn [fst]; rewrite F; exact Hg.
Qed.

(* ------------------------------------------------------------------ delete shifts, at any depth:
   after the deletion of element i of a list anywhere in the tree, what was readable below a higher
   subscript i' of that list is readable, unchanged, below i' - 1 *)
Lemma delete_at_map_cons k e1 q kv c : lookup k kv = Some c ->
  delete_at (E_MAP_ELEMENT k :: e1 :: q) (NMap kv) = NMap (update k (delete_at (e1 :: q) c) kv).
Proof. intros L. change (delete_at (E_MAP_ELEMENT k :: e1 :: q) (NMap kv))
  with (match lookup k kv with Some c => NMap (update k (delete_at (e1 :: q) c) kv) | None => NMap kv end).
  now rewrite L. Qed.
Lemma delete_at_list_cons i e1 q vec al :
  delete_at (E_LIST_ELEMENT i :: e1 :: q) (NList vec al)
  = NList (set_nth (Z.to_nat i) (delete_at (e1 :: q) (nth (Z.to_nat i) vec NNull)) vec) al.
Proof. reflexivity. Qed.

Lemma delete_shift_path : forall p, Forall plain_step p -> forall i i' es' n v,
  (0 <= i < i')%Z ->
  descend_get (p ++ E_LIST_ELEMENT i' :: es') n = inr v ->
  descend_get (p ++ E_LIST_ELEMENT (i' - 1) :: es') (delete_at (p ++ [E_LIST_ELEMENT i]) n) = inr v.
Proof.
  induction p as [|e p IH]; intros Hp i i' es' n v Hi Hg.
  - cbn [app] in *.
    destruct (get_list_element_inv _ _ _ _ Hg) as (vec & al & c & -> & H0 & N & Hc).
    cbn [delete_at list_parts].
    rewrite (get_list_element_intro (i' - 1) es' _ al c); [exact Hc|lia|].
    rewrite nth_error_remove_nth.
    replace (Nat.ltb (Z.to_nat (i' - 1)) (Z.to_nat i)) with false by (symmetry; apply Nat.ltb_ge; lia).
    replace (S (Z.to_nat (i' - 1))) with (Z.to_nat i') by lia. exact N.
  - inversion Hp as [|? ? He Hp']; subst.
    rewrite <- !app_comm_cons in *.
    destruct (p ++ [E_LIST_ELEMENT i]) as [|e1 q] eqn:Eq; [destruct p; discriminate|].
    destruct e; simpl in He; try contradiction.
    + cbn [descend_get] in Hg. destruct n as [| | kv | ]; try discriminate.
      destruct (lookup k kv) as [c|] eqn:L; [|discriminate].
      rewrite (delete_at_map_cons _ _ _ _ _ L). cbn [descend_get].
      rewrite (lookup_update_same _ _ _ _ L). rewrite <- Eq. now apply IH.
    + destruct (get_list_element_inv _ _ _ _ Hg) as (vec & al & c & -> & H0 & N & Hc).
      rewrite delete_at_list_cons.
      assert (Hlt : (Z.to_nat i0 < length vec)%nat) by (apply nth_error_Some; congruence).
      rewrite (nth_nth_error _ _ NNull _ N).
      rewrite (get_list_element_intro i0 _ _ al (delete_at (e1 :: q) c) H0).
      * rewrite <- Eq. now apply IH.
      * now apply nth_error_set_nth.
Qed.

(* ------------------------------------------------------------------ insert shifts, at any depth:
   "path[i+]..." puts a new element at i of a list anywhere in the tree; what was readable below a
   subscript i' of that list is readable, unchanged, below i' (when i' < i) or i' + 1 (otherwise) *)
Lemma insert_shift_path {A} : forall p, Forall plain_step p -> forall i i' es' (fin : node -> node * A) n v,
  (0 <= i)%Z ->
  descend_get (p ++ E_LIST_ELEMENT i' :: es') n = inr v ->
  descend_get (p ++ E_LIST_ELEMENT (if (i' <? i)%Z then i' else i' + 1) :: es')
              (fst (descend_set (p ++ [E_LIST_INSERT i]) fin n)) = inr v.
Proof.
  induction p as [|e p IH]; intros Hp i i' es' fin n v Hi Hg.
  - cbn [app] in *.
    destruct (get_list_element_inv _ _ _ _ Hg) as (vec & al & c & -> & H0 & N & Hc).
    assert (Hlt : (Z.to_nat i' < length vec)%nat) by (apply nth_error_Some; congruence).
    cbn [descend_set list_parts]. unfold list_insert, list_extend.
    replace (i <? 0)%Z with false by (symmetry; apply Z.ltb_ge; lia).
    destruct (i <? Z.of_nat (length vec))%Z eqn:F1.
    + apply Z.ltb_lt in F1. destruct (fin _) as [c' a]. cbn [fst].
      rewrite (get_list_element_intro _ es' _ _ c); [exact Hc|destruct (i' <? i)%Z; lia|].
      destruct (i' <? i)%Z eqn:E; [apply Z.ltb_lt in E|apply Z.ltb_ge in E].
      * rewrite nth_error_set_nth_other by lia. rewrite nth_error_insert_nth by lia.
        replace (Nat.ltb (Z.to_nat i') (Z.to_nat i)) with true by (symmetry; apply Nat.ltb_lt; lia). exact N.
      * rewrite nth_error_set_nth_other by lia. rewrite nth_error_insert_nth by lia.
        replace (Nat.ltb (Z.to_nat (i' + 1)) (Z.to_nat i)) with false by (symmetry; apply Nat.ltb_ge; lia).
        replace (Nat.eqb (Z.to_nat (i' + 1)) (Z.to_nat i)) with false by (symmetry; apply Nat.eqb_neq; lia).
        replace (pred (Z.to_nat (i' + 1))) with (Z.to_nat i') by lia. exact N.
    + apply Z.ltb_ge in F1.
      replace (i' <? i)%Z with true by (symmetry; apply Z.ltb_lt; lia).
      destruct (i =? INT_MAX)%Z.
      * cbn [fst]. rewrite (get_list_element_intro _ es' _ _ c H0 N). exact Hc.
      * destruct (fin _) as [c' a]. cbn [fst].
        rewrite (get_list_element_intro _ es' _ _ c H0); [exact Hc|].
        rewrite nth_error_set_nth_other by lia. now apply nth_error_app_old.
  - inversion Hp as [|? ? He Hp']; subst.
    rewrite <- !app_comm_cons in *.
    destruct e; simpl in He; try contradiction.
    + cbn [descend_get] in Hg. destruct n as [| | kv | ]; try discriminate.
      destruct (lookup k kv) as [c|] eqn:L; [|discriminate].
      cbn [descend_set map_entries]. rewrite L.
      specialize (IH Hp' i i' es' fin c v Hi Hg).
      destruct (descend_set (p ++ [E_LIST_INSERT i]) fin c) as [c' r]. cbn [fst descend_get] in *.
      rewrite (lookup_update_same _ _ _ _ L). exact IH.
    + destruct (get_list_element_inv _ _ _ _ Hg) as (vec & al & c & -> & H0 & N & Hc).
      assert (Hlt : (Z.to_nat i0 < length vec)%nat) by (apply nth_error_Some; congruence).
      cbn [descend_set list_parts]. unfold list_extend.
      replace (i0 <? 0)%Z with false by (symmetry; apply Z.ltb_ge; lia).
      replace (i0 <? Z.of_nat (length vec))%Z with true by (symmetry; apply Z.ltb_lt; lia).
      rewrite (nth_nth_error _ _ NNull _ N).
      specialize (IH Hp' i i' es' fin c v Hi Hc).
      destruct (descend_set (p ++ [E_LIST_INSERT i]) fin c) as [c' r]. cbn [fst] in *.
      rewrite (get_list_element_intro i0 _ _ al c' H0); [exact IH|].
      now apply nth_error_set_nth.
Qed.
