(* YamlProofs: exporting a property tree to a YAML document tree and importing what libyaml's
   emitter + parser make of it gives the tree back.  libyaml is a Section hypothesis
   (never an axiom): [rt] is "emit, then parse" on document trees. *)
Require Import List NArith ZArith Bool Lia.
Import ListNotations.
Require Import LV.PropTree.PropModel LV.PropTree.DocSpec LV.PropTree.PropProofs LV.PropTree.QuoteProofs
        LV.PropTree.RebuildProofs LV.PropTree.YamlModel.

Section Yaml.
  (* what libyaml does to a document tree when it is emitted and parsed again *)
  Variable rt : ynode -> ynode.
  (* the scalar texts for which that is claimed (valid UTF-8 ...); checks/C14.py tests the
     hypotheses on the emitted documents of every run *)
  Variable text_ok : bytes -> Prop.

  (* a scalar keeps its kind and bytes; it is read back as *plain* only if it was emitted with the
     plain or the "any" style, and a scalar emitted with the plain style is read back plain *)
  Hypothesis rt_scalar : forall v st, text_ok v ->
      exists st', rt (YScalar v st) = YScalar v st'
                  /\ (st = YPlain -> st' = YPlain)
                  /\ (st' = YPlain -> st = YPlain \/ st = YAny).
  Hypothesis rt_mapping : forall kv, rt (YMapping kv) = YMapping (map (fun p => (rt (fst p), rt (snd p))) kv).
  Hypothesis rt_sequence : forall l, rt (YSequence l) = YSequence (map rt l).
  Hypothesis tilde_ok : text_ok [126%N].

  (* every scalar and every quoted key of the tree is such a text *)
  Fixpoint tree_ok (n : node) : Prop :=
    match n with
    | NNull => True
    | NScalar v => text_ok v
    | NMap kv => (fix all (l : list (bytes * node)) : Prop :=
                    match l with [] => True | (k, v) :: r => (text_ok (quote_key k) /\ tree_ok v) /\ all r end) kv
    | NList vec _ => (fix all (l : list node) : Prop :=
                        match l with [] => True | v :: r => tree_ok v /\ all r end) vec
    end.

  Lemma tree_ok_map kv :
    tree_ok (NMap kv) <-> Forall (fun p => text_ok (quote_key (fst p)) /\ tree_ok (snd p)) kv.
  Proof.
    induction kv as [|[k v] r IH].
    - split; intros; [constructor|exact I].
    - split; intros H.
      + simpl in H. destruct H as [H1 H2]. constructor; [exact H1|]. apply IH. exact H2.
      + inversion H; subst. simpl. split; [assumption|]. apply IH. assumption.
  Qed.
  Lemma tree_ok_list vec al : tree_ok (NList vec al) <-> Forall tree_ok vec.
  Proof.
    induction vec as [|v r IH].
    - split; intros; [constructor|exact I].
    - split; intros H.
      + simpl in H. destruct H as [H1 H2]. constructor; [exact H1|]. apply IH. exact H2.
      + inversion H; subst. simpl. split; [assumption|]. apply IH. assumption.
  Qed.

  Lemma null_has_no_newline v : is_yaml_null v = true -> has_newline v = false.
  Proof.
    unfold is_yaml_null. rewrite !orb_true_iff, !bytes_eqb_eq.
    intros [[[H|H]|H]|H]; subst; reflexivity.
  Qed.

  Definition good (r : node * bool) (t : node) : Prop := abs (fst r) = abs t /\ snd r = true.

  Lemma import_scalar v : text_ok v -> yaml_import (rt (yaml_export (NScalar v))) NNull = (NScalar v, true).
  Proof.
    intros Hv. cbn [yaml_export]. destruct (rt_scalar v (scalar_style v) Hv) as [st' [E [_ Hp]]].
    rewrite E. cbn [yaml_import].
    destruct (is_yaml_null v && is_plain st') eqn:T; [|reflexivity].
    exfalso. apply andb_true_iff in T as [T1 T2].
    assert (st' = YPlain) by (destruct st'; try discriminate; reflexivity).
    unfold scalar_style in Hp. rewrite (null_has_no_newline v T1), T1 in Hp.
    destruct (Hp H); discriminate.
  Qed.

  Definition ykey (k : bytes) : ynode := YScalar (quote_key k) YAny.

  Lemma import_map_loop : forall kv2 kv1',
      Forall (fun p => wf (snd p) -> tree_ok (snd p) ->
                       good (yaml_import (rt (yaml_export (snd p))) NNull) (snd p)) kv2 ->
      keys_ok (map fst kv1' ++ map fst kv2) -> wf_vals kv2 ->
      Forall (fun p => text_ok (quote_key (fst p)) /\ tree_ok (snd p)) kv2 ->
      let res :=
          fold_left
            (fun (st : node * bool) p =>
               let '(r, ok) := st in
               let '(k, v) := p in
               if negb ok then st
               else match k with
                    | YScalar kb _ =>
                      let '(r', res) := vset_subtree_then r kb (fun a => yaml_import v a) in
                      (r', match res with inl _ => false | inr b => b end)
                    | _ => st
                    end)
            (map (fun p => (rt (fst p), rt (snd p)))
                 (map (fun p : bytes * node => let '(k, v) := p in (ykey k, yaml_export v)) kv2))
            (NMap kv1', true) in
      abs (fst res) = DMap (map absp kv1' ++ map absp kv2) /\ snd res = true.
  Proof.
    induction kv2 as [|[k v] r IH]; intros kv1' HP Hk Hv Ht.
    - simpl. now rewrite app_nil_r.
    - inversion HP as [|? ? HPv HPr]; subst. inversion Hv as [|? ? Hwv Hwr]; subst.
      inversion Ht as [|? ? Htv Htr]; subst. cbn [fst snd] in *. destruct Htv as [Htk Htv].
      assert (Hkk : k <> [] /\ lookup k kv1' = None).
      { destruct Hk as [Hnd Hne]. cbn [map fst] in Hnd, Hne. split.
        - apply Forall_app in Hne as [_ Hne]. now inversion Hne.
        - apply lookup_none_iff. apply NoDup_remove_2 in Hnd. intros Hin. apply Hnd.
          apply in_or_app. now left. }
      destruct Hkk as [Hne Hl].
      cbv zeta. rewrite !map_cons. cbn [fold_left fst snd].
      change (rt (ykey k)) with (rt (YScalar (quote_key k) YAny)).
      destruct (rt_scalar (quote_key k) YAny Htk) as [st' [E _]]. rewrite E. cbn [negb].
      rewrite (step_map_element (quote_key k) k kv1' _ (parse_quote_key k Hne) Hl).
      destruct (HPv Hwv Htv) as [G1 G2]. rewrite G2.
      specialize (IH (kv1' ++ [(k, fst (yaml_import (rt (yaml_export v)) NNull))]) HPr).
      cbv zeta in IH. destruct IH as [I1 I2]; [| assumption | assumption |].
      + rewrite map_app. cbn [map fst]. rewrite <- app_assoc. exact Hk.
      + split; [|exact I2]. rewrite I1. rewrite map_app. cbn [map absp]. rewrite G1.
        now rewrite <- app_assoc.
  Qed.

  Lemma import_list_loop : forall vec2 vec1' al,
      Forall (fun v => wf v -> tree_ok v -> good (yaml_import (rt (yaml_export v)) NNull) v) vec2 ->
      wf_items vec2 -> Forall tree_ok vec2 ->
      (Z.of_nat (length vec1' + length vec2) < INT_MAX)%Z ->
      let res :=
          fold_left
            (fun (st : nat * node * bool) v =>
               let '(i, r, ok) := st in
               if negb ok then st
               else let '(r', res) := vset_subtree_then r (index_desc i) (fun a => yaml_import v a) in
                    (S i, r', match res with inl _ => false | inr b => b end))
            (map rt (map yaml_export vec2)) (length vec1', NList vec1' al, true) in
      abs (snd (fst res)) = DList (map abs vec1' ++ map abs vec2) /\ snd res = true.
  Proof.
    induction vec2 as [|v r IH]; intros vec1' al HP Hw Ht Hlen.
    - simpl. now rewrite app_nil_r.
    - inversion HP as [|? ? HPv HPr]; subst. inversion Hw as [|? ? Hwv Hwr]; subst.
      inversion Ht as [|? ? Htv Htr]; subst. cbn [length] in Hlen.
      assert (Hi : (Z.of_nat (length vec1') < INT_MAX)%Z) by lia.
      cbv zeta. rewrite !map_cons. cbn [fold_left negb].
      rewrite (step_list_element (index_desc (length vec1')) vec1' al);
        [| apply parse_index_desc; unfold INT_MAX in Hi; lia | exact Hi].
      destruct (HPv Hwv Htv) as [G1 G2]. rewrite G2.
      generalize (check_allocation al (S (length vec1'))). intros al'.
      replace (S (length vec1')) with (length (vec1' ++ [fst (yaml_import (rt (yaml_export v)) NNull)]))
        by (rewrite app_length; simpl; lia).
      specialize (IH (vec1' ++ [fst (yaml_import (rt (yaml_export v)) NNull)]) al' HPr Hwr Htr).
      cbv zeta in IH. destruct IH as [I1 I2]; [rewrite app_length; simpl; lia|].
      split; [|exact I2]. rewrite I1. rewrite map_app. cbn [map]. rewrite G1. now rewrite <- app_assoc.
  Qed.

  (* C14: import (emit+parse (export t)) = t, for every well-formed tree of admissible texts *)
  Theorem yaml_roundtrip : forall t, wf t -> tree_ok t ->
      good (yaml_import (rt (yaml_export t)) NNull) t.
  Proof.
    induction t as [| v | kv IH | vec al IH] using node_ind'; intros Hw Ht.
    - cbn [yaml_export]. destruct (rt_scalar [126%N] YPlain tilde_ok) as [st' [E [Hp _]]].
      rewrite E, (Hp eq_refl). split; reflexivity.
    - rewrite (import_scalar v Ht). split; reflexivity.
    - apply wf_map in Hw as [Hk Hv]. apply tree_ok_map in Ht.
      cbn [yaml_export]. rewrite rt_mapping. cbn [yaml_import]. rewrite vset_subtree_map.
      cbn [o_ret ok0 Z.eqb negb map_entries].
      pose proof (import_map_loop kv [] IH Hk Hv Ht) as L. cbv zeta in L. exact L.
    - apply wf_list in Hw as [Hl Hv]. apply tree_ok_list in Ht.
      cbn [yaml_export]. rewrite rt_sequence. cbn [yaml_import]. rewrite vset_subtree_list.
      cbn [o_ret ok0 Z.eqb negb list_parts fst snd].
      pose proof (import_list_loop vec [] O IH Hv Ht Hl) as L. cbv zeta in L.
      cbn [length] in L.
      destruct (fold_left _ _ _) as [[i r] ok]. exact L.
  Qed.

  (* ---------------------------------------------------------------- properties in a calibration file *)
  Hypothesis properties_ok : text_ok key_properties.

  Definition other_keys (l : list (bytes * ynode)) : Prop :=
    Forall (fun p => text_ok (fst p) /\ bytes_eqb (fst p) key_properties = false) l.

  Definition mk_pair (p : bytes * ynode) : ynode * ynode := (YScalar (fst p) YAny, snd p).
  Definition rt_pair (p : ynode * ynode) : ynode * ynode := (rt (fst p), rt (snd p)).

  Lemma rt_other_key p :
    text_ok (fst p) /\ bytes_eqb (fst p) key_properties = false ->
    is_properties_key (fst (rt_pair (mk_pair p))) = false.
  Proof.
    intros [H1 H2]. unfold rt_pair, mk_pair. cbn [fst].
    destruct (rt_scalar (fst p) YAny H1) as [st' [E _]]. rewrite E. exact H2.
  Qed.
  Lemma rt_properties_key st0 :
    exists st', rt (YScalar key_properties st0) = YScalar key_properties st'.
  Proof. destruct (rt_scalar key_properties st0 properties_ok) as [st' [E _]]. eauto. Qed.

  Lemma global_skip : forall l st, other_keys l ->
      fold_left (fun (st : node * bool) p =>
                   let '(r, ok) := st in
                   if negb ok then st
                   else if is_properties_key (fst p) then yaml_import (snd p) r else st)
                (map rt_pair (map mk_pair l)) st = st.
  Proof.
    induction l as [|p l IH]; intros st H; [reflexivity|].
    inversion H; subst. cbn [map fold_left]. rewrite (rt_other_key p) by assumption.
    destruct st as [r ok]. destruct (negb ok); now apply IH.
  Qed.
  Lemma cal_skip : forall l found, other_keys l ->
      fold_left (fun (found : option ynode) p => if is_properties_key (fst p) then Some (snd p) else found)
                (map rt_pair (map mk_pair l)) found = found.
  Proof.
    induction l as [|p l IH]; intros found H; [reflexivity|].
    inversion H; subst. cbn [map fold_left]. rewrite (rt_other_key p) by assumption. now apply IH.
  Qed.

  (* global properties written by vnacal_save and read by vnacal_load *)
  Theorem calfile_global_properties_rt pre post t :
    other_keys pre -> other_keys post -> wf t -> tree_ok t ->
    good (load_global_properties (rt (save_mapping pre post t)) NNull) t.
  Proof.
    intros Hpre Hpost Hw Ht. unfold save_mapping. rewrite rt_mapping.
    unfold load_global_properties.
    change (fun p : bytes * ynode => (YScalar (fst p) YAny, snd p)) with mk_pair.
    change (fun p : ynode * ynode => (rt (fst p), rt (snd p))) with rt_pair.
    rewrite map_app, fold_left_app, global_skip by assumption.
    cbn [map fold_left]. rewrite global_skip by assumption.
    unfold rt_pair. cbn [fst snd negb].
    destruct (rt_properties_key YAny) as [st' E]. rewrite E.
    cbn [is_properties_key]. rewrite bytes_eqb_refl. now apply yaml_roundtrip.
  Qed.

  (* per-calibration properties *)
  Theorem calfile_calibration_properties_rt pre post t :
    other_keys pre -> other_keys post -> wf t -> tree_ok t ->
    good (load_calibration_properties (rt (save_mapping pre post t))) t.
  Proof.
    intros Hpre Hpost Hw Ht. unfold save_mapping. rewrite rt_mapping.
    unfold load_calibration_properties.
    change (fun p : bytes * ynode => (YScalar (fst p) YAny, snd p)) with mk_pair.
    change (fun p : ynode * ynode => (rt (fst p), rt (snd p))) with rt_pair.
    rewrite map_app, fold_left_app, cal_skip by assumption.
    cbn [map fold_left]. rewrite cal_skip by assumption.
    unfold rt_pair. cbn [fst snd].
    destruct (rt_properties_key YAny) as [st' E]. rewrite E.
    cbn [is_properties_key]. rewrite bytes_eqb_refl. now apply yaml_roundtrip.
  Qed.

  (* the public importers replace whatever the root held (DP2 fixed) *)
  Theorem import_document_replaces root t :
    wf t -> tree_ok t -> good (import_document (rt (yaml_export t)) root) t.
  Proof. intros Hw Ht. unfold import_document. rewrite vdelete_dot. now apply yaml_roundtrip. Qed.
End Yaml.

(* the hypotheses are satisfiable: the "ideal" round trip of YamlModel meets them for every text *)
Lemma rt_ideal_scalar : forall v st, True ->
    exists st', yaml_rt_ideal (YScalar v st) = YScalar v st'
                /\ (st = YPlain -> st' = YPlain)
                /\ (st' = YPlain -> st = YPlain \/ st = YAny).
Proof.
  intros v st _. exists (match st with YAny => YPlain | s => s end). split; [reflexivity|].
  destruct st; split; intros H; try discriminate; auto.
Qed.
Lemma rt_ideal_mapping kv :
  yaml_rt_ideal (YMapping kv) = YMapping (map (fun p => (yaml_rt_ideal (fst p), yaml_rt_ideal (snd p))) kv).
Proof. simpl. f_equal. apply map_ext. intros [k v]. reflexivity. Qed.
Lemma rt_ideal_sequence l : yaml_rt_ideal (YSequence l) = YSequence (map yaml_rt_ideal l).
Proof. reflexivity. Qed.

Theorem yaml_roundtrip_ideal t :
  wf t -> abs (fst (yaml_import (yaml_rt_ideal (yaml_export t)) NNull)) = abs t
          /\ snd (yaml_import (yaml_rt_ideal (yaml_export t)) NNull) = true.
Proof.
  intros Hw.
  apply (yaml_roundtrip yaml_rt_ideal (fun _ => True) rt_ideal_scalar rt_ideal_mapping rt_ideal_sequence I t Hw).
  clear Hw. induction t as [| v | kv IH | vec al IH] using node_ind'; try exact I.
  - apply tree_ok_map. induction IH as [|[k v] r H _ IHr]; constructor; [split; [exact I|exact H]|exact IHr].
  - apply tree_ok_list. exact IH.
Qed.

Lemma null_lookalike_quoted (v : bytes) :
  is_yaml_null v = true -> yaml_export (NScalar v) = YScalar v YDouble.
Proof.
  intros H. unfold yaml_export, scalar_style. now rewrite (null_has_no_newline v H), H.
Qed.

(* a concrete non-trivial tree: null look-alikes, a key that needs quoting, a nested list *)
Definition example_tree : node :=
  NMap [([97%N; 46%N; 98%N; 32%N], NScalar [126%N]);
        ([110%N], NList [NNull; NScalar [110%N; 117%N; 108%N; 108%N]; NMap []] 8);
        ([32%N], NScalar [108%N; 49%N; 10%N; 108%N; 50%N])].
Example example_tree_roundtrip :
  fst (yaml_import (yaml_rt_ideal (yaml_export example_tree)) NNull) = example_tree.
Proof. vm_compute. reflexivity. Qed.

(* satisfiability of the calibration-file theorems: the ideal round trip, any other keys *)
Theorem calfile_properties_rt_ideal pre post t :
  other_keys (fun _ => True) pre -> other_keys (fun _ => True) post -> wf t ->
  good (load_global_properties (yaml_rt_ideal (save_mapping pre post t)) NNull) t /\
  good (load_calibration_properties (yaml_rt_ideal (save_mapping pre post t))) t.
Proof.
  intros Hpre Hpost Hw.
  assert (Ht : tree_ok (fun _ => True) t).
  { clear. induction t as [| v | kv IH | vec al IH] using node_ind'; try exact I.
    - apply tree_ok_map. induction IH as [|[k v] r H _ IHr]; constructor; [split; [exact I|exact H]|exact IHr].
    - apply tree_ok_list. exact IH. }
  split.
  - apply (calfile_global_properties_rt yaml_rt_ideal (fun _ => True) rt_ideal_scalar rt_ideal_mapping
             rt_ideal_sequence I I pre post t Hpre Hpost Hw Ht).
  - apply (calfile_calibration_properties_rt yaml_rt_ideal (fun _ => True) rt_ideal_scalar rt_ideal_mapping
             rt_ideal_sequence I I pre post t Hpre Hpost Hw Ht).
Qed.
