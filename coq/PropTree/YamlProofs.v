(* YamlProofs: exporting a property tree to a YAML document tree and importing what libyaml's
   emitter + parser make of it gives the tree back, for every tree of valid UTF-8 text without
   NUL (YamlText.valid_utf8_no_nul).  libyaml is a Section hypothesis (never an axiom): [rt] is
   "emit, then parse" on document trees.  The hypotheses are then discharged for the model
   emitter/parser of YamlText.v (rt_quote: real quoting and escaping at byte level) and for the
   identity on bytes (yaml_rt_ideal), which gives theorems without hypotheses about [rt]. *)
Require Import List NArith ZArith Bool Lia.
Import ListNotations.
Require Import LV.PropTree.PropModel LV.PropTree.DocSpec LV.PropTree.PropProofs LV.PropTree.QuoteProofs
        LV.PropTree.RebuildProofs LV.PropTree.YamlModel LV.PropTree.YamlText LV.PropTree.YamlTextProofs.

(* every scalar and every RAW key of the tree is valid UTF-8 without NUL (executable) *)
Lemma tree_text_ok_map kv :
  tree_text_ok (NMap kv) = true <->
  Forall (fun p => valid_utf8_no_nul (fst p) = true /\ tree_text_ok (snd p) = true) kv.
Proof.
  cbn [tree_text_ok]. rewrite forallb_forall, Forall_forall.
  split; intros H [k v] Hin; specialize (H (k, v) Hin); cbn [fst snd] in *.
  - now apply andb_true_iff in H.
  - now apply andb_true_iff.
Qed.
Lemma tree_text_ok_list vec al : tree_text_ok (NList vec al) = true <-> Forall (fun v => tree_text_ok v = true) vec.
Proof. cbn [tree_text_ok]. now rewrite forallb_forall, Forall_forall. Qed.

Lemma null_has_no_newline v : is_yaml_null v = true -> has_newline v = false.
Proof.
  unfold is_yaml_null. rewrite !orb_true_iff, !bytes_eqb_eq.
  intros [[[H|H]|H]|H]; subst; reflexivity.
Qed.

Definition good (r : node * bool) (t : node) : Prop := abs (fst r) = abs t /\ snd r = true.

Section Yaml.
  (* what libyaml does to a document tree when it is emitted and parsed again *)
  Variable rt : ynode -> ynode.

  (* a scalar of valid UTF-8 text without NUL keeps its kind and bytes, and it is read back as
     *plain* only if it was emitted with the plain or the "any" style *)
  Hypothesis rt_scalar : forall v st, valid_utf8_no_nul v = true ->
      exists st', rt (YScalar v st) = YScalar v st'
                  /\ (st' = YPlain -> st = YPlain \/ st = YAny).
  (* the null written by _vnaproperty_yaml_export (plain ~) is read back as a plain ~ *)
  Hypothesis rt_tilde : rt (YScalar [126%N] YPlain) = YScalar [126%N] YPlain.
  Hypothesis rt_mapping : forall kv, rt (YMapping kv) = YMapping (map (fun p => (rt (fst p), rt (snd p))) kv).
  Hypothesis rt_sequence : forall l, rt (YSequence l) = YSequence (map rt l).

  Lemma import_scalar v :
    valid_utf8_no_nul v = true -> yaml_import (rt (yaml_export (NScalar v))) NNull = (NScalar v, true).
  Proof.
    intros Hv. cbn [yaml_export]. destruct (rt_scalar v (scalar_style v) Hv) as [st' [E Hp]].
    rewrite E. cbn [yaml_import].
    destruct (is_yaml_null v && is_plain st') eqn:T; [|reflexivity].
    exfalso. apply andb_true_iff in T as [T1 T2].
    assert (st' = YPlain) by (destruct st'; try discriminate; reflexivity).
    unfold scalar_style in Hp. rewrite (null_has_no_newline v T1), T1 in Hp.
    destruct (Hp H); discriminate.
  Qed.

  Definition ykey (k : bytes) : ynode := YScalar (quote_key k) YAny.

  Lemma import_map_loop : forall kv2 kv1',
      Forall (fun p => wf (snd p) -> tree_text_ok (snd p) = true ->
                       good (yaml_import (rt (yaml_export (snd p))) NNull) (snd p)) kv2 ->
      keys_ok (map fst kv1' ++ map fst kv2) -> wf_vals kv2 ->
      Forall (fun p => valid_utf8_no_nul (fst p) = true /\ tree_text_ok (snd p) = true) kv2 ->
      let res :=
          fold_left
            (fun (st : node * bool) p =>
               let '(r, ok) := st in
               let '(k, v) := p in
               if negb ok then st
               else match k with
                    | YScalar kb _ =>
                      let '(r', res) := vset_subtree_then r kb (fun a => yaml_import v a) in
                      (r', match res with inl _ => false | inr b => b end)
                    | _ => st
                    end)
            (map (fun p => (rt (fst p), rt (snd p)))
                 (map (fun p : bytes * node => let '(k, v) := p in (ykey k, yaml_export v)) kv2))
            (NMap kv1', true) in
      abs (fst res) = DMap (map absp kv1' ++ map absp kv2) /\ snd res = true.
  Proof.
    induction kv2 as [|[k v] r IH]; intros kv1' HP Hk Hv Ht.
    - simpl. now rewrite app_nil_r.
    - inversion HP as [|? ? HPv HPr]; subst. inversion Hv as [|? ? Hwv Hwr]; subst.
      inversion Ht as [|? ? Htv Htr]; subst. cbn [fst snd] in *. destruct Htv as [Htk Htv].
      assert (Hkk : k <> [] /\ lookup k kv1' = None).
      { destruct Hk as [Hnd Hne]. cbn [map fst] in Hnd, Hne. split.
        - apply Forall_app in Hne as [_ Hne]. now inversion Hne.
        - apply lookup_none_iff. apply NoDup_remove_2 in Hnd. intros Hin. apply Hnd.
          apply in_or_app. now left. }
      destruct Hkk as [Hne Hl].
      cbv zeta. rewrite !map_cons. cbn [fold_left fst snd].
      change (rt (ykey k)) with (rt (YScalar (quote_key k) YAny)).
      (* the quoted key is valid text because the raw key is (quote_key_valid) *)
      destruct (rt_scalar (quote_key k) YAny (quote_key_valid k Htk)) as [st' [E _]]. rewrite E. cbn [negb].
      rewrite (step_map_element (quote_key k) k kv1' _ (parse_quote_key k Hne) Hl).
      destruct (HPv Hwv Htv) as [G1 G2]. rewrite G2.
      specialize (IH (kv1' ++ [(k, fst (yaml_import (rt (yaml_export v)) NNull))]) HPr).
      cbv zeta in IH. destruct IH as [I1 I2]; [| assumption | assumption |].
      + rewrite map_app. cbn [map fst]. rewrite <- app_assoc. exact Hk.
      + split; [|exact I2]. rewrite I1. rewrite map_app. cbn [map absp]. rewrite G1.
        now rewrite <- app_assoc.
  Qed.

  Lemma import_list_loop : forall vec2 vec1' al,
      Forall (fun v => wf v -> tree_text_ok v = true -> good (yaml_import (rt (yaml_export v)) NNull) v) vec2 ->
      wf_items vec2 -> Forall (fun v => tree_text_ok v = true) vec2 ->
      (Z.of_nat (length vec1' + length vec2) < INT_MAX)%Z ->
      let res :=
          fold_left
            (fun (st : nat * node * bool) v =>
               let '(i, r, ok) := st in
               if negb ok then st
               else let '(r', res) := vset_subtree_then r (index_desc i) (fun a => yaml_import v a) in
                    (S i, r', match res with inl _ => false | inr b => b end))
            (map rt (map yaml_export vec2)) (length vec1', NList vec1' al, true) in
      abs (snd (fst res)) = DList (map abs vec1' ++ map abs vec2) /\ snd res = true.
  Proof.
    induction vec2 as [|v r IH]; intros vec1' al HP Hw Ht Hlen.
    - simpl. now rewrite app_nil_r.
    - inversion HP as [|? ? HPv HPr]; subst. inversion Hw as [|? ? Hwv Hwr]; subst.
      inversion Ht as [|? ? Htv Htr]; subst. cbn [length] in Hlen.
      assert (Hi : (Z.of_nat (length vec1') < INT_MAX)%Z) by lia.
      cbv zeta. rewrite !map_cons. cbn [fold_left negb].
      rewrite (step_list_element (index_desc (length vec1')) vec1' al);
        [| apply parse_index_desc; unfold INT_MAX in Hi; lia | exact Hi].
      destruct (HPv Hwv Htv) as [G1 G2]. rewrite G2.
      generalize (check_allocation al (S (length vec1'))). intros al'.
      replace (S (length vec1')) with (length (vec1' ++ [fst (yaml_import (rt (yaml_export v)) NNull)]))
        by (rewrite app_length; simpl; lia).
      specialize (IH (vec1' ++ [fst (yaml_import (rt (yaml_export v)) NNull)]) al' HPr Hwr Htr).
      cbv zeta in IH. destruct IH as [I1 I2]; [rewrite app_length; simpl; lia|].
      split; [|exact I2]. rewrite I1. rewrite map_app. cbn [map]. rewrite G1. now rewrite <- app_assoc.
  Qed.

  (* C14: import (emit+parse (export t)) = t, for every well-formed tree of valid UTF-8 text *)
  Theorem yaml_roundtrip : forall t, wf t -> tree_text_ok t = true ->
      good (yaml_import (rt (yaml_export t)) NNull) t.
  Proof.
    induction t as [| v | kv IH | vec al IH] using node_ind'; intros Hw Ht.
    - cbn [yaml_export]. rewrite rt_tilde. split; reflexivity.
    - rewrite (import_scalar v Ht). split; reflexivity.
    - apply wf_map in Hw as [Hk Hv]. apply tree_text_ok_map in Ht.
      cbn [yaml_export]. rewrite rt_mapping. cbn [yaml_import]. rewrite vset_subtree_map.
      cbn [o_ret ok0 Z.eqb negb map_entries].
      pose proof (import_map_loop kv [] IH Hk Hv Ht) as L. cbv zeta in L. exact L.
    - apply wf_list in Hw as [Hl Hv]. apply tree_text_ok_list in Ht.
      cbn [yaml_export]. rewrite rt_sequence. cbn [yaml_import]. rewrite vset_subtree_list.
      cbn [o_ret ok0 Z.eqb negb list_parts fst snd].
      pose proof (import_list_loop vec [] O IH Hv Ht Hl) as L. cbv zeta in L.
      cbn [length] in L.
      destruct (fold_left _ _ _) as [[i r] ok]. exact L.
  Qed.

  (* the public importers replace whatever the root held (DP2 fixed) *)
  Theorem import_document_replaces root t :
    wf t -> tree_text_ok t = true -> good (import_document (rt (yaml_export t)) root) t.
  Proof.
    intros Hw Ht. unfold import_document. destruct (yaml_roundtrip t Hw Ht) as [Ha Hs].
    destruct (yaml_import (rt (yaml_export t)) NNull) as [r ok]. cbn [fst snd] in Ha, Hs. subst ok.
    split; [exact Ha|reflexivity].
  Qed.

  (* ---------------------------------------------------------------- a whole calibration file *)
  (* the abstract non-property entries: keys are valid text, different from "properties" and "name" *)
  Definition not_props (l : list (bytes * ynode)) : Prop :=
    Forall (fun p => valid_utf8_no_nul (fst p) = true /\ bytes_eqb (fst p) key_properties = false) l.
  Definition other_keys (l : list (bytes * ynode)) : Prop :=
    Forall (fun p => valid_utf8_no_nul (fst p) = true /\ bytes_eqb (fst p) key_properties = false
                     /\ bytes_eqb (fst p) key_name = false) l.

  Definition calrec_ok (c : calrec) : Prop :=
    valid_utf8_no_nul (c_name c) = true /\ other_keys (c_pre c) /\ other_keys (c_post c)
    /\ wf (c_props c) /\ tree_text_ok (c_props c) = true.

  Lemma other_keys_not_props l : other_keys l -> not_props l.
  Proof. unfold other_keys, not_props. rewrite !Forall_forall. intros H p Hin. destruct (H p Hin); tauto. Qed.

  Definition mk_pair (p : bytes * ynode) : ynode * ynode := (YScalar (fst p) YAny, snd p).
  Definition rt_pair (p : ynode * ynode) : ynode * ynode := (rt (fst p), rt (snd p)).

  Lemma rt_key (k : bytes) st0 :
    valid_utf8_no_nul k = true -> exists st', rt (YScalar k st0) = YScalar k st'.
  Proof. intros H. destruct (rt_scalar k st0 H) as [st' [E _]]. eauto. Qed.

  Lemma rt_other_key kb p :
    valid_utf8_no_nul (fst p) = true -> bytes_eqb (fst p) kb = false ->
    is_key kb (fst (rt_pair (mk_pair p))) = false.
  Proof.
    intros H1 H2. unfold rt_pair, mk_pair. cbn [fst].
    destruct (rt_key (fst p) YAny H1) as [st' E]. rewrite E. exact H2.
  Qed.

  Lemma cal_skip : forall l found, not_props l ->
      fold_left (fun (found : option ynode) p => if is_properties_key (fst p) then Some (snd p) else found)
                (map rt_pair (map mk_pair l)) found = found.
  Proof.
    induction l as [|p l IH]; intros found H; [reflexivity|].
    inversion H as [|? ? [H1 H2] Hr]; subst. cbn [map fold_left]. unfold is_properties_key at 2.
    rewrite (rt_other_key key_properties p H1 H2). now apply IH.
  Qed.

  Lemma name_skip : forall l tail cur, other_keys l ->
      cal_name_from (map rt_pair (map mk_pair l) ++ tail) cur = cal_name_from tail cur.
  Proof.
    induction l as [|p l IH]; intros tail cur H; [reflexivity|].
    inversion H as [|? ? [H1 [_ H3]] Hr]; subst. cbn [map app cal_name_from].
    rewrite (rt_other_key key_name p H1 H3). now apply IH.
  Qed.

  (* the pairs of a saved calibration after emit+parse *)
  Definition saved_pairs (c : calrec) : list (ynode * ynode) :=
    map rt_pair (map mk_pair ((key_name, YScalar (c_name c) YAny) :: c_pre c)
                 ++ (YScalar key_properties YAny, yaml_export (c_props c)) :: map mk_pair (c_post c)).

  Lemma rt_save_cal c : rt (save_cal c) = YMapping (saved_pairs c).
  Proof. unfold save_cal, save_mapping. now rewrite rt_mapping. Qed.

  Lemma last_properties_saved c :
    other_keys (c_pre c) -> other_keys (c_post c) ->
    last_properties (saved_pairs c) = Some (rt (yaml_export (c_props c))).
  Proof.
    intros Hpre Hpost. unfold last_properties, saved_pairs.
    rewrite map_app, fold_left_app, cal_skip.
    - cbn [map fold_left]. unfold rt_pair at 2. cbn [fst snd].
      destruct (rt_key key_properties YAny eq_refl) as [st' E]. rewrite E.
      unfold is_properties_key at 2. cbn [is_key]. rewrite bytes_eqb_refl.
      now rewrite cal_skip by now apply other_keys_not_props.
    - constructor; [split; reflexivity|now apply other_keys_not_props].
  Qed.

  Lemma cal_name_saved c :
    valid_utf8_no_nul (c_name c) = true -> other_keys (c_pre c) -> other_keys (c_post c) ->
    cal_name (saved_pairs c) = Some (c_name c).
  Proof.
    intros Hn Hpre Hpost. unfold cal_name, saved_pairs.
    rewrite map_app. cbn [map].
    change (mk_pair (key_name, YScalar (c_name c) YAny)) with (YScalar key_name YAny, YScalar (c_name c) YAny).
    unfold rt_pair at 1. cbn [fst snd app].
    destruct (rt_key key_name YAny eq_refl) as [s1 E1].
    destruct (rt_key (c_name c) YAny Hn) as [s2 E2].
    cbn [cal_name_from fst snd]. rewrite E1, E2. cbn [is_key]. rewrite bytes_eqb_refl.
    rewrite name_skip by assumption.
    cbn [cal_name_from]. unfold rt_pair at 1. cbn [fst snd].
    destruct (rt_key key_properties YAny eq_refl) as [s3 E3]. rewrite E3. cbn [is_key].
    change (bytes_eqb key_properties key_name) with false. cbv iota.
    rewrite <- (app_nil_r (map rt_pair (map mk_pair (c_post c)))).
    now rewrite name_skip by assumption.
  Qed.

  Variables pre_ok post_ok : others.

  (* parse_set on a saved calibration: the outcome is decided by the non-property steps alone,
     and when they succeed the new calibration holds the saved properties *)
  Lemma parse_set_saved c g acc :
    calrec_ok c ->
    exists r, abs r = abs (c_props c) /\
      parse_set pre_ok post_ok (g, acc) (rt (save_cal c)) =
      if pre_ok (held acc) (saved_pairs c) && post_ok (held acc) (saved_pairs c)
      then Some (g, add_cal (c_name c) (rt (save_cal c), r) acc) else None.
  Proof.
    intros [Hn [Hpre [Hpost [Hw Ht]]]].
    destruct (yaml_roundtrip (c_props c) Hw Ht) as [G1 G2].
    exists (fst (yaml_import (rt (yaml_export (c_props c))) NNull)). split; [exact G1|].
    rewrite rt_save_cal. cbn [parse_set]. rewrite (cal_name_saved c Hn Hpre Hpost).
    rewrite (last_properties_saved c Hpre Hpost).
    destruct (yaml_import (rt (yaml_export (c_props c))) NNull) as [r ok]. cbn [fst snd] in *. subst ok.
    destruct (pre_ok (held acc) (saved_pairs c)); cbn [negb andb]; [|reflexivity].
    destruct (post_ok (held acc) (saved_pairs c)); reflexivity.
  Qed.

  Definition cal_step (acc : option load_state) (c : ynode) : option load_state :=
    match acc with None => None | Some st' => parse_set pre_ok post_ok st' c end.

  Lemma cal_loop_none l : fold_left cal_step l None = None.
  Proof. induction l; simpl; auto. Qed.

  Lemma held_app a b : held (a ++ b) = held a ++ held b.
  Proof. unfold held. apply map_app. Qed.

  (* a calibration with a new name takes the next slot *)
  Lemma add_cal_fresh nm e (acc : cal_vector) : ~ In nm (map fst acc) -> add_cal nm e acc = acc ++ [(nm, e)].
  Proof. intros H. unfold add_cal. apply lookup_none_iff in H. now rewrite H. Qed.

  Definition fresh_names (cals : list calrec) (acc : cal_vector) : Prop :=
    NoDup (map c_name cals) /\ forall c, In c cals -> ~ In (c_name c) (map fst acc).

  Lemma fresh_names_step c cals acc e :
    fresh_names (c :: cals) acc -> fresh_names cals (acc ++ [(c_name c, e)]).
  Proof.
    intros [Hnd Hf]. cbn [map] in Hnd. inversion Hnd as [|? ? Hnotin Hnd']; subst. split; [exact Hnd'|].
    intros c' Hin. rewrite map_app. cbn [map fst]. intros H. apply in_app_or in H as [H|[H|[]]].
    - apply (Hf c'); [now right|exact H].
    - apply Hnotin. rewrite H. now apply in_map.
  Qed.

  Lemma cal_loop_ok : forall cals g acc,
      Forall calrec_ok cals -> fresh_names cals acc ->
      others_all_ok pre_ok post_ok (held acc) (map (fun c => rt (save_cal c)) cals) = true ->
      exists acc', fold_left cal_step (map (fun c => rt (save_cal c)) cals) (Some (g, acc)) = Some (g, acc ++ acc')
                   /\ map (fun e => abs (snd (snd e))) acc' = map (fun c => abs (c_props c)) cals.
  Proof.
    induction cals as [|c cals IH]; intros g acc Hc Hf Hok.
    - exists []. now rewrite app_nil_r.
    - inversion Hc as [|? ? Hc1 Hcr]; subst. cbn [map others_all_ok] in Hok.
      rewrite rt_save_cal in Hok at 1.
      apply andb_true_iff in Hok as [Hthis Hrest].
      destruct (parse_set_saved c g acc Hc1) as [r [Hr Hp]]. rewrite Hthis in Hp.
      rewrite add_cal_fresh in Hp by (apply (proj2 Hf); now left).
      cbn [map fold_left cal_step]. rewrite Hp.
      destruct (IH g (acc ++ [(c_name c, (rt (save_cal c), r))]) Hcr) as [acc' [F M]].
      { now apply fresh_names_step. }
      { rewrite held_app. exact Hrest. }
      exists ((c_name c, (rt (save_cal c), r)) :: acc'). split.
      + rewrite F. now rewrite <- app_assoc.
      + cbn [map snd]. now rewrite Hr, M.
  Qed.

  Lemma cal_loop_fail : forall cals g acc,
      Forall calrec_ok cals -> fresh_names cals acc ->
      others_all_ok pre_ok post_ok (held acc) (map (fun c => rt (save_cal c)) cals) = false ->
      fold_left cal_step (map (fun c => rt (save_cal c)) cals) (Some (g, acc)) = None.
  Proof.
    induction cals as [|c cals IH]; intros g acc Hc Hf Hok; [discriminate|].
    inversion Hc as [|? ? Hc1 Hcr]; subst. cbn [map others_all_ok] in Hok.
    rewrite rt_save_cal in Hok at 1.
    destruct (parse_set_saved c g acc Hc1) as [r [Hr Hp]].
    rewrite add_cal_fresh in Hp by (apply (proj2 Hf); now left).
    cbn [map fold_left cal_step]. rewrite Hp.
    destruct (pre_ok (held acc) (saved_pairs c) && post_ok (held acc) (saved_pairs c)).
    - cbn [andb] in Hok. apply IH; [assumption|now apply fresh_names_step|]. rewrite held_app. exact Hok.
    - apply cal_loop_none.
  Qed.

  (* parse_document on a saved file: the global properties are imported, then the calibrations *)
  Lemma parse_document_saved v g cals :
    wf g -> tree_text_ok g = true ->
    exists g', abs g' = abs g /\
      parse_document v pre_ok post_ok (rt (save_file g cals)) =
      fold_left cal_step (map (fun c => rt (save_cal c)) cals) (Some (g', [])).
  Proof.
    intros Hw Ht. destruct (yaml_roundtrip g Hw Ht) as [G1 G2].
    exists (fst (yaml_import (rt (yaml_export g)) NNull)). split; [exact G1|].
    unfold save_file. rewrite rt_mapping. cbn [map fst snd].
    destruct (rt_key key_properties YAny eq_refl) as [s1 E1].
    destruct (rt_key key_calibrations YAny eq_refl) as [s2 E2].
    rewrite E1, E2, rt_sequence. cbn [parse_document fold_left fst snd].
    rewrite bytes_eqb_refl.
    destruct (yaml_import (rt (yaml_export g)) NNull) as [g' ok]. cbn [fst snd] in *. subst ok.
    change (bytes_eqb key_properties key_calibrations) with false.
    change (bytes_eqb key_properties key_sets) with false. rewrite andb_false_r. cbn [orb].
    change (bytes_eqb key_calibrations key_properties) with false.
    rewrite bytes_eqb_refl. cbn [orb parse_calibrations].
    rewrite map_map. reflexivity.
  Qed.

  Lemma fresh_names_nil cals : NoDup (map c_name cals) -> fresh_names cals [].
  Proof. intros H. split; [exact H|]. intros c _ []. Qed.

  (* (a) when every non-property step of every calibration succeeds, vnacal_load returns the saved
     global properties and, per calibration and in order, the saved calibration properties *)
  Theorem calfile_load_rt v g cals :
    v <> VBad -> wf g -> tree_text_ok g = true -> Forall calrec_ok cals -> NoDup (map c_name cals) ->
    others_all_ok pre_ok post_ok [] (map (fun c => rt (save_cal c)) cals) = true ->
    exists g' cs', load_file v pre_ok post_ok (rt (save_file g cals)) = Some (g', cs')
                   /\ abs g' = abs g /\ map abs cs' = map (fun c => abs (c_props c)) cals.
  Proof.
    intros Hv Hw Ht Hc Hn Hok.
    destruct (parse_document_saved v g cals Hw Ht) as [g' [Hg Hp]].
    destruct (cal_loop_ok cals g' [] Hc (fresh_names_nil cals Hn) Hok) as [acc' [F M]]. cbn [app] in F.
    exists g', (map (fun e => snd (snd e)) acc'). split; [|split; [exact Hg|now rewrite map_map]].
    unfold cal_vector in *. rewrite <- Hp in F. unfold load_file. rewrite F. destruct v; [congruence|reflexivity|reflexivity].
  Qed.

  (* (b) when the version line is refused, or any non-property step of any calibration fails, the
     whole load fails: nothing is said about a partially read file because none is returned *)
  Theorem calfile_load_all_or_nothing v g cals :
    wf g -> tree_text_ok g = true -> Forall calrec_ok cals -> NoDup (map c_name cals) ->
    v = VBad \/ others_all_ok pre_ok post_ok [] (map (fun c => rt (save_cal c)) cals) = false ->
    load_file v pre_ok post_ok (rt (save_file g cals)) = None.
  Proof.
    intros Hw Ht Hc Hn [Hv|Hok]; [subst; reflexivity|].
    destruct (parse_document_saved v g cals Hw Ht) as [g' [Hg Hp]].
    pose proof (cal_loop_fail cals g' [] Hc (fresh_names_nil cals Hn) Hok) as F.
    unfold cal_vector in *. rewrite <- Hp in F. unfold load_file. rewrite F. now destruct v.
  Qed.
End Yaml.

(* ------------------------------------------------------------------ instance 1: the model emitter / parser.
   rt_quote (YamlText.v) writes every scalar as YAML text - plain when safe, otherwise in double
   quotes with escapes - and parses that text back.  It meets the hypotheses for EVERY byte string,
   so the round trip through it needs no assumption about [rt].  This is a model emitter, not
   libyaml: it shows that the hypotheses are consistent with real quoting. *)
Lemma rt_quote_scalar_valid : forall v st, valid_utf8_no_nul v = true ->
    exists st', rt_quote (YScalar v st) = YScalar v st' /\ (st' = YPlain -> st = YPlain \/ st = YAny).
Proof. intros v st _. apply rt_quote_scalar. Qed.

Theorem yaml_roundtrip_model_emitter t :
  wf t -> tree_text_ok t = true -> good (yaml_import (rt_quote (yaml_export t)) NNull) t.
Proof.
  exact (yaml_roundtrip rt_quote rt_quote_scalar_valid rt_quote_tilde rt_quote_mapping rt_quote_sequence t).
Qed.

Theorem import_document_replaces_model_emitter root t :
  wf t -> tree_text_ok t = true -> good (import_document (rt_quote (yaml_export t)) root) t.
Proof.
  exact (import_document_replaces rt_quote rt_quote_scalar_valid rt_quote_tilde rt_quote_mapping rt_quote_sequence root t).
Qed.

Theorem calfile_load_rt_model_emitter pre_ok post_ok v g cals :
  v <> VBad -> wf g -> tree_text_ok g = true -> Forall calrec_ok cals -> NoDup (map c_name cals) ->
  others_all_ok pre_ok post_ok [] (map (fun c => rt_quote (save_cal c)) cals) = true ->
  exists g' cs', load_file v pre_ok post_ok (rt_quote (save_file g cals)) = Some (g', cs')
                 /\ abs g' = abs g /\ map abs cs' = map (fun c => abs (c_props c)) cals.
Proof.
  exact (calfile_load_rt rt_quote rt_quote_scalar_valid rt_quote_tilde rt_quote_mapping rt_quote_sequence
                         pre_ok post_ok v g cals).
Qed.

(* a concrete tree: a null, the null look-alikes ~ and null, a key that needs descriptor quoting
   ("a.b "), a one-space key, a multi-line scalar, and scalars / keys with double quote, backslash,
   TAB, ": ", "- ", " #", leading and trailing spaces, a control character, NEL, LS, BOM, 2-, 3- and
   4-byte UTF-8, the empty string, an empty map inside a list *)
Definition hostile_tree : node :=
  NMap [([97; 46; 98; 32], NScalar [126]);                                          (* "a.b " -> ~ *)
        ([110], NList [NNull; NScalar [110; 117; 108; 108]; NMap []; NScalar []] 8);
        ([32], NScalar [108; 49; 10; 108; 50]);                                     (* " " -> l1 LF l2 *)
        ([107; 58; 32; 34], NScalar hostile_text);                                  (* k: dquote *)
        ([45; 32; 120], NScalar [32; 97; 32; 35; 98; 32]);                          (* "- x" -> " a #b " *)
        ([194; 133; 226; 128; 168], NScalar [239; 187; 191; 240; 159; 152; 128; 228; 184; 173; 1]);
        ([112], NScalar [112; 108; 97; 105; 110; 32; 116; 101; 120; 116])]%N.        (* plain text *)

Example hostile_tree_text_ok : tree_text_ok hostile_tree = true.
Proof. vm_compute. reflexivity. Qed.
Example hostile_tree_roundtrip_model_emitter :
  fst (yaml_import (rt_quote (yaml_export hostile_tree)) NNull) = hostile_tree
  /\ snd (yaml_import (rt_quote (yaml_export hostile_tree)) NNull) = true.
Proof. vm_compute. split; reflexivity. Qed.

(* in that round trip scalars really are quoted and escaped: the emitted text of these scalars and
   keys of hostile_tree differs from their bytes, the text of the last one does not *)
Example hostile_tree_emitted_texts :
  map (fun v => emit_scalar v (scalar_style v)) [[126]; [108; 49; 10; 108; 50]; [32; 97; 32; 35; 98; 32]; []]%N
  = [[34; 126; 34]; [34; 108; 49; 92; 110; 108; 50; 34]; [34; 32; 97; 32; 35; 98; 32; 34]; [34; 34]]%N
  /\ emit_scalar (quote_key [107; 58; 32; 34]%N) YAny = [34; 107; 92; 92; 58; 32; 92; 92; 92; 34; 34]%N
  /\ emit_scalar (quote_key [194; 133; 226; 128; 168]%N) YAny = [34; 92; 120; 56; 53; 92; 76; 34]%N
  /\ emit_scalar [112; 108; 97; 105; 110; 32; 116; 101; 120; 116]%N YAny = [112; 108; 97; 105; 110; 32; 116; 101; 120; 116]%N.
Proof. vm_compute. repeat split; reflexivity. Qed.

(* the tree that the reviewer's counter-example names is outside the text class *)
Example not_text_example : tree_text_ok (NScalar [0; 300]%N) = false.
Proof. reflexivity. Qed.

(* ------------------------------------------------------------------ a whole calibration file, concretely *)
Definition ex_cal (name : bytes) (t : node) : calrec :=
  mkCal name [([114; 111; 119; 115], YScalar [49] YAny)]%N t [([100; 97; 116; 97], YSequence [])]%N.
Definition ex_cals : list calrec :=
  [ex_cal [99; 49]%N hostile_tree; ex_cal [99; 50]%N NNull; ex_cal [99; 51]%N (NScalar [110; 117; 108; 108]%N)].

(* all steps succeed: the three calibrations carry their properties, the global root too *)
Example calfile_example_loads :
  load_file VMajor1 (fun _ _ => true) (fun _ _ => true) (rt_quote (save_file hostile_tree ex_cals))
  = Some (hostile_tree, [hostile_tree; NNull; NScalar [110; 117; 108; 108]%N]).
Proof. vm_compute. reflexivity. Qed.
(* the hypothesis "others_all_ok" of calfile_load_rt is met there, with a condition that looks at its arguments *)
Example calfile_example_others_ok :
  others_all_ok (fun done kv => Nat.eqb (length kv) 4) (fun done _ => Nat.ltb (length done) 3) []
                (map (fun c => rt_quote (save_cal c)) ex_cals) = true.
Proof. vm_compute. reflexivity. Qed.
(* the third calibration fails after its properties were imported (e.g. duplicate name, bad data):
   the whole load fails although every properties entry is fine *)
Example calfile_example_late_failure :
  load_file VMajor1 (fun _ _ => true) (fun done _ => Nat.ltb (length done) 2) (rt_quote (save_file hostile_tree ex_cals)) = None.
Proof. vm_compute. reflexivity. Qed.
Example calfile_example_bad_version :
  load_file VBad (fun _ _ => true) (fun _ _ => true) (rt_quote (save_file hostile_tree ex_cals)) = None.
Proof. reflexivity. Qed.
(* a hand-made document (not one vnacal_save writes): a property key that is not a descriptor
   ("[") makes the properties import fail, and with it the whole load; an unknown top-level key
   is ignored; two "properties" entries at top level merge, in a calibration the last one wins *)
Example calfile_example_bad_property_key :
  load_file VMajor1 (fun _ _ => true) (fun _ _ => true)
    (YMapping [(YScalar key_properties YPlain, YMapping [(YScalar [91]%N YPlain, YScalar [49]%N YPlain)]);
               (YScalar key_calibrations YPlain, YSequence [])]) = None.
Proof. vm_compute. reflexivity. Qed.
Example calfile_example_merge_and_last :
  load_file VMajor1 (fun _ _ => true) (fun _ _ => true)
    (YMapping [(YScalar key_properties YPlain, YMapping [(YScalar [97]%N YPlain, YScalar [49]%N YPlain)]);
               (YScalar [120]%N YPlain, YSequence [YScalar [63]%N YPlain]);
               (YScalar key_properties YPlain, YMapping [(YScalar [98]%N YPlain, YScalar [50]%N YPlain)]);
               (YScalar key_calibrations YPlain,
                YSequence [YMapping [(YScalar key_name YPlain, YScalar [99]%N YPlain);
                                     (YScalar key_properties YPlain, YScalar [49]%N YPlain);
                                     (YScalar key_properties YPlain, YScalar [50]%N YPlain)]])])
  = Some (NMap [([97]%N, NScalar [49]%N); ([98]%N, NScalar [50]%N)], [NScalar [50]%N]).
Proof. vm_compute. reflexivity. Qed.
(* "sets" is read as the list of calibrations only by a version-0 file *)
Example calfile_example_sets :
  (load_file VMajor0 (fun _ _ => true) (fun _ _ => true)
     (YMapping [(YScalar key_sets YPlain, YSequence [YMapping [(YScalar key_name YPlain, YScalar [99]%N YPlain)]])]),
   load_file VMajor1 (fun _ _ => true) (fun _ _ => true)
     (YMapping [(YScalar key_sets YPlain, YSequence [YMapping [(YScalar key_name YPlain, YScalar [99]%N YPlain)]])]))
  = (Some (NNull, [NNull]), Some (NNull, [])).
Proof. vm_compute. reflexivity. Qed.
(* a calibration without a name, or whose name is not a scalar, fails the load; a second
   calibration with the name of an earlier one replaces it in its slot *)
Example calfile_example_names :
  (load_file VMajor1 (fun _ _ => true) (fun _ _ => true)
     (YMapping [(YScalar key_calibrations YPlain, YSequence [YMapping []])]),
   load_file VMajor1 (fun _ _ => true) (fun _ _ => true)
     (YMapping [(YScalar key_calibrations YPlain,
                 YSequence [YMapping [(YScalar key_name YPlain, YSequence []); (YScalar key_name YPlain, YScalar [99]%N YPlain)]])]),
   load_file VMajor1 (fun _ _ => true) (fun _ _ => true)
     (YMapping [(YScalar key_calibrations YPlain,
                 YSequence [YMapping [(YScalar key_name YPlain, YScalar [99]%N YPlain); (YScalar key_properties YPlain, YScalar [49]%N YPlain)];
                            YMapping [(YScalar key_name YPlain, YScalar [100]%N YPlain); (YScalar key_properties YPlain, YScalar [50]%N YPlain)];
                            YMapping [(YScalar key_name YPlain, YScalar [99]%N YPlain); (YScalar key_properties YPlain, YScalar [51]%N YPlain)]])]))
  = (None, None, Some (NNull, [NScalar [51]%N; NScalar [50]%N])).
Proof. vm_compute. reflexivity. Qed.

(* ------------------------------------------------------------------ instance 2: the identity on bytes.
   yaml_rt_ideal keeps every scalar's bytes and reads every "any" scalar back plain: the weakest
   witness (no quoting at all); kept because the extracted driver uses it for its predictions. *)
Lemma rt_ideal_scalar : forall v st, valid_utf8_no_nul v = true ->
    exists st', yaml_rt_ideal (YScalar v st) = YScalar v st'
                /\ (st' = YPlain -> st = YPlain \/ st = YAny).
Proof.
  intros v st _. exists (match st with YAny => YPlain | s => s end). split; [reflexivity|].
  destruct st; intros H; try discriminate; auto.
Qed.
Lemma rt_ideal_mapping kv :
  yaml_rt_ideal (YMapping kv) = YMapping (map (fun p => (yaml_rt_ideal (fst p), yaml_rt_ideal (snd p))) kv).
Proof. simpl. f_equal. apply map_ext. intros [k v]. reflexivity. Qed.
Lemma rt_ideal_sequence l : yaml_rt_ideal (YSequence l) = YSequence (map yaml_rt_ideal l).
Proof. reflexivity. Qed.

Theorem yaml_roundtrip_identity_witness t :
  wf t -> tree_text_ok t = true -> good (yaml_import (yaml_rt_ideal (yaml_export t)) NNull) t.
Proof.
  exact (yaml_roundtrip yaml_rt_ideal rt_ideal_scalar eq_refl rt_ideal_mapping rt_ideal_sequence t).
Qed.

(* ------------------------------------------------------------------ null look-alikes *)
Lemma null_lookalike_quoted (v : bytes) :
  is_yaml_null v = true -> yaml_export (NScalar v) = YScalar v YDouble.
Proof.
  intros H. unfold yaml_export, scalar_style. now rewrite (null_has_no_newline v H), H.
Qed.

(* the calibration-file examples in one statement (cited by Properties_C14) *)
Lemma calfile_examples :
  Forall (calrec_ok) ex_cals /\ NoDup (map c_name ex_cals)
  /\ others_all_ok (fun done kv => Nat.eqb (length kv) 4) (fun done _ => Nat.ltb (length done) 3) []
                   (map (fun c => rt_quote (save_cal c)) ex_cals) = true
  /\ load_file VMajor1 (fun _ _ => true) (fun _ _ => true) (rt_quote (save_file hostile_tree ex_cals))
     = Some (hostile_tree, [hostile_tree; NNull; NScalar [110; 117; 108; 108]%N])
  /\ load_file VMajor1 (fun _ _ => true) (fun done _ => Nat.ltb (length done) 2) (rt_quote (save_file hostile_tree ex_cals)) = None
  /\ load_file VBad (fun _ _ => true) (fun _ _ => true) (rt_quote (save_file hostile_tree ex_cals)) = None
  /\ load_file VMajor1 (fun _ _ => true) (fun _ _ => true)
       (YMapping [(YScalar key_properties YPlain, YMapping [(YScalar [91]%N YPlain, YScalar [49]%N YPlain)]);
                  (YScalar key_calibrations YPlain, YSequence [])]) = None.
Proof.
  split; [|split; [|repeat split; vm_compute; reflexivity]].
  2:{ cbn [map ex_cals c_name ex_cal].
      repeat (constructor; [cbn [In]; intros H; repeat (destruct H as [H|H]; [discriminate|]); exact H|]).
      constructor. }
  assert (W : wf hostile_tree).
  { unfold hostile_tree, wf, keys_ok. cbn [map fst].
    repeat match goal with
           | |- _ /\ _ => split
           | |- True => exact I
           | |- Forall _ [] => constructor
           | |- Forall _ (_ :: _) => constructor; [discriminate|]
           | |- NoDup [] => constructor
           | |- NoDup (_ :: _) => constructor; [cbn [In]; intros H; repeat (destruct H as [H|H]; [discriminate|]); exact H|]
           end.
    unfold INT_MAX. simpl. lia. }
  assert (K : forall name t, wf t -> tree_text_ok t = true -> valid_utf8_no_nul name = true -> calrec_ok (ex_cal name t)).
  { intros name t Hw Ht Hn. unfold calrec_ok, ex_cal, other_keys. cbn [c_pre c_post c_props].
    repeat split; try assumption; repeat constructor. }
  unfold ex_cals.
  constructor; [apply K; [exact W|reflexivity|reflexivity]|].
  constructor; [apply K; [exact I|reflexivity|reflexivity]|].
  constructor; [apply K; [exact I|reflexivity|reflexivity]|constructor].
Qed.
