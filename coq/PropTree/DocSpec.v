(* DocSpec: the abstract document of vnaproperty(3) - nested maps, lists, scalars and nulls - and
   the documented update rules, stated on parsed descriptors (the descriptor grammar itself is
   PropModel.parse; Properties_C13 states its accepted language and its errors separately).

   Rules (vnaproperty(3)):
   - look-up (type, count, keys, get, get_subtree, delete): a key needs a map that contains it
     (ENOENT when the node is null or the key / index is absent, EINVAL when the node has the wrong
     kind); "[n+]" and "[+]" are errors; "{}" / "[]" require a map / list; a trailing "." is the
     element itself;
   - set / set_subtree: every node on the path that is not of the required kind is replaced by an
     empty map / list; an existing key keeps its position, a new key goes to the end; an index
     beyond the end pads with nulls; "[n+]" inserts a null at n and shifts the rest up; "[+]"
     appends;
   - delete: "key" / "[n]" remove the entry (higher indices shift down), any other ending
     (".", "{}", "[]") replaces the addressed value by null and keeps its slot;
   - copy: the destination's value becomes the source's value (a document has no sharing, so "deep copy"
     is "the same value"); when source and destination lie in the same document (d_copy_within) the value
     read is the one the source had BEFORE the copy, after the destination path was conformed.
   No allocation sizes, no hash tables. *)
Require Import List NArith ZArith Bool.
Import ListNotations.
Require Import LV.PropTree.PropModel.

Inductive doc :=
| DNull
| DScalar (v : bytes)
| DMap (kv : list (bytes * doc))
| DList (l : list doc).

Definition dmap_entries (d : doc) : list (bytes * doc) := match d with DMap kv => kv | _ => [] end.
Definition dlist_items (d : doc) : list doc := match d with DList l => l | _ => [] end.

(* position addressed by a subscript in a modifying call: the list after padding / insertion and
   the index of the addressed cell; None = EINVAL *)
Definition pad_to (l : list doc) (n : nat) : list doc := l ++ repeat DNull (n - length l).
Definition d_index (l : list doc) (i : Z) : option (list doc * nat) :=
  if (i <? 0)%Z then None
  else if (i <? Z.of_nat (length l))%Z then Some (l, Z.to_nat i)
  else if (i =? INT_MAX)%Z then None
  else Some (pad_to l (S (Z.to_nat i)), Z.to_nat i).
Definition d_insert (l : list doc) (i : Z) : option (list doc * nat) :=
  if (i <? 0)%Z then None
  else if (i <? Z.of_nat (length l))%Z then Some (insert_nth (Z.to_nat i) DNull l, Z.to_nat i)
  else d_index l i.
Definition d_append (l : list doc) : list doc * nat := (l ++ [DNull], length l).

Fixpoint doc_set {A} (es : list expr) (fin : doc -> doc * A) (d : doc) : doc * (ecode + A) :=
  match es with
  | [] => let '(d', a) := fin d in (d', inr a)
  | E_DOT :: _ => let '(d', a) := fin d in (d', inr a)
  | E_MAP :: _ => let '(d', a) := fin (DMap (dmap_entries d)) in (d', inr a)
  | E_LIST :: _ => let '(d', a) := fin (DList (dlist_items d)) in (d', inr a)
  | E_MAP_ELEMENT k :: es' =>
    let kv := dmap_entries d in
    match lookup k kv with
    | Some child => let '(c', r) := doc_set es' fin child in (DMap (update k c' kv), r)
    | None => let '(c', r) := doc_set es' fin DNull in (DMap (kv ++ [(k, c')]), r)
    end
  | E_LIST_ELEMENT i :: es' =>
    let l := dlist_items d in
    match d_index l i with
    | None => (DList l, inl EINVAL)
    | Some (l1, j) => let '(c', r) := doc_set es' fin (nth j l1 DNull) in (DList (set_nth j c' l1), r)
    end
  | E_LIST_INSERT i :: es' =>
    let l := dlist_items d in
    match d_insert l i with
    | None => (DList l, inl EINVAL)
    | Some (l1, j) => let '(c', r) := doc_set es' fin (nth j l1 DNull) in (DList (set_nth j c' l1), r)
    end
  | E_LIST_APPEND :: es' =>
    let '(l1, j) := d_append (dlist_items d) in
    let '(c', r) := doc_set es' fin (nth j l1 DNull) in (DList (set_nth j c' l1), r)
  end.

Fixpoint doc_get (es : list expr) (d : doc) : ecode + doc :=
  match es with
  | [] => inr d
  | E_DOT :: _ => inr d
  | E_MAP :: _ => match d with DNull => inl ENOENT | DMap _ => inr d | _ => inl EINVAL end
  | E_LIST :: _ => match d with DNull => inl ENOENT | DList _ => inr d | _ => inl EINVAL end
  | E_MAP_ELEMENT k :: es' =>
    match d with
    | DNull => inl ENOENT
    | DMap kv => match lookup k kv with Some c => doc_get es' c | None => inl ENOENT end
    | _ => inl EINVAL
    end
  | E_LIST_ELEMENT i :: es' =>
    match d with
    | DNull => inl ENOENT
    | DList l =>
      if (i <? 0)%Z then inl EINVAL
      else if (i <? Z.of_nat (length l))%Z
           then match nth_error l (Z.to_nat i) with Some c => doc_get es' c | None => inl ENOENT end
           else inl ENOENT
    | _ => inl EINVAL
    end
  | E_LIST_INSERT _ :: _ | E_LIST_APPEND :: _ =>
    match d with DNull => inl ENOENT | _ => inl EINVAL end
  end.

Fixpoint doc_delete (es : list expr) (d : doc) : doc :=
  match es with
  | [] => DNull
  | E_MAP_ELEMENT k :: es' =>
    match es' with
    | [] => DMap (remove_key k (dmap_entries d))
    | _ => let kv := dmap_entries d in
           match lookup k kv with
           | Some c => DMap (update k (doc_delete es' c) kv)
           | None => d
           end
    end
  | E_LIST_ELEMENT i :: es' =>
    let l := dlist_items d in
    let j := Z.to_nat i in
    match es' with
    | [] => DList (remove_nth j l)
    | _ => DList (set_nth j (doc_delete es' (nth j l DNull)) l)
    end
  | _ => DNull
  end.

(* ------------------------------------------------------------------ API level *)
Inductive dpayload := DPNone | DPStr (s : bytes) | DPKeys (ks : list bytes) | DPNode (d : doc).
Record doutcome := mkDOut { d_ret : Z; d_err : ecode; d_pay : dpayload }.
Definition dfail (e : ecode) := mkDOut (-1) e DPNone.
Definition dok0 := mkDOut 0 E0 DPNone.

Definition d_get_node (root : doc) (d : bytes) : ecode + doc :=
  match parse d with
  | None => inl EINVAL
  | Some (es, t, _) =>
    match doc_get es root with
    | inl e => inl e
    | inr n => if is_eof t then inr n else inl EINVAL
    end
  end.

Definition d_type (root : doc) (d : bytes) : doutcome :=
  match d_get_node root d with
  | inl e => dfail e
  | inr DNull => dfail E0
  | inr (DScalar _) => mkDOut 115 E0 DPNone
  | inr (DMap _) => mkDOut 109 E0 DPNone
  | inr (DList _) => mkDOut 108 E0 DPNone
  end.
Definition d_count (root : doc) (d : bytes) : doutcome :=
  match d_get_node root d with
  | inl e => dfail e
  | inr DNull => dfail E0
  | inr (DMap kv) => mkDOut (Z.of_nat (length kv)) E0 DPNone
  | inr (DList l) => mkDOut (Z.of_nat (length l)) E0 DPNone
  | inr (DScalar _) => dfail EINVAL
  end.
Definition d_keys (root : doc) (d : bytes) : doutcome :=
  match d_get_node root d with
  | inl e => dfail e
  | inr DNull => dfail E0
  | inr (DMap kv) => mkDOut 0 E0 (DPKeys (map fst kv))
  | inr _ => dfail EINVAL
  end.
Definition d_get (root : doc) (d : bytes) : doutcome :=
  match d_get_node root d with
  | inl e => dfail e
  | inr DNull => dfail E0
  | inr (DScalar v) => mkDOut 0 E0 (DPStr v)
  | inr _ => dfail EINVAL
  end.
Definition d_get_subtree (root : doc) (d : bytes) : doutcome :=
  match d_get_node root d with
  | inl e => dfail e
  | inr DNull => dfail E0
  | inr n => mkDOut 0 E0 (DPNode n)
  end.

Definition d_set (root : doc) (d : bytes) : doc * doutcome :=
  match parse d with
  | None => (root, dfail EINVAL)
  | Some (es, t, rest) =>
    let verdict : ecode + doc :=
        if last_is_collection es then inl EINVAL
        else match t with
             | T_ASSIGN => inr (DScalar rest)
             | T_HASH => inr DNull
             | _ => inl EINVAL
             end in
    match verdict with
    | inl e => (root, dfail e)                       (* refused: the document is unchanged *)
    | inr v =>
      let '(root', r) := doc_set es (fun _ => (v, tt)) root in
      match r with
      | inl e => (root', dfail e)
      | inr _ => (root', dok0)
      end
    end
  end.

Definition d_delete (root : doc) (d : bytes) : doc * doutcome :=
  match parse d with
  | None => (root, dfail EINVAL)
  | Some (es, t, _) =>
    match doc_get es root with
    | inl e => (root, dfail e)
    | inr _ => if is_eof t then (doc_delete es root, dok0) else (root, dfail EINVAL)
    end
  end.

Definition d_set_subtree_then {A} (root : doc) (d : bytes) (inner : doc -> doc * A) : doc * (ecode + A) :=
  match parse d with
  | None => (root, inl EINVAL)
  | Some (es, t, _) => if is_eof t then doc_set es inner root else (root, inl EINVAL)
  end.

Definition d_set_subtree (root : doc) (d : bytes) : doc * doutcome :=
  let '(root', r) := d_set_subtree_then root d (fun n => (n, tt)) in
  (root', match r with inl e => dfail e | inr _ => dok0 end).

(* vnaproperty_copy: "creates a deep copy of the property tree in source and places it in
   destination, replacing any existing content" *)
Definition d_copy (dest src : doc) : doc := src.

(* the aliased copy (source and destination in the same document): the path of d is conformed, the value
   at d2 is read in the conformed document (null when it is absent or d2 is an error), and that OLD value
   becomes the value at d; everything else is as in the conformed document *)
Definition d_source_of (r1 : doc) (d2 : bytes) : doc :=
  match d_get_node r1 d2 with inr n => n | inl _ => DNull end.

Record dstate := mkDState { ds_root : doc; ds_aux : doc }.
Definition d_init := mkDState DNull DNull.
Definition d_sub_outcome (r : ecode + doutcome) : doutcome :=
  match r with inl e => mkDOut (-2) e DPNone | inr o => o end.

Definition d_copy_within (root : doc) (d d2 : bytes) : doc * doutcome :=
  let '(r1, res1) := d_set_subtree_then root d (fun a => (a, tt)) in
  match res1 with
  | inl e => (r1, mkDOut (-2) e DPNone)
  | inr _ =>
    let '(r2, res2) := d_set_subtree_then root d (fun _ => (d_source_of r1 d2, dok0)) in
    (r2, d_sub_outcome res2)
  end.

Definition d_step (s : dstate) (o : op) : dstate * doutcome :=
  let root := ds_root s in
  let aux := ds_aux s in
  match o with
  | OSet d => let '(r', out) := d_set root d in (mkDState r' aux, out)
  | ODel d => let '(r', out) := d_delete root d in (mkDState r' aux, out)
  | OGet d => (s, d_get root d)
  | OType d => (s, d_type root d)
  | OCount d => (s, d_count root d)
  | OKeys d => (s, d_keys root d)
  | OGetSub d => (s, d_get_subtree root d)
  | OSetSub d => let '(r', out) := d_set_subtree root d in (mkDState r' aux, out)
  | OSubSet d d2 =>
    let '(r', res) := d_set_subtree_then root d (fun a => d_set a d2) in (mkDState r' aux, d_sub_outcome res)
  | OSubDel d d2 =>
    let '(r', res) := d_set_subtree_then root d (fun a => d_delete a d2) in (mkDState r' aux, d_sub_outcome res)
  | OCopyOut d =>
    let src := match d_get_node root d with inr n => n | inl _ => DNull end in
    (mkDState root (d_copy aux src), dok0)
  | OCopyIn d =>
    let '(r', res) := d_set_subtree_then root d (fun a => (d_copy a aux, dok0)) in
    (mkDState r' aux, d_sub_outcome res)
  | OCopyWithin d d2 => let '(r', out) := d_copy_within root d d2 in (mkDState r' aux, out)
  | OQuote k => (s, mkDOut 0 E0 (DPStr (quote_key k)))
  end.

Fixpoint d_run (s : dstate) (ops : list op) : dstate * list doutcome :=
  match ops with
  | [] => (s, [])
  | o :: r => let '(s1, out) := d_step s o in let '(s2, outs) := d_run s1 r in (s2, out :: outs)
  end.
