(* CopyProofs: vnaproperty_copy with source and destination in the same tree (after fix D71 the copy is
   built before the destination is released).  What the destination reads back as after
     p = set_subtree(&root, d); s = get_subtree(root, d2); vnaproperty_copy(p, s)
   for a source inside the destination, a destination inside the source, and in general. *)
Require Import List NArith ZArith Bool Lia.
Import ListNotations.
Require Import LV.PropTree.PropModel LV.PropTree.DocSpec LV.PropTree.PropProofs LV.PropTree.QuoteProofs
        LV.PropTree.RebuildProofs LV.PropTree.ApiProofs LV.PropTree.WfProofs.

Lemma vset_subtree_then_parsed {A} root d pd rd (inner : node -> node * A) :
  parse d = Some (pd, T_EOF, rd) -> vset_subtree_then root d inner = descend_set pd inner root.
Proof. intros H. unfold vset_subtree_then. now rewrite H. Qed.
Lemma fst_vset_subtree root d : fst (vset_subtree root d) = fst (vset_subtree_then root d (fun n => (n, tt))).
Proof. unfold vset_subtree. destruct (vset_subtree_then _ _ _). reflexivity. Qed.

(* [r1] = the tree after set_subtree(&root, d) alone.  For every destination path of keys and in-range
   subscripts and EVERY source descriptor d2 (inside, around, equal, elsewhere, absent, malformed): the
   call succeeds, the destination existed in r1 with some value a, and afterwards it holds a node whose
   document is the document of the source as it was in r1. *)
Theorem copy_within_reads_back root d d2 pd rd :
  wf root -> parse d = Some (pd, T_EOF, rd) -> Forall plain_step pd ->
  lens (fst (copy_within root d d2)) ->
  exists a c, descend_get pd (fst (vset_subtree root d)) = inr a /\
              descend_get pd (fst (copy_within root d d2)) = inr c /\
              abs c = abs (source_of (fst (vset_subtree root d)) d2) /\
              snd (copy_within root d d2) = ok0.
Proof.
  intros Hw Hp Hpl Hl. rewrite fst_vset_subtree.
  destruct (vset_subtree_then root d (fun n => (n, tt))) as [r1 res1] eqn:E. cbn [fst].
  pose proof E as E'. rewrite (vset_subtree_then_parsed _ _ _ _ _ Hp) in E'.
  destruct (descend_set_anchor pd (fun n => (n, tt)) root Hpl) as [a [A0 [A1 A2]]].
  rewrite E' in A1, A2. cbn [fst snd] in A1, A2. subst res1.
  pose proof (copy_within_conformed_wf root d d2 r1 tt Hw E Hl) as W1.
  rewrite (copy_within_ok _ _ _ _ _ E) in *.
  rewrite (vset_subtree_then_parsed _ _ _ _ _ Hp) in *.
  destruct (descend_set_anchor pd (fun x => (copy x (source_of r1 d2), ok0)) root Hpl) as [a' [B0 [B1 B2]]].
  destruct (descend_set pd (fun x => (copy x (source_of r1 d2), ok0)) root) as [r2 res2]. cbn [fst snd] in *.
  exists a, (copy a' (source_of r1 d2)). repeat split.
  - exact A1.
  - exact B1.
  - apply copy_abs. now apply source_of_wf.
  - rewrite B2. reflexivity.
Qed.

Lemma source_of_parsed r1 d2 ps rs :
  parse d2 = Some (ps, T_EOF, rs) ->
  source_of r1 d2 = match descend_get ps r1 with inr n => n | inl _ => NNull end.
Proof. intros H. unfold source_of, get_node. rewrite H. destruct (descend_get ps r1); reflexivity. Qed.

(* source inside the destination (d2 = d followed by more path): the destination becomes what was at the
   inner path below it (null when that did not exist); the rest of the old destination value is gone *)
Theorem copy_source_inside_destination root d d2 pd ps rd rs :
  wf root -> parse d = Some (pd, T_EOF, rd) -> Forall plain_step pd ->
  parse d2 = Some (pd ++ ps, T_EOF, rs) ->
  lens (fst (copy_within root d d2)) ->
  exists a c, descend_get pd (fst (vset_subtree root d)) = inr a /\
              descend_get pd (fst (copy_within root d d2)) = inr c /\
              abs c = abs (match descend_get ps a with inr n => n | inl _ => NNull end) /\
              snd (copy_within root d d2) = ok0.
Proof.
  intros Hw Hp Hpl Hp2 Hl.
  destruct (copy_within_reads_back root d d2 pd rd Hw Hp Hpl Hl) as [a [c [A [B [C D]]]]].
  exists a, c. repeat split; try assumption.
  rewrite C, (source_of_parsed _ _ _ _ Hp2), (descend_get_app pd ps _ Hpl), A. reflexivity.
Qed.

(* destination inside the source (d = d2 followed by more path): the destination becomes a snapshot of the
   whole old source s - one level, finite: inside the snapshot the destination path holds the OLD
   destination value a, not the snapshot again *)
Theorem copy_destination_inside_source root d d2 ps pd rd rs :
  wf root -> parse d2 = Some (ps, T_EOF, rs) -> parse d = Some (ps ++ pd, T_EOF, rd) ->
  Forall plain_step (ps ++ pd) ->
  lens (fst (copy_within root d d2)) ->
  exists s a c, descend_get ps (fst (vset_subtree root d)) = inr s /\
                descend_get pd s = inr a /\
                descend_get (ps ++ pd) (fst (copy_within root d d2)) = inr c /\
                abs c = abs s /\
                doc_get pd (abs c) = inr (abs a) /\
                snd (copy_within root d d2) = ok0.
Proof.
  intros Hw Hp2 Hp Hpl Hl.
  destruct (copy_within_reads_back root d d2 (ps ++ pd) rd Hw Hp Hpl Hl) as [a [c [A [B [C D]]]]].
  apply Forall_app in Hpl as [Hps Hpd].
  rewrite (descend_get_app ps pd _ Hps) in A.
  destruct (descend_get ps (fst (vset_subtree root d))) as [e|s] eqn:S; [discriminate|].
  rewrite (source_of_parsed _ _ _ _ Hp2), S in C.
  exists s, a, c. repeat split; try assumption; try reflexivity.
  rewrite C, sim_get, A. reflexivity.
Qed.

(* computed instances: root = { a: { b: "x", k: "y" } } *)
Definition ex_root : node := NMap [([97], NMap [([98], NScalar [120]); ([107], NScalar [121])])]%N.

Lemma ex_root_wf : wf ex_root.
Proof.
  unfold ex_root, wf, keys_ok. cbn [map fst].
  repeat match goal with
         | |- _ /\ _ => split
         | |- True => exact I
         | |- Forall _ [] => constructor
         | |- Forall _ (_ :: _) => constructor; [discriminate|]
         | |- NoDup [] => constructor
         | |- NoDup (_ :: _) => constructor; [cbn [In]; intros H; repeat (destruct H as [H|H]; [discriminate|]); exact H|]
         end.
Qed.

Example copy_source_inside_destination_example :
  wf ex_root /\ parse [97]%N = Some ([E_MAP_ELEMENT [97]%N], T_EOF, []) /\ Forall plain_step [E_MAP_ELEMENT [97]%N] /\
  parse [97; 46; 98]%N = Some ([E_MAP_ELEMENT [97]%N] ++ [E_MAP_ELEMENT [98]%N], T_EOF, []) /\
  lens (fst (copy_within ex_root [97]%N [97; 46; 98]%N)) /\
  copy_within ex_root [97]%N [97; 46; 98]%N = (NMap [([97]%N, NScalar [120]%N)], ok0).        (* { a: "x" } *)
Proof.
  split; [exact ex_root_wf|]. split; [vm_compute; reflexivity|]. split; [repeat constructor|].
  split; [vm_compute; reflexivity|]. split; [vm_compute; repeat split|vm_compute; reflexivity].
Qed.

Example copy_destination_inside_source_example :
  wf ex_root /\ parse [97]%N = Some ([E_MAP_ELEMENT [97]%N], T_EOF, []) /\
  parse [97; 46; 98]%N = Some ([E_MAP_ELEMENT [97]%N] ++ [E_MAP_ELEMENT [98]%N], T_EOF, []) /\
  Forall plain_step ([E_MAP_ELEMENT [97]%N] ++ [E_MAP_ELEMENT [98]%N]) /\
  lens (fst (copy_within ex_root [97; 46; 98]%N [97]%N)) /\
  copy_within ex_root [97; 46; 98]%N [97]%N                         (* { a: { b: { b: "x", k: "y" }, k: "y" } } *)
  = (NMap [([97], NMap [([98], NMap [([98], NScalar [120]); ([107], NScalar [121])]); ([107], NScalar [121])])]%N, ok0).
Proof.
  split; [exact ex_root_wf|]. split; [vm_compute; reflexivity|]. split; [vm_compute; reflexivity|].
  split; [repeat constructor|]. split; [vm_compute; repeat split|vm_compute; reflexivity].
Qed.

(* source = destination, a missing source (the destination becomes null), a destination created by an append
   whose source is the list it is appended to, a destination path that cannot be created (the source is not
   even looked up; the part of the path conformed so far stays, as for every set_subtree) *)
Example copy_within_more_examples :
  copy_within ex_root [97]%N [97]%N = (ex_root, ok0) /\
  copy_within ex_root [97; 46; 98]%N [113]%N
  = (NMap [([97], NMap [([98], NNull); ([107], NScalar [121])])]%N, ok0) /\
  copy_within (NList [NScalar [120]%N] 8) [91; 43; 93]%N [46]%N
  = (NList [NScalar [120]%N; NList [NScalar [120]%N; NNull] 8] 8, ok0) /\
  copy_within ex_root [122; 91; 50; 49; 52; 55; 52; 56; 51; 54; 52; 55; 93]%N [97]%N
  = (NMap [([97], NMap [([98], NScalar [120]); ([107], NScalar [121])]); ([122], NList [] 0)]%N, mkOut (-2) EINVAL PNone).
Proof. vm_compute. repeat split; reflexivity. Qed.
