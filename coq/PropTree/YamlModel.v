(* YamlModel: _vnaproperty_yaml_export / _vnaproperty_yaml_import of src/vnaproperty.c on an
   abstract YAML node tree.  libyaml's emitter and parser are not modelled: export stops at the
   document tree handed to yaml_emitter_dump (scalar bytes + the *requested* style), import starts
   from the document tree returned by yaml_parser_load (scalar bytes + the *parsed* style).
   No proofs in this file. *)
Require Import List NArith ZArith Bool.
Import ListNotations.
Require Import LV.PropTree.PropModel.
Open Scope N_scope.

Inductive ystyle := YPlain | YAny | YDouble | YLiteral.
(* any other parsed style (single-quoted, folded) behaves like YDouble for the importer: the
   only test is "style == YAML_PLAIN_SCALAR_STYLE" *)

Inductive ynode :=
| YScalar (v : bytes) (st : ystyle)
| YMapping (kv : list (ynode * ynode))
| YSequence (l : list ynode).

(* is_yaml_null_value: "~", "null", "Null", "NULL" *)
Definition is_yaml_null (s : bytes) : bool :=
  bytes_eqb s [126] || bytes_eqb s [110; 117; 108; 108] || bytes_eqb s [78; 117; 108; 108]
  || bytes_eqb s [78; 85; 76; 76].

Definition has_newline (s : bytes) : bool := existsb (fun c => c =? 10) s.

Definition scalar_style (v : bytes) : ystyle :=
  if has_newline v then YLiteral else if is_yaml_null v then YDouble else YAny.

(* _vnaproperty_yaml_export; map values are taken structurally (the C code looks each one up
   again with get_subtree(root, "%s", quote_key(key))) *)
Fixpoint yaml_export (n : node) : ynode :=
  match n with
  | NNull => YScalar [126] YPlain
  | NScalar v => YScalar v (scalar_style v)
  | NMap kv => YMapping (map (fun p => let '(k, v) := p in (YScalar (quote_key k) YAny, yaml_export v)) kv)
  | NList vec _ => YSequence (map yaml_export vec)
  end.

Definition is_plain (st : ystyle) : bool := match st with YPlain => true | _ => false end.

(* _vnaproperty_yaml_import y into the anchor holding [root]: (new node, success) *)
Fixpoint yaml_import (y : ynode) (root : node) : node * bool :=
  match y with
  | YScalar v st =>
    if is_yaml_null v && is_plain st then (root, true)        (* "root is already NULL" *)
    else let '(r, out) := vset root (46 :: 61 :: v) in (r, (o_ret out =? 0)%Z)
  | YMapping kv =>
    let '(r0, out0) := vset_subtree root [123; 125] in
    if negb (o_ret out0 =? 0)%Z then (r0, false)
    else
      fold_left
        (fun (st : node * bool) p =>
           let '(r, ok) := st in
           let '(k, v) := p in
           if negb ok then st
           else match k with
                | YScalar kb _ =>
                  let '(r', res) := vset_subtree_then r kb (fun a => yaml_import v a) in
                  (r', match res with inl _ => false | inr b => b end)
                | _ => st                                      (* non-scalar key: warning, skipped *)
                end)
        kv (r0, true)
  | YSequence l =>
    let '(r0, out0) := vset_subtree root [91; 93] in
    if negb (o_ret out0 =? 0)%Z then (r0, false)
    else
      let '(_, r, ok) :=
          fold_left
            (fun (st : nat * node * bool) v =>
               let '(i, r, ok) := st in
               if negb ok then st
               else let '(r', res) := vset_subtree_then r (index_desc i) (fun a => yaml_import v a) in
                    (S i, r', match res with inl _ => false | inr b => b end))
            l (O, r0, true) in
      (r, ok)
  end.

(* vnaproperty_import_yaml_from_string / _from_file once the parser has delivered a document (after fixes
   DP2 and DO90): the document is imported into a DETACHED, empty root (new_root = NULL); only when the
   whole import has succeeded is the old content of *rootptr released (_vnaproperty_free_tree) and the new
   tree installed.  A failed import frees the partial tree and leaves *rootptr as it was.  (Before DO90 the
   old content was deleted first and the document imported into *rootptr itself: see
   YamlFault.import_public_x_before_DO90 and the ..._refuted witnesses.) *)
Definition import_document (y : ynode) (root : node) : node * bool :=
  let '(r, ok) := yaml_import y NNull in
  if ok then (r, true) else (root, false).

(* The two public importers as coded (src/vnaproperty_import_yaml_from_file.c, _from_string.c; their
   bodies differ only in how the parser gets its input).  [yload] is what yaml_parser_load and
   yaml_document_get_root_node deliver:
     YSyntaxError     yaml_parser_load failed: error callback, return -1; *rootptr has not been touched
     YEmptyDocument   no root node ("empty YAML document"): error callback, return -1; *rootptr not touched
     YDocument y      _vnaproperty_yaml_import(y) into a detached empty root; on success the old content
                      is released - whatever the document is, the plain null "~" included - and the new
                      tree installed; if the import fails half way (a key that is not a descriptor), -1
                      is returned and *rootptr is exactly what it was.
   Result: the node left in *rootptr and success (return value 0).  Alias cycles and allocation
   failures are in the extended model YamlFault.v (import_public_x), which agrees with this one on
   alias-free documents without allocation failure (YamlFaultProofs.import_public_x_embed). *)
Inductive yload := YSyntaxError | YEmptyDocument | YDocument (y : ynode).

Definition import_public (l : yload) (root : node) : node * bool :=
  match l with
  | YSyntaxError | YEmptyDocument => (root, false)
  | YDocument y => import_document y root
  end.

(* one admissible behaviour of "emit then parse": every scalar that may come back plain does *)
Fixpoint yaml_rt_ideal (y : ynode) : ynode :=
  match y with
  | YScalar v st => YScalar v (match st with YAny => YPlain | s => s end)
  | YMapping kv => YMapping (map (fun p => let '(k, v) := p in (yaml_rt_ideal k, yaml_rt_ideal v)) kv)
  | YSequence l => YSequence (map yaml_rt_ideal l)
  end.

(* ------------------------------------------------------------------ a calibration file.
   vnacal_save writes the line "#VNACal 1.0" and one YAML document: the top-level mapping
     properties: _vnaproperty_yaml_export(vc_properties)      (always present: a NULL root is written as ~)
     calibrations: [ one mapping per calibration ]
   and per calibration the mapping  name, type, rows, columns, frequencies, z0,
     properties: _vnaproperty_yaml_export(cal_properties), data.
   The entries other than "name" and "properties" are abstract here ([c_pre], [c_post]: any
   keys different from those two, any values).

   vnacal_load (parse_document / parse_calibrations / parse_set of src/vnacal_load.c):
   - the first line must give a supported version, else the load fails;
   - parse_document: the root must be a mapping; pairs are taken in order, non-scalar keys are
     skipped; the value of every key "properties" is imported INTO vc_properties (so repeated
     keys merge), the value of every key "calibrations" (and "sets" when the major version is 0)
     goes to parse_calibrations; any other key is ignored;
   - parse_calibrations: must be a sequence; parse_set for every item in order;
   - parse_set: must be a mapping; the scalar fields are parsed and checked, the calibration is
     allocated ([pre_ok]); the value of the LAST key "properties" is imported into the new
     calibration's empty cal_properties; then parse_data ([post_ok]) and
     _vnacal_add_calibration_common, which stores the calibration under its name (the value of the
     last key "name"; none, or a non-scalar one, is an error) and REPLACES, in place, an earlier
     calibration of the same name.  pre_ok / post_ok stand for everything that is not the
     properties import or the name; they may depend on the calibrations held so far and on the
     whole mapping;
   - as soon as any step fails the function returns -1 up to vnacal_load, which frees the whole
     vnacal_t and returns NULL: nothing of a partially read file is ever returned. *)
Definition key_properties : bytes := [112; 114; 111; 112; 101; 114; 116; 105; 101; 115].
Definition key_calibrations : bytes := [99; 97; 108; 105; 98; 114; 97; 116; 105; 111; 110; 115].
Definition key_sets : bytes := [115; 101; 116; 115].
Definition key_name : bytes := [110; 97; 109; 101].

(* the first line of the file as vnacal_load classifies it: no "#VNACal M.m" / "#VNACAL 2.x|3.x"
   line or major > 1; major 0 (old "#VNACAL 2.x"); major 1 ("#VNACal 1.x", old "#VNACAL 3.x") *)
Inductive vline := VBad | VMajor0 | VMajor1.

Definition save_mapping (pre post : list (bytes * ynode)) (props : node) : ynode :=
  let mk := fun p : bytes * ynode => (YScalar (fst p) YAny, snd p) in
  YMapping (map mk pre ++ (YScalar key_properties YAny, yaml_export props) :: map mk post).

Record calrec := mkCal { c_name : bytes; c_pre : list (bytes * ynode); c_props : node; c_post : list (bytes * ynode) }.

Definition save_cal (c : calrec) : ynode :=
  save_mapping ((key_name, YScalar (c_name c) YAny) :: c_pre c) (c_post c) (c_props c).

(* the document vnacal_save hands to yaml_emitter_dump (its first line is VMajor1) *)
Definition save_file (g : node) (cals : list calrec) : ynode :=
  YMapping [(YScalar key_properties YAny, yaml_export g);
            (YScalar key_calibrations YAny, YSequence (map save_cal cals))].

Definition is_key (kb : bytes) (k : ynode) : bool :=
  match k with YScalar b _ => bytes_eqb b kb | _ => false end.
Definition is_properties_key (k : ynode) : bool := is_key key_properties k.

Definition last_properties (kv : list (ynode * ynode)) : option ynode :=
  fold_left (fun (found : option ynode) p => if is_properties_key (fst p) then Some (snd p) else found) kv None.

(* the name of the calibration: value of the last key "name"; None = a non-scalar value (error
   as soon as it is met) or no such key (missing required field) *)
Fixpoint cal_name_from (kv : list (ynode * ynode)) (cur : option bytes) : option bytes :=
  match kv with
  | [] => cur
  | p :: r =>
    if is_key key_name (fst p) then
      match snd p with
      | YScalar v _ => cal_name_from r (Some v)
      | _ => None
      end
    else cal_name_from r cur
  end.
Definition cal_name (kv : list (ynode * ynode)) : option bytes := cal_name_from kv None.

(* the calibration vector while a file is read: name -> (document node, cal_properties), in slot
   order.  _vnacal_add_calibration_common: same name = replace in place, else append (no slot is
   ever freed during a load). *)
Definition cal_vector := list (bytes * (ynode * node)).
Definition add_cal (nm : bytes) (e : ynode * node) (cals : cal_vector) : cal_vector :=
  match lookup nm cals with
  | Some _ => update nm e cals
  | None => cals ++ [(nm, e)]
  end.

(* everything of parse_set that is not the properties import or the name, as a function of the
   document nodes of the calibrations held so far and of the pairs of this calibration's mapping *)
Definition others := list ynode -> list (ynode * ynode) -> bool.

(* vc_properties and the calibration vector *)
Definition load_state := (node * cal_vector)%type.
Definition held (cals : cal_vector) : list ynode := map (fun e => fst (snd e)) cals.

Definition parse_set (pre_ok post_ok : others) (st : load_state) (y : ynode) : option load_state :=
  let '(g, cals) := st in
  match y with
  | YMapping kv =>
    match cal_name kv with
    | None => None
    | Some nm =>
      if negb (pre_ok (held cals) kv) then None
      else
        let '(r, ok) := match last_properties kv with
                        | Some v => yaml_import v NNull
                        | None => (NNull, true)
                        end in
        if negb ok then None
        else if negb (post_ok (held cals) kv) then None
        else Some (g, add_cal nm (y, r) cals)
    end
  | _ => None
  end.

Definition parse_calibrations (pre_ok post_ok : others) (st : load_state) (y : ynode) : option load_state :=
  match y with
  | YSequence l =>
    fold_left (fun (acc : option load_state) c =>
                 match acc with None => None | Some st' => parse_set pre_ok post_ok st' c end)
              l (Some st)
  | _ => None
  end.

Definition is_major0 (v : vline) : bool := match v with VMajor0 => true | _ => false end.

Definition parse_document (v : vline) (pre_ok post_ok : others) (y : ynode) : option load_state :=
  match y with
  | YMapping kv =>
    fold_left
      (fun (acc : option load_state) p =>
         match acc with
         | None => None
         | Some (g, cals) =>
           match fst p with
           | YScalar kb _ =>
             let st1 :=
                 if bytes_eqb kb key_properties then
                   let '(g', ok) := yaml_import (snd p) g in
                   if ok then Some (g', cals) else None
                 else Some (g, cals) in
             match st1 with
             | None => None
             | Some s1 =>
               if bytes_eqb kb key_calibrations || (is_major0 v && bytes_eqb kb key_sets)
               then parse_calibrations pre_ok post_ok s1 (snd p)
               else Some s1
             end
           | _ => acc                                        (* non-scalar key: skipped *)
           end
         end)
      kv (Some (NNull, []))
  | _ => None
  end.

(* vnacal_load: None = NULL returned (everything freed); Some (vc_properties, cal_properties of
   every calibration in slot order).  [v] = classification of the first line, [y] = the document
   returned by yaml_parser_load. *)
Definition load_file (v : vline) (pre_ok post_ok : others) (y : ynode) : option (node * list node) :=
  match v with
  | VBad => None
  | _ => match parse_document v pre_ok post_ok y with
         | Some (g, cals) => Some (g, map (fun e => snd (snd e)) cals)
         | None => None
         end
  end.

(* do all non-property steps succeed for the calibration nodes [ys], after [done]? *)
Fixpoint others_all_ok (pre_ok post_ok : others) (done ys : list ynode) : bool :=
  match ys with
  | [] => true
  | y :: r =>
    match y with YMapping kv => pre_ok done kv && post_ok done kv | _ => false end
    && others_all_ok pre_ok post_ok (done ++ [y]) r
  end.
