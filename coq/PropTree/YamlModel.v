(* YamlModel: _vnaproperty_yaml_export / _vnaproperty_yaml_import of src/vnaproperty.c on an
   abstract YAML node tree.  libyaml's emitter and parser are not modelled: export stops at the
   document tree handed to yaml_emitter_dump (scalar bytes + the *requested* style), import starts
   from the document tree returned by yaml_parser_load (scalar bytes + the *parsed* style).
   No proofs in this file. *)
Require Import List NArith ZArith Bool.
Import ListNotations.
Require Import LV.PropTree.PropModel.
Open Scope N_scope.

Inductive ystyle := YPlain | YAny | YDouble | YLiteral.
(* any other parsed style (single-quoted, folded) behaves like YDouble for the importer: the
   only test is "style == YAML_PLAIN_SCALAR_STYLE" *)

Inductive ynode :=
| YScalar (v : bytes) (st : ystyle)
| YMapping (kv : list (ynode * ynode))
| YSequence (l : list ynode).

(* is_yaml_null_value: "~", "null", "Null", "NULL" *)
Definition is_yaml_null (s : bytes) : bool :=
  bytes_eqb s [126] || bytes_eqb s [110; 117; 108; 108] || bytes_eqb s [78; 117; 108; 108]
  || bytes_eqb s [78; 85; 76; 76].

Definition has_newline (s : bytes) : bool := existsb (fun c => c =? 10) s.

Definition scalar_style (v : bytes) : ystyle :=
  if has_newline v then YLiteral else if is_yaml_null v then YDouble else YAny.

(* _vnaproperty_yaml_export; map values are taken structurally (the C code looks each one up
   again with get_subtree(root, "%s", quote_key(key))) *)
Fixpoint yaml_export (n : node) : ynode :=
  match n with
  | NNull => YScalar [126] YPlain
  | NScalar v => YScalar v (scalar_style v)
  | NMap kv => YMapping (map (fun p => let '(k, v) := p in (YScalar (quote_key k) YAny, yaml_export v)) kv)
  | NList vec _ => YSequence (map yaml_export vec)
  end.

Definition is_plain (st : ystyle) : bool := match st with YPlain => true | _ => false end.

(* _vnaproperty_yaml_import y into the anchor holding [root]: (new node, success) *)
Fixpoint yaml_import (y : ynode) (root : node) : node * bool :=
  match y with
  | YScalar v st =>
    if is_yaml_null v && is_plain st then (root, true)        (* "root is already NULL" *)
    else let '(r, out) := vset root (46 :: 61 :: v) in (r, (o_ret out =? 0)%Z)
  | YMapping kv =>
    let '(r0, out0) := vset_subtree root [123; 125] in
    if negb (o_ret out0 =? 0)%Z then (r0, false)
    else
      fold_left
        (fun (st : node * bool) p =>
           let '(r, ok) := st in
           let '(k, v) := p in
           if negb ok then st
           else match k with
                | YScalar kb _ =>
                  let '(r', res) := vset_subtree_then r kb (fun a => yaml_import v a) in
                  (r', match res with inl _ => false | inr b => b end)
                | _ => st                                      (* non-scalar key: warning, skipped *)
                end)
        kv (r0, true)
  | YSequence l =>
    let '(r0, out0) := vset_subtree root [91; 93] in
    if negb (o_ret out0 =? 0)%Z then (r0, false)
    else
      let '(_, r, ok) :=
          fold_left
            (fun (st : nat * node * bool) v =>
               let '(i, r, ok) := st in
               if negb ok then st
               else let '(r', res) := vset_subtree_then r (index_desc i) (fun a => yaml_import v a) in
                    (S i, r', match res with inl _ => false | inr b => b end))
            l (O, r0, true) in
      (r, ok)
  end.

(* vnaproperty_import_yaml_from_string / _from_file (after fix DP2): the existing content of the
   root is deleted, then the document is imported *)
Definition import_document (y : ynode) (root : node) : node * bool :=
  yaml_import y (fst (vdelete root dot)).

(* one admissible behaviour of "emit then parse": every scalar that may come back plain does *)
Fixpoint yaml_rt_ideal (y : ynode) : ynode :=
  match y with
  | YScalar v st => YScalar v (match st with YAny => YPlain | s => s end)
  | YMapping kv => YMapping (map (fun p => let '(k, v) := p in (yaml_rt_ideal k, yaml_rt_ideal v)) kv)
  | YSequence l => YSequence (map yaml_rt_ideal l)
  end.

(* ------------------------------------------------------------------ properties inside a calibration file.
   vnacal_save adds the pair "properties" -> _vnaproperty_yaml_export(root) to the top-level mapping
   (global properties, always present: a NULL root is written as ~) and to every calibration's
   mapping; the other pairs of those mappings (version, calibrations, name, type, data ...) are
   abstract here.  vnacal_load: parse_document imports the value of every scalar key equal to
   "properties" into vc_properties, in order; parse_calibration remembers the value of the last
   such key and imports it into the new calibration's cal_properties. *)
Definition key_properties : bytes := [112; 114; 111; 112; 101; 114; 116; 105; 101; 115].

Definition save_mapping (pre post : list (bytes * ynode)) (props : node) : ynode :=
  let mk := fun p : bytes * ynode => (YScalar (fst p) YAny, snd p) in
  YMapping (map mk pre ++ (YScalar key_properties YAny, yaml_export props) :: map mk post).

Definition is_properties_key (k : ynode) : bool :=
  match k with YScalar kb _ => bytes_eqb kb key_properties | _ => false end.

Definition load_global_properties (y : ynode) (root : node) : node * bool :=
  match y with
  | YMapping kv =>
    fold_left (fun (st : node * bool) p =>
                 let '(r, ok) := st in
                 if negb ok then st
                 else if is_properties_key (fst p) then yaml_import (snd p) r else st)
              kv (root, true)
  | _ => (root, false)
  end.

Definition load_calibration_properties (y : ynode) : node * bool :=
  match y with
  | YMapping kv =>
    match fold_left (fun (found : option ynode) p => if is_properties_key (fst p) then Some (snd p) else found)
                    kv None with
    | Some v => yaml_import v NNull
    | None => (NNull, true)
    end
  | _ => (NNull, false)
  end.
