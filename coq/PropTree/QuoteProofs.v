(* QuoteProofs: vnaproperty_quote_key turns every non-empty key into a descriptor component that
   the scanner reads back as exactly that key (whatever bytes it contains), the parser facts
   built on it, and the shape of the descriptor grammar's errors. *)
Require Import List NArith ZArith Bool Lia.
Import ListNotations.
Require Import LV.PropTree.PropModel.
Open Scope N_scope.

(* ------------------------------------------------------------------ character classes *)
Lemma idchar1_cases h :
  is_idchar1 h = true ->
  (65 <= h /\ h <= 90) \/ (97 <= h /\ h <= 122) \/ 128 <= h \/ h = 95 \/ h = 92.
Proof.
  unfold is_idchar1, is_alpha. rewrite !orb_true_iff, !andb_true_iff, !N.leb_le, !N.eqb_eq. tauto.
Qed.

Lemma idchar_cases h :
  is_idchar h = true ->
  (65 <= h /\ h <= 90) \/ (97 <= h /\ h <= 122) \/ (48 <= h /\ h <= 57) \/ 128 <= h \/ h = 32
  \/ h = 95 \/ h = 45 \/ h = 92.
Proof.
  unfold is_idchar, is_alpha, is_digit. rewrite !orb_true_iff, !andb_true_iff, !N.leb_le, !N.eqb_eq. tauto.
Qed.

Lemma idchar1_idchar h : is_idchar1 h = true -> is_idchar h = true.
Proof.
  unfold is_idchar1, is_idchar. rewrite !orb_true_iff. tauto.
Qed.

Lemma scan_unfold c r :
  scan (c :: r) =
  if is_ws c then scan r
  else if c =? 35 then (T_HASH, r)
  else if c =? 43 then (T_PLUS, r)
  else if c =? 46 then (T_DOT, r)
  else if c =? 61 then (T_ASSIGN, r)
  else if c =? 91 then (T_LBRACKET, r)
  else if c =? 93 then (T_RBRACKET, r)
  else if c =? 123 then (T_LCURLY, r)
  else if c =? 125 then (T_RCURLY, r)
  else if is_digit c then
    let '(v, rest) := span_digits (c :: r) 0%Z in (T_INT (to_int v), rest)
  else if is_idchar1 c then
    match id_loop (c :: r) 0 [] 0 with
    | None => (T_ERROR, [])
    | Some (d, p, rest) => (T_ID (rev (trim d p)), rest)
    end
  else (T_ERROR, c :: r).
Proof. reflexivity. Qed.

Lemma scan_idstart h s :
  is_idchar1 h = true ->
  scan (h :: s) = match id_loop (h :: s) 0 [] 0 with
                  | None => (T_ERROR, [])
                  | Some (d, p, rest) => (T_ID (rev (trim d p)), rest)
                  end.
Proof.
  intros H. rewrite scan_unfold, H. pose proof (idchar1_cases h H) as C.
  assert (W : is_ws h = false).
  { unfold is_ws. rewrite !orb_false_iff. repeat split; apply N.eqb_neq; lia. }
  assert (D : is_digit h = false).
  { unfold is_digit. destruct (N.leb_spec 48 h); destruct (N.leb_spec h 57); simpl; try reflexivity; lia. }
  rewrite W, D.
  replace (h =? 35) with false by (symmetry; apply N.eqb_neq; lia).
  replace (h =? 43) with false by (symmetry; apply N.eqb_neq; lia).
  replace (h =? 46) with false by (symmetry; apply N.eqb_neq; lia).
  replace (h =? 61) with false by (symmetry; apply N.eqb_neq; lia).
  replace (h =? 91) with false by (symmetry; apply N.eqb_neq; lia).
  replace (h =? 93) with false by (symmetry; apply N.eqb_neq; lia).
  replace (h =? 123) with false by (symmetry; apply N.eqb_neq; lia).
  replace (h =? 125) with false by (symmetry; apply N.eqb_neq; lia).
  reflexivity.
Qed.

(* ------------------------------------------------------------------ the identifier loop on a quoted key *)
(* (source index, protected index) after the loop has consumed the quoted form of k' *)
Fixpoint walk (len ts i : nat) (k : bytes) (src prot : nat) : nat * nat :=
  match k with
  | [] => (src, prot)
  | c :: r => if special len ts i c then walk len ts (S i) r (S (S src)) (S src)
              else walk len ts (S i) r (S src) prot
  end.

Definition stops (r : bytes) : Prop := match r with [] => True | c :: _ => is_idchar c = false end.

Lemma special_false len ts i c :
  special len ts i c = false -> is_idchar c = true /\ (c =? 92) = false.
Proof.
  unfold special. rewrite orb_false_iff. intros [H _].
  destruct (Nat.eqb i 0); apply orb_false_iff in H as [H1 H2]; apply negb_false_iff in H1; split; auto.
  now apply idchar1_idchar.
Qed.

Lemma id_loop_quoted len ts : forall k i r src dest prot,
    stops r ->
    id_loop (quote_from len ts i k ++ r) src dest prot
    = Some (rev k ++ dest, snd (walk len ts i k src prot), r).
Proof.
  induction k as [|c k IH]; intros i r src dest prot Hr.
  - simpl. destruct r as [|c r]; [reflexivity|]. simpl in Hr. simpl. now rewrite Hr.
  - cbn [quote_from walk]. destruct (special len ts i c) eqn:Hs.
    + change (([92; c] ++ quote_from len ts (S i) k) ++ r) with (92 :: c :: quote_from len ts (S i) k ++ r).
      cbn [id_loop]. change (is_idchar 92) with true. change (92 =? 92) with true. cbn [negb].
      rewrite IH by assumption. simpl. now rewrite <- app_assoc.
    + destruct (special_false _ _ _ _ Hs) as [Hi H92].
      change (([c] ++ quote_from len ts (S i) k) ++ r) with (c :: quote_from len ts (S i) k ++ r).
      cbn [id_loop]. rewrite Hi, H92. cbn [negb].
      rewrite IH by assumption. simpl. now rewrite <- app_assoc.
Qed.

Lemma walk_src_ge len ts : forall k i src prot, (src + length k <= fst (walk len ts i k src prot))%nat.
Proof.
  induction k as [|c k IH]; intros i src prot; simpl; [lia|].
  destruct (special len ts i c).
  - specialize (IH (S i) (S (S src)) (S src)). lia.
  - specialize (IH (S i) (S src) prot). lia.
Qed.

(* when the last character is escaped the protected index is the last source index *)
Lemma walk_last_special len ts : forall k i src prot c,
    special len ts (i + length k) c = true ->
    S (snd (walk len ts i (k ++ [c]) src prot)) = fst (walk len ts i (k ++ [c]) src prot)
    /\ (src + length k + 2 <= fst (walk len ts i (k ++ [c]) src prot))%nat.
Proof.
  induction k as [|d k IH]; intros i src prot c Hs.
  - simpl in *. rewrite Nat.add_0_r in Hs. rewrite Hs. simpl. lia.
  - simpl. simpl length in Hs. replace (i + S (length k))%nat with (S i + length k)%nat in Hs by lia.
    destruct (special len ts i d).
    + destruct (IH (S i) (S (S src)) (S src) c Hs). split; [assumption|]. simpl in *. lia.
    + destruct (IH (S i) (S src) prot c Hs). split; [assumption|]. simpl in *. lia.
Qed.

(* a final space is always escaped *)
Lemma last_space_special k :
  special (length (k ++ [32])) (trailing_spaces (rev (k ++ [32])) (length (k ++ [32]))) (length k) 32 = true.
Proof.
  rewrite rev_app_distr, app_length. simpl rev. cbn [app length].
  replace (length k + 1)%nat with (S (length k)) by lia.
  unfold special. destruct (length k) eqn:E.
  - reflexivity.
  - apply orb_true_iff. right. apply Nat.leb_le.
    cbn [trailing_spaces]. replace (Nat.ltb 1 (S (S n))) with true by reflexivity.
    change (32 =? 32) with true. cbn [andb]. lia.
Qed.

Lemma trim_nospace c d p : (c =? 32) = false -> trim (c :: d) p = c :: d.
Proof. intros H. simpl. rewrite H. now rewrite andb_false_r. Qed.
Lemma trim_protected c d p : (length d <= p)%nat -> trim (c :: d) p = c :: d.
Proof.
  intros H. simpl. replace (Nat.ltb p (length d)) with false; [reflexivity|].
  symmetry. apply Nat.ltb_ge. exact H.
Qed.

(* ------------------------------------------------------------------ main scanner theorem *)
Theorem scan_quote_key k r :
  k <> [] -> stops r -> scan (quote_key k ++ r) = (T_ID k, r).
Proof.
  intros Hk Hr. unfold quote_key.
  set (len := length k). set (ts := trailing_spaces (rev k) len).
  assert (Hloop := id_loop_quoted len ts k 0 r 0 [] 0 Hr). rewrite app_nil_r in Hloop.
  assert (Hscan : scan (quote_from len ts 0 k ++ r) =
                  (T_ID (rev (trim (rev k) (snd (walk len ts 0 k 0 0)))), r)).
  { destruct k as [|c k']; [congruence|].
    cbn [quote_from] in *. destruct (special len ts 0 c) eqn:Hs.
    - change (([92; c] ++ quote_from len ts 1 k') ++ r) with (92 :: (c :: quote_from len ts 1 k' ++ r)) in *.
      rewrite scan_idstart by reflexivity. now rewrite Hloop.
    - change (([c] ++ quote_from len ts 1 k') ++ r) with (c :: (quote_from len ts 1 k' ++ r)) in *.
      unfold special in Hs. apply orb_false_iff in Hs as [Hs _]. cbn [Nat.eqb] in Hs.
      apply orb_false_iff in Hs as [Hs _]. apply negb_false_iff in Hs.
      rewrite scan_idstart by assumption. now rewrite Hloop. }
  rewrite Hscan. f_equal. f_equal.
  (* no trimming happens *)
  destruct (@exists_last _ k Hk) as [k0 [c Ek]].
  assert (Hrev : rev k = c :: rev k0) by (subst k; now rewrite rev_app_distr).
  rewrite Hrev. destruct (c =? 32) eqn:Hc.
  - apply N.eqb_eq in Hc. subst c.
    assert (Hsp : special len ts (0 + length k0) 32 = true).
    { subst len ts. rewrite Ek. apply last_space_special. }
    destruct (walk_last_special len ts k0 0 0 0 32 Hsp) as [H1 H2]. rewrite <- Ek in H1, H2.
    rewrite trim_protected; [|rewrite rev_length; lia].
    rewrite <- Hrev. apply rev_involutive.
  - rewrite trim_nospace by assumption. rewrite <- Hrev. apply rev_involutive.
Qed.

(* ------------------------------------------------------------------ parser corollaries *)
Lemma scan_nil : scan [] = (T_EOF, []).
Proof. reflexivity. Qed.

Theorem parse_quote_key k :
  k <> [] -> parse (quote_key k) = Some ([E_MAP_ELEMENT k], T_EOF, []).
Proof.
  intros Hk. unfold parse.
  rewrite <- (app_nil_r (quote_key k)) at 1. rewrite scan_quote_key by (auto; exact I).
  reflexivity.
Qed.

(* with a suffix that starts with a delimiter the key is still read exactly; the remaining
   parse is that of the suffix in state "chain" *)
Theorem parse_quote_key_suffix k r :
  k <> [] -> stops r ->
  parse (quote_key k ++ r)
  = let '(t1, r1) := scan r in parse_loop (S (length (quote_key k ++ r))) P2 t1 r1 [E_MAP_ELEMENT k].
Proof.
  intros Hk Hr. unfold parse. rewrite scan_quote_key by assumption. reflexivity.
Qed.

Theorem parse_quote_key_assign k v :
  k <> [] -> parse (quote_key k ++ 61 :: v) = Some ([E_MAP_ELEMENT k], T_ASSIGN, v).
Proof.
  intros Hk. rewrite parse_quote_key_suffix by (auto; reflexivity). reflexivity.
Qed.
Theorem parse_quote_key_hash k v :
  k <> [] -> parse (quote_key k ++ 35 :: v) = Some ([E_MAP_ELEMENT k], T_HASH, v).
Proof.
  intros Hk. rewrite parse_quote_key_suffix by (auto; reflexivity). reflexivity.
Qed.
Theorem parse_quote_key_dot k :
  k <> [] -> parse (quote_key k ++ [46]) = Some ([E_MAP_ELEMENT k; E_DOT], T_EOF, []).
Proof.
  intros Hk. rewrite parse_quote_key_suffix by (auto; reflexivity).
  rewrite app_length, Nat.add_1_r. reflexivity.
Qed.
Theorem parse_quote_key_map k :
  k <> [] -> parse (quote_key k ++ [123; 125]) = Some ([E_MAP_ELEMENT k; E_MAP], T_EOF, []).
Proof.
  intros Hk. rewrite parse_quote_key_suffix by (auto; reflexivity). reflexivity.
Qed.
Lemma quote_key_nonempty k : k <> [] -> exists c q, quote_key k = c :: q.
Proof.
  destruct k as [|c k]; [congruence|]. intros _. unfold quote_key. cbn [quote_from].
  destruct (special _ _ 0 c); simpl; eauto.
Qed.

Theorem parse_quote_key_two k k2 :
  k <> [] -> k2 <> [] ->
  parse (quote_key k ++ 46 :: quote_key k2) = Some ([E_MAP_ELEMENT k; E_MAP_ELEMENT k2], T_EOF, []).
Proof.
  intros Hk Hk2. rewrite parse_quote_key_suffix by (auto; reflexivity).
  rewrite scan_unfold. change (is_ws 46) with false. change (46 =? 35) with false.
  change (46 =? 43) with false. change (46 =? 46) with true. cbv iota.
  rewrite app_length. cbn [length parse_loop].
  rewrite <- (app_nil_r (quote_key k2)) at 1. rewrite scan_quote_key by (auto; exact I).
  replace (length (quote_key k) + S (length (quote_key k2)))%nat
    with (S (length (quote_key k) + length (quote_key k2)))%nat by lia.
  destruct (quote_key_nonempty k2 Hk2) as [c [q E]]. rewrite E.
  simpl length. rewrite Nat.add_succ_r. reflexivity.
Qed.

(* keys that need no quoting are returned unchanged *)
Definition plain_key (k : bytes) : Prop :=
  forall len ts, ts = O -> quote_from len ts 0 k = k.

(* ------------------------------------------------------------------ identifiers written without
   backslashes: trailing spaces before a delimiter are not part of the key, inner spaces are *)
Lemma id_loop_plain : forall s r src dest prot,
    Forall (fun c => is_idchar c = true /\ (c =? 92) = false) s -> stops r ->
    id_loop (s ++ r) src dest prot = Some (rev s ++ dest, prot, r).
Proof.
  induction s as [|c s IH]; intros r src dest prot Hs Hr.
  - simpl. destruct r as [|c r]; [reflexivity|]. simpl in Hr. simpl. now rewrite Hr.
  - inversion Hs as [|? ? [Hc H92] Hs']; subst. cbn [app id_loop]. rewrite Hc, H92. cbn [negb].
    rewrite IH by assumption. simpl. now rewrite <- app_assoc.
Qed.

Lemma repeat_snoc {A} (x : A) n : repeat x n ++ [x] = x :: repeat x n.
Proof. induction n; simpl; [reflexivity|now rewrite IHn]. Qed.
Lemma rev_repeat' {A} (x : A) n : rev (repeat x n) = repeat x n.
Proof. induction n; simpl; [reflexivity|]. rewrite IHn. apply repeat_snoc. Qed.

Lemma trim_spaces : forall n c d, (c =? 32) = false -> trim (repeat 32 n ++ c :: d) 0 = c :: d.
Proof.
  induction n as [|n IH]; intros c d Hc.
  - simpl. rewrite Hc. now rewrite andb_false_r.
  - cbn [repeat app trim]. rewrite app_length. cbn [length].
    replace (Nat.ltb 0 (length (repeat 32 n) + S (length d))) with true
      by (symmetry; apply Nat.ltb_lt; lia).
    change (32 =? 32) with true. cbn [andb]. now apply IH.
Qed.

Theorem plain_trailing_spaces_trimmed c0 k l n r :
  is_idchar1 c0 = true -> (c0 =? 92) = false ->
  Forall (fun c => is_idchar c = true /\ (c =? 92) = false) (k ++ [l]) -> (l =? 32) = false ->
  stops r ->
  scan ((c0 :: k ++ [l]) ++ repeat 32 n ++ r) = (T_ID (c0 :: k ++ [l]), r).
Proof.
  intros H1 H92 Hk Hl Hr.
  change ((c0 :: k ++ [l]) ++ repeat 32 n ++ r) with (c0 :: ((k ++ [l]) ++ repeat 32 n ++ r)).
  rewrite scan_idstart by assumption.
  change (c0 :: ((k ++ [l]) ++ repeat 32 n ++ r)) with ((c0 :: k ++ [l]) ++ repeat 32 n ++ r).
  rewrite app_assoc.
  rewrite id_loop_plain; [| |assumption].
  - rewrite app_nil_r, rev_app_distr, rev_repeat'.
    change (c0 :: k ++ [l]) with ([c0] ++ (k ++ [l])). rewrite rev_app_distr, rev_app_distr.
    cbn [rev app]. rewrite trim_spaces by assumption.
    cbn [rev]. rewrite rev_app_distr, rev_involutive. reflexivity.
  - apply Forall_app. split.
    + constructor; [split; [now apply idchar1_idchar|assumption]|assumption].
    + clear. induction n; simpl; constructor; auto.
Qed.

(* observation D35: after k escapes up to k unescaped trailing spaces survive the trim
   ("\.\.a  " scans as the key "..a " with one trailing space); quote_key never relies on this *)
Example trim_after_escapes_example :
  scan [92; 46; 92; 46; 97; 32; 32] = (T_ID [46; 46; 97; 32], []).
Proof. vm_compute. reflexivity. Qed.
