(* YamlTextProofs: facts about the text class and the model emitter of YamlText.v
   - the predicate valid_utf8_no_nul is not trivial (Examples);
   - vnaproperty_quote_key keeps a text valid (it only inserts backslashes before ASCII bytes);
   - the model parser reads back what the model emitter writes, for every byte string;
   - rt_quote meets the hypotheses that Properties_C14 makes about libyaml. *)
Require Import List NArith ZArith Bool Lia.
Import ListNotations.
Require Import LV.PropTree.PropModel LV.PropTree.QuoteProofs LV.PropTree.RebuildProofs LV.PropTree.YamlModel
        LV.PropTree.YamlText.
Open Scope N_scope.

(* ------------------------------------------------------------------ the predicate is not trivial *)
Example utf8_rejects_nul_and_nonbyte : valid_utf8_no_nul [0; 300] = false.
Proof. reflexivity. Qed.
Example utf8_rejects_nul : valid_utf8_no_nul [97; 0; 98] = false.
Proof. reflexivity. Qed.
Example utf8_rejects_nonbyte : valid_utf8_no_nul [97; 300] = false.
Proof. reflexivity. Qed.
Example utf8_rejects_lone_continuation : valid_utf8_no_nul [97; 128] = false.
Proof. reflexivity. Qed.
Example utf8_rejects_truncated : valid_utf8_no_nul [226; 128] = false.
Proof. reflexivity. Qed.
Example utf8_rejects_overlong2 : valid_utf8_no_nul [192; 175] = false.          (* C0 AF = overlong '/' *)
Proof. reflexivity. Qed.
Example utf8_rejects_overlong3 : valid_utf8_no_nul [224; 159; 191] = false.     (* E0 9F BF = overlong U+07FF *)
Proof. reflexivity. Qed.
Example utf8_rejects_overlong4 : valid_utf8_no_nul [240; 143; 191; 191] = false. (* F0 8F BF BF = overlong U+FFFF *)
Proof. reflexivity. Qed.
Example utf8_rejects_surrogate : valid_utf8_no_nul [237; 160; 128] = false.      (* ED A0 80 = U+D800 *)
Proof. reflexivity. Qed.
Example utf8_rejects_above_max : valid_utf8_no_nul [244; 144; 128; 128] = false. (* F4 90 80 80 = U+110000 *)
Proof. reflexivity. Qed.
Example utf8_rejects_f5 : valid_utf8_no_nul [245; 128; 128; 128] = false.
Proof. reflexivity. Qed.
Example utf8_accepts_empty : valid_utf8_no_nul [] = true.
Proof. reflexivity. Qed.
(* ASCII punctuation  ~ : - # ' dquote \ [ ] { } ! & * % @ ` space TAB LF DEL SOH *)
Example utf8_accepts_ascii :
  valid_utf8_no_nul [126; 58; 32; 45; 32; 35; 39; 34; 92; 91; 93; 123; 125; 33; 38; 42; 37; 64; 96; 9; 10; 127; 1] = true.
Proof. reflexivity. Qed.
Example utf8_accepts_nel : valid_utf8_no_nul [194; 133] = true.                  (* U+0085 *)
Proof. reflexivity. Qed.
Example utf8_accepts_ls : valid_utf8_no_nul [226; 128; 168] = true.              (* U+2028 *)
Proof. reflexivity. Qed.
Example utf8_accepts_bom : valid_utf8_no_nul [239; 187; 191] = true.             (* U+FEFF *)
Proof. reflexivity. Qed.
Example utf8_accepts_4byte : valid_utf8_no_nul [240; 159; 152; 128] = true.      (* U+1F600 *)
Proof. reflexivity. Qed.
Example utf8_accepts_max : valid_utf8_no_nul [244; 143; 191; 191] = true.        (* U+10FFFF *)
Proof. reflexivity. Qed.
Example utf8_accepts_d7ff_e000 : valid_utf8_no_nul [237; 159; 191; 238; 128; 128] = true.
Proof. reflexivity. Qed.

(* the examples above in one statement (cited by Properties_C14) *)
Lemma text_class_not_trivial :
  (valid_utf8_no_nul [0; 300] = false                       (* NUL, and an element that is not a byte *)
   /\ valid_utf8_no_nul [97; 0; 98] = false                 (* NUL *)
   /\ valid_utf8_no_nul [97; 128] = false                   (* lone continuation byte *)
   /\ valid_utf8_no_nul [226; 128] = false                  (* truncated sequence *)
   /\ valid_utf8_no_nul [192; 175] = false                  (* overlong 2-byte form *)
   /\ valid_utf8_no_nul [224; 159; 191] = false             (* overlong 3-byte form *)
   /\ valid_utf8_no_nul [240; 143; 191; 191] = false        (* overlong 4-byte form *)
   /\ valid_utf8_no_nul [237; 160; 128] = false             (* surrogate U+D800 *)
   /\ valid_utf8_no_nul [244; 144; 128; 128] = false)       (* U+110000 *)
  /\
  (valid_utf8_no_nul [] = true
   /\ valid_utf8_no_nul [126; 58; 32; 45; 32; 35; 39; 34; 92; 91; 93; 123; 125; 33; 38; 42; 37; 64; 96; 9; 10; 127; 1] = true
   /\ valid_utf8_no_nul [194; 133] = true                   (* NEL *)
   /\ valid_utf8_no_nul [226; 128; 168] = true              (* LS *)
   /\ valid_utf8_no_nul [239; 187; 191] = true              (* BOM *)
   /\ valid_utf8_no_nul [240; 159; 152; 128] = true         (* U+1F600 *)
   /\ valid_utf8_no_nul [244; 143; 191; 191] = true).       (* U+10FFFF *)
Proof. vm_compute. repeat split; reflexivity. Qed.

(* ------------------------------------------------------------------ quote_key keeps validity *)
Lemma in_range_spec lo hi c : in_range lo hi c = true <-> lo <= c /\ c <= hi.
Proof. unfold in_range. rewrite andb_true_iff, !N.leb_le. tauto. Qed.

Lemma in_range_false_lt lo hi c : c < lo -> in_range lo hi c = false.
Proof.
  intros H. unfold in_range. destruct (N.leb_spec lo c); [lia|reflexivity].
Qed.

(* an ASCII byte is accepted only between characters, and leaves the automaton there *)
Lemma utf8_step_ascii s c s' : c < 128 -> utf8_step s c = Some s' -> s = U0 /\ s' = U0.
Proof.
  intros Hc H. destruct s; cbn [utf8_step] in H.
  - destruct (in_range 1 127 c) eqn:E; [inversion H; auto|].
    rewrite !in_range_false_lt in H by lia.
    repeat match type of H with
           | context [?a =? ?b] => replace (a =? b) with false in H by (symmetry; apply N.eqb_neq; lia)
           end.
    discriminate.
  - rewrite in_range_false_lt in H by lia; discriminate.
  - rewrite in_range_false_lt in H by lia; discriminate.
  - rewrite in_range_false_lt in H by lia; discriminate.
  - rewrite in_range_false_lt in H by lia; discriminate.
  - rewrite in_range_false_lt in H by lia; discriminate.
  - rewrite in_range_false_lt in H by lia; discriminate.
  - rewrite in_range_false_lt in H by lia; discriminate.
Qed.

Lemma utf8_step_backslash : utf8_step U0 92 = Some U0.
Proof. reflexivity. Qed.

(* inserting a backslash before ASCII bytes only *)
Lemma utf8_run_quote_from len ts : forall k i s s',
    (forall j c, nth_error k j = Some c -> special len ts (i + j) c = true -> c < 128) ->
    utf8_run s k = Some s' -> utf8_run s (quote_from len ts i k) = Some s'.
Proof.
  induction k as [|c k IH]; intros i s s' Hsp Hr; [exact Hr|].
  cbn [quote_from]. cbn [utf8_run] in Hr.
  destruct (utf8_step s c) as [s1|] eqn:E1; [|discriminate].
  assert (Hk : forall j d, nth_error k j = Some d -> special len ts (S i + j) d = true -> d < 128).
  { intros j d Hn Hs. apply (Hsp (S j) d); [exact Hn|]. now rewrite Nat.add_succ_r. }
  destruct (special len ts i c) eqn:Es.
  - assert (Hc : c < 128) by (apply (Hsp O c); [reflexivity|now rewrite Nat.add_0_r]).
    destruct (utf8_step_ascii s c s1 Hc E1) as [-> ->].
    change ([92; c] ++ quote_from len ts (S i) k) with (92 :: c :: quote_from len ts (S i) k).
    cbn [utf8_run]. rewrite utf8_step_backslash, E1. now apply IH.
  - change ([c] ++ quote_from len ts (S i) k) with (c :: quote_from len ts (S i) k).
    cbn [utf8_run]. rewrite E1. now apply IH.
Qed.

(* the "special trailing spaces" of quote_key are spaces *)
Lemma trailing_spaces_are_spaces : forall rk len j,
    (j < trailing_spaces rk len)%nat -> nth j rk 0 = 32.
Proof.
  induction rk as [|c r IH]; intros len j H; [simpl in H; lia|].
  cbn [trailing_spaces] in H.
  destruct (Nat.ltb 1 len && (c =? 32)) eqn:E; [|lia].
  apply andb_true_iff in E as [_ E]. apply N.eqb_eq in E. subst c.
  destruct j as [|j]; [reflexivity|]. cbn [nth]. apply (IH (pred len)). lia.
Qed.

Lemma trailing_spaces_le : forall rk len, (trailing_spaces rk len <= length rk)%nat.
Proof.
  induction rk as [|c r IH]; intros len; simpl; [lia|].
  destruct (Nat.ltb 1 len && (c =? 32)); [specialize (IH (pred len)); lia|lia].
Qed.

Lemma quote_key_special_ascii k j c :
  nth_error k j = Some c ->
  special (length k) (trailing_spaces (rev k) (length k)) j c = true -> c < 128.
Proof.
  intros Hn Hs. unfold special in Hs. apply orb_true_iff in Hs as [Hs|Hs].
  - destruct (N.ltb_spec c 128) as [|Hge]; [assumption|exfalso].
    assert (H1 : is_idchar1 c = true).
    { unfold is_idchar1. replace (128 <=? c) with true by (symmetry; apply N.leb_le; lia).
      now rewrite !orb_true_r. }
    assert (H2 : is_idchar c = true) by now apply idchar1_idchar.
    assert (H3 : (c =? 92) = false) by (apply N.eqb_neq; lia).
    rewrite H1, H2, H3 in Hs. destruct (Nat.eqb j 0); discriminate.
  - apply Nat.leb_le in Hs.
    assert (Hj : (j < length k)%nat) by (apply nth_error_Some; congruence).
    set (ts := trailing_spaces (rev k) (length k)) in *.
    assert (Hts : (ts <= length k)%nat).
    { unfold ts. rewrite <- (rev_length k) at 2. apply trailing_spaces_le. }
    assert (Hc : nth j k 0 = c) by (now apply nth_error_nth).
    assert (Hr : nth (length k - S j) (rev k) 0 = 32).
    { apply (trailing_spaces_are_spaces (rev k) (length k)). fold ts. lia. }
    rewrite rev_nth in Hr by lia.
    replace (length k - S (length k - S j))%nat with j in Hr by lia.
    rewrite Hc in Hr. subst c. lia.
Qed.

Theorem quote_key_valid k : valid_utf8_no_nul k = true -> valid_utf8_no_nul (quote_key k) = true.
Proof.
  unfold valid_utf8_no_nul. destruct (utf8_run U0 k) as [s|] eqn:E; [|discriminate].
  intros H. unfold quote_key.
  rewrite (utf8_run_quote_from _ _ k 0 U0 s); [exact H| |exact E].
  intros j c Hn Hs. cbn [Nat.add] in Hs. now apply (quote_key_special_ascii k j c).
Qed.

(* ------------------------------------------------------------------ hex digits *)
Lemma hexval_hexdigit n : n < 16 -> hexval (hexdigit n) = Some n.
Proof.
  intros H.
  assert (C : n = 0 \/ n = 1 \/ n = 2 \/ n = 3 \/ n = 4 \/ n = 5 \/ n = 6 \/ n = 7 \/ n = 8 \/ n = 9 \/
              n = 10 \/ n = 11 \/ n = 12 \/ n = 13 \/ n = 14 \/ n = 15) by lia.
  repeat (destruct C as [->|C]; [reflexivity|]). subst. reflexivity.
Qed.

Lemma esc_x_decode b t :
  b < 256 -> esc_decode ([120; hexdigit (b / 16); hexdigit (b mod 16)] ++ t) = Some (utf8_encode b, t).
Proof.
  intros Hb. cbn [app esc_decode].
  change (120 =? 92) with false. change (120 =? 34) with false. change (120 =? 110) with false.
  change (120 =? 116) with false. change (120 =? 78) with false. change (120 =? 76) with false.
  change (120 =? 80) with false. change (120 =? 120) with true. cbv iota.
  assert (H1 : b / 16 < 16) by (apply N.div_lt_upper_bound; lia).
  assert (H2 : b mod 16 < 16) by (apply N.mod_lt; lia).
  rewrite (hexval_hexdigit _ H1), (hexval_hexdigit _ H2).
  now rewrite <- (N.div_mod' b 16).
Qed.

Lemma utf8_encode_ascii b : b < 128 -> utf8_encode b = [b].
Proof. intros H. unfold utf8_encode. now replace (b <? 128) with true by (symmetry; apply N.ltb_lt; lia). Qed.

Lemma utf8_encode_c1 b : 128 <= b -> b <= 159 -> utf8_encode b = [194; b].
Proof.
  intros H1 H2. unfold utf8_encode.
  replace (b <? 128) with false by (symmetry; apply N.ltb_ge; lia).
  replace (b <? 2048) with true by (symmetry; apply N.ltb_lt; lia).
  assert (D : b / 64 = 2).
  { symmetry. apply (N.div_unique b 64 2 (b - 128)); lia. }
  assert (M : b mod 64 = b - 128).
  { symmetry. apply (N.mod_unique b 64 2 (b - 128)); lia. }
  rewrite D, M. f_equal. f_equal. lia.
Qed.

(* ------------------------------------------------------------------ escape sequences decode *)
Lemma special_prefix_spec s e r :
  special_prefix s = Some (e, r) ->
  exists e' d, e = 92 :: e' /\ s = d ++ r /\ d <> [] /\ forall t, esc_decode (e' ++ t) = Some (d, t).
Proof.
  destruct s as [|c s]; [discriminate|]. cbn [special_prefix].
  destruct (c =? 92) eqn:E1.
  { apply N.eqb_eq in E1. subst. intros H. inversion H; subst. exists [92], [92]. repeat split; congruence. }
  destruct (c =? 34) eqn:E2.
  { apply N.eqb_eq in E2. subst. intros H. inversion H; subst. exists [34], [34]. repeat split; congruence. }
  destruct (c =? 10) eqn:E3.
  { apply N.eqb_eq in E3. subst. intros H. inversion H; subst. exists [110], [10]. repeat split; congruence. }
  destruct (c =? 9) eqn:E4.
  { apply N.eqb_eq in E4. subst. intros H. inversion H; subst. exists [116], [9]. repeat split; congruence. }
  destruct ((c <? 32) || (c =? 127)) eqn:E5.
  { intros H. inversion H; subst.
    assert (Hc : c < 128).
    { apply orb_true_iff in E5 as [E5|E5]; [apply N.ltb_lt in E5|apply N.eqb_eq in E5]; lia. }
    exists [120; hexdigit (c / 16); hexdigit (c mod 16)], [c]. repeat split; [congruence|].
    intros t. rewrite esc_x_decode by lia. now rewrite utf8_encode_ascii. }
  destruct (c =? 194) eqn:E6.
  { apply N.eqb_eq in E6. subst c. destruct s as [|b s']; [discriminate|].
    destruct (in_range 128 159 b) eqn:Eb; [|discriminate].
    apply in_range_spec in Eb as [B1 B2].
    intros H. inversion H; subst.
    exists [120; hexdigit (b / 16); hexdigit (b mod 16)], [194; b]. repeat split; [congruence|].
    intros t. rewrite esc_x_decode by lia. now rewrite utf8_encode_c1. }
  destruct (c =? 226) eqn:E7.
  { apply N.eqb_eq in E7. subst c. destruct s as [|b1 [|b2 s']]; try discriminate.
    destruct ((b1 =? 128) && (b2 =? 168)) eqn:Ea.
    { apply andb_true_iff in Ea as [A1 A2]. apply N.eqb_eq in A1, A2. subst.
      intros H. inversion H; subst. exists [76], [226; 128; 168]. repeat split; congruence. }
    destruct ((b1 =? 128) && (b2 =? 169)) eqn:Eb; [|discriminate].
    apply andb_true_iff in Eb as [A1 A2]. apply N.eqb_eq in A1, A2. subst.
    intros H. inversion H; subst. exists [80], [226; 128; 169]. repeat split; congruence. }
  destruct (c =? 239) eqn:E8; [|discriminate].
  apply N.eqb_eq in E8. subst c. destruct s as [|b1 [|b2 s']]; try discriminate.
  destruct ((b1 =? 187) && (b2 =? 191)) eqn:Ea.
  { apply andb_true_iff in Ea as [A1 A2]. apply N.eqb_eq in A1, A2. subst.
    intros H. inversion H; subst. exists [117; 70; 69; 70; 70], [239; 187; 191]. repeat split; congruence. }
  destruct ((b1 =? 191) && (b2 =? 190)) eqn:Eb.
  { apply andb_true_iff in Eb as [A1 A2]. apply N.eqb_eq in A1, A2. subst.
    intros H. inversion H; subst. exists [117; 70; 70; 70; 69], [239; 191; 190]. repeat split; congruence. }
  destruct ((b1 =? 191) && (b2 =? 191)) eqn:Ec; [|discriminate].
  apply andb_true_iff in Ec as [A1 A2]. apply N.eqb_eq in A1, A2. subst.
  intros H. inversion H; subst. exists [117; 70; 70; 70; 70], [239; 191; 191]. repeat split; congruence.
Qed.

Lemma special_prefix_none_head c r : special_prefix (c :: r) = None -> (c =? 34) = false /\ (c =? 92) = false.
Proof.
  cbn [special_prefix]. destruct (c =? 92); [discriminate|]. destruct (c =? 34); [discriminate|]. auto.
Qed.

(* ------------------------------------------------------------------ unescape (escape v) = v *)
Lemma unescape_escape_f : forall fuel v rest fuel2,
    (length v <= fuel)%nat -> (length (escape_f fuel v) < fuel2)%nat ->
    unescape_f fuel2 (escape_f fuel v ++ 34 :: rest) = Some (v, rest).
Proof.
  induction fuel as [|f IH]; intros v rest fuel2 Hl Hf.
  - destruct v; [|simpl in Hl; lia]. cbn [escape_f app].
    destruct fuel2 as [|f2]; [simpl in Hf; lia|]. reflexivity.
  - cbn [escape_f] in *. destruct (special_prefix v) as [[e r]|] eqn:Es.
    + destruct (special_prefix_spec v e r Es) as [e' [d [-> [-> [Hd Hdec]]]]].
      destruct fuel2 as [|f2]; [simpl in Hf; lia|].
      change (((92 :: e') ++ escape_f f r) ++ 34 :: rest) with (92 :: (e' ++ escape_f f r) ++ 34 :: rest).
      cbn [unescape_f]. change (92 =? 34) with false. change (92 =? 92) with true. cbv iota.
      rewrite <- app_assoc, Hdec.
      rewrite IH.
      * reflexivity.
      * rewrite app_length in Hl. destruct d; [congruence|]. simpl in Hl. lia.
      * simpl in Hf. rewrite app_length in Hf. lia.
    + destruct v as [|c r].
      * cbn [app]. destruct fuel2 as [|f2]; [simpl in Hf; lia|]. reflexivity.
      * destruct (special_prefix_none_head c r Es) as [H34 H92].
        destruct fuel2 as [|f2]; [simpl in Hf; lia|].
        cbn [app unescape_f]. rewrite H34, H92.
        rewrite IH; [reflexivity| simpl in Hl; lia | simpl in Hf; lia].
Qed.

Theorem unescape_escape v :
  unescape_f (S (length (escape v ++ [34]))) (escape v ++ [34]) = Some (v, []).
Proof.
  unfold escape. apply unescape_escape_f; [lia|]. rewrite app_length. simpl. lia.
Qed.

(* ------------------------------------------------------------------ parse (emit v st) *)
Lemma plain_safe_head v : plain_safe v = true -> exists c r, v = c :: r /\ (c =? 34) = false.
Proof.
  destruct v as [|c r]; [discriminate|]. intros H. exists c, r. split; [reflexivity|].
  unfold plain_safe in H. rewrite !andb_true_iff in H. destruct H as [[[[[H _] _] _] _] _].
  apply negb_true_iff in H. unfold is_indicator in H.
  destruct (c =? 34) eqn:E; [|reflexivity].
  apply N.eqb_eq in E. subst. discriminate.
Qed.

Definition parsed_style (v : bytes) (st : ystyle) : ystyle :=
  if wants_plain st && plain_safe v then YPlain else YDouble.

(* for EVERY byte string (valid UTF-8 or not) and every requested style *)
Theorem parse_emit_scalar v st : parse_scalar (emit_scalar v st) = Some (v, parsed_style v st).
Proof.
  unfold emit_scalar, parsed_style. destruct (wants_plain st && plain_safe v) eqn:E.
  - apply andb_true_iff in E as [_ E]. destruct (plain_safe_head v E) as [c [r [-> H34]]].
    unfold parse_scalar. now rewrite H34, E.
  - unfold parse_scalar. change (34 =? 34) with true. cbv iota.
    now rewrite unescape_escape.
Qed.

(* ------------------------------------------------------------------ rt_quote meets the hypotheses about libyaml *)
Lemma rt_quote_scalar_eq v st : rt_quote (YScalar v st) = YScalar v (parsed_style v st).
Proof. cbn [rt_quote]. now rewrite parse_emit_scalar. Qed.

Lemma rt_quote_scalar : forall v st,
    exists st', rt_quote (YScalar v st) = YScalar v st' /\ (st' = YPlain -> st = YPlain \/ st = YAny).
Proof.
  intros v st. exists (parsed_style v st). split; [apply rt_quote_scalar_eq|].
  unfold parsed_style. destruct st; cbn [wants_plain andb]; auto; discriminate.
Qed.
Lemma rt_quote_tilde : rt_quote (YScalar [126] YPlain) = YScalar [126] YPlain.
Proof. reflexivity. Qed.
Lemma rt_quote_mapping kv :
  rt_quote (YMapping kv) = YMapping (map (fun p => (rt_quote (fst p), rt_quote (snd p))) kv).
Proof. cbn [rt_quote]. f_equal. apply map_ext. intros [k v]. reflexivity. Qed.
Lemma rt_quote_sequence l : rt_quote (YSequence l) = YSequence (map rt_quote l).
Proof. reflexivity. Qed.

(* the model emitter honours a plain request for safe text, e.g. for the null written as ~ *)
Lemma rt_quote_plain_safe v : plain_safe v = true -> rt_quote (YScalar v YPlain) = YScalar v YPlain.
Proof. intros H. rewrite rt_quote_scalar_eq. unfold parsed_style. cbn [wants_plain andb]. now rewrite H. Qed.

(* a null look-alike exported by _vnaproperty_yaml_export is written in double quotes by the model
   emitter and read back non-plain with the same bytes *)
Lemma null_lookalike_model_emitter v :
  is_yaml_null v = true ->
  emit_scalar v (scalar_style v) = 34 :: escape v ++ [34]
  /\ parse_scalar (emit_scalar v (scalar_style v)) = Some (v, YDouble).
Proof.
  intros H.
  assert (S : scalar_style v = YDouble).
  { unfold scalar_style. destruct (has_newline v) eqn:N; [|now rewrite H].
    exfalso. unfold is_yaml_null in H. rewrite !orb_true_iff, !bytes_eqb_eq in H.
    destruct H as [[[H|H]|H]|H]; subst; discriminate. }
  rewrite S. split; [reflexivity|]. now rewrite parse_emit_scalar.
Qed.

(* ------------------------------------------------------------------ the model emitter really quotes and escapes *)
(* a dquote backslash b LF TAB SOH NEL LS BOM e-acute *)
Definition hostile_text : bytes :=
  [97; 34; 92; 98; 10; 9; 1; 194; 133; 226; 128; 168; 239; 187; 191; 195; 169].
Example hostile_text_valid : valid_utf8_no_nul hostile_text = true.
Proof. reflexivity. Qed.
Example hostile_text_emitted :
  emit_scalar hostile_text YAny =
  [34; 97; 92; 34; 92; 92; 98; 92; 110; 92; 116; 92; 120; 48; 49; 92; 120; 56; 53; 92; 76;
   92; 117; 70; 69; 70; 70; 195; 169; 34].
Proof. vm_compute. reflexivity. Qed.
Example plain_stays_plain : emit_scalar [97; 32; 98; 39; 99] YAny = [97; 32; 98; 39; 99].      (* a b'c *)
Proof. vm_compute. reflexivity. Qed.
Example colon_space_quoted : emit_scalar [97; 58; 32; 98] YAny = [34; 97; 58; 32; 98; 34].    (* a: b *)
Proof. vm_compute. reflexivity. Qed.
Example dash_space_quoted : emit_scalar [45; 32; 97] YAny = [34; 45; 32; 97; 34].             (* - a *)
Proof. vm_compute. reflexivity. Qed.
Example hash_quoted : emit_scalar [97; 32; 35; 98] YAny = [34; 97; 32; 35; 98; 34].          (* a #b *)
Proof. vm_compute. reflexivity. Qed.
Example trailing_space_quoted : emit_scalar [97; 32] YAny = [34; 97; 32; 34].
Proof. vm_compute. reflexivity. Qed.
Example empty_quoted : emit_scalar [] YAny = [34; 34].
Proof. vm_compute. reflexivity. Qed.
Example tilde_plain : emit_scalar [126] YPlain = [126].
Proof. vm_compute. reflexivity. Qed.
Example null_word_quoted : emit_scalar [110; 117; 108; 108] (scalar_style [110; 117; 108; 108]) = [34; 110; 117; 108; 108; 34].
Proof. vm_compute. reflexivity. Qed.
(* the parser is not the inverse of the emitter by construction only: it also reads escapes the
   emitter never writes (\N, lower-case hex, \u 00e9) and refuses malformed tokens *)
Example parser_reads_other_escapes :
  parse_scalar [34; 92; 78; 92; 117; 48; 48; 101; 57; 92; 120; 52; 49; 34] = Some ([194; 133; 195; 169; 65], YDouble).
Proof. vm_compute. reflexivity. Qed.
Example parser_refuses_unterminated : parse_scalar [34; 97] = None.
Proof. vm_compute. reflexivity. Qed.
Example parser_refuses_trailing_text : parse_scalar [34; 97; 34; 98] = None.
Proof. vm_compute. reflexivity. Qed.
Example parser_refuses_unknown_escape : parse_scalar [34; 92; 113; 34] = None.
Proof. vm_compute. reflexivity. Qed.
Example parser_refuses_unsafe_plain : parse_scalar [97; 58; 32; 98] = None.
Proof. vm_compute. reflexivity. Qed.

(* the examples of this section in one statement (cited by Properties_C14) *)
Lemma model_emitter_quotes_and_escapes :
  valid_utf8_no_nul hostile_text = true
  /\ emit_scalar hostile_text YAny =
     [34; 97; 92; 34; 92; 92; 98; 92; 110; 92; 116; 92; 120; 48; 49; 92; 120; 56; 53; 92; 76;
      92; 117; 70; 69; 70; 70; 195; 169; 34]
  /\ emit_scalar [97; 58; 32; 98] YAny = [34; 97; 58; 32; 98; 34]
  /\ emit_scalar [45; 32; 97] YAny = [34; 45; 32; 97; 34]
  /\ emit_scalar [97; 32; 35; 98] YAny = [34; 97; 32; 35; 98; 34]
  /\ emit_scalar [97; 32] YAny = [34; 97; 32; 34]
  /\ emit_scalar [] YAny = [34; 34]
  /\ emit_scalar [97; 32; 98; 39; 99] YAny = [97; 32; 98; 39; 99]
  /\ emit_scalar [126] YPlain = [126]
  /\ parse_scalar [34; 92; 78; 92; 117; 48; 48; 101; 57; 92; 120; 52; 49; 34] = Some ([194; 133; 195; 169; 65], YDouble)
  /\ parse_scalar [34; 97] = None /\ parse_scalar [34; 97; 34; 98] = None
  /\ parse_scalar [34; 92; 113; 34] = None /\ parse_scalar [97; 58; 32; 98] = None.
Proof. vm_compute. repeat split; reflexivity. Qed.
