(* Rational reproduction (property C10): decidable forms of the hypotheses of rfi_rational2_n /
   rfi_rational3_n (so that they can be checked by computation on concrete data), and concrete
   instances over Q[i]: five-point vectors sampled from k/(x+p) and (a+bx)/(c+x) with complex
   coefficients, queries off the knots with the selected window at the left edge, in the
   interior and at the right edge, and next to a knot.  Orders 4 and 5 (types 1/2 and 2/2) are
   NOT proved; rfi_rational4_instance / rfi_rational5_instance only evaluate the model on
   concrete data. *)
Require Import List ZArith QArith Qcanon Lia Bool.
Require Import LV.Base.QcI LV.Interp.QOrd LV.Interp.RfiModel LV.Interp.RfiProofs LV.Interp.RfiWindow
  LV.Interp.RfiRational LV.Interp.C10Lemmas LV.Interp.RfiRationalN.
Import ListNotations.
Local Open Scope Z_scope.

Definition Qc_nzb (a : Qc) : bool := if Qc_eq_dec a 0%Qc then false else true.
Lemma Qc_nzb_ok a : Qc_nzb a = true -> a <> 0%Qc.
Proof. unfold Qc_nzb. destruct (Qc_eq_dec a 0%Qc); [discriminate|auto]. Qed.

Definition qi_nzb (a : qi) : bool := negb (qi_eqb a qi0).
Lemma qi_nzb_ok a : qi_nzb a = true -> a <> qi0.
Proof. unfold qi_nzb. intros H. apply qi_neqb. destruct (qi_eqb a qi0); [discriminate|reflexivity]. Qed.

(* every recorded denominator is non-zero and not below the cut-off *)
Definition step_okb (cut : Qc) (t : bs_step) : bool :=
  negb (cabs_lt (fst (fst t)) cut) && qi_nzb (fst (fst t)).

Lemma step_okb_ok cut tr : forallb (step_okb cut) tr = true -> Forall (step_ok cut) tr.
Proof.
  intros H. apply Forall_forall. intros t Ht. rewrite forallb_forall in H. specialize (H t Ht).
  unfold step_okb in H. apply andb_true_iff in H. destruct H as [H1 H2]. split.
  - destruct (cabs_lt (fst (fst t)) cut); [discriminate|reflexivity].
  - apply qi_nzb_ok. exact H2.
Qed.

(* data sampled from f with non-vanishing denominator g and non-zero real parts *)
Definition data_okb (f g : Qc -> qi) (xp : list Qc) : bool :=
  forallb (fun t => qi_nzb (g t) && Qc_nzb (qre (f t))) xp.

Lemma data_okb_ok f g xp n : zlen xp = n -> data_okb f g xp = true ->
  forall i, 0 <= i < n -> yat (map f xp) i = f (xat xp i) /\ g (xat xp i) <> qi0 /\ qre (f (xat xp i)) <> 0%Qc.
Proof.
  intros Hl H i Hi. unfold zlen in Hl. unfold data_okb in H. rewrite forallb_forall in H.
  assert (Hlt : (Z.to_nat i < length xp)%nat) by lia.
  unfold yat, xat. split.
  - rewrite nth_indep with (d' := f 0%Qc) by (rewrite map_length; exact Hlt). apply map_nth.
  - specialize (H (nth (Z.to_nat i) xp 0%Qc) (nth_In xp 0%Qc Hlt)).
    apply andb_true_iff in H. destruct H as [H1 H2]. split; [apply qi_nzb_ok; exact H1|apply Qc_nzb_ok; exact H2].
Qed.

(* rfi_rational2_n / rfi_rational3_n with every hypothesis decidable: whenever the recurrence
   performed all its steps with denominators that pass step_okb, the value is exact *)
Definition rat2 (k p : qi) (t : Qc) : qi := qi_div k (qi_add (qx t) p).
Definition rat3 (a b c : qi) (t : Qc) : qi := qi_div (qi_add a (qi_mul b (qx t))) (qi_add c (qx t)).

Definition exact_when_complete (cut : Qc) (steps : nat) (f : Qc -> qi) (x : Qc)
  (r : option (qi * Z * list bs_step)) : Prop :=
  match r with
  | Some (v, _, tr) => (length tr =? steps)%nat && forallb (step_okb cut) tr = true -> v = f x
  | None => True
  end.

Lemma rfi_rational2_dec eps cut xp (k p : qi) x hint :
  2 <= zlen xp -> data_okb (rat2 k p) (fun t => qi_add (qx t) p) xp = true -> qi_nzb (qi_add (qx x) p) = true ->
  exact_when_complete cut 1 (rat2 k p) x (rfi_full eps cut xp (map (rat2 k p) xp) (zlen xp) 2 x hint).
Proof.
  intros Hn Hd Hx. unfold exact_when_complete.
  destruct (rfi_full eps cut xp (map (rat2 k p) xp) (zlen xp) 2 x hint) as [[[v s] tr]|] eqn:E; [|exact I].
  intros H. apply andb_true_iff in H. destruct H as [H1 H2]. apply Nat.eqb_eq in H1.
  apply (rfi_rational2_n eps cut xp (map (rat2 k p) xp) (zlen xp) k p x hint v s tr);
    [reflexivity | unfold zlen; rewrite map_length; reflexivity | exact Hn
    | exact (data_okb_ok (rat2 k p) (fun t => qi_add (qx t) p) xp (zlen xp) eq_refl Hd)
    | apply qi_nzb_ok; exact Hx | exact E | exact H1 | apply step_okb_ok; exact H2].
Qed.

Lemma rfi_rational3_dec eps cut xp (a b c : qi) x hint :
  3 <= zlen xp -> data_okb (rat3 a b c) (fun t => qi_add c (qx t)) xp = true -> qi_nzb (qi_add c (qx x)) = true ->
  exact_when_complete cut 3 (rat3 a b c) x (rfi_full eps cut xp (map (rat3 a b c) xp) (zlen xp) 3 x hint).
Proof.
  intros Hn Hd Hx. unfold exact_when_complete.
  destruct (rfi_full eps cut xp (map (rat3 a b c) xp) (zlen xp) 3 x hint) as [[[v s] tr]|] eqn:E; [|exact I].
  intros H. apply andb_true_iff in H. destruct H as [H1 H2]. apply Nat.eqb_eq in H1.
  apply (rfi_rational3_n eps cut xp (map (rat3 a b c) xp) (zlen xp) a b c x hint v s tr);
    [reflexivity | unfold zlen; rewrite map_length; reflexivity | exact Hn
    | exact (data_okb_ok (rat3 a b c) (fun t => qi_add c (qx t)) xp (zlen xp) eq_refl Hd)
    | apply qi_nzb_ok; exact Hx | exact E | exact H1 | apply step_okb_ok; exact H2].
Qed.

(* ---------------------------------------------------------------- concrete instances *)
Definition eps25 : Qc := qq 1 10000000000000000000000000.      (* EPS = 1e-25 *)
Definition cut25 : Qc := (qz 10 * eps25)%Qc.

(* five knots, not equally spaced *)
Definition ex_xp : list Qc := [qz 1; qz 2; qq 7 2; qz 5; qz 8].
(* queries: left of all knots, first segment (window at the left edge), interior segments, last
   segment (window at the right edge), right of all knots, and 1/1000 from a knot *)
Definition ex_qs : list Qc := [qq 1 2; qq 3 2; qz 3; qz 4; qz 6; qz 9; qq 3501 1000; qq 4999 1000].
Definition ex_hints : list Z := [-3; 0; 1; 3; 4; 9].

(* f(t) = ((1 + 2i) + (3 - i) t) / ((5 + i) + t) *)
Definition ex_a := mkqi 1 1 2 1.
Definition ex_b := mkqi 3 1 (-1) 1.
Definition ex_c := mkqi 5 1 1 1.

(* which base of the three-point window each query selects (hint 0): 0 = left edge, 2 = right edge *)
Definition window_of (m : Z) (xp : list Qc) (x : Qc) (hint : Z) : option Z :=
  match search xp (zlen xp) x (clamp (zlen xp) hint) with
  | Some s => match knot_test eps25 xp (map (fun _ => qi1) xp) m x s with
              | Some (Near nr) => Some (window_base (zlen xp) m s nr)
              | _ => None
              end
  | None => None
  end.

Example ex_windows3 :
  map (fun x => window_of 3 ex_xp x 0) ex_qs = [Some 0; Some 0; Some 1; Some 1; Some 2; Some 2; Some 1; Some 2].
Proof. vm_compute. reflexivity. Qed.

(* the hypotheses of rfi_rational3_n hold for these data and every query ... *)
Example ex_rational3_hyps :
  3 <= zlen ex_xp /\ data_okb (rat3 ex_a ex_b ex_c) (fun t => qi_add ex_c (qx t)) ex_xp = true /\
  forallb (fun x => qi_nzb (qi_add ex_c (qx x))) ex_qs = true.
Proof. vm_compute. repeat split; reflexivity || discriminate. Qed.

(* ... the recurrence runs to completion with admissible denominators, and the value is exactly
   f(x), for every query and every hint *)
Definition complete_and_exact (steps : nat) (f : Qc -> qi) (x : Qc) (r : option (qi * Z * list bs_step)) : bool :=
  match r with
  | Some (v, _, tr) => (length tr =? steps)%nat && forallb (step_okb cut25) tr && qi_eqb v (f x)
  | None => false
  end.

Example ex_rational3_value :
  forallb (fun h => forallb (fun x =>
     complete_and_exact 3 (rat3 ex_a ex_b ex_c) x
       (rfi_full eps25 cut25 ex_xp (map (rat3 ex_a ex_b ex_c) ex_xp) 5 3 x h)) ex_qs) ex_hints = true.
Proof. vm_compute. reflexivity. Qed.

(* the same in the form of the theorem, for one query in the interior (x = 3, hint 4):
   hypotheses and conclusion *)
Example rfi_rational3_satisfiable :
  let f := rat3 ex_a ex_b ex_c in
  zlen ex_xp = 5 /\ zlen (map f ex_xp) = 5 /\
  (forall i, 0 <= i < 5 -> yat (map f ex_xp) i = f (xat ex_xp i) /\ qi_add ex_c (qx (xat ex_xp i)) <> qi0 /\
                          qre (f (xat ex_xp i)) <> 0%Qc) /\
  qi_add ex_c (qx (qz 3)) <> qi0 /\
  exists v s tr, rfi_full eps25 cut25 ex_xp (map f ex_xp) 5 3 (qz 3) 4 = Some (v, s, tr) /\
                 length tr = 3%nat /\ Forall (step_ok cut25) tr /\ v = f (qz 3) /\ ~ In (qz 3) ex_xp.
Proof.
  cbv zeta. split; [reflexivity|]. split; [reflexivity|].
  split; [apply (data_okb_ok (rat3 ex_a ex_b ex_c) (fun t => qi_add ex_c (qx t)) ex_xp 5 eq_refl); vm_compute; reflexivity|].
  split; [apply qi_nzb_ok; vm_compute; reflexivity|].
  destruct (rfi_full eps25 cut25 ex_xp (map (rat3 ex_a ex_b ex_c) ex_xp) 5 3 (qz 3) 4) as [[[v s] tr]|] eqn:E.
  2:{ vm_compute in E. discriminate E. }
  exists v, s, tr. split; [reflexivity|].
  assert (C : complete_and_exact 3 (rat3 ex_a ex_b ex_c) (qz 3) (Some (v, s, tr)) = true)
    by (rewrite <- E; vm_compute; reflexivity).
  unfold complete_and_exact in C. apply andb_true_iff in C. destruct C as [C C3].
  apply andb_true_iff in C. destruct C as [C1 C2].
  split; [apply Nat.eqb_eq; exact C1|]. split; [apply step_okb_ok; exact C2|]. split; [apply qi_eqb_eq; exact C3|].
  intros H. repeat (destruct H as [H|H]; [apply (f_equal this) in H; vm_compute in H; discriminate H|]). exact H.
Qed.

(* order 2: f(t) = (3 + i) / (t + (2 - i)) on the same knots and queries *)
Definition ex_k := mkqi 3 1 1 1.
Definition ex_p := mkqi 2 1 (-1) 1.

Example ex_windows2 :
  map (fun x => window_of 2 ex_xp x 0) ex_qs = [Some 0; Some 0; Some 1; Some 2; Some 3; Some 3; Some 2; Some 2].
Proof. vm_compute. reflexivity. Qed.

Example ex_rational2_hyps :
  2 <= zlen ex_xp /\ data_okb (rat2 ex_k ex_p) (fun t => qi_add (qx t) ex_p) ex_xp = true /\
  forallb (fun x => qi_nzb (qi_add (qx x) ex_p)) ex_qs = true.
Proof. vm_compute. repeat split; reflexivity || discriminate. Qed.

Example ex_rational2_value :
  forallb (fun h => forallb (fun x =>
     complete_and_exact 1 (rat2 ex_k ex_p) x
       (rfi_full eps25 cut25 ex_xp (map (rat2 ex_k ex_p) ex_xp) 5 2 x h)) ex_qs) ex_hints = true.
Proof. vm_compute. reflexivity. Qed.

(* ---------------------------------------------------------------- orders 4 and 5: evaluation only *)
(* f4(t) = ((1 + 2i) + 3 t) / ((5 + i) + (2 - i) t + t^2)                       (type 1/2, 4 points)
   f5(t) = ((1 + 2i) + 3 t + (1 + i) t^2) / ((5 + i) + (2 - i) t + t^2)         (type 2/2, 5 points) *)
Definition qsq (t : Qc) : qi := qi_mul (qx t) (qx t).
Definition ex_den (t : Qc) : qi := qi_add (qi_add (mkqi 5 1 1 1) (qi_mul (mkqi 2 1 (-1) 1) (qx t))) (qsq t).
Definition rat4 (t : Qc) : qi := qi_div (qi_add (mkqi 1 1 2 1) (qi_mul (mkqi 3 1 0 1) (qx t))) (ex_den t).
Definition rat5 (t : Qc) : qi :=
  qi_div (qi_add (qi_add (mkqi 1 1 2 1) (qi_mul (mkqi 3 1 0 1) (qx t))) (qi_mul (mkqi 1 1 1 1) (qsq t))) (ex_den t).
Definition ex_xp7 : list Qc := [qz 0; qz 1; qz 2; qq 7 2; qz 5; qz 8; qz 9].
Definition ex_qs7 : list Qc := [qq 1 2; qq 3 2; qz 3; qz 6; qq 17 2; qz 10].

Example rfi_rational4_instance :
  forallb (fun h => forallb (fun x =>
     complete_and_exact 6 rat4 x (rfi_full eps25 cut25 ex_xp7 (map rat4 ex_xp7) 7 4 x h)) ex_qs7) [-1; 2; 6] = true.
Proof. vm_compute. reflexivity. Qed.

Example rfi_rational5_instance :
  forallb (fun h => forallb (fun x =>
     complete_and_exact 10 rat5 x (rfi_full eps25 cut25 ex_xp7 (map rat5 ex_xp7) 7 5 x h)) ex_qs7) [-1; 2; 6] = true.
Proof. vm_compute. reflexivity. Qed.
