(* The value computed by RfiModel after the knot tests depends only on the selected m-point
   window: `after` = knot tests + `bs_core` on (window xp base m, window yp base m, nearest - base).
   This lifts statements about the recurrence on exactly m points to vectors of any length. *)
Require Import List ZArith QArith Qcanon Lia Bool.
Require Import LV.Base.QcI LV.Interp.QOrd LV.Interp.RfiModel LV.Interp.RfiProofs.
Import ListNotations.
Local Open Scope Z_scope.

Definition window {A} (l : list A) (base m : Z) : list A :=
  firstn (Z.to_nat m) (skipn (Z.to_nat base) l).

(* the Bulirsch-Stoer part of _vnacal_rfi on a window: c[i] = wy[i], d[i] = wy[i] (+ EPS),
   y = wy[cur], cur-- and the two loops *)
Definition bs_core (eps cut : Qc) (m : Z) (wx : list Qc) (wy : list qi) (x : Qc) (cur : Z)
  : option (qi * list bs_step) :=
  do y0 <- rd wy cur;
  outer cut wx m x (Z.to_nat (m - 1)) 0 0 wy (map (add_eps eps) wy) y0 (cur - 1) [].

Lemma nth_error_firstn' {A} (l : list A) : forall k j, (j < k)%nat -> nth_error (firstn k l) j = nth_error l j.
Proof.
  induction l as [|h t IH]; intros k j H.
  - rewrite firstn_nil. reflexivity.
  - destruct k as [|k]; [lia|]. destruct j as [|j]; simpl; [reflexivity|]. apply IH. lia.
Qed.

Lemma nth_error_skipn' {A} (l : list A) : forall b j, nth_error (skipn b l) j = nth_error l (b + j).
Proof.
  induction l as [|h t IH]; intros b j.
  - rewrite skipn_nil. destruct j, b; reflexivity.
  - destruct b as [|b]; simpl; [reflexivity|]. apply IH.
Qed.

Lemma window_length {A} (l : list A) base m : 0 <= base -> 0 <= m -> base + m <= zlen l ->
  zlen (window l base m) = m.
Proof.
  intros H0 H1 H2. unfold window, zlen in *. rewrite firstn_length, skipn_length. lia.
Qed.

Lemma rd_window {A} (l : list A) base m j : 0 <= base -> 0 <= j < m -> base + m <= zlen l ->
  rd (window l base m) j = rd l (base + j).
Proof.
  intros H0 Hj H2. unfold rd, window, zlen in *.
  destruct (j <? 0) eqn:E1; [apply Z.ltb_lt in E1; lia|].
  destruct (base + j <? 0) eqn:E2; [apply Z.ltb_lt in E2; lia|].
  rewrite nth_error_firstn' by lia. rewrite nth_error_skipn'. f_equal. lia.
Qed.

Lemma take_y_window yp k : forall base, 0 <= base -> base + Z.of_nat k <= zlen yp ->
  take_y yp k base = Some (window yp base (Z.of_nat k)).
Proof.
  induction k as [|k IH]; intros base H0 H1.
  - simpl. unfold window. simpl. reflexivity.
  - cbn [take_y]. destruct (rd_ex yp base) as (y & Ey); [lia|]. rewrite Ey.
    rewrite IH by lia. f_equal.
    unfold window. rewrite !Nat2Z.id.
    unfold rd in Ey. destruct (base <? 0) eqn:E; [discriminate|].
    replace (Z.to_nat (base + 1)) with (S (Z.to_nat base)) by lia.
    remember (Z.to_nat base) as b. clear - Ey.
    revert yp Ey. induction b as [|b IHb]; intros [|h t] Ey; simpl in *; try discriminate.
    + inversion Ey; reflexivity.
    + apply IHb. exact Ey.
Qed.

Section Win.
Variables (eps cut : Qc) (xp : list Qc) (yp : list qi) (n m : Z) (x : Qc).
Hypothesis Hlx : zlen xp = n.
Hypothesis Hly : zlen yp = n.
Hypothesis Hm : 1 <= m <= n.

Lemma inner_window base fuel : 0 <= base -> base + m <= n -> forall j i c d tr,
  0 <= j -> 0 <= i -> j + Z.of_nat fuel = m - i - 1 ->
  inner cut xp x fuel j i base c d tr = inner cut (window xp base m) x fuel j i 0 c d tr.
Proof.
  intros Hb Hbm. induction fuel as [|f IH]; intros j i c d tr Hj Hi Hf; [reflexivity|].
  cbn [inner].
  replace (rd (window xp base m) (0 + j)) with (rd xp (base + j))
    by (symmetry; rewrite rd_window by lia; f_equal; lia).
  replace (rd (window xp base m) (0 + i + j + 1)) with (rd xp (base + i + j + 1))
    by (symmetry; rewrite rd_window by lia; f_equal; lia).
  destruct (rd c (j + 1)) as [cj1|]; [|reflexivity].
  destruct (rd d j) as [dj|]; [|reflexivity].
  destruct (rd xp (base + j)) as [xa|]; [|reflexivity].
  destruct (rd xp (base + i + j + 1)) as [xb|]; [|reflexivity].
  destruct (cabs_lt _ cut); [reflexivity|].
  destruct (wr c j _) as [c'|]; [|reflexivity].
  destruct (rd c' (j + 1)) as [cj1'|]; [|reflexivity].
  destruct (wr d j _) as [d'|]; [|reflexivity].
  apply IH; lia.
Qed.

Lemma outer_window base fuel : 0 <= base -> base + m <= n -> forall i c d y cur tr,
  0 <= i -> i + Z.of_nat fuel = m - 1 ->
  outer cut xp m x fuel i base c d y cur tr = outer cut (window xp base m) m x fuel i 0 c d y cur tr.
Proof.
  intros Hb Hbm. induction fuel as [|f IH]; intros i c d y cur tr Hi Hf; [reflexivity|].
  cbn [outer]. rewrite (inner_window base) by lia.
  destruct (inner cut (window xp base m) x _ 0 i 0 c d tr) as [[[[c' d']|] tr']|]; try reflexivity.
  destruct (2 * (cur + 1) <? m - i).
  - destruct (_ && _); [|reflexivity]. destruct (rd c' (cur + 1)); [|reflexivity]. apply IH; lia.
  - destruct (_ && _); [|reflexivity]. destruct (rd d' cur); [|reflexivity]. apply IH; lia.
Qed.

(* `after` in terms of the window *)
Lemma after_window hint s : 0 <= s <= n - 2 ->
  after eps cut xp yp n m x hint s =
  (do k <- knot_test eps xp yp m x s;
   match k with
   | Ret y => Some (y, hint, [])
   | Near nr =>
     let base := window_base n m s nr in
     do r <- bs_core eps cut m (window xp base m) (window yp base m) x (nr - base);
     Some (fst r, s, snd r)
   end).
Proof.
  intros Hs. unfold after.
  destruct (knot_test_ex eps xp yp n m Hlx Hly x s Hs) as (k & -> & Hk).
  destruct k as [y|nr]; [reflexivity|].
  destruct (window_ok n m Hm s nr Hs Hk) as [Hb Hc]. cbv zeta.
  set (base := window_base n m s nr) in *.
  replace ((0 <=? base) && (base <=? n - m) && (0 <=? nr - base) && (nr - base <? m)) with true
    by (symmetry; repeat (apply andb_true_iff; split); try apply Z.leb_le; try apply Z.ltb_lt; lia).
  rewrite take_y_window by (rewrite ?Z2Nat.id; lia). rewrite Z2Nat.id by lia.
  unfold bs_core. rewrite rd_window by lia.
  destruct (rd yp (base + (nr - base))) as [y0|]; [|reflexivity].
  rewrite (outer_window base) by lia. reflexivity.
Qed.

End Win.
