(* Sigma of a correlated parameter as a function of frequency, as coded in
   src/vnacal_make_correlated_parameter.c:
     vnacal_make_correlated_parameter   sigma_frequencies == 1: no spline (the frequency vector is
                                        ignored); > 1: _vnacommon_spline_calc(sigma_frequencies - 1,
                                        sigma grid, sigma values)     (-1 -> the call fails)
     _vnacal_get_correlated_sigma       sigma_frequencies == 1: sigma_vector[0];
                                        else _vnacommon_spline_eval(sigma_frequencies - 1, ...)
   over exact rationals, on top of SplineModel.  np = sigma_frequencies = length of the value
   vector.  No proofs in this file. *)
Require Import List ZArith QArith Qcanon.
Require Import LV.Interp.QOrd LV.Interp.SplineModel.
Import ListNotations.
Local Open Scope Z_scope.

Definition sigma_np (ys : list Qc) : Z := Z.of_nat (length ys).

(* the spline part of vnacal_make_correlated_parameter; None = the call fails *)
Definition sigma_make (min_dx : Qc) (xs ys : list Qc) : option (list coef) :=
  let np := sigma_np ys in
  if np <? 1 then None
  else if np =? 1 then Some []
  else spline_calc min_dx xs ys (np - 1).

(* _vnacal_get_correlated_sigma *)
Definition sigma_eval (xs ys : list Qc) (cs : list coef) (x : Qc) : option Qc :=
  let np := sigma_np ys in
  if np =? 1 then Some (gq ys 0)
  else spline_eval xs ys (np - 1) cs x.

(* make once, then one evaluation per frequency (what the solver does) *)
Definition sigma_interp (min_dx : Qc) (xs ys : list Qc) (qs : list Qc) : option (list (option Qc)) :=
  match sigma_make min_dx xs ys with
  | None => None
  | Some cs => Some (map (sigma_eval xs ys cs) qs)
  end.
