(* Rational-function reproduction by RfiModel (property C10, partial): with two points (order
   m = 2) the model returns exactly k / (x + p) for data k / (x_i + p) - k, p complex - whenever
   the knot tests and the cut-off test do not trigger.  Order 3 ((a + b x) / (c + x)) is only
   checked on a concrete instance here (Example rfi_rational3_instance) and numerically by the
   correspondence; orders 4 and 5 are not proved. *)
Require Import List ZArith QArith Qcanon Lia Bool Field.
Require Import LV.Base.QcI LV.Interp.QOrd LV.Interp.RfiModel.
Import ListNotations.
Local Open Scope Z_scope.
Add Field qif : qi_field.

Lemma qx_sub a b : qx (a - b)%Qc = qi_sub (qx a) (qx b).
Proof. apply qi_eq; simpl; ring. Qed.

Lemma clamp2 h : clamp 2 h = 0.
Proof. unfold clamp. destruct (h <? 0) eqn:A; [reflexivity|]. simpl. destruct (0 <? h) eqn:B; [reflexivity|].
  apply Z.ltb_ge in A. apply Z.ltb_ge in B. lia. Qed.

Lemma search2 x0 x1 x : search [x0; x1] 2 x 0 = Some 0.
Proof. unfold search. cbn. destruct (Qcltb x x0); reflexivity. Qed.

Lemma qi_mul_nz a b : a <> qi0 -> b <> qi0 -> qi_mul a b <> qi0.
Proof.
  intros Ha Hb H. apply Hb.
  assert (E : b = qi_mul (qi_inv a) (qi_mul a b)) by (field; exact Ha).
  rewrite E, H. ring.
Qed.

Section R2.
Variables (eps cut : Qc) (x0 x1 x : Qc) (k p : qi).
Let f (t : Qc) : qi := qi_div k (qi_add (qx t) p).
Hypothesis Hk : k <> qi0.
Hypothesis Hx01 : qi_sub (qx x1) (qx x0) <> qi0.
Hypothesis Hp0 : qi_add (qx x0) p <> qi0.
Hypothesis Hp1 : qi_add (qx x1) p <> qi0.
Hypothesis Hpx : qi_add (qx x) p <> qi0.
Hypothesis Hre0 : qre (f x0) <> 0%Qc.
Hypothesis Hre1 : qre (f x1) <> 0%Qc.
Hypothesis Hnk0 : Qcleb (Qcabs' (x - x0)%Qc) eps = false.
Hypothesis Hnk1 : Qcleb (Qcabs' (x - x1)%Qc) eps = false.
Hypothesis Hcut : cabs_lt (qi_sub (qi_mul (qx (x - x0)%Qc) (f x0)) (qi_mul (qx (x - x1)%Qc) (f x1))) cut = false.

Lemma add_eps_nz e y : qre y <> 0%Qc -> add_eps e y = y.
Proof. intros H. unfold add_eps. destruct (Qc_eq_dec (qre y) 0); [contradiction|reflexivity]. Qed.

Opaque qi_sub qi_mul qi_div qi_add qx Qcminus Qcplus Qcmult cabs_lt add_eps Qcleb Qcltb Qcabs'.

Ltac step := cbn; change (Pos.to_nat 1) with 1%nat; change (Pos.to_nat 2) with 2%nat; change (Pos.to_nat 3) with 3%nat; cbn.

Lemma rfi_rational2_l hint : exists tr, rfi_full eps cut [x0; x1] [f x0; f x1] 2 2 x hint = Some (f x, 0, tr).
Proof.
  unfold rfi_full. cbn [Z.ltb Z.compare orb Pos.compare Pos.compare_cont].
  rewrite clamp2, search2. unfold after, knot_test. step.
  rewrite Hnk0. step. rewrite Hnk1. step.
  destruct (Qcleb (Qcabs' (x - x0)) (Qcabs' (x - x1)) || false); step;
  rewrite !add_eps_nz by assumption; rewrite Hcut; step.
  - eexists. apply f_equal. apply f_equal2; [apply f_equal2; [|reflexivity]|reflexivity].
    unfold f. rewrite !qx_sub. field. repeat split; try assumption.
    replace (qi_sub (qi_mul (qi_mul (qi_sub (qx x) (qx x0)) k) (qi_add (qx x1) p))
                    (qi_mul (qi_mul (qi_sub (qx x) (qx x1)) k) (qi_add (qx x0) p)))
      with (qi_mul (qi_mul k (qi_add (qx x) p)) (qi_sub (qx x1) (qx x0))) by ring.
    apply qi_mul_nz; [apply qi_mul_nz|]; assumption.
  - eexists. apply f_equal. apply f_equal2; [apply f_equal2; [|reflexivity]|reflexivity].
    unfold f. rewrite !qx_sub. field. repeat split; try assumption.
    replace (qi_sub (qi_mul (qi_mul (qi_sub (qx x) (qx x0)) k) (qi_add (qx x1) p))
                    (qi_mul (qi_mul (qi_sub (qx x) (qx x1)) k) (qi_add (qx x0) p)))
      with (qi_mul (qi_mul k (qi_add (qx x) p)) (qi_sub (qx x1) (qx x0))) by ring.
    apply qi_mul_nz; [apply qi_mul_nz|]; assumption.
Qed.
End R2.

Transparent qi_sub qi_mul qi_div qi_add qx Qcminus Qcplus Qcmult cabs_lt add_eps Qcleb Qcltb Qcabs'.

(* the hypotheses of rfi_rational2_l are satisfiable: f(t) = (3 + i) / (t + 2), knots 1 and 4,
   x = 2, EPS = 1e-25 *)
Example rfi_rational2_instance :
  let e := qq 1 10000000000000000000000000 in
  let k := mkqi 3 1 1 1 in let p := mkqi 2 1 0 1 in
  let f := fun t : Qc => qi_div k (qi_add (qx t) p) in
  match rfi_full e (qz 10 * e)%Qc [qz 1; qz 4] [f (qz 1); f (qz 4)] 2 2 (qz 2) 7 with
  | Some (v, s, tr) => qi_eqb v (f (qz 2)) && (s =? 0) && (length tr =? 1)%nat
  | None => false
  end = true.
Proof. vm_compute. reflexivity. Qed.

(* order 3 on a concrete instance: f(t) = ((1 + 2i) + 3 t) / (5 + t), knots 0, 1, 3, 4 (window of
   three), x = 2 and x = 1/2, all hints -1 .. 4 *)
Example rfi_rational3_instance :
  let e := qq 1 10000000000000000000000000 in
  let f := fun t : Qc => qi_div (qi_add (mkqi 1 1 2 1) (qi_mul (mkqi 3 1 0 1) (qx t))) (qi_add (mkqi 5 1 0 1) (qx t)) in
  let xs := [qz 0; qz 1; qz 3; qz 4] in
  forallb (fun h =>
    forallb (fun x =>
      match rfi_full e (qz 10 * e)%Qc xs (map f xs) 4 3 x h with
      | Some (v, s, tr) => qi_eqb v (f x) && (length tr =? 3)%nat
      | None => false
      end) [qz 2; qq 1 2; qq 7 2; qz 5; qz (-1)])
    [-1; 0; 1; 2; 3; 4]%Z = true.
Proof. vm_compute. reflexivity. Qed.
