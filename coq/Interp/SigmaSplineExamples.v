(* Concrete sigma vectors (vm_compute): one point, exactly two points (between the knots and
   outside), three points that are not on a line, and the hypotheses of the theorems. *)
Require Import List ZArith QArith Qcanon.
Require Import LV.Interp.QOrd LV.Interp.SplineModel LV.Interp.SigmaSplineModel.
Import ListNotations.

Definition qz (a : Z) : Qc := Q2Qc (inject_Z a).
Definition mdx : Qc := Q2Qc (1 # 10000).

Example ex_sigma_two_points :
  sigma_interp mdx [qz 1; qz 3] [qz 5; qz 9] [qz 1; qz 2; qz 3; qz 0; qz 4; Q2Qc (3 # 2)] =
  Some [Some (qz 5); Some (qz 7); Some (qz 9); Some (qz 3); Some (qz 11); Some (qz 6)].
Proof. vm_compute. reflexivity. Qed.

Example ex_sigma_one_point :
  sigma_interp mdx [] [qz 5] [qz 1; qz 100] = Some [Some (qz 5); Some (qz 5)] /\
  sigma_interp mdx [qz 7] [qz 5] [qz 1] = Some [Some (qz 5)].
Proof. vm_compute. split; reflexivity. Qed.

(* three points off a line: exact at the points, history-free *)
Example ex_sigma_three_points :
  sigma_interp mdx [qz 1; qz 2; qz 4] [qz 1; qz 3; qz 2] [qz 4; qz 1; qz 2; qz 1] =
  Some [Some (qz 2); Some (qz 1); Some (qz 3); Some (qz 1)] /\
  sigma_interp mdx [qz 1; qz 2; Q2Qc (20001 # 10000)] [qz 1; qz 3; qz 2] [qz 1] <> None /\
  sigma_interp mdx [qz 1; qz 2; Q2Qc (40001 # 20000)] [qz 1; qz 3; qz 2] [qz 1] = None /\
  sigma_interp mdx [] [] [qz 1] = None.
Proof. vm_compute. repeat split; try reflexivity. discriminate. Qed.
