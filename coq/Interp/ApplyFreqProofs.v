(* The threaded interpolation loop of vnacal_apply (ApplyFreqModel.v): the term vector used at a
   request frequency is that of one fresh call per term - it depends on the frequency and the
   calibration only -, equals the stored terms at a calibration frequency, and reproduces terms that
   are low-order rational functions of frequency.  Induction over the term list and over the request
   list on top of rfi_no_fault / rfi_hint_indep / rfi_at_knot / rfi_rational2_dec / rfi_rational3_dec. *)
Require Import List ZArith QArith Qcanon Lia Bool.
Require Import LV.Base.QcI LV.Interp.QOrd LV.Interp.RfiModel LV.Interp.RfiProofs LV.Interp.C10Lemmas
               LV.Interp.RfiRationalEx LV.Interp.ApplyFreqModel.
Import ListNotations.
Local Open Scope Z_scope.

Lemma order_range n max_m : 1 <= n -> 1 <= max_m -> 1 <= rfi_order n max_m <= n.
Proof. intros. unfold rfi_order. destruct (n <=? max_m) eqn:E; [apply Z.leb_le in E|apply Z.leb_gt in E]; lia. Qed.

Section Loop.
Variables (eps cut : Qc) (xp : list Qc) (n max_m : Z).
Hypothesis Hx : zlen xp = n.
Hypothesis Hn : 1 <= n.
Hypothesis Hm : 1 <= max_m.
Hypothesis Hk : knots_ok eps xp n.

Let m := apply_order n max_m.
Let Hord : 1 <= m <= n := order_range n max_m Hn Hm.

Definition terms_wf (ts : list (list qi)) : Prop := Forall (fun yp => zlen yp = n) ts.

(* one call: never faults, and its value is that of a fresh call *)
Lemma call_spec yp x seg : zlen yp = n ->
  exists seg', rfi eps cut xp yp n m x seg = Some (fresh_value eps cut xp n max_m yp x, seg').
Proof.
  intro Hy.
  destruct (rfi_no_fault_l eps cut xp yp n m Hx Hy Hord x seg) as (v & h & E).
  destruct (rfi_no_fault_l eps cut xp yp n m Hx Hy Hord x 0) as (v0 & h0 & E0).
  assert (Hv := rfi_hint_indep_l2 eps cut xp yp n m Hx Hy Hk x seg 0).
  rewrite E, E0 in Hv. simpl in Hv. inversion Hv; subst v0.
  exists h. rewrite E. unfold fresh_value. fold m. rewrite E0. reflexivity.
Qed.

Lemma terms_at_spec ts : terms_wf ts -> forall x seg,
  exists seg', terms_at eps cut xp n max_m ts x seg = Some (fresh_terms eps cut xp n max_m ts x, seg').
Proof.
  induction 1 as [|yp rest Hy Hr IH]; intros x seg.
  - exists seg. reflexivity.
  - destruct (call_spec yp x seg Hy) as (s1 & E1).
    destruct (IH x s1) as (s2 & E2).
    exists s2. simpl. fold m. rewrite E1, E2. reflexivity.
Qed.

(* the whole request: whatever the initial segment, the order of the frequencies, repetitions *)
Lemma apply_loop_spec ts : terms_wf ts -> forall req seg,
  exists seg', apply_loop eps cut xp n max_m ts req seg =
               Some (map (fresh_terms eps cut xp n max_m ts) req, seg').
Proof.
  intros Hts req. induction req as [|x r IH]; intro seg.
  - exists seg. reflexivity.
  - destruct (terms_at_spec ts Hts x seg) as (s1 & E1).
    destruct (IH s1) as (s2 & E2).
    exists s2. simpl. rewrite E1, E2. reflexivity.
Qed.

(* pointwise: the terms used at position i of one request and at position j of another request are
   the same as soon as the two frequencies are the same *)
Lemma apply_request_pointwise_l ts : terms_wf ts ->
  forall req1 req2 seg1 seg2 out1 out2 s1 s2 i j f,
  apply_loop eps cut xp n max_m ts req1 seg1 = Some (out1, s1) ->
  apply_loop eps cut xp n max_m ts req2 seg2 = Some (out2, s2) ->
  nth_error req1 i = Some f -> nth_error req2 j = Some f ->
  nth_error out1 i = Some (fresh_terms eps cut xp n max_m ts f) /\
  nth_error out2 j = Some (fresh_terms eps cut xp n max_m ts f).
Proof.
  intros Hts req1 req2 seg1 seg2 out1 out2 s1 s2 i j f E1 E2 H1 H2.
  destruct (apply_loop_spec ts Hts req1 seg1) as (a & Ea).
  destruct (apply_loop_spec ts Hts req2 seg2) as (b & Eb).
  rewrite Ea in E1. rewrite Eb in E2. inversion E1; inversion E2; subst.
  split; apply map_nth_error; assumption.
Qed.

(* at a calibration frequency: the stored terms *)
Lemma fresh_at_knot yp k : zlen yp = n -> 0 <= k < n ->
  fresh_value eps cut xp n max_m yp (xat xp k) = yat yp k.
Proof.
  intros Hy Hkk. destruct Hk as [He Hs].
  assert (E : rfi eps cut xp yp n m (xat xp k) 0 = Some (yat yp k, 0))
    by exact (rfi_at_knot_l eps cut xp yp n m Hx Hy Hord He Hs k 0 Hkk).
  unfold fresh_value. fold m. rewrite E. reflexivity.
Qed.

Lemma fresh_terms_at_knot ts k : terms_wf ts -> 0 <= k < n ->
  fresh_terms eps cut xp n max_m ts (xat xp k) = map (fun yp => yat yp k) ts.
Proof.
  intros Hts Hkk. unfold fresh_terms. apply map_ext_in. intros yp Hin.
  apply fresh_at_knot; [|assumption]. exact (proj1 (Forall_forall _ _) Hts yp Hin).
Qed.

Lemma apply_terms_at_knot_l ts : terms_wf ts -> forall req seg k i,
  0 <= k < n -> nth_error req i = Some (xat xp k) ->
  exists out seg', apply_loop eps cut xp n max_m ts req seg = Some (out, seg') /\
                   nth_error out i = Some (map (fun yp => yat yp k) ts).
Proof.
  intros Hts req seg k i Hkk Hi.
  destruct (apply_loop_spec ts Hts req seg) as (s & E).
  eexists _, s. split; [exact E|].
  rewrite (map_nth_error _ _ _ Hi). rewrite fresh_terms_at_knot by assumption. reflexivity.
Qed.

(* ---- low-order rational terms.  A term is given by its coefficients; its stored vector is the
   function sampled at the calibration frequencies. *)
Definition term2 (kp : qi * qi) : list qi := map (rat2 (fst kp) (snd kp)) xp.
Definition term3 (abc : qi * qi * qi) : list qi := map (rat3 (fst (fst abc)) (snd (fst abc)) (snd abc)) xp.

(* decidable side conditions at the frequency x: data admissible (denominators and real parts
   non-zero), x not a pole, the recurrence of a fresh call ran to completion with admissible steps *)
Definition complete (steps : nat) (yp : list qi) (x : Qc) : bool :=
  match rfi_full eps cut xp yp n m x 0 with
  | Some (_, _, tr) => (length tr =? steps)%nat && forallb (step_okb cut) tr
  | None => false
  end.
Definition term2_ok (x : Qc) (kp : qi * qi) : bool :=
  data_okb (rat2 (fst kp) (snd kp)) (fun t => qi_add (qx t) (snd kp)) xp &&
  qi_nzb (qi_add (qx x) (snd kp)) && complete 1 (term2 kp) x.
Definition term3_ok (x : Qc) (abc : qi * qi * qi) : bool :=
  data_okb (rat3 (fst (fst abc)) (snd (fst abc)) (snd abc)) (fun t => qi_add (snd abc) (qx t)) xp &&
  qi_nzb (qi_add (snd abc) (qx x)) && complete 3 (term3 abc) x.

Lemma fresh_of_full yp x v s tr : rfi_full eps cut xp yp n m x 0 = Some (v, s, tr) ->
  fresh_value eps cut xp n max_m yp x = v.
Proof. intro E. unfold fresh_value, rfi. fold m. rewrite E. reflexivity. Qed.

Lemma fresh_term2 x kp : m = 2 -> term2_ok x kp = true ->
  fresh_value eps cut xp n max_m (term2 kp) x = rat2 (fst kp) (snd kp) x.
Proof.
  intros Hm2 H. unfold term2_ok in H. apply andb_true_iff in H. destruct H as [H Hc].
  apply andb_true_iff in H. destruct H as [Hd Hp].
  unfold complete in Hc. rewrite Hm2 in Hc.
  assert (H2 : 2 <= zlen xp) by (rewrite Hx; lia).
  assert (R := rfi_rational2_dec eps cut xp (fst kp) (snd kp) x 0 H2 Hd Hp).
  rewrite Hx in R. unfold term2 in *.
  destruct (rfi_full eps cut xp (map (rat2 (fst kp) (snd kp)) xp) n 2 x 0) as [[[v s] tr]|] eqn:E; [|discriminate].
  simpl in R. rewrite <- (R Hc). apply (fresh_of_full _ x v s tr). rewrite Hm2. exact E.
Qed.

Lemma fresh_term3 x abc : m = 3 -> term3_ok x abc = true ->
  fresh_value eps cut xp n max_m (term3 abc) x = rat3 (fst (fst abc)) (snd (fst abc)) (snd abc) x.
Proof.
  intros Hm3 H. unfold term3_ok in H. apply andb_true_iff in H. destruct H as [H Hc].
  apply andb_true_iff in H. destruct H as [Hd Hp].
  unfold complete in Hc. rewrite Hm3 in Hc.
  assert (H3 : 3 <= zlen xp) by (rewrite Hx; lia).
  assert (R := rfi_rational3_dec eps cut xp (fst (fst abc)) (snd (fst abc)) (snd abc) x 0 H3 Hd Hp).
  rewrite Hx in R. unfold term3 in *.
  destruct (rfi_full eps cut xp (map (rat3 (fst (fst abc)) (snd (fst abc)) (snd abc)) xp) n 3 x 0) as [[[v s] tr]|] eqn:E; [|discriminate].
  simpl in R. rewrite <- (R Hc). apply (fresh_of_full _ x v s tr). rewrite Hm3. exact E.
Qed.

Lemma term2_wf cs : terms_wf (map term2 cs).
Proof. apply Forall_forall. intros yp H. apply in_map_iff in H. destruct H as (kp & <- & _). unfold term2, zlen. rewrite map_length. exact Hx. Qed.
Lemma term3_wf cs : terms_wf (map term3 cs).
Proof. apply Forall_forall. intros yp H. apply in_map_iff in H. destruct H as (kp & <- & _). unfold term3, zlen. rewrite map_length. exact Hx. Qed.

(* order 2 (a two-point calibration, or VNACAL_MAX_M = 2): every term k / (f + p) *)
Lemma apply_low_order_exact2_l cs req seg : m = 2 ->
  (forall x, In x req -> forallb (term2_ok x) cs = true) ->
  exists seg', apply_loop eps cut xp n max_m (map term2 cs) req seg =
               Some (map (fun x => map (fun kp => rat2 (fst kp) (snd kp) x) cs) req, seg').
Proof.
  intros Hm2 Hok. destruct (apply_loop_spec _ (term2_wf cs) req seg) as (s & E).
  exists s. rewrite E. f_equal. f_equal. apply map_ext_in. intros x Hin.
  unfold fresh_terms. rewrite map_map. apply map_ext_in. intros kp Hkp.
  apply fresh_term2; [assumption|]. exact (proj1 (forallb_forall _ _) (Hok x Hin) kp Hkp).
Qed.

(* order 3 (a three-point calibration, or VNACAL_MAX_M = 3): every term (a + b f) / (c + f) *)
Lemma apply_low_order_exact3_l cs req seg : m = 3 ->
  (forall x, In x req -> forallb (term3_ok x) cs = true) ->
  exists seg', apply_loop eps cut xp n max_m (map term3 cs) req seg =
               Some (map (fun x => map (fun abc => rat3 (fst (fst abc)) (snd (fst abc)) (snd abc) x) cs) req, seg').
Proof.
  intros Hm3 Hok. destruct (apply_loop_spec _ (term3_wf cs) req seg) as (s & E).
  exists s. rewrite E. f_equal. f_equal. apply map_ext_in. intros x Hin.
  unfold fresh_terms. rewrite map_map. apply map_ext_in. intros abc Habc.
  apply fresh_term3; [assumption|]. exact (proj1 (forallb_forall _ _) (Hok x Hin) abc Habc).
Qed.

End Loop.

(* ---- as coded at the edges *)
(* a zero-length request: no call, the segment untouched, whatever the calibration *)
Lemma apply_zero_length_l eps cut xp n max_m ts : apply_terms eps cut xp n max_m ts [] = Some ([], 0).
Proof. reflexivity. Qed.

(* a one-point calibration: every request frequency gets the stored terms (the only point), and the
   segment is never moved *)
Lemma one_point_call eps cut xp max_m yp x seg : zlen xp = 1 -> zlen yp = 1 -> 1 <= max_m ->
  rfi eps cut xp yp 1 (rfi_order 1 max_m) x seg = Some (yat yp 0, seg).
Proof.
  intros Hx Hy Hm. assert (rfi_order 1 max_m = 1) as -> by (unfold rfi_order; destruct (1 <=? max_m) eqn:E; [reflexivity|apply Z.leb_gt in E; lia]).
  destruct yp as [|y [|y' r]]; unfold zlen in Hy; simpl in Hy; try lia.
  unfold rfi, rfi_full. simpl. reflexivity.
Qed.

Lemma apply_one_point_cal_l eps cut xp max_m ts : zlen xp = 1 -> Forall (fun yp => zlen yp = 1) ts -> 1 <= max_m ->
  forall req seg, apply_loop eps cut xp 1 max_m ts req seg =
                  Some (map (fun _ => map (fun yp => yat yp 0) ts) req, seg).
Proof.
  intros Hx Hts Hm.
  assert (T : forall x seg, terms_at eps cut xp 1 max_m ts x seg = Some (map (fun yp => yat yp 0) ts, seg)).
  { induction Hts as [|yp rest Hy Hr IH]; intros x seg; [reflexivity|].
    simpl. unfold apply_order. rewrite (one_point_call eps cut xp max_m yp x seg Hx Hy Hm). rewrite IH. reflexivity. }
  induction req as [|x r IH]; intro seg; [reflexivity|].
  simpl. rewrite T, IH. reflexivity.
Qed.
