(* The frequency side of _vnacal_apply_common (src/vnacal_apply.c), as coded, on top of RfiModel:

     int segment = 0;
     for (findex = 0; findex < vaa_frequencies; ++findex) {
         f = vaa_frequency_vector[findex];
         for (term = 0; term < cal_error_terms; ++term)
             t[term] = _vnacal_rfi(cal_frequency_vector, cal_error_term_vector[term], cal_frequencies,
                                   MIN(cal_frequencies, VNACAL_MAX_M), &segment, f);
         ... fill + divide with t (C01 / C19) ...
     }

   one _vnacal_rfi call per term per request frequency, all sharing ONE segment variable that is
   carried from term to term and from one request frequency to the next.  A faulting call
   (RfiModel: None = an assert of _vnacal_rfi or an index out of bounds) aborts the whole request.
   xp = calibration frequencies, terms = one value vector per error term, n = cal_frequencies,
   max_m = VNACAL_MAX_M.  No proofs in this file. *)
Require Import List ZArith QArith Qcanon.
Require Import LV.Base.QcI LV.Interp.QOrd LV.Interp.RfiModel.
Import ListNotations.
Local Open Scope Z_scope.

Section Apply.
Variables (eps cut : Qc) (xp : list Qc) (n max_m : Z).

Definition apply_order : Z := rfi_order n max_m.          (* MIN(cal_frequencies, VNACAL_MAX_M) *)

(* the term loop at one request frequency: values in term order, the segment after the last call *)
Fixpoint terms_at (ts : list (list qi)) (x : Qc) (seg : Z) : option (list qi * Z) :=
  match ts with
  | [] => Some ([], seg)
  | yp :: rest =>
    match rfi eps cut xp yp n apply_order x seg with
    | None => None
    | Some (v, seg1) =>
      match terms_at rest x seg1 with
      | None => None
      | Some (vs, seg2) => Some (v :: vs, seg2)
      end
    end
  end.

(* the findex loop: one term vector per request frequency, in request order *)
Fixpoint apply_loop (ts : list (list qi)) (req : list Qc) (seg : Z) : option (list (list qi) * Z) :=
  match req with
  | [] => Some ([], seg)
  | x :: r =>
    match terms_at ts x seg with
    | None => None
    | Some (t, seg1) =>
      match apply_loop ts r seg1 with
      | None => None
      | Some (out, seg2) => Some (t :: out, seg2)
      end
    end
  end.

Definition apply_terms (ts : list (list qi)) (req : list Qc) : option (list (list qi) * Z) :=
  apply_loop ts req 0.                                     (* int segment = 0; *)

(* the same with every call recorded: (segment before, value, segment after), the observable of
   the white-box tie *)
Fixpoint terms_trace (ts : list (list qi)) (x : Qc) (seg : Z) : list (Z * option (qi * Z)) * Z :=
  match ts with
  | [] => ([], seg)
  | yp :: rest =>
    let r := rfi eps cut xp yp n apply_order x seg in
    let seg1 := match r with Some (_, s) => s | None => seg end in
    let '(l, s2) := terms_trace rest x seg1 in
    ((seg, r) :: l, s2)
  end.

Fixpoint apply_trace (ts : list (list qi)) (req : list Qc) (seg : Z) : list (list (Z * option (qi * Z))) :=
  match req with
  | [] => []
  | x :: r => let '(l, s1) := terms_trace ts x seg in l :: apply_trace ts r s1
  end.

(* what the theorems compare with: one fresh call (segment 0) per term *)
Definition fresh_value (yp : list qi) (x : Qc) : qi :=
  match rfi eps cut xp yp n apply_order x 0 with
  | Some (v, _) => v
  | None => qi0
  end.
Definition fresh_terms (ts : list (list qi)) (x : Qc) : list qi := map (fun yp => fresh_value yp x) ts.

End Apply.
