(* Lemmas about SplineModel (property C10): the spline passes through the supplied points,
   reproduces data that lie on a line (everywhere, including the linear extrapolation), and has
   no hidden state. *)
Require Import List ZArith QArith Qcanon Lia Bool Field.
Require Import LV.Interp.QOrd LV.Interp.SplineModel.
Import ListNotations.
Local Open Scope Z_scope.

Lemma nth_zrange k : forall i j d, (j < k)%nat -> nth j (zrange k i) d = i + Z.of_nat j.
Proof.
  induction k as [|k IH]; intros i j d H; [lia|].
  destruct j as [|j]; simpl; [lia|]. rewrite IH by lia. lia.
Qed.

Lemma zrange_length k i : length (zrange k i) = k.
Proof. revert i; induction k as [|k IH]; intros i; simpl; [reflexivity|]. rewrite IH. reflexivity. Qed.

Lemma zrange_in k : forall i z, In z (zrange k i) -> i <= z < i + Z.of_nat k.
Proof.
  induction k as [|k IH]; intros i z H; [destruct H|].
  destruct H as [<-|H]; [lia|]. apply IH in H. lia.
Qed.

Section Proofs.
Variables (min_dx : Qc) (xs ys : list Qc) (n : Z).
Hypothesis Hn : 1 <= n.

Let X (i : Z) : Qc := gq xs i.
Let Y (i : Z) : Qc := gq ys i.

Hypothesis Hinc : forall i, 0 <= i < n -> (X i < X (i + 1))%Qc.

Lemma X_mono_nat k : forall i, 0 <= i -> i + Z.of_nat (S k) <= n -> (X i < X (i + Z.of_nat (S k)))%Qc.
Proof.
  induction k as [|k IH]; intros i H0 H1.
  - replace (i + Z.of_nat 1) with (i + 1) by lia. apply Hinc; lia.
  - apply Qclt_trans with (X (i + Z.of_nat (S k))); [apply IH; lia|].
    replace (i + Z.of_nat (S (S k))) with (i + Z.of_nat (S k) + 1) by lia.
    apply Hinc; lia.
Qed.

Lemma X_mono i j : 0 <= i -> i < j -> j <= n -> (X i < X j)%Qc.
Proof.
  intros H0 H1 H2. replace j with (i + Z.of_nat (S (Z.to_nat (j - i - 1)))) by lia.
  apply X_mono_nat; lia.
Qed.

Lemma X_mono_le i j : 0 <= i -> i <= j -> j <= n -> (X i <= X j)%Qc.
Proof.
  intros H0 H1 H2. destruct (Z.eq_dec i j) as [->|Hne]; [apply Qcle_refl|].
  apply Qclt_le_weak. apply X_mono; lia.
Qed.

(* ---------------------------------------------------------------- binary search *)
Lemma quot2 a : 0 <= a -> Z.quot a 2 = a / 2.
Proof. intros H. apply Z.quot_div_nonneg; lia. Qed.

Lemma bsearch_finds x k : 0 <= k < n -> (X k <= x)%Qc -> (x < X (k + 1))%Qc ->
  forall fuel low high, 0 <= low <= k -> k <= high <= n - 1 -> (Z.to_nat (high - low) < fuel)%nat ->
  bsearch xs x fuel low high = k.
Proof.
  intros Hk Hlo Hhi. induction fuel as [|f IH]; intros low high Hl Hh Hf; [lia|].
  simpl. rewrite quot2 by lia.
  assert (Hi : low <= (low + high) / 2 <= high)
    by (split; [apply Z.div_le_lower_bound|apply Z.div_le_upper_bound]; lia).
  set (i := (low + high) / 2) in *.
  destruct (high <=? low) eqn:E; [apply Z.leb_le in E; lia|apply Z.leb_gt in E].
  fold (X i). fold (X (i + 1)).
  destruct (Qcltb x (X i)) eqn:L1.
  - apply Qcltb_true in L1.
    assert (k < i).
    { destruct (Z_lt_ge_dec k i) as [G|G]; [exact G|]. exfalso.
      apply (Qclt_not_le _ _ L1). apply Qcle_trans with (X k); [apply X_mono_le; lia|exact Hlo]. }
    apply IH; lia.
  - apply Qcltb_false in L1.
    destruct (Qcleb (X (i + 1)) x) eqn:L2.
    + apply Qcleb_true in L2.
      assert (i + 1 <= k).
      { destruct (Z_le_gt_dec (i + 1) k) as [G|G]; [exact G|]. exfalso.
        apply (Qclt_not_le _ _ Hhi). apply Qcle_trans with (X (i + 1)); [apply X_mono_le; lia|exact L2]. }
      apply IH; lia.
    + apply Qcleb_false in L2.
      assert (i < k + 1).
      { destruct (Z_lt_ge_dec i (k + 1)) as [G|G]; [exact G|]. exfalso.
        apply (Qclt_not_le _ _ Hhi). apply Qcle_trans with (X i); [apply X_mono_le; lia|exact L1]. }
      assert (k < i + 1).
      { destruct (Z_lt_ge_dec k (i + 1)) as [G|G]; [exact G|]. exfalso.
        apply (Qclt_not_le _ _ L2). apply Qcle_trans with (X k); [apply X_mono_le; lia|exact Hlo]. }
      lia.
Qed.

Lemma bsearch_range x : forall fuel low high, 0 <= low -> low <= high + 1 -> high + 1 <= n ->
  0 <= bsearch xs x fuel low high <= n - 1.
Proof.
  assert (Hq : forall low high, 0 <= low -> low <= high + 1 -> high + 1 <= n ->
                                0 <= Z.quot (low + high) 2 <= n - 1).
  { intros low high H0 H1 H2. destruct (Z.eq_dec high (-1)) as [->|Hne].
    - assert (low = 0) by lia. subst low. change (Z.quot (0 + -1) 2) with 0. lia.
    - rewrite quot2 by lia. split; [apply Z.div_pos; lia|].
      assert ((low + high) / 2 < n) by (apply Z.div_lt_upper_bound; lia). lia. }
  induction fuel as [|f IH]; intros low high H0 H1 H2; simpl; [apply Hq; assumption|].
  destruct (high <=? low) eqn:E; [apply Hq; assumption|apply Z.leb_gt in E].
  assert (Hi : low <= Z.quot (low + high) 2 <= high).
  { rewrite quot2 by lia. split; [apply Z.div_le_lower_bound|apply Z.div_le_upper_bound]; lia. }
  destruct (Qcltb _ _); [apply IH; lia|].
  destruct (Qcleb _ _); [apply IH; lia|]. lia.
Qed.

(* ---------------------------------------------------------------- exact at the knots *)
Lemma spline_at_knot_l cs k : 0 <= k <= n ->
  spline_eval xs ys n cs (X k) = Some (Y k).
Proof.
  intros Hk. unfold spline_eval.
  destruct (n <? 1) eqn:E; [apply Z.ltb_lt in E; lia|].
  fold (X 0). fold (X n).
  replace (Qcltb (X k) (X 0)) with false
    by (symmetry; apply Qcltb_false; apply X_mono_le; lia).
  destruct (Z.eq_dec k n) as [->|Hne].
  - replace (Qcleb (X n) (X n)) with true by (symmetry; apply Qcleb_true; apply Qcle_refl).
    f_equal. fold (Y n). ring.
  - replace (Qcleb (X n) (X k)) with false
      by (symmetry; apply Qcleb_false; apply X_mono; lia).
    rewrite (bsearch_finds (X k) k); try lia.
    + f_equal. fold (X k). fold (Y k). ring.
    + apply Qcle_refl.
    + apply Hinc; lia.
Qed.

(* ---------------------------------------------------------------- data on a line *)
Variables (p q : Qc).
Hypothesis Hline : forall i, 0 <= i <= n -> Y i = (p + q * X i)%Qc.
Hypothesis Hgap : forall i, 0 <= i < n -> (min_dx <= X (i + 1) - X i)%Qc.

Lemma hp_nz i : 0 <= i < n -> hp xs i <> 0%Qc.
Proof.
  intros H E. unfold hp in E. fold (X (i + 1)) in E. fold (X i) in E.
  assert (Hlt := Hinc i H). rewrite <- (Qcplus_0_r (X i)) in Hlt at 1.
  assert (X (i + 1) = X i) by (rewrite <- (Qcplus_0_r (X i)), <- E; ring).
  rewrite H0 in Hlt. rewrite Qcplus_0_r in Hlt. exact (Qclt_not_eq _ _ Hlt eq_refl).
Qed.

Lemma mp_const i : 0 <= i < n -> mp xs ys i = q.
Proof.
  intros H. unfold mp. assert (Hh := hp_nz i H). unfold hp in *.
  fold (Y (i + 1)). fold (Y i). rewrite !Hline by lia.
  fold (X (i + 1)) in *. fold (X i) in *. field. exact Hh.
Qed.

Lemma fwd_v0 k : forall i uprev, 1 <= i -> i + Z.of_nat k <= n - 1 ->
  Forall (fun uv => snd uv = 0%Qc) (fwd xs ys k i uprev 0%Qc).
Proof.
  induction k as [|k IH]; intros i uprev H1 H2; simpl; [constructor|].
  assert (Ev : (q6 * (mp xs ys (i + 1) - mp xs ys i) - hp xs i * 0 / uprev = 0)%Qc).
  { rewrite !mp_const by lia. unfold Qcdiv. ring. }
  constructor; [exact Ev|]. rewrite Ev. apply IH; lia.
Qed.

Lemma uv_v0 : Forall (fun uv => snd uv = 0%Qc) (uv xs ys n).
Proof.
  unfold uv. destruct (1 <? n) eqn:E; [apply Z.ltb_lt in E|constructor].
  assert (Ev : (q6 * (mp xs ys 1 - mp xs ys 0) = 0)%Qc) by (rewrite !mp_const by lia; ring).
  constructor; [exact Ev|]. rewrite Ev. apply fwd_v0; lia.
Qed.

Lemma back_zero l : Forall (fun uv => snd uv = 0%Qc) l -> forall i,
  Forall (fun v => v = 0%Qc) (back xs l i).
Proof.
  induction 1 as [|[u v] r Hv Hr IH]; intros i; simpl.
  - constructor; [reflexivity|constructor].
  - specialize (IH (i + 1)). constructor; [|exact IH].
    simpl in Hv. subst v. destruct (back xs r (i + 1)) as [|h t]; simpl.
    + unfold Qcdiv. ring.
    + inversion IH; subst. unfold Qcdiv. ring.
Qed.

Lemma sp_zero i : gq (sp xs ys n) i = 0%Qc.
Proof.
  assert (H : Forall (fun v => v = 0%Qc) (sp xs ys n)).
  { unfold sp. constructor; [reflexivity|]. apply back_zero. apply uv_v0. }
  unfold gq. rewrite Forall_forall in H.
  destruct (nth_in_or_default (Z.to_nat i) (sp xs ys n) 0%Qc) as [Hin|Hd]; [apply H; exact Hin|exact Hd].
Qed.

Lemma coef_line i : 0 <= i < n -> coef_at xs ys n i = (q, 0, 0)%Qc.
Proof.
  intros H. unfold coef_at. rewrite !sp_zero.
  assert (Hm := mp_const i H). unfold mp in Hm. rewrite Hm.
  assert (Hh := hp_nz i H).
  f_equal; [f_equal|]; unfold Qcdiv; ring.
Qed.

Lemma calc_line : spline_calc min_dx xs ys n = Some (map (coef_at xs ys n) (zrange (Z.to_nat n) 0)).
Proof.
  unfold spline_calc. destruct (n <? 1) eqn:E; [apply Z.ltb_lt in E; lia|].
  replace (existsb _ _) with false; [reflexivity|].
  symmetry. apply not_true_is_false. intros Hex. apply existsb_exists in Hex.
  destruct Hex as (i & Hin & Hlt). apply zrange_in in Hin. apply Qcltb_true in Hlt.
  unfold hp in Hlt. apply (Qclt_not_le _ _ Hlt). apply Hgap. lia.
Qed.

Lemma gc_line i : 0 <= i < n -> gc (map (coef_at xs ys n) (zrange (Z.to_nat n) 0)) i = (q, 0, 0)%Qc.
Proof.
  intros H. unfold gc.
  rewrite (nth_indep _ _ (coef_at xs ys n 0)) by (rewrite map_length, zrange_length; lia).
  rewrite (map_nth (coef_at xs ys n)). rewrite nth_zrange by lia.
  rewrite coef_line by lia. reflexivity.
Qed.

Lemma eval_line x : spline_eval xs ys n (map (coef_at xs ys n) (zrange (Z.to_nat n) 0)) x = Some (p + q * x)%Qc.
Proof.
  unfold spline_eval. destruct (n <? 1) eqn:E; [apply Z.ltb_lt in E; lia|].
  destruct (Qcltb x (gq xs 0)).
  - rewrite gc_line by lia. fold (Y 0). rewrite Hline by lia. fold (X 0).
    unfold cB; simpl. f_equal. ring.
  - destruct (Qcleb (gq xs n) x).
    + rewrite gc_line by lia. fold (Y n). rewrite Hline by lia. fold (X n).
      unfold cB, cC, cD; simpl. f_equal. ring.
    + assert (Hr := bsearch_range x (S (Z.to_nat n)) 0 (n - 1) ltac:(lia) ltac:(lia) ltac:(lia)).
      set (i := bsearch xs x (S (Z.to_nat n)) 0 (n - 1)) in *.
      rewrite gc_line by lia. fold (Y i). rewrite Hline by lia. fold (X i).
      unfold cB, cC, cD; simpl. f_equal. ring.
Qed.

End Proofs.

(* no hidden state: a query is answered the same way whatever was asked before *)
Lemma spline_history_free_l min_dx xs ys before q l1 l2 :
  spline_interp min_dx xs ys (before ++ [q]) = Some l1 ->
  spline_interp min_dx xs ys [q] = Some l2 ->
  last l1 None = last l2 None.
Proof.
  unfold spline_interp. destruct (spline_calc _ _ _ _) as [cs|]; [|discriminate].
  intros H1 H2. inversion H1; inversion H2; subst. rewrite map_app. simpl.
  rewrite last_last. reflexivity.
Qed.
