(* Executable model of _vnacal_rfi (src/vnacal_rfi.c) as coded, over exact rationals:
   x values are Qc, y values Gaussian rationals qi (Base/QcI.v).  Every array access of the C
   function is a checked read/write here (None = out of bounds, or one of the function's
   assert()s failed, or a VLA of non-positive length): "no fault" is "the result is Some".
   The constants EPS and 10*EPS are parameters (eps, cut); the check instantiates them with the
   values regenerated from the C text (Gen/RangeGen.v).  No proofs in this file. *)
Require Import List ZArith QArith Qcanon.
Require Import LV.Base.QcI LV.Interp.QOrd.
Import ListNotations.
Local Open Scope Z_scope.

Definition rd {A} (l : list A) (i : Z) : option A :=
  if i <? 0 then None else nth_error l (Z.to_nat i).

Fixpoint upd {A} (l : list A) (k : nat) (v : A) : list A :=
  match l, k with
  | [], _ => []
  | _ :: t, O => v :: t
  | h :: t, S k' => h :: upd t k' v
  end.

Definition wr {A} (l : list A) (i : Z) (v : A) : option (list A) :=
  if (i <? 0) || (Z.of_nat (length l) <=? i) then None else Some (upd l (Z.to_nat i) v).

Definition zlen {A} (l : list A) : Z := Z.of_nat (length l).

Notation "'do' x <- e ; f" := (match e with Some x => f | None => None end)
  (at level 200, x pattern, e at level 100, f at level 200, right associativity).

(* one recorded step of the recurrence: (den, dx1 * d[j], dx2 * c[j+1]) *)
Definition bs_step := (qi * qi * qi)%type.

Section Rfi.
Variables (eps cut : Qc).          (* EPS and 10.0 * EPS *)
Variables (xp : list Qc) (yp : list qi).
Variables (n m : Z).               (* the int arguments n and m *)
Variable x : Qc.

(* if (segment < 0) segment = 0; else if (segment > n - 2) segment = n - 2; *)
Definition clamp (hint : Z) : Z :=
  if hint <? 0 then 0 else if n - 2 <? hint then n - 2 else hint.

(* while (segment > 0 && x < xp[segment]) --segment;        fuel = segment *)
Fixpoint search_down (fuel : nat) (s : Z) : option Z :=
  match fuel with
  | O => Some s
  | S f =>
    if 0 <? s then
      do v <- rd xp s;
      if Qcltb x v then search_down f (s - 1) else Some s
    else Some s
  end.

(* while (segment < n - 2 && x > xp[segment + 1]) ++segment;    fuel = n - 2 - segment *)
Fixpoint search_up (fuel : nat) (s : Z) : option Z :=
  match fuel with
  | O => Some s
  | S f =>
    if s <? n - 2 then
      do v <- rd xp (s + 1);
      if Qcltb v x then search_up f (s + 1) else Some s
    else Some s
  end.

Definition search (s0 : Z) : option Z :=
  do v <- rd xp s0;
  if Qcltb x v then search_down (Z.to_nat s0) s0
  else search_up (Z.to_nat (n - 2 - s0)) s0.

Inductive knot_res := Ret (y : qi) | Near (nearest : Z).

Definition knot_test (s : Z) : option knot_res :=
  do xs <- rd xp s;
  let dx1 := Qcabs' (x - xs)%Qc in
  if Qcleb dx1 eps then (do y <- rd yp s; Some (Ret y)) else
  do xs1 <- rd xp (s + 1);
  let dx2 := Qcabs' (x - xs1)%Qc in
  if Qcleb dx2 eps then (do y <- rd yp (s + 1); Some (Ret y)) else
  Some (Near (if Qcleb dx1 dx2 || (m <? 2) then s else s + 1)).

Definition window_base (s nearest : Z) : Z :=
  let b := if Z.odd m then nearest - Z.quot (m - 1) 2 else s - (Z.quot m 2 - 1) in
  if b <? 0 then 0 else if n <? b + m then n - m else b.

(* c[i] = yp[base + i] for i = 0 .. m-1 *)
Fixpoint take_y (k : nat) (i : Z) : option (list qi) :=
  match k with
  | O => Some []
  | S k' => do y <- rd yp i; do r <- take_y k' (i + 1); Some (y :: r)
  end.

Definition qx (v : Qc) : qi := qi_of_Qc v.

(* d[i] = yp[base + i] + EPS.  This is the one place where binary64 rounding changes the control
   flow of the function, so it is modelled: adding EPS = 1e-25 to a double whose real part has
   magnitude >= 2^-29 returns that double unchanged (for flat data c[j+1] - d[j] is then exactly
   0 and the recurrence stops at the cut-off test), while 0 + EPS = EPS.  The correspondence
   uses data whose real parts are 0 or at least 2^-29 in magnitude. *)
Definition add_eps (y : qi) : qi :=
  if Qc_eq_dec (qre y) 0%Qc then qi_add y (qx eps) else y.
Definition cabs_lt (z : qi) (t : Qc) : bool := Qcltb (qi_nrm z) (t * t)%Qc.   (* cabs(z) < t, t >= 0 *)

(* for (j = 0; j < m - i - 1; ++j) { ... }       fuel = m - i - 1 - j;   Some None = goto done *)
Fixpoint inner (fuel : nat) (j i base : Z) (c d : list qi) (tr : list bs_step)
  : option (option (list qi * list qi) * list bs_step) :=
  match fuel with
  | O => Some (Some (c, d), tr)
  | S f =>
    do cj1 <- rd c (j + 1);
    do dj <- rd d j;
    do xa <- rd xp (base + j);
    do xb <- rd xp (base + i + j + 1);
    let c_d := qi_sub cj1 dj in
    let dx1 := qx (x - xa)%Qc in
    let dx2 := qx (x - xb)%Qc in
    let den := qi_sub (qi_mul dx1 dj) (qi_mul dx2 cj1) in
    let tr' := tr ++ [(den, qi_mul dx1 dj, qi_mul dx2 cj1)] in
    if cabs_lt den cut then Some (None, tr') else
    do c' <- wr c j (qi_div (qi_mul (qi_mul c_d dx1) dj) den);
    do cj1' <- rd c' (j + 1);
    do d' <- wr d j (qi_div (qi_mul (qi_mul c_d dx2) cj1') den);
    inner f (j + 1) i base c' d' tr'
  end.

(* for (i = 0; i < m - 1; ++i) { inner; y += c[cur+1] or d[cur--] }      fuel = m - 1 - i *)
Fixpoint outer (fuel : nat) (i base : Z) (c d : list qi) (y : qi) (cur : Z) (tr : list bs_step)
  : option (qi * list bs_step) :=
  match fuel with
  | O => Some (y, tr)
  | S f =>
    do r <- inner (Z.to_nat (m - i - 1)) 0 i base c d tr;
    match r with
    | (None, tr') => Some (y, tr')
    | (Some (c', d'), tr') =>
      if 2 * (cur + 1) <? m - i then
        if (0 <=? cur + 1) && (cur + 1 <? m - i) then
          do v <- rd c' (cur + 1); outer f (i + 1) base c' d' (qi_add y v) cur tr'
        else None
      else
        if (0 <=? cur) && (cur <? m - i) then
          do v <- rd d' cur; outer f (i + 1) base c' d' (qi_add y v) (cur - 1) tr'
        else None
    end
  end.

(* everything after the segment search *)
Definition after (hint s : Z) : option (qi * Z * list bs_step) :=
  do k <- knot_test s;
  match k with
  | Ret y => Some (y, hint, [])
  | Near nearest =>
    let base := window_base s nearest in
    let cur := nearest - base in
    if (0 <=? base) && (base <=? n - m) && (0 <=? cur) && (cur <? m) then
      do c <- take_y (Z.to_nat m) base;
      let d := map add_eps c in
      do y0 <- rd yp (base + cur);
      do r <- outer (Z.to_nat (m - 1)) 0 base c d y0 (cur - 1) [];
      Some (fst r, s, snd r)
    else None
  end.

(* value, new value of *ip_segment, recorded recurrence steps *)
Definition rfi_full (hint : Z) : option (qi * Z * list bs_step) :=
  if (n <? 1) || (n <? m) || (m <? 1) then None          (* assert(n >= 1); assert(m <= n); c[m] *)
  else if n <? 2 then do y <- rd yp 0; Some (y, hint, [])
  else do s <- search (clamp hint); after hint s.

Definition rfi (hint : Z) : option (qi * Z) :=
  do r <- rfi_full hint; Some (fst (fst r), snd (fst r)).

End Rfi.

(* A parameter object with its cached segment: queries one after another, as
   vnacal_get_parameter_value / _vnacal_get_parameter_value_i / the findex loop of apply do.
   A faulting query leaves the hint unchanged. *)
Fixpoint rfi_run (eps cut : Qc) (xp : list Qc) (yp : list qi) (n m : Z) (hint : Z) (qs : list Qc)
  : list (option qi) :=
  match qs with
  | [] => []
  | q :: r =>
    match rfi eps cut xp yp n m q hint with
    | Some (v, h') => Some v :: rfi_run eps cut xp yp n m h' r
    | None => None :: rfi_run eps cut xp yp n m hint r
    end
  end.

(* the order the callers pass: MIN(frequencies, VNACAL_MAX_M) *)
Definition rfi_order (n max_m : Z) : Z := if n <=? max_m then n else max_m.
