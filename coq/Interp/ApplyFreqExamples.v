(* Concrete calibrations (vm_compute): the hypotheses of the ApplyFreq theorems are met by
   non-trivial states - requests out of order and with repeated frequencies, several terms,
   three-point and two-point calibrations, a seven-point one (order 5) queried at its knots. *)
Require Import List ZArith QArith Qcanon Bool.
Require Import LV.Base.QcI LV.Interp.QOrd LV.Interp.RfiModel LV.Interp.C10Lemmas LV.Interp.RfiRationalEx
               LV.Interp.ApplyFreqModel LV.Interp.ApplyFreqProofs.
Import ListNotations.
Local Open Scope Z_scope.

(* comparison of results by value (vm_compute does not identify the canonicity proofs inside Qc) *)
Fixpoint leqb (a b : list qi) : bool :=
  match a, b with
  | [], [] => true
  | x :: a', y :: b' => qi_eqb x y && leqb a' b'
  | _, _ => false
  end.
Fixpoint lleqb (a b : list (list qi)) : bool :=
  match a, b with
  | [], [] => true
  | x :: a', y :: b' => leqb x y && lleqb a' b'
  | _, _ => false
  end.
Definition same (r : option (list (list qi) * Z)) (e : list (list qi)) : bool :=
  match r with Some (out, _) => lleqb out e | None => false end.
Definition same_at (r : option (list (list qi) * Z)) (i : nat) (e : list qi) : bool :=
  match r with Some (out, _) => match nth_error out i with Some t => leqb t e | None => false end | None => false end.

Definition ax3 : list Qc := [qz 1; qz 2; qq 7 2].
Definition ac3 : list (qi * qi * qi) := [(ex_a, ex_b, ex_c); (mkqi 2 1 0 1, mkqi (-1) 2 1 4, mkqi 9 1 (-2) 1)].
Definition areq : list Qc := [qz 3; qq 3 2; qz 3; qq 1 2; qz 2; qz 4].

Example ex_apply_order3 :
  apply_order 3 5 = 3 /\
  forallb (fun x => forallb (term3_ok eps25 cut25 ax3 3 5 x) ac3) [qz 3; qq 3 2; qq 1 2; qz 4] = true /\
  same (apply_terms eps25 cut25 ax3 3 5 (map (term3 ax3) ac3) areq)
       (map (fun x => map (fun abc => rat3 (fst (fst abc)) (snd (fst abc)) (snd abc) x) ac3) areq) = true.
Proof. vm_compute. repeat split. Qed.

Definition ax2 : list Qc := [qz 1; qz 4].
Definition ac2 : list (qi * qi) := [(mkqi 3 1 1 1, mkqi 2 1 1 2); (mkqi 1 2 (-1) 1, mkqi 5 1 0 1)].

Example ex_apply_order2 :
  apply_order 2 5 = 2 /\
  forallb (fun x => forallb (term2_ok eps25 cut25 ax2 2 5 x) ac2) [qz 3; qq 3 2; qz 5] = true /\
  same (apply_terms eps25 cut25 ax2 2 5 (map (term2 ax2) ac2) [qz 3; qq 3 2; qz 3; qz 5])
       (map (fun x => map (fun kp => rat2 (fst kp) (snd kp) x) ac2) [qz 3; qq 3 2; qz 3; qz 5]) = true.
Proof. vm_compute. repeat split. Qed.

(* seven calibration points (order MIN(7, 5) = 5), three terms, a request that visits knots out of
   order between other frequencies: the stored terms come back exactly *)
Definition ax7 : list Qc := [qz 0; qz 1; qz 2; qq 7 2; qz 5; qz 8; qz 9].
Definition at7 : list (list qi) :=
  [map (rat3 ex_a ex_b ex_c) ax7; map (fun t => mkqi 1 1 1 2) ax7; map (fun t => QI (t * t + qz 1)%Qc (qz 2 - t)%Qc) ax7].

Example ex_apply_knots :
  apply_order 7 5 = 5 /\
  let r := apply_terms eps25 cut25 ax7 7 5 at7 [qz 8; qq 1 2; qz 0; qz 8; qq 7 2] in
  same_at r 0 (map (fun yp => yat yp 5) at7) = true /\ same_at r 2 (map (fun yp => yat yp 0) at7) = true /\
  same_at r 3 (map (fun yp => yat yp 5) at7) = true /\ same_at r 4 (map (fun yp => yat yp 3) at7) = true.
Proof. vm_compute. repeat split. Qed.

(* one calibration point: every frequency gets the stored terms *)
Example ex_apply_one_point :
  same (apply_terms eps25 cut25 [qz 5] 1 5 [[ex_a]; [ex_b]] [qz 7; qz 5; qz 1]) [[ex_a; ex_b]; [ex_a; ex_b]; [ex_a; ex_b]] = true.
Proof. vm_compute. reflexivity. Qed.

Example ex_knots_ok : knots_ok eps25 ax3 3 /\ knots_ok eps25 ax7 7.
Proof.
  split; split; try (vm_compute; discriminate);
  intros i Hi;
  [assert (i = 0 \/ i = 1) as [->| ->] by Lia.lia | assert (i = 0 \/ i = 1 \/ i = 2 \/ i = 3 \/ i = 4 \/ i = 5) as [->|[->|[->|[->|[->| ->]]]]] by Lia.lia];
  vm_compute; reflexivity.
Qed.
