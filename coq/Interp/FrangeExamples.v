(* Concrete chains: the hypotheses of the Frange theorems are met by non-trivial states, and both
   verdicts occur (vm_compute on the model with the regenerated operators). *)
Require Import List ZArith QArith Bool Lqa Permutation.
Require Import LV.Interp.QOrd LV.Interp.FrangeBase LV.Gen.RangeGen LV.Interp.RangeProofs
               LV.Interp.FrangeModel LV.Interp.FrangeProofs.
Import ListNotations.
Local Open Scope Q_scope.

Definition exV : param := PVector [1; 2; 4; 7; 10].
Definition exK2 : param := PCorrelated (Some [4; 5]) exV.            (* two-point grid, shorter at both ends *)
Definition exU : param := PUnknown exK2.
Definition exK1 : param := PCorrelated (Some [2; 3; 9]) exU.         (* three-point grid *)
Definition exKK : param := PCorrelated (Some [3; 8]) (PCorrelated (Some [2; 6; 12]) (PCorrelated None exV)).
Definition exKS : param := PCorrelated (Some [3; 8]) PScalar.        (* scalar correlate: 0 .. infinity *)

(* the range of K1 is that of V cut to K1's own grid; the grid of K2 behind the unknown U plays no
   part (its sigma is never evaluated: U only supplies an initial guess) *)
Example ex_frange :
  frange exK1 = (Fin 2, Fin 9) /\ frange exU = (Fin 1, Fin 10) /\ frange exK2 = (Fin 4, Fin 5) /\
  consumed exK1 = [(Fin 2, Fin 9); (Fin 1, Fin 10)] /\
  frange exKK = (Fin 3, Fin 8) /\ consumed exKK = [(Fin 3, Fin 8); (Fin 2, Fin 12); (Fin 1, Fin 10)] /\
  inter_all (consumed exKK) = (Fin 3, Fin 8) /\
  frange exKS = (Fin 3, Fin 8) /\ frange (PCorrelated None PScalar) = (Fin 0, Inf).
Proof. vm_compute. repeat split. Qed.

(* both verdicts, both orders; every grid of the correlated prefix counts *)
Example ex_decisions :
  add_ok 2 9 exK1 = true /\ add_ok 2 10 exK1 = false /\ add_ok 1 9 exK1 = false /\
  add_ok 3 8 exKK = true /\
  add_ok 2 8 exKK = false (* low end of the FIRST grid missed *) /\
  add_ok 3 10 exKK = false (* high end of the first grid *) /\
  add_ok 3 8 (PCorrelated (Some [2; 9]) (PCorrelated (Some [4; 8]) exV)) = false (* SECOND grid, low *) /\
  add_ok 3 8 (PCorrelated (Some [2; 9]) (PCorrelated (Some [3; 7]) exV)) = false (* second grid, high *) /\
  add_ok 3 8 (PCorrelated (Some [2; 9]) (PCorrelated (Some [3; 8]) (PVector [4; 9]))) = false (* the vector *) /\
  add_ok 3 1000000 exKS = false /\ add_ok 3 8 exKS = true /\
  add_ok 5 1000000 (PUnknown PScalar) = true /\
  set_ok 3 8 (rev (hash_members exKK)) = add_ok 3 8 exKK /\
  set_ok 2 8 (rev (hash_members exKK)) = add_ok 2 8 exKK.
Proof. vm_compute. repeat split. Qed.

(* the hypotheses of add_refuses_any_miss / add_accepts_all_cover / orders_agree are satisfiable *)
Example ex_refuse_hyp :
  In (Fin 2, Fin 12) (consumed exKK) /\ miss_high 14 12 /\
  In (Fin 3, Fin 8) (consumed exKK) /\ miss_low 2 3.
Proof. unfold miss_high, miss_low. simpl. repeat split; auto; lra. Qed.

Example ex_cover_hyp : forall r, In r (consumed exKK) -> covers_x 3 8 r.
Proof.
  simpl. intros r [<-|[<-|[<-|[]]]]; unfold covers_x; simpl.
  - exists 3. repeat split; try lra. right. exists 8. split; [reflexivity|lra].
  - exists 2. repeat split; try lra. right. exists 12. split; [reflexivity|lra].
  - exists 1. repeat split; try lra. right. exists 10. split; [reflexivity|lra].
Qed.

Example ex_perm : Permutation (rev (hash_members exKK)) (hash_members exKK).
Proof. apply Permutation_sym, Permutation_rev. Qed.

(* vnacal_make_correlated_parameter: own grid, borrowed grid, refusals *)
Example ex_mk :
  mk_correlated (1 # 10000) exU None 5 [1; 1; 1; 1; 1] = Some (PCorrelated (Some [1; 2; 4; 7; 10]) exU) /\
  mk_correlated (1 # 10000) exU None 4 [1; 1; 1; 1] = None /\
  mk_correlated (1 # 10000) PScalar None 2 [1; 1] = None /\
  mk_correlated (1 # 10000) exV (Some [11; 12]) 2 [1; 1] = None (* disjoint *) /\
  mk_correlated (1 # 10000) exV (Some [10; 12]) 2 [1; 1] = Some (PCorrelated (Some [10; 12]) exV) /\
  mk_correlated (1 # 10000) exV (Some [3; 3]) 2 [1; 1] = None /\
  mk_correlated (1 # 10000) exV (Some [3; 4]) 2 [1; 0] = None /\
  mk_correlated (1 # 10000) exV (Some [3; 4]) 1 [1] = Some (PCorrelated None exV) /\
  mk_correlated (1 # 10000) exV (Some [3; 3 + (1 # 20000)]) 2 [1; 1] = None (* gap < MIN_DX *).
Proof. vm_compute. repeat split. Qed.
