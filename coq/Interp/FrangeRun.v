(* Evaluation interface of the chain model for the correspondence (checks/C10.py): a chain is given
   as the list of calls that make it, from its END to its HEAD (each node's vpmr_other is the
   previous node); the report is a flat list of integers so that the check can read the output of
   vm_compute without parsing terms.  No proofs in this file. *)
Require Import List ZArith QArith Bool.
Require Import LV.Interp.QOrd LV.Interp.FrangeBase LV.Gen.RangeGen LV.Interp.FrangeModel.
Import ListNotations.

Inductive node : Type :=
| NS                                                     (* vnacal_make_scalar_parameter *)
| NV (fs : list Q)                                       (* vnacal_make_vector_parameter (valid vector) *)
| NU                                                     (* vnacal_make_unknown_parameter(previous) *)
| NK (n : Z) (sfv : option (list Q)) (sigma : list Q).   (* vnacal_make_correlated_parameter(previous, ...) *)

(* made parameters, oldest first; stops at the first call that fails *)
Fixpoint build (min_dx : Q) (nodes : list node) (prev : option param) : list param * bool :=
  match nodes with
  | [] => ([], true)
  | nd :: rest =>
    let made :=
      match nd, prev with
      | NS, _ => Some PScalar
      | NV fs, _ => Some (PVector fs)
      | NU, Some o => Some (PUnknown o)
      | NK n sfv sigma, Some o => mk_correlated min_dx o sfv n sigma
      | _, None => None
      end in
    match made with
    | None => ([], false)
    | Some p => let '(l, ok) := build min_dx rest (Some p) in (p :: l, ok)
    end
  end.

Definition enc_x (x : xq) : list Z :=
  match x with
  | Fin q => [Qnum q; Zpos (Qden q)]
  | Inf => [0%Z; 0%Z]
  end.
Definition enc_b (b : bool) : Z := if b then 1%Z else 0%Z.

(* [made; lo hi of every made parameter (num den num den); all made?; add_ok head; set_ok (hash, reversed)] *)
Definition chain_report (min_dx nl nh : Q) (nodes : list node) : list Z :=
  let '(made, ok) := build min_dx nodes None in
  Z.of_nat (length made)
  :: flat_map (fun p => let '(a, b) := frange p in enc_x a ++ enc_x b) made
  ++ match ok, rev made with
     | true, head :: _ =>
       [1%Z; enc_b (add_ok nl nh head); enc_b (set_ok nl nh (rev (hash_members head)))]
     | _, _ => [0%Z]
     end.
