(* Sigma of a correlated parameter (SigmaSplineModel.v): exact at the given points, straight-line
   data reproduced for every point count >= 2 - exactly two points included, where ANY data are on
   a line -, one point = a constant, no dependence on the query history. *)
Require Import List ZArith QArith Qcanon Lia Lqa Field.
Require Import LV.Interp.QOrd LV.Interp.RfiModel LV.Interp.SplineModel LV.Interp.SplineProofs LV.Interp.C10Lemmas
               LV.Interp.SigmaSplineModel.
Import ListNotations.
Local Open Scope Z_scope.

(* spline_at_knot with the lengths of the two vectors stated (n segments = n + 1 points): without them the
   default of a read beyond the end could stand in for a knot *)
Lemma spline_at_knot_len_l xs ys n : 1 <= n -> RfiModel.zlen xs = n + 1 -> RfiModel.zlen ys = n + 1 ->
  (forall i, 0 <= i < n -> (gq xs i < gq xs (i + 1))%Qc) ->
  forall cs k, 0 <= k <= n -> spline_eval xs ys n cs (gq xs k) = Some (gq ys k).
Proof. intros Hn _ _. apply spline_at_knot_l. assumption. Qed.

Lemma sigma_one_point_l xs ys cs x : sigma_np ys = 1 -> sigma_eval xs ys cs x = Some (gq ys 0).
Proof. intro H. unfold sigma_eval. rewrite H. reflexivity. Qed.

Lemma sigma_at_knot_l xs ys : 2 <= sigma_np ys ->
  (forall i, 0 <= i < sigma_np ys - 1 -> (gq xs i < gq xs (i + 1))%Qc) ->
  forall cs k, 0 <= k < sigma_np ys -> sigma_eval xs ys cs (gq xs k) = Some (gq ys k).
Proof.
  intros Hn Hinc cs k Hk. unfold sigma_eval.
  destruct (sigma_np ys =? 1) eqn:E; [apply Z.eqb_eq in E; lia|].
  apply spline_at_knot_l; try lia. assumption.
Qed.

Lemma sigma_make_ok_l min_dx xs ys : 2 <= sigma_np ys ->
  (forall i, 0 <= i < sigma_np ys - 1 -> (min_dx <= gq xs (i + 1) - gq xs i)%Qc) ->
  exists cs, sigma_make min_dx xs ys = Some cs.
Proof.
  intros Hn Hg. unfold sigma_make.
  destruct (sigma_np ys <? 1) eqn:E1; [apply Z.ltb_lt in E1; lia|].
  destruct (sigma_np ys =? 1) eqn:E2; [apply Z.eqb_eq in E2; lia|].
  apply spline_calc_ok_l; [lia|assumption].
Qed.

Lemma sigma_linear_l min_dx xs ys p q : 2 <= sigma_np ys -> (0 < min_dx)%Qc ->
  (forall i, 0 <= i < sigma_np ys - 1 -> (min_dx <= gq xs (i + 1) - gq xs i)%Qc) ->
  (forall i, 0 <= i < sigma_np ys -> gq ys i = (p + q * gq xs i)%Qc) ->
  exists cs, sigma_make min_dx xs ys = Some cs /\
             forall x, sigma_eval xs ys cs x = Some (p + q * x)%Qc.
Proof.
  intros Hn Hp Hg Hl. unfold sigma_make, sigma_eval.
  destruct (sigma_np ys <? 1) eqn:E1; [apply Z.ltb_lt in E1; lia|].
  destruct (sigma_np ys =? 1) eqn:E2; [apply Z.eqb_eq in E2; lia|].
  apply spline_linear_l; try assumption; try lia.
  intros i Hi. apply Hl. lia.
Qed.

(* exactly two points: whatever the two values, sigma(f) is the chord through them, everywhere *)
Lemma sigma_two_points_l min_dx x0 x1 y0 y1 : (0 < min_dx)%Qc -> (min_dx <= x1 - x0)%Qc ->
  exists cs, sigma_make min_dx [x0; x1] [y0; y1] = Some cs /\
             forall x, sigma_eval [x0; x1] [y0; y1] cs x =
                       Some (y0 + (y1 - y0) / (x1 - x0) * (x - x0))%Qc.
Proof.
  intros Hp Hg.
  assert (Hnz : (x1 - x0)%Qc <> 0%Qc).
  { intro E. rewrite E in Hg. exact (Qclt_not_le _ _ Hp Hg). }
  destruct (sigma_linear_l min_dx [x0; x1] [y0; y1]
              (y0 - (y1 - y0) / (x1 - x0) * x0)%Qc ((y1 - y0) / (x1 - x0))%Qc) as (cs & Hm & He).
  - unfold sigma_np; simpl; lia.
  - assumption.
  - unfold sigma_np; simpl. intros i Hi. assert (i = 0) by lia. subst i. exact Hg.
  - unfold sigma_np; simpl. intros i Hi. assert (i = 0 \/ i = 1) as [->| ->] by lia.
    + unfold gq; simpl. field. assumption.
    + unfold gq; simpl. field. assumption.
  - exists cs. split; [assumption|]. intro x. rewrite He. f_equal. field. assumption.
Qed.

(* no hidden state: a query is answered the same way whatever was asked before *)
Lemma sigma_history_free_l min_dx xs ys before q l1 l2 :
  sigma_interp min_dx xs ys (before ++ [q]) = Some l1 ->
  sigma_interp min_dx xs ys [q] = Some l2 ->
  last l1 None = last l2 None.
Proof.
  unfold sigma_interp. destruct (sigma_make _ _ _) as [cs|]; [|discriminate].
  intros H1 H2. inversion H1; inversion H2; subst. rewrite map_app. simpl.
  rewrite last_last. reflexivity.
Qed.
