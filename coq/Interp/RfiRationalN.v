(* Rational-function reproduction by RfiModel for vectors of any length (property C10).
   rfi_full_window_inv: when the recurrence ran (trace not empty) the value is bs_core of the
   selected m-point window.  bs2 / bs3: on ANY two / three points (any position `cur` of the
   nearest point) data k/(x+p), resp. (a+bx)/(c+x) with complex coefficients, are reproduced exactly
   provided every recorded denominator is non-zero and not below the cut-off (step_ok) and all
   steps were performed.  rfi_rational2_n / rfi_rational3_n lift this to n >= m. *)
Require Import List ZArith QArith Qcanon Lia Bool Field.
Require Import LV.Base.QcI LV.Interp.QOrd LV.Interp.RfiModel LV.Interp.RfiProofs LV.Interp.RfiWindow LV.Interp.RfiRational LV.Interp.C10Lemmas.
Import ListNotations.
Local Open Scope Z_scope.
Add Field qif3 : qi_field.

Opaque qi_sub qi_mul qi_div qi_add qx Qcminus Qcplus Qcmult cabs_lt add_eps Qcleb Qcltb Qcabs'.
Ltac step := cbn; change (Pos.to_nat 1) with 1%nat; change (Pos.to_nat 2) with 2%nat; change (Pos.to_nat 3) with 3%nat; change (Pos.to_nat 4) with 4%nat; cbn.

Definition step_ok (cut : Qc) (t : bs_step) : Prop := cabs_lt (fst (fst t)) cut = false /\ fst (fst t) <> qi0.
Ltac cutcase := let H := fresh in let L := fresh in let HF := fresh in
  intros H L HF; inversion H; subst; simpl in L;
  first [discriminate L
        | repeat (match goal with HF : Forall _ (_ :: _) |- _ => inversion HF as [|? ? [? ?] ?]; clear HF; subst end);
          simpl in *; congruence].
(* a side condition G <> 0 of field from a known P <> 0 with P = G as polynomials *)
Ltac solve_cond :=
  match goal with
  | |- _ /\ _ => split; solve_cond
  | |- ?G <> qi0 => first [assumption |
      match goal with H : ?P <> qi0 |- _ => let HG := fresh in intro HG; apply H; (transitivity G; [ring | exact HG]) end]
  end.

Lemma window_nth {A} (l : list A) base m j d : 0 <= base -> 0 <= j < m -> base + m <= zlen l ->
  nth (Z.to_nat j) (window l base m) d = nth (Z.to_nat (base + j)) l d.
Proof.
  intros H0 Hj H2. assert (E := rd_window l base m j H0 Hj H2).
  rewrite (rd_some _ j d) in E by (rewrite window_length; lia).
  rewrite (rd_some _ (base + j) d) in E by lia. inversion E. reflexivity.
Qed.

Lemma list2_eta {A} (w : list A) d : length w = 2%nat -> w = [nth 0 w d; nth 1 w d].
Proof. destruct w as [|a0 [|a1 [|a2 t]]]; simpl; intros H; try discriminate; reflexivity. Qed.
Lemma list3_eta {A} (w : list A) d : length w = 3%nat -> w = [nth 0 w d; nth 1 w d; nth 2 w d].
Proof. destruct w as [|a0 [|a1 [|a2 [|a3 t]]]]; simpl; intros H; try discriminate; reflexivity. Qed.

(* (2) the value depends only on the selected window *)
Lemma rfi_full_window_inv eps cut xp yp n m x hint v s tr :
  zlen xp = n -> zlen yp = n -> 1 <= m <= n ->
  rfi_full eps cut xp yp n m x hint = Some (v, s, tr) -> tr <> [] ->
  exists base cur, 0 <= base <= n - m /\ 0 <= cur < m /\
    bs_core eps cut m (window xp base m) (window yp base m) x cur = Some (v, tr).
Proof.
  intros Hlx Hly Hm H Htr. unfold rfi_full in H.
  replace ((n <? 1) || (n <? m) || (m <? 1)) with false in H
    by (symmetry; repeat (apply orb_false_iff; split); apply Z.ltb_ge; lia).
  destruct (n <? 2) eqn:E; [apply Z.ltb_lt in E|apply Z.ltb_ge in E].
  - destruct (rd yp 0); inversion H; subst; contradiction.
  - destruct (search_in_range xp n Hlx x (clamp n hint)) as (s0 & Es & Hs); [apply clamp_range; lia|].
    rewrite Es in H. rewrite (after_window eps cut xp yp n m x Hlx Hly Hm) in H by exact Hs.
    destruct (knot_test_ex eps xp yp n m Hlx Hly x s0 Hs) as (k & Ek & Hk). rewrite Ek in H.
    destruct k as [y|nr]; [inversion H; subst; contradiction|].
    destruct (window_ok n m Hm s0 nr Hs Hk) as [Hb Hc]. cbv zeta in H.
    exists (window_base n m s0 nr), (nr - window_base n m s0 nr). split; [exact Hb|]. split; [exact Hc|].
    destruct (bs_core _ _ _ _ _ _ _) as [[v' tr']|]; [|discriminate]. simpl in H. inversion H; subst. reflexivity.
Qed.

Section R3.
Variables (eps cut x0 x1 x2 x : Qc) (a b c : qi).
Let f (t : Qc) : qi := qi_div (qi_add a (qi_mul b (qx t))) (qi_add c (qx t)).
Hypothesis Hc0 : qi_add c (qx x0) <> qi0.
Hypothesis Hc1 : qi_add c (qx x1) <> qi0.
Hypothesis Hc2 : qi_add c (qx x2) <> qi0.
Hypothesis Hcx : qi_add c (qx x) <> qi0.
Hypothesis Hre0 : qre (f x0) <> 0%Qc.
Hypothesis Hre1 : qre (f x1) <> 0%Qc.
Hypothesis Hre2 : qre (f x2) <> 0%Qc.

Let yn (u : Qc) := qi_add a (qi_mul b (qx u)).
Let cc (u : Qc) := qi_add c (qx u).
Let dx (u : Qc) := qi_sub (qx x) (qx u).
(* numerators of the three denominators *)
Let PN (u v : Qc) := qi_sub (qi_mul (qi_mul (dx u) (yn u)) (cc v)) (qi_mul (qi_mul (dx v) (yn v)) (cc u)).
Let EN (u v : Qc) := qi_sub (qi_mul (yn v) (cc u)) (qi_mul (yn u) (cc v)).
Let P2 := qi_sub (qi_mul (qi_mul (dx x0) (qi_mul (qi_mul (EN x0 x1) (dx x1)) (yn x1))) (PN x1 x2))
                 (qi_mul (qi_mul (dx x2) (qi_mul (qi_mul (EN x1 x2) (dx x1)) (yn x1))) (PN x0 x1)).

Lemma dens3 d0 d1 d2 :
  d0 = qi_sub (qi_mul (qx (x - x0)) (f x0)) (qi_mul (qx (x - x1)) (f x1)) ->
  d1 = qi_sub (qi_mul (qx (x - x1)) (f x1)) (qi_mul (qx (x - x2)) (f x2)) ->
  d2 = qi_sub (qi_mul (qx (x - x0)) (qi_div (qi_mul (qi_mul (qi_sub (f x1) (f x0)) (qx (x - x1))) (f x1)) d0))
              (qi_mul (qx (x - x2)) (qi_div (qi_mul (qi_mul (qi_sub (f x2) (f x1)) (qx (x - x1))) (f x1)) d1)) ->
  d0 <> qi0 -> d1 <> qi0 -> d2 <> qi0 ->
  PN x0 x1 <> qi0 /\ PN x1 x2 <> qi0 /\ P2 <> qi0.
Proof.
  intros E0 E1 E2 D0 D1 D2.
  assert (F0 : d0 = qi_div (PN x0 x1) (qi_mul (cc x0) (cc x1))).
  { rewrite E0. unfold f, PN, dx, yn, cc. rewrite !qx_sub. field. split; assumption. }
  assert (F1 : d1 = qi_div (PN x1 x2) (qi_mul (cc x1) (cc x2))).
  { rewrite E1. unfold f, PN, dx, yn, cc. rewrite !qx_sub. field. split; assumption. }
  assert (HP0 : PN x0 x1 <> qi0).
  { intro H. apply D0. rewrite F0, H. unfold cc. field. split; assumption. }
  assert (HP1 : PN x1 x2 <> qi0).
  { intro H. apply D1. rewrite F1, H. unfold cc. field. split; assumption. }
  split; [exact HP0|]. split; [exact HP1|].
  assert (F2 : d2 = qi_div P2 (qi_mul (qi_mul (cc x1) (PN x0 x1)) (PN x1 x2))).
  { rewrite E2, F0, F1. unfold P2, EN, f. unfold PN, dx, yn, cc in *. rewrite !qx_sub. field. solve_cond. }
  intro H. apply D2. rewrite F2, H. unfold PN, dx, yn, cc in *. field. solve_cond.
Qed.

Lemma bs3 cur v tr : 0 <= cur < 3 ->
  bs_core eps cut 3 [x0; x1; x2] [f x0; f x1; f x2] x cur = Some (v, tr) ->
  length tr = 3%nat -> Forall (step_ok cut) tr -> v = f x.
Proof.
  intros Hcur. assert (Hc : cur = 0 \/ cur = 1 \/ cur = 2) by lia.
  unfold bs_core. destruct Hc as [->|[->| ->]]; do 3 step; rewrite !add_eps_nz by assumption; do 3 step;
  repeat match goal with |- context [if cabs_lt ?d cut then _ else _] => destruct (cabs_lt d cut) eqn:?; do 3 step; [cutcase|] end;
  (intros H _ HF; inversion H; subst; clear H;
   inversion HF as [|? ? [_ D0] HF1]; subst; inversion HF1 as [|? ? [_ D1] HF2]; subst; inversion HF2 as [|? ? [_ D2] _]; subst;
   simpl in D0, D1, D2;
   destruct (dens3 _ _ _ eq_refl eq_refl eq_refl D0 D1 D2) as (HP0 & HP1 & HP2);
   clear - Hc0 Hc1 Hc2 Hcx HP0 HP1 HP2;
   unfold P2, EN, PN, dx, yn, cc, f in *; rewrite !qx_sub; field; solve_cond).
Qed.
End R3.

(* ---------------------------------------------------------------- two points *)
Section R2.
Variables (eps cut x0 x1 x : Qc) (k p : qi).
Let f (t : Qc) : qi := qi_div k (qi_add (qx t) p).
Hypothesis Hp0 : qi_add (qx x0) p <> qi0.
Hypothesis Hp1 : qi_add (qx x1) p <> qi0.
Hypothesis Hpx : qi_add (qx x) p <> qi0.
Hypothesis Hre0 : qre (f x0) <> 0%Qc.
Hypothesis Hre1 : qre (f x1) <> 0%Qc.

Lemma bs2 cur v tr : 0 <= cur < 2 ->
  bs_core eps cut 2 [x0; x1] [f x0; f x1] x cur = Some (v, tr) ->
  length tr = 1%nat -> Forall (step_ok cut) tr -> v = f x.
Proof.
  intros Hcur. assert (Hc : cur = 0 \/ cur = 1) by lia.
  unfold bs_core. destruct Hc as [->| ->]; do 3 step; rewrite !add_eps_nz by assumption; do 3 step;
  repeat match goal with |- context [if cabs_lt ?d cut then _ else _] => destruct (cabs_lt d cut) eqn:?; do 3 step; [cutcase|] end;
  (intros H _ HF; inversion H; subst; clear H;
   inversion HF as [|? ? [_ D0] _]; subst; simpl in D0;
   assert (F0 : qi_sub (qi_mul (qx (x - x0)) (f x0)) (qi_mul (qx (x - x1)) (f x1)) =
                qi_div (qi_sub (qi_mul (qi_mul (qi_sub (qx x) (qx x0)) k) (qi_add (qx x1) p))
                               (qi_mul (qi_mul (qi_sub (qx x) (qx x1)) k) (qi_add (qx x0) p)))
                       (qi_mul (qi_add (qx x0) p) (qi_add (qx x1) p)))
     by (unfold f; rewrite !qx_sub; field; split; assumption);
   assert (HP0 : qi_sub (qi_mul (qi_mul (qi_sub (qx x) (qx x0)) k) (qi_add (qx x1) p))
                        (qi_mul (qi_mul (qi_sub (qx x) (qx x1)) k) (qi_add (qx x0) p)) <> qi0)
     by (intro HH; apply D0; rewrite F0, HH; field; split; assumption);
   clear - Hp0 Hp1 Hpx HP0; unfold f; rewrite !qx_sub; field; solve_cond).
Qed.
End R2.

(* ---------------------------------------------------------------- any length *)

Lemma rfi_rational2_n eps cut xp yp n (k p : qi) x hint v s tr :
  let f := fun t : Qc => qi_div k (qi_add (qx t) p) in
  zlen xp = n -> zlen yp = n -> 2 <= n ->
  (forall i, 0 <= i < n -> yat yp i = f (xat xp i) /\ qi_add (qx (xat xp i)) p <> qi0 /\ qre (f (xat xp i)) <> 0%Qc) ->
  qi_add (qx x) p <> qi0 ->
  rfi_full eps cut xp yp n 2 x hint = Some (v, s, tr) ->
  length tr = 1%nat -> Forall (step_ok cut) tr -> v = f x.
Proof.
  intros f Hlx Hly Hn Hd Hpx H L HF.
  destruct (rfi_full_window_inv eps cut xp yp n 2 x hint v s tr Hlx Hly ltac:(lia) H) as (base & cur & Hb & Hc & E).
  { intro E0; subst; discriminate. }
  rewrite (list2_eta (window xp base 2) 0%Qc) in E by (apply Nat2Z.inj; fold (zlen (window xp base 2)); rewrite window_length; lia).
  rewrite (list2_eta (window yp base 2) qi0) in E by (apply Nat2Z.inj; fold (zlen (window yp base 2)); rewrite window_length; lia).
  change 1%nat with (Z.to_nat 1) in E. change 0%nat with (Z.to_nat 0) in E.
  rewrite !window_nth in E by lia.
  destruct (Hd (base + 0)) as (Y0 & P0 & R0); [lia|]. destruct (Hd (base + 1)) as (Y1 & P1 & R1); [lia|].
  unfold xat, yat in *. rewrite Y0, Y1 in E.
  exact (bs2 eps cut _ _ x k p P0 P1 Hpx R0 R1 cur v tr Hc E L HF).
Qed.

Lemma rfi_rational3_n eps cut xp yp n (a b c : qi) x hint v s tr :
  let f := fun t : Qc => qi_div (qi_add a (qi_mul b (qx t))) (qi_add c (qx t)) in
  zlen xp = n -> zlen yp = n -> 3 <= n ->
  (forall i, 0 <= i < n -> yat yp i = f (xat xp i) /\ qi_add c (qx (xat xp i)) <> qi0 /\ qre (f (xat xp i)) <> 0%Qc) ->
  qi_add c (qx x) <> qi0 ->
  rfi_full eps cut xp yp n 3 x hint = Some (v, s, tr) ->
  length tr = 3%nat -> Forall (step_ok cut) tr -> v = f x.
Proof.
  intros f Hlx Hly Hn Hd Hpx H L HF.
  destruct (rfi_full_window_inv eps cut xp yp n 3 x hint v s tr Hlx Hly ltac:(lia) H) as (base & cur & Hb & Hc & E).
  { intro E0; subst; discriminate. }
  rewrite (list3_eta (window xp base 3) 0%Qc) in E by (apply Nat2Z.inj; fold (zlen (window xp base 3)); rewrite window_length; lia).
  rewrite (list3_eta (window yp base 3) qi0) in E by (apply Nat2Z.inj; fold (zlen (window yp base 3)); rewrite window_length; lia).
  change 2%nat with (Z.to_nat 2) in E. change 1%nat with (Z.to_nat 1) in E. change 0%nat with (Z.to_nat 0) in E.
  rewrite !window_nth in E by lia.
  destruct (Hd (base + 0)) as (Y0 & P0 & R0); [lia|]. destruct (Hd (base + 1)) as (Y1 & P1 & R1); [lia|].
  destruct (Hd (base + 2)) as (Y2 & P2 & R2); [lia|].
  unfold xat, yat in *. rewrite Y0, Y1, Y2 in E.
  exact (bs3 eps cut _ _ _ x a b c P0 P1 P2 Hpx R0 R1 R2 cur v tr Hc E L HF).
Qed.
