(* Frequency range of a parameter chain and the accept / refuse decision built on it (C10), as coded:

     _vnacal_get_parameter_frange            src/vnacal_parameter.c
     vnacal_make_correlated_parameter        src/vnacal_make_correlated_parameter.c  (which sigma
                                             frequency vector the new parameter carries)
     _vnacal_new_get_parameter / _vnacal_new_check_parameter / check_single_frequency_range /
     _vnacal_new_check_all_frequency_ranges  src/vnacal_new_parameter.c

   A parameter is a finite tree: vpmr_other always points to a parameter made earlier.
     PScalar                 VNACAL_SCALAR (also the predefined match / open / short)
     PVector fs              VNACAL_VECTOR with frequency vector fs
     PUnknown o              VNACAL_UNKNOWN, vpmr_other = o (the initial guess)
     PCorrelated g o         VNACAL_CORRELATED, vpmr_other = o, vpmr_sigma_frequency_vector = g
                             (None = NULL: a single sigma value)
   The comparison operators of the two clamp stanzas (frange_clamp) and the decision of
   check_single_frequency_range (range_new_parameter_reject_x) are regenerated from the C text
   (Gen/RangeGen.v).  No proofs in this file. *)
Require Import List ZArith QArith Bool.
Require Import LV.Interp.QOrd LV.Interp.FrangeBase LV.Gen.RangeGen.
Import ListNotations.

Inductive param : Type :=
| PScalar
| PVector (fs : list Q)
| PUnknown (other : param)
| PCorrelated (sfv : option (list Q)) (other : param).

Definition firstq (l : list Q) : Q := hd 0%Q l.            (* v[0] *)
Definition lastq (l : list Q) : Q := last l 0%Q.           (* v[n - 1] *)

(* for (;;) { switch (vpmrp->vpmr_type) { ... } break; } *)
Fixpoint walk (p : param) : xq * xq :=
  match p with
  | PScalar => (Fin 0%Q, Inf)
  | PVector fs => (Fin (firstq fs), Fin (lastq fs))
  | PUnknown o => walk o
  | PCorrelated _ o => walk o
  end.

(* _vnacal_get_parameter_frange: the walk, then the restriction to the sigma grid of the
   ORIGINAL parameter only *)
Definition frange (p : param) : xq * xq :=
  let '(fmin, fmax) := walk p in
  match p with
  | PCorrelated (Some sfv) _ => frange_clamp (Fin (firstq sfv)) (Fin (lastq sfv)) fmin fmax
  | _ => (fmin, fmax)
  end.

(* ---- vnacal_make_correlated_parameter: validation and the vector the new parameter carries *)
Fixpoint chain_end (p : param) : param :=
  match p with
  | PUnknown o => chain_end o
  | PCorrelated _ o => chain_end o
  | _ => p
  end.

Fixpoint ascending (l : list Q) : bool :=
  match l with
  | a :: ((b :: _) as r) => negb (Qle_bool b a) && ascending r
  | _ => true
  end.

Fixpoint gaps_ok (min_dx : Q) (l : list Q) : bool :=       (* no hp[i] < MIN_DX in spline_calc *)
  match l with
  | a :: ((b :: _) as r) => negb (Qltb (b - a) min_dx) && gaps_ok min_dx r
  | _ => true
  end.

(* n = sigma_frequencies, sfv = sigma_frequency_vector (None = NULL), sigma = sigma_vector;
   result None = the call fails (-1) *)
Definition mk_correlated (min_dx : Q) (other : param) (sfv : option (list Q)) (n : Z)
    (sigma : list Q) : option param :=
  if (n <? 1)%Z then None
  else if (n =? 1)%Z then
    if existsb (fun s => Qle_bool s 0) (firstn 1 sigma) then None
    else Some (PCorrelated None other)
  else
    let e := chain_end other in
    let grid :=
      match sfv with
      | None =>
        match e with
        | PVector fs => if (Z.of_nat (length fs) =? n)%Z then Some fs else None
        | _ => None
        end
      | Some g =>
        if Qltb (firstq g) 0 then None
        else if negb (ascending g) then None
        else match e with
             | PVector fs =>
               if Qltb (lastq fs) (firstq g) || Qltb (lastq g) (firstq fs) then None else Some g
             | _ => Some g
             end
      end in
    match grid with
    | None => None
    | Some g =>
      if existsb (fun s => Qle_bool s 0) sigma then None
      else if negb (gaps_ok min_dx g) then None
      else Some (PCorrelated (Some g) other)
    end.

(* ---- the decision.  nl, nh = first and last calibration frequency (vn_frequencies > 0) *)
Definition single_ok (nl nh : Q) (p : param) : bool :=     (* check_single_frequency_range == 0 *)
  let '(pfmin, pfmax) := frange p in
  negb (range_new_parameter_reject_x nl nh pfmin pfmax).

(* _vnacal_new_get_parameter / _vnacal_new_check_parameter on a parameter that is not yet in the
   hash, frequency vector already set: the parameter itself, then (correlated only) its correlate *)
Fixpoint add_ok (nl nh : Q) (p : param) : bool :=
  single_ok nl nh p &&
  match p with
  | PCorrelated _ o => add_ok nl nh o
  | _ => true
  end.

(* the parameters _vnacal_new_get_parameter inserts into the hash for p *)
Fixpoint hash_members (p : param) : list param :=
  p :: match p with
       | PCorrelated _ o => hash_members o
       | _ => []
       end.

(* _vnacal_new_check_all_frequency_ranges over the hash (in bucket order, whatever it is) *)
Definition set_ok (nl nh : Q) (members : list param) : bool := forallb (single_ok nl nh) members.

(* ---- what the theorems compare with: the ranges whose data the solver really reads for p:
   the vector at the end of the chain (initial guess / known value) and the sigma grid of every
   correlated parameter that becomes a member of the hash *)
Fixpoint consumed (p : param) : list (xq * xq) :=
  match p with
  | PCorrelated (Some g) o => (Fin (firstq g), Fin (lastq g)) :: consumed o
  | PCorrelated None o => consumed o
  | _ => [walk p]
  end.

Definition xmax (a b : xq) : xq := if xltb a b then b else a.
Definition xmin (a b : xq) : xq := if xltb b a then b else a.
Definition inter (r s : xq * xq) : xq * xq := (xmax (fst r) (fst s), xmin (snd r) (snd s)).
Fixpoint inter_all (l : list (xq * xq)) : xq * xq :=      (* l is never empty here *)
  match l with
  | [] => (Fin 0%Q, Inf)
  | [r] => r
  | r :: t => inter r (inter_all t)
  end.
