(* Executable model of _vnacommon_spline_calc / _vnacommon_spline_eval
   (src/vnacommon_spline.c) over exact rationals.  n is the number of segments, the vectors
   have n + 1 elements.  MIN_DX is a parameter (min_dx), instantiated by the check with the value
   regenerated from the C text.  Vectors are lists read with a default (memory safety of these
   two functions is left to the sanitizer runs of the correspondence); allocation failure is not
   modelled.  No proofs in this file. *)
Require Import List ZArith QArith Qcanon.
Require Import LV.Interp.QOrd.
Import ListNotations.
Local Open Scope Z_scope.

Definition gq (l : list Qc) (i : Z) : Qc := nth (Z.to_nat i) l 0%Qc.

Fixpoint zrange (k : nat) (i : Z) : list Z :=
  match k with O => [] | S k' => i :: zrange k' (i + 1) end.

Definition coef := (Qc * Qc * Qc)%type.       (* c_vector[i][B], [C], [D] *)
Definition cB (c : coef) := fst (fst c).
Definition cC (c : coef) := snd (fst c).
Definition cD (c : coef) := snd c.
Definition gc (l : list coef) (i : Z) : coef := nth (Z.to_nat i) l (0, 0, 0)%Qc.

Section Spline.
Variable min_dx : Qc.
Variables (xs ys : list Qc).
Variable n : Z.

Local Open Scope Qc_scope.
Definition q2 : Qc := Q2Qc (2#1).
Definition q3 : Qc := Q2Qc (3#1).
Definition q6 : Qc := Q2Qc (6#1).

Definition hp (i : Z) : Qc := gq xs (i + 1) - gq xs i.
Definition mp (i : Z) : Qc := (gq ys (i + 1) - gq ys i) / hp i.

(* for (i = 1; i < n - 1; ++i) { up[i] = ...; vp[i] = ...; }   as the list of (up[i], vp[i]) *)
Fixpoint fwd (k : nat) (i : Z) (uprev vprev : Qc) : list (Qc * Qc) :=
  match k with
  | O => []
  | S k' =>
    let u := q2 * (hp i + hp (i + 1)) - hp i * hp i / uprev in
    let v := q6 * (mp (i + 1) - mp i) - hp i * vprev / uprev in
    (u, v) :: fwd k' (i + 1) u v
  end.

(* (up[0], vp[0]) .. (up[n-2], vp[n-2]);  empty when n = 1 *)
Definition uv : list (Qc * Qc) :=
  if (1 <? n)%Z then
    let u0 := q2 * (hp 0 + hp 1) in
    let v0 := q6 * (mp 1 - mp 0) in
    (u0, v0) :: fwd (Z.to_nat (n - 2)) 1 u0 v0
  else [].

(* sp[n] = 0; for (i = n-1; i >= 1; --i) sp[i] = (vp[i-1] - hp[i] * sp[i+1]) / up[i-1];
   back l i = [sp[i]; sp[i+1]; ...; sp[n]] where l = (up[i-1], vp[i-1]) :: ... *)
Fixpoint back (l : list (Qc * Qc)) (i : Z) : list Qc :=
  match l with
  | [] => [0]
  | (u, v) :: r =>
    let rest := back r (i + 1) in
    (v - hp i * hd 0 rest) / u :: rest
  end.

Definition sp : list Qc := 0 :: back uv 1.       (* sp[0] = 0 *)

Definition coef_at (i : Z) : coef :=
  ((gq ys (i + 1) - gq ys i) / hp i - hp i / q3 * gq sp i - hp i / q6 * gq sp (i + 1),
   gq sp i / q2,
   (gq sp (i + 1) - gq sp i) / (q6 * hp i)).

(* None = the EINVAL return (some hp[i] < MIN_DX); n < 1: nothing written *)
Definition spline_calc : option (list coef) :=
  if (n <? 1)%Z then Some []
  else if existsb (fun i => Qcltb (hp i) min_dx) (zrange (Z.to_nat n) 0) then None
  else Some (map coef_at (zrange (Z.to_nat n) 0)).

Variable cs : list coef.
Variable x : Qc.

(* for (;;) { i = (low + high) / 2; if (low >= high) break; ... }    fuel >= number of rounds *)
Fixpoint bsearch (fuel : nat) (low high : Z) : Z :=
  let i := Z.quot (low + high) 2 in
  match fuel with
  | O => i
  | S f =>
    if (high <=? low)%Z then i
    else if Qcltb x (gq xs i) then bsearch f low (i - 1)
    else if Qcleb (gq xs (i + 1)) x then bsearch f (i + 1) high
    else i
  end.

(* None = errno EINVAL, HUGE_VAL *)
Definition spline_eval : option Qc :=
  if (n <? 1)%Z then None
  else if Qcltb x (gq xs 0) then
    Some (cB (gc cs 0) * (x - gq xs 0) + gq ys 0)
  else if Qcleb (gq xs n) x then
    let dx := gq xs n - gq xs (n - 1) in
    let c := gc cs (n - 1) in
    let m := cB c + dx * (q2 * cC c + dx * q3 * cD c) in
    Some (m * (x - gq xs n) + gq ys n)
  else
    let i := bsearch (S (Z.to_nat n)) 0 (n - 1) in
    let dx := x - gq xs i in
    let c := gc cs i in
    Some (gq ys i + dx * (cB c + dx * (cC c + dx * cD c))).

End Spline.

(* what the two callers do: coefficients once, then one evaluation per frequency *)
Definition spline_interp (min_dx : Qc) (xs ys : list Qc) (qs : list Qc) : option (list (option Qc)) :=
  let n := (Z.of_nat (length xs) - 1)%Z in
  match spline_calc min_dx xs ys n with
  | None => None
  | Some cs => Some (map (fun x => spline_eval xs ys n cs x) qs)
  end.
