(* Boolean order tests on Q and Qc used by the interpolation models (C10), with their
   specifications.  No axioms. *)
Require Import ZArith QArith Qcanon Lia Lqa.

(* ---------------------------------------------------------------- Q *)
Definition Qltb (a b : Q) : bool := negb (Qle_bool b a).

Lemma Qltb_true a b : Qltb a b = true <-> (a < b)%Q.
Proof.
  unfold Qltb. rewrite Bool.negb_true_iff. split; intros H.
  - apply Qnot_le_lt. intro Hle. apply Qle_bool_iff in Hle. congruence.
  - destruct (Qle_bool b a) eqn:E; [|reflexivity].
    apply Qle_bool_iff in E. exfalso. apply (Qlt_not_le _ _ H E).
Qed.

Lemma Qltb_false a b : Qltb a b = false <-> (b <= a)%Q.
Proof.
  unfold Qltb. rewrite Bool.negb_false_iff. apply Qle_bool_iff.
Qed.

(* ---------------------------------------------------------------- Qc *)
Local Open Scope Qc_scope.

Definition Qcltb (a b : Qc) : bool := match a ?= b with Lt => true | _ => false end.
Definition Qcleb (a b : Qc) : bool := match a ?= b with Gt => false | _ => true end.
Definition Qcabs' (a : Qc) : Qc := if Qcltb a 0 then - a else a.

Lemma Qcltb_true a b : Qcltb a b = true <-> a < b.
Proof.
  unfold Qcltb. rewrite Qclt_alt. destruct (a ?= b); split; intro H; congruence.
Qed.

Lemma Qcltb_false a b : Qcltb a b = false <-> b <= a.
Proof.
  split; intro H.
  - apply Qcnot_lt_le. intro L. apply Qcltb_true in L. congruence.
  - destruct (Qcltb a b) eqn:E; [|reflexivity]. apply Qcltb_true in E.
    exfalso. exact (Qcle_not_lt _ _ H E).
Qed.

Lemma Qcleb_true a b : Qcleb a b = true <-> a <= b.
Proof.
  unfold Qcleb. rewrite Qcle_alt. destruct (a ?= b); split; intro H; congruence.
Qed.

Lemma Qcleb_false a b : Qcleb a b = false <-> b < a.
Proof.
  split; intro H.
  - apply Qcnot_le_lt. intro L. apply Qcleb_true in L. congruence.
  - destruct (Qcleb a b) eqn:E; [|reflexivity]. apply Qcleb_true in E.
    exfalso. exact (Qclt_not_le _ _ H E).
Qed.

(* transfer of Qc facts to Q so that lra applies *)
Lemma this_add a b : (this (a + b) == this a + this b)%Q.
Proof. unfold Qcplus, Q2Qc, this. apply Qred_correct. Qed.
Lemma this_sub a b : (this (a - b) == this a - this b)%Q.
Proof.
  unfold Qcminus, Qcplus, Qcopp, Q2Qc, this. rewrite !Qred_correct. reflexivity.
Qed.
Lemma this_opp a : (this (- a) == - this a)%Q.
Proof. unfold Qcopp, Q2Qc, this. apply Qred_correct. Qed.
Lemma this_mul a b : (this (a * b) == this a * this b)%Q.
Proof. unfold Qcmult, Q2Qc, this. apply Qred_correct. Qed.
Lemma this_0 : (this 0 == 0)%Q. Proof. reflexivity. Qed.

Lemma Qc_eq_this a b : (this a == this b)%Q -> a = b.
Proof. apply Qc_is_canon. Qed.

Lemma Qeq_refl_eq (a b : Q) : a = b -> (a == b)%Q.
Proof. intros ->; reflexivity. Qed.

(* qc2q: turn a goal and all hypotheses about Qc order/equality into Q statements *)
Ltac qc2q :=
  unfold Qclt, Qcle in *;
  repeat match goal with
         | H : @eq Qc _ _ |- _ => apply (f_equal this) in H; apply Qeq_refl_eq in H
         end;
  try (apply Qc_eq_this);
  repeat (rewrite ?this_add, ?this_sub, ?this_opp, ?this_mul in * ).


Lemma Qcabs'_nonneg a : 0 <= a -> Qcabs' a = a.
Proof.
  intro H. unfold Qcabs'. destruct (Qcltb a 0) eqn:E; [|reflexivity].
  apply Qcltb_true in E. exfalso. exact (Qcle_not_lt _ _ H E).
Qed.

Lemma Qcabs'_0 : Qcabs' 0 = 0.
Proof. reflexivity. Qed.

Lemma Qcabs'_pos_sub a b : a <= b -> Qcabs' (b - a) = b - a.
Proof. intro H. apply Qcabs'_nonneg. qc2q. simpl this. lra. Qed.

Lemma Qcabs'_neg_sub a b : a <= b -> Qcabs' (a - b) = b - a.
Proof.
  intro H. unfold Qcabs'. destruct (Qcltb (a - b) 0) eqn:E.
  - ring.
  - apply Qcltb_false in E. qc2q. simpl this in *. lra.
Qed.

Lemma Qcsub_diag a : a - a = 0.
Proof. ring. Qed.

Lemma Qc_gap_not_le (a b e : Qc) : a + e < b -> ~ (b - a <= e).
Proof. intros H C. qc2q. lra. Qed.

Lemma Qc_gap_lt (a b e : Qc) : a + e < b -> 0 <= e -> a < b.
Proof. intros H He. qc2q. simpl this in *. lra. Qed.
