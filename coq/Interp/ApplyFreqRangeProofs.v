(* Range decision of vnacal_apply for requests (ApplyFreqRange.v with the regenerated
   range_apply_reject): >= 5 % misses refused, covered requests accepted, and exactly what a
   one-point calibration accepts. *)
Require Import List ZArith QArith Bool Lqa.
Require Import LV.Interp.QOrd LV.Interp.FrangeBase LV.Gen.RangeGen LV.Interp.RangeProofs LV.Interp.FrangeModel
               LV.Interp.ApplyFreqRange.
Import ListNotations.
Local Open Scope Q_scope.

Lemma apply_refuses_5pct_l cal req : ascending req = true -> req <> [] -> cal <> [] ->
  miss_low (firstq req) (firstq cal) \/ miss_high (lastq req) (lastq cal) ->
  apply_check cal req = VOutOfRange.
Proof.
  intros Ha Hr Hc Hm. unfold apply_check. rewrite Ha. simpl negb. cbv iota.
  destruct req as [|r0 rr]; [congruence|]. destruct cal as [|c0 cc]; [congruence|].
  rewrite (range_apply_rejects_5pct_l _ _ _ _ Hm). reflexivity.
Qed.

Lemma apply_accepts_cover_l cal req : ascending req = true -> cal <> [] ->
  (req <> [] -> covers (firstq req) (lastq req) (firstq cal) (lastq cal)) ->
  apply_check cal req = VOk.
Proof.
  intros Ha Hc Hcov. unfold apply_check. rewrite Ha. simpl negb. cbv iota.
  destruct req as [|r0 rr]; [reflexivity|]. destruct cal as [|c0 cc]; [congruence|].
  rewrite (range_apply_accepts_cover_l _ _ _ _ (Hcov ltac:(congruence))). reflexivity.
Qed.

Lemma apply_not_increasing_l cal req : ascending req = false -> apply_check cal req = VNotIncreasing.
Proof. intro Ha. unfold apply_check. rewrite Ha. reflexivity. Qed.

Lemma apply_zero_length_check_l cal : apply_check cal [] = VOk.
Proof. reflexivity. Qed.

Lemma apply_no_cal_points_l req : ascending req = true -> req <> [] -> apply_check [] req = VNoCalPoints.
Proof. intros Ha Hr. unfold apply_check. rewrite Ha. destruct req; [congruence|reflexivity]. Qed.

(* one calibration point c (fmin = fmax = c): accepted = the whole request within 1 % of c *)
Lemma apply_one_point_cal_range_l c req : ascending req = true -> req <> [] ->
  (apply_check [c] req = VOk <-> (99 # 100) * c <= firstq req /\ lastq req <= (101 # 100) * c).
Proof.
  intros Ha Hr. unfold apply_check. rewrite Ha. simpl negb. cbv iota.
  destruct req as [|r0 rr]; [congruence|].
  unfold range_apply_reject, f_extrapolation; cbv zeta.
  change (firstq [c]) with c. change (lastq [c]) with c.
  set (a := firstq (r0 :: rr)). set (b := lastq (r0 :: rr)).
  destruct (Qltb a ((1 - (1 # 100)) * c)) eqn:E1; [apply Qltb_true in E1|apply Qltb_false in E1];
  (destruct (Qltb ((1 + (1 # 100)) * c) b) eqn:E2; [apply Qltb_true in E2|apply Qltb_false in E2]);
  simpl; split; intro H; try discriminate; try reflexivity; try (destruct H; exfalso; lra); split; lra.
Qed.

(* satisfiable, both verdicts *)
Example apply_range_examples :
  apply_check [1; 2; 3] [1; 3 # 2; 3] = VOk /\ apply_check [1; 2; 3] [94 # 100; 2] = VOutOfRange /\
  apply_check [1; 2; 3] [1; 316 # 100] = VOutOfRange /\ apply_check [1; 2; 3] [2; 2] = VNotIncreasing /\
  apply_check [1; 2; 3] [3; 2] = VNotIncreasing /\ apply_check [] [1] = VNoCalPoints /\ apply_check [] [] = VOk /\
  apply_check [2] [2] = VOk /\ apply_check [2] [199 # 100; 201 # 100] = VOk /\ apply_check [2] [2; 203 # 100] = VOutOfRange /\
  ascending [1; 3 # 2; 3] = true /\ miss_low (94 # 100) 1 /\ miss_high (316 # 100) 3 /\ covers 1 3 1 3.
Proof. unfold miss_low, miss_high, covers. repeat split; try reflexivity; try lra. Qed.
