(* Self-contained statements of the C10 lemmas (glue between the section lemmas and
   Properties_C10.v). *)
Require Import List ZArith QArith Qcanon Lqa.
Require Import LV.Base.QcI LV.Interp.QOrd LV.Interp.RfiModel LV.Interp.SplineModel
  LV.Interp.RfiProofs LV.Interp.SplineProofs.
Import ListNotations.
Local Open Scope Z_scope.

Definition xat (xp : list Qc) (i : Z) : Qc := nth (Z.to_nat i) xp 0%Qc.
Definition yat (yp : list qi) (i : Z) : qi := nth (Z.to_nat i) yp qi0.

(* knots strictly increasing, consecutive knots more than eps apart (eps >= 0; with eps = 0:
   strictly increasing) *)
Definition knots_ok (eps : Qc) (xp : list Qc) (n : Z) : Prop :=
  (0 <= eps)%Qc /\ forall i, 0 <= i < n - 1 -> (xat xp i + eps < xat xp (i + 1))%Qc.

Definition value_of (r : option (qi * Z)) : option qi :=
  match r with Some (v, _) => Some v | None => None end.

Lemma rfi_hint_indep_l2 eps cut xp yp n m : zlen xp = n -> zlen yp = n -> knots_ok eps xp n ->
  forall x h1 h2, value_of (rfi eps cut xp yp n m x h1) = value_of (rfi eps cut xp yp n m x h2).
Proof.
  intros Hx Hy [He Hs] x h1 h2.
  exact (rfi_hint_indep_l eps cut xp yp n m Hx Hy He Hs x h1 h2).
Qed.

Lemma rfi_history_indep_l eps cut xp yp n m : zlen xp = n -> zlen yp = n -> knots_ok eps xp n ->
  forall qs h, rfi_run eps cut xp yp n m h qs = map (fun q => value_of (rfi eps cut xp yp n m q 0)) qs.
Proof.
  intros Hx Hy [He Hs] qs h.
  exact (rfi_run_spec eps cut xp yp n m Hx Hy He Hs qs h).
Qed.

Lemma gap_increasing min_dx xs n : (0 < min_dx)%Qc ->
  (forall i, 0 <= i < n -> (min_dx <= gq xs (i + 1) - gq xs i)%Qc) ->
  forall i, 0 <= i < n -> (gq xs i < gq xs (i + 1))%Qc.
Proof.
  intros Hp Hg i Hi. specialize (Hg i Hi). qc2q. simpl this in *. lra.
Qed.

Lemma spline_linear_l min_dx xs ys n p q : 1 <= n -> (0 < min_dx)%Qc ->
  (forall i, 0 <= i < n -> (min_dx <= gq xs (i + 1) - gq xs i)%Qc) ->
  (forall i, 0 <= i <= n -> gq ys i = (p + q * gq xs i)%Qc) ->
  exists cs, spline_calc min_dx xs ys n = Some cs /\
             forall x, spline_eval xs ys n cs x = Some (p + q * x)%Qc.
Proof.
  intros Hn Hp Hg Hl. eexists. split; [apply calc_line; assumption|].
  intros x. apply eval_line; try assumption. apply (gap_increasing min_dx); assumption.
Qed.

Lemma spline_calc_ok_l min_dx xs ys n : 1 <= n ->
  (forall i, 0 <= i < n -> (min_dx <= gq xs (i + 1) - gq xs i)%Qc) ->
  exists cs, spline_calc min_dx xs ys n = Some cs.
Proof. intros Hn Hg. eexists. apply calc_line; assumption. Qed.
