(* Proofs about the parameter-chain range model (FrangeModel.v).  They depend on the regenerated
   comparison operators of Gen/RangeGen.v (frange_clamp, range_new_parameter_reject_x): a flipped
   comparison in the C text breaks frange_correlated_is_intersection / rej_inter. *)
Require Import List ZArith QArith Bool Lqa Lia Permutation.
Require Import LV.Interp.QOrd LV.Interp.FrangeBase LV.Gen.RangeGen LV.Interp.RangeProofs LV.Interp.FrangeModel.
Import ListNotations.
Local Open Scope Q_scope.

(* ------------------------------------------------------------------ the walk *)
Definition base_range (p : param) : xq * xq :=
  match p with
  | PVector fs => (Fin (firstq fs), Fin (lastq fs))
  | _ => (Fin 0, Inf)
  end.

Lemma walk_chain_end_l p : walk p = base_range (chain_end p).
Proof. induction p; simpl; auto. Qed.

Lemma chain_end_is_end p : match chain_end p with PScalar | PVector _ => True | _ => False end.
Proof. induction p; simpl; auto. Qed.

Lemma frange_plain_l p : (forall g o, p <> PCorrelated (Some g) o) -> frange p = walk p.
Proof.
  intro H. unfold frange. destruct (walk p) as [a b] eqn:E.
  destruct p as [| |o|[g|] o]; try reflexivity. exfalso. apply (H g o). reflexivity.
Qed.

(* lower end = max of the lower ends, upper end = min of the upper ends *)
Lemma frange_correlated_is_intersection_l g o :
  frange (PCorrelated (Some g) o) = inter (walk o) (Fin (firstq g), Fin (lastq g)).
Proof.
  unfold frange. simpl walk. destruct (walk o) as [a b].
  unfold frange_clamp, inter, xmax, xmin. simpl fst. simpl snd. reflexivity.
Qed.

(* ------------------------------------------------------------------ the decision is monotone *)
Section Band.
Variables nl nh : Q.

Definition rej (r : xq * xq) : bool := range_new_parameter_reject_x nl nh (fst r) (snd r).

Ltac qcase :=
  repeat match goal with
         | |- context [Qltb ?a ?b] =>
           let E := fresh "E" in destruct (Qltb a b) eqn:E;
           [apply Qltb_true in E | apply Qltb_false in E]
         end.

Lemma rej_inter r s : rej (inter r s) = rej r || rej s.
Proof.
  destruct r as [[a|] [b|]], s as [[c|] [d|]];
    unfold rej, inter, xmax, xmin, range_new_parameter_reject_x, f_extrapolation; cbv zeta;
    simpl fst; simpl snd; unfold xltb;
    qcase; simpl; qcase; simpl; try reflexivity; try (exfalso; lra).
Qed.

Lemma rej_inter_all l : l <> [] -> rej (inter_all l) = existsb rej l.
Proof.
  induction l as [|r t IH]; [congruence|]. intros _.
  destruct t as [|r' t'].
  - simpl. rewrite orb_false_r. reflexivity.
  - change (inter_all (r :: r' :: t')) with (inter r (inter_all (r' :: t'))).
    rewrite rej_inter, IH by congruence. reflexivity.
Qed.

Lemma consumed_nonempty p : consumed p <> [].
Proof. induction p as [| |o IH|[g|] o IH]; simpl; congruence. Qed.

Lemma walk_in_consumed p : In (walk p) (consumed p).
Proof.
  induction p as [| |o IH|[g|] o IH]; simpl; auto.
Qed.

Lemma existsb_in (f : xq * xq -> bool) l x : In x l -> f x = true -> existsb f l = true.
Proof. intros Hi Hf. apply existsb_exists. exists x. split; assumption. Qed.

Lemma single_ok_rej p : single_ok nl nh p = negb (rej (frange p)).
Proof. unfold single_ok, rej. destruct (frange p). reflexivity. Qed.

(* accepted  <->  no consumed range refuses the band *)
Lemma add_ok_existsb_l p : add_ok nl nh p = negb (existsb rej (consumed p)).
Proof.
  induction p as [| |o IH|[g|] o IH].
  - simpl add_ok. rewrite single_ok_rej, frange_plain_l by congruence. simpl. rewrite orb_false_r, andb_true_r. reflexivity.
  - simpl add_ok. rewrite single_ok_rej, frange_plain_l by congruence. simpl. rewrite orb_false_r, andb_true_r. reflexivity.
  - simpl add_ok. rewrite single_ok_rej, frange_plain_l by congruence. simpl. rewrite orb_false_r, andb_true_r. reflexivity.
  - simpl add_ok. rewrite single_ok_rej, frange_correlated_is_intersection_l, rej_inter, IH.
    simpl consumed. simpl existsb.
    destruct (rej (walk o)) eqn:Ew.
    + rewrite (existsb_in rej _ _ (walk_in_consumed o) Ew). simpl. rewrite orb_true_r. reflexivity.
    + simpl. rewrite negb_orb. reflexivity.
  - simpl add_ok. rewrite single_ok_rej, frange_plain_l by congruence. rewrite IH. simpl walk. simpl consumed.
    destruct (rej (walk o)) eqn:Ew.
    + rewrite (existsb_in rej _ _ (walk_in_consumed o) Ew). reflexivity.
    + reflexivity.
Qed.

(* the decision is the decision on the intersection of everything consumed *)
Lemma add_ok_intersection_l p : add_ok nl nh p = negb (rej (inter_all (consumed p))).
Proof. rewrite add_ok_existsb_l, rej_inter_all by apply consumed_nonempty. reflexivity. Qed.

(* ------------------------------------------------------------------ 5 % / cover rule *)
Lemma rej_miss_low lo h : miss_low nl lo -> rej (Fin lo, h) = true.
Proof.
  intros [H0 [H1 H2]]. unfold rej, range_new_parameter_reject_x, f_extrapolation; cbv zeta. simpl fst. simpl snd.
  apply orb_true_iff. left. unfold xltb. apply Qltb_true. lra.
Qed.

Lemma rej_miss_high l hi : miss_high nh hi -> rej (l, Fin hi) = true.
Proof.
  intros [H0 H1]. unfold rej, range_new_parameter_reject_x, f_extrapolation; cbv zeta. simpl fst. simpl snd.
  apply orb_true_iff. right. destruct l; unfold xltb; apply Qltb_true; lra.
Qed.

Definition covers_x (r : xq * xq) : Prop :=
  exists lo, fst r = Fin lo /\ 0 <= lo /\ lo <= nl /\ nl <= nh /\
             (snd r = Inf \/ exists hi, snd r = Fin hi /\ nh <= hi).

Lemma rej_covers r : covers_x r -> rej r = false.
Proof.
  destruct r as [a b]. intros (lo & Ha & H0 & H1 & H2 & Hb). simpl in Ha, Hb. subst a.
  unfold rej, range_new_parameter_reject_x, f_extrapolation; cbv zeta. simpl fst. simpl snd.
  apply orb_false_iff. split.
  - unfold xltb. apply Qltb_false. lra.
  - destruct Hb as [->|(hi & -> & Hh)]; [reflexivity|]. unfold xltb. apply Qltb_false. lra.
Qed.

Lemma add_refuses_any_miss_l p r :
  In r (consumed p) ->
  (exists lo, fst r = Fin lo /\ miss_low nl lo) \/ (exists hi, snd r = Fin hi /\ miss_high nh hi) ->
  add_ok nl nh p = false.
Proof.
  intros Hin H. rewrite add_ok_existsb_l. apply negb_false_iff. apply (existsb_in rej _ r Hin).
  destruct r as [a b]. simpl in H. destruct H as [(lo & -> & Hm)|(hi & -> & Hm)].
  - apply rej_miss_low; assumption.
  - apply rej_miss_high; assumption.
Qed.

Lemma add_accepts_all_cover_l p :
  (forall r, In r (consumed p) -> covers_x r) -> add_ok nl nh p = true.
Proof.
  intro H. rewrite add_ok_existsb_l. apply negb_true_iff.
  destruct (existsb rej (consumed p)) eqn:E; [|reflexivity].
  apply existsb_exists in E. destruct E as (r & Hin & Hr). rewrite (rej_covers r (H r Hin)) in Hr. discriminate.
Qed.

(* ------------------------------------------------------------------ both orders decide alike *)
Lemma add_ok_members p : add_ok nl nh p = forallb (single_ok nl nh) (hash_members p).
Proof.
  induction p as [| |o IH|g o IH]; simpl; try rewrite andb_true_r; try reflexivity.
  rewrite IH. reflexivity.
Qed.

Lemma forallb_perm {A} (f : A -> bool) l1 l2 : Permutation l1 l2 -> forallb f l1 = forallb f l2.
Proof.
  induction 1; simpl; try congruence.
  - destruct (f x), (f y); reflexivity.
Qed.

Lemma orders_agree_l p members :
  Permutation members (hash_members p) -> set_ok nl nh members = add_ok nl nh p.
Proof. intro H. unfold set_ok. rewrite add_ok_members. apply forallb_perm. assumption. Qed.

End Band.

(* ------------------------------------------------------------------ borrowed frequency vector *)
Lemma xmax_same a : xmax a a = a.
Proof. unfold xmax. destruct (xltb a a); reflexivity. Qed.
Lemma xmin_same a : xmin a a = a.
Proof. unfold xmin. destruct (xltb a a); reflexivity. Qed.

(* sigma_frequency_vector == NULL with >= 2 points: the grid is the vector at the end of the chain,
   the range is that of the correlate *)
Lemma borrowed_grid_no_restriction_l min_dx other n sigma p :
  mk_correlated min_dx other None n sigma = Some p -> (1 < n)%Z ->
  frange p = walk other /\ exists fs, chain_end other = PVector fs /\ p = PCorrelated (Some fs) other.
Proof.
  unfold mk_correlated. intros H Hn.
  destruct (n <? 1)%Z eqn:E1; [discriminate|].
  destruct (n =? 1)%Z eqn:E2; [apply Z.eqb_eq in E2; lia|].
  destruct (chain_end other) as [|fs|o'|g' o'] eqn:Ee; try discriminate.
  destruct (Z.of_nat (length fs) =? n)%Z; [|discriminate].
  destruct (existsb _ sigma); [discriminate|].
  destruct (negb (gaps_ok min_dx fs)); [discriminate|].
  inversion H; subst p. split.
  - rewrite frange_correlated_is_intersection_l, walk_chain_end_l, Ee. simpl base_range.
    unfold inter. simpl fst. simpl snd. rewrite xmax_same, xmin_same. reflexivity.
  - exists fs. split; reflexivity.
Qed.

(* a single sigma value never restricts the range *)
Lemma one_point_no_restriction_l min_dx other sfv sigma p :
  mk_correlated min_dx other sfv 1 sigma = Some p -> p = PCorrelated None other /\ frange p = walk other.
Proof.
  unfold mk_correlated. change (1 <? 1)%Z with false. change (1 =? 1)%Z with true. cbv iota.
  match goal with |- context [existsb ?f ?l] => destruct (existsb f l) end; [discriminate|].
  intro H. inversion H. split; [reflexivity|]. unfold frange. simpl. destruct (walk other). reflexivity.
Qed.
