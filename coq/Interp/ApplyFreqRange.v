(* The tests _vnacal_apply_common (src/vnacal_apply.c) makes on the request frequency vector before
   the loop, in its order: strictly increasing; a zero-length request skips the range test
   (goto range_ok); a calibration without frequency points is refused; the first request frequency
   against _vnacal_calibration_get_fmin_bound, the last against .._fmax_bound (the regenerated
   range_apply_reject of Gen/RangeGen.v).  cal = calibration frequencies, req = request
   frequencies.  No proofs in this file. *)
Require Import List ZArith QArith Bool.
Require Import LV.Interp.QOrd LV.Interp.FrangeBase LV.Gen.RangeGen LV.Interp.FrangeModel.
Import ListNotations.

Inductive verdict : Type := VNotIncreasing | VNoCalPoints | VOutOfRange | VOk.

Definition apply_check (cal req : list Q) : verdict :=
  if negb (ascending req) then VNotIncreasing              (* fv[i] >= fv[i + 1] for some i *)
  else match req with
       | [] => VOk                                         (* vaa_frequencies == 0: goto range_ok *)
       | _ :: _ =>
         match cal with
         | [] => VNoCalPoints
         | _ :: _ =>
           if range_apply_reject (firstq req) (lastq req) (firstq cal) (lastq cal) then VOutOfRange
           else VOk
         end
       end.
