(* Lemmas about RfiModel (property C10): memory safety, exactness at the knots, independence
   of the segment hint / of the query history. *)
Require Import List ZArith QArith Qcanon Lia Bool.
Require Import LV.Base.QcI LV.Interp.QOrd LV.Interp.RfiModel.
Import ListNotations.
Local Open Scope Z_scope.

(* ------------------------------------------------------------------ checked arrays *)
Lemma rd_some {A} (l : list A) (i : Z) (dflt : A) :
  0 <= i < zlen l -> rd l i = Some (nth (Z.to_nat i) l dflt).
Proof.
  intros [H0 H1]. unfold rd, zlen in *.
  destruct (i <? 0) eqn:E; [apply Z.ltb_lt in E; lia|].
  apply nth_error_nth'. lia.
Qed.

Lemma rd_ex {A} (l : list A) (i : Z) : 0 <= i < zlen l -> exists v, rd l i = Some v.
Proof.
  intros H. destruct l as [|a l]; [unfold zlen in H; simpl in H; lia|].
  exists (nth (Z.to_nat i) (a :: l) a). apply rd_some; assumption.
Qed.

Lemma upd_length {A} (l : list A) k v : length (upd l k v) = length l.
Proof. revert k; induction l as [|h t IH]; intros [|k]; simpl; auto. Qed.

Lemma wr_ex {A} (l : list A) (i : Z) v :
  0 <= i < zlen l -> exists l', wr l i v = Some l' /\ zlen l' = zlen l.
Proof.
  intros [H0 H1]. unfold wr. fold (zlen l).
  destruct (i <? 0) eqn:E; [apply Z.ltb_lt in E; lia|].
  destruct (zlen l <=? i) eqn:E2; [apply Z.leb_le in E2; lia|].
  simpl. eexists; split; [reflexivity|]. unfold zlen. rewrite upd_length. reflexivity.
Qed.

Section Proofs.
Variables (eps cut : Qc) (xp : list Qc) (yp : list qi) (n m : Z).
Hypothesis Hlx : zlen xp = n.
Hypothesis Hly : zlen yp = n.
Hypothesis Hm : 1 <= m <= n.

Let gx (i : Z) : Qc := nth (Z.to_nat i) xp 0%Qc.
Let gy (i : Z) : qi := nth (Z.to_nat i) yp qi0.

Lemma rdx i : 0 <= i < n -> rd xp i = Some (gx i).
Proof. intros H. apply rd_some. rewrite Hlx. exact H. Qed.
Lemma rdy i : 0 <= i < n -> rd yp i = Some (gy i).
Proof. intros H. apply rd_some. rewrite Hly. exact H. Qed.

(* ------------------------------------------------------------------ segment search *)
Lemma clamp_range h : 2 <= n -> 0 <= clamp n h <= n - 2.
Proof.
  intros H. unfold clamp. destruct (h <? 0) eqn:E; [lia|].
  apply Z.ltb_ge in E. destruct (n - 2 <? h) eqn:E2; [lia|]. apply Z.ltb_ge in E2. lia.
Qed.

(* result of the downward loop: index in range, exit condition, and everything passed over
   is above x *)
Lemma search_down_spec x fuel : forall s, 0 <= s <= n - 2 -> (Z.of_nat fuel = s) ->
  exists s', search_down xp x fuel s = Some s' /\ 0 <= s' <= s /\
    (s' = 0 \/ (gx s' <= x)%Qc) /\ (forall k, s' < k <= s -> (x < gx k)%Qc).
Proof.
  induction fuel as [|f IH]; intros s Hs Hf.
  - simpl. exists s. repeat split; try lia; try (left; lia).
  - simpl. destruct (0 <? s) eqn:E; [|apply Z.ltb_ge in E; lia].
    rewrite (rdx s) by lia.
    destruct (Qcltb x (gx s)) eqn:L.
    + apply Qcltb_true in L.
      destruct (IH (s - 1)) as (s' & E1 & R1 & X1 & P1); [lia|lia|].
      exists s'. repeat split; try assumption; try lia.
      intros k Hk. destruct (Z.eq_dec k s) as [->|Hne]; [exact L|apply P1; lia].
    + apply Qcltb_false in L. exists s. repeat split; try lia.
      right; exact L.
Qed.

Lemma search_up_spec x fuel : forall s, 0 <= s <= n - 2 -> (Z.of_nat fuel = n - 2 - s) ->
  exists s', search_up xp n x fuel s = Some s' /\ s <= s' <= n - 2 /\
    (s' = n - 2 \/ (x <= gx (s' + 1))%Qc) /\ (forall k, s < k <= s' -> (gx k < x)%Qc).
Proof.
  induction fuel as [|f IH]; intros s Hs Hf.
  - simpl. exists s. repeat split; try lia; try (left; lia).
  - simpl. destruct (s <? n - 2) eqn:E; [|apply Z.ltb_ge in E; lia].
    rewrite (rdx (s + 1)) by lia.
    destruct (Qcltb (gx (s + 1)) x) eqn:L.
    + apply Qcltb_true in L.
      destruct (IH (s + 1)) as (s' & E1 & R1 & X1 & P1); [lia|lia|].
      exists s'. repeat split; try assumption; try lia.
      intros k Hk. destruct (Z.eq_dec k (s + 1)) as [->|Hne]; [exact L|apply P1; lia].
    + apply Qcltb_false in L. exists s. repeat split; try lia.
      right; exact L.
Qed.

(* the segments the search may return for x *)
Definition seg_ok (x : Qc) (s : Z) : Prop :=
  0 <= s <= n - 2 /\ (s = 0 \/ (gx s <= x)%Qc) /\ (s = n - 2 \/ (x <= gx (s + 1))%Qc).

Lemma search_in_range x s0 : 0 <= s0 <= n - 2 ->
  exists s, search xp n x s0 = Some s /\ 0 <= s <= n - 2.
Proof.
  intros H. unfold search. rewrite (rdx s0) by lia.
  destruct (Qcltb x (gx s0)).
  - destruct (search_down_spec x (Z.to_nat s0) s0) as (s & E & R & _); [lia|lia|].
    exists s; split; [exact E|lia].
  - destruct (search_up_spec x (Z.to_nat (n - 2 - s0)) s0) as (s & E & R & _); [lia|lia|].
    exists s; split; [exact E|lia].
Qed.

(* ------------------------------------------------------------------ no fault *)
Lemma knot_test_ex x s : 0 <= s <= n - 2 ->
  exists k, knot_test eps xp yp m x s = Some k /\
            match k with Ret _ => True | Near nr => nr = s \/ nr = s + 1 end.
Proof.
  intros H. unfold knot_test. rewrite (rdx s) by lia.
  destruct (Qcleb _ eps).
  - rewrite (rdy s) by lia. eexists; split; [reflexivity|exact I].
  - rewrite (rdx (s + 1)) by lia. destruct (Qcleb _ eps).
    + rewrite (rdy (s + 1)) by lia. eexists; split; [reflexivity|exact I].
    + eexists; split; [reflexivity|]. destruct (_ || _); [left|right]; reflexivity.
Qed.

Lemma odd_false_ge2 : Z.odd m = false -> 2 <= m.
Proof. intros H. destruct (Z.eq_dec m 1) as [E|E]; [rewrite E in H; discriminate|lia]. Qed.

Lemma window_ok s nr : 0 <= s <= n - 2 -> nr = s \/ nr = s + 1 ->
  let base := window_base n m s nr in
  0 <= base <= n - m /\ 0 <= nr - base < m.
Proof.
  intros Hs Hnr. unfold window_base.
  assert (Hq1 : Z.quot (m - 1) 2 = (m - 1) / 2) by (apply Z.quot_div_nonneg; lia).
  assert (Hq2 : Z.quot m 2 = m / 2) by (apply Z.quot_div_nonneg; lia).
  rewrite Hq1, Hq2.
  destruct (Z.odd m) eqn:Od.
  - set (b := nr - (m - 1) / 2).
    assert (Hb : b = nr - (m - 1) / 2) by reflexivity.
    destruct (b <? 0) eqn:E1; [apply Z.ltb_lt in E1|apply Z.ltb_ge in E1].
    + split; [lia|]. split; [lia|]. assert (2 * ((m - 1) / 2) <= m - 1) by (apply Z.mul_div_le; lia). lia.
    + destruct (n <? b + m) eqn:E2; [apply Z.ltb_lt in E2|apply Z.ltb_ge in E2].
      * split; [lia|]. assert (0 <= (m - 1) / 2) by (apply Z.div_pos; lia). lia.
      * assert (0 <= (m - 1) / 2) by (apply Z.div_pos; lia).
        assert (2 * ((m - 1) / 2) <= m - 1) by (apply Z.mul_div_le; lia). lia.
  - apply odd_false_ge2 in Od.
    set (b := s - (m / 2 - 1)).
    assert (Hb : b = s - (m / 2 - 1)) by reflexivity.
    assert (H2 : 2 * (m / 2) <= m) by (apply Z.mul_div_le; lia).
    assert (H3 : 1 <= m / 2) by (apply Z.div_le_lower_bound; lia).
    destruct (b <? 0) eqn:E1; [apply Z.ltb_lt in E1|apply Z.ltb_ge in E1].
    + split; [lia|]. lia.
    + destruct (n <? b + m) eqn:E2; [apply Z.ltb_lt in E2|apply Z.ltb_ge in E2]; lia.
Qed.

Lemma take_y_ex k : forall i, 0 <= i -> i + Z.of_nat k <= n ->
  exists c, take_y yp k i = Some c /\ length c = k.
Proof.
  induction k as [|k IH]; intros i H0 H1.
  - exists []. split; reflexivity.
  - simpl. rewrite (rdy i) by lia.
    destruct (IH (i + 1)) as (c & E & L); [lia|lia|].
    rewrite E. eexists; split; [reflexivity|]. simpl. rewrite L. reflexivity.
Qed.

Lemma inner_ex x fuel : forall j i base c d tr,
  zlen c = m -> zlen d = m -> 0 <= j -> 0 <= i -> 0 <= base -> base + m <= n ->
  j + Z.of_nat fuel = m - i - 1 ->
  exists r tr', inner cut xp x fuel j i base c d tr = Some (r, tr') /\
    match r with Some (c', d') => zlen c' = m /\ zlen d' = m | None => True end.
Proof.
  induction fuel as [|f IH]; intros j i base c d tr Hc Hd Hj Hi Hb Hbm Hf.
  - simpl. exists (Some (c, d)), tr. split; [reflexivity|split; assumption].
  - cbn [inner].
    destruct (rd_ex c (j + 1)) as (cj1 & ->); [lia|].
    destruct (rd_ex d j) as (dj & ->); [lia|].
    rewrite (rdx (base + j)) by lia. rewrite (rdx (base + i + j + 1)) by lia.
    destruct (cabs_lt _ cut).
    + eexists None, _. split; [reflexivity|exact I].
    + destruct (wr_ex c j (qi_div (qi_mul (qi_mul (qi_sub cj1 dj) (qx (x - gx (base + j))%Qc)) dj)
         (qi_sub (qi_mul (qx (x - gx (base + j))%Qc) dj) (qi_mul (qx (x - gx (base + i + j + 1))%Qc) cj1))))
        as (c' & -> & Lc'); [lia|].
      destruct (rd_ex c' (j + 1)) as (cj1' & ->); [lia|].
      match goal with |- context [wr d j ?v] => destruct (wr_ex d j v) as (d' & -> & Ld'); [lia|] end.
      apply IH; lia.
Qed.

Lemma outer_ex x fuel : forall i base c d y cur tr,
  zlen c = m -> zlen d = m -> 0 <= i -> 0 <= base -> base + m <= n ->
  i + Z.of_nat fuel = m - 1 -> -1 <= cur -> (i <= m - 2 -> cur <= m - i - 2) ->
  exists r, outer cut xp m x fuel i base c d y cur tr = Some r.
Proof.
  induction fuel as [|f IH]; intros i base c d y cur tr Hc Hd Hi Hb Hbm Hf Hc1 Hc2.
  - simpl. eexists; reflexivity.
  - cbn [outer].
    destruct (inner_ex x (Z.to_nat (m - i - 1)) 0 i base c d tr) as (r & tr' & -> & Hr); try lia.
    destruct r as [[c' d']|]; [|eexists; reflexivity].
    destruct Hr as [Lc Ld].
    destruct (2 * (cur + 1) <? m - i) eqn:E; [apply Z.ltb_lt in E|apply Z.ltb_ge in E].
    + replace ((0 <=? cur + 1) && (cur + 1 <? m - i)) with true
        by (symmetry; apply andb_true_iff; split; [apply Z.leb_le|apply Z.ltb_lt]; lia).
      destruct (rd_ex c' (cur + 1)) as (v & ->); [lia|].
      apply IH; try lia.
    + replace ((0 <=? cur) && (cur <? m - i)) with true
        by (symmetry; apply andb_true_iff; split; [apply Z.leb_le|apply Z.ltb_lt]; lia).
      destruct (rd_ex d' cur) as (v & ->); [lia|].
      apply IH; try lia.
Qed.

Lemma after_ex x hint s : 0 <= s <= n - 2 -> exists r, after eps cut xp yp n m x hint s = Some r.
Proof.
  intros Hs. unfold after.
  destruct (knot_test_ex x s Hs) as (k & -> & Hk).
  destruct k as [y|nr]; [eexists; reflexivity|].
  destruct (window_ok s nr Hs Hk) as [Hb Hc].
  set (base := window_base n m s nr) in *.
  replace ((0 <=? base) && (base <=? n - m) && (0 <=? nr - base) && (nr - base <? m)) with true
    by (symmetry; repeat (apply andb_true_iff; split); try apply Z.leb_le; try apply Z.ltb_lt; lia).
  destruct (take_y_ex (Z.to_nat m) base) as (c & -> & Lc); [lia|lia|].
  rewrite (rdy (base + (nr - base))) by lia.
  destruct (outer_ex x (Z.to_nat (m - 1)) 0 base c (map (add_eps eps) c) (gy (base + (nr - base))) (nr - base - 1) [])
    as (r & ->); try lia.
  - unfold zlen; lia.
  - unfold zlen; rewrite map_length; lia.
  - eexists; reflexivity.
Qed.

Lemma rfi_full_no_fault x hint : exists r, rfi_full eps cut xp yp n m x hint = Some r.
Proof.
  unfold rfi_full.
  replace ((n <? 1) || (n <? m) || (m <? 1)) with false
    by (symmetry; repeat (apply orb_false_iff; split); apply Z.ltb_ge; lia).
  destruct (n <? 2) eqn:E; [apply Z.ltb_lt in E|apply Z.ltb_ge in E].
  - rewrite (rdy 0) by lia. eexists; reflexivity.
  - destruct (search_in_range x (clamp n hint)) as (s & -> & Hs); [apply clamp_range; lia|].
    apply after_ex; exact Hs.
Qed.

Lemma rfi_no_fault_l x hint : exists v h, rfi eps cut xp yp n m x hint = Some (v, h).
Proof.
  unfold rfi. destruct (rfi_full_no_fault x hint) as (r & ->). eexists _, _; reflexivity.
Qed.

(* ------------------------------------------------------------------ ordered knots *)
Hypothesis Heps : (0 <= eps)%Qc.
Hypothesis Hsorted : forall i, 0 <= i < n - 1 -> (gx i + eps < gx (i + 1))%Qc.

Lemma gx_step i : 0 <= i < n - 1 -> (gx i < gx (i + 1))%Qc.
Proof. intros H. apply (Qc_gap_lt _ _ eps); [apply Hsorted; exact H|exact Heps]. Qed.

Lemma gx_mono_nat k : forall i, 0 <= i -> i + Z.of_nat (S k) < n -> (gx i < gx (i + Z.of_nat (S k)))%Qc.
Proof.
  induction k as [|k IH]; intros i H0 H1.
  - replace (i + Z.of_nat 1) with (i + 1) by lia. apply gx_step; lia.
  - apply Qclt_trans with (gx (i + Z.of_nat (S k))); [apply IH; lia|].
    replace (i + Z.of_nat (S (S k))) with (i + Z.of_nat (S k) + 1) by lia.
    apply gx_step; lia.
Qed.

Lemma gx_mono i j : 0 <= i -> i < j -> j < n -> (gx i < gx j)%Qc.
Proof.
  intros H0 H1 H2. replace j with (i + Z.of_nat (S (Z.to_nat (j - i - 1)))) by lia.
  apply gx_mono_nat; lia.
Qed.

Lemma gx_le_inv i j : 0 <= i < n -> 0 <= j < n -> (gx i <= gx j)%Qc -> i <= j.
Proof.
  intros Hi Hj H. destruct (Z_le_gt_dec i j) as [L|G]; [exact L|].
  exfalso. apply (Qclt_not_le (gx j) (gx i)); [apply gx_mono; lia|exact H].
Qed.

Lemma search_seg_ok x s0 : 2 <= n -> 0 <= s0 <= n - 2 ->
  exists s, search xp n x s0 = Some s /\ seg_ok x s.
Proof.
  intros Hn H. unfold search. rewrite (rdx s0) by lia.
  destruct (Qcltb x (gx s0)) eqn:L.
  - apply Qcltb_true in L.
    destruct (search_down_spec x (Z.to_nat s0) s0) as (s & E & R & X & P); [lia|lia|].
    exists s; split; [exact E|]. split; [lia|]. split; [exact X|].
    destruct (Z.eq_dec s s0) as [->|Hne].
    + (* the loop did not move: s0 = 0 *)
      destruct X as [->|X]; [|exfalso; exact (Qclt_not_le _ _ L X)].
      destruct (Z.eq_dec 0 (n - 2)) as [E0|E0]; [left; exact E0|].
      right. apply Qclt_le_weak. apply Qclt_trans with (gx 0); [exact L|]. apply gx_step; lia.
    + right. apply Qclt_le_weak. apply P. lia.
  - apply Qcltb_false in L.
    destruct (search_up_spec x (Z.to_nat (n - 2 - s0)) s0) as (s & E & R & X & P); [lia|lia|].
    exists s; split; [exact E|]. split; [lia|]. split; [|exact X].
    destruct (Z.eq_dec s s0) as [->|Hne]; [right; exact L|].
    right. apply Qclt_le_weak. apply P. lia.
Qed.

(* the knot tests decide: a query at knot k seen from either adjacent segment *)
Lemma knot_test_left s : 0 <= s <= n - 2 ->
  knot_test eps xp yp m (gx s) s = Some (Ret (gy s)).
Proof.
  intros H. unfold knot_test. rewrite (rdx s) by lia.
  replace (gx s - gx s)%Qc with 0%Qc by ring.
  rewrite Qcabs'_0.
  replace (Qcleb 0 eps) with true by (symmetry; apply Qcleb_true; exact Heps).
  rewrite (rdy s) by lia. reflexivity.
Qed.

Lemma knot_test_right s : 0 <= s <= n - 2 ->
  knot_test eps xp yp m (gx (s + 1)) s = Some (Ret (gy (s + 1))).
Proof.
  intros H. unfold knot_test. rewrite (rdx s) by lia.
  assert (Hs := Hsorted s ltac:(lia)).
  rewrite Qcabs'_pos_sub by (apply Qclt_le_weak; apply (Qc_gap_lt _ _ eps); assumption).
  replace (Qcleb (gx (s + 1) - gx s) eps) with false
    by (symmetry; apply Qcleb_false; apply Qcnot_le_lt; apply Qc_gap_not_le; exact Hs).
  rewrite (rdx (s + 1)) by lia.
  replace (gx (s + 1) - gx (s + 1))%Qc with 0%Qc by ring.
  rewrite Qcabs'_0.
  replace (Qcleb 0 eps) with true by (symmetry; apply Qcleb_true; exact Heps).
  rewrite (rdy (s + 1)) by lia. reflexivity.
Qed.

Lemma seg_ok_knot k s : 0 <= k < n -> seg_ok (gx k) s -> k = s \/ k = s + 1.
Proof.
  intros Hk (R & Lo & Hi).
  assert (s <= k).
  { destruct Lo as [->|Lo]; [lia|]. apply gx_le_inv; try lia. exact Lo. }
  assert (k <= s + 1).
  { destruct Hi as [->|Hi]; [lia|]. apply gx_le_inv; try lia. exact Hi. }
  lia.
Qed.

Lemma after_at_knot k s hint : 0 <= k < n -> seg_ok (gx k) s ->
  after eps cut xp yp n m (gx k) hint s = Some (gy k, hint, []).
Proof.
  intros Hk Hs. destruct (seg_ok_knot k s Hk Hs) as [->| ->]; destruct Hs as (R & _);
    unfold after; [rewrite knot_test_left by lia|rewrite knot_test_right by lia]; reflexivity.
Qed.

Lemma rfi_full_at_knot k hint : 0 <= k < n ->
  rfi_full eps cut xp yp n m (gx k) hint = Some (gy k, hint, []).
Proof.
  intros Hk. unfold rfi_full.
  replace ((n <? 1) || (n <? m) || (m <? 1)) with false
    by (symmetry; repeat (apply orb_false_iff; split); apply Z.ltb_ge; lia).
  destruct (n <? 2) eqn:E; [apply Z.ltb_lt in E|apply Z.ltb_ge in E].
  - assert (k = 0) by lia. subst k. rewrite (rdy 0) by lia. reflexivity.
  - destruct (search_seg_ok (gx k) (clamp n hint)) as (s & -> & Hs); [lia|apply clamp_range; lia|].
    apply after_at_knot; assumption.
Qed.

Lemma rfi_at_knot_l k hint : 0 <= k < n -> rfi eps cut xp yp n m (gx k) hint = Some (gy k, hint).
Proof. intros Hk. unfold rfi. rewrite rfi_full_at_knot by exact Hk. reflexivity. Qed.

(* two admissible segments give the same value *)
Definition valof (r : option (qi * Z * list bs_step)) : option qi :=
  match r with Some (v, _, _) => Some v | None => None end.

Lemma seg_ok_two x s1 s2 : seg_ok x s1 -> seg_ok x s2 -> s1 < s2 -> s2 = s1 + 1 /\ x = gx s2.
Proof.
  intros (R1 & _ & Hi1) (R2 & Lo2 & _) Hlt.
  destruct Hi1 as [->|Hi1]; [lia|]. destruct Lo2 as [->|Lo2]; [lia|].
  assert (Hle : (gx s2 <= gx (s1 + 1))%Qc) by (apply Qcle_trans with x; assumption).
  assert (s2 <= s1 + 1) by (apply gx_le_inv; try lia; exact Hle).
  assert (s2 = s1 + 1) by lia. split; [assumption|].
  subst s2. apply Qcle_antisym; assumption.
Qed.

Lemma after_seg_indep x h1 h2 s1 s2 : seg_ok x s1 -> seg_ok x s2 ->
  valof (after eps cut xp yp n m x h1 s1) = valof (after eps cut xp yp n m x h2 s2).
Proof.
  intros H1 H2.
  destruct (Z.lt_trichotomy s1 s2) as [L|[E|G]].
  - destruct (seg_ok_two x s1 s2 H1 H2 L) as [-> ->]. destruct H1 as (R1 & _). destruct H2 as (R2 & _).
    unfold after. rewrite knot_test_right by lia. rewrite knot_test_left by lia. reflexivity.
  - subst s2. unfold after. destruct (knot_test eps xp yp m x s1) as [[y|nr]|]; reflexivity.
  - destruct (seg_ok_two x s2 s1 H2 H1 ltac:(lia)) as [-> ->]. destruct H2 as (R2 & _). destruct H1 as (R1 & _).
    unfold after. rewrite knot_test_right by lia. rewrite knot_test_left by lia. reflexivity.
Qed.

Lemma rfi_full_hint_indep x h1 h2 :
  valof (rfi_full eps cut xp yp n m x h1) = valof (rfi_full eps cut xp yp n m x h2).
Proof.
  unfold rfi_full.
  destruct ((n <? 1) || (n <? m) || (m <? 1)); [reflexivity|].
  destruct (n <? 2) eqn:E; [apply Z.ltb_lt in E|apply Z.ltb_ge in E].
  - destruct (rd yp 0); reflexivity.
  - destruct (search_seg_ok x (clamp n h1)) as (s1 & -> & Hs1); [lia|apply clamp_range; lia|].
    destruct (search_seg_ok x (clamp n h2)) as (s2 & -> & Hs2); [lia|apply clamp_range; lia|].
    apply after_seg_indep; assumption.
Qed.

Definition rfi_val (x : Qc) (h : Z) : option qi :=
  match rfi eps cut xp yp n m x h with Some (v, _) => Some v | None => None end.

Lemma rfi_val_valof x h : rfi_val x h = valof (rfi_full eps cut xp yp n m x h).
Proof.
  unfold rfi_val, rfi. destruct (rfi_full eps cut xp yp n m x h) as [[[v s] t]|]; reflexivity.
Qed.

Lemma rfi_hint_indep_l x h1 h2 : rfi_val x h1 = rfi_val x h2.
Proof. rewrite !rfi_val_valof. apply rfi_full_hint_indep. Qed.

(* a whole query history: the values do not depend on the initial hint, hence not on what was
   asked before *)
Lemma rfi_run_spec qs : forall h,
  rfi_run eps cut xp yp n m h qs = map (fun q => rfi_val q 0) qs.
Proof.
  induction qs as [|q r IH]; intros h; [reflexivity|].
  simpl. rewrite <- (rfi_hint_indep_l q h 0). unfold rfi_val.
  destruct (rfi eps cut xp yp n m q h) as [[v h']|]; rewrite IH; reflexivity.
Qed.

End Proofs.
