(* Frequencies extended by +infinity (the upper end of the range of a scalar parameter is the C
   constant INFINITY) with the two boolean comparisons of IEEE doubles restricted to finite
   values and +infinity.  Used by Gen/RangeGen.v (regenerated) and the Frange* files.  No proofs. *)
Require Import QArith Bool.
Require Import LV.Interp.QOrd.

Inductive xq : Type := Fin (q : Q) | Inf.

(* a < b *)
Definition xltb (a b : xq) : bool :=
  match a, b with
  | Fin x, Fin y => Qltb x y
  | Fin _, Inf => true
  | Inf, _ => false
  end.

(* a <= b *)
Definition xleb (a b : xq) : bool :=
  match a, b with
  | Fin x, Fin y => Qle_bool x y
  | _, Inf => true
  | Inf, Fin _ => false
  end.
