(* The four generated frequency-range decision functions (Gen/RangeGen.v, regenerated from the
   C statements by translate/ranges.py) refuse every range that misses the needed band by 5 % or
   more at either end and accept every covering range (property C10).
     need_lo .. need_hi : the band that has to be covered (calibration range / queried frequency)
     have_lo .. have_hi : the band supplied (parameter, noise vector, calibration) *)
Require Import ZArith QArith Lqa Bool.
Require Import LV.Interp.QOrd LV.Gen.RangeGen.
Local Open Scope Q_scope.

(* the supplied band starts at least 5 % above the needed low end; a needed band that starts at 0 Hz
   is missed by every supplied band that starts above 0 *)
Definition miss_low (need_lo have_lo : Q) : Prop := 0 <= need_lo /\ 0 < have_lo /\ (105 # 100) * need_lo <= have_lo.
Definition miss_high (need_hi have_hi : Q) : Prop := 0 < need_hi /\ have_hi <= (95 # 100) * need_hi.
Definition covers (need_lo need_hi have_lo have_hi : Q) : Prop :=
  0 <= have_lo /\ have_lo <= need_lo /\ need_lo <= need_hi /\ need_hi <= have_hi.

Ltac unfold_range :=
  unfold range_new_parameter_reject, range_m_error_reject, range_get_value_reject,
    range_apply_reject, f_extrapolation, miss_low, miss_high, covers in *; cbv zeta.

Ltac rejects := intros nl nh hl hh H; unfold_range; apply orb_true_iff;
  destruct H as [[H0 [H1 H2]]|[H0 H1]]; [left|right]; apply Qltb_true; lra.
Ltac accepts := intros nl nh hl hh H; unfold_range; destruct H as (H0 & H1 & H2 & H3);
  apply orb_false_iff; split; apply Qltb_false; lra.

Lemma range_new_parameter_rejects_5pct_l : forall nl nh hl hh,
  miss_low nl hl \/ miss_high nh hh -> range_new_parameter_reject nl nh hl hh = true.
Proof. rejects. Qed.
Lemma range_new_parameter_accepts_cover_l : forall nl nh hl hh,
  covers nl nh hl hh -> range_new_parameter_reject nl nh hl hh = false.
Proof. accepts. Qed.

Lemma range_m_error_rejects_5pct_l : forall nl nh hl hh,
  miss_low nl hl \/ miss_high nh hh -> range_m_error_reject nl nh hl hh = true.
Proof. rejects. Qed.
Lemma range_m_error_accepts_cover_l : forall nl nh hl hh,
  covers nl nh hl hh -> range_m_error_reject nl nh hl hh = false.
Proof. accepts. Qed.

Lemma range_apply_rejects_5pct_l : forall nl nh hl hh,
  miss_low nl hl \/ miss_high nh hh -> range_apply_reject nl nh hl hh = true.
Proof. rejects. Qed.
Lemma range_apply_accepts_cover_l : forall nl nh hl hh,
  covers nl nh hl hh -> range_apply_reject nl nh hl hh = false.
Proof. accepts. Qed.

(* vnacal_get_parameter_value: the needed band is the single frequency f *)
Lemma range_get_value_rejects_5pct_l : forall f hl hh,
  miss_low f hl \/ miss_high f hh -> range_get_value_reject f f hl hh = true.
Proof.
  intros f hl hh H; unfold_range; apply orb_true_iff;
  destruct H as [[H0 [H1 H2]]|[H0 H1]]; [left|right]; apply Qltb_true; lra.
Qed.
Lemma range_get_value_accepts_cover_l : forall f hl hh,
  covers f f hl hh -> range_get_value_reject f f hl hh = false.
Proof.
  intros f hl hh H; unfold_range; destruct H as (H0 & H1 & H2 & H3);
  apply orb_false_iff; split; apply Qltb_false; lra.
Qed.

(* vnacal_new_set_m_error: the range test applies to calls with two or more points; a single value is
   never refused for its frequency (vnacal_new(3): the vector is not used) *)
Lemma range_m_error_single_point_l : forall nl nh hl hh, range_m_error_reject_n 1 nl nh hl hh = false.
Proof. reflexivity. Qed.
Lemma range_m_error_n_rejects_5pct_l : forall n nl nh hl hh, (2 <= n)%Z ->
  miss_low nl hl \/ miss_high nh hh -> range_m_error_reject_n n nl nh hl hh = true.
Proof.
  intros n nl nh hl hh Hn H. unfold range_m_error_reject_n, range_m_error_applies.
  replace (1 <? n)%Z with true by (symmetry; apply Z.ltb_lt; Lia.lia).
  apply range_m_error_rejects_5pct_l. assumption.
Qed.
Lemma range_m_error_n_accepts_cover_l : forall n nl nh hl hh,
  covers nl nh hl hh -> range_m_error_reject_n n nl nh hl hh = false.
Proof.
  intros n nl nh hl hh H. unfold range_m_error_reject_n. destruct (range_m_error_applies n); [|reflexivity].
  apply range_m_error_accepts_cover_l. assumption.
Qed.

(* vnacal_get_parameter_value: a NaN frequency (None) is refused before the comparisons; on numbers the
   decision is range_get_value_reject *)
Lemma range_get_value_nan_refused_l : forall hl hh, range_get_value_reject_nan None hl hh = true.
Proof. reflexivity. Qed.
Lemma range_get_value_number_l : forall f hl hh,
  range_get_value_reject_nan (Some f) hl hh = range_get_value_reject f f hl hh.
Proof. reflexivity. Qed.

(* the hypotheses are satisfiable (non-vacuity), and both verdicts occur *)
Example range_examples :
  miss_low 100 106 /\ miss_low 0 1 /\ range_new_parameter_reject 0 200 1 200 = true /\ miss_high 200 190 /\ covers 100 200 100 200 /\
  range_m_error_reject_n 1 100 200 150 150 = false /\ range_m_error_reject_n 2 100 200 150 200 = true /\
  range_new_parameter_reject 100 200 100 190 = true /\
  range_new_parameter_reject 100 200 100 200 = false /\
  range_m_error_reject 100 200 106 200 = true /\ range_m_error_reject 100 200 99 201 = false /\
  range_get_value_reject 211 211 100 200 = true /\ range_get_value_reject 200 200 100 200 = false /\
  range_apply_reject 94 200 100 200 = true /\ range_apply_reject 100 200 100 200 = false.
Proof. unfold miss_low, miss_high, covers. repeat split; try reflexivity; try lra. Qed.
