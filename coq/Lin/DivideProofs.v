(* mldivide / mrdivide / minverse as coded (LuModel: the substitution loops over the LU factors, the
   row_index scatter of mrdivide), from the hypothesis det A <> 0 (LuDetModel.det_lap, Laplace expansion):
   every n, every right-hand-side shape.  Corollaries of LuNonsing.lu_solves_nonsingular /
   solvers_c_nonsingular and LuDetProofs.det_nonzero_iff_kernel_trivial; the returned determinant is
   det A (LuDetProofs.lu_det_all_n). *)
Require Import List Arith Lia Bool.
Require Import LV.Base.CField LV.Lin.MatL LV.Lin.LuModel LV.Lin.LuPartial.
Require Import LV.Lin.LuGenA LV.Lin.LuGenB LV.Lin.LuGenC LV.Lin.LuGenD LV.Lin.LuPivot LV.Lin.LuProofs
               LV.Lin.LuNonsing LV.Lin.LuDetModel LV.Lin.LuDetAlg LV.Lin.LuDetProofs.
Local Open Scope cf_scope.

Section Divide.
Variable K : CField.
Variable M : Type.
Variable nrm2 : K -> M.
Variable mulM : M -> M -> M.
Variable ltM : M -> M -> bool.
Variable zeroM : M.
Variable scale_of_max : M -> M.
Hypothesis ltM_irrefl : forall x, ltM x x = false.
Hypothesis ltM_trans : forall x y z, ltM x y = true -> ltM y z = true -> ltM x z = true.
Hypothesis ltM_cotrans : forall x y z, ltM x z = true -> ltM x y = false -> ltM y z = true.
Hypothesis mulM_pos : forall x y, ltM zeroM x = true -> ltM zeroM y = true ->
  ltM zeroM (mulM x y) = true.
Hypothesis mulM_zero_r : forall x, mulM x zeroM = zeroM.
Hypothesis nrm2_zero : nrm2 0 = zeroM.
Hypothesis nrm2_pos : forall x : K, x <> 0 -> ltM zeroM (nrm2 x) = true.
Hypothesis scale_pos : forall x, ltM zeroM x = true -> ltM zeroM (scale_of_max x) = true.
Hypothesis K_zero_dec : forall x : K, x = 0 \/ x <> 0.

Notation mat := (mat K).
Notation mg := (mget K).
Notation lu := (lu K M nrm2 mulM ltM zeroM scale_of_max).
Notation mldivide := (mldivide K M nrm2 mulM ltM zeroM scale_of_max).
Notation mrdivide := (mrdivide K M nrm2 mulM ltM zeroM scale_of_max).
Notation minverse := (minverse K M nrm2 mulM ltM zeroM scale_of_max).

Theorem divide_solves_det n (a : mat) : wf n n a -> det_lap K n a <> 0 ->
  (forall m (b : mat), wf n m b -> forall i k, i < n -> k < m ->
      mg (mmul K n n m a (fst (mldivide a b n m))) i k = mg b i k /\
      snd (mldivide a b n m) = det_lap K n a) /\
  (forall m (b : mat), wf m n b -> forall i k, i < m -> k < n ->
      mg (mmul K m n n (fst (mrdivide b a m n)) a) i k = mg b i k /\
      snd (mrdivide b a m n) = det_lap K n a) /\
  (forall i k, i < n -> k < n ->
      mg (mmul K n n n a (fst (minverse a n))) i k = (if Nat.eqb i k then 1 else 0)) /\
  snd (minverse a n) = det_lap K n a.
Proof.
  intros Hw Hd.
  pose proof (lu_det_all_n K M nrm2 mulM ltM zeroM scale_of_max ltM_irrefl ltM_trans ltM_cotrans mulM_pos
                mulM_zero_r nrm2_zero nrm2_pos scale_pos K_zero_dec a n Hw) as Edet.
  apply (det_nonzero_iff_kernel_trivial K M nrm2 mulM ltM zeroM scale_of_max ltM_irrefl ltM_trans ltM_cotrans
           mulM_pos mulM_zero_r nrm2_zero nrm2_pos scale_pos K_zero_dec a n Hw) in Hd.
  destruct (lu_solves_nonsingular K M nrm2 mulM ltM zeroM scale_of_max ltM_irrefl ltM_trans ltM_cotrans
              mulM_pos mulM_zero_r nrm2_zero nrm2_pos scale_pos K_zero_dec n a Hw Hd) as (H1 & H2 & H3 & _).
  split; [|split; [|split]].
  - intros m b Hb i k Hi Hk. split; [apply H1; auto|exact Edet].
  - intros m b Hb i k Hi Hk. split; [apply H2; auto|exact Edet].
  - exact H3.
  - exact Edet.
Qed.
End Divide.
