(* Instantiations of LuModel and LsSpec at the Gaussian rationals for property C19, with both
   readings of the row-scale statement of src/vnacommon_lu.c:
     [scale_max]   row_scale[i] = max          (the code before the D25 repair)
     [scale_recip] row_scale[i] = 1.0 / max    (what the comment says; the D25 repair)
   Magnitudes are squared in the model, so the reciprocal of the squared maximum is used; for an
   all-zero row the C code computes 1/0 = +inf and inf * 0 = NaN, which is never "> best_value";
   over Qc, / 0 = 0 and 0 * 0 = 0, which is never "> best_value" either.
   translate/lu_scale.py decides on every run which of the two the C source contains. *)
Require Import List Arith QArith Qcanon.
Import ListNotations.
Require Import LV.Base.CField LV.Base.QcI LV.Lin.MatL LV.Lin.LuModel LV.Lin.LuQI LV.Lin.LsSpec LV.Lin.LuPartial LV.Lin.LsLu.

Definition scale_max (m : Qc) : Qc := m.
Definition scale_recip (m : Qc) : Qc := (/ m)%Qc.

Definition q2_lu_max := lu QIF Qc qi_nrm Qcmult Qc_ltb 0%Qc scale_max.
Definition q2_lu_recip := lu QIF Qc qi_nrm Qcmult Qc_ltb 0%Qc scale_recip.
Definition q2_mldivide_max := mldivide QIF Qc qi_nrm Qcmult Qc_ltb 0%Qc scale_max.
Definition q2_mldivide_recip := mldivide QIF Qc qi_nrm Qcmult Qc_ltb 0%Qc scale_recip.
Definition q2_mrdivide_max := mrdivide QIF Qc qi_nrm Qcmult Qc_ltb 0%Qc scale_max.
Definition q2_mrdivide_recip := mrdivide QIF Qc qi_nrm Qcmult Qc_ltb 0%Qc scale_recip.
Definition q2_minverse_max := minverse QIF Qc qi_nrm Qcmult Qc_ltb 0%Qc scale_max.
Definition q2_minverse_recip := minverse QIF Qc qi_nrm Qcmult Qc_ltb 0%Qc scale_recip.

Definition qi_isz (x : qi) : bool := qi_eqb x qi0.
Definition q2_ls_solve := ls_solve QIF qi_isz.

(* LuPartial (what the C code returns when a pivot is exactly zero) at Q[i], both variants *)
Definition q2_lu_c_max := lu_c QIF Qc qi_nrm Qcmult Qc_ltb 0%Qc scale_max qi_isz.
Definition q2_lu_c_recip := lu_c QIF Qc qi_nrm Qcmult Qc_ltb 0%Qc scale_recip qi_isz.
Definition q2_mldivide_c_max := mldivide_c QIF Qc qi_nrm Qcmult Qc_ltb 0%Qc scale_max qi_isz.
Definition q2_mldivide_c_recip := mldivide_c QIF Qc qi_nrm Qcmult Qc_ltb 0%Qc scale_recip qi_isz.
Definition q2_mrdivide_c_max := mrdivide_c QIF Qc qi_nrm Qcmult Qc_ltb 0%Qc scale_max qi_isz.
Definition q2_mrdivide_c_recip := mrdivide_c QIF Qc qi_nrm Qcmult Qc_ltb 0%Qc scale_recip qi_isz.
Definition q2_minverse_c_max := minverse_c QIF Qc qi_nrm Qcmult Qc_ltb 0%Qc scale_max qi_isz.
Definition q2_minverse_c_recip := minverse_c QIF Qc qi_nrm Qcmult Qc_ltb 0%Qc scale_recip qi_isz.
(* outcome as data for the driver: None = finite run, Some j = first zero pivot at column j < n-1 *)
Definition lu_c_stop (r : lu_outcome QIF Qc) : option nat :=
  match r with LuFinite _ _ _ => None | LuNonFinite _ _ j _ => Some j end.
Definition cdet_opt (d : cdet QIF) : option qi :=
  match d with DetFin x => Some x | DetNaN => None end.

(* the least-squares oracle on the LU model (LsLu.v), reciprocal row scale *)
Definition q2_ls_lu := ls_lu QIF Qc qi_nrm Qcmult Qc_ltb 0%Qc scale_recip qi_isz.
