(* Instantiations of LuModel and LsSpec at the Gaussian rationals for property C19, with both
   readings of the row-scale statement of src/vnacommon_lu.c:
     [scale_max]   row_scale[i] = max          (the code before the D25 repair)
     [scale_recip] row_scale[i] = 1.0 / max    (what the comment says; the D25 repair)
   Magnitudes are squared in the model, so the reciprocal of the squared maximum is used; for an
   all-zero row the C code computes 1/0 = +inf and inf * 0 = NaN, which is never "> best_value";
   over Qc, / 0 = 0 and 0 * 0 = 0, which is never "> best_value" either.
   translate/lu_scale.py decides on every run which of the two the C source contains. *)
Require Import List Arith QArith Qcanon.
Import ListNotations.
Require Import LV.Base.CField LV.Base.QcI LV.Lin.MatL LV.Lin.LuModel LV.Lin.LuQI LV.Lin.LsSpec.

Definition scale_max (m : Qc) : Qc := m.
Definition scale_recip (m : Qc) : Qc := (/ m)%Qc.

Definition q2_lu_max := lu QIF Qc qi_nrm Qcmult Qc_ltb 0%Qc scale_max.
Definition q2_lu_recip := lu QIF Qc qi_nrm Qcmult Qc_ltb 0%Qc scale_recip.
Definition q2_mldivide_max := mldivide QIF Qc qi_nrm Qcmult Qc_ltb 0%Qc scale_max.
Definition q2_mldivide_recip := mldivide QIF Qc qi_nrm Qcmult Qc_ltb 0%Qc scale_recip.
Definition q2_mrdivide_max := mrdivide QIF Qc qi_nrm Qcmult Qc_ltb 0%Qc scale_max.
Definition q2_mrdivide_recip := mrdivide QIF Qc qi_nrm Qcmult Qc_ltb 0%Qc scale_recip.
Definition q2_minverse_max := minverse QIF Qc qi_nrm Qcmult Qc_ltb 0%Qc scale_max.
Definition q2_minverse_recip := minverse QIF Qc qi_nrm Qcmult Qc_ltb 0%Qc scale_recip.

Definition qi_isz (x : qi) : bool := qi_eqb x qi0.
Definition q2_ls_solve := ls_solve QIF qi_isz.
