(* List-based matrices over a CField: executable definitions only (no proofs). *)
Require Import List Arith.
Import ListNotations.
Require Import LV.Base.CField.
Local Open Scope cf_scope.

Section M.
Variable K : CField.

Definition mat := list (list K).

Fixpoint upd {A : Type} (l : list A) (i : nat) (v : A) : list A :=
  match l, i with
  | [], _ => []
  | _ :: r, O => v :: r
  | x :: r, S i' => x :: upd r i' v
  end.

Definition mrow (a : mat) (i : nat) : list K := nth i a [].
Definition mget (a : mat) (i j : nat) : K := nth j (mrow a i) 0.
Definition mset (a : mat) (i j : nat) (v : K) : mat := upd a i (upd (mrow a i) j v).
Definition mzero (r c : nat) : mat := repeat (repeat 0 c) r.
Definition mbuild (r c : nat) (f : nat -> nat -> K) : mat :=
  map (fun i => map (fun j => f i j) (seq 0 c)) (seq 0 r).
Definition mident (n : nat) : mat := mbuild n n (fun i j => if Nat.eqb i j then 1 else 0).
Definition mdiag (d : list K) : mat :=
  mbuild (length d) (length d) (fun i j => if Nat.eqb i j then nth i d 0 else 0).
Definition msum (n : nat) (f : nat -> K) : K := fold_left (fun acc k => acc + f k) (seq 0 n) 0.
Definition mmul (r n c : nat) (a b : mat) : mat :=
  mbuild r c (fun i j => msum n (fun k => mget a i k * mget b k j)).
Definition madd (r c : nat) (a b : mat) : mat := mbuild r c (fun i j => mget a i j + mget b i j).
Definition msub (r c : nat) (a b : mat) : mat := mbuild r c (fun i j => mget a i j - mget b i j).
Definition mtrans (r c : nat) (a : mat) : mat := mbuild c r (fun i j => mget a j i).
Definition mflat (a : mat) : list K := concat a.
(* row-major flat vector -> matrix *)
Definition munflat (r c : nat) (v : list K) : mat := mbuild r c (fun i j => nth (i * c + j) v 0).
Definition swap_rows {A : Type} (dflt : A) (l : list A) (i j : nat) : list A :=
  upd (upd l i (nth j l dflt)) j (nth i l dflt).
End M.

Arguments upd {A}.
Arguments swap_rows {A}.
