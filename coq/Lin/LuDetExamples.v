(* Non-vacuity of the determinant and row-order theorems at Q[i] (every hypothesis instantiated). *)
Require Import List Arith Lia Bool QArith Qcanon.
Import ListNotations.
Require Import LV.Base.CField LV.Base.QcI LV.Lin.MatL LV.Lin.LuModel LV.Lin.LuPartial LV.Lin.LuQI LV.Lin.LuQI2.
Require Import LV.Lin.LuGenA LV.Lin.LuGenB LV.Lin.LuGenC LV.Lin.LuGenD LV.Lin.LuGen LV.Lin.LuPivot LV.Lin.LuProofs
               LV.Lin.LuNonsing LV.Lin.LuNonsingQI.
Require Import LV.Lin.LuDetModel LV.Lin.LuDetAlg LV.Lin.LuDetProofs LV.Lin.LuRowOrderProofs LV.Lin.DivideProofs.

Local Open Scope nat_scope.

Definition qz (z : Z) : qi := mkqi z 1 0 1.

(* the theorems at Q[i] / Qc with the reciprocal row scale: no premise left *)
Theorem q_lu_det_all_n (a : mat QIF) n : wf n n a ->
  lu_d QIF Qc (q2_lu_recip a n) = det_lap QIF n a.
Proof.
  exact (lu_det_all_n QIF Qc qi_nrm Qcmult Qc_ltb 0%Qc scale_recip qc_ltM_irrefl qc_ltM_trans qc_ltM_cotrans
           qc_mulM_pos qc_mulM_zero_r qi_nrm2_zero qi_nrm2_pos qc_scale_pos qi_zero_dec a n).
Qed.

Theorem q_lu_c_det_is_det (a : mat QIF) n : wf n n a ->
  match lu_c_det QIF Qc (q2_lu_c_recip a n) with
  | DetFin d => d = det_lap QIF n a
  | DetNaN => det_lap QIF n a = @c0 QIF
  end.
Proof.
  exact (lu_c_det_is_det QIF Qc qi_nrm Qcmult Qc_ltb 0%Qc scale_recip qc_ltM_irrefl qc_ltM_trans qc_ltM_cotrans
           qc_mulM_pos qc_mulM_zero_r qi_nrm2_zero qi_nrm2_pos qc_scale_pos qi_zero_dec qi_isz qi_isz_spec a n).
Qed.

(* 3x3 with a row exchange (LuGen.ex_a): the Laplace determinant, by computation, is the returned value *)
Example ex_det_a : det_lap QIF 3 LuGen.ex_a = lu_d QIF Qc (q2_lu_recip LuGen.ex_a 3)
                   /\ det_lap QIF 3 LuGen.ex_a <> @c0 QIF.
Proof. split; [vm_compute; reflexivity|apply qi_neqb; vm_compute; reflexivity]. Qed.

(* 5x5 (beyond the old n <= 3 bound), two exchanges *)
Definition ex_a5 : mat QIF :=
  [ [qz 0; qz 2; qz 1; qz 3; qz (-1)];
    [qz 1; qz 1; mkqi 0 1 1 1; qz 2; qz 5];
    [qz 4; qz (-3); qz 2; qz 0; qz 1];
    [qz 2; qz 2; qz 7; mkqi 1 1 (-2) 1; qz 0];
    [qz (-1); qz 6; qz 1; qz 1; qz 3] ].
Lemma ex_a5_wf : wf 5 5 ex_a5.
Proof. split; [reflexivity|repeat constructor]. Qed.
Example ex_det_a5 : lu_d QIF Qc (q2_lu_recip ex_a5 5) = det_lap QIF 5 ex_a5
                    /\ lu_ri QIF Qc (q2_lu_recip ex_a5 5) <> seq 0 5
                    /\ det_lap QIF 5 ex_a5 <> @c0 QIF.
Proof.
  split; [exact (q_lu_det_all_n ex_a5 5 ex_a5_wf)|].
  split; [vm_compute; discriminate|apply qi_neqb; vm_compute; reflexivity].
Qed.

(* singular: zero pivot in the last column (0 returned) *)
Example ex_det_sing_a : det_lap QIF 3 sing_a = @c0 QIF.
Proof. vm_compute. reflexivity. Qed.


(* ---------- row order ---------- *)
Definition ro_sg (i : nat) : nat := nth i [2%nat; 0%nat; 1%nat] O.
Definition ro_ts (i : nat) : nat := nth i [1%nat; 2%nat; 0%nat] O.
Definition ro_a' : mat QIF := perm_rows QIF [2%nat; 0%nat; 1%nat] LuGen.ex_a.
Definition ro_b : mat QIF := [[qz 1; qz 0]; [qz 2; qz 3]; [qz (-1); mkqi 0 1 1 1]].
Definition ro_b' : mat QIF := perm_rows QIF [2%nat; 0%nat; 1%nat] ro_b.

Lemma ro_a'_wf : wf 3 3 ro_a'.
Proof. split; [reflexivity|repeat constructor]. Qed.

Lemma ro_decided : run_decided QIF Qc qi_nrm Qcmult Qc_ltb 0%Qc scale_recip LuGen.ex_a 3.
Proof.
  intros t Ht.
  destruct t as [|[|[|t]]]; try lia.
  - exists (col_bi QIF Qc qi_nrm Qcmult Qc_ltb 0%Qc 3 (lu_upto QIF Qc qi_nrm Qcmult Qc_ltb 0%Qc scale_recip LuGen.ex_a 3 0) 0).
    split; [vm_compute; lia|]. split.
    + intros i Hi. destruct i as [|[|[|i]]]; try lia; intros Hne; try (vm_compute; reflexivity);
        exfalso; apply Hne; vm_compute; reflexivity.
    + right. vm_compute. reflexivity.
  - exists (col_bi QIF Qc qi_nrm Qcmult Qc_ltb 0%Qc 3 (lu_upto QIF Qc qi_nrm Qcmult Qc_ltb 0%Qc scale_recip LuGen.ex_a 3 1) 1).
    split; [vm_compute; lia|]. split.
    + intros i Hi. destruct i as [|[|[|i]]]; try lia; intros Hne; try (vm_compute; reflexivity);
        exfalso; apply Hne; vm_compute; reflexivity.
    + right. vm_compute. reflexivity.
  - exists 2%nat. split; [lia|]. split; [intros i Hi Hne; lia|left; reflexivity].
Qed.

Example ex_row_order :
  map ro_sg (lu_pivots QIF Qc (q2_lu_recip ro_a' 3)) = lu_pivots QIF Qc (q2_lu_recip LuGen.ex_a 3) /\
  lu_pivots QIF Qc (q2_lu_recip ro_a' 3) <> lu_pivots QIF Qc (q2_lu_recip LuGen.ex_a 3) /\
  (forall i c, i < 3 -> c < 3 ->
     mget QIF (lu_a QIF Qc (q2_lu_recip ro_a' 3)) i c = mget QIF (lu_a QIF Qc (q2_lu_recip LuGen.ex_a 3)) i c) /\
  fst (q2_mldivide_recip ro_a' ro_b' 3 2) = fst (q2_mldivide_recip LuGen.ex_a ro_b 3 2).
Proof.
  assert (Hsg : forall i, i < 3 -> ro_sg i < 3) by (intros [|[|[|i]]] H; cbn; lia).
  assert (Hts : forall i, i < 3 -> ro_ts i < 3) by (intros [|[|[|i]]] H; cbn; lia).
  assert (H1 : forall i, i < 3 -> ro_ts (ro_sg i) = i) by (intros [|[|[|i]]] H; cbn; lia).
  assert (H2 : forall i, i < 3 -> ro_sg (ro_ts i) = i) by (intros [|[|[|i]]] H; cbn; lia).
  assert (Hr : forall i c, i < 3 -> c < 3 -> mget QIF ro_a' i c = mget QIF LuGen.ex_a (ro_sg i) c).
  { intros [|[|[|i]]] c H _; try lia; reflexivity. }
  destruct (lu_row_order_independent QIF Qc qi_nrm Qcmult Qc_ltb 0%Qc scale_recip qc_ltM_irrefl qc_ltM_trans
              3 ro_sg ro_ts Hsg Hts H1 H2 LuGen.ex_a ro_a' LuGen.ex_a_wf ro_a'_wf Hr ro_decided) as (E1 & _ & E3).
  split; [exact E1|]. split; [vm_compute; discriminate|]. split; [exact E3|].
  apply (mldivide_row_order_independent QIF Qc qi_nrm Qcmult Qc_ltb 0%Qc scale_recip qc_ltM_irrefl qc_ltM_trans
           3 ro_sg ro_ts Hsg Hts H1 H2 LuGen.ex_a ro_a' LuGen.ex_a_wf ro_a'_wf Hr 2 ro_b ro_b' ro_decided).
  intros [|[|[|i]]] k H _; try lia; reflexivity.
Qed.

(* mldivide / mrdivide / minverse from det <> 0, at Q[i] *)
Example ex_divide_det :
  forall i k, i < 3 -> k < 2 ->
    mget QIF (mmul QIF 3 3 2 LuGen.ex_a (fst (q2_mldivide_recip LuGen.ex_a ro_b 3 2))) i k = mget QIF ro_b i k.
Proof.
  destruct (divide_solves_det QIF Qc qi_nrm Qcmult Qc_ltb 0%Qc scale_recip qc_ltM_irrefl qc_ltM_trans qc_ltM_cotrans
              qc_mulM_pos qc_mulM_zero_r qi_nrm2_zero qi_nrm2_pos qc_scale_pos qi_zero_dec 3 LuGen.ex_a LuGen.ex_a_wf
              (proj2 ex_det_a)) as (H & _).
  intros i k Hi Hk. apply (H 2 ro_b); auto. split; [reflexivity|repeat constructor].
Qed.
