(* A second executable oracle for the least-squares specification of property C19, built on the
   LU model: solve the normal equations  A^H A X = A^H B  with LuModel.mldivide and answer None
   when the returned determinant is zero.  Unlike LsSpec.ls_solve (Gauss-Jordan + a posteriori
   check) it comes with BOTH directions in LsLuProofs.v: whatever it returns satisfies the normal
   equations, and it returns a solution exactly when A has full column rank.
   This is a specification-level oracle: it is NOT a model of the Householder code
   (_vnacommon_qrd / _qr / _qrsolve / _qrsolve2 need sqrt and a unit-modulus factor; no model of
   that code exists in this development).  checks/C19.py compares the C routines with it. *)
Require Import List Arith Bool.
Import ListNotations.
Require Import LV.Base.CField LV.Lin.MatL LV.Lin.LuModel LV.Lin.LsSpec.
Local Open Scope cf_scope.

Section LsLu.
Variable K : CField.
Variable M : Type.
Variable nrm2 : K -> M.
Variable mulM : M -> M -> M.
Variable ltM : M -> M -> bool.
Variable zeroM : M.
Variable scale_of_max : M -> M.
Variable isz : K -> bool.

Definition ls_lu (m n o : nat) (a b : mat K) : option (mat K) :=
  let N := normal_mat K m n a in
  let c := normal_rhs K m n o a b in
  let xd := mldivide K M nrm2 mulM ltM zeroM scale_of_max N c n o in
  if isz (snd xd) then None else Some (fst xd).
End LsLu.
