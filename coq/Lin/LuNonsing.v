(* Property C19: the pivots met by the LU model are nonzero exactly when the INPUT matrix is
   nonsingular, and what the C code returns otherwise (model LuPartial.lu_c).

   Part 1 (algebra, no order hypothesis): if, with all earlier pivots nonzero, every candidate of
           column j is zero, then A has a kernel vector v with v_j = 1 ([kernel_from_zero_column]:
           column j of P A is L' u and the columns before it are L' U, so v = e_j - U^-1 u);
           a candidate in an all-zero row of A is zero ([cand_zero_of_zero_row]).
   Part 2 (order hypotheses on the magnitude type M as premises): the row scale of a nonzero row is
           positive and follows its row through the exchanges ([RSinv]); hence a nonzero candidate
           has positive metric, the search returns a nonzero pivot (LuPivot.pivot_nonzero_if_any),
           and a zero pivot means that all candidates are zero: [pivot_zero_singular].
           [pivots_nonzero_of_trivial_kernel]: trivial kernel => every pivot met is nonzero.
   Part 3: lu_c: [lu_c_finite_is_lu], [lu_c_of_pivots_nonzero], [lu_c_rejects_iff_singular],
           the solvers from a hypothesis on the input ([lu_solves_nonsingular]).
   Part 4: instances at the Gaussian rationals, examples. *)
Require Import List Arith Lia Bool Permutation.
Import ListNotations.
Require Import LV.Base.CField LV.Lin.MatL LV.Lin.LuModel LV.Lin.LuPartial.
Require Import LV.Lin.LuGenA LV.Lin.LuGenB LV.Lin.LuGenC LV.Lin.LuGenD LV.Lin.LuPivot LV.Lin.LuProofs.
Local Open Scope cf_scope.

(* ================= Part 1: algebra ================= *)
Section Alg.
Variable K : CField.
Add Field KfN : (cth K).

Lemma one_neq_zero : (1 : K) <> 0.
Proof. exact (F_1_neq_0 (cth K)). Qed.

Lemma mul_zero_r_nz (x y : K) : x * y = 0 -> y <> 0 -> x = 0.
Proof.
  intros E Hy. transitivity ((x * y) / y); [field; exact Hy|]. rewrite E. field. exact Hy.
Qed.

(* back substitution exists: an upper triangular j x j system with nonzero diagonal is solvable *)
Lemma upper_solve (W : nat -> nat -> K) j : (forall c, c < j -> W c c <> 0) ->
  forall u : nat -> K, exists w : nat -> K,
    forall k, k < j -> sumf j (fun c => Uf K W k c * w c) = u k.
Proof.
  induction j; intros Hnz u.
  - exists (fun _ => 0). intros k Hk. lia.
  - set (wj := u j / W j j).
    destruct (IHj (fun c Hc => Hnz c (Nat.lt_lt_succ_r _ _ Hc)) (fun k => u k - W k j * wj)) as (w & Hw).
    exists (fun c => if c =? j then wj else w c). intros k Hk. cbn [sumf].
    rewrite Nat.eqb_refl.
    rewrite (sumf_ext K j _ (fun c => Uf K W k c * w c)).
    2:{ intros c Hc. destruct (Nat.eqb_spec c j); [lia|reflexivity]. }
    destruct (Nat.eq_dec k j) as [->|Hne].
    + rewrite (sumf_zero K j).
      2:{ intros c Hc. unfold Uf. destruct (Nat.leb_spec j c); [lia|ring]. }
      unfold Uf. rewrite Nat.leb_refl. unfold wj. field. apply Hnz. lia.
    + rewrite Hw by lia. unfold Uf. destruct (Nat.leb_spec k j); [|lia]. ring.
Qed.

(* the Crout invariant restricted to the first j columns, as a product *)
Lemma LU_product_upto A0 W p n j : LUrel K A0 W p n j -> j <= n ->
  forall i c, i < n -> c < j ->
  A0 (p i) c = sumf j (fun k => Lf K W i k * Uf K W k c).
Proof.
  intros (I1 & I2 & _) Hjn i c Hi Hc. destruct (le_lt_dec i c) as [Hic|Hic].
  - rewrite I1 by auto. rewrite (sumf_upto K j i); try lia.
    + f_equal.
      * apply sumf_ext. intros k Hk. unfold Lf, Uf. bsimp. reflexivity.
      * unfold Lf, Uf. bsimp. ring.
    + intros k Hk. unfold Lf. bsimp. ring.
  - rewrite I2 by auto. rewrite (sumf_upto K j c); try lia.
    + f_equal.
      * apply sumf_ext. intros k Hk. unfold Lf, Uf. bsimp. reflexivity.
      * unfold Lf, Uf. bsimp. ring.
    + intros k Hk. unfold Uf. bsimp. ring.
Qed.

(* all candidates of column j zero => kernel vector with v_j = 1 *)
Lemma kernel_from_zero_column A0 W p n j (u : nat -> K) :
  LUrel K A0 W p n j -> j < n ->
  (forall c, c < j -> W c c <> 0) ->
  (forall i, i < j -> u i = W i j - sumf i (fun k => W i k * u k)) ->
  (forall i, j <= i < n -> W i j - sumf j (fun k => W i k * u k) = 0) ->
  exists v : nat -> K, v j = 1 /\
    forall i, i < n -> sumf n (fun c => A0 (p i) c * v c) = 0.
Proof.
  intros HL Hj Hnz Hu Hs.
  destruct (upper_solve W j Hnz u) as (w & Hw).
  exists (fun c => if c <? j then - w c else if c =? j then 1 else 0).
  split.
  { destruct (Nat.ltb_spec j j); [lia|]. rewrite Nat.eqb_refl. reflexivity. }
  intros i Hi.
  rewrite (sumf_upto K n j); auto.
  2:{ intros k Hk. bsimp. ring. }
  destruct (Nat.ltb_spec j j); [lia|]. rewrite Nat.eqb_refl.
  assert (Ecol : A0 (p i) j = sumf j (fun k => Lf K W i k * u k)).
  { destruct HL as (_ & _ & I3). rewrite <- I3 by lia.
    destruct (le_lt_dec j i) as [Hji|Hij].
    - rewrite (sumf_ext K j _ (fun k => W i k * u k)).
      2:{ intros k Hk. unfold Lf. bsimp. reflexivity. }
      pose proof (Hs i (conj Hji Hi)) as E.
      transitivity ((W i j - sumf j (fun k => W i k * u k)) + sumf j (fun k => W i k * u k)); [ring|].
      rewrite E. ring.
    - rewrite (sumf_upto K j i); auto.
      + rewrite (sumf_ext K i _ (fun k => W i k * u k)).
        2:{ intros k Hk. unfold Lf. bsimp. reflexivity. }
        unfold Lf. bsimp. rewrite (Hu i Hij). ring.
      + intros k Hk. unfold Lf. bsimp. ring. }
  rewrite Ecol.
  rewrite (sumf_ext K j _ (fun c => - (sumf j (fun k => Lf K W i k * (Uf K W k c * w c))))).
  2:{ intros c Hc. destruct (Nat.ltb_spec c j); [|lia].
      rewrite (LU_product_upto A0 W p n j HL (Nat.lt_le_incl _ _ Hj) i c Hi Hc).
      rewrite sumf_scale_r.
      transitivity (- sumf j (fun k => Lf K W i k * Uf K W k c * w c)).
      - rewrite <- (sumf_scale_r K j (- w c)).
        rewrite <- (sumf_scale_r K j (w c)). ring.
      - f_equal. apply sumf_ext. intros; ring. }
  assert (E2 : sumf j (fun c => - sumf j (fun k => Lf K W i k * (Uf K W k c * w c)))
               = - sumf j (fun k => Lf K W i k * u k)).
  { transitivity (- sumf j (fun c => sumf j (fun k => Lf K W i k * (Uf K W k c * w c)))).
    { transitivity ((- (1)) * sumf j (fun c => sumf j (fun k => Lf K W i k * (Uf K W k c * w c)))); [|ring].
      rewrite sumf_scale_l. apply sumf_ext. intros; ring. }
    f_equal. rewrite sumf_exchange. apply sumf_ext. intros k Hk.
    rewrite <- sumf_scale_l. rewrite (Hw k Hk). reflexivity. }
  rewrite E2. ring.
Qed.

(* a candidate in a row whose original row is all zero is zero *)
Lemma cand_zero_of_zero_row A0 W p n j (u : nat -> K) i :
  LUrel K A0 W p n j -> j <= i < n ->
  (forall c, c < j -> W c c <> 0) ->
  (forall c, c < n -> A0 (p i) c = 0) ->
  W i j - sumf j (fun k => W i k * u k) = 0.
Proof.
  intros (_ & I2 & I3) Hi Hnz Hz.
  assert (HW : forall m c, c < m -> c < j -> W i c = 0).
  { induction m; intros c Hcm Hcj; [lia|].
    pose proof (I2 i c ltac:(lia) Hcj ltac:(lia)) as E.
    rewrite Hz in E by lia.
    rewrite (sumf_zero K c) in E.
    2:{ intros k Hk. rewrite (IHm k) by lia. ring. }
    apply (mul_zero_r_nz (W i c) (W c c)); [|apply Hnz; auto].
    transitivity (0 + W i c * W c c); [ring|]. symmetry. exact E. }
  rewrite I3 by lia. rewrite Hz by lia.
  rewrite (sumf_zero K j).
  - ring.
  - intros k Hk. rewrite (HW (S k) k) by lia. ring.
Qed.
End Alg.

(* ================= Part 2: the model ================= *)
Section Model.
Variable K : CField.
Variable M : Type.
Variable nrm2 : K -> M.
Variable mulM : M -> M -> M.
Variable ltM : M -> M -> bool.
Variable zeroM : M.
Variable scale_of_max : M -> M.
Add Field KfN2 : (cth K).

Notation mat := (mat K).
Notation lu_state := (lu_state K M).
Notation lu_a := (lu_a K M).
Notation lu_ri := (lu_ri K M).
Notation lu_rs := (lu_rs K M).
Notation lu_d := (lu_d K M).
Notation lu_column := (lu_column K M nrm2 mulM ltM zeroM).
Notation lu_init := (lu_init K M nrm2 ltM zeroM scale_of_max).
Notation lu := (lu K M nrm2 mulM ltM zeroM scale_of_max).
Notation lu_upto := (lu_upto K M nrm2 mulM ltM zeroM scale_of_max).
Notation row_max := (row_max K M nrm2 ltM zeroM).
Notation mg := (mget K).
Notation col_bi := (col_bi K M nrm2 mulM ltM zeroM).
Notation cand_s := (cand_s K M).
Notation pivots_nonzero := (pivots_nonzero K M nrm2 mulM ltM zeroM scale_of_max).
Notation in_kernel := (in_kernel K).
Notation mldivide := (mldivide K M nrm2 mulM ltM zeroM scale_of_max).
Notation mrdivide := (mrdivide K M nrm2 mulM ltM zeroM scale_of_max).
Notation minverse := (minverse K M nrm2 mulM ltM zeroM scale_of_max).

(* A has only the zero vector in its kernel *)
Definition kernel_trivial (a : mat) (n : nat) : Prop :=
  forall v, in_kernel a n v -> forall k, k < n -> v k = 0.
(* A is singular: some nonzero vector in its kernel *)
Definition singular (a : mat) (n : nat) : Prop :=
  exists v, in_kernel a n v /\ exists k, k < n /\ v k <> 0.

Lemma singular_not_trivial a n : singular a n -> ~ kernel_trivial a n.
Proof. intros (v & Hv & k & Hk & Hvk) Ht. exact (Hvk (Ht v Hv k Hk)). Qed.

(* a left inverse makes the kernel trivial *)
Lemma left_inverse_kernel_trivial (a x : mat) n :
  (forall i k, i < n -> k < n ->
     sumf n (fun t => mg x i t * mg a t k) = (if Nat.eqb i k then 1 else 0)) ->
  kernel_trivial a n.
Proof.
  intros Hx v Hv k Hk.
  assert (E1 : v k = sumf n (fun c => (if Nat.eqb c k then v c else 0))).
  { symmetry. apply (sumf_single K n k v Hk). }
  rewrite E1.
  transitivity (sumf n (fun c => sumf n (fun t => mg x k t * mg a t c) * v c)).
  { apply sumf_ext. intros c Hc. rewrite (Hx k c Hk Hc).
    destruct (Nat.eqb_spec c k); destruct (Nat.eqb_spec k c); try lia; ring. }
  transitivity (sumf n (fun c => sumf n (fun t => mg x k t * (mg a t c * v c)))).
  { apply sumf_ext. intros c Hc. rewrite sumf_scale_r. apply sumf_ext. intros t Ht. ring. }
  rewrite sumf_exchange.
  apply sumf_zero. intros t Ht.
  rewrite <- sumf_scale_l. rewrite (Hv t Ht). ring.
Qed.

Definition pivot_at (a : mat) (n j : nat) : K := mg (lu_a (lu_upto a n (S j))) j j.

Lemma pivot_at_final a n j : wf n n a -> j < n -> mg (lu_a (lu a n)) j j = pivot_at a n j.
Proof.
  intros Hw Hj. unfold pivot_at. rewrite lu_upto_full.
  destruct (lu_upto_stable K M nrm2 mulM ltM zeroM scale_of_max a n Hw j n Hj (le_n n)) as (_ & H).
  apply H; lia.
Qed.

Lemma pivot_at_upto a n j t : wf n n a -> j < t -> t <= n ->
  mg (lu_a (lu_upto a n t)) j j = pivot_at a n j.
Proof.
  intros Hw Hj Ht. unfold pivot_at.
  destruct (lu_upto_stable K M nrm2 mulM ltM zeroM scale_of_max a n Hw j t Hj Ht) as (_ & H).
  apply H; lia.
Qed.

(* all candidates of column j zero (earlier pivots nonzero) => A is singular, with v_j = 1 *)
Lemma zero_candidates_singular a n j : wf n n a -> j < n ->
  (forall k, k < j -> pivot_at a n k <> 0) ->
  (forall i, j <= i < n -> cand_s n (lu_upto a n j) j i = 0) ->
  exists v, in_kernel a n v /\ v j = 1.
Proof.
  intros Hw Hj Hprev Hz.
  pose proof (Sinv_upto K M nrm2 mulM ltM zeroM scale_of_max a n Hw j (Nat.lt_le_incl _ _ Hj)) as HS.
  pose proof HS as (Hwa & Hl & Hrange & Hinj).
  assert (Hnzj : forall k, k < j -> mg (lu_a (lu_upto a n j)) k k <> 0).
  { intros k Hk. rewrite (pivot_at_upto a n k j) by (auto; lia). apply Hprev; auto. }
  pose proof (lu_invariant K M nrm2 mulM ltM zeroM scale_of_max a n Hw j (Nat.lt_le_incl _ _ Hj) Hnzj) as HL.
  destruct (lu_column_spec_bi K M nrm2 mulM ltM zeroM n (lu_upto a n j) j Hwa Hl Hj)
    as (_ & _ & _ & _ & _ & Hu & Hs & _).
  destruct (kernel_from_zero_column K (mg a) (mg (lu_a (lu_upto a n j)))
              (fun i => nth i (lu_ri (lu_upto a n j)) O) n j
              (fun i => mg (phase1 K j (lu_a (lu_upto a n j))) i j) HL Hj Hnzj Hu)
    as (v & Hvj & Hv).
  { intros i Hi. rewrite <- (Hs i Hi). apply Hz; auto. }
  exists v. split; [|exact Hvj].
  intros r Hr. destruct (Sinv_surj K M n _ HS r Hr) as (i & Hi & <-). apply Hv; auto.
Qed.

Section Order.
Hypothesis ltM_irrefl : forall x, ltM x x = false.
Hypothesis ltM_trans : forall x y z, ltM x y = true -> ltM y z = true -> ltM x z = true.
(* negative transitivity of the strict order (holds for every total order) *)
Hypothesis ltM_cotrans : forall x y z, ltM x z = true -> ltM x y = false -> ltM y z = true.
Hypothesis mulM_pos : forall x y, ltM zeroM x = true -> ltM zeroM y = true ->
  ltM zeroM (mulM x y) = true.
Hypothesis mulM_zero_r : forall x, mulM x zeroM = zeroM.
Hypothesis nrm2_zero : nrm2 0 = zeroM.
Hypothesis nrm2_pos : forall x : K, x <> 0 -> ltM zeroM (nrm2 x) = true.
(* the row-scale function maps a positive row maximum to a positive scale (1/max) *)
Hypothesis scale_pos : forall x, ltM zeroM x = true -> ltM zeroM (scale_of_max x) = true.
Hypothesis K_zero_dec : forall x : K, x = 0 \/ x <> 0.

(* the row maximum of a row with a nonzero entry is positive *)
Lemma row_max_fold_pos (a : mat) i l : forall mx,
  (ltM zeroM mx = true \/ exists c, In c l /\ mg a i c <> 0) ->
  ltM zeroM (fold_left (fun mx j => let t := nrm2 (mg a i j) in if ltM mx t then t else mx) l mx) = true.
Proof.
  induction l as [|c l IH]; intros mx H.
  - destruct H as [H|(c & [] & _)]. exact H.
  - cbn [fold_left]. cbv zeta. apply IH.
    destruct H as [H|(c' & [<-|Hin] & Hnz)].
    + left. destruct (ltM mx (nrm2 (mg a i c))) eqn:E; auto. eapply ltM_trans; eauto.
    + left. pose proof (nrm2_pos _ Hnz) as Hp.
      destruct (ltM mx (nrm2 (mg a i c))) eqn:E; auto.
      destruct (ltM zeroM mx) eqn:E0; auto.
      rewrite (ltM_cotrans zeroM mx _ Hp E0) in E. discriminate.
    + right. exists c'. split; auto.
Qed.

Lemma row_max_pos (a : mat) n i : (exists c, c < n /\ mg a i c <> 0) ->
  ltM zeroM (row_max a n i) = true.
Proof.
  intros (c & Hc & Hnz). unfold LuModel.row_max. apply row_max_fold_pos.
  right. exists c. split; auto. apply in_seq. lia.
Qed.

(* a row is zero or has a nonzero entry *)
Lemma row_zero_dec (a : mat) r n :
  (forall c, c < n -> mg a r c = 0) \/ (exists c, c < n /\ mg a r c <> 0).
Proof.
  induction n.
  - left. intros; lia.
  - destruct IHn as [Hz|(c & Hc & Hnz)].
    + destruct (K_zero_dec (mg a r n)) as [E|E].
      * left. intros c Hc. destruct (Nat.eq_dec c n) as [->|]; auto. apply Hz. lia.
      * right. exists n. split; auto.
    + right. exists c. split; auto.
Qed.

(* all candidates zero, or one of them is nonzero *)
Lemma cands_zero_dec (f : nat -> K) j m :
  (forall i, j <= i < j + m -> f i = 0) \/ (exists i, j <= i < j + m /\ f i <> 0).
Proof.
  induction m.
  - left. intros; lia.
  - destruct IHm as [Hz|(i & Hi & Hnz)].
    + destruct (K_zero_dec (f (j + m)%nat)) as [E|E].
      * left. intros i Hi. destruct (Nat.eq_dec i (j + m)) as [->|]; auto. apply Hz. lia.
      * right. exists (j + m)%nat. split; [lia|auto].
    + right. exists i. split; [lia|auto].
Qed.

(* the row scale follows its row: for the rows not yet used as pivot, row_scale[i] is the scale of
   the original row now at position i *)
Definition RSinv (a : mat) (n t : nat) (st : lu_state) : Prop :=
  forall i, t <= i < n ->
    nth i (lu_rs st) zeroM = scale_of_max (row_max a n (nth i (lu_ri st) O)).

Lemma RSinv_upto a n : wf n n a -> forall t, t <= n -> RSinv a n t (lu_upto a n t).
Proof.
  intros Hw. induction t; intros Ht.
  - intros i Hi. unfold LuGenB.lu_upto, LuModel.lu_init. cbn [fold_left seq LuModel.lu_rs LuModel.lu_ri].
    rewrite nth_map_seq by lia. rewrite seq_nth by lia. reflexivity.
  - specialize (IHt ltac:(lia)).
    destruct (Sinv_upto K M nrm2 mulM ltM zeroM scale_of_max a n Hw t ltac:(lia)) as (Hwa & Hl & _).
    rewrite lu_upto_S.
    destruct (lu_column_spec_bi K M nrm2 mulM ltM zeroM n (lu_upto a n t) t Hwa Hl ltac:(lia))
      as (Hbi & _ & _ & Hri & _).
    assert (Hlrs : length (lu_rs (lu_upto a n t)) = n).
    { clear - Hw Ht. induction t.
      - unfold LuGenB.lu_upto, LuModel.lu_init. cbn. rewrite map_length, seq_length. reflexivity.
      - rewrite lu_upto_S, lu_column_rs.
        match goal with |- context [if ?b then _ else _] => destruct b end;
          rewrite ?upd_length; apply IHt; lia. }
    intros i Hi. rewrite Hri. rewrite lu_column_rs.
    set (bi := col_bi n (lu_upto a n t) t) in *.
    destruct (Nat.eqb_spec bi t) as [E|E]; cbn [negb].
    + rewrite E, tr_same. apply IHt. lia.
    + destruct (Nat.eq_dec i bi) as [->|Hne].
      * rewrite nth_upd_eq by lia. rewrite tr_r. apply IHt. lia.
      * rewrite nth_upd_neq by auto. rewrite tr_other by lia. apply IHt. lia.
Qed.

(* the pivot of column j is zero (earlier pivots nonzero) => A is singular *)
Theorem pivot_zero_singular a n j : wf n n a -> j < n ->
  (forall k, k < j -> pivot_at a n k <> 0) ->
  pivot_at a n j = 0 ->
  exists v, in_kernel a n v /\ v j = 1.
Proof.
  intros Hw Hj Hprev Hz0.
  apply zero_candidates_singular; auto.
  pose proof (Sinv_upto K M nrm2 mulM ltM zeroM scale_of_max a n Hw j (Nat.lt_le_incl _ _ Hj)) as HS.
  pose proof HS as (Hwa & Hl & Hrange & Hinj).
  set (st := lu_upto a n j) in *.
  destruct (cands_zero_dec (cand_s n st j) j (n - j)) as [Hall|(i & Hi & Hnz)].
  { intros i Hi. apply Hall. lia. }
  exfalso.
  assert (Hi' : j <= i < n) by lia.
  assert (Hnzj : forall k, k < j -> mg (lu_a st) k k <> 0).
  { intros k Hk. unfold st. rewrite (pivot_at_upto a n k j) by (auto; lia). apply Hprev; auto. }
  pose proof (lu_invariant K M nrm2 mulM ltM zeroM scale_of_max a n Hw j (Nat.lt_le_incl _ _ Hj) Hnzj) as HL.
  (* the original row at position i is not zero *)
  assert (Hrow : exists c, c < n /\ mg a (nth i (lu_ri st) O) c <> 0).
  { destruct (row_zero_dec a (nth i (lu_ri st) O) n) as [Hzr|H]; auto.
    exfalso. apply Hnz.
    destruct (lu_column_spec_bi K M nrm2 mulM ltM zeroM n st j Hwa Hl Hj)
      as (_ & _ & _ & _ & _ & _ & Hs & _).
    rewrite (Hs i Hi').
    exact (cand_zero_of_zero_row K (mg a) (mg (lu_a st)) (fun i => nth i (lu_ri st) O) n j _ i
             HL Hi' Hnzj Hzr). }
  assert (Hrs : ltM zeroM (nth i (lu_rs st) zeroM) = true).
  { unfold st. rewrite (RSinv_upto a n Hw j (Nat.lt_le_incl _ _ Hj) i Hi'). fold st.
    apply scale_pos. apply row_max_pos. exact Hrow. }
  destruct (pivot_nonzero_if_any_s K M nrm2 mulM ltM zeroM ltM_irrefl ltM_trans mulM_pos mulM_zero_r
              nrm2_zero nrm2_pos n st j Hwa Hj) as (_ & _ & _ & Hp).
  { exists i. split; [exact Hi'|]. split; [exact Hnz|exact Hrs]. }
  apply Hp. unfold st. rewrite <- lu_upto_S. exact Hz0.
Qed.

(* ---- pivots_nonzero from a hypothesis on the input ---- *)
Theorem pivots_nonzero_of_trivial_kernel a n : wf n n a -> kernel_trivial a n -> pivots_nonzero a n.
Proof.
  intros Hw Hk.
  assert (H : forall t j, j < t -> t <= n -> pivot_at a n j <> 0).
  { induction t; intros j Hj Ht; [lia|].
    destruct (Nat.eq_dec j t) as [->|Hne]; [|apply IHt; lia].
    intros Hz.
    destruct (pivot_zero_singular a n t Hw ltac:(lia)) as (v & Hv & Hvt); auto.
    { intros k Hk'. apply IHt; lia. }
    apply (one_neq_zero K). rewrite <- Hvt. apply (Hk v Hv). lia. }
  intros j Hj. rewrite pivot_at_final by auto. apply (H n); auto.
Qed.

Theorem pivots_nonzero_iff_trivial_kernel a n : wf n n a ->
  (pivots_nonzero a n <-> kernel_trivial a n).
Proof.
  intros Hw. split.
  - intros Hp. exact (lu_kernel_trivial K M nrm2 mulM ltM zeroM scale_of_max a n Hw Hp).
  - apply pivots_nonzero_of_trivial_kernel; auto.
Qed.

(* lu_solves from a hypothesis on the INPUT *)
Theorem lu_solves_nonsingular n (a : mat) : wf n n a -> kernel_trivial a n ->
  (forall m (b : mat), wf n m b -> forall i k, i < n -> k < m ->
      mg (mmul K n n m a (fst (mldivide a b n m))) i k = mg b i k) /\
  (forall m (b : mat), wf m n b -> forall i k, i < m -> k < n ->
      mg (mmul K m n n (fst (mrdivide b a m n)) a) i k = mg b i k) /\
  (forall i k, i < n -> k < n ->
      mg (mmul K n n n a (fst (minverse a n))) i k = (if Nat.eqb i k then 1 else 0)) /\
  lu_d (lu a n) <> 0.
Proof.
  intros Hw Hk.
  pose proof (pivots_nonzero_of_trivial_kernel a n Hw Hk) as Hp.
  destruct (lu_solves K M nrm2 mulM ltM zeroM scale_of_max n a Hw Hp) as (H1 & H2 & H3 & H4).
  split; [exact H1|]. split; [exact H2|]. split; [exact H3|].
  rewrite H4. clear - Hp.
  assert (Hpm : forall k, pm1 K k <> 0).
  { induction k; cbn [pm1]; [apply (one_neq_zero K)|].
    intros E. apply IHk. transitivity (- (- (1) * pm1 K k)); [ring|]. rewrite E. ring. }
  assert (Hpr : forall t, t <= n -> prodf K t (fun j => mg (lu_a (lu a n)) j j) <> 0).
  { induction t; intros Ht; cbn [prodf]; [apply (one_neq_zero K)|].
    intros E. apply (Hp t ltac:(lia)).
    apply (mul_zero_r_nz K) in E.
    - exfalso. apply (IHt ltac:(lia)). exact E.
    - apply Hp. lia. }
  intros E. specialize (Hpr n (le_n n)). specialize (Hpm (swap_count K M nrm2 mulM ltM zeroM scale_of_max a n n)).
  apply Hpm. apply (mul_zero_r_nz K _ _ E). exact Hpr.
Qed.

(* the solution of a nonsingular system is unique: whatever the order or the scaling of the
   equations, exact arithmetic returns the same x *)
Lemma nonsingular_solution_unique a n (x y : nat -> K) : kernel_trivial a n ->
  (forall i, i < n -> sumf n (fun k => mg a i k * x k) = sumf n (fun k => mg a i k * y k)) ->
  forall k, k < n -> x k = y k.
Proof.
  intros Hk E k Hkn.
  assert (H : (fun k => x k - y k) k = 0).
  { apply (Hk (fun k => x k - y k)); auto. intros i Hi.
    rewrite (sumf_ext K n _ (fun k => mg a i k * x k + (- (1)) * (mg a i k * y k))) by (intros; ring).
    rewrite sumf_add, <- sumf_scale_l, (E i Hi). ring. }
  cbv beta in H. transitivity ((x k - y k) + y k); [ring|]. rewrite H. ring.
Qed.

End Order.

(* ================= Part 3: lu_c ================= *)
Section Partial.
Variable isz : K -> bool.
Hypothesis isz_spec : forall x, isz x = true <-> x = 0.

Notation lu_c := (lu_c K M nrm2 mulM ltM zeroM scale_of_max isz).
Notation lu_c_step := (lu_c_step K M nrm2 mulM ltM zeroM isz).
Notation lu_outcome := (lu_outcome K M).
Notation LuFinite := (LuFinite K M).
Notation LuNonFinite := (LuNonFinite K M).
Notation lu_c_det := (lu_c_det K M).
Notation mldivide_c := (mldivide_c K M nrm2 mulM ltM zeroM scale_of_max isz).
Notation mrdivide_c := (mrdivide_c K M nrm2 mulM ltM zeroM scale_of_max isz).
Notation minverse_c := (minverse_c K M nrm2 mulM ltM zeroM scale_of_max isz).

Lemma isz_dec : forall x : K, x = 0 \/ x <> 0.
Proof.
  intros x. destruct (isz x) eqn:E.
  - left. apply isz_spec. exact E.
  - right. intros H. apply isz_spec in H. rewrite H in E. discriminate.
Qed.

Lemma isz_false x : isz x = false <-> x <> 0.
Proof.
  split.
  - intros E H. apply isz_spec in H. rewrite H in E. discriminate.
  - intros H. destruct (isz x) eqn:E; auto. exfalso. apply H. apply isz_spec. exact E.
Qed.

Definition lu_c_upto (a : mat) (n t : nat) : lu_outcome :=
  fold_left (lu_c_step n) (seq 0 t) (LuFinite (lu_init a n)).

Lemma lu_c_upto_S a n t : lu_c_upto a n (S t) = lu_c_step n (lu_c_upto a n t) t.
Proof. unfold lu_c_upto. rewrite seq_S, fold_left_app. reflexivity. Qed.

(* the shape of a partial run: either finite and equal to the total model's state, all pivots
   before the last column nonzero; or stopped at the first zero pivot j < n-1 *)
Lemma lu_c_upto_spec a n : wf n n a -> forall t, t <= n ->
  (lu_c_upto a n t = LuFinite (lu_upto a n t) /\
   (forall j, j < t -> j < n - 1 -> pivot_at a n j <> 0)) \/
  (exists j, j < t /\ j < n - 1 /\ lu_c_upto a n t = LuNonFinite j (lu_upto a n j) /\
     pivot_at a n j = 0 /\ (forall k, k < j -> pivot_at a n k <> 0)).
Proof.
  intros Hw. induction t; intros Ht.
  - left. split; [reflexivity|intros; lia].
  - rewrite lu_c_upto_S.
    destruct (IHt ltac:(lia)) as [(E & Hnz)|(j & Hj & Hjn & E & Hz & Hprev)].
    + rewrite E. cbn [LuPartial.lu_c_step]. rewrite <- lu_upto_S.
      fold (pivot_at a n t).
      destruct (isz (pivot_at a n t)) eqn:Ez; cbn [andb].
      * destruct (Nat.eqb_spec t (n - 1)) as [Et|Et]; cbn [negb].
        -- left. split; [reflexivity|]. intros j Hj Hjn.
           apply Hnz; lia.
        -- right. exists t. split; [lia|]. split; [lia|]. split; [reflexivity|].
           split; [apply isz_spec; exact Ez|]. intros k Hk. apply Hnz; lia.
      * left. split; [reflexivity|]. intros j Hj Hjn.
        destruct (Nat.eq_dec j t) as [->|Hne]; [apply isz_false; exact Ez|apply Hnz; lia].
    + right. exists j. rewrite E. cbn [LuPartial.lu_c_step].
      split; [lia|]. split; [exact Hjn|]. split; [reflexivity|]. split; assumption.
Qed.

(* a finite outcome is the state computed by the total model *)
Theorem lu_c_finite_is_lu a n st : wf n n a -> lu_c a n = LuFinite st -> st = lu a n.
Proof.
  intros Hw E. change (lu_c a n) with (lu_c_upto a n n) in E.
  destruct (lu_c_upto_spec a n Hw n (le_n n)) as [(E' & _)|(j & _ & _ & E' & _)];
    rewrite E' in E; [|discriminate].
  inversion E. reflexivity.
Qed.

(* all pivots nonzero => the run is finite *)
Theorem lu_c_of_pivots_nonzero a n : wf n n a -> pivots_nonzero a n -> lu_c a n = LuFinite (lu a n).
Proof.
  intros Hw Hp. change (lu_c a n) with (lu_c_upto a n n).
  destruct (lu_c_upto_spec a n Hw n (le_n n)) as [(E' & _)|(j & _ & Hjn & _ & Hz & _)]; auto.
  exfalso. apply (Hp j ltac:(lia)). rewrite pivot_at_final by (auto; lia). exact Hz.
Qed.

Section OrderC.
Hypothesis ltM_irrefl : forall x, ltM x x = false.
Hypothesis ltM_trans : forall x y z, ltM x y = true -> ltM y z = true -> ltM x z = true.
Hypothesis ltM_cotrans : forall x y z, ltM x z = true -> ltM x y = false -> ltM y z = true.
Hypothesis mulM_pos : forall x y, ltM zeroM x = true -> ltM zeroM y = true ->
  ltM zeroM (mulM x y) = true.
Hypothesis mulM_zero_r : forall x, mulM x zeroM = zeroM.
Hypothesis nrm2_zero : nrm2 0 = zeroM.
Hypothesis nrm2_pos : forall x : K, x <> 0 -> ltM zeroM (nrm2 x) = true.
Hypothesis scale_pos : forall x, ltM zeroM x = true -> ltM zeroM (scale_of_max x) = true.

Let pzs := pivot_zero_singular ltM_irrefl ltM_trans ltM_cotrans mulM_pos mulM_zero_r nrm2_zero
             nrm2_pos scale_pos isz_dec.

(* zero pivot met  <=>  A singular, and what is returned in each case *)
Theorem lu_c_outcome a n : wf n n a ->
  (* nonsingular: finite run, every pivot nonzero, determinant nonzero *)
  (kernel_trivial a n /\ lu_c a n = LuFinite (lu a n) /\ pivots_nonzero a n /\ lu_d (lu a n) <> 0) \/
  (* singular, first zero pivot in the last column: finite run, determinant exactly 0 *)
  (singular a n /\ lu_c a n = LuFinite (lu a n) /\ 0 < n /\
   (forall k, k < n - 1 -> pivot_at a n k <> 0) /\ pivot_at a n (n - 1) = 0 /\ lu_d (lu a n) = 0) \/
  (* singular, first zero pivot before the last column: non-finite from there on, NaN returned *)
  (singular a n /\ exists j, j < n - 1 /\ lu_c a n = LuNonFinite j (lu_upto a n j) /\
     (forall k, k < j -> pivot_at a n k <> 0) /\ pivot_at a n j = 0).
Proof.
  intros Hw. change (lu_c a n) with (lu_c_upto a n n).
  destruct (lu_c_upto_spec a n Hw n (le_n n)) as [(E & Hnz)|(j & _ & Hjn & E & Hz & Hprev)].
  - destruct n as [|n'].
    + left. split; [intros v _ k Hk; lia|]. split; [exact E|]. split; [intros j Hj; lia|].
      cbn. apply (one_neq_zero K).
    + destruct (isz_dec (pivot_at a (S n') n')) as [Hz|Hnzl].
      * right; left.
        assert (Hprev : forall k, k < S n' - 1 -> pivot_at a (S n') k <> 0).
        { intros k Hk. apply Hnz; lia. }
        destruct (pzs a (S n') n' Hw ltac:(lia)) as (v & Hv & Hvn); auto.
        { intros k Hk. apply Hprev. lia. }
        split.
        { exists v. split; auto. exists n'. split; [lia|]. rewrite Hvn. apply (one_neq_zero K). }
        split; [exact E|]. split; [lia|]. split; [exact Hprev|].
        replace (S n' - 1)%nat with n' by lia. split; [exact Hz|].
        apply (lu_zero_pivot_det_zero K M nrm2 mulM ltM zeroM scale_of_max a (S n') n' Hw ltac:(lia)).
        rewrite pivot_at_final by (auto; lia). exact Hz.
      * left.
        assert (Hp : pivots_nonzero a (S n')).
        { intros j Hj. rewrite pivot_at_final by auto.
          destruct (Nat.eq_dec j n') as [->|Hne]; auto. apply Hnz; lia. }
        pose proof (lu_kernel_trivial K M nrm2 mulM ltM zeroM scale_of_max a (S n') Hw Hp) as Hk.
        split; [exact Hk|]. split; [exact E|]. split; [exact Hp|].
        exact (proj2 (proj2 (proj2 (lu_solves_nonsingular ltM_irrefl ltM_trans ltM_cotrans mulM_pos mulM_zero_r
                 nrm2_zero nrm2_pos scale_pos isz_dec (S n') a Hw Hk)))).
  - right; right.
    destruct (pzs a n j Hw ltac:(lia) Hprev Hz) as (v & Hv & Hvj).
    split.
    { exists v. split; auto. exists j. split; [lia|]. rewrite Hvj. apply (one_neq_zero K). }
    exists j. split; [exact Hjn|]. split; [exact E|]. split; assumption.
Qed.

(* the full call-site test (== 0.0 || !isnormal) rejects exactly the singular matrices *)
Theorem lu_c_rejects_iff_singular a n : wf n n a ->
  (site_rejects_full K isz (lu_c_det (lu_c a n)) = true <-> singular a n).
Proof.
  intros Hw.
  destruct (lu_c_outcome a n Hw) as [(Hk & E & _ & Hd)|[(Hs & E & _ & _ & _ & Hd)|(Hs & j & _ & E & _)]];
    rewrite E; cbn [LuPartial.lu_c_det LuPartial.site_rejects_full].
  - split.
    + intros Hz. apply isz_spec in Hz. contradiction.
    + intros Hs. exfalso. exact (singular_not_trivial a n Hs Hk).
  - split; auto. intros _. apply isz_spec. exact Hd.
  - split; auto.
Qed.

(* the bare test (== 0.0) rejects only a zero pivot in the LAST column: with an earlier zero pivot the
   returned determinant is NaN and the test lets it through *)
Theorem lu_c_eq0_test a n : wf n n a ->
  (site_rejects_eq0 K isz (lu_c_det (lu_c a n)) = true <->
   singular a n /\ forall k, k < n - 1 -> pivot_at a n k <> 0).
Proof.
  intros Hw.
  destruct (lu_c_outcome a n Hw) as [(Hk & E & Hp & Hd)|[(Hs & E & _ & Hprev & _ & Hd)|(Hs & j & Hj & E & _ & Hz)]];
    rewrite E; cbn [LuPartial.lu_c_det LuPartial.site_rejects_eq0].
  - split.
    + intros Hz. apply isz_spec in Hz. contradiction.
    + intros (Hs & _). exfalso. exact (singular_not_trivial a n Hs Hk).
  - split; auto. intros _. apply isz_spec. exact Hd.
  - split; [discriminate|]. intros (_ & Hall). exfalso. exact (Hall j Hj Hz).
Qed.

(* the solvers as the C code behaves, from a hypothesis on the input *)
Lemma all_pivots_nz_true a n : wf n n a -> pivots_nonzero a n ->
  all_pivots_nz K M isz (lu a n) n = true.
Proof.
  intros Hw Hp. unfold all_pivots_nz. apply forallb_forall. intros j Hj. apply in_seq in Hj.
  apply negb_true_iff. apply isz_false. apply Hp. lia.
Qed.

Lemma all_pivots_nz_false a n j : j < n -> mg (lu_a (lu a n)) j j = 0 ->
  all_pivots_nz K M isz (lu a n) n = false.
Proof.
  intros Hj Hz. unfold all_pivots_nz. destruct (forallb _ _) eqn:E; auto.
  rewrite forallb_forall in E. specialize (E j ltac:(apply in_seq; lia)).
  apply negb_true_iff in E. apply isz_false in E. contradiction.
Qed.

Theorem solvers_c_nonsingular n (a : mat) : wf n n a -> kernel_trivial a n ->
  (forall m (b : mat), wf n m b -> exists x d, mldivide_c a b n m = (Some x, DetFin d) /\ d <> 0 /\
      forall i k, i < n -> k < m -> mg (mmul K n n m a x) i k = mg b i k) /\
  (forall m (b : mat), wf m n b -> exists x d, mrdivide_c b a m n = (Some x, DetFin d) /\ d <> 0 /\
      forall i k, i < m -> k < n -> mg (mmul K m n n x a) i k = mg b i k) /\
  (exists x d, minverse_c a n = (Some x, DetFin d) /\ d <> 0 /\
      forall i k, i < n -> k < n -> mg (mmul K n n n a x) i k = (if Nat.eqb i k then 1 else 0)).
Proof.
  intros Hw Hk.
  pose proof (pivots_nonzero_of_trivial_kernel ltM_irrefl ltM_trans ltM_cotrans mulM_pos mulM_zero_r
                nrm2_zero nrm2_pos scale_pos isz_dec a n Hw Hk) as Hp.
  destruct (lu_solves_nonsingular ltM_irrefl ltM_trans ltM_cotrans mulM_pos mulM_zero_r
              nrm2_zero nrm2_pos scale_pos isz_dec n a Hw Hk) as (H1 & H2 & H3 & Hd).
  pose proof (lu_c_of_pivots_nonzero a n Hw Hp) as E.
  pose proof (all_pivots_nz_true a n Hw Hp) as Ea.
  split; [|split].
  - intros m b Hb. eexists; eexists. unfold LuPartial.mldivide_c. rewrite E.
    cbn [LuPartial.solution_c LuPartial.lu_c_det]. rewrite Ea.
    split; [reflexivity|]. split; [exact Hd|]. exact (H1 m b Hb).
  - intros m b Hb. eexists; eexists. unfold LuPartial.mrdivide_c. rewrite E.
    cbn [LuPartial.solution_c LuPartial.lu_c_det]. rewrite Ea.
    split; [reflexivity|]. split; [exact Hd|]. exact (H2 m b Hb).
  - eexists; eexists. unfold LuPartial.minverse_c. rewrite E.
    cbn [LuPartial.solution_c LuPartial.lu_c_det]. rewrite Ea.
    split; [reflexivity|]. split; [exact Hd|]. exact H3.
Qed.

(* singular input: no solver returns a finite solution, and the determinant is rejected by the
   full test *)
Theorem solvers_c_singular n (a : mat) : wf n n a -> singular a n ->
  forall (b : mat) m,
  fst (mldivide_c a b n m) = None /\ fst (mrdivide_c b a m n) = None /\ fst (minverse_c a n) = None /\
  site_rejects_full K isz (snd (mldivide_c a b n m)) = true /\
  site_rejects_full K isz (snd (mrdivide_c b a m n)) = true /\
  site_rejects_full K isz (snd (minverse_c a n)) = true.
Proof.
  intros Hw Hs b m.
  pose proof (proj2 (lu_c_rejects_iff_singular a n Hw) Hs) as Hr.
  assert (Hn : forall x, solution_c K M isz (lu_c a n) n x = None).
  { intros x.
    destruct (lu_c_outcome a n Hw) as [(Hk & _)|[(_ & E & Hn0 & _ & Hz & _)|(_ & j & _ & E & _)]].
    - exfalso. exact (singular_not_trivial a n Hs Hk).
    - rewrite E. cbn [LuPartial.solution_c].
      rewrite (all_pivots_nz_false a n (n - 1)); auto; [lia|].
      rewrite pivot_at_final by (auto; lia). exact Hz.
    - rewrite E. reflexivity. }
  unfold LuPartial.mldivide_c, LuPartial.mrdivide_c, LuPartial.minverse_c. cbn [fst snd].
  rewrite !Hn. repeat split; auto.
Qed.
End OrderC.
End Partial.
End Model.
