(* Soundness AND completeness of the least-squares oracle LsLu.ls_lu over the Gaussian rationals
   (property C19, specification level):
     ls_lu_sound       ls_lu = Some x  ->  x satisfies the normal equations (hence minimises, ...)
     ls_lu_complete    A has full column rank  ->  ls_lu returns Some x
     ls_lu_none        ls_lu = None  ->  some nonzero v has A v = 0 (rank deficient)
     ls_unique         under full column rank the normal equations have one solution, so
                       ls_lu and LsSpec.ls_solve agree whenever the latter answers
     normal_eq_row_perm  the normal equations (hence the set of minimisers) do not depend on the
                       order of the equations (rows of A and b permuted together)
   Uses LuNonsing (nonsingular input => nonzero pivots) for the normal matrix A^H A. *)
Require Import List Arith Lia Bool Permutation QArith Qcanon.
Import ListNotations.
Require Import LV.Base.CField LV.Base.QcI LV.Lin.MatL LV.Lin.LuModel LV.Lin.LuPartial LV.Lin.LuQI LV.Lin.LsSpec LV.Lin.LsLu LV.Lin.LuQI2.
Require Import LV.Lin.LuGenA LV.Lin.LuGenB LV.Lin.LuGenC LV.Lin.LuGenD LV.Lin.LuPivot LV.Lin.LuProofs LV.Lin.LuNonsing
               LV.Lin.LuNonsingQI LV.Lin.LsProofs.
Local Open Scope nat_scope.

(* A v = 0 only for v = 0 (A is m x n) *)
Definition full_col_rank (m n : nat) (a : mat QIF) : Prop :=
  forall v : nat -> QIF,
    (forall i, i < m -> sumf n (fun k => cmul (mget QIF a i k) (v k)) = @c0 QIF) ->
    forall k, k < n -> v k = @c0 QIF.

Lemma qi_mul_0_r (x : QIF) : cmul x (@c0 QIF) = @c0 QIF.
Proof. apply qi_eq; simpl; ring. Qed.

(* a kernel vector of A^H A is a kernel vector of A *)
Lemma normal_kernel m n (a : mat QIF) (v : nat -> QIF) :
  in_kernel QIF (normal_mat QIF m n a) n v ->
  forall i, i < m -> sumf n (fun k => cmul (mget QIF a i k) (v k)) = @c0 QIF.
Proof.
  intros Hv i Hi.
  set (X := mbuild QIF n 1 (fun t _ => v t)).
  set (b := mbuild QIF m 1 (fun _ _ => @c0 QIF)).
  assert (NE : normal_eq m n 1 a b X).
  { intros j k Hj Hk. assert (k = 0) by lia. subst k.
    rewrite mget_mmul by auto.
    rewrite (sumf_ext QIF n _ (fun t => cmul (mget QIF (normal_mat QIF m n a) j t) (v t))).
    2:{ intros t Ht. unfold X. rewrite mget_mbuild by auto. reflexivity. }
    rewrite (Hv j Hj). unfold normal_rhs. rewrite mget_mmul by auto.
    symmetry. apply sumf_zero. intros t Ht. unfold b. rewrite mget_mbuild by auto. apply qi_mul_0_r. }
  assert (Hc : exists x0 : mat QIF, forall i k, i < m -> k < 1 ->
             mget QIF (mmul QIF m n 1 a x0) i k = mget QIF b i k).
  { exists (mbuild QIF n 1 (fun _ _ => @c0 QIF)). intros i' k' Hi' Hk'.
    rewrite mget_mmul by auto. unfold b. rewrite mget_mbuild by auto.
    apply sumf_zero. intros t Ht. rewrite mget_mbuild by auto. apply qi_mul_0_r. }
  pose proof (ls_consistent_exact m n 1 a b X NE Hc i 0 Hi ltac:(lia)) as E.
  rewrite mget_mmul in E by auto. unfold b in E. rewrite mget_mbuild in E by auto.
  rewrite <- E. apply sumf_ext. intros t Ht. unfold X. rewrite mget_mbuild by auto. reflexivity.
Qed.

Lemma normal_mat_wf m n (a : mat QIF) : wf n n (normal_mat QIF m n a).
Proof. unfold normal_mat, mmul. apply wf_mbuild. Qed.
Lemma normal_rhs_wf m n o (a b : mat QIF) : wf n o (normal_rhs QIF m n o a b).
Proof. unfold normal_rhs, mmul. apply wf_mbuild. Qed.

Lemma full_rank_normal_trivial m n (a : mat QIF) : full_col_rank m n a ->
  kernel_trivial QIF (normal_mat QIF m n a) n.
Proof. intros Hf v Hv. apply Hf. apply normal_kernel. exact Hv. Qed.

Lemma q_det_nonzero_pivots (a : mat QIF) n : wf n n a ->
  lu_d QIF Qc (q2_lu_recip a n) <> @c0 QIF ->
  pivots_nonzero QIF Qc qi_nrm Qcmult Qc_ltb 0%Qc scale_recip a n.
Proof.
  intros Hw Hd j Hj Hz. apply Hd.
  exact (lu_zero_pivot_det_zero QIF Qc qi_nrm Qcmult Qc_ltb 0%Qc scale_recip a n j Hw Hj Hz).
Qed.

Theorem ls_lu_sound m n o (a b x : mat QIF) :
  q2_ls_lu m n o a b = Some x -> normal_eq m n o a b x.
Proof.
  unfold q2_ls_lu, ls_lu. intros H.
  destruct (qi_isz (snd (mldivide QIF Qc qi_nrm Qcmult Qc_ltb 0%Qc scale_recip
              (normal_mat QIF m n a) (normal_rhs QIF m n o a b) n o))) eqn:Ez; [discriminate|].
  injection H as <-.
  assert (Hd : lu_d QIF Qc (q2_lu_recip (normal_mat QIF m n a) n) <> @c0 QIF).
  { intros E. apply qi_isz_spec in E. unfold q2_lu_recip in E.
    change (snd (mldivide QIF Qc qi_nrm Qcmult Qc_ltb 0%Qc scale_recip
              (normal_mat QIF m n a) (normal_rhs QIF m n o a b) n o))
      with (lu_d QIF Qc (lu QIF Qc qi_nrm Qcmult Qc_ltb 0%Qc scale_recip (normal_mat QIF m n a) n)) in Ez.
    rewrite E in Ez. discriminate. }
  pose proof (q_det_nonzero_pivots _ n (normal_mat_wf m n a) Hd) as Hp.
  intros j k Hj Hk.
  exact (lu_solves_mldivide QIF Qc qi_nrm Qcmult Qc_ltb 0%Qc scale_recip n o _ _
           (normal_mat_wf m n a) (normal_rhs_wf m n o a b) Hp j k Hj Hk).
Qed.

Corollary ls_lu_sound_minimises m n o (a b x : mat QIF) :
  q2_ls_lu m n o a b = Some x ->
  normal_eq m n o a b x /\ forall y : mat QIF, (res2 m n o a x b <= res2 m n o a y b)%Qc.
Proof.
  intros H. split; [exact (ls_lu_sound m n o a b x H)|exact (ls_minimises m n o a b x (ls_lu_sound m n o a b x H))].
Qed.

Theorem ls_lu_complete m n o (a b : mat QIF) : full_col_rank m n a ->
  exists x, q2_ls_lu m n o a b = Some x /\ normal_eq m n o a b x.
Proof.
  intros Hf.
  pose proof (full_rank_normal_trivial m n a Hf) as Hk.
  destruct (lu_solves_nonsingular QIF Qc qi_nrm Qcmult Qc_ltb 0%Qc scale_recip
              qc_ltM_irrefl qc_ltM_trans qc_ltM_cotrans qc_mulM_pos qc_mulM_zero_r qi_nrm2_zero
              qi_nrm2_pos qc_scale_pos qi_zero_dec n _ (normal_mat_wf m n a) Hk) as (_ & _ & _ & Hd).
  unfold q2_ls_lu, ls_lu.
  change (snd (mldivide QIF Qc qi_nrm Qcmult Qc_ltb 0%Qc scale_recip
              (normal_mat QIF m n a) (normal_rhs QIF m n o a b) n o))
    with (lu_d QIF Qc (lu QIF Qc qi_nrm Qcmult Qc_ltb 0%Qc scale_recip (normal_mat QIF m n a) n)).
  destruct (qi_isz (lu_d QIF Qc (lu QIF Qc qi_nrm Qcmult Qc_ltb 0%Qc scale_recip (normal_mat QIF m n a) n))) eqn:Ez.
  - exfalso. apply Hd. apply qi_isz_spec. exact Ez.
  - eexists. split; [reflexivity|]. apply ls_lu_sound. unfold q2_ls_lu, ls_lu.
    change (snd (mldivide QIF Qc qi_nrm Qcmult Qc_ltb 0%Qc scale_recip
              (normal_mat QIF m n a) (normal_rhs QIF m n o a b) n o))
      with (lu_d QIF Qc (lu QIF Qc qi_nrm Qcmult Qc_ltb 0%Qc scale_recip (normal_mat QIF m n a) n)).
    rewrite Ez. reflexivity.
Qed.

(* None means rank deficient: an explicit nonzero vector with A v = 0 *)
Theorem ls_lu_none m n o (a b : mat QIF) : q2_ls_lu m n o a b = None ->
  exists v : nat -> QIF,
    (forall i, i < m -> sumf n (fun k => cmul (mget QIF a i k) (v k)) = @c0 QIF) /\
    exists k, k < n /\ v k <> @c0 QIF.
Proof.
  unfold q2_ls_lu, ls_lu.
  change (snd (mldivide QIF Qc qi_nrm Qcmult Qc_ltb 0%Qc scale_recip
              (normal_mat QIF m n a) (normal_rhs QIF m n o a b) n o))
    with (lu_d QIF Qc (q2_lu_recip (normal_mat QIF m n a) n)).
  intros H.
  destruct (qi_isz (lu_d QIF Qc (q2_lu_recip (normal_mat QIF m n a) n))) eqn:Ez; [|discriminate].
  apply qi_isz_spec in Ez.
  destruct (q_lu_c_outcome (normal_mat QIF m n a) n (normal_mat_wf m n a))
    as [(_ & _ & _ & Hd)|[((v & Hv & Hnz) & _)|((v & Hv & Hnz) & _)]].
  - contradiction.
  - exists v. split; [apply normal_kernel; exact Hv|exact Hnz].
  - exists v. split; [apply normal_kernel; exact Hv|exact Hnz].
Qed.

Corollary ls_lu_some_iff_full_rank m n o (a b : mat QIF) :
  (exists x, q2_ls_lu m n o a b = Some x) <-> full_col_rank m n a.
Proof.
  split.
  - intros (x & Hx) v Hv k Hk.
    destruct (qi_zero_dec (v k)) as [E|E]; auto. exfalso.
    (* full rank fails => the normal matrix is singular => determinant 0 => None *)
    assert (Hs : singular QIF (normal_mat QIF m n a) n).
    { exists v. split; [|exists k; split; auto].
      intros j Hj. unfold normal_mat. 
      rewrite (sumf_ext QIF n _ (fun t => cmul (sumf m (fun i => cmul (cj (mget QIF a i j)) (mget QIF a i t))) (v t))).
      2:{ intros t Ht. rewrite mget_mmul by auto. f_equal. apply sumf_ext. intros i Hi.
          unfold mherm. rewrite mget_mbuild by auto. reflexivity. }
      rewrite (sumf_ext QIF n _ (fun t => sumf m (fun i => cmul (cj (mget QIF a i j)) (cmul (mget QIF a i t) (v t))))).
      2:{ intros t Ht. rewrite sumf_scale_r. apply sumf_ext. intros i Hi. apply qi_eq; simpl; ring. }
      rewrite sumf_exchange. apply sumf_zero. intros i Hi.
      rewrite <- sumf_scale_l. rewrite (Hv i Hi). apply qi_mul_0_r. }
    pose proof (proj2 (q_lu_c_rejects_iff_singular _ n (normal_mat_wf m n a)) Hs) as Hr.
    destruct (q_lu_c_outcome (normal_mat QIF m n a) n (normal_mat_wf m n a))
      as [(Hk' & _)|[(_ & E' & _ & _ & _ & Hd)|(_ & j & Hj & E' & _ & Hz)]].
    + exact (singular_not_trivial QIF _ n Hs Hk').
    + unfold q2_ls_lu, ls_lu in Hx.
      change (snd (mldivide QIF Qc qi_nrm Qcmult Qc_ltb 0%Qc scale_recip
              (normal_mat QIF m n a) (normal_rhs QIF m n o a b) n o))
        with (lu_d QIF Qc (q2_lu_recip (normal_mat QIF m n a) n)) in Hx.
      rewrite Hd in Hx. discriminate.
    + unfold q2_ls_lu, ls_lu in Hx.
      change (snd (mldivide QIF Qc qi_nrm Qcmult Qc_ltb 0%Qc scale_recip
              (normal_mat QIF m n a) (normal_rhs QIF m n o a b) n o))
        with (lu_d QIF Qc (q2_lu_recip (normal_mat QIF m n a) n)) in Hx.
      assert (Hd : lu_d QIF Qc (q2_lu_recip (normal_mat QIF m n a) n) = @c0 QIF).
      { apply (lu_zero_pivot_det_zero QIF Qc qi_nrm Qcmult Qc_ltb 0%Qc scale_recip _ n j (normal_mat_wf m n a)); [lia|].
        rewrite pivot_at_final by (try apply normal_mat_wf; lia). exact Hz. }
      rewrite Hd in Hx. discriminate.
  - intros Hf. destruct (ls_lu_complete m n o a b Hf) as (x & Hx & _). exists x. exact Hx.
Qed.

(* uniqueness: under full column rank two solutions of the normal equations agree entrywise *)
Theorem ls_unique m n o (a b x y : mat QIF) : full_col_rank m n a ->
  normal_eq m n o a b x -> normal_eq m n o a b y ->
  forall t k, t < n -> k < o -> mget QIF x t k = mget QIF y t k.
Proof.
  intros Hf Hx Hy t k Ht Hk.
  apply (nonsingular_solution_unique QIF (normal_mat QIF m n a) n
           (fun t => mget QIF x t k) (fun t => mget QIF y t k) (full_rank_normal_trivial m n a Hf)); auto.
  intros j Hj. pose proof (Hx j k Hj Hk) as E1. pose proof (Hy j k Hj Hk) as E2.
  rewrite mget_mmul in E1, E2 by auto. rewrite E1, E2. reflexivity.
Qed.

Corollary ls_lu_agrees_with_ls_solve m n o (a b x y : mat QIF) :
  q2_ls_lu m n o a b = Some x -> q2_ls_solve m n o a b = Some y ->
  forall t k, t < n -> k < o -> mget QIF x t k = mget QIF y t k.
Proof.
  intros Hx Hy. apply (ls_unique m n o a b).
  - apply (ls_lu_some_iff_full_rank m n o a b). exists x. exact Hx.
  - apply ls_lu_sound. exact Hx.
  - apply ls_solve_normal. exact Hy.
Qed.

(* ---- the order of the equations does not matter (specification level): permuting the rows of
   A and b together leaves the normal equations, hence the set of minimisers, unchanged ---- *)
Definition perm_rows_f (p : list nat) (a : mat QIF) (r c : nat) : mat QIF :=
  mbuild QIF r c (fun i j => mget QIF a (nth i p O) j).

Theorem normal_eq_row_perm m n o (a b x : mat QIF) (p : list nat) :
  Permutation p (seq 0 m) ->
  (normal_eq m n o (perm_rows_f p a m n) (perm_rows_f p b m o) x <-> normal_eq m n o a b x).
Proof.
  intros Hp.
  assert (Hlen : length p = m) by (rewrite (Permutation_length Hp); apply seq_length).
  assert (HN : forall j t, j < n -> t < n ->
     mget QIF (normal_mat QIF m n (perm_rows_f p a m n)) j t = mget QIF (normal_mat QIF m n a) j t).
  { intros j t Hj Ht. unfold normal_mat. rewrite !mget_mmul by auto.
    rewrite (sumf_ext QIF m _ (fun i => (fun r => cmul (cj (mget QIF a r j)) (mget QIF a r t)) (nth i p O))).
    2:{ intros i Hi. unfold mherm, perm_rows_f. rewrite !mget_mbuild by auto. reflexivity. }
    rewrite (sumf_ext QIF m (fun i => cmul (mget QIF (mherm QIF m n a) j i) (mget QIF a i t))
               (fun r => cmul (cj (mget QIF a r j)) (mget QIF a r t))).
    2:{ intros i Hi. unfold mherm. rewrite mget_mbuild by auto. reflexivity. }
    exact (sumf_reindex QIF m p (fun r => cmul (cj (mget QIF a r j)) (mget QIF a r t)) Hp). }
  assert (HR : forall j k, j < n -> k < o ->
     mget QIF (normal_rhs QIF m n o (perm_rows_f p a m n) (perm_rows_f p b m o)) j k =
     mget QIF (normal_rhs QIF m n o a b) j k).
  { intros j k Hj Hk. unfold normal_rhs. rewrite !mget_mmul by auto.
    rewrite (sumf_ext QIF m _ (fun i => (fun r => cmul (cj (mget QIF a r j)) (mget QIF b r k)) (nth i p O))).
    2:{ intros i Hi. unfold mherm, perm_rows_f. rewrite !mget_mbuild by auto. reflexivity. }
    rewrite (sumf_ext QIF m (fun i => cmul (mget QIF (mherm QIF m n a) j i) (mget QIF b i k))
               (fun r => cmul (cj (mget QIF a r j)) (mget QIF b r k))).
    2:{ intros i Hi. unfold mherm. rewrite mget_mbuild by auto. reflexivity. }
    exact (sumf_reindex QIF m p (fun r => cmul (cj (mget QIF a r j)) (mget QIF b r k)) Hp). }
  unfold normal_eq. split; intros H j k Hj Hk; specialize (H j k Hj Hk);
    rewrite mget_mmul in * by auto.
  - rewrite <- HR by auto. rewrite <- H. apply sumf_ext. intros t Ht. rewrite HN by auto. reflexivity.
  - rewrite HR by auto. rewrite <- H. apply sumf_ext. intros t Ht. rewrite HN by auto. reflexivity.
Qed.

(* ---- non-vacuity ---- *)
Section Examples.
Add Field QIFf : (cth QIF).
Local Open Scope cf_scope.
Definition fr_a : mat QIF := [[1; 0]; [0; 1]; [1; 1]].
Definition fr_b : mat QIF := [[1]; [1 + 1]; [1 + 1 + 1 + 1]].

Example fr_a_full_rank : full_col_rank 3 2 fr_a.
Proof.
  intros v H k Hk.
  pose proof (H 0%nat ltac:(lia)) as E0. pose proof (H 1%nat ltac:(lia)) as E1.
  cbn in E0, E1.
  destruct k as [|[|k]]; [| |lia].
  - transitivity (0 + 1 * v 0%nat + 0 * v 1%nat); [ring|exact E0].
  - transitivity (0 + 0 * v 0%nat + 1 * v 1%nat); [ring|exact E1].
Qed.

(* completeness instantiated: the oracle answers, and its answer is the minimiser (4/3, 7/3) *)
Example fr_ls_lu_answers : exists x, q2_ls_lu 3 2 1 fr_a fr_b = Some x /\ normal_eq 3 2 1 fr_a fr_b x.
Proof. exact (ls_lu_complete 3 2 1 fr_a fr_b fr_a_full_rank). Qed.

Example fr_ls_lu_value :
  omat_eqb (q2_ls_lu 3 2 1 fr_a fr_b) (Some [[mkqi 4 3 0 1]; [mkqi 7 3 0 1]]) = true.
Proof. vm_compute. reflexivity. Qed.

(* rank deficient: second column = 2 * first column; the oracle answers None and the kernel vector
   (2, -1) witnesses it *)
Definition rd_a : mat QIF := [[1; 1 + 1]; [1 + 1; 1 + 1 + 1 + 1]; [0; 0]].
Example rd_ls_lu_none : q2_ls_lu 3 2 1 rd_a fr_b = None.
Proof. vm_compute. reflexivity. Qed.
Example rd_a_not_full_rank : ~ full_col_rank 3 2 rd_a.
Proof.
  intros Hf.
  pose (v := fun k : nat => match k with O => 1 + 1 | _ => - (1) end : QIF).
  assert (E : v 1%nat = 0).
  { apply (Hf v); [|lia]. intros i Hi. destruct i as [|[|[|i]]]; try lia; apply qi_eqb_eq; vm_compute; reflexivity. }
  apply qi_eqb_eq in E. vm_compute in E. discriminate.
Qed.
End Examples.
