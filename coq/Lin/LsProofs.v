(* Theorems about the least-squares specification Lin/LsSpec.v (property C19).

   [ls_solve] is a certifying computation: it answers [Some x] only after checking
   A^H A x = A^H b entry by entry, so nothing about Gauss-Jordan elimination is needed here.
   Over the Gaussian rationals QIF, where the squared modulus [qi_nrm : qi -> Qc] lands in an
   ordered field, we prove
     ls_solve_normal            the answer satisfies the normal equations,
     ls_pythagoras              |A y - b|^2 = |A x - b|^2 + |A (y - x)|^2 for every y,
     ls_minimises               hence x minimises the squared Frobenius norm of the residual,
     ls_consistent_exact        and if A x0 = b has a solution then A x = b exactly,
   with the corollaries for the executable [q2_ls_solve], and three computed examples
   (inconsistent, consistent, rank deficient).  No well-formedness of any matrix is assumed:
   everything is read through [mget].  Every theorem is closed under the global context. *)
Require Import List Arith Lia Bool QArith Qcanon.
Import ListNotations.
Require Import LV.Base.CField LV.Base.QcI LV.Lin.MatL LV.Lin.LsSpec LV.Lin.LuQI2 LV.Lin.LuGenA.

(* ------------------------------------------------------------------------------------- *)
(* Algebraic part over an abstract field with an additive, multiplicative conjugation.   *)
(* ------------------------------------------------------------------------------------- *)
Section Alg.
Local Open Scope nat_scope.
Local Open Scope cf_scope.
Variable K : CField.
Add Field KfLs : (cth K).
Hypothesis cj_0 : cj (0 : K) = 0.
Hypothesis cj_add : forall x y : K, cj (x + y) = cj x + cj y.
Hypothesis cj_mul : forall x y : K, cj (x * y) = cj x * cj y.

Lemma sub_zero_eq (x y : K) : x - y = 0 -> x = y.
Proof. intros H. replace x with ((x - y) + y) by ring. rewrite H. ring. Qed.

Lemma cj_sumf n (f : nat -> K) : cj (sumf n f) = sumf n (fun k => cj (f k)).
Proof. induction n; simpl; auto. rewrite cj_add, IHn. reflexivity. Qed.

Lemma sumf_sub n (f g : nat -> K) : sumf n (fun k => f k - g k) = sumf n f - sumf n g.
Proof. induction n; simpl; [ring|]. rewrite IHn. ring. Qed.

(* residual entry (A X - B)_ik and error entry (A (Y - X))_ik, on index functions *)
Definition Rf (n : nat) (A B X : nat -> nat -> K) (i k : nat) : K :=
  sumf n (fun t => A i t * X t k) - B i k.
Definition Ef (n : nat) (A X Y : nat -> nat -> K) (i k : nat) : K :=
  sumf n (fun t => A i t * (Y t k - X t k)).

Lemma Rf_decomp n A B X Y i k : Rf n A B Y i k = Rf n A B X i k + Ef n A X Y i k.
Proof.
  unfold Rf, Ef.
  rewrite (sumf_ext K n (fun t => A i t * (Y t k - X t k))
                        (fun t => A i t * Y t k - A i t * X t k)) by (intros; ring).
  rewrite sumf_sub. ring.
Qed.

Section Fun.
Variables (m n o : nat) (A B X : nat -> nat -> K).
(* the normal equations  (A^H A) X = A^H B  on index functions *)
Hypothesis NE : forall j k, j < n -> k < o ->
  sumf n (fun t => sumf m (fun i => cj (A i j) * A i t) * X t k) =
  sumf m (fun i => cj (A i j) * B i k).

(* A^H (A X - B) = 0 *)
Lemma AHR j k : j < n -> k < o -> sumf m (fun i => cj (A i j) * Rf n A B X i k) = 0.
Proof.
  intros Hj Hk. unfold Rf.
  rewrite (sumf_ext K m _
    (fun i => sumf n (fun t => cj (A i j) * A i t * X t k) - cj (A i j) * B i k)).
  2:{ intros i _.
      transitivity (cj (A i j) * sumf n (fun t => A i t * X t k) - cj (A i j) * B i k); [ring|].
      rewrite sumf_scale_l. f_equal. apply sumf_ext. intros; ring. }
  rewrite sumf_sub, sumf_exchange, <- (NE j k Hj Hk).
  rewrite (sumf_ext K n (fun t => sumf m (fun i => cj (A i j) * A i t * X t k))
                        (fun t => sumf m (fun i => cj (A i j) * A i t) * X t k)).
  2:{ intros t _. rewrite sumf_scale_r. reflexivity. }
  ring.
Qed.

(* the cross term  sum_ik conj((A (Y - X))_ik) (A X - B)_ik  vanishes *)
Lemma cross_zero Y :
  sumf m (fun i => sumf o (fun k => cj (Ef n A X Y i k) * Rf n A B X i k)) = 0.
Proof.
  rewrite (sumf_ext K m _
    (fun i => sumf o (fun k => sumf n (fun t =>
       cj (Y t k - X t k) * (cj (A i t) * Rf n A B X i k))))).
  2:{ intros i _. apply sumf_ext. intros k _. unfold Ef.
      rewrite cj_sumf, sumf_scale_r. apply sumf_ext. intros t _. rewrite cj_mul. ring. }
  rewrite sumf_exchange. apply sumf_zero. intros k Hk.
  rewrite sumf_exchange. apply sumf_zero. intros t Ht.
  rewrite <- sumf_scale_l. rewrite AHR by auto. ring.
Qed.
End Fun.
End Alg.

(* ------------------------------------------------------------------------------------- *)
(* Rational-valued finite sums.                                                           *)
(* ------------------------------------------------------------------------------------- *)
Local Open Scope Qc_scope.

Fixpoint qsum (n : nat) (f : nat -> Qc) : Qc :=
  match n with O => 0 | S n' => qsum n' f + f n' end.

Lemma qsum_ext n f g : (forall k, (k < n)%nat -> f k = g k) -> qsum n f = qsum n g.
Proof.
  induction n; intros H; simpl; auto.
  rewrite IHn by (intros; apply H; lia). rewrite H by lia. reflexivity.
Qed.

Lemma qsum_add n f g : qsum n (fun k => f k + g k) = qsum n f + qsum n g.
Proof. induction n; simpl; [ring|]. rewrite IHn. ring. Qed.

Lemma qsum_scale n c f : qsum n (fun k => c * f k) = c * qsum n f.
Proof. induction n; simpl; [ring|]. rewrite IHn. ring. Qed.

Lemma qsum_zero n f : (forall k, (k < n)%nat -> f k = 0) -> qsum n f = 0.
Proof.
  induction n; intros H; simpl; auto.
  rewrite IHn by (intros; apply H; lia). rewrite H by lia. ring.
Qed.

Lemma qsum_nonneg n f : (forall k, (k < n)%nat -> 0 <= f k) -> 0 <= qsum n f.
Proof.
  induction n; intros H; simpl.
  - apply Qcle_refl.
  - replace 0 with (0 + 0) by ring. apply Qcplus_le_compat.
    + apply IHn. intros; apply H; lia.
    + apply H; lia.
Qed.

(* a sum of nonnegative terms that is <= 0 has only zero terms *)
Lemma qsum_terms_zero n f : (forall k, (k < n)%nat -> 0 <= f k) -> qsum n f <= 0 ->
  forall k, (k < n)%nat -> f k = 0.
Proof.
  induction n; intros Hp Hs k Hk; [lia|]. simpl in Hs.
  assert (Hq : 0 <= qsum n f) by (apply qsum_nonneg; intros; apply Hp; lia).
  assert (Hn : 0 <= f n) by (apply Hp; lia).
  assert (Hfn : f n = 0).
  { apply Qcle_antisym; auto. apply Qcle_trans with (qsum n f + f n); auto.
    replace (f n) with (0 + f n) at 1 by ring. apply Qcplus_le_compat; auto. apply Qcle_refl. }
  assert (Hqn : qsum n f <= 0).
  { apply Qcle_trans with (qsum n f + f n); auto.
    replace (qsum n f) with (qsum n f + 0) at 1 by ring.
    apply Qcplus_le_compat; auto. apply Qcle_refl. }
  destruct (Nat.eq_dec k n) as [->|Hne]; auto.
  apply IHn; auto. lia.
Qed.

Definition qsum2 (m o : nat) (f : nat -> nat -> Qc) : Qc :=
  qsum m (fun i => qsum o (fun k => f i k)).

Lemma qsum2_ext m o f g :
  (forall i k, (i < m)%nat -> (k < o)%nat -> f i k = g i k) -> qsum2 m o f = qsum2 m o g.
Proof. intros H. unfold qsum2. apply qsum_ext. intros i Hi. apply qsum_ext. intros k Hk. auto. Qed.

Lemma qsum2_add m o f g :
  qsum2 m o (fun i k => f i k + g i k) = qsum2 m o f + qsum2 m o g.
Proof.
  unfold qsum2. rewrite <- qsum_add. apply qsum_ext. intros i _. apply qsum_add.
Qed.

Lemma qsum2_scale m o c f : qsum2 m o (fun i k => c * f i k) = c * qsum2 m o f.
Proof.
  unfold qsum2. rewrite <- qsum_scale. apply qsum_ext. intros i _. apply qsum_scale.
Qed.

Lemma qsum2_zero m o f :
  (forall i k, (i < m)%nat -> (k < o)%nat -> f i k = 0) -> qsum2 m o f = 0.
Proof. intros H. unfold qsum2. apply qsum_zero. intros i Hi. apply qsum_zero. auto. Qed.

Lemma qsum2_nonneg m o f :
  (forall i k, (i < m)%nat -> (k < o)%nat -> 0 <= f i k) -> 0 <= qsum2 m o f.
Proof. intros H. unfold qsum2. apply qsum_nonneg. intros i Hi. apply qsum_nonneg. auto. Qed.

Lemma qsum2_terms_zero m o f :
  (forall i k, (i < m)%nat -> (k < o)%nat -> 0 <= f i k) -> qsum2 m o f <= 0 ->
  forall i k, (i < m)%nat -> (k < o)%nat -> f i k = 0.
Proof.
  intros Hp Hs i k Hi Hk. unfold qsum2 in Hs.
  assert (Hrow : qsum o (fun k => f i k) = 0).
  { apply (qsum_terms_zero m (fun i => qsum o (fun k => f i k))); auto.
    intros i' Hi'. apply qsum_nonneg. auto. }
  apply (qsum_terms_zero o (fun k => f i k)); auto.
  rewrite Hrow. apply Qcle_refl.
Qed.

(* ------------------------------------------------------------------------------------- *)
(* The Gaussian rationals: conjugation laws, squared modulus.                            *)
(* ------------------------------------------------------------------------------------- *)
Lemma qif_cj_0 : @cj QIF (@c0 QIF) = @c0 QIF.
Proof. apply qi_eq; simpl; ring. Qed.

Lemma qif_cj_add (x y : QIF) : @cj QIF (cadd x y) = cadd (cj x) (cj y).
Proof. apply qi_eq; simpl; ring. Qed.

Lemma qif_cj_mul (x y : QIF) : @cj QIF (cmul x y) = cmul (cj x) (cj y).
Proof. apply qi_eq; simpl; ring. Qed.

Lemma qif_cj_cj (x : QIF) : @cj QIF (cj x) = x.
Proof. apply qi_eq; simpl; ring. Qed.

Lemma Qc_sq_nonneg (x : Qc) : 0 <= x * x.
Proof.
  unfold Qcle. change (this (x * x)) with (Qred (this x * this x)).
  apply Qle_trans with (this x * this x)%Q.
  - destruct x as [[a b] h]. unfold Qle, Qmult; simpl. nia.
  - apply Qle_lteq. right. symmetry. apply Qred_correct.
Qed.

Lemma qi_nrm_nonneg (z : qi) : 0 <= qi_nrm z.
Proof.
  unfold qi_nrm. replace 0 with (0 + 0) by ring.
  apply Qcplus_le_compat; apply Qc_sq_nonneg.
Qed.

Lemma qi_nrm_0 : qi_nrm qi0 = 0.
Proof. unfold qi_nrm; simpl; ring. Qed.

(* |r + e|^2 = |r|^2 + |e|^2 + 2 Re(conj(e) r) *)
Lemma qi_nrm_add (r e : qi) :
  qi_nrm (qi_add r e) = qi_nrm r + qi_nrm e + (1 + 1) * qre (qi_mul (qi_cj e) r).
Proof. destruct r, e; unfold qi_nrm; simpl; ring. Qed.

Lemma qre_sumf n (f : nat -> QIF) : qre (sumf n f) = qsum n (fun k => qre (f k)).
Proof. induction n; simpl; auto. rewrite IHn. reflexivity. Qed.

Lemma qre_sumf2 m o (f : nat -> nat -> QIF) :
  qre (sumf m (fun i => sumf o (fun k => f i k))) = qsum2 m o (fun i k => qre (f i k)).
Proof.
  unfold qsum2. rewrite qre_sumf. apply qsum_ext. intros i _. apply qre_sumf.
Qed.

(* ------------------------------------------------------------------------------------- *)
(* Normal equations, squared residual norm.                                              *)
(* ------------------------------------------------------------------------------------- *)
Definition normal_eq (m n o : nat) (a b x : mat QIF) : Prop :=
  forall j k, (j < n)%nat -> (k < o)%nat ->
    mget QIF (mmul QIF n n o (normal_mat QIF m n a) x) j k =
    mget QIF (normal_rhs QIF m n o a b) j k.

(* squared Frobenius norm of A X - B, as a rational *)
Definition res2 (m n o : nat) (a x b : mat QIF) : Qc :=
  qsum2 m o (fun i k => qi_nrm (mget QIF (residual QIF m n o a x b) i k)).

(* squared Frobenius norm of A (Y - X) *)
Definition err2 (m n o : nat) (a x y : mat QIF) : Qc :=
  qsum2 m o (fun i k => qi_nrm (mget QIF (mmul QIF m n o a (msub QIF n o y x)) i k)).

Lemma resid_entry m n o a x b i k : (i < m)%nat -> (k < o)%nat ->
  mget QIF (residual QIF m n o a x b) i k = Rf QIF n (mget QIF a) (mget QIF b) (mget QIF x) i k.
Proof.
  intros Hi Hk. unfold residual, msub. rewrite mget_mbuild by auto.
  rewrite mget_mmul by auto. reflexivity.
Qed.

Lemma err_entry m n o a x y i k : (i < m)%nat -> (k < o)%nat ->
  mget QIF (mmul QIF m n o a (msub QIF n o y x)) i k =
  Ef QIF n (mget QIF a) (mget QIF x) (mget QIF y) i k.
Proof.
  intros Hi Hk. rewrite mget_mmul by auto. unfold Ef. apply sumf_ext. intros t Ht.
  unfold msub. rewrite mget_mbuild by auto. reflexivity.
Qed.

Lemma normal_eq_fun m n o a b x : normal_eq m n o a b x ->
  forall j k, (j < n)%nat -> (k < o)%nat ->
  sumf n (fun t => cmul (sumf m (fun i => cmul (cj (mget QIF a i j)) (mget QIF a i t)))
                        (mget QIF x t k)) =
  sumf m (fun i => cmul (cj (mget QIF a i j)) (mget QIF b i k)).
Proof.
  intros NE j k Hj Hk. specialize (NE j k Hj Hk).
  unfold normal_mat, normal_rhs in NE.
  rewrite !mget_mmul in NE by auto.
  rewrite <- (sumf_ext QIF m
     (fun i => cmul (mget QIF (mherm QIF m n a) j i) (mget QIF b i k))
     (fun i => cmul (cj (mget QIF a i j)) (mget QIF b i k))).
  2:{ intros i Hi. unfold mherm. rewrite mget_mbuild by auto. reflexivity. }
  rewrite <- NE. apply sumf_ext. intros t Ht. f_equal.
  rewrite mget_mmul by auto. symmetry. apply sumf_ext. intros i Hi.
  unfold mherm. rewrite mget_mbuild by auto. reflexivity.
Qed.

Lemma err2_nonneg m n o a x y : 0 <= err2 m n o a x y.
Proof. unfold err2. apply qsum2_nonneg. intros. apply qi_nrm_nonneg. Qed.

(* 2. Pythagoras: for a solution x of the normal equations and ANY y,
      |A y - b|^2 = |A x - b|^2 + |A (y - x)|^2 *)
Theorem ls_pythagoras m n o a b x : normal_eq m n o a b x ->
  forall y : mat QIF, res2 m n o a y b = res2 m n o a x b + err2 m n o a x y.
Proof.
  intros NE y. pose proof (normal_eq_fun m n o a b x NE) as NEf.
  pose (R := Rf QIF n (mget QIF a) (mget QIF b) (mget QIF x)).
  pose (E := Ef QIF n (mget QIF a) (mget QIF x) (mget QIF y)).
  assert (Hx : res2 m n o a x b = qsum2 m o (fun i k => qi_nrm (R i k))).
  { unfold res2. apply qsum2_ext. intros i k Hi Hk. rewrite resid_entry by auto. reflexivity. }
  assert (He : err2 m n o a x y = qsum2 m o (fun i k => qi_nrm (E i k))).
  { unfold err2. apply qsum2_ext. intros i k Hi Hk. rewrite err_entry by auto. reflexivity. }
  assert (Hy : res2 m n o a y b =
     qsum2 m o (fun i k => qi_nrm (R i k) + qi_nrm (E i k) +
                           (1 + 1) * qre (qi_mul (qi_cj (E i k)) (R i k)))).
  { unfold res2. apply qsum2_ext. intros i k Hi Hk. rewrite resid_entry by auto.
    rewrite (Rf_decomp QIF n (mget QIF a) (mget QIF b) (mget QIF x) (mget QIF y) i k).
    apply qi_nrm_add. }
  assert (Hc : qsum2 m o (fun i k => qre (qi_mul (qi_cj (E i k)) (R i k))) = 0).
  { rewrite <- (qre_sumf2 m o (fun i k => qi_mul (qi_cj (E i k)) (R i k))).
    transitivity (qre qi0); [|reflexivity]. f_equal.
    exact (cross_zero QIF qif_cj_0 qif_cj_add qif_cj_mul m n o
             (mget QIF a) (mget QIF b) (mget QIF x) NEf (mget QIF y)). }
  rewrite Hy, Hx, He.
  rewrite (qsum2_add m o (fun i k => qi_nrm (R i k) + qi_nrm (E i k))
                         (fun i k => (1 + 1) * qre (qi_mul (qi_cj (E i k)) (R i k)))).
  rewrite (qsum2_add m o (fun i k => qi_nrm (R i k)) (fun i k => qi_nrm (E i k))).
  rewrite (qsum2_scale m o (1 + 1) (fun i k => qre (qi_mul (qi_cj (E i k)) (R i k)))).
  rewrite Hc. ring.
Qed.

(* 2. a solution of the normal equations minimises the squared residual norm *)
Theorem ls_minimises m n o a b x : normal_eq m n o a b x ->
  forall y : mat QIF, res2 m n o a x b <= res2 m n o a y b.
Proof.
  intros NE y. rewrite (ls_pythagoras m n o a b x NE y).
  replace (res2 m n o a x b) with (res2 m n o a x b + 0) at 1 by ring.
  apply Qcplus_le_compat; [apply Qcle_refl | apply err2_nonneg].
Qed.

(* 3. consistent data: the normal-equation solution solves A x = b exactly *)
Theorem ls_consistent_exact m n o a b x : normal_eq m n o a b x ->
  (exists x0 : mat QIF, forall i k, (i < m)%nat -> (k < o)%nat ->
     mget QIF (mmul QIF m n o a x0) i k = mget QIF b i k) ->
  forall i k, (i < m)%nat -> (k < o)%nat ->
    mget QIF (mmul QIF m n o a x) i k = mget QIF b i k.
Proof.
  intros NE [x0 H0] i k Hi Hk.
  assert (Hz : res2 m n o a x0 b = 0).
  { unfold res2. apply qsum2_zero. intros i' k' Hi' Hk'.
    unfold residual, msub. rewrite mget_mbuild by auto. rewrite H0 by auto.
    replace (csub (mget QIF b i' k') (mget QIF b i' k')) with qi0.
    - apply qi_nrm_0.
    - apply qi_eq; simpl; ring. }
  pose proof (ls_minimises m n o a b x NE x0) as Hle. rewrite Hz in Hle.
  assert (Ht : qi_nrm (mget QIF (residual QIF m n o a x b) i k) = 0).
  { apply (qsum2_terms_zero m o
             (fun i k => qi_nrm (mget QIF (residual QIF m n o a x b) i k))); auto.
    intros. apply qi_nrm_nonneg. }
  apply qi_nrm_zero in Ht.
  unfold residual, msub in Ht. rewrite mget_mbuild in Ht by auto.
  apply (sub_zero_eq QIF). exact Ht.
Qed.

(* ------------------------------------------------------------------------------------- *)
(* The executable, certifying solver.                                                     *)
(* ------------------------------------------------------------------------------------- *)
Lemma mat_eqb_true r c (a b : mat QIF) : mat_eqb QIF qi_isz r c a b = true ->
  forall i j, (i < r)%nat -> (j < c)%nat -> mget QIF a i j = mget QIF b i j.
Proof.
  unfold mat_eqb. intros H i j Hi Hj.
  assert (Hi' : In i (seq 0 r)) by (apply in_seq; lia).
  assert (Hj' : In j (seq 0 c)) by (apply in_seq; lia).
  rewrite forallb_forall in H. specialize (H i Hi').
  rewrite forallb_forall in H. specialize (H j Hj'). unfold qi_isz in H. apply qi_eqb_eq in H.
  apply (sub_zero_eq QIF). exact H.
Qed.

(* 1. whatever [q2_ls_solve] returns satisfies the normal equations *)
Theorem ls_solve_normal m n o a b x :
  q2_ls_solve m n o a b = Some x -> normal_eq m n o a b x.
Proof.
  unfold q2_ls_solve, ls_solve. intros H.
  destruct (gj_solve QIF qi_isz n o (normal_mat QIF m n a) (normal_rhs QIF m n o a b))
    as [x'|]; [|discriminate].
  destruct (mat_eqb QIF qi_isz n o (mmul QIF n n o (normal_mat QIF m n a) x')
              (normal_rhs QIF m n o a b)) eqn:E; [|discriminate].
  injection H as ->. intros j k Hj Hk. apply (mat_eqb_true n o); auto.
Qed.

(* 4. corollaries for the executable function *)
Theorem ls_solve_pythagoras m n o a b x : q2_ls_solve m n o a b = Some x ->
  forall y : mat QIF, res2 m n o a y b = res2 m n o a x b + err2 m n o a x y.
Proof. intros H. apply ls_pythagoras. apply ls_solve_normal. exact H. Qed.

Theorem ls_solve_minimises m n o a b x : q2_ls_solve m n o a b = Some x ->
  forall y : mat QIF, res2 m n o a x b <= res2 m n o a y b.
Proof. intros H. apply ls_minimises. apply ls_solve_normal. exact H. Qed.

Theorem ls_solve_consistent_exact m n o a b x : q2_ls_solve m n o a b = Some x ->
  (exists x0 : mat QIF, forall i k, (i < m)%nat -> (k < o)%nat ->
     mget QIF (mmul QIF m n o a x0) i k = mget QIF b i k) ->
  forall i k, (i < m)%nat -> (k < o)%nat ->
    mget QIF (mmul QIF m n o a x) i k = mget QIF b i k.
Proof. intros H. apply ls_consistent_exact. apply ls_solve_normal. exact H. Qed.

(* ------------------------------------------------------------------------------------- *)
(* 5. Non-vacuity: computed examples.                                                     *)
(* Qc values carry canonicity proofs, so results are compared with the decidable          *)
(* equality [qi_eqb] (sound for Leibniz equality) rather than by syntactic normal forms.  *)
(* ------------------------------------------------------------------------------------- *)
Fixpoint list_eqb {A : Type} (eqb : A -> A -> bool) (l1 l2 : list A) : bool :=
  match l1, l2 with
  | [], [] => true
  | x :: r1, y :: r2 => eqb x y && list_eqb eqb r1 r2
  | _, _ => false
  end.

Lemma list_eqb_sound {A : Type} (eqb : A -> A -> bool) :
  (forall x y, eqb x y = true -> x = y) ->
  forall l1 l2, list_eqb eqb l1 l2 = true -> l1 = l2.
Proof.
  intros He. induction l1 as [|x r1 IH]; intros [|y r2] H; simpl in H; try discriminate; auto.
  apply andb_prop in H as [H1 H2]. f_equal; auto.
Qed.

Definition omat_eqb (u v : option (mat QIF)) : bool :=
  match u, v with
  | Some a, Some b => list_eqb (list_eqb qi_eqb) a b
  | None, None => true
  | _, _ => false
  end.

Lemma omat_eqb_sound u v : omat_eqb u v = true -> u = v.
Proof.
  destruct u as [a|], v as [b|]; simpl; intros H; try discriminate; auto.
  f_equal. revert H. apply list_eqb_sound. apply list_eqb_sound.
  intros x y Hxy. apply qi_eqb_eq. exact Hxy.
Qed.

Definition qn (z : Z) : qi := mkqi z 1 0 1.

(* inconsistent 3 x 2 system: rows [1 0],[0 1],[1 1], b = [1,2,4]  =>  x = [4/3, 7/3] *)
Definition ex_a : mat QIF := [[qn 1; qn 0]; [qn 0; qn 1]; [qn 1; qn 1]].
Definition ex_b : mat QIF := [[qn 1]; [qn 2]; [qn 4]].
Definition ex_x : mat QIF := [[mkqi 4 3 0 1]; [mkqi 7 3 0 1]].

Example ls_example_inconsistent : q2_ls_solve 3 2 1 ex_a ex_b = Some ex_x.
Proof. apply omat_eqb_sound. vm_compute. reflexivity. Qed.

(* its residual is not zero: |A x - b|^2 = 1/3, and e.g. y = [1, 2] does worse (1) *)
Example ls_example_inconsistent_res2 : res2 3 2 1 ex_a ex_x ex_b = qq 1 3.
Proof. apply Qc_is_canon. vm_compute. reflexivity. Qed.

Example ls_example_inconsistent_other :
  res2 3 2 1 ex_a [[qn 1]; [qn 2]] ex_b = qq 1 1.
Proof. apply Qc_is_canon. vm_compute. reflexivity. Qed.

(* a consistent complex 3 x 2 system, two right-hand sides: b = A * [[1+i, 2];[3, -i]] *)
Definition ex2_a : mat QIF :=
  [[mkqi 1 1 1 1; qn 0]; [qn 2; mkqi 0 1 1 1]; [mkqi 1 2 0 1; qn 1]].
Definition ex2_x : mat QIF := [[mkqi 1 1 1 1; qn 2]; [qn 3; mkqi 0 1 (-1) 1]].
Definition ex2_b : mat QIF := mmul QIF 3 2 2 ex2_a ex2_x.

Example ls_example_consistent : q2_ls_solve 3 2 2 ex2_a ex2_b = Some ex2_x.
Proof. apply omat_eqb_sound. vm_compute. reflexivity. Qed.

Example ls_example_consistent_res2 : res2 3 2 2 ex2_a ex2_x ex2_b = 0.
Proof. apply Qc_is_canon. vm_compute. reflexivity. Qed.

(* rank-deficient A (a zero column): no answer *)
Example ls_example_rank_deficient :
  q2_ls_solve 3 2 1 [[qn 1; qn 0]; [qn 2; qn 0]; [qn 3; qn 0]] ex_b = None.
Proof. vm_compute. reflexivity. Qed.

(* rank-deficient A (two proportional columns): no answer *)
Example ls_example_rank_deficient2 :
  q2_ls_solve 3 2 1 [[qn 1; qn 2]; [qn 2; qn 4]; [qn 3; qn 6]] ex_b = None.
Proof. vm_compute. reflexivity. Qed.
