(* Executable model of src/vnacommon_lu.c, vnacommon_mldivide.c, vnacommon_mrdivide.c and
   vnacommon_minverse.c as coded: Crout's method column by column with implicit-scaling partial
   pivoting.  Magnitudes are kept squared in an ordered type M so that the model runs over the
   Gaussian rationals: the C test  row_scale[i] * cabs(s) > best_value  between non-negative
   reals is equivalent to the same test between the squares.
   The row-scale vector is a parameter [scale_of_max] applied to the squared row maximum so that
   both the intended 1/max and any other choice can be modelled; see RowScale below. *)
Require Import List Arith.
Import ListNotations.
Require Import LV.Base.CField LV.Lin.MatL.
Local Open Scope cf_scope.

Section Lu.
Variable K : CField.
Variable M : Type.
Variable nrm2 : K -> M.            (* |x|^2 *)
Variable mulM : M -> M -> M.
Variable ltM : M -> M -> bool.     (* strict < *)
Variable zeroM : M.
Variable scale_of_max : M -> M.    (* squared row_scale from the squared row maximum *)

Notation mat := (mat K).

Record lu_state := LuS { lu_a : mat; lu_ri : list nat; lu_rs : list M; lu_d : K;
                         lu_pivots : list nat (* original row chosen at each column *);
                         lu_cands : list (list M) (* per column: pivot metric of each candidate row *) }.

Definition row_max (a : mat) (n i : nat) : M :=
  fold_left (fun mx j => let t := nrm2 (mget K a i j) in if ltM mx t then t else mx) (seq 0 n) zeroM.

Definition lu_init (a : mat) (n : nat) : lu_state :=
  LuS a (seq 0 n) (map (fun i => scale_of_max (row_max a n i)) (seq 0 n)) 1 [] [].

(* s = A(i,j) - sum_{k<cnt} A(i,k) A(k,j), in the order of the C loop *)
Definition dot_sub (a : mat) (i j cnt : nat) : K :=
  fold_left (fun s k => s - mget K a i k * mget K a k j) (seq 0 cnt) (mget K a i j).

Definition lu_column (n : nat) (st : lu_state) (j : nat) : lu_state :=
  let a1 := fold_left (fun a i => mset K a i j (dot_sub a i j i)) (seq 0 j) (lu_a st) in
  let '(a2, best_index, best_value) :=
    fold_left (fun '(a, bi, bv) i =>
                 let s := dot_sub a i j j in
                 let a' := mset K a i j s in
                 let t := mulM (nth i (lu_rs st) zeroM) (nrm2 s) in
                 if ltM bv t then (a', i, t) else (a', bi, bv))
              (seq j (n - j)) (a1, j, zeroM) in
  let swap := negb (Nat.eqb best_index j) in
  let a3 := if swap then swap_rows [] a2 best_index j else a2 in
  let ri := if swap then swap_rows O (lu_ri st) best_index j else lu_ri st in
  let rs := if swap then upd (lu_rs st) best_index (nth j (lu_rs st) zeroM) else lu_rs st in
  let d1 := if swap then lu_d st * (copp 1) else lu_d st in
  let d2 := d1 * mget K a3 j j in
  let a4 := if Nat.eqb j (n - 1) then a3
            else let sc := 1 / mget K a3 j j in
                 fold_left (fun a i => mset K a i j (mget K a i j * sc)) (seq (S j) (n - S j)) a3 in
  let cands := map (fun i => mulM (nth i (lu_rs st) zeroM) (nrm2 (mget K a2 i j))) (seq j (n - j)) in
  LuS a4 ri rs d2 (lu_pivots st ++ [nth j ri O]) (lu_cands st ++ [cands]).

Definition lu (a : mat) (n : nat) : lu_state := fold_left (lu_column n) (seq 0 n) (lu_init a n).

(* x (m x n) such that a x = b;  a is m x m, b is m x n *)
Definition mldivide (a b : mat) (m n : nat) : mat * K :=
  let st := lu a m in
  let A := lu_a st in
  let x :=
    fold_left (fun x j =>
      let x1 := fold_left (fun x i =>
                  let s0 := mget K b (nth i (lu_ri st) O) j in
                  mset K x i j (fold_left (fun s k => s - mget K A i k * mget K x k j) (seq 0 i) s0))
                (seq 0 m) x in
      fold_left (fun x i =>
                  let s := fold_left (fun s k => s - mget K A i k * mget K x k j)
                                     (seq (S i) (m - S i)) (mget K x i j) in
                  mset K x i j (s / mget K A i i))
                (rev (seq 0 m)) x1)
    (seq 0 n) (mzero K m n) in
  (x, lu_d st).

(* x (m x n) such that x a = b;  a is n x n, b is m x n *)
Definition mrdivide (b a : mat) (m n : nat) : mat * K :=
  let st := lu a n in
  let A := lu_a st in
  let ri k := nth k (lu_ri st) O in
  let x :=
    fold_left (fun x i =>
      let x1 := fold_left (fun x j =>
                  let s := fold_left (fun s k => s - mget K A k j * mget K x i (ri k)) (seq 0 j)
                                     (mget K b i j) in
                  mset K x i (ri j) (s / mget K A j j))
                (seq 0 n) x in
      fold_left (fun x j =>
                  let s := fold_left (fun s k => s - mget K A k j * mget K x i (ri k))
                                     (seq (S j) (n - S j)) (mget K x i (ri j)) in
                  mset K x i (ri j) s)
                (rev (seq 0 n)) x1)
    (seq 0 m) (mzero K m n) in
  (x, lu_d st).

Definition minverse (a : mat) (n : nat) : mat * K :=
  let st := lu a n in
  let A := lu_a st in
  let x :=
    fold_left (fun x j =>
      let x1 := fold_left (fun x i =>
                  let s0 := if Nat.eqb (nth i (lu_ri st) O) j then 1 else 0 in
                  mset K x i j (fold_left (fun s k => s - mget K A i k * mget K x k j) (seq 0 i) s0))
                (seq 0 n) x in
      fold_left (fun x i =>
                  let s := fold_left (fun s k => s - mget K A i k * mget K x k j)
                                     (seq (S i) (n - S i)) (mget K x i j) in
                  mset K x i j (s / mget K A i i))
                (rev (seq 0 n)) x1)
    (seq 0 n) (mzero K n n) in
  (x, lu_d st).
End Lu.
