(* Least squares through the Householder model AS CODED (QrModel.qrsolve), every m >= n, full column
   rank: the list-level loops compute what QrProofs reasons about,
     [reflect_all_Tf]  qr_reflect_all m k a b   =  H_(k-1) ... H_0 b        (QrProofs.Tf), entry by entry
     [back_spec]       qr_back n a d c n        solves the triangular system  R x = c  (rows < n)
   hence ([qrsolve_normal_equations]) the matrix X returned by the model of _vnacommon_qrsolve satisfies the
   normal equations A^H A X = A^H B, the returned rank is n and nothing non-finite is reported.
   sqrt and cexp(I carg) stay abstract (Section variables nrm, phase) with the per-run laws [run_laws]
   of QrProofs (nrm s * nrm s = s, ...), as in the other c19_qr theorems. *)
Require Import List Arith Lia Bool.
Import ListNotations.
Require Import LV.Base.CField LV.Lin.MatL LV.Lin.LuGenA LV.Lin.QrModel LV.Lin.QrAlg LV.Lin.QrProofs LV.Lin.QrTheorems.
Local Open Scope nat_scope.
Local Open Scope cf_scope.

Section QrLs.
Variable K : CField.
Variables nrm phase : K -> K.
Variable isz : K -> bool.
Hypothesis FL : qr_field_laws K isz.
Add Field KfQrLs : (cth K).

Notation mat := (mat K).
Notation mg := (mget K).
Notation sumf := (@sumf K).
Notation ip := (ip K).
Notation Hf := (Hf K).
Notation Tf := (Tf K).
Notation vst := (vst K).

Lemma cj0 : cj (@c0 K) = 0.
Proof. destruct FL as (L0 & _). exact L0. Qed.

(* one reflection of the C loop = Hf with the stored vector *)
Lemma reflect_Hf m (a : mat) i (bc : list K) : i <= m -> length bc = m ->
  length (qr_reflect K m a i bc) = m /\
  forall j, j < m -> nth j (qr_reflect K m a i bc) 0 = Hf m (vst a i) (fun r => nth r bc 0) j.
Proof.
  intros Hi Hl. unfold qr_reflect. split; [rewrite map_length, seq_length; reflexivity|].
  intros j Hj. rewrite (nth_map_seq _ m j) by exact Hj.
  assert (Es : fold_left (fun s j0 => s + cj (mg a j0 i) * nth j0 bc 0) (seq i (m - i)) 0
               = ip m (vst a i) (fun r => nth r bc 0)).
  { rewrite (fold_add_seq K (m - i) i (fun j0 => cj (mg a j0 i) * nth j0 bc 0) 0).
    unfold QrAlg.ip.
    rewrite (sumf_ext K m (fun r => cj (vst a i r) * nth r bc 0)
               (fun r => if i <=? r then cj (mg a r i) * nth r bc 0 else 0)).
    - rewrite (sumf_cut_ge K m i _ Hi). ring.
    - intros r Hr. unfold QrProofs.vst. destruct (Nat.leb_spec i r); destruct (Nat.ltb_spec r i); try lia.
      + reflexivity.
      + rewrite cj0. ring. }
  rewrite Es. unfold QrAlg.Hf, QrProofs.vst.
  destruct (Nat.leb_spec i j); destruct (Nat.ltb_spec j i); try lia; [reflexivity|ring].
Qed.

Lemma Hf_ext m v x x' j : (forall r, r < m -> x r = x' r) -> j < m -> Hf m v x j = Hf m v x' j.
Proof.
  intros H Hj. unfold QrAlg.Hf. rewrite (H j Hj). f_equal. f_equal. f_equal.
  apply ip_ext; auto.
Qed.

Lemma reflect_all_Tf m (a : mat) (bc : list K) : length bc = m -> forall k, k <= m ->
  length (qr_reflect_all K m k a bc) = m /\
  forall j, j < m -> nth j (qr_reflect_all K m k a bc) 0 = Tf m a k (fun r => nth r bc 0) j.
Proof.
  intros Hl. induction k; intros Hk.
  - split; [exact Hl|]. intros j Hj. reflexivity.
  - destruct (IHk ltac:(lia)) as (IHl & IHn).
    unfold qr_reflect_all in *. rewrite seq_S, fold_left_app. cbn [fold_left Nat.add].
    destruct (reflect_Hf m a k _ ltac:(lia) IHl) as (Hl' & Hn').
    split; [exact Hl'|]. intros j Hj. rewrite (Hn' j Hj). cbn [QrProofs.Tf].
    apply Hf_ext; auto.
Qed.

(* the back substitution: x_i d_i + sum_{t > i} A(i,t) x_t = c_i for the rows it has reached *)
Definition xf (dg : nat) (a : mat) (d c : list K) (cnt : nat) : nat -> K :=
  fun i => nth (i - (dg - cnt)) (qr_back K dg a d c cnt) 0.

Lemma back_spec dg (a : mat) (d c : list K) : (forall i, i < dg -> nth i d 0 <> 0) ->
  forall cnt, cnt <= dg ->
  forall i, dg - cnt <= i < dg ->
    xf dg a d c cnt i * nth i d 0 +
    sumf (dg - S i) (fun t => mg a i (S i + t) * xf dg a d c cnt (S i + t)) = nth i c 0.
Proof.
  intros Hd. induction cnt; intros Hc i Hi; [lia|].
  assert (Hx : forall r, dg - cnt <= r -> xf dg a d c (S cnt) r = xf dg a d c cnt r).
  { intros r Hr. unfold xf. cbn [qr_back].
    replace (r - (dg - S cnt))%nat with (S (r - (dg - cnt)))%nat by lia. reflexivity. }
  destruct (Nat.eq_dec i (dg - S cnt)) as [Ei|Ni].
  - assert (Hv : xf dg a d c (S cnt) i
                 = (nth i c 0 - sumf cnt (fun t => mg a i (S i + t) * nth t (qr_back K dg a d c cnt) 0)) / nth i d 0).
    { unfold xf. cbn [qr_back]. rewrite Ei at 1. rewrite Nat.sub_diag. cbn [nth].
      rewrite <- Ei.
      rewrite (fold_add_seq K cnt 0 (fun t => mg a i (S i + t) * nth t (qr_back K dg a d c cnt) 0) 0).
      cbn [Nat.add]. f_equal. ring. }
    rewrite Hv. replace (dg - S i)%nat with cnt by lia.
    rewrite (sumf_ext K cnt (fun t => mg a i (S i + t) * xf dg a d c (S cnt) (S i + t))
               (fun t => mg a i (S i + t) * nth t (qr_back K dg a d c cnt) 0)).
    + field. apply Hd. lia.
    + intros t Ht. rewrite Hx by lia. unfold xf. f_equal. f_equal. lia.
  - rewrite Hx by lia.
    rewrite (sumf_ext K (dg - S i) _ (fun t => mg a i (S i + t) * xf dg a d c cnt (S i + t)))
      by (intros t Ht; rewrite Hx by lia; reflexivity).
    apply IHcnt; lia.
Qed.

(* R x = c, in the form the normal-equation lemma wants *)
Lemma back_solves_R m n (st : qr_state K) (c : list K) : n <= m -> length (qr_d K st) = n ->
  (forall t, t < n -> nth t (qr_d K st) 0 <> 0) ->
  forall i, i < n ->
    sumf n (fun t => mg (qr_R K m n st) i t * nth t (qr_back K n (qr_a K st) (qr_d K st) c n) 0) = nth i c 0.
Proof.
  intros Hnm Hl Hd i Hi.
  pose proof (back_spec n (qr_a K st) (qr_d K st) c Hd n (le_n n) i ltac:(lia)) as E.
  rewrite <- E.
  assert (Hx : forall r, xf n (qr_a K st) (qr_d K st) c n r = nth r (qr_back K n (qr_a K st) (qr_d K st) c n) 0).
  { intros r. unfold xf. f_equal. lia. }
  rewrite (sumf_ext K n _ (fun t => if i <=? t then
             (if t =? i then nth i (qr_d K st) 0 else mg (qr_a K st) i t) * xf n (qr_a K st) (qr_d K st) c n t else 0)).
  2:{ intros t Ht. unfold qr_R. rewrite mget_mbuild by lia. rewrite Hx.
      destruct (Nat.leb_spec i t); destruct (Nat.eqb_spec i t); destruct (Nat.eqb_spec t i);
        destruct (Nat.ltb_spec i t); try lia; try reflexivity; try ring. }
  rewrite (sumf_cut_ge K n i _ ltac:(lia)).
  replace (n - i)%nat with (1 + (n - S i))%nat by lia. rewrite sumf_split. cbn [LuGenA.sumf].
  rewrite Nat.add_0_r, Nat.eqb_refl.
  rewrite (sumf_ext K (n - S i) _ (fun t => mg (qr_a K st) i (S i + t) * xf n (qr_a K st) (qr_d K st) c n (S i + t))).
  - ring.
  - intros t Ht. replace (i + (1 + t))%nat with (S i + t)%nat by lia.
    destruct (Nat.eqb_spec (S i + t) i); [lia|reflexivity].
Qed.

(* the model of _vnacommon_qrsolve returns a solution of the normal equations *)
Theorem qrsolve_normal_equations m n o (A B : mat) : wf m n A -> n <= m ->
  run_laws K nrm phase isz m n A n -> ker_trivial K m n A ->
  exists X B',
    qrsolve K nrm phase isz m n o A B = (Some X, B', n) /\
    forall k j, k < o -> j < n ->
      sumf n (fun t => sumf m (fun i => cj (mg A i j) * mg A i t) * mg X t k) =
      sumf m (fun i => cj (mg A i j) * mg B i k).
Proof.
  intros Hw Hnm HL Hker.
  destruct (t_outcome K nrm phase isz FL m n A Hw Hnm HL) as [(_ & Hnan & Hrk & Hd)|(k & x & Hk & _ & _ & _ & Hx & Hxk)].
  2:{ exfalso. assert (E := Hker x Hx k Hk). rewrite Hxk in E. exact (F_1_neq_0 (cth K) E). }
  cbv zeta in Hnan, Hrk, Hd.
  set (st := qrd K nrm phase isz m n A) in *.
  assert (Hlen : length (qr_d K st) = n).
  { destruct FL as (L0 & L1 & La & Lm & Lc & L2 & Ls & Lz).
    unfold st, QrModel.qrd. rewrite Nat.min_r by exact Hnm.
    destruct (run_char K L0 La Lm Lc L2 Ls nrm phase isz Lz m n A n Hw Hnm (le_n n) HL) as [HI | (k & Hk & HI & Hz & Hs)].
    - destruct HI as (_ & Hl & _). exact Hl.
    - exfalso. unfold st, QrModel.qrd in Hnan. rewrite Nat.min_r in Hnan by exact Hnm.
      rewrite Hs in Hnan. discriminate. }
  unfold qrsolve. rewrite Nat.min_r by exact Hnm. fold st. rewrite Hnan.
  assert (Hfin : forallb (fun x => negb (isz x)) (qr_d K st) = true).
  { apply forallb_forall. intros x Hx. apply (In_nth _ _ 0) in Hx. destruct Hx as (t & Ht & <-).
    rewrite Hlen in Ht. destruct (isz (nth t (qr_d K st) 0)) eqn:E; [|reflexivity].
    exfalso. apply (Hd t Ht). destruct FL as (_ & _ & _ & _ & _ & _ & _ & Lz). apply Lz. exact E. }
  rewrite Hfin, Hrk. eexists; eexists. split; [reflexivity|].
  intros k j Hk Hj.
  set (bk := mcol K m B k).
  assert (Hbl : length bk = m) by (unfold bk, mcol; rewrite map_length, seq_length; reflexivity).
  destruct (reflect_all_Tf m (qr_a K st) bk Hbl n Hnm) as (Hcl & Hcn).
  set (ck := qr_reflect_all K m n (qr_a K st) bk) in *.
  set (xk := fun t => nth t (qr_back K n (qr_a K st) (qr_d K st) ck n) 0).
  rewrite (sumf_ext K n _ (fun t => sumf m (fun i => cj (mg A i j) * mg A i t) * xk t)).
  2:{ intros t Ht. f_equal. rewrite mget_mbuild by auto.
      rewrite map_map. rewrite (nth_map_seq _ o k) by exact Hk.
      rewrite Nat.sub_diag. cbn [repeat]. rewrite app_nil_r. reflexivity. }
  rewrite (sumf_ext K m (fun i => cj (mg A i j) * mg B i k) (fun i => cj (mg A i j) * nth i bk 0)).
  2:{ intros i Hi. unfold bk, mcol. rewrite (nth_map_seq _ m i) by exact Hi. reflexivity. }
  apply (t_ls_normal_equations_partial K nrm phase isz FL m n A (fun r => nth r bk 0) xk Hw Hnm HL Hker); [|exact Hj].
  intros i Hi. fold st. rewrite <- (Hcn i ltac:(lia)).
  apply (back_solves_R m n st ck Hnm Hlen Hd i Hi).
Qed.
End QrLs.
