(* Generic-n correctness of the LU model, part B: closed form of one column step of [lu_column]
   and the Crout invariant  P A = L U  for [lu]. *)
Require Import List Arith Lia Bool Permutation.
Import ListNotations.
Require Import LV.Base.CField LV.Lin.MatL LV.Lin.LuModel LV.Lin.LuGenA.
Local Open Scope cf_scope.

Section LuGenB.
Variable K : CField.
Variable M : Type.
Variable nrm2 : K -> M.
Variable mulM : M -> M -> M.
Variable ltM : M -> M -> bool.
Variable zeroM : M.
Variable scale_of_max : M -> M.
Add Field KfB : (cth K).

Notation mat := (mat K).
Notation lu_state := (lu_state K M).
Notation lu_a := (lu_a K M).
Notation lu_ri := (lu_ri K M).
Notation lu_rs := (lu_rs K M).
Notation lu_d := (lu_d K M).
Notation lu_pivots := (lu_pivots K M).
Notation lu_column := (lu_column K M nrm2 mulM ltM zeroM).
Notation lu_init := (lu_init K M nrm2 ltM zeroM scale_of_max).
Notation lu := (lu K M nrm2 mulM ltM zeroM scale_of_max).
Notation mg := (mget K).

(* ---------- writes down one column ---------- *)
Definition cstep (j : nat) (g : mat -> nat -> K) (a : mat) (i : nat) : mat := mset K a i j (g a i).

Lemma fold_cstep_wf j g r c l a : wf r c a -> wf r c (fold_left (cstep j g) l a).
Proof. exact (fold_wstep_wf K (fun t => t) (fun _ => j) g r c l a). Qed.

Lemma fold_cstep_other j g l i c a : (c <> j \/ ~ In i l) ->
  mg (fold_left (cstep j g) l a) i c = mg a i c.
Proof.
  intros H. apply (fold_wstep_other K (fun t => t) (fun _ => j) g l i c).
  intros t Ht. destruct H as [H|H]; [right; auto|left; intro; subst; auto].
Qed.

Lemma fold_cstep_prefix j g l1 l2 i c a : (c <> j \/ ~ In i l2) ->
  mg (fold_left (cstep j g) (l1 ++ l2) a) i c = mg (fold_left (cstep j g) l1 a) i c.
Proof. intros H. rewrite fold_left_app. apply fold_cstep_other; auto. Qed.

Lemma fold_cstep_at j g r c l1 i l2 a : wf r c a -> i < r -> j < c -> ~ In i l2 ->
  mg (fold_left (cstep j g) (l1 ++ i :: l2) a) i j = g (fold_left (cstep j g) l1 a) i.
Proof.
  intros Hw Hi Hj H.
  apply (fold_wstep_at K (fun t => t) (fun _ => j) g r c l1 i l2 a Hw Hi Hj).
  intros t Ht. left. intro; subst; auto.
Qed.

Lemma dot_sub_sumf a i j cnt :
  dot_sub K a i j cnt = mg a i j - sumf cnt (fun k => mg a i k * mg a k j).
Proof.
  unfold dot_sub.
  rewrite (fold_sub_seq K cnt O (fun k => mg a i k * mg a k j)). reflexivity.
Qed.

(* ---------- the phases of lu_column ---------- *)
Definition phase1 (j : nat) (W : mat) : mat :=
  fold_left (cstep j (fun a i => dot_sub K a i j i)) (seq 0 j) W.
Definition phase2 (n j : nat) (a1 : mat) : mat :=
  fold_left (cstep j (fun a i => dot_sub K a i j j)) (seq j (n - j)) a1.
Definition phase4 (n j : nat) (sc : K) (a3 : mat) : mat :=
  fold_left (cstep j (fun a i => mg a i j * sc)) (seq (S j) (n - S j)) a3.

Definition p2full (rs : list M) (j : nat) :=
  fun '(a, bi, bv) i =>
    let s := dot_sub K a i j j in
    let a' := mset K a i j s in
    let t := mulM (nth i rs zeroM) (nrm2 s) in
    if ltM bv t then (a', i, t) else (a', bi, bv).

Lemma p2full_fst rs j l : forall a (bi : nat) (bv : M),
  fst (fst (fold_left (p2full rs j) l (a, bi, bv))) =
  fold_left (cstep j (fun a i => dot_sub K a i j j)) l a.
Proof.
  induction l; intros a0 bi bv; simpl; auto.
  destruct (ltM _ _); apply IHl.
Qed.

Lemma p2full_bi rs j l : forall a (bi : nat) (bv : M),
  let r := snd (fst (fold_left (p2full rs j) l (a, bi, bv))) in r = bi \/ In r l.
Proof.
  induction l; intros a0 bi bv; simpl; auto.
  destruct (ltM _ _).
  - destruct (IHl (mset K a0 a j (dot_sub K a0 a j j)) a
                  (mulM (nth a rs zeroM) (nrm2 (dot_sub K a0 a j j)))); auto.
  - destruct (IHl (mset K a0 a j (dot_sub K a0 a j j)) bi bv); auto.
Qed.

Lemma phase1_spec n W j : wf n n W -> j < n ->
  let a1 := phase1 j W in
  wf n n a1 /\
  (forall i c, c <> j -> mg a1 i c = mg W i c) /\
  (forall i, j <= i -> mg a1 i j = mg W i j) /\
  (forall i, i < j -> mg a1 i j = mg W i j - sumf i (fun k => mg W i k * mg a1 k j)).
Proof.
  intros Hw Hj a1. split; [apply fold_cstep_wf; auto|].
  split; [intros; apply fold_cstep_other; auto|]. split.
  - intros i Hi. apply fold_cstep_other. right. intro Hin. apply in_seq in Hin. lia.
  - intros i Hi. unfold a1, phase1. rewrite (seq_split_at 0 j i) by lia.
    rewrite (fold_cstep_at j _ n n) by (auto; try lia; intro Hin; apply in_seq in Hin; lia).
    rewrite dot_sub_sumf. f_equal.
    + apply fold_cstep_other. right. intro Hin. apply in_seq in Hin. lia.
    + apply sumf_ext. intros k Hk. f_equal.
      * apply fold_cstep_other. left. lia.
      * symmetry. apply fold_cstep_prefix. right. intros [Hin|Hin]; [lia|].
        apply in_seq in Hin. lia.
Qed.

Lemma phase2_spec n a1 j : wf n n a1 -> j < n ->
  let a2 := phase2 n j a1 in
  wf n n a2 /\
  (forall i c, c <> j -> mg a2 i c = mg a1 i c) /\
  (forall i, i < j -> mg a2 i j = mg a1 i j) /\
  (forall i, j <= i < n -> mg a2 i j = mg a1 i j - sumf j (fun k => mg a1 i k * mg a1 k j)).
Proof.
  intros Hw Hj a2. split; [apply fold_cstep_wf; auto|].
  split; [intros; apply fold_cstep_other; auto|]. split.
  - intros i Hi. apply fold_cstep_other. right. intro Hin. apply in_seq in Hin. lia.
  - intros i Hi. unfold a2, phase2. rewrite (seq_split_at j (n - j) i) by lia.
    rewrite (fold_cstep_at j _ n n) by (auto; try lia; intro Hin; apply in_seq in Hin; lia).
    rewrite dot_sub_sumf. f_equal.
    + apply fold_cstep_other. right. intro Hin. apply in_seq in Hin. lia.
    + apply sumf_ext. intros k Hk. f_equal.
      * apply fold_cstep_other. left. lia.
      * apply fold_cstep_other. right. intro Hin. apply in_seq in Hin. lia.
Qed.

Lemma phase4_spec n a3 j sc : wf n n a3 -> j < n ->
  let a4 := phase4 n j sc a3 in
  wf n n a4 /\
  (forall i c, c <> j -> mg a4 i c = mg a3 i c) /\
  (forall i, i <= j -> mg a4 i j = mg a3 i j) /\
  (forall i, j < i < n -> mg a4 i j = mg a3 i j * sc).
Proof.
  intros Hw Hj a4. split; [apply fold_cstep_wf; auto|].
  split; [intros; apply fold_cstep_other; auto|]. split.
  - intros i Hi. apply fold_cstep_other. right. intro Hin. apply in_seq in Hin. lia.
  - intros i Hi. unfold a4, phase4. rewrite (seq_split_at (S j) (n - S j) i) by lia.
    rewrite (fold_cstep_at j _ n n) by (auto; try lia; intro Hin; apply in_seq in Hin; lia).
    f_equal. apply fold_cstep_other. right. intro Hin. apply in_seq in Hin. lia.
Qed.

(* ---------- lu_column in projected form ---------- *)
Definition col_r (n : nat) (st : lu_state) (j : nat) : mat * nat * M :=
  fold_left (p2full (lu_rs st) j) (seq j (n - j)) (phase1 j (lu_a st), j, zeroM).
Definition col_bi n st j : nat := snd (fst (col_r n st j)).
Definition col_a3 n st j : mat :=
  let a2 := fst (fst (col_r n st j)) in
  if negb (col_bi n st j =? j) then swap_rows [] a2 (col_bi n st j) j else a2.

Lemma lu_column_proj n st j :
  let bi := col_bi n st j in
  let a3 := col_a3 n st j in
  let st' := lu_column n st j in
  lu_a st' = phase4 n j (1 / mg a3 j j) a3 /\
  lu_ri st' = (if negb (bi =? j) then swap_rows O (lu_ri st) bi j else lu_ri st) /\
  lu_d st' = (if negb (bi =? j) then lu_d st * (copp 1) else lu_d st) * mg a3 j j /\
  lu_pivots st' = lu_pivots st ++ [nth j (lu_ri st') O].
Proof.
  unfold col_a3, col_bi.
  assert (Hr : col_r n st j = col_r n st j) by reflexivity.
  unfold col_r at 1 in Hr. unfold phase1, p2full, cstep in Hr.
  unfold lu_column.
  match goal with |- context [fold_left ?f (seq j (n - j)) (?a1, j, zeroM)] =>
     change (fold_left f (seq j (n - j)) (a1, j, zeroM)) with (col_r n st j) end.
  destruct (col_r n st j) as [[a2 bi] bv]. cbn [fst snd].
  cbn [LuModel.lu_a LuModel.lu_ri LuModel.lu_d LuModel.lu_pivots].
  repeat split.
  destruct (Nat.eqb_spec j (n - 1)); auto.
  unfold phase4. replace (n - S j)%nat with O by lia. reflexivity.
Qed.

Lemma col_bi_range n st j : j < n -> j <= col_bi n st j < n.
Proof.
  intros Hj. unfold col_bi, col_r.
  destruct (p2full_bi (lu_rs st) j (seq j (n - j)) (phase1 j (lu_a st)) j zeroM) as [H|H].
  - rewrite H. lia.
  - apply in_seq in H. lia.
Qed.

Lemma col_a2_eq n st j : fst (fst (col_r n st j)) = phase2 n j (phase1 j (lu_a st)).
Proof. unfold col_r. apply p2full_fst. Qed.

(* closed form of one column step *)
Lemma lu_column_spec n st j : wf n n (lu_a st) -> length (lu_ri st) = n -> j < n ->
  exists bi (u s : nat -> K), j <= bi < n /\
   let W := lu_a st in let st' := lu_column n st j in let W' := lu_a st' in
   let sg := tr j bi in
   wf n n W' /\
   length (lu_ri st') = n /\
   (forall i, nth i (lu_ri st') O = nth (sg i) (lu_ri st) O) /\
   (forall i c, c <> j -> mg W' i c = mg W (sg i) c) /\
   (forall i, i < j -> u i = mg W i j - sumf i (fun k => mg W i k * u k)) /\
   (forall i, j <= i < n -> s i = mg W i j - sumf j (fun k => mg W i k * u k)) /\
   (forall i, i < j -> mg W' i j = u i) /\
   mg W' j j = s bi /\
   (forall i, j < i < n -> mg W' i j = s (sg i) * (1 / s bi)) /\
   lu_d st' = lu_d st * (if bi =? j then 1 else copp 1) * mg W' j j /\
   lu_pivots st' = lu_pivots st ++ [nth j (lu_ri st') O].
Proof.
  intros Hw Hlen Hj.
  pose proof (col_bi_range n st j Hj) as Hbi.
  destruct (lu_column_proj n st j) as (Ea & Eri & Ed & Ep).
  set (bi := col_bi n st j) in *.
  destruct (phase1_spec n (lu_a st) j Hw Hj) as (Hw1 & H1o & H1ge & H1lt).
  set (a1 := phase1 j (lu_a st)) in *.
  destruct (phase2_spec n a1 j Hw1 Hj) as (Hw2 & H2o & H2lt & H2ge).
  set (a2 := phase2 n j a1) in *.
  assert (Ha3 : forall i c, mg (col_a3 n st j) i c = mg a2 (tr j bi i) c).
  { intros i c. unfold col_a3. rewrite col_a2_eq. fold a1. fold a2. fold bi.
    destruct (Nat.eqb_spec bi j) as [E|E]; simpl.
    - rewrite E, tr_same. reflexivity.
    - destruct Hw2 as [Hl2 _]. apply mget_swap_rows; lia. }
  assert (Hw3 : wf n n (col_a3 n st j)).
  { unfold col_a3. rewrite col_a2_eq. fold a1. fold a2. fold bi.
    destruct (negb (bi =? j)); auto. apply wf_swap_rows; auto; lia. }
  set (a3 := col_a3 n st j) in *.
  destruct (phase4_spec n a3 j (1 / mg a3 j j) Hw3 Hj) as (Hw4 & H4o & H4le & H4gt).
  rewrite <- Ea in *.
  assert (Htr_lt : forall i, i < j -> tr j bi i = i).
  { intros i Hi. apply tr_other; lia. }
  assert (Hjj : mg a3 j j = mg a2 bi j).
  { rewrite Ha3, tr_l. reflexivity. }
  exists bi, (fun i => mg a1 i j), (fun i => mg a2 i j). split; [exact Hbi|].
  cbv zeta. split; [exact Hw4|]. split.
  { rewrite Eri. destruct (negb (bi =? j)); auto. rewrite swap_rows_length; auto. }
  split.
  { intros i. rewrite Eri. destruct (Nat.eqb_spec bi j) as [E|E]; simpl.
    - rewrite E, tr_same. reflexivity.
    - apply nth_swap_rows_tr; lia. }
  split.
  { intros i c Hc. rewrite H4o by auto. rewrite Ha3. rewrite H2o by auto. apply H1o; auto. }
  split.
  { intros i Hi. apply H1lt; auto. }
  split.
  { intros i Hi. rewrite H2ge by auto. rewrite H1ge by lia. f_equal.
    apply sumf_ext. intros k Hk. f_equal. apply H1o. lia. }
  split.
  { intros i Hi. rewrite H4le by lia. rewrite Ha3, Htr_lt by auto. apply H2lt; auto. }
  split.
  { rewrite H4le by lia. exact Hjj. }
  split.
  { intros i Hi. rewrite H4gt by auto. rewrite Ha3, Hjj. reflexivity. }
  split; [|exact Ep].
  rewrite Ed. rewrite H4le by lia.
  destruct (bi =? j); simpl; ring.
Qed.

(* ---------- partial runs and the structural invariant ---------- *)
Definition lu_upto (a : mat) (n t : nat) : lu_state :=
  fold_left (lu_column n) (seq 0 t) (lu_init a n).

Lemma lu_upto_full a n : lu a n = lu_upto a n n.
Proof. reflexivity. Qed.

Lemma lu_upto_S a n t : lu_upto a n (S t) = lu_column n (lu_upto a n t) t.
Proof. unfold lu_upto. rewrite seq_S, fold_left_app. reflexivity. Qed.

Definition Sinv (n : nat) (st : lu_state) : Prop :=
  wf n n (lu_a st) /\ length (lu_ri st) = n /\
  (forall i, i < n -> nth i (lu_ri st) O < n) /\
  (forall i i', i < n -> i' < n -> nth i (lu_ri st) O = nth i' (lu_ri st) O -> i = i').

Lemma Sinv_upto a n : wf n n a -> forall t, t <= n -> Sinv n (lu_upto a n t).
Proof.
  intros Hw. induction t; intros Ht.
  - unfold lu_upto, LuModel.lu_init, Sinv. simpl. split; [exact Hw|]. split; [|split].
    + apply seq_length.
    + intros i Hi. rewrite seq_nth; auto.
    + intros i i' Hi Hi'. rewrite !seq_nth; auto.
  - destruct (IHt ltac:(lia)) as (Hwa & Hl & Hrange & Hinj).
    rewrite lu_upto_S.
    destruct (lu_column_spec n (lu_upto a n t) t Hwa Hl ltac:(lia))
      as (bi & u & s & Hbi & Hw' & Hl' & Hri & _).
    split; [exact Hw'|]. split; [exact Hl'|]. split.
    + intros i Hi. rewrite Hri. apply Hrange. apply tr_lt; lia.
    + intros i i' Hi Hi'. rewrite !Hri. intros E. apply Hinj in E; try (apply tr_lt; lia).
      eapply tr_inj; eauto.
Qed.

(* ---------- the algebraic invariant ---------- *)
Definition LUrel (A0 W : nat -> nat -> K) (p : nat -> nat) (n j : nat) : Prop :=
  (forall i c, i < n -> c < j -> i <= c ->
     A0 (p i) c = sumf i (fun k => W i k * W k c) + W i c) /\
  (forall i c, i < n -> c < j -> c < i ->
     A0 (p i) c = sumf c (fun k => W i k * W k c) + W i c * W c c) /\
  (forall i c, i < n -> j <= c < n -> W i c = A0 (p i) c).

Lemma LUrel_step A0 W W' p p' n j bi (u s : nat -> K) :
  LUrel A0 W p n j -> j < n -> j <= bi < n ->
  (forall i, p' i = p (tr j bi i)) ->
  (forall i c, c <> j -> W' i c = W (tr j bi i) c) ->
  (forall i, i < j -> u i = W i j - sumf i (fun k => W i k * u k)) ->
  (forall i, j <= i < n -> s i = W i j - sumf j (fun k => W i k * u k)) ->
  (forall i, i < j -> W' i j = u i) ->
  W' j j = s bi ->
  (forall i, j < i < n -> W' i j = s (tr j bi i) * (1 / s bi)) ->
  W' j j <> 0 ->
  LUrel A0 W' p' n (S j).
Proof.
  intros (I1 & I2 & I3) Hj Hbi Hp Hc Hu Hs Hu' Hjj Hl Hnz.
  assert (Tlt : forall i, i < j -> tr j bi i = i) by (intros; apply tr_other; lia).
  assert (Tn : forall i, i < n -> tr j bi i < n) by (intros; apply tr_lt; lia).
  assert (Tge : forall i, j <= i -> j <= tr j bi i).
  { intros i Hi. unfold tr. destruct (i =? j); [lia|]. destruct (i =? bi); lia. }
  repeat split.
  - intros i c Hi Hc' Hic.
    destruct (Nat.eq_dec c j) as [->|Hcj].
    + destruct (Nat.eq_dec i j) as [->|Hij].
      * rewrite Hp, tr_l. rewrite <- I3 by lia. rewrite Hjj, (Hs bi) by lia.
        rewrite (sumf_ext K j (fun k => W' j k * W' k j) (fun k => W bi k * u k)).
        { ring. }
        intros k Hk. rewrite Hc by lia. rewrite tr_l. rewrite Hu' by auto. reflexivity.
      * assert (Hij' : i < j) by lia.
        rewrite Hp, Tlt by auto. rewrite <- I3 by lia. rewrite Hu' by auto.
        rewrite (Hu i Hij').
        rewrite (sumf_ext K i (fun k => W' i k * W' k j) (fun k => W i k * u k)).
        { ring. }
        intros k Hk. rewrite Hc by lia. rewrite Tlt by auto. rewrite Hu' by lia. reflexivity.
    + assert (Hcj' : c < j) by lia. assert (Hij : i < j) by lia.
      rewrite Hp, Tlt by auto. rewrite I1 by auto.
      rewrite Hc, Tlt by auto. f_equal.
      apply sumf_ext. intros k Hk. rewrite !Hc by lia. rewrite !Tlt by lia. reflexivity.
  - intros i c Hi Hc' Hic.
    destruct (Nat.eq_dec c j) as [->|Hcj].
    + rewrite Hp. rewrite <- I3 by (try (apply Tn; auto); lia).
      rewrite Hl by lia.
      assert (Hsb : s bi <> 0) by (rewrite <- Hjj; exact Hnz).
      rewrite Hjj.
      rewrite (sumf_ext K j (fun k => W' i k * W' k j) (fun k => W (tr j bi i) k * u k)).
      { pose proof (Hs (tr j bi i) (conj (Tge i ltac:(lia)) (Tn i Hi))) as E.
        rewrite E. field. exact Hsb. }
      intros k Hk. rewrite Hc by lia. rewrite Hu' by auto. reflexivity.
    + assert (Hcj' : c < j) by lia.
      rewrite Hp. rewrite I2; auto.
      * rewrite !Hc by auto. rewrite (Tlt c) by auto. f_equal.
        apply sumf_ext. intros k Hk. rewrite !Hc by lia. rewrite (Tlt k) by lia. reflexivity.
      * destruct (lt_dec i j); [rewrite Tlt; auto|]. pose proof (Tge i ltac:(lia)). lia.
  - intros i c Hi Hc'. rewrite Hc by lia. rewrite Hp. apply I3; auto. split; [lia|lia].
Qed.

Theorem lu_invariant a n : wf n n a -> forall t, t <= n ->
  (forall j, j < t -> mg (lu_a (lu_upto a n t)) j j <> 0) ->
  LUrel (mg a) (mg (lu_a (lu_upto a n t))) (fun i => nth i (lu_ri (lu_upto a n t)) O) n t.
Proof.
  intros Hw. induction t; intros Ht Hnz.
  - repeat split; try (intros; lia).
    intros i c Hi Hc. unfold lu_upto, LuModel.lu_init. simpl. rewrite seq_nth by auto. reflexivity.
  - destruct (Sinv_upto a n Hw t ltac:(lia)) as (Hwa & Hl & _).
    revert Hnz. rewrite lu_upto_S. intros Hnz.
    destruct (lu_column_spec n (lu_upto a n t) t Hwa Hl ltac:(lia))
      as (bi & u & s & Hbi & Hw' & Hl' & Hri & Hc & Hu & Hs & Hu' & Hjj & Hlow & _).
    apply (LUrel_step (mg a) (mg (lu_a (lu_upto a n t))) _
             (fun i => nth i (lu_ri (lu_upto a n t)) O) _ n t bi u s); auto; try lia.
    + apply IHt; [lia|].
      intros j Hj. specialize (Hnz j ltac:(lia)). rewrite Hc in Hnz by lia.
      rewrite tr_other in Hnz by lia. exact Hnz.
Qed.

End LuGenB.
