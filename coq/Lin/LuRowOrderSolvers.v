(* Row-order independence of minverse and mrdivide as coded (LuModel), every n: with the rows of A
   permuted (row i of a' = row sg i of a) and a decided pivot search, the run on a' produces the same
   factors (LuRowOrderProofs), and
     minverse a'  is  minverse a  with its COLUMNS permuted:  X'[i][j] = X[i][sg j]
     mrdivide b a' is mrdivide b a with its columns permuted: X'[i][c] = X[i][sg c]
   entry by entry, each entry computed by the same operations (A'^-1 = A^-1 P^-1, b / (P A) = (b / A) P^-1).
   The forward/back substitution equations ([col_solved], [row_solved] of LuGenC/D) determine the result:
   [col_solved_unique], [row_solved_unique] (no premise on the pivots: x / 0 is a value of the model). *)
Require Import List Arith Lia Bool Permutation.
Import ListNotations.
Require Import LV.Base.CField LV.Lin.MatL LV.Lin.LuModel.
Require Import LV.Lin.LuGenA LV.Lin.LuGenB LV.Lin.LuGenC LV.Lin.LuGenD LV.Lin.LuPivot LV.Lin.LuRowOrderProofs.
Local Open Scope cf_scope.

Section Solvers.
Variable K : CField.
Variable M : Type.
Variable nrm2 : K -> M.
Variable mulM : M -> M -> M.
Variable ltM : M -> M -> bool.
Variable zeroM : M.
Variable scale_of_max : M -> M.

Notation mat := (mat K).
Notation lu_a := (lu_a K M).
Notation lu_ri := (lu_ri K M).
Notation lu := (lu K M nrm2 mulM ltM zeroM scale_of_max).
Notation lu_upto := (lu_upto K M nrm2 mulM ltM zeroM scale_of_max).
Notation mrdivide := (mrdivide K M nrm2 mulM ltM zeroM scale_of_max).
Notation minverse := (minverse K M nrm2 mulM ltM zeroM scale_of_max).
Notation mg := (mget K).
Notation sumf := (@sumf K).
Notation run_decided := (run_decided K M nrm2 mulM ltM zeroM scale_of_max).

Lemma col_solved_unique (A A' : mat) rhs rhs' n j j' x x' :
  (forall i k, i < n -> k < n -> mg A' i k = mg A i k) ->
  (forall i, i < n -> rhs' i j' = rhs i j) ->
  col_solved K A rhs n j x -> col_solved K A' rhs' n j' x' ->
  forall i, i < n -> mg x' i j' = mg x i j.
Proof.
  intros HA Hr (y & Hy & Hx) (y' & Hy' & Hx').
  assert (Ey : forall m i, i < m -> i < n -> y' i = y i).
  { induction m; intros i Him Hin; [lia|].
    rewrite (Hy' i Hin), (Hy i Hin), Hr by auto. f_equal.
    apply sumf_ext. intros k Hk. rewrite HA by lia. rewrite IHm by lia. reflexivity. }
  assert (Ex : forall d i, i < n -> n - i <= d -> mg x' i j' = mg x i j).
  { induction d; intros i Hi Hd; [lia|].
    rewrite (Hx' i Hi), (Hx i Hi). rewrite (Ey (S i)) by lia. rewrite HA by auto. f_equal. f_equal.
    apply sumf_ext. intros k Hk. rewrite HA by lia. rewrite IHd by lia. reflexivity. }
  intros i Hi. apply (Ex n); lia.
Qed.

Lemma row_solved_unique (A A' b b' : mat) p p' n i i' x x' :
  (forall r k, r < n -> k < n -> mg A' r k = mg A r k) ->
  (forall j, j < n -> mg b' i' j = mg b i j) ->
  row_solved K A b p n i x -> row_solved K A' b' p' n i' x' ->
  forall j, j < n -> mg x' i' (p' j) = mg x i (p j).
Proof.
  intros HA Hb (z & Hz & Hx) (z' & Hz' & Hx').
  assert (Ez : forall m j, j < m -> j < n -> z' j = z j).
  { induction m; intros j Hjm Hjn; [lia|].
    rewrite (Hz' j Hjn), (Hz j Hjn), Hb by auto. rewrite HA by auto. f_equal. f_equal.
    apply sumf_ext. intros k Hk. rewrite HA by lia. rewrite IHm by lia. reflexivity. }
  assert (Ex : forall d j, j < n -> n - j <= d -> mg x' i' (p' j) = mg x i (p j)).
  { induction d; intros j Hj Hd; [lia|].
    rewrite (Hx' j Hj), (Hx j Hj). rewrite (Ez (S j)) by lia. f_equal.
    apply sumf_ext. intros k Hk. rewrite HA by lia. rewrite IHd by lia. reflexivity. }
  intros j Hj. apply (Ex n); lia.
Qed.

Hypothesis ltM_irrefl : forall x, ltM x x = false.
Hypothesis ltM_trans : forall x y z, ltM x y = true -> ltM y z = true -> ltM x z = true.

Section Run.
Variable n : nat.
Variables sg ts : nat -> nat.
Hypothesis sg_lt : forall i, i < n -> sg i < n.
Hypothesis ts_lt : forall i, i < n -> ts i < n.
Hypothesis ts_sg : forall i, i < n -> ts (sg i) = i.
Hypothesis sg_ts : forall i, i < n -> sg (ts i) = i.
Variables a a' : mat.
Hypothesis Hwa : wf n n a.
Hypothesis Hwa' : wf n n a'.
Hypothesis Hrows : forall i c, i < n -> c < n -> mg a' i c = mg a (sg i) c.
Hypothesis Hdec : run_decided a n.

Theorem minverse_row_order_independent : forall i j, i < n -> j < n ->
  mg (fst (minverse a' n)) i j = mg (fst (minverse a n)) i (sg j).
Proof.
  destruct (lu_row_order_independent K M nrm2 mulM ltM zeroM scale_of_max ltM_irrefl ltM_trans n sg ts
              sg_lt ts_lt ts_sg sg_ts a a' Hwa Hwa' Hrows Hdec) as (_ & Hri & HW).
  pose proof (Sinv_upto K M nrm2 mulM ltM zeroM scale_of_max a' n Hwa' n (le_n n)) as (_ & _ & Hr' & _).
  rewrite <- lu_upto_full in Hr'.
  intros i j Hi Hj. rewrite !(minverse_eq K M nrm2 mulM ltM zeroM scale_of_max). cbn [fst].
  destruct (solve_all_spec K (lu_a (lu a' n)) (fun i j => if nth i (lu_ri (lu a' n)) O =? j then 1 else 0)
              n n n (le_n n)) as (_ & Hc').
  destruct (solve_all_spec K (lu_a (lu a n)) (fun i j => if nth i (lu_ri (lu a n)) O =? j then 1 else 0)
              n n n (le_n n)) as (_ & Hc).
  cbv zeta in Hc, Hc'.
  refine (col_solved_unique _ _ _ _ n (sg j) j _ _ HW _ (Hc (sg j) (sg_lt j Hj)) (Hc' j Hj) i Hi).
  intros r Hr. cbv beta. rewrite <- (Hri r Hr).
  destruct (Nat.eqb_spec (nth r (lu_ri (lu a' n)) O) j) as [E|E];
  destruct (Nat.eqb_spec (sg (nth r (lu_ri (lu a' n)) O)) (sg j)) as [E'|E']; auto.
  - exfalso. apply E'. rewrite E. reflexivity.
  - exfalso. apply E. apply (f_equal ts) in E'. rewrite !ts_sg in E' by (auto; apply Hr'; auto). exact E'.
Qed.

Theorem mrdivide_row_order_independent m (b : mat) : forall i c, i < m -> c < n ->
  mg (fst (mrdivide b a' m n)) i c = mg (fst (mrdivide b a m n)) i (sg c).
Proof.
  destruct (lu_row_order_independent K M nrm2 mulM ltM zeroM scale_of_max ltM_irrefl ltM_trans n sg ts
              sg_lt ts_lt ts_sg sg_ts a a' Hwa Hwa' Hrows Hdec) as (_ & Hri & HW).
  pose proof (Sinv_upto K M nrm2 mulM ltM zeroM scale_of_max a' n Hwa' n (le_n n)) as HS'.
  pose proof (Sinv_upto K M nrm2 mulM ltM zeroM scale_of_max a n Hwa n (le_n n)) as HS.
  rewrite <- lu_upto_full in HS, HS'.
  pose proof HS as (_ & _ & Hr & Hinj). pose proof HS' as (_ & _ & Hr' & Hinj').
  intros i c Hi Hc. rewrite !(mrdivide_eq K M nrm2 mulM ltM zeroM scale_of_max). cbn [fst].
  destruct (rsolve_all_spec K (fun k => nth k (lu_ri (lu a' n)) O) n Hr' Hinj' (lu_a (lu a' n)) b m m (le_n m))
    as (_ & Hs').
  destruct (rsolve_all_spec K (fun k => nth k (lu_ri (lu a n)) O) n Hr Hinj (lu_a (lu a n)) b m m (le_n m))
    as (_ & Hs).
  cbv zeta in Hs, Hs'.
  destruct (Sinv_surj K M n _ HS' c Hc) as (j & Hj & Ej).
  rewrite <- Ej. rewrite (Hri j Hj).
  exact (row_solved_unique _ _ b b _ _ n i i _ _ HW (fun _ _ => eq_refl) (Hs i Hi) (Hs' i Hi) j Hj).
Qed.
End Run.
End Solvers.
