(* Generic-n correctness of the LU model, part A: list/matrix access lemmas and finite sums. *)
Require Import List Arith Lia Bool Permutation.
Import ListNotations.
Require Import LV.Base.CField LV.Lin.MatL.
Local Open Scope cf_scope.

Section UpdLemmas.
Context {A : Type}.

Lemma upd_length (l : list A) i v : length (upd l i v) = length l.
Proof. revert i; induction l; intros [|i]; simpl; auto. Qed.

Lemma nth_upd_eq (l : list A) i v d : i < length l -> nth i (upd l i v) d = v.
Proof.
  revert i; induction l; intros [|i] H; simpl in *; try lia; auto.
  apply IHl; lia.
Qed.

Lemma nth_upd_neq (l : list A) i i' v d : i <> i' -> nth i' (upd l i v) d = nth i' l d.
Proof.
  revert i i'; induction l; intros [|i] [|i'] H; simpl; auto; try lia.
Qed.

Lemma upd_ge (l : list A) i v : length l <= i -> upd l i v = l.
Proof.
  revert i; induction l; intros [|i] H; simpl in *; auto; try lia.
  f_equal. apply IHl. lia.
Qed.

Lemma Forall_upd (P : A -> Prop) l i v : Forall P l -> P v -> Forall P (upd l i v).
Proof.
  intros Hf Hv. revert i; induction Hf; intros [|i]; simpl; auto.
Qed.

Lemma nth_swap_rows (d : A) l i j k : i < length l -> j < length l ->
  nth k (swap_rows d l i j) d =
  if k =? j then nth i l d else if k =? i then nth j l d else nth k l d.
Proof.
  intros Hi Hj. unfold swap_rows.
  destruct (Nat.eqb_spec k j) as [->|Hkj].
  - apply nth_upd_eq. rewrite upd_length; auto.
  - rewrite nth_upd_neq by auto.
    destruct (Nat.eqb_spec k i) as [->|Hki].
    + apply nth_upd_eq; auto.
    + apply nth_upd_neq; auto.
Qed.

Lemma swap_rows_length (d : A) l i j : length (swap_rows d l i j) = length l.
Proof. unfold swap_rows. rewrite !upd_length. reflexivity. Qed.

Lemma nth_map_seq (g : nat -> A) n i d : i < n -> nth i (map g (seq 0 n)) d = g i.
Proof.
  intros H. rewrite (nth_indep _ d (g O)) by (rewrite map_length, seq_length; auto).
  rewrite map_nth. rewrite seq_nth; auto.
Qed.
End UpdLemmas.

(* transposition of a and b *)
Definition tr (a b i : nat) : nat := if i =? a then b else if i =? b then a else i.

Lemma tr_invol a b i : tr a b (tr a b i) = i.
Proof.
  unfold tr.
  destruct (Nat.eqb_spec i a); destruct (Nat.eqb_spec i b); subst;
  repeat (match goal with |- context [?x =? ?y] => destruct (Nat.eqb_spec x y) end); subst; auto; congruence.
Qed.

Lemma tr_lt a b i n : a < n -> b < n -> i < n -> tr a b i < n.
Proof.
  unfold tr; intros. destruct (i =? a); auto. destruct (i =? b); auto.
Qed.

Lemma tr_other a b i : i <> a -> i <> b -> tr a b i = i.
Proof.
  unfold tr; intros.
  destruct (Nat.eqb_spec i a); try congruence. destruct (Nat.eqb_spec i b); congruence.
Qed.

Lemma tr_l a b : tr a b a = b.
Proof. unfold tr. rewrite Nat.eqb_refl. reflexivity. Qed.

Lemma tr_r a b : tr a b b = a.
Proof. unfold tr. destruct (Nat.eqb_spec b a); auto. rewrite Nat.eqb_refl. reflexivity. Qed.

Lemma tr_same a i : tr a a i = i.
Proof. unfold tr. destruct (Nat.eqb_spec i a); auto. Qed.

Lemma tr_inj a b i i' : tr a b i = tr a b i' -> i = i'.
Proof. intros H. rewrite <- (tr_invol a b i), H. apply tr_invol. Qed.

Lemma nth_swap_rows_tr {A} (d : A) l bi j k : bi < length l -> j < length l ->
  nth k (swap_rows d l bi j) d = nth (tr j bi k) l d.
Proof. intros. rewrite nth_swap_rows by auto. unfold tr. destruct (k =? j); auto. destruct (k =? bi); auto. Qed.

Section Mat.
Variable K : CField.
Add Field KfA : (cth K).
Notation mat := (mat K).

Definition wf (r c : nat) (a : mat) : Prop :=
  length a = r /\ Forall (fun row => length row = c) a.

Lemma wf_row r c a i : wf r c a -> i < r -> length (mrow K a i) = c.
Proof.
  intros [Hl Hf] Hi. unfold mrow. rewrite Forall_forall in Hf. apply Hf. apply nth_In. lia.
Qed.

Lemma mget_mset_eq r c a i j v : wf r c a -> i < r -> j < c -> mget K (mset K a i j v) i j = v.
Proof.
  intros Hw Hi Hj. unfold mget, mset. unfold mrow at 1.
  rewrite nth_upd_eq by (destruct Hw; lia).
  apply nth_upd_eq. rewrite (wf_row r c); auto.
Qed.

Lemma mget_mset_neq a i j v i' j' : (i' <> i \/ j' <> j) ->
  mget K (mset K a i j v) i' j' = mget K a i' j'.
Proof.
  intros H. unfold mget, mset. unfold mrow at 1.
  destruct (Nat.eq_dec i i') as [<-|Hn].
  - destruct (lt_dec i (length a)).
    + rewrite nth_upd_eq by auto. apply nth_upd_neq. destruct H; congruence.
    + rewrite upd_ge by lia. reflexivity.
  - rewrite nth_upd_neq by auto. reflexivity.
Qed.

Lemma wf_mset r c a i j v : wf r c a -> wf r c (mset K a i j v).
Proof.
  intros Hw. destruct (lt_dec i r).
  - pose proof (wf_row r c a i Hw l) as Hr.
    destruct Hw as [Hl Hf]. split.
    + unfold mset. rewrite upd_length; auto.
    + unfold mset. apply Forall_upd; auto. rewrite upd_length. auto.
  - unfold mset. rewrite upd_ge; auto. destruct Hw; lia.
Qed.

Lemma wf_swap_rows r c a i j : wf r c a -> i < r -> j < r -> wf r c (swap_rows [] a i j).
Proof.
  intros Hw Hi Hj.
  pose proof (wf_row r c a i Hw Hi) as Hri. pose proof (wf_row r c a j Hw Hj) as Hrj.
  destruct Hw as [Hl Hf]. split.
  - rewrite swap_rows_length; auto.
  - unfold swap_rows. apply Forall_upd; auto. apply Forall_upd; auto.
Qed.

Lemma mget_swap_rows a bi j i c : bi < length a -> j < length a ->
  mget K (swap_rows [] a bi j) i c = mget K a (tr j bi i) c.
Proof.
  intros. unfold mget, mrow. rewrite nth_swap_rows_tr; auto.
Qed.

Lemma mget_mbuild r c f i j : i < r -> j < c -> mget K (mbuild K r c f) i j = f i j.
Proof.
  intros Hi Hj. unfold mget, mrow, mbuild.
  rewrite nth_map_seq by auto. rewrite nth_map_seq by auto. reflexivity.
Qed.

Lemma wf_mbuild r c f : wf r c (mbuild K r c f).
Proof.
  unfold mbuild; split.
  - rewrite map_length, seq_length; auto.
  - apply Forall_forall. intros x Hx. apply in_map_iff in Hx. destruct Hx as (i & <- & _).
    rewrite map_length, seq_length; auto.
Qed.

Lemma wf_mzero r c : wf r c (mzero K r c).
Proof.
  unfold mzero; split.
  - apply repeat_length.
  - apply Forall_forall. intros x Hx. apply repeat_spec in Hx. subst. apply repeat_length.
Qed.

(* ---------- finite sums ---------- *)
Fixpoint sumf (n : nat) (f : nat -> K) : K :=
  match n with O => 0 | S n' => sumf n' f + f n' end.

Lemma fold_add_seq len : forall a (f : nat -> K) init,
  fold_left (fun acc k => acc + f k) (seq a len) init = init + sumf len (fun k => f (a + k)%nat).
Proof.
  induction len; intros a f init.
  - simpl. ring.
  - rewrite seq_S, fold_left_app. simpl. rewrite IHlen. ring.
Qed.

Lemma fold_sub_seq len : forall a (g : nat -> K) init,
  fold_left (fun s k => s - g k) (seq a len) init = init - sumf len (fun k => g (a + k)%nat).
Proof.
  induction len; intros a g init.
  - simpl. ring.
  - rewrite seq_S, fold_left_app. simpl. rewrite IHlen. ring.
Qed.

Lemma sumf_ext n f g : (forall k, k < n -> f k = g k) -> sumf n f = sumf n g.
Proof.
  induction n; intros H; simpl; auto.
  rewrite IHn by (intros; apply H; lia). rewrite H by lia. reflexivity.
Qed.

Lemma msum_sumf n f : msum K n f = sumf n f.
Proof.
  unfold msum. rewrite fold_add_seq. simpl.
  rewrite (sumf_ext n _ f) by reflexivity. ring.
Qed.

Lemma sumf_zero n f : (forall k, k < n -> f k = 0) -> sumf n f = 0.
Proof.
  induction n; intros H; simpl; auto.
  rewrite IHn by (intros; apply H; lia). rewrite H by lia. ring.
Qed.

Lemma sumf_add n f g : sumf n (fun k => f k + g k) = sumf n f + sumf n g.
Proof. induction n; simpl; [ring|]. rewrite IHn. ring. Qed.

Lemma sumf_scale_l n c f : c * sumf n f = sumf n (fun k => c * f k).
Proof. induction n; simpl; [ring|]. rewrite <- IHn. ring. Qed.

Lemma sumf_scale_r n c f : sumf n f * c = sumf n (fun k => f k * c).
Proof. induction n; simpl; [ring|]. rewrite <- IHn. ring. Qed.

Lemma sumf_exchange n m (f : nat -> nat -> K) :
  sumf n (fun i => sumf m (fun j => f i j)) = sumf m (fun j => sumf n (fun i => f i j)).
Proof.
  induction n; simpl.
  - symmetry. apply sumf_zero. auto.
  - rewrite IHn. rewrite <- sumf_add. reflexivity.
Qed.

Lemma sumf_split a b f : sumf (a + b)%nat f = sumf a f + sumf b (fun k => f (a + k)%nat).
Proof.
  induction b.
  - rewrite Nat.add_0_r. simpl. ring.
  - rewrite Nat.add_succ_r. simpl. rewrite IHb. ring.
Qed.

(* sum restricted by an upper cut *)
Lemma sumf_cut_lt n i f : i <= n ->
  sumf n (fun k => if k <? i then f k else 0) = sumf i f.
Proof.
  intros H. replace n with (i + (n - i))%nat by lia. rewrite sumf_split.
  match goal with |- ?a + ?b = _ => assert (E1 : a = sumf i f); [|assert (E2 : b = 0)] end.
  - apply sumf_ext. intros k Hk. destruct (Nat.ltb_spec k i); auto; lia.
  - apply sumf_zero. intros k _. destruct (Nat.ltb_spec (i + k) i); auto; lia.
  - rewrite E1, E2. ring.
Qed.

Lemma sumf_single n i f : i < n ->
  sumf n (fun k => if k =? i then f k else 0) = f i.
Proof.
  intros H. replace n with (S i + (n - S i))%nat by lia. rewrite sumf_split. cbn [sumf].
  rewrite Nat.eqb_refl.
  match goal with |- ?a + _ + ?b = _ => assert (E1 : a = 0); [|assert (E2 : b = 0)] end.
  - apply sumf_zero. intros k Hk. destruct (Nat.eqb_spec k i); auto; lia.
  - apply sumf_zero. intros k _. destruct (Nat.eqb_spec (S i + k) i); auto; lia.
  - rewrite E1, E2. ring.
Qed.

(* sum restricted from below: sum_{i <= k < n} *)
Lemma sumf_cut_ge n i f : i <= n ->
  sumf n (fun k => if i <=? k then f k else 0) = sumf (n - i) (fun k => f (i + k)%nat).
Proof.
  intros H. replace n with (i + (n - i))%nat at 1 by lia. rewrite sumf_split.
  match goal with |- ?a + ?b = ?c => assert (E1 : a = 0); [|assert (E2 : b = c)] end.
  - apply sumf_zero. intros k Hk. destruct (Nat.leb_spec i k); auto; lia.
  - apply sumf_ext. intros k _. destruct (Nat.leb_spec i (i + k)); auto; lia.
  - rewrite E1, E2. ring.
Qed.

Lemma mget_mmul r n c a b i k : i < r -> k < c ->
  mget K (mmul K r n c a b) i k = sumf n (fun t => mget K a i t * mget K b t k).
Proof.
  intros. unfold mmul. rewrite mget_mbuild by auto. apply msum_sumf.
Qed.

(* sums over lists, for reindexing along a permutation *)
Definition lsum (l : list K) : K := fold_right (fun x s => x + s) 0 l.

Lemma lsum_app l1 l2 : lsum (l1 ++ l2) = lsum l1 + lsum l2.
Proof. induction l1; simpl; [ring|]. rewrite IHl1. ring. Qed.

Lemma lsum_perm l l' : Permutation l l' -> lsum l = lsum l'.
Proof.
  induction 1; simpl; auto; try ring.
  - rewrite IHPermutation; reflexivity.
  - congruence.
Qed.

Lemma sumf_lsum n f : sumf n f = lsum (map f (seq 0 n)).
Proof.
  induction n; simpl; auto.
  change (sumf n f + f n = lsum (map f (seq 0 (S n)))).
  rewrite seq_S, map_app, lsum_app, <- IHn. simpl. ring.
Qed.

Lemma sumf_reindex n (p : list nat) f : Permutation p (seq 0 n) ->
  sumf n (fun k => f (nth k p O)) = sumf n f.
Proof.
  intros Hp. rewrite !sumf_lsum. apply lsum_perm.
  assert (Hl : length p = n) by (apply Permutation_length in Hp; rewrite seq_length in Hp; auto).
  replace (map (fun k => f (nth k p O)) (seq 0 n)) with (map f p).
  - apply Permutation_map. exact Hp.
  - apply nth_ext with (d := f O) (d' := f O).
    + rewrite !map_length, seq_length; auto.
    + intros i Hi. rewrite map_length in Hi.
      rewrite map_nth.
      rewrite (nth_indep _ (f O) ((fun k => f (nth k p O)) O)) by (rewrite map_length, seq_length; lia).
      rewrite (map_nth (fun k => f (nth k p O))). rewrite seq_nth by lia. reflexivity.
Qed.

(* ---------- generic folds of single-entry writes ---------- *)
Section FoldMset.
Variables (pr pc : nat -> nat) (g : mat -> nat -> K).
Definition wstep (a : mat) (t : nat) : mat := mset K a (pr t) (pc t) (g a t).

Lemma fold_wstep_wf r c l : forall a, wf r c a -> wf r c (fold_left wstep l a).
Proof. induction l; intros a0 H; simpl; auto. apply IHl. apply wf_mset; auto. Qed.

Lemma fold_wstep_other l i j : (forall t, In t l -> i <> pr t \/ j <> pc t) ->
  forall a, mget K (fold_left wstep l a) i j = mget K a i j.
Proof.
  induction l; intros H a0; simpl; auto.
  rewrite IHl by (intros; apply H; right; auto).
  apply mget_mset_neq. apply H. left; auto.
Qed.

Lemma fold_wstep_prefix l1 l2 i j a : (forall t, In t l2 -> i <> pr t \/ j <> pc t) ->
  mget K (fold_left wstep (l1 ++ l2) a) i j = mget K (fold_left wstep l1 a) i j.
Proof. intros H. rewrite fold_left_app. apply fold_wstep_other; auto. Qed.

Lemma fold_wstep_at r c l1 t0 l2 a : wf r c a -> pr t0 < r -> pc t0 < c ->
  (forall t, In t l2 -> pr t0 <> pr t \/ pc t0 <> pc t) ->
  mget K (fold_left wstep (l1 ++ t0 :: l2) a) (pr t0) (pc t0) = g (fold_left wstep l1 a) t0.
Proof.
  intros Hw Hr Hc H. rewrite fold_left_app. simpl.
  rewrite fold_wstep_other by auto. unfold wstep at 1.
  apply (mget_mset_eq r c); auto. apply fold_wstep_wf; auto.
Qed.
End FoldMset.

Lemma seq_split_at s t i : s <= i < s + t ->
  seq s t = seq s (i - s) ++ i :: seq (S i) (s + t - S i).
Proof.
  intros H. replace t with ((i - s) + S (s + t - S i))%nat at 1 by lia.
  rewrite seq_app. f_equal. replace (s + (i - s))%nat with i by lia. reflexivity.
Qed.

Lemma rev_seq_split_at n i : i < n ->
  rev (seq 0 n) = rev (seq (S i) (n - S i)) ++ i :: rev (seq 0 i).
Proof.
  intros H. rewrite (seq_split_at 0 n i) by lia.
  rewrite rev_app_distr. simpl. rewrite <- app_assoc. simpl.
  replace (i - 0)%nat with i by lia. replace (0 + n - S i)%nat with (n - S i)%nat by lia. reflexivity.
Qed.

End Mat.

Arguments wf {K}.
Arguments sumf {K}.
