(* Executable model of the Householder QR code of libvna as coded (property C19):
     src/vnacommon_qrd.c      _vnacommon_qrd      the sweep: d[], the v_k vectors, R above the diagonal
     src/vnacommon_qrsolve.c  _vnacommon_qrsolve  reflections applied to B, back substitution, rank
     src/vnacommon_qr.c       _vnacommon_qr       only its R matrix and its rank rule (same rule)
   over an abstract field with conjugation.  What the field cannot compute is a Section variable:
     nrm   : K -> K     sqrt() of a non-negative real (applied to sums of squared moduli only)
     phase : K -> K     cexp(I * carg(x)), the unit-modulus factor of x (1 for x = 0)
     isz   : K -> bool  x == 0.0
   No law about them is assumed here; QrProofs.v states, per step of a run, the instances of
       nrm s * nrm s = s,  cj (nrm s) = nrm s,  phase x * cj (phase x) = 1,
       cj (phase x) * x = nrm (x * cj x)
   that the theorems use, and QrQI.v checks those instances by computation for a concrete run.

   The C loops update the array in place.  A step for diagonal k writes column k (rows >= k) and the
   block (rows >= k, columns > k); every cell written in the block is read only before its own write
   (temp is accumulated for the whole column first), so the step is rendered as one [mbuild] from the
   previous array with the C expressions entry by entry and the C summation order.

   Binary64 outcome modelled explicitly (like LuPartial): when the column under the diagonal
   (diagonal included) is exactly zero, alpha = -1 * sqrt(0) = -0, A(k,k) -= alpha is 0,
   norm = sqrt(0) = 0 and A(row,k) /= norm is 0/0 = NaN; every later value derived from that column
   is NaN: d[k] = 0 is stored, d[k+1..] are NaN, and neither is counted by the rank rule
   `isnormal(cabs(d[i])) && d[i] != 0.0`.  [qr_nan = Some k] records that stop; [qr_a], [qr_d] are
   then the last finite values (d includes d[k]).  Definitions only; proofs in QrProofs.v. *)
Require Import List Arith Bool.
Import ListNotations.
Require Import LV.Base.CField LV.Lin.MatL.
Local Open Scope cf_scope.

Section Qr.
Variable K : CField.
Variable nrm : K -> K.
Variable phase : K -> K.
Variable isz : K -> bool.

Notation mat := (mat K).

(* _vnacommon_cabs2: re*re + im*im, as an element of the field *)
Definition cabs2 (z : K) : K := z * cj z.

Record qr_state := QrS { qr_a : mat; qr_d : list K; qr_nan : option nat }.

(* subdot: for (row = diagonal + 1; row < rows; ++row) subdot += cabs2(A(row, diagonal)) *)
Definition qr_subdot (m : nat) (a : mat) (k : nat) : K :=
  fold_left (fun s row => s + cabs2 (mget K a row k)) (seq (S k) (m - S k)) 0.

(* alpha = -cexp(I * carg(A(k,k))) * sqrt(cabs2(A(k,k)) + subdot) *)
Definition qr_alpha (m : nat) (a : mat) (k : nat) : K :=
  (- phase (mget K a k k)) * nrm (cabs2 (mget K a k k) + qr_subdot m a k).

(* norm = sqrt(cabs2(A(k,k) - alpha) + subdot) *)
Definition qr_norm (m : nat) (a : mat) (k : nat) : K :=
  nrm (cabs2 (mget K a k k - qr_alpha m a k) + qr_subdot m a k).

(* the column after  A(k,k) -= alpha;  A(row,k) /= norm  (row >= k; other rows are not touched) *)
Definition qr_v (m : nat) (a : mat) (k : nat) : list K :=
  map (fun row => (if Nat.eqb row k then mget K a k k - qr_alpha m a k else mget K a row k) / qr_norm m a k)
      (seq 0 m).

(* temp for one later column: for (row = k; row < rows; ++row) temp += conj(A(row,k)) * A(row,column) *)
Definition qr_temp (m : nat) (a : mat) (k : nat) (v : list K) (col : nat) : K :=
  fold_left (fun t row => t + cj (nth row v 0) * mget K a row col) (seq k (m - k)) 0.

Definition qrd_step (m n : nat) (st : qr_state) (k : nat) : qr_state :=
  match qr_nan st with
  | Some _ => st
  | None =>
    let a := qr_a st in
    let alpha := qr_alpha m a k in
    if isz (qr_norm m a k) then QrS a (qr_d st ++ [alpha]) (Some k)
    else
      let v := qr_v m a k in
      let temp := map (qr_temp m a k v) (seq 0 n) in
      let a' := mbuild K m n (fun i j =>
                  if (k <=? i) && (k <=? j) then
                    if Nat.eqb j k then nth i v 0
                    else mget K a i j - two * nth j temp 0 * nth i v 0   (* A(row,column) -= 2.0 * temp * A(row,k) *)
                  else mget K a i j) in
      QrS a' (qr_d st ++ [alpha]) None
  end.

(* the state after the first [cnt] diagonals; _vnacommon_qrd is [qrd m n a = qrd_upto m n a (min m n)] *)
Definition qrd_upto (m n : nat) (a : mat) (cnt : nat) : qr_state :=
  fold_left (qrd_step m n) (seq 0 cnt) (QrS a [] None).
Definition qrd (m n : nat) (a : mat) : qr_state := qrd_upto m n a (Nat.min m n).

(* the rank rule of _vnacommon_qr and _vnacommon_qrsolve: count the non-zero normal diagonal
   elements (the NaN elements after a stop are not in [qr_d]) *)
Definition qr_rank (st : qr_state) : nat := length (filter (fun x => negb (isz x)) (qr_d st)).

(* the R matrix formed by _vnacommon_qr: d on the diagonal, the working array above it, 0 below *)
Definition qr_R (m n : nat) (st : qr_state) : mat :=
  mbuild K m n (fun i j => if Nat.eqb i j then nth i (qr_d st) 0
                           else if i <? j then mget K (qr_a st) i j else 0).

(* one reflection applied to one column of B (a list of m values):
     for (j = i; j < m; ++j) s += conj(A(j,i)) * B(j,k);   for (j = i; j < m; ++j) B(j,k) -= 2 * s * A(j,i) *)
Definition qr_reflect (m : nat) (a : mat) (i : nat) (bc : list K) : list K :=
  let s := fold_left (fun s j => s + cj (mget K a j i) * nth j bc 0) (seq i (m - i)) 0 in
  map (fun j => if i <=? j then nth j bc 0 - two * s * mget K a j i else nth j bc 0) (seq 0 m).

Definition qr_reflect_all (m dg : nat) (a : mat) (bc : list K) : list K :=
  fold_left (fun bc i => qr_reflect m a i bc) (seq 0 dg) bc.

(* back substitution, rows dg-1 down to 0; [qr_back ... cnt] is the list x_(dg-cnt) .. x_(dg-1):
     s = sum_{j = i+1 .. dg-1} A(i,j) * X(j);   X(i) = (B(i) - s) / d[i] *)
Fixpoint qr_back (dg : nat) (a : mat) (d c : list K) (cnt : nat) : list K :=
  match cnt with
  | O => []
  | S cnt' =>
    let xs := qr_back dg a d c cnt' in
    let i := (dg - cnt)%nat in
    let s := fold_left (fun s t => s + mget K a i (S i + t)%nat * nth t xs 0) (seq 0 cnt') 0 in
    ((nth i c 0 - s) / nth i d 0) :: xs
  end.

Definition mcol (m : nat) (b : mat) (k : nat) : list K := map (fun i => mget K b i k) (seq 0 m).

(* _vnacommon_qrsolve: (X as an n x o matrix or None = the output holds non-finite values,
   the array B after the reflections, the returned rank).  The excess unknowns of an
   under-determined system (n > min m n) are set to zero as in the C code. *)
Definition qrsolve (m n o : nat) (a b : mat) : option mat * mat * nat :=
  let dg := Nat.min m n in
  let st := qrd m n a in
  let cols := map (fun k => qr_reflect_all m dg (qr_a st) (mcol m b k)) (seq 0 o) in
  let xcols := map (fun c => qr_back dg (qr_a st) (qr_d st) c dg ++ repeat 0 (n - dg)%nat) cols in
  let x := mbuild K n o (fun i k => nth i (nth k xcols []) 0) in
  let b' := mbuild K m o (fun i k => nth i (nth k cols []) 0) in
  let finite := match qr_nan st with Some _ => false | None => forallb (fun x => negb (isz x)) (qr_d st) end in
  (if finite then Some x else None, b', qr_rank st).
End Qr.
