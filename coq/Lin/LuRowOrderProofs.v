(* Row-order independence of the LU model with scaled partial pivoting as coded (LuModel.lu), every n.

   a' is a with its rows permuted: row i of a' is row (sg i) of a (sg a bijection of [0,n), ts its
   inverse).  If at every column t of the run on a the pivot search is DECIDED, i.e. one candidate row has
   a metric strictly larger than every other candidate (and than the initial best_value 0, unless the
   column is the last one, where there is a single candidate), then the run on a' chooses at every column
   the same ORIGINAL row, and the two runs produce the same working array (the same U and the same L
   multipliers, entry by entry), the same pivot sequence named by original rows, and mldivide returns the
   same solution, computed by the same operations -- not merely the same exact solution by uniqueness.
   Only irreflexivity and transitivity of the comparison are used (no premise that pivots are nonzero).
   The premise [run_decided] (a strict maximiser at every column) is what "no two candidate metrics tie"
   gives for a strict weak order whose metrics are not below 0 (at most one candidate is then not above 0);
   that implication is NOT proved here, the theorems take [run_decided] itself as premise.
   Not covered: mrdivide / minverse under row permutation (the permuted system is a different product
   there), the determinant (it changes sign with the permutation: lu_d = det by LuDetProofs). *)
Require Import List Arith Lia Bool Permutation.
Import ListNotations.
Require Import LV.Base.CField LV.Lin.MatL LV.Lin.LuModel.
Require Import LV.Lin.LuGenA LV.Lin.LuGenB LV.Lin.LuGenC LV.Lin.LuGenD LV.Lin.LuPivot.
Local Open Scope cf_scope.

Section RowOrder.
Variable K : CField.
Variable M : Type.
Variable nrm2 : K -> M.
Variable mulM : M -> M -> M.
Variable ltM : M -> M -> bool.
Variable zeroM : M.
Variable scale_of_max : M -> M.
Add Field KfRO : (cth K).

Notation mat := (mat K).
Notation lu_state := (lu_state K M).
Notation lu_a := (lu_a K M).
Notation lu_ri := (lu_ri K M).
Notation lu_rs := (lu_rs K M).
Notation lu_pivots := (lu_pivots K M).
Notation lu_column := (lu_column K M nrm2 mulM ltM zeroM).
Notation lu_init := (lu_init K M nrm2 ltM zeroM scale_of_max).
Notation lu := (lu K M nrm2 mulM ltM zeroM scale_of_max).
Notation lu_upto := (lu_upto K M nrm2 mulM ltM zeroM scale_of_max).
Notation mldivide := (mldivide K M nrm2 mulM ltM zeroM scale_of_max).
Notation mg := (mget K).
Notation sumf := (@sumf K).
Notation col_bi := (col_bi K M nrm2 mulM ltM zeroM).
Notation cand_s := (cand_s K M).
Notation cand_metric := (cand_metric K M nrm2 mulM zeroM).
Notation Sinv := (Sinv K M).
Notation lu_upto_S := (lu_upto_S K M nrm2 mulM ltM zeroM scale_of_max).

(* the pivot search of column t is decided: a strict maximiser i0 exists *)
Definition col_decided (n : nat) (st : lu_state) (t : nat) : Prop :=
  exists i0, t <= i0 < n /\
    (forall i, t <= i < n -> i <> i0 -> ltM (cand_metric n st t i) (cand_metric n st t i0) = true) /\
    (t = (n - 1)%nat \/ ltM zeroM (cand_metric n st t i0) = true).

Definition run_decided (a : mat) (n : nat) : Prop :=
  forall t, t < n -> col_decided n (lu_upto a n t) t.

Hypothesis ltM_irrefl : forall x, ltM x x = false.
Hypothesis ltM_trans : forall x y z, ltM x y = true -> ltM y z = true -> ltM x z = true.

Lemma decided_bi n st t i0 : wf n n (lu_a st) -> t < n -> t <= i0 < n ->
  (forall i, t <= i < n -> i <> i0 -> ltM (cand_metric n st t i) (cand_metric n st t i0) = true) ->
  (t = (n - 1)%nat \/ ltM zeroM (cand_metric n st t i0) = true) ->
  col_bi n st t = i0.
Proof.
  intros Hw Ht Hi0 Hmax Hpos.
  rewrite (col_bi_sel K M nrm2 mulM ltM zeroM n st t Hw Ht).
  destruct (sel_max M ltM zeroM ltM_irrefl ltM_trans (cand_metric n st t) (seq t (n - t)) t) as (H1 & H2).
  cbv zeta in H1, H2.
  set (r := sel M ltM (cand_metric n st t) (seq t (n - t)) t zeroM) in *.
  assert (Hin : In i0 (seq t (n - t))) by (apply in_seq; lia).
  destruct H2 as [(Hz & Er)|(Hr & Hv & _)].
  - rewrite Er. cbn [fst]. destruct Hpos as [E|Hp]; [lia|].
    rewrite (Hz i0 Hin) in Hp. discriminate.
  - destruct (Nat.eq_dec (fst r) i0) as [E|Hne]; [exact E|]. exfalso.
    apply in_seq in Hr. pose proof (Hmax (fst r) ltac:(lia) Hne) as X.
    rewrite <- Hv in X. rewrite (H1 i0 Hin) in X. discriminate.
Qed.

(* the row scale of the rows below the diagonal follows its row through the exchange *)
Lemma rs_step n st t i : length (lu_rs st) = n -> t < n -> t < i < n ->
  nth i (lu_rs (lu_column n st t)) zeroM = nth (tr t (col_bi n st t) i) (lu_rs st) zeroM.
Proof.
  intros Hl Ht Hi. rewrite (lu_column_rs K M nrm2 mulM ltM zeroM).
  pose proof (col_bi_range K M nrm2 mulM ltM zeroM n st t Ht) as Hbi.
  destruct (Nat.eqb_spec (col_bi n st t) t) as [E|E]; cbn [negb].
  - rewrite E, tr_same. reflexivity.
  - destruct (Nat.eq_dec i (col_bi n st t)) as [->|Hne].
    + rewrite nth_upd_eq by lia. rewrite tr_r. reflexivity.
    + rewrite nth_upd_neq by auto. rewrite tr_other by lia. reflexivity.
Qed.

Lemma rs_length_step n st t : length (lu_rs st) = n -> length (lu_rs (lu_column n st t)) = n.
Proof.
  intros Hl. rewrite (lu_column_rs K M nrm2 mulM ltM zeroM).
  match goal with |- context [if ?b then _ else _] => destruct b end; rewrite ?upd_length; auto.
Qed.

Section Run.
Variable n : nat.
Variables sg ts : nat -> nat.
Hypothesis sg_lt : forall i, i < n -> sg i < n.
Hypothesis ts_lt : forall i, i < n -> ts i < n.
Hypothesis ts_sg : forall i, i < n -> ts (sg i) = i.
Hypothesis sg_ts : forall i, i < n -> sg (ts i) = i.

(* st: run on a; st': run on the permuted matrix; pi: position in st of the row at position i of st' *)
Definition RO (t : nat) (st st' : lu_state) : Prop :=
  Sinv n st /\ Sinv n st' /\ length (lu_rs st) = n /\ length (lu_rs st') = n /\
  map sg (lu_pivots st') = lu_pivots st /\
  exists pi rho : nat -> nat,
    (forall i, i < n -> pi i < n) /\ (forall i, i < n -> rho i < n) /\
    (forall i, i < n -> rho (pi i) = i) /\ (forall i, i < n -> pi (rho i) = i) /\
    (forall i, i < t -> pi i = i) /\
    (forall i c, i < n -> c < n -> mg (lu_a st') i c = mg (lu_a st) (pi i) c) /\
    (forall i, i < n -> sg (nth i (lu_ri st') O) = nth (pi i) (lu_ri st) O) /\
    (forall i, t <= i < n -> nth i (lu_rs st') zeroM = nth (pi i) (lu_rs st) zeroM).

Lemma bij_ge (pi rho : nat -> nat) t :
  (forall i, i < n -> pi i < n) -> (forall i, i < n -> rho (pi i) = i) ->
  (forall i, i < t -> pi i = i) -> t <= n ->
  forall i, t <= i < n -> t <= pi i.
Proof.
  intros Hlt Hinv Hfix Ht i Hi. destruct (le_lt_dec t (pi i)) as [|Hlt']; auto. exfalso.
  pose proof (Hfix (pi i) Hlt') as E. apply (f_equal rho) in E.
  rewrite (Hinv i) in E by lia. rewrite (Hinv (pi i)) in E by lia. lia.
Qed.

Theorem row_order_step t st st' : RO t st st' -> t < n -> col_decided n st t ->
  sg (nth t (lu_ri (lu_column n st' t)) O) = nth t (lu_ri (lu_column n st t)) O /\
  RO (S t) (lu_column n st t) (lu_column n st' t).
Proof.
  intros (HS & HS' & Hlr & Hlr' & Hpv & pi & rho & Hpl & Hrl & Hrp & Hpr & Hfix & HW & Hri & Hrs) Ht
         (i0 & Hi0 & Hmax & Hpos).
  pose proof HS as (Hw & Hl & Hrange & Hinj). pose proof HS' as (Hw' & Hl' & Hrange' & Hinj').
  destruct (lu_column_spec_bi K M nrm2 mulM ltM zeroM n st t Hw Hl Ht)
    as (Hbi & Hw1 & Hl1 & Hri1 & Hc1 & Hu & Hs & Hu1 & Hjj1 & Hlow1 & _ & Hp1 & _).
  destruct (lu_column_spec_bi K M nrm2 mulM ltM zeroM n st' t Hw' Hl' Ht)
    as (Hbi' & Hw1' & Hl1' & Hri1' & Hc1' & Hu' & Hs' & Hu1' & Hjj1' & Hlow1' & _ & Hp1' & _).
  assert (Hpge : forall i, t <= i < n -> t <= pi i) by (apply (bij_ge pi rho t); auto; lia).
  assert (Hrfix : forall i, i < t -> rho i = i).
  { intros i Hi. rewrite <- (Hfix i Hi) at 1. apply Hrp. lia. }
  assert (Hrge : forall i, t <= i < n -> t <= rho i) by (apply (bij_ge rho pi t); auto; lia).
  assert (Hu_eq : forall m i, i < m -> i < t ->
            mg (phase1 K t (lu_a st')) i t = mg (phase1 K t (lu_a st)) i t).
  { induction m; intros i Him Hit; [lia|].
    rewrite (Hu' i Hit), (Hu i Hit). rewrite HW by lia. rewrite (Hfix i Hit). f_equal.
    apply sumf_ext. intros k Hk. rewrite HW by lia. rewrite (Hfix i Hit). rewrite IHm by lia. reflexivity. }
  assert (Hs_eq : forall i, t <= i < n -> cand_s n st' t i = cand_s n st t (pi i)).
  { intros i Hi. rewrite (Hs' i Hi). rewrite (Hs (pi i)) by (split; [apply Hpge; auto|apply Hpl; lia]).
    rewrite HW by lia. f_equal.
    apply sumf_ext. intros k Hk. rewrite HW by lia. rewrite (Hu_eq (S k)) by lia. reflexivity. }
  assert (Hmet : forall i, t <= i < n -> cand_metric n st' t i = cand_metric n st t (pi i)).
  { intros i Hi. unfold LuPivot.cand_metric. rewrite Hs_eq, Hrs by auto. reflexivity. }
  assert (Ebi : col_bi n st t = i0) by (apply decided_bi; auto).
  assert (Hb0 : t <= rho i0 < n) by (split; [apply Hrge; auto|apply Hrl; lia]).
  assert (Ebi' : col_bi n st' t = rho i0).
  { apply decided_bi; auto.
    - intros i Hi Hne. rewrite (Hmet i Hi), (Hmet (rho i0) Hb0).
      rewrite Hpr by lia. apply Hmax.
      + split; [apply Hpge; auto|apply Hpl; lia].
      + intros E. apply Hne. rewrite <- E. symmetry. apply Hrp. lia.
    - destruct Hpos as [E|Hp]; [left; exact E|right].
      rewrite (Hmet (rho i0) Hb0). rewrite Hpr by lia. exact Hp. }
  rewrite Ebi in *. rewrite Ebi' in *.
  set (b' := rho i0) in *.
  assert (Hb' : t <= b' < n) by exact Hb0.
  assert (Hpb : pi b' = i0) by (apply Hpr; lia).
  set (pi1 := fun i => tr t i0 (pi (tr t b' i))).
  set (rho1 := fun i => tr t b' (rho (tr t i0 i))).
  assert (Tn : forall i, i < n -> tr t i0 i < n) by (intros; apply tr_lt; lia).
  assert (Tn' : forall i, i < n -> tr t b' i < n) by (intros; apply tr_lt; lia).
  assert (Tlt : forall i, i < t -> tr t i0 i = i) by (intros; apply tr_other; lia).
  assert (Tlt' : forall i, i < t -> tr t b' i = i) by (intros; apply tr_other; lia).
  assert (Tge' : forall i, t <= i -> t <= tr t b' i).
  { intros i Hi. unfold tr. destruct (i =? t); [lia|]. destruct (i =? b'); lia. }
  assert (Tin' : forall i, t <= i < n -> t <= tr t b' i < n).
  { intros i Hi. split; [apply Tge'; lia|apply Tn'; lia]. }
  assert (P1l : forall i, i < n -> pi1 i < n) by (intros; unfold pi1; auto).
  assert (R1l : forall i, i < n -> rho1 i < n) by (intros; unfold rho1; auto).
  assert (R1P1 : forall i, i < n -> rho1 (pi1 i) = i).
  { intros i Hi. unfold rho1, pi1. rewrite tr_invol. rewrite Hrp by auto. apply tr_invol. }
  assert (P1R1 : forall i, i < n -> pi1 (rho1 i) = i).
  { intros i Hi. unfold rho1, pi1. rewrite tr_invol. rewrite Hpr by auto. apply tr_invol. }
  assert (P1fix : forall i, i < S t -> pi1 i = i).
  { intros i Hi. unfold pi1. destruct (Nat.eq_dec i t) as [->|Hne].
    - rewrite tr_l, Hpb. apply tr_r.
    - rewrite Tlt' by lia. rewrite Hfix by lia. apply Tlt. lia. }
  assert (P1gt : forall i, t < i < n -> t < pi1 i).
  { intros i Hi. pose proof (bij_ge pi1 rho1 (S t) P1l R1P1 P1fix ltac:(lia) i ltac:(lia)). lia. }
  assert (Etr : forall i, tr t i0 (pi1 i) = pi (tr t b' i)) by (intros; unfold pi1; apply tr_invol).
  assert (Hri_new : forall i, i < n ->
            sg (nth i (lu_ri (lu_column n st' t)) O) = nth (pi1 i) (lu_ri (lu_column n st t)) O).
  { intros i Hi. rewrite Hri1', Hri1, Etr. apply Hri. auto. }
  split.
  { rewrite Hri_new by lia. rewrite P1fix by lia. reflexivity. }
  split; [apply Sinv_step; auto|]. split; [apply Sinv_step; auto|].
  split; [apply rs_length_step; auto|]. split; [apply rs_length_step; auto|].
  split.
  { rewrite Hp1', Hp1, map_app, Hpv. cbn [map]. rewrite Hri_new by lia. rewrite P1fix by lia. reflexivity. }
  exists pi1, rho1.
  split; [exact P1l|]. split; [exact R1l|]. split; [exact R1P1|]. split; [exact P1R1|].
  split; [exact P1fix|]. split; [|split].
  - intros i c Hi Hc. destruct (Nat.eq_dec c t) as [->|Hct].
    + destruct (lt_eq_lt_dec i t) as [[Hlt| ->]|Hgt].
      * rewrite P1fix by lia. rewrite Hu1', Hu1 by auto. apply (Hu_eq (S i)); lia.
      * rewrite P1fix by lia. rewrite Hjj1', Hjj1. rewrite Hs_eq by auto. rewrite Hpb. reflexivity.
      * assert (Hp1i : t < pi1 i < n) by (split; [apply P1gt; lia|apply P1l; lia]).
        rewrite Hlow1' by lia. rewrite (Hlow1 (pi1 i) Hp1i).
        rewrite Etr. rewrite (Hs_eq (tr t b' i)) by (apply Tin'; lia). rewrite (Hs_eq b' Hb').
        rewrite Hpb. reflexivity.
    + rewrite Hc1', Hc1 by auto. rewrite Etr. apply HW; auto.
  - exact Hri_new.
  - intros i Hi.
    assert (Hp1i : t < pi1 i < n) by (split; [apply P1gt; lia|apply P1l; lia]).
    rewrite (rs_step n st' t i Hlr' Ht ltac:(lia)). rewrite Ebi'. fold b'.
    rewrite (rs_step n st t (pi1 i) Hlr Ht Hp1i).
    rewrite Ebi, Etr. apply Hrs. apply Tin'. lia.
Qed.

Variables a a' : mat.
Hypothesis Hwa : wf n n a.
Hypothesis Hwa' : wf n n a'.
Hypothesis Hrows : forall i c, i < n -> c < n -> mg a' i c = mg a (sg i) c.

Lemma fold_left_ext_in {A B : Type} (f g : A -> B -> A) (l : list B) :
  (forall x y, In y l -> f x y = g x y) -> forall x, fold_left f l x = fold_left g l x.
Proof.
  induction l as [|y l IH]; intros H x; [reflexivity|]. cbn [fold_left].
  rewrite (H x y) by (left; auto). apply IH. intros; apply H; right; auto.
Qed.

Lemma RO_init : RO 0 (lu_init a n) (lu_init a' n).
Proof.
  pose proof (Sinv_upto K M nrm2 mulM ltM zeroM scale_of_max a n Hwa 0 (Nat.le_0_l n)) as HS.
  pose proof (Sinv_upto K M nrm2 mulM ltM zeroM scale_of_max a' n Hwa' 0 (Nat.le_0_l n)) as HS'.
  change (lu_upto a n 0) with (lu_init a n) in HS. change (lu_upto a' n 0) with (lu_init a' n) in HS'.
  split; [exact HS|]. split; [exact HS'|].
  unfold LuModel.lu_init. cbn [LuModel.lu_a LuModel.lu_ri LuModel.lu_rs LuModel.lu_pivots].
  split; [rewrite map_length, seq_length; auto|]. split; [rewrite map_length, seq_length; auto|].
  split; [reflexivity|].
  exists sg, ts. repeat split; auto; try (intros; lia).
  - intros i Hi. rewrite !seq_nth by auto. reflexivity.
  - intros i Hi. rewrite nth_map_seq by lia. rewrite nth_map_seq by (apply sg_lt; lia). f_equal.
    unfold LuModel.row_max. apply fold_left_ext_in. intros mx j Hj. apply in_seq in Hj.
    rewrite Hrows by lia. reflexivity.
Qed.

Lemma row_order_upto : run_decided a n -> forall t, t <= n ->
  RO t (lu_upto a n t) (lu_upto a' n t) /\
  forall j, j < t -> sg (nth j (lu_ri (lu_upto a' n (S j))) O) = nth j (lu_ri (lu_upto a n (S j))) O.
Proof.
  intros Hdec. induction t; intros Ht.
  - split; [apply RO_init|intros; lia].
  - destruct (IHt ltac:(lia)) as (IH1 & IH2).
    destruct (row_order_step t _ _ IH1 ltac:(lia) (Hdec t ltac:(lia))) as (E & HR).
    rewrite <- !lu_upto_S in *. split; [exact HR|].
    intros j Hj. destruct (Nat.eq_dec j t) as [->|Hne]; [exact E|apply IH2; lia].
Qed.

(* the two runs: same pivot rows named by original row, same row_index up to the relabelling, same array *)
Theorem lu_row_order_independent : run_decided a n ->
  map sg (lu_pivots (lu a' n)) = lu_pivots (lu a n) /\
  (forall i, i < n -> sg (nth i (lu_ri (lu a' n)) O) = nth i (lu_ri (lu a n)) O) /\
  (forall i c, i < n -> c < n -> mg (lu_a (lu a' n)) i c = mg (lu_a (lu a n)) i c).
Proof.
  intros Hdec. destruct (row_order_upto Hdec n (le_n n)) as (HR & _).
  rewrite <- !lu_upto_full in HR.
  destruct HR as (_ & _ & _ & _ & Hpv & pi & rho & _ & _ & _ & _ & Hfix & HW & Hri & _).
  split; [exact Hpv|]. split.
  - intros i Hi. rewrite Hri by auto. rewrite Hfix by auto. reflexivity.
  - intros i c Hi Hc. rewrite HW by auto. rewrite Hfix by auto. reflexivity.
Qed.

(* mldivide on the permuted system (rows of b permuted the same way) returns the same matrix *)
Theorem mldivide_row_order_independent m (b b' : mat) : run_decided a n ->
  (forall i k, i < n -> k < m -> mg b' i k = mg b (sg i) k) ->
  fst (mldivide a' b' n m) = fst (mldivide a b n m).
Proof.
  intros Hdec Hb. destruct (lu_row_order_independent Hdec) as (_ & Hri & HW).
  rewrite !(mldivide_eq K M nrm2 mulM ltM zeroM scale_of_max). cbn [fst].
  pose proof (Sinv_upto K M nrm2 mulM ltM zeroM scale_of_max a' n Hwa' n (le_n n)) as (_ & _ & Hr' & _).
  rewrite <- lu_upto_full in Hr'.
  set (A := lu_a (lu a n)) in *. set (A' := lu_a (lu a' n)) in *.
  unfold solve_all. apply fold_left_ext_in. intros x j Hj. apply in_seq in Hj.
  unfold solve_col.
  assert (E1 : fold_left (cstep K j (fwd_g K A' (fun i j0 => mg b' (nth i (lu_ri (lu a' n)) O) j0) j)) (seq 0 n) x
             = fold_left (cstep K j (fwd_g K A (fun i j0 => mg b (nth i (lu_ri (lu a n)) O) j0) j)) (seq 0 n) x).
  { apply fold_left_ext_in. intros y i Hi. apply in_seq in Hi. unfold cstep. f_equal.
    unfold fwd_g. rewrite Hb by (auto; try lia; apply Hr'; lia). rewrite Hri by lia.
    apply fold_left_ext_in. intros s k Hk. apply in_seq in Hk. rewrite HW by lia. reflexivity. }
  rewrite E1. apply fold_left_ext_in. intros y i Hi. apply in_rev, in_seq in Hi.
  unfold cstep. f_equal. unfold bwd_g. rewrite (HW i i) by lia. f_equal.
  apply fold_left_ext_in. intros s k Hk. apply in_seq in Hk. rewrite HW by lia. reflexivity.
Qed.

End Run.
End RowOrder.
