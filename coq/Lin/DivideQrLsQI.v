(* The Householder model as coded, at Q[i], connected to the least-squares specification: for every m >= n
   and every A of full column rank on which the sqrt / phase oracles behaved (computed check qq_run_lawsb),
   the matrix returned by the model of _vnacommon_qrsolve satisfies LsProofs.normal_eq, hence
   (LsProofs.ls_minimises) minimises the squared Frobenius norm of A X - B, and the returned rank is n. *)
Require Import List Arith Lia Bool QArith Qcanon.
Import ListNotations.
Require Import LV.Base.CField LV.Base.QcI LV.Lin.MatL LV.Lin.LuGenA LV.Lin.LsSpec LV.Lin.LsProofs LV.Lin.LsLuProofs
               LV.Lin.QrModel LV.Lin.QrAlg LV.Lin.QrProofs LV.Lin.QrTheorems LV.Lin.QrQI LV.Lin.QrQIProofs
               LV.Lin.DivideQrLs.
Local Open Scope nat_scope.

Theorem qq_qrsolve_normal_eq m n o (a b : mat QIF) : wf m n a -> n <= m ->
  qq_run_lawsb m n a = true -> full_col_rank m n a ->
  exists X B', qq_qrsolve m n o a b = (Some X, B', n) /\ normal_eq m n o a b X.
Proof.
  intros Hw Hnm HL Hfr. apply qq_run_lawsb_sound in HL. rewrite Nat.min_r in HL by exact Hnm.
  destruct (qrsolve_normal_equations QIF qi_sqrt qi_phase qi_isz0 qif_field_laws m n o a b Hw Hnm HL Hfr)
    as (X & B' & E & HN).
  exists X, B'. split; [exact E|].
  intros j k Hj Hk. unfold normal_mat, normal_rhs.
  rewrite !mget_mmul by assumption.
  transitivity (sumf m (fun i => cmul (cj (mget QIF a i j)) (mget QIF b i k))).
  - rewrite <- (HN k j Hk Hj).
    apply sumf_ext. intros t Ht. f_equal.
    rewrite mget_mmul by assumption. apply sumf_ext. intros i Hi. unfold mherm.
    rewrite mget_mbuild by assumption. reflexivity.
  - apply sumf_ext. intros i Hi. unfold mherm. rewrite mget_mbuild by assumption. reflexivity.
Qed.

Theorem qq_qrsolve_minimises m n o (a b : mat QIF) : wf m n a -> n <= m ->
  qq_run_lawsb m n a = true -> full_col_rank m n a ->
  exists X B', qq_qrsolve m n o a b = (Some X, B', n) /\
    forall y : mat QIF, (res2 m n o a X b <= res2 m n o a y b)%Qc.
Proof.
  intros Hw Hnm HL Hfr.
  destruct (qq_qrsolve_normal_eq m n o a b Hw Hnm HL Hfr) as (X & B' & E & HN).
  exists X, B'. split; [exact E|]. exact (ls_minimises m n o a b X HN).
Qed.

(* non-vacuity: the 3 x 2 example of QrQIProofs (columns (7,24,0), (-7,1,24)): every hypothesis met *)
Definition ex_ls_b : mat QIF := [[qz' 1]; [qz' 2]; [qz' (-3)]].
Example ex_qrsolve_minimises :
  exists X B', qq_qrsolve 3 2 1 ex_qr_a ex_ls_b = (Some X, B', 2) /\
    forall y : mat QIF, (res2 3 2 1 ex_qr_a X ex_ls_b <= res2 3 2 1 ex_qr_a y ex_ls_b)%Qc.
Proof.
  apply qq_qrsolve_minimises.
  - exact ex_qr_a_wf.
  - lia.
  - exact ex_qr_a_laws.
  - exact ex_qr_a_full_rank.
Qed.
