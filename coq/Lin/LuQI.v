(* The linear-algebra and n-port conversion models instantiated at the Gaussian rationals. *)
Require Import List Arith QArith Qcanon.
Import ListNotations.
Require Import LV.Base.CField LV.Base.QcI LV.Lin.MatL LV.Lin.LuModel LV.Conv.ConvN.

Definition Qc_ltb (x y : Qc) : bool := if Qclt_le_dec x y then true else false.

(* How the squared row-scale factor is obtained from the squared row maximum.
   src/vnacommon_lu.c: "row_scale[i] = 1.0 / max"  => reciprocal (of the squares here).
   For an all-zero row C has 1/0 = inf and inf * 0 = NaN, which never compares greater; in Qc
   1/0 = 0 and the metric is 0, which never compares greater either: the row is never preferred.
   (Kept next to the instantiation so that a change of the C statement has one place to follow;
   the pivot-order correspondence of C19 is what checks it.) *)
Definition row_scale_of_max (m : Qc) : Qc := (/ m)%Qc.

Definition q_lu := lu QIF Qc qi_nrm Qcmult Qc_ltb 0%Qc row_scale_of_max.
Definition q_mldivide := mldivide QIF Qc qi_nrm Qcmult Qc_ltb 0%Qc row_scale_of_max.
Definition q_mrdivide := mrdivide QIF Qc qi_nrm Qcmult Qc_ltb 0%Qc row_scale_of_max.
Definition q_minverse := minverse QIF Qc qi_nrm Qcmult Qc_ltb 0%Qc row_scale_of_max.
Definition q_stozn := stozn QIF Qc qi_nrm Qcmult Qc_ltb 0%Qc row_scale_of_max.
Definition q_ztosn := ztosn QIF Qc qi_nrm Qcmult Qc_ltb 0%Qc row_scale_of_max.
Definition q_stoyn := stoyn QIF Qc qi_nrm Qcmult Qc_ltb 0%Qc row_scale_of_max.
Definition q_ytosn := ytosn QIF Qc qi_nrm Qcmult Qc_ltb 0%Qc row_scale_of_max.
Definition q_ztoyn := ztoyn QIF Qc qi_nrm Qcmult Qc_ltb 0%Qc row_scale_of_max.
Definition q_ytozn := ytozn QIF Qc qi_nrm Qcmult Qc_ltb 0%Qc row_scale_of_max.
Definition q_stozin := stozin QIF.
Definition q_ztozin := ztozin QIF Qc qi_nrm Qcmult Qc_ltb 0%Qc row_scale_of_max.
Definition q_ytozin := ytozin QIF Qc qi_nrm Qcmult Qc_ltb 0%Qc row_scale_of_max.
