(* The linear-algebra and n-port conversion models instantiated at the Gaussian rationals. *)
Require Import List Arith QArith Qcanon.
Import ListNotations.
Require Import LV.Base.CField LV.Base.QcI LV.Lin.MatL LV.Lin.LuModel LV.Conv.ConvN.

Definition Qc_ltb (x y : Qc) : bool := if Qclt_le_dec x y then true else false.

(* How the squared row-scale factor is obtained from the squared row maximum.
   src/vnacommon_lu.c: "row_scale[i] = max"  => identity.  (Kept next to the instantiation so
   that a change of the C statement has exactly one place to follow.) *)
Definition row_scale_of_max (m : Qc) : Qc := m.

Definition q_lu := lu QIF Qc qi_nrm Qcmult Qc_ltb 0%Qc row_scale_of_max.
Definition q_mldivide := mldivide QIF Qc qi_nrm Qcmult Qc_ltb 0%Qc row_scale_of_max.
Definition q_mrdivide := mrdivide QIF Qc qi_nrm Qcmult Qc_ltb 0%Qc row_scale_of_max.
Definition q_minverse := minverse QIF Qc qi_nrm Qcmult Qc_ltb 0%Qc row_scale_of_max.
Definition q_stozn := stozn QIF Qc qi_nrm Qcmult Qc_ltb 0%Qc row_scale_of_max.
Definition q_ztosn := ztosn QIF Qc qi_nrm Qcmult Qc_ltb 0%Qc row_scale_of_max.
Definition q_stoyn := stoyn QIF Qc qi_nrm Qcmult Qc_ltb 0%Qc row_scale_of_max.
Definition q_ytosn := ytosn QIF Qc qi_nrm Qcmult Qc_ltb 0%Qc row_scale_of_max.
Definition q_ztoyn := ztoyn QIF Qc qi_nrm Qcmult Qc_ltb 0%Qc row_scale_of_max.
Definition q_ytozn := ytozn QIF Qc qi_nrm Qcmult Qc_ltb 0%Qc row_scale_of_max.
Definition q_stozin := stozin QIF.
Definition q_ztozin := ztozin QIF Qc qi_nrm Qcmult Qc_ltb 0%Qc row_scale_of_max.
Definition q_ytozin := ytozin QIF Qc qi_nrm Qcmult Qc_ltb 0%Qc row_scale_of_max.
