(* Generic-n correctness of the LU model, part C: forward/back substitution and the
   correctness of mldivide and minverse. *)
Require Import List Arith Lia Bool Permutation.
Import ListNotations.
Require Import LV.Base.CField LV.Lin.MatL LV.Lin.LuModel LV.Lin.LuGenA LV.Lin.LuGenB.
Local Open Scope cf_scope.

Ltac bsimp :=
  repeat match goal with
  | |- context [?a <? ?b] => destruct (Nat.ltb_spec a b); try lia
  | |- context [?a <=? ?b] => destruct (Nat.leb_spec a b); try lia
  | |- context [?a =? ?b] => destruct (Nat.eqb_spec a b); try lia
  end.

Section LuGenC.
Variable K : CField.
Variable M : Type.
Variable nrm2 : K -> M.
Variable mulM : M -> M -> M.
Variable ltM : M -> M -> bool.
Variable zeroM : M.
Variable scale_of_max : M -> M.
Add Field KfC : (cth K).

Notation mat := (mat K).
Notation lu_state := (lu_state K M).
Notation lu_a := (lu_a K M).
Notation lu_ri := (lu_ri K M).
Notation lu_d := (lu_d K M).
Notation lu := (lu K M nrm2 mulM ltM zeroM scale_of_max).
Notation lu_upto := (lu_upto K M nrm2 mulM ltM zeroM scale_of_max).
Notation mldivide := (mldivide K M nrm2 mulM ltM zeroM scale_of_max).
Notation minverse := (minverse K M nrm2 mulM ltM zeroM scale_of_max).
Notation mg := (mget K).

(* ---------- L and U as total functions ---------- *)
Definition Lf (W : nat -> nat -> K) (i k : nat) : K :=
  if k <? i then W i k else if k =? i then 1 else 0.
Definition Uf (W : nat -> nat -> K) (k c : nat) : K :=
  if k <=? c then W k c else 0.

Lemma sumf_upto n m (f : nat -> K) : m < n -> (forall k, m < k < n -> f k = 0) ->
  sumf n f = sumf m f + f m.
Proof.
  intros Hm Hz. replace n with (S m + (n - S m))%nat by lia. rewrite sumf_split. cbn [sumf].
  match goal with |- _ + ?b = _ => assert (E : b = 0) end.
  { apply sumf_zero. intros k Hk. apply Hz. lia. }
  rewrite E. ring.
Qed.

Lemma LU_product A0 W p n : LUrel K A0 W p n n -> forall i c, i < n -> c < n ->
  A0 (p i) c = sumf n (fun k => Lf W i k * Uf W k c).
Proof.
  intros (I1 & I2 & _) i c Hi Hc. destruct (le_lt_dec i c) as [Hic|Hic].
  - rewrite I1 by auto. rewrite (sumf_upto n i); auto.
    + f_equal.
      * apply sumf_ext. intros k Hk. unfold Lf, Uf. bsimp. reflexivity.
      * unfold Lf, Uf. bsimp. ring.
    + intros k Hk. unfold Lf. bsimp. ring.
  - rewrite I2 by auto. rewrite (sumf_upto n c); auto.
    + f_equal.
      * apply sumf_ext. intros k Hk. unfold Lf, Uf. bsimp. reflexivity.
      * unfold Lf, Uf. bsimp. ring.
    + intros k Hk. unfold Uf. bsimp. ring.
Qed.

Lemma U_apply W n (y x : nat -> K) :
  (forall i, i < n -> W i i <> 0) ->
  (forall i, i < n ->
     x i = (y i - sumf (n - S i) (fun k => W i (S i + k)%nat * x (S i + k)%nat)) / W i i) ->
  forall k, k < n -> sumf n (fun c => Uf W k c * x c) = y k.
Proof.
  intros Hnz Hx k Hk.
  rewrite (sumf_ext K n _ (fun c => if k <=? c then W k c * x c else 0))
    by (intros; unfold Uf; destruct (k <=? _); ring).
  rewrite sumf_cut_ge by lia. replace (n - k)%nat with (1 + (n - S k))%nat by lia.
  rewrite sumf_split. cbn [sumf]. rewrite Nat.add_0_r.
  rewrite (sumf_ext K (n - S k) _ (fun k0 => W k (S k + k0)%nat * x (S k + k0)%nat))
    by (intros; replace (k + (1 + k0))%nat with (S k + k0)%nat by lia; reflexivity).
  pose proof (Hx k Hk) as E.
  set (T := sumf (n - S k) _) in *.
  rewrite E. field. apply Hnz; auto.
Qed.

Lemma L_apply W n (rhs y : nat -> K) :
  (forall i, i < n -> y i = rhs i - sumf i (fun k => W i k * y k)) ->
  forall i, i < n -> sumf n (fun k => Lf W i k * y k) = rhs i.
Proof.
  intros Hy i Hi. rewrite (sumf_upto n i); auto.
  - rewrite (sumf_ext K i _ (fun k => W i k * y k)) by (intros; unfold Lf; bsimp; ring).
    unfold Lf. bsimp. rewrite (Hy i Hi). ring.
  - intros k Hk. unfold Lf. bsimp. ring.
Qed.

Lemma lu_solve_algebra (A0 W : nat -> nat -> K) (p : nat -> nat) n (rhs y x : nat -> K) :
  (forall i c, i < n -> c < n -> A0 (p i) c = sumf n (fun k => Lf W i k * Uf W k c)) ->
  (forall i, i < n -> W i i <> 0) ->
  (forall i, i < n -> y i = rhs i - sumf i (fun k => W i k * y k)) ->
  (forall i, i < n ->
     x i = (y i - sumf (n - S i) (fun k => W i (S i + k)%nat * x (S i + k)%nat)) / W i i) ->
  forall i, i < n -> sumf n (fun c => A0 (p i) c * x c) = rhs i.
Proof.
  intros HA Hnz Hy Hx i Hi.
  rewrite (sumf_ext K n _ (fun c => sumf n (fun k => Lf W i k * (Uf W k c * x c)))).
  2:{ intros c Hc. rewrite HA by auto. rewrite sumf_scale_r. apply sumf_ext. intros; ring. }
  rewrite sumf_exchange.
  rewrite (sumf_ext K n _ (fun k => Lf W i k * y k)).
  - apply (L_apply W n rhs y); auto.
  - intros k Hk. rewrite <- sumf_scale_l. rewrite (U_apply W n y x) by auto. reflexivity.
Qed.

(* ---------- the substitution loops ---------- *)
Definition fwd_g (A : mat) (rhs : nat -> nat -> K) (j : nat) (x : mat) (i : nat) : K :=
  fold_left (fun s k => s - mg A i k * mg x k j) (seq 0 i) (rhs i j).
Definition bwd_g (A : mat) (n j : nat) (x : mat) (i : nat) : K :=
  fold_left (fun s k => s - mg A i k * mg x k j) (seq (S i) (n - S i)) (mg x i j) / mg A i i.
Definition solve_col (A : mat) rhs (n j : nat) (x : mat) : mat :=
  fold_left (cstep K j (bwd_g A n j)) (rev (seq 0 n))
            (fold_left (cstep K j (fwd_g A rhs j)) (seq 0 n) x).
Definition solve_all (A : mat) rhs (n m : nat) : mat :=
  fold_left (fun x j => solve_col A rhs n j x) (seq 0 m) (mzero K n m).

Lemma mldivide_eq a b n m :
  mldivide a b n m =
  (solve_all (lu_a (lu a n)) (fun i j => mg b (nth i (lu_ri (lu a n)) O) j) n m, lu_d (lu a n)).
Proof. reflexivity. Qed.

Lemma minverse_eq a n :
  minverse a n =
  (solve_all (lu_a (lu a n)) (fun i j => if nth i (lu_ri (lu a n)) O =? j then 1 else 0) n n,
   lu_d (lu a n)).
Proof. reflexivity. Qed.

Definition col_solved (A : mat) (rhs : nat -> nat -> K) (n j : nat) (x : mat) : Prop :=
  exists y : nat -> K,
   (forall i, i < n -> y i = rhs i j - sumf i (fun k => mg A i k * y k)) /\
   (forall i, i < n ->
      mg x i j = (y i - sumf (n - S i) (fun k => mg A i (S i + k)%nat * mg x (S i + k)%nat j))
                 / mg A i i).

Lemma col_solved_ext A rhs n j x x' : (forall i, mg x' i j = mg x i j) ->
  col_solved A rhs n j x -> col_solved A rhs n j x'.
Proof.
  intros H (y & Hy & Hx). exists y. split; auto.
  intros i Hi. rewrite H. rewrite (Hx i Hi). f_equal. f_equal.
  apply sumf_ext. intros k Hk. rewrite H. reflexivity.
Qed.

Lemma solve_col_spec A rhs n m j x : wf n m x -> j < m ->
  let x' := solve_col A rhs n j x in
  wf n m x' /\ (forall i c, c <> j -> mg x' i c = mg x i c) /\ col_solved A rhs n j x'.
Proof.
  intros Hw Hj x'. unfold x', solve_col.
  set (x1 := fold_left (cstep K j (fwd_g A rhs j)) (seq 0 n) x).
  assert (Hw1 : wf n m x1) by (apply fold_cstep_wf; auto).
  split; [apply fold_cstep_wf; auto|]. split.
  { intros i c Hc. rewrite fold_cstep_other by auto. apply fold_cstep_other; auto. }
  exists (fun i => mg x1 i j). split.
  - intros i Hi. unfold x1. rewrite (seq_split_at 0 n i) by lia.
    rewrite (fold_cstep_at K j _ n m) by (auto; try lia; intro Hin; apply in_seq in Hin; lia).
    unfold fwd_g. rewrite fold_sub_seq. f_equal.
    apply sumf_ext. intros k Hk. simpl. f_equal.
    symmetry. apply fold_cstep_prefix. right. intros [Hin|Hin]; [lia|].
    apply in_seq in Hin. lia.
  - intros i Hi. rewrite (rev_seq_split_at n i) by auto.
    rewrite (fold_cstep_at K j _ n m);
      [| auto | auto | auto | intro Hin; rewrite <- in_rev in Hin; apply in_seq in Hin; lia ].
    unfold bwd_g. rewrite fold_sub_seq. f_equal. f_equal.
    + apply fold_cstep_other. right. intro Hin. rewrite <- in_rev in Hin.
      apply in_seq in Hin. lia.
    + apply sumf_ext. intros k Hk. f_equal.
      symmetry. apply fold_cstep_prefix. right. intros [Hin|Hin]; [lia|].
      rewrite <- in_rev in Hin. apply in_seq in Hin. lia.
Qed.

Lemma solve_all_spec A rhs n m : forall t, t <= m ->
  let x := fold_left (fun x j => solve_col A rhs n j x) (seq 0 t) (mzero K n m) in
  wf n m x /\ forall j, j < t -> col_solved A rhs n j x.
Proof.
  induction t; intros Ht.
  - simpl. split; [apply wf_mzero|]. intros; lia.
  - rewrite seq_S, fold_left_app. simpl.
    destruct (IHt ltac:(lia)) as (Hw & Hc).
    set (x0 := fold_left (fun x j => solve_col A rhs n j x) (seq 0 t) (mzero K n m)) in *.
    destruct (solve_col_spec A rhs n m t x0 Hw ltac:(lia)) as (Hw' & Ho & Hs).
    split; auto. intros j Hj. destruct (Nat.eq_dec j t) as [->|Hjt]; auto.
    apply (col_solved_ext A rhs n j x0); [|apply Hc; lia].
    intros i. apply Ho. auto.
Qed.

(* ---------- the row index vector is a permutation ---------- *)
Lemma Sinv_NoDup n st : Sinv K M n st -> NoDup (lu_ri st).
Proof.
  intros (_ & Hl & _ & Hinj). apply (NoDup_nth (lu_ri st) O).
  intros i i' Hi Hi'. rewrite Hl in *. apply Hinj; auto.
Qed.

Lemma Sinv_incl n st : Sinv K M n st -> incl (lu_ri st) (seq 0 n).
Proof.
  intros (_ & Hl & Hr & _) x Hx. apply (In_nth _ _ O) in Hx. destruct Hx as (i & Hi & <-).
  apply in_seq. rewrite Hl in Hi. specialize (Hr i Hi). lia.
Qed.

Lemma Sinv_perm n st : Sinv K M n st -> Permutation (lu_ri st) (seq 0 n).
Proof.
  intros HS. apply NoDup_Permutation_bis.
  - eapply Sinv_NoDup; eauto.
  - destruct HS as (_ & Hl & _). rewrite seq_length, Hl. auto.
  - apply Sinv_incl; auto.
Qed.

Lemma Sinv_surj n st : Sinv K M n st ->
  forall r, r < n -> exists i, i < n /\ nth i (lu_ri st) O = r.
Proof.
  intros HS r Hr. pose proof (Sinv_perm n st HS) as Hp.
  assert (Hin : In r (lu_ri st)).
  { eapply Permutation_in; [apply Permutation_sym; exact Hp|]. apply in_seq. lia. }
  apply (In_nth _ _ O) in Hin. destruct Hin as (i & Hi & E).
  destruct HS as (_ & Hl & _). exists i. split; [lia|auto].
Qed.

(* ---------- A * solve_all = rhs ---------- *)
Theorem solve_all_lu a n m (rhs0 : nat -> nat -> K) : wf n n a ->
  (forall j, j < n -> mg (lu_a (lu a n)) j j <> 0) ->
  let st := lu a n in
  let X := solve_all (lu_a st) (fun i j => rhs0 (nth i (lu_ri st) O) j) n m in
  wf n m X /\
  forall i k, i < n -> k < m -> sumf n (fun t => mg a i t * mg X t k) = rhs0 i k.
Proof.
  intros Hw Hnz st X.
  pose proof (Sinv_upto K M nrm2 mulM ltM zeroM scale_of_max a n Hw n (le_n n)) as HS.
  pose proof (lu_invariant K M nrm2 mulM ltM zeroM scale_of_max a n Hw n (le_n n) Hnz) as HI.
  fold st in HS, HI. change (lu_upto a n n) with st in HS, HI.
  destruct (solve_all_spec (lu_a st) (fun i j => rhs0 (nth i (lu_ri st) O) j) n m m (le_n m))
    as (HwX & Hcols).
  fold X in HwX, Hcols. split; auto.
  intros i k Hi Hk.
  destruct (Sinv_surj n st HS i Hi) as (i' & Hi' & <-).
  destruct (Hcols k Hk) as (y & Hy & Hx).
  apply (lu_solve_algebra (mg a) (mg (lu_a st)) (fun i => nth i (lu_ri st) O) n
           (fun i => rhs0 (nth i (lu_ri st) O) k) y (fun c => mg X c k)); auto.
  apply LU_product. exact HI.
Qed.

Theorem lu_solves_mldivide : forall n m (a b : mat), wf n n a -> wf n m b ->
  (forall j, j < n -> mg (lu_a (lu a n)) j j <> 0) ->
  forall i k, i < n -> k < m ->
    mg (mmul K n n m a (fst (mldivide a b n m))) i k = mg b i k.
Proof.
  intros n m a b Hwa Hwb Hnz i k Hi Hk.
  rewrite mget_mmul by auto. rewrite mldivide_eq. cbn [fst].
  destruct (solve_all_lu a n m (mg b) Hwa Hnz) as (_ & H). apply H; auto.
Qed.

Theorem lu_solves_minverse : forall n (a : mat), wf n n a ->
  (forall j, j < n -> mg (lu_a (lu a n)) j j <> 0) ->
  forall i k, i < n -> k < n ->
    mg (mmul K n n n a (fst (minverse a n))) i k = (if i =? k then 1 else 0).
Proof.
  intros n a Hwa Hnz i k Hi Hk.
  rewrite mget_mmul by auto. rewrite minverse_eq. cbn [fst].
  destruct (solve_all_lu a n n (fun r j => if r =? j then 1 else 0) Hwa Hnz) as (_ & H).
  apply H; auto.
Qed.

(* P A = L U at the end of [lu], entrywise *)
Theorem lu_PA_eq_LU a n : wf n n a ->
  (forall j, j < n -> mg (lu_a (lu a n)) j j <> 0) ->
  forall i c, i < n -> c < n ->
    mg a (nth i (lu_ri (lu a n)) O) c =
    sumf n (fun k => Lf (mg (lu_a (lu a n))) i k * Uf (mg (lu_a (lu a n))) k c).
Proof.
  intros Hw Hnz.
  apply (LU_product (mg a) (mg (lu_a (lu a n))) (fun i => nth i (lu_ri (lu a n)) O) n).
  exact (lu_invariant K M nrm2 mulM ltM zeroM scale_of_max a n Hw n (le_n n) Hnz).
Qed.

End LuGenC.
