(* Non-vacuity of the no-tie premise, of the minverse / mrdivide row-order theorems and of the row-scaling
   theorem at Q[i]: every hypothesis instantiated on a concrete 3x3 system. *)
Require Import List Arith Lia Bool QArith Qcanon.
Import ListNotations.
Require Import LV.Base.CField LV.Base.QcI LV.Lin.MatL LV.Lin.LuModel LV.Lin.LuQI LV.Lin.LuQI2.
Require Import LV.Lin.LuGenA LV.Lin.LuGenB LV.Lin.LuGenC LV.Lin.LuGenD LV.Lin.LuGen LV.Lin.LuPivot LV.Lin.LuProofs
               LV.Lin.LuNonsing LV.Lin.LuNonsingQI.
Require Import LV.Lin.LuDetModel LV.Lin.LuDetProofs LV.Lin.LuRowOrderProofs LV.Lin.LuDetExamples
               LV.Lin.LuRowOrderNoTie LV.Lin.LuRowOrderSolvers LV.Lin.LuRowOrderScale.
Local Open Scope nat_scope.

(* the premise in the words of the property, at Q[i]: no premise on the order left *)
Theorem q_run_decided_of_no_tie (a : mat QIF) n : wf n n a ->
  run_no_tie QIF Qc qi_nrm Qcmult Qc_ltb 0%Qc scale_recip a n ->
  run_cand_nonzero QIF Qc qi_nrm Qcmult Qc_ltb 0%Qc scale_recip a n ->
  run_decided QIF Qc qi_nrm Qcmult Qc_ltb 0%Qc scale_recip a n.
Proof.
  exact (run_decided_of_no_tie QIF Qc qi_nrm Qcmult Qc_ltb 0%Qc scale_recip qc_ltM_irrefl qc_ltM_trans qc_ltM_cotrans
           qc_mulM_pos qc_mulM_zero_r qi_nrm2_zero qi_nrm2_pos qc_scale_pos qi_zero_dec a n).
Qed.

Lemma ro_no_tie : run_no_tie QIF Qc qi_nrm Qcmult Qc_ltb 0%Qc scale_recip LuGen.ex_a 3.
Proof.
  intros t Ht i i' Hi Hi' Hne _ _.
  destruct t as [|[|[|t]]]; try lia;
  destruct i as [|[|[|i]]]; try lia; destruct i' as [|[|[|i']]]; try lia;
  first [left; vm_compute; reflexivity | right; vm_compute; reflexivity].
Qed.

Lemma ro_cand_nonzero : run_cand_nonzero QIF Qc qi_nrm Qcmult Qc_ltb 0%Qc scale_recip LuGen.ex_a 3.
Proof.
  intros t Ht. destruct t as [|[|[|t]]]; try lia.
  - exists 1. split; [lia|]. apply qi_neqb. vm_compute. reflexivity.
  - exists 2. split; [lia|]. apply qi_neqb. vm_compute. reflexivity.
  - exists 2. split; [lia|]. apply qi_neqb. vm_compute. reflexivity.
Qed.

Example ex_decided_from_no_tie : run_decided QIF Qc qi_nrm Qcmult Qc_ltb 0%Qc scale_recip LuGen.ex_a 3.
Proof. exact (q_run_decided_of_no_tie LuGen.ex_a 3 LuGen.ex_a_wf ro_no_tie ro_cand_nonzero). Qed.

(* minverse and mrdivide on the permuted matrix: the columns of the result are permuted *)
Example ex_row_order_solvers :
  (forall i j, i < 3 -> j < 3 ->
     mget QIF (fst (q2_minverse_recip ro_a' 3)) i j = mget QIF (fst (q2_minverse_recip LuGen.ex_a 3)) i (ro_sg j)) /\
  (forall i c, i < 2 -> c < 3 ->
     mget QIF (fst (q2_mrdivide_recip LuGen.ex_c ro_a' 2 3)) i c =
     mget QIF (fst (q2_mrdivide_recip LuGen.ex_c LuGen.ex_a 2 3)) i (ro_sg c)) /\
  fst (q2_minverse_recip ro_a' 3) <> fst (q2_minverse_recip LuGen.ex_a 3).
Proof.
  assert (Hsg : forall i, i < 3 -> ro_sg i < 3) by (intros [|[|[|i]]] H; cbn; lia).
  assert (Hts : forall i, i < 3 -> ro_ts i < 3) by (intros [|[|[|i]]] H; cbn; lia).
  assert (H1 : forall i, i < 3 -> ro_ts (ro_sg i) = i) by (intros [|[|[|i]]] H; cbn; lia).
  assert (H2 : forall i, i < 3 -> ro_sg (ro_ts i) = i) by (intros [|[|[|i]]] H; cbn; lia).
  assert (Hr : forall i c, i < 3 -> c < 3 -> mget QIF ro_a' i c = mget QIF LuGen.ex_a (ro_sg i) c).
  { intros [|[|[|i]]] c H _; try lia; reflexivity. }
  split; [|split].
  - exact (minverse_row_order_independent QIF Qc qi_nrm Qcmult Qc_ltb 0%Qc scale_recip qc_ltM_irrefl qc_ltM_trans
             3 ro_sg ro_ts Hsg Hts H1 H2 LuGen.ex_a ro_a' LuGen.ex_a_wf ro_a'_wf Hr ex_decided_from_no_tie).
  - exact (mrdivide_row_order_independent QIF Qc qi_nrm Qcmult Qc_ltb 0%Qc scale_recip qc_ltM_irrefl qc_ltM_trans
             3 ro_sg ro_ts Hsg Hts H1 H2 LuGen.ex_a ro_a' LuGen.ex_a_wf ro_a'_wf Hr ex_decided_from_no_tie 2 LuGen.ex_c).
  - vm_compute. discriminate.
Qed.

(* row scaling: factors 1000, i/7, -3/2 + i/5 on the rows of (LuPivot.ex_a, ex_b) *)
Definition sc_b : mat QIF := [[qz 1; qz 0]; [qz 2; qz 3]; [qz (-1); mkqi 0 1 1 1]].
Example ex_row_scale_solution :
  lu_pivots QIF Qc (qp_lu (scale_rows QIF LuPivot.ex_d LuPivot.ex_a 3) 3) = lu_pivots QIF Qc (qp_lu LuPivot.ex_a 3) /\
  forall i k, i < 3 -> k < 2 ->
    mget QIF (fst (mldivide QIF Qc qi_nrm Qcmult Qc_ltb 0%Qc Qcinv (scale_rows QIF LuPivot.ex_d LuPivot.ex_a 3)
                     (scale_rows_nm QIF LuPivot.ex_d sc_b 3 2) 3 2)) i k =
    mget QIF (fst (mldivide QIF Qc qi_nrm Qcmult Qc_ltb 0%Qc Qcinv LuPivot.ex_a sc_b 3 2)) i k.
Proof.
  apply q_mldivide_row_scale_invariant.
  - exact LuPivot.ex_wf.
  - split; [reflexivity|repeat constructor].
  - exact LuPivot.ex_d_nz.
  - exact LuPivot.ex_pivots_nz.
Qed.

(* ---------- a DIAGONAL matrix: det <> 0, the permutation and no-tie discharged TOGETHER ----------
   diag(50, 75, 100), the uncoupled Z matrix of a 3-port: in every column all candidates but one are zero (they
   tie at metric 0, which the premise allows); rows permuted [2,0,1]. *)
Definition dg_a : mat QIF := [[qz 50; qz 0; qz 0]; [qz 0; qz 75; qz 0]; [qz 0; qz 0; qz 100]].
Definition dg_a' : mat QIF := perm_rows QIF [2%nat; 0%nat; 1%nat] dg_a.
Definition dg_b' : mat QIF := perm_rows QIF [2%nat; 0%nat; 1%nat] ro_b.
Lemma dg_a_wf : wf 3 3 dg_a.
Proof. split; [reflexivity|repeat constructor]. Qed.
Lemma dg_a'_wf : wf 3 3 dg_a'.
Proof. split; [reflexivity|repeat constructor]. Qed.

Lemma dg_no_tie : run_no_tie QIF Qc qi_nrm Qcmult Qc_ltb 0%Qc scale_recip dg_a 3.
Proof.
  intros t Ht i i' Hi Hi' Hne Hp Hp'.
  destruct t as [|[|[|t]]].
  all: try (exfalso; clear - Ht; lia).
  all: destruct i as [|[|[|i]]].
  all: try (exfalso; clear - Hi; lia).
  all: destruct i' as [|[|[|i']]].
  all: try (exfalso; clear - Hi'; lia).
  all: try (exfalso; clear - Hne; lia).
  all: exfalso.
  all: first [ match type of Hp with ?X = true => assert (E : X = false) by (vm_compute; reflexivity) end;
               exact (Bool.diff_false_true (eq_trans (eq_sym E) Hp))
             | match type of Hp' with ?X = true => assert (E : X = false) by (vm_compute; reflexivity) end;
               exact (Bool.diff_false_true (eq_trans (eq_sym E) Hp')) ].
Qed.

Lemma dg_det_nz : det_lap QIF 3 dg_a <> @c0 QIF.
Proof. apply qi_neqb. vm_compute. reflexivity. Qed.

Example ex_row_order_diagonal :
  map ro_sg (lu_pivots QIF Qc (q2_lu_recip dg_a' 3)) = lu_pivots QIF Qc (q2_lu_recip dg_a 3) /\
  lu_pivots QIF Qc (q2_lu_recip dg_a' 3) <> lu_pivots QIF Qc (q2_lu_recip dg_a 3) /\
  (forall i c, i < 3 -> c < 3 ->
     mget QIF (lu_a QIF Qc (q2_lu_recip dg_a' 3)) i c = mget QIF (lu_a QIF Qc (q2_lu_recip dg_a 3)) i c) /\
  fst (q2_mldivide_recip dg_a' dg_b' 3 2) = fst (q2_mldivide_recip dg_a ro_b 3 2).
Proof.
  assert (Hsg : forall i, i < 3 -> ro_sg i < 3) by (intros [|[|[|i]]] H; cbn; lia).
  assert (Hts : forall i, i < 3 -> ro_ts i < 3) by (intros [|[|[|i]]] H; cbn; lia).
  assert (H1 : forall i, i < 3 -> ro_ts (ro_sg i) = i) by (intros [|[|[|i]]] H; cbn; lia).
  assert (H2 : forall i, i < 3 -> ro_sg (ro_ts i) = i) by (intros [|[|[|i]]] H; cbn; lia).
  assert (Hr : forall i c, i < 3 -> c < 3 -> mget QIF dg_a' i c = mget QIF dg_a (ro_sg i) c).
  { intros [|[|[|i]]] c H _; try lia; reflexivity. }
  destruct (row_order_independent_no_tie QIF Qc qi_nrm Qcmult Qc_ltb 0%Qc scale_recip qc_ltM_irrefl qc_ltM_trans
              qc_ltM_cotrans qc_mulM_pos qc_mulM_zero_r qi_nrm2_zero qi_nrm2_pos qc_scale_pos qi_zero_dec
              3 ro_sg ro_ts Hsg Hts H1 H2 dg_a dg_a' dg_a_wf dg_a'_wf Hr dg_no_tie dg_det_nz) as (E1 & E2 & E3).
  split; [exact E1|]. split; [vm_compute; discriminate|]. split; [exact E2|].
  apply (E3 2 ro_b dg_b'). intros [|[|[|i]]] k H _; try lia; reflexivity.
Qed.
