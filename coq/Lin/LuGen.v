(* Generic-n correctness of the executable LU model (Lin/LuModel.v): summary file.

   Parts:
     LuGenA  list/matrix access lemmas, finite sums [sumf], generic folds of single-entry writes
     LuGenB  closed form of one [lu_column] step ([lu_column_spec]), structural invariant [Sinv],
             the Crout invariant [lu_invariant] (P A = L U entrywise, [LUrel])
     LuGenC  forward/back substitution; [lu_solves_mldivide], [lu_solves_minverse]
     LuGenD  [lu_solves_mrdivide], [lu_ri_perm], [lu_pivots_eq_ri], [lu_det_pivots]

   No hypothesis on the pivot-selection parameters (M, nrm2, mulM, ltM, zeroM, scale_of_max) is
   needed: correctness only requires the chosen pivots, i.e. the diagonal of the final lu_a,
   to be nonzero.  All theorems are closed under the global context. *)
Require Import List Arith Lia QArith Qcanon.
Import ListNotations.
Require Import LV.Base.CField LV.Base.QcI LV.Lin.MatL LV.Lin.LuModel LV.Lin.LuQI.
Require Export LV.Lin.LuGenA LV.Lin.LuGenB LV.Lin.LuGenC LV.Lin.LuGenD.
Local Open Scope nat_scope.

(* Non-vacuity: a concrete 3x3 system over the Gaussian rationals whose first pivot position
   holds 0, so that the row exchange is exercised; the hypotheses of the general theorems are
   discharged by computation and the theorems are then applied. *)
Definition ex_a : mat QIF :=
  [ [mkqi 0 1 0 1; mkqi 2 1 0 1; mkqi 1 1 1 1];
    [mkqi 1 1 0 1; mkqi 1 1 (-1) 1; mkqi 1 1 0 1];
    [mkqi 2 1 0 1; mkqi 1 1 0 1; mkqi 3 1 1 2] ].
Definition ex_b : mat QIF :=
  [ [mkqi 1 1 0 1; mkqi 0 1 1 1];
    [mkqi 2 1 0 1; mkqi 1 3 0 1];
    [mkqi 0 1 0 1; mkqi 5 1 0 1] ].
Definition ex_c : mat QIF :=
  [ [mkqi 1 1 0 1; mkqi 0 1 1 1; mkqi 7 2 0 1];
    [mkqi 2 1 0 1; mkqi 1 3 0 1; mkqi 0 1 0 1] ].

Lemma ex_a_wf : wf 3 3 ex_a.
Proof. split; [reflexivity|repeat constructor]. Qed.
Lemma ex_b_wf : wf 3 2 ex_b.
Proof. split; [reflexivity|repeat constructor]. Qed.
Lemma ex_c_wf : wf 2 3 ex_c.
Proof. split; [reflexivity|repeat constructor]. Qed.

Lemma ex_pivots_nz : forall j, j < 3 ->
  mget QIF (lu_a QIF Qc (q_lu ex_a 3)) j j <> (@c0 QIF).
Proof.
  intros j Hj. destruct j as [|[|[|j]]]; try lia; apply qi_neqb; vm_compute; reflexivity.
Qed.

Example ex_swapped : lu_ri QIF Qc (q_lu ex_a 3) <> seq 0 3.
Proof. vm_compute. discriminate. Qed.

Example ex_mldivide : forall i k, i < 3 -> k < 2 ->
  mget QIF (mmul QIF 3 3 2 ex_a (fst (q_mldivide ex_a ex_b 3 2))) i k = mget QIF ex_b i k.
Proof.
  exact (lu_solves_mldivide QIF Qc qi_nrm Qcmult Qc_ltb 0%Qc row_scale_of_max 3 2 ex_a ex_b
           ex_a_wf ex_b_wf ex_pivots_nz).
Qed.

Example ex_minverse : forall i k, i < 3 -> k < 3 ->
  mget QIF (mmul QIF 3 3 3 ex_a (fst (q_minverse ex_a 3))) i k = (if i =? k then @c1 QIF else @c0 QIF).
Proof.
  exact (lu_solves_minverse QIF Qc qi_nrm Qcmult Qc_ltb 0%Qc row_scale_of_max 3 ex_a
           ex_a_wf ex_pivots_nz).
Qed.

Example ex_mrdivide : forall i k, i < 2 -> k < 3 ->
  mget QIF (mmul QIF 2 3 3 (fst (q_mrdivide ex_c ex_a 2 3)) ex_a) i k = mget QIF ex_c i k.
Proof.
  exact (lu_solves_mrdivide QIF Qc qi_nrm Qcmult Qc_ltb 0%Qc row_scale_of_max 3 2 ex_a ex_c
           ex_a_wf ex_c_wf ex_pivots_nz).
Qed.
