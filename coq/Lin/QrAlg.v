(* Algebra of Householder reflections over a field with an involution (property C19, lemmas for
   QrProofs.v): a reflection I - 2 v v^H with v^H v = 1 preserves the Hermitian inner product, is
   linear, and the vector chosen by _vnacommon_qrd maps the column to alpha e_k. *)
Require Import List Arith Lia Bool.
Import ListNotations.
Require Import LV.Base.CField LV.Lin.MatL LV.Lin.LuGenA.
Local Open Scope nat_scope.
Local Open Scope cf_scope.

Section Alg.
Variable K : CField.
Add Field KfQrA : (cth K).
Hypothesis cj_0 : cj (0 : K) = 0.
Hypothesis cj_1 : cj (1 : K) = 1.
Hypothesis cj_add : forall x y : K, cj (x + y) = cj x + cj y.
Hypothesis cj_mul : forall x y : K, cj (x * y) = cj x * cj y.
Hypothesis cj_cj : forall x : K, cj (cj x) = x.
Hypothesis H2 : char_ok K.

Lemma cj_opp (x : K) : cj (- x) = - cj x.
Proof.
  assert (E : cj (x + - x) = 0) by (replace (x + - x) with (0 : K) by ring; exact cj_0).
  rewrite cj_add in E. replace (- cj x) with (- cj x + (cj x + cj (- x))) by (rewrite E; ring). ring.
Qed.

Lemma cj_sub (x y : K) : cj (x - y) = cj x - cj y.
Proof. replace (x - y) with (x + - y) by ring. rewrite cj_add, cj_opp. ring. Qed.

Lemma cj_two : cj (two : K) = two.
Proof. unfold two. rewrite cj_add, cj_1. reflexivity. Qed.

Lemma cj_nz (x : K) : x <> 0 -> cj x <> 0.
Proof. intros Hx E. apply Hx. rewrite <- (cj_cj x), E. exact cj_0. Qed.

Lemma cj_div (x y : K) : y <> 0 -> cj (x / y) = cj x / cj y.
Proof.
  intros Hy. assert (Hc := cj_nz y Hy).
  assert (E : cj (x / y) * cj y = cj x).
  { rewrite <- cj_mul. f_equal. field. exact Hy. }
  rewrite <- E. field. exact Hc.
Qed.

Lemma cj_sumf n (f : nat -> K) : cj (sumf n f) = sumf n (fun k => cj (f k)).
Proof. induction n; simpl; auto. rewrite cj_add, IHn. reflexivity. Qed.

(* Hermitian inner product of two vectors of length m, and the reflection I - 2 v v^H *)
Definition ip (m : nat) (x y : nat -> K) : K := sumf m (fun i => cj (x i) * y i).
Definition Hf (m : nat) (v x : nat -> K) : nat -> K := fun i => x i - two * ip m v x * v i.

Lemma ip_ext m x y x' y' : (forall i, i < m -> x i = x' i) -> (forall i, i < m -> y i = y' i) ->
  ip m x y = ip m x' y'.
Proof. intros Hx Hy. apply sumf_ext. intros i Hi. rewrite Hx, Hy by auto. reflexivity. Qed.

Lemma ip_conj m x y : cj (ip m x y) = ip m y x.
Proof.
  unfold ip. rewrite cj_sumf. apply sumf_ext. intros i _. rewrite cj_mul, cj_cj. ring.
Qed.

Lemma Hf_ext m v v' x x' : (forall i, i < m -> v i = v' i) -> (forall i, i < m -> x i = x' i) ->
  forall i, i < m -> Hf m v x i = Hf m v' x' i.
Proof.
  intros Hv Hx i Hi. unfold Hf. rewrite (ip_ext m v x v' x') by auto. rewrite Hv, Hx by auto. reflexivity.
Qed.

Lemma ip_lin_r m n v (X : nat -> nat -> K) (c : nat -> K) :
  ip m v (fun i => sumf n (fun j => X j i * c j)) = sumf n (fun j => ip m v (X j) * c j).
Proof.
  unfold ip.
  rewrite (sumf_ext K m _ (fun i => sumf n (fun j => cj (v i) * X j i * c j))).
  2:{ intros i _. rewrite sumf_scale_l. apply sumf_ext. intros; ring. }
  rewrite sumf_exchange. apply sumf_ext. intros j _. rewrite sumf_scale_r. reflexivity.
Qed.

Lemma Hf_lin m n v (X : nat -> nat -> K) (c : nat -> K) i :
  Hf m v (fun r => sumf n (fun j => X j r * c j)) i = sumf n (fun j => Hf m v (X j) i * c j).
Proof.
  unfold Hf. rewrite ip_lin_r.
  rewrite (sumf_ext K n (fun j => (X j i - two * ip m v (X j) * v i) * c j)
                      (fun j => X j i * c j + (- (two * v i)) * (ip m v (X j) * c j))) by (intros; ring).
  rewrite sumf_add, <- sumf_scale_l. ring.
Qed.

Section Unit.
Variables (m : nat) (v : nat -> K).
Hypothesis Hunit : ip m v v = 1.

(* (a) the reflection is unitary: it preserves the Hermitian inner product of every pair *)
Lemma ip_Hf x y : ip m (Hf m v x) (Hf m v y) = ip m x y.
Proof.
  set (p := ip m v x). set (q := ip m v y).
  unfold ip at 1.
  rewrite (sumf_ext K m _ (fun i => cj (x i) * y i + ((- (two * q)) * (cj (x i) * v i)
             + ((- (two * cj p)) * (cj (v i) * y i) + (two * two * cj p * q) * (cj (v i) * v i))))).
  2:{ intros i _. unfold Hf. fold p q. rewrite cj_sub, !cj_mul, cj_two. ring. }
  rewrite !sumf_add, <- !sumf_scale_l.
  change (sumf m (fun i => cj (x i) * y i)) with (ip m x y).
  change (sumf m (fun i => cj (x i) * v i)) with (ip m x v).
  change (sumf m (fun i => cj (v i) * y i)) with q.
  change (sumf m (fun i => cj (v i) * v i)) with (ip m v v).
  rewrite Hunit, <- (ip_conj m v x). fold p. unfold two. ring.
Qed.

(* ... and an involution (H^H = H, so H H = I) *)
Lemma Hf_invol x i : Hf m v (Hf m v x) i = x i.
Proof.
  unfold Hf at 1.
  assert (E : ip m v (Hf m v x) = - ip m v x).
  { unfold ip at 1.
    rewrite (sumf_ext K m _ (fun r => cj (v r) * x r + (- (two * ip m v x)) * (cj (v r) * v r))).
    2:{ intros r _. unfold Hf. ring. }
    rewrite sumf_add, <- sumf_scale_l.
    change (sumf m (fun i => cj (v i) * v i)) with (ip m v v). rewrite Hunit.
    change (sumf m (fun r => cj (v r) * x r)) with (ip m v x). unfold two. ring. }
  rewrite E. unfold Hf. ring.
Qed.
End Unit.

(* sum of a function that vanishes below k *)
Lemma sumf_from m k (f : nat -> K) : k < m -> (forall r, r < k -> f r = 0) ->
  sumf m f = f k + sumf (m - S k) (fun t => f (S k + t)%nat).
Proof.
  intros Hk Hz. replace m with (k + (1 + (m - S k)))%nat at 1 by lia.
  rewrite sumf_split, sumf_split. rewrite (sumf_zero K k f) by auto. simpl.
  rewrite Nat.add_0_r.
  rewrite (sumf_ext K (m - S k) (fun k0 => f (k + S k0)%nat) (fun t => f (S (k + t)))).
  2:{ intros t _. f_equal. lia. }
  ring.
Qed.

(* The Householder vector of _vnacommon_qrd, scalar part.  ak = A(k,k), T = subdot,
   sg = sqrt(|ak|^2 + T), p = cexp(I carg ak), rho = |ak|, alpha = -p sg, u = ak - alpha,
   nu = sqrt(|u|^2 + T). *)
Section Scalar.
Variables ak T sg p rho nu : K.
Hypothesis Hsg : sg * sg = ak * cj ak + T.
Hypothesis Hsgr : cj sg = sg.
Hypothesis Hp : p * cj p = 1.
Hypothesis Hrho : cj p * ak = rho.
Hypothesis Hrhor : cj rho = rho.
Let alpha := (- p) * sg.
Let u := ak - alpha.
Hypothesis Hnu : nu * nu = u * cj u + T.

Lemma p_cj_ak : p * cj ak = rho.
Proof. rewrite <- Hrhor, <- Hrho. rewrite cj_mul, cj_cj. ring. Qed.

Lemma hh_cju : cj u = cj ak + cj p * sg.
Proof. unfold u, alpha. rewrite cj_sub, cj_mul, cj_opp, Hsgr. ring. Qed.

Lemma hh_half : two * (cj u * ak + T) = nu * nu.
Proof.
  rewrite Hnu, hh_cju. unfold u, alpha.
  transitivity (two * (ak * cj ak + T) + two * (sg * (cj p * ak))); [unfold two; ring|].
  transitivity ((ak * cj ak + T) + sg * (cj p * ak) + sg * (p * cj ak) + (p * cj p) * (sg * sg)); [|ring].
  rewrite Hp, Hsg, p_cj_ak, Hrho. unfold two. ring.
Qed.

Lemma hh_alpha_sq : alpha * cj alpha = ak * cj ak + T.
Proof.
  unfold alpha. rewrite cj_mul, cj_opp, Hsgr.
  transitivity ((p * cj p) * (sg * sg)); [ring|]. rewrite Hp, Hsg. ring.
Qed.
End Scalar.

(* The vector part: c = the column (rows < k are ignored), v = (c - alpha e_k) / nu on rows >= k *)
Section Vector.
Variables (m k : nat) (c : nat -> K).
Hypothesis Hk : k < m.
Let T := sumf (m - S k) (fun t => c (S k + t)%nat * cj (c (S k + t)%nat)).
Variables sg p rho nu : K.
Hypothesis Hsg : sg * sg = c k * cj (c k) + T.
Hypothesis Hsgr : cj sg = sg.
Hypothesis Hp : p * cj p = 1.
Hypothesis Hrho : cj p * c k = rho.
Hypothesis Hrhor : cj rho = rho.
Let alpha := (- p) * sg.
Let u := c k - alpha.
Hypothesis Hnu : nu * nu = u * cj u + T.
Hypothesis Hnur : cj nu = nu.
Hypothesis Hnz : nu <> 0.
Let v := fun r => if r <? k then 0 else (if r =? k then u else c r) / nu.

Lemma hv_below r : r < k -> v r = 0.
Proof. intros H. unfold v. destruct (Nat.ltb_spec r k); [reflexivity|lia]. Qed.
Lemma hv_k : v k = u / nu.
Proof. unfold v. rewrite Nat.ltb_irrefl, Nat.eqb_refl. reflexivity. Qed.
Lemma hv_above t : v (S k + t)%nat = c (S k + t)%nat / nu.
Proof.
  unfold v. destruct (Nat.ltb_spec (S k + t) k); [lia|].
  destruct (Nat.eqb_spec (S k + t) k); [lia|reflexivity].
Qed.

Lemma cj_v_k : cj (v k) = cj u / nu.
Proof. rewrite hv_k, cj_div, Hnur by exact Hnz. reflexivity. Qed.
Lemma cj_v_above t : cj (v (S k + t)%nat) = cj (c (S k + t)%nat) / nu.
Proof. rewrite hv_above, cj_div, Hnur by exact Hnz. reflexivity. Qed.

Lemma ip_v_from y : ip m v y =
  (cj u * y k + sumf (m - S k) (fun t => cj (c (S k + t)%nat) * y (S k + t)%nat)) / nu.
Proof.
  unfold ip. rewrite (sumf_from m k) by (auto; intros r Hr; rewrite hv_below by auto; rewrite cj_0; ring).
  rewrite cj_v_k.
  rewrite (sumf_ext K (m - S k) _ (fun t => (1 / nu) * (cj (c (S k + t)%nat) * y (S k + t)%nat))).
  2:{ intros t _. rewrite cj_v_above. field. exact Hnz. }
  rewrite <- sumf_scale_l. field. exact Hnz.
Qed.

Lemma hv_unit : ip m v v = 1.
Proof.
  rewrite ip_v_from, hv_k.
  rewrite (sumf_ext K (m - S k) _ (fun t => (1 / nu) * (c (S k + t)%nat * cj (c (S k + t)%nat)))).
  2:{ intros t _. rewrite hv_above. field. exact Hnz. }
  rewrite <- sumf_scale_l. fold T.
  transitivity ((u * cj u + T) / (nu * nu)); [field; exact Hnz|].
  rewrite <- Hnu. field. exact Hnz.
Qed.

Lemma hv_ip_col : ip m v c = nu / two.
Proof.
  rewrite ip_v_from.
  rewrite (sumf_ext K (m - S k) _ (fun t => c (S k + t)%nat * cj (c (S k + t)%nat))) by (intros; ring).
  fold T.
  assert (E := hh_half (c k) T sg p rho nu Hsg Hsgr Hp Hrho Hrhor Hnu).
  transitivity ((two * (cj u * c k + T)) / (two * nu)); [field; repeat split; first [exact Hnz | exact H2]|].
  unfold u, alpha. rewrite E. field. repeat split; first [exact Hnz | exact H2].
Qed.

(* H maps the column to alpha e_k (rows >= k); rows < k are untouched *)
Lemma hv_col_k : Hf m v c k = alpha.
Proof. unfold Hf. rewrite hv_ip_col, hv_k. unfold u. field. repeat split; first [exact Hnz | exact H2]. Qed.
Lemma hv_col_above t : Hf m v c (S k + t)%nat = 0.
Proof. unfold Hf. rewrite hv_ip_col, hv_above. field. repeat split; first [exact Hnz | exact H2]. Qed.
Lemma hv_below_id y r : r < k -> Hf m v y r = y r.
Proof. intros H. unfold Hf. rewrite hv_below by auto. ring. Qed.
End Vector.
End Alg.
