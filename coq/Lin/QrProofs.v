(* Proofs about the Householder-QR model QrModel.v (property C19): the sweep invariant
   R_k = H_(k-1) ... H_0 A with unit reflection vectors, what a run looks like (finite, or stopped at the
   first column that depends on the previous ones), the rank rule, kernel characterisation.
   Laws of sqrt() / cexp(I carg()) enter only as the per-run premise [run_laws]; the ordered-field fact
   "a sum of squared moduli vanishes only if every term does" is the Section hypothesis [sos_zero]
   (discharged at Q[i] in QrQIProofs.v).  Algebra of one reflection: QrAlg.v. *)
Require Import List Arith Lia Bool.
Import ListNotations.
Require Import LV.Base.CField LV.Lin.MatL LV.Lin.LuGenA LV.Lin.QrModel LV.Lin.QrAlg.
Local Open Scope nat_scope.
Local Open Scope cf_scope.

Section QrP.
Variable K : CField.
Add Field KfQrP : (cth K).
Hypothesis cj_0 : cj (0 : K) = 0.
Hypothesis cj_1 : cj (1 : K) = 1.
Hypothesis cj_add : forall x y : K, cj (x + y) = cj x + cj y.
Hypothesis cj_mul : forall x y : K, cj (x * y) = cj x * cj y.
Hypothesis cj_cj : forall x : K, cj (cj x) = x.
Hypothesis H2 : char_ok K.
(* the squared moduli live in a formally real field: a sum of squared moduli vanishes only if every term does *)
Hypothesis sos_zero : forall n (f : nat -> K),
  sumf n (fun i => f i * cj (f i)) = 0 -> forall i, i < n -> f i = 0.
Variable nrm : K -> K.
Variable phase : K -> K.
Variable isz : K -> bool.
Hypothesis isz_spec : forall x, isz x = true <-> x = 0.

Notation mat := (mat K).
Notation qr_state := (qr_state K).
Notation qrd_step := (qrd_step K nrm phase isz).
Notation qrd_upto := (qrd_upto K nrm phase isz).
Notation qrd := (qrd K nrm phase isz).
Notation qr_alpha := (qr_alpha K nrm phase).
Notation qr_norm := (qr_norm K nrm phase).
Notation ip := (ip K).
Notation Hf := (Hf K).

(* the law instances used at one diagonal k of a run on the array a: what sqrt() and
   cexp(I carg()) satisfy on the values met *)
Definition step_laws (m : nat) (a : mat) (k : nat) : Prop :=
  let akk := mget K a k k in
  let sub := qr_subdot K m a k in
  let s := cabs2 K akk + sub in
  let s' := cabs2 K (akk - qr_alpha m a k) + sub in
  nrm s * nrm s = s /\ cj (nrm s) = nrm s /\
  phase akk * cj (phase akk) = 1 /\ cj (phase akk) * akk = nrm (cabs2 K akk) /\
  cj (nrm (cabs2 K akk)) = nrm (cabs2 K akk) /\
  nrm s' * nrm s' = s' /\ cj (nrm s') = nrm s'.

Definition run_laws (m n : nat) (a : mat) (cnt : nat) : Prop :=
  forall k, k < cnt -> qr_nan K (qrd_upto m n a k) = None -> step_laws m (qr_a K (qrd_upto m n a k)) k.

Lemma isz_false x : isz x = false <-> x <> 0.
Proof.
  split.
  - intros H E. apply isz_spec in E. congruence.
  - intros H. destruct (isz x) eqn:E; auto. apply isz_spec in E. contradiction.
Qed.

Lemma sq_zero (x : K) : x * x = 0 -> x = 0.
Proof.
  intros Hx. destruct (isz x) eqn:Ez; [apply isz_spec; auto|]. exfalso.
  assert (Hn := proj1 (isz_false x) Ez). apply Hn.
  replace x with ((x * x) / x) by (field; exact Hn). rewrite Hx. field. exact Hn.
Qed.

Lemma two_zero (x : K) : two * x = 0 -> x = 0.
Proof.
  intros Hx. replace x with ((two * x) / two) by (field; exact H2). rewrite Hx. field. exact H2.
Qed.

(* ---------- the model's sums as sumf ---------- *)
Lemma subdot_sumf m a k :
  qr_subdot K m a k = sumf (m - S k) (fun t => mget K a (S k + t) k * cj (mget K a (S k + t) k)).
Proof.
  unfold qr_subdot. rewrite (fold_add_seq K (m - S k) (S k) (fun row => cabs2 K (mget K a row k))).
  unfold cabs2. ring.
Qed.

(* the reflection vector of step k as a function of the row (zero above the diagonal) *)
Definition vfn (m : nat) (a : mat) (k : nat) : nat -> K :=
  fun r => if r <? k then 0
           else (if r =? k then mget K a k k - qr_alpha m a k else mget K a r k) / qr_norm m a k.

Lemma nth_qr_v m a k r : r < m -> k <= r -> nth r (qr_v K nrm phase m a k) 0 = vfn m a k r.
Proof.
  intros Hr Hk. unfold qr_v, vfn. rewrite nth_map_seq by auto.
  destruct (Nat.ltb_spec r k); [lia|reflexivity].
Qed.

Lemma qr_temp_ip m a k j : k <= m ->
  qr_temp K m a k (qr_v K nrm phase m a k) j = ip m (vfn m a k) (fun r => mget K a r j).
Proof.
  intros Hk. unfold qr_temp, QrAlg.ip.
  rewrite (fold_add_seq K (m - k) k (fun row => cj (nth row (qr_v K nrm phase m a k) 0) * mget K a row j)).
  rewrite <- (sumf_cut_ge K m k (fun r => cj (nth r (qr_v K nrm phase m a k) 0) * mget K a r j)) by auto.
  transitivity (sumf m (fun r => if k <=? r then cj (nth r (qr_v K nrm phase m a k) 0) * mget K a r j else 0)); [ring|].
  apply sumf_ext. intros r Hr. destruct (Nat.leb_spec k r).
  - rewrite nth_qr_v by auto. reflexivity.
  - unfold vfn. destruct (Nat.ltb_spec r k); [|lia]. rewrite cj_0. ring.
Qed.

(* one finite step, entry by entry *)
Lemma step_entries m n a d k : wf m n a -> k < m -> k < n -> isz (qr_norm m a k) = false ->
  let st' := qrd_step m n (QrS K a d None) k in
  qr_nan K st' = None /\ qr_d K st' = d ++ [qr_alpha m a k] /\ wf m n (qr_a K st') /\
  forall i j, i < m -> j < n ->
    mget K (qr_a K st') i j =
      if (k <=? i) && (k <=? j) then
        if j =? k then vfn m a k i
        else mget K a i j - two * ip m (vfn m a k) (fun r => mget K a r j) * vfn m a k i
      else mget K a i j.
Proof.
  intros Hw Hkm Hkn Hz. unfold QrModel.qrd_step. cbn [qr_nan qr_a qr_d]. rewrite Hz. cbn [qr_nan qr_a qr_d].
  split; [reflexivity|]. split; [reflexivity|]. split; [apply wf_mbuild|].
  intros i j Hi Hj. rewrite mget_mbuild by auto.
  destruct (Nat.leb_spec k i); cbn [andb]; [|reflexivity].
  destruct (Nat.leb_spec k j); [|reflexivity].
  destruct (Nat.eqb_spec j k).
  - apply nth_qr_v; auto.
  - rewrite nth_map_seq by auto. rewrite qr_temp_ip by lia. rewrite nth_qr_v by auto. reflexivity.
Qed.

Lemma step_stop m n a d k : isz (qr_norm m a k) = true ->
  qrd_step m n (QrS K a d None) k = QrS K a (d ++ [qr_alpha m a k]) (Some k).
Proof. intros Hz. unfold QrModel.qrd_step. cbn [qr_nan qr_a qr_d]. rewrite Hz. reflexivity. Qed.

Lemma step_nan m n st k j : qr_nan K st = Some j -> qrd_step m n st k = st.
Proof. intros H. unfold QrModel.qrd_step. rewrite H. reflexivity. Qed.

Lemma upto_S m n a cnt : qrd_upto m n a (S cnt) = qrd_step m n (qrd_upto m n a cnt) cnt.
Proof. unfold QrModel.qrd_upto. rewrite seq_S, fold_left_app. reflexivity. Qed.

(* ---------- one step under the laws ---------- *)
Section Step.
Variables (m n : nat) (a : mat) (k : nat).
Hypothesis Hkm : k < m.
Hypothesis HL : step_laws m a k.
Let c := fun r => mget K a r k.
Let T := sumf (m - S k) (fun t => c (S k + t) * cj (c (S k + t))).
Let sg := nrm (c k * cj (c k) + T).
Let alpha := qr_alpha m a k.
Let nu := qr_norm m a k.

Lemma laws_unpack :
  sg * sg = c k * cj (c k) + T /\ cj sg = sg /\ phase (c k) * cj (phase (c k)) = 1 /\
  cj (phase (c k)) * c k = nrm (c k * cj (c k)) /\ cj (nrm (c k * cj (c k))) = nrm (c k * cj (c k)) /\
  alpha = (- phase (c k)) * sg /\
  nu * nu = (c k - alpha) * cj (c k - alpha) + T /\ cj nu = nu.
Proof.
  destruct HL as (L1 & L2 & L3 & L4 & L5 & L6 & L7).
  unfold sg, alpha, nu, QrModel.qr_norm, QrModel.qr_alpha, T, c in *.
  rewrite subdot_sumf in *. unfold cabs2 in *. repeat split; assumption.
Qed.

(* the column from the diagonal down is zero <-> its squared norm is <-> nu is *)
Lemma col_zero_s : (forall r, k <= r < m -> c r = 0) -> c k * cj (c k) + T = 0.
Proof.
  intros Hz. unfold T. rewrite (sumf_zero K (m - S k)).
  2:{ intros t Ht. rewrite Hz by lia. ring. }
  rewrite Hz by lia. ring.
Qed.

Lemma s_zero_col : c k * cj (c k) + T = 0 -> forall r, k <= r < m -> c r = 0.
Proof.
  intros E r Hr.
  assert (E' : sumf (m - k) (fun t => c (k + t) * cj (c (k + t))) = 0).
  { replace (m - k)%nat with (1 + (m - S k))%nat by lia. rewrite sumf_split. simpl. rewrite Nat.add_0_r.
    rewrite (sumf_ext K (m - S k) _ (fun t => c (S k + t) * cj (c (S k + t)))).
    2:{ intros t _. replace (k + S t)%nat with (S k + t)%nat by lia. reflexivity. }
    fold T. transitivity (c k * cj (c k) + T); [ring|exact E]. }
  replace r with (k + (r - k))%nat by lia. apply (sos_zero (m - k)%nat (fun t => c (k + t)%nat) E'). lia.
Qed.

Lemma nu_zero_iff : nu = 0 <-> (forall r, k <= r < m -> c r = 0).
Proof.
  destruct laws_unpack as (Lsg & Lsgr & Lp & Lrho & Lrhor & La & Lnu & Lnur).
  split.
  - intros Hn.
    (* nu = 0: |u|^2 + T = 0, so u = 0 and the rows below vanish *)
    set (f := fun t => if t =? 0 then c k - alpha else c (k + t)).
    assert (E' : sumf (m - k) (fun t => f t * cj (f t)) = 0).
    { replace (m - k)%nat with (1 + (m - S k))%nat by lia. rewrite sumf_split. simpl. try rewrite Nat.add_0_r.
      rewrite (sumf_ext K (m - S k) _ (fun t => c (S k + t) * cj (c (S k + t)))).
      2:{ intros t _. unfold f. simpl. replace (k + S t)%nat with (S (k + t))%nat by lia. reflexivity. }
      fold T. unfold f. simpl. transitivity ((c k - alpha) * cj (c k - alpha) + T); [ring|]. rewrite <- Lnu, Hn. ring. }
    assert (Hu : c k - alpha = 0).
    { apply (sos_zero (m - k)%nat f E' 0%nat). lia. }
    assert (Hbelow : forall r, k < r < m -> c r = 0).
    { intros r Hr. assert (Hf := sos_zero (m - k) f E' (r - k)). unfold f in Hf.
      destruct (Nat.eqb_spec (r - k)%nat 0%nat); [lia|]. replace (k + (r - k))%nat with r in Hf by lia. apply Hf. lia. }
    assert (HT : T = 0).
    { unfold T. apply sumf_zero. intros t Ht. rewrite Hbelow by lia. ring. }
    (* then c k = alpha = -p sg, rho = cj p * c k = -sg, and rho = sg because T = 0 *)
    assert (Hck : c k = alpha) by (replace (c k) with ((c k - alpha) + alpha) by ring; rewrite Hu; ring).
    assert (Hrs : nrm (c k * cj (c k)) = sg).
    { unfold sg. rewrite HT. f_equal. ring. }
    assert (Hsg0 : sg = 0).
    { assert (E : sg = - sg).
      { rewrite <- Hrs at 1. rewrite <- Lrho. rewrite Hck at 2. rewrite La.
        transitivity (- ((phase (c k) * cj (phase (c k))) * sg)); [ring|]. rewrite Lp. ring. }
      apply two_zero. unfold two. transitivity (sg + sg); [ring|]. rewrite E at 2. ring. }
    apply s_zero_col. rewrite <- Lsg, Hsg0. ring.
  - intros Hz. assert (Es := col_zero_s Hz).
    assert (Hsg0 : sg * sg = 0) by (rewrite Lsg; exact Es).
    assert (Hsg : sg = 0) by (apply sq_zero; exact Hsg0).
    assert (Ha : alpha = 0) by (rewrite La, Hsg; ring).
    assert (HT : T = 0).
    { unfold T. apply sumf_zero. intros t Ht. rewrite Hz by lia. ring. }
    assert (Hnn : nu * nu = 0).
    { rewrite Lnu, Ha, HT, (Hz k) by lia. ring. }
    apply sq_zero; exact Hnn.
Qed.

Lemma alpha_zero_if_col_zero : (forall r, k <= r < m -> c r = 0) -> alpha = 0.
Proof.
  destruct laws_unpack as (Lsg & Lsgr & Lp & Lrho & Lrhor & La & Lnu & Lnur).
  intros Hz. assert (Es := col_zero_s Hz).
  assert (Hsg0 : sg * sg = 0) by (rewrite Lsg; exact Es).
  assert (Hsg : sg = 0) by (apply sq_zero; exact Hsg0).
  rewrite La, Hsg. ring.
Qed.

Lemma alpha_nz_if_nu_nz : nu <> 0 -> alpha <> 0.
Proof.
  destruct laws_unpack as (Lsg & Lsgr & Lp & Lrho & Lrhor & La & Lnu & Lnur).
  intros Hn Ha. apply Hn. apply nu_zero_iff. apply s_zero_col.
  rewrite <- Lsg.
  assert (Hsg : sg = 0).
  { transitivity (- (cj (phase (c k)) * alpha)).
    - rewrite La. transitivity ((phase (c k) * cj (phase (c k))) * sg); [rewrite Lp; ring|ring].
    - rewrite Ha. ring. }
  rewrite Hsg. ring.
Qed.

(* the reflection of a finite step: unit vector, column k goes to alpha e_k *)
Hypothesis Hnz : nu <> 0.

Let valg := fun r => if r <? k then 0
                     else (if r =? k then c k - (- phase (c k)) * sg else c r) / nu.

Lemma vfn_alg r : vfn m a k r = valg r.
Proof.
  destruct laws_unpack as (Lsg & Lsgr & Lp & Lrho & Lrhor & La & Lnu & Lnur).
  unfold vfn, valg. change (qr_alpha m a k) with alpha. change (qr_norm m a k) with nu.
  rewrite La. reflexivity.
Qed.

Lemma nu_alg : nu * nu = (c k - (- phase (c k)) * sg) * cj (c k - (- phase (c k)) * sg) + T.
Proof.
  destruct laws_unpack as (Lsg & Lsgr & Lp & Lrho & Lrhor & La & Lnu & Lnur).
  rewrite <- La. exact Lnu.
Qed.

Lemma vfn_unit : ip m (vfn m a k) (vfn m a k) = 1.
Proof.
  destruct laws_unpack as (Lsg & Lsgr & Lp & Lrho & Lrhor & La & Lnu & Lnur).
  rewrite (ip_ext K m _ _ valg valg) by (intros; apply vfn_alg).
  exact (hv_unit K cj_0 cj_mul cj_cj m k c Hkm sg (phase (c k)) nu nu_alg Lnur Hnz).
Qed.

(* H_k applied to column k: alpha on the diagonal, zero below, rows above untouched *)
Lemma vfn_col i : i < m ->
  Hf m (vfn m a k) c i = if i <? k then c i else if i =? k then alpha else 0.
Proof.
  destruct laws_unpack as (Lsg & Lsgr & Lp & Lrho & Lrhor & La & Lnu & Lnur).
  intros Hi.
  rewrite (Hf_ext K m _ valg c c) by (auto; intros; apply vfn_alg).
  destruct (Nat.ltb_spec i k).
  - apply (hv_below_id K m k c Hkm sg (phase (c k)) nu). exact H.
  - destruct (Nat.eqb_spec i k).
    + subst i. rewrite La.
      exact (hv_col_k K cj_0 cj_add cj_mul cj_cj H2 m k c Hkm sg (phase (c k)) _ nu
               Lsg Lsgr Lp Lrho Lrhor nu_alg Lnur Hnz).
    + replace i with (S k + (i - S k))%nat by lia.
      exact (hv_col_above K cj_0 cj_add cj_mul cj_cj H2 m k c Hkm sg (phase (c k)) _ nu
               Lsg Lsgr Lp Lrho Lrhor nu_alg Lnur Hnz (i - S k)%nat).
Qed.

Lemma vfn_below r : r < k -> vfn m a k r = 0.
Proof. intros H. unfold vfn. destruct (Nat.ltb_spec r k); [reflexivity|lia]. Qed.
End Step.

(* ---------- the sweep invariant ---------- *)
(* the matrix the state stands for after k diagonals: finished columns are (R above, d on, 0 below the
   diagonal); the other columns are stored as they are *)
Definition Lg (a : mat) (d : list K) (k : nat) : nat -> nat -> K :=
  fun i j => if j <? k then (if i =? j then nth j d 0 else if i <? j then mget K a i j else 0)
             else mget K a i j.
(* the reflection vector of diagonal t as stored in the array (zero above the diagonal) *)
Definition vst (a : mat) (t : nat) : nat -> K := fun r => if r <? t then 0 else mget K a r t.
(* H_(k-1) ( ... (H_0 x)): the reflections in the order the code applies them *)
Fixpoint Tf (m : nat) (a : mat) (k : nat) (x : nat -> K) : nat -> K :=
  match k with O => x | S k' => Hf m (vst a k') (Tf m a k' x) end.

Definition Inv (m n : nat) (A : mat) (k : nat) (st : qr_state) : Prop :=
  wf m n (qr_a K st) /\ length (qr_d K st) = k /\ qr_nan K st = None /\
  (forall t, t < k -> ip m (vst (qr_a K st) t) (vst (qr_a K st) t) = 1) /\
  (forall t, t < k -> nth t (qr_d K st) 0 <> 0) /\
  (forall i j, i < m -> j < n ->
     Lg (qr_a K st) (qr_d K st) k i j = Tf m (qr_a K st) k (fun r => mget K A r j) i).

Lemma Tf_ext m a a' k : (forall t r, t < k -> r < m -> vst a t r = vst a' t r) ->
  forall x x', (forall r, r < m -> x r = x' r) -> forall i, i < m -> Tf m a k x i = Tf m a' k x' i.
Proof.
  induction k; intros Hv x x' Hx i Hi; simpl; auto.
  apply (Hf_ext K); auto; intros r Hr; apply IHk; auto.
Qed.

Lemma Tf_zero m a k i : Tf m a k (fun _ => 0) i = 0.
Proof.
  revert i. induction k; intros i; simpl; auto.
  unfold QrAlg.Hf. rewrite IHk.
  unfold QrAlg.ip. rewrite (sumf_zero K m) by (intros r _; rewrite IHk; ring). ring.
Qed.

Lemma Tf_lin m n' a k (X : nat -> nat -> K) (c : nat -> K) : forall i, i < m ->
  Tf m a k (fun r => sumf n' (fun j => X j r * c j)) i = sumf n' (fun j => Tf m a k (X j) i * c j).
Proof.
  induction k; intros i Hi; simpl; auto.
  rewrite <- (Hf_lin K m n' (vst a k) (fun j => Tf m a k (X j)) c i).
  apply (Hf_ext K); auto.
Qed.

Lemma Tf_ip m a k : (forall t, t < k -> ip m (vst a t) (vst a t) = 1) ->
  forall x y, ip m (Tf m a k x) (Tf m a k y) = ip m x y.
Proof.
  induction k; intros Hu x y; simpl; auto.
  rewrite (ip_Hf K cj_0 cj_1 cj_add cj_mul cj_cj m (vst a k)) by (apply Hu; lia).
  apply IHk. intros t Ht. apply Hu. lia.
Qed.

Lemma Inv_0 m n A : wf m n A -> Inv m n A 0 (QrS K A [] None).
Proof.
  intros Hw. unfold Inv. cbn [qr_a qr_d qr_nan].
  split; [exact Hw|]. split; [reflexivity|]. split; [reflexivity|].
  split; [intros; lia|]. split; [intros; lia|].
  intros i j Hi Hj. unfold Lg. simpl. reflexivity.
Qed.

Lemma Inv_step m n A k st : Inv m n A k st -> k < m -> k < n ->
  step_laws m (qr_a K st) k -> qr_norm m (qr_a K st) k <> 0 ->
  Inv m n A (S k) (qrd_step m n st k).
Proof.
  destruct st as [a d nan]. unfold Inv. cbn [qr_a qr_d qr_nan].
  intros (Hw & Hl & Hn & Hu & Hd & HL) Hkm Hkn Hlaws Hnz. subst nan.
  destruct (step_entries m n a d k Hw Hkm Hkn (proj2 (isz_false _) Hnz)) as (E1 & E2 & E3 & E4).
  set (st' := qrd_step m n (QrS K a d None) k) in *.
  assert (Hcol : forall t r, t < k -> r < m -> vst (qr_a K st') t r = vst a t r).
  { intros t r Ht Hr. unfold vst. destruct (Nat.ltb_spec r t); auto.
    rewrite E4 by lia. destruct (Nat.leb_spec k t); [lia|]. rewrite andb_false_r. reflexivity. }
  assert (Hvk : forall r, r < m -> vst (qr_a K st') k r = vfn m a k r).
  { intros r Hr. unfold vst. destruct (Nat.ltb_spec r k).
    - symmetry. apply vfn_below; assumption.
    - rewrite E4 by lia. destruct (Nat.leb_spec k r); [|lia]. rewrite Nat.leb_refl, Nat.eqb_refl. reflexivity. }
  split; [exact E3|]. split; [rewrite E2, app_length, Hl; simpl; lia|]. split; [exact E1|].
  split; [|split].
  - intros t Ht. destruct (Nat.eq_dec t k).
    + subst t. rewrite (ip_ext K m _ _ (vfn m a k) (vfn m a k)) by auto.
      apply vfn_unit; auto.
    + rewrite (ip_ext K m _ _ (vst a t) (vst a t)) by (intros; apply Hcol; lia). apply Hu. lia.
  - intros t Ht. rewrite E2. destruct (Nat.eq_dec t k).
    + subst t. rewrite app_nth2 by lia. rewrite Hl, Nat.sub_diag. cbn [nth]. apply alpha_nz_if_nu_nz; auto.
    + rewrite app_nth1 by lia. apply Hd. lia.
  - intros i j Hi Hj. cbn [Tf].
    rewrite (Hf_ext K m _ (vfn m a k) _ (fun r => Lg a d k r j)); auto.
    2:{ intros r Hr. rewrite (Tf_ext m _ a k) with (x' := fun r0 => mget K A r0 j); auto.
        symmetry. apply HL; auto. }
    unfold Lg at 1. rewrite E2.
    destruct (Nat.ltb_spec j k) as [Hjk|Hjk].
    + (* finished column: untouched *)
      destruct (Nat.ltb_spec j (S k)); [|lia].
      assert (Hip : ip m (vfn m a k) (fun r => Lg a d k r j) = 0).
      { unfold QrAlg.ip. apply sumf_zero. intros r Hr. destruct (Nat.lt_ge_cases r k).
        - rewrite vfn_below by auto. rewrite cj_0. ring.
        - unfold Lg. destruct (Nat.ltb_spec j k); [|lia].
          destruct (Nat.eqb_spec r j); [lia|]. destruct (Nat.ltb_spec r j); [lia|]. ring. }
      unfold QrAlg.Hf. rewrite Hip. unfold Lg. destruct (Nat.ltb_spec j k); [|lia].
      rewrite app_nth1 by lia. rewrite E4 by auto.
      destruct (Nat.leb_spec k j); [lia|]. rewrite andb_false_r.
      destruct (i =? j); [ring|]. destruct (i <? j); ring.
    + destruct (Nat.eq_dec j k) as [Ejk|Ejk].
      * (* the column of this diagonal *)
        subst j. destruct (Nat.ltb_spec k (S k)); [|lia].
        rewrite (Hf_ext K m (vfn m a k) (vfn m a k) _ (fun r => mget K a r k)); auto.
        2:{ intros r Hr. unfold Lg. rewrite Nat.ltb_irrefl. reflexivity. }
        rewrite vfn_col by auto. rewrite app_nth2 by lia. rewrite Hl, Nat.sub_diag. cbn [nth].
        destruct (Nat.eqb_spec i k).
        -- subst i. rewrite Nat.ltb_irrefl. reflexivity.
        -- destruct (Nat.ltb_spec i k); auto.
           rewrite E4 by auto. destruct (Nat.leb_spec k i); [lia|]. reflexivity.
      * (* a later column *)
        destruct (Nat.ltb_spec j (S k)); [lia|].
        rewrite E4 by auto. destruct (Nat.leb_spec k j); [|lia]. destruct (Nat.eqb_spec j k); [lia|].
        rewrite (Hf_ext K m (vfn m a k) (vfn m a k) _ (fun r => mget K a r j)); auto.
        2:{ intros r Hr. unfold Lg. destruct (Nat.ltb_spec j k); [lia|]. reflexivity. }
        unfold QrAlg.Hf. destruct (Nat.leb_spec k i); cbn [andb]; [reflexivity|].
        rewrite vfn_below by auto. ring.
Qed.

(* ---------- what a run of the sweep looks like ---------- *)
Definition col_zero_from (m : nat) (a : mat) (k : nat) : Prop := forall r, k <= r < m -> mget K a r k = 0.

Lemma run_laws_le m n A c c' : c <= c' -> run_laws m n A c' -> run_laws m n A c.
Proof. intros H HL k Hk. apply HL. lia. Qed.

(* either every diagonal so far was finite (invariant), or the sweep stopped at the first diagonal k whose
   column is zero from the diagonal down, with d[k] = 0 *)
Lemma run_char m n A cnt : wf m n A -> cnt <= m -> cnt <= n -> run_laws m n A cnt ->
  Inv m n A cnt (qrd_upto m n A cnt) \/
  exists k, k < cnt /\ Inv m n A k (qrd_upto m n A k) /\ col_zero_from m (qr_a K (qrd_upto m n A k)) k /\
            qrd_upto m n A cnt = QrS K (qr_a K (qrd_upto m n A k)) (qr_d K (qrd_upto m n A k) ++ [0]) (Some k).
Proof.
  intros Hw. induction cnt; intros Hm Hn HL.
  - left. apply Inv_0. exact Hw.
  - assert (HL' := run_laws_le m n A cnt (S cnt) (Nat.le_succ_diag_r cnt) HL).
    destruct (IHcnt ltac:(lia) ltac:(lia) HL') as [HI | (k & Hk & HI & Hz & Hs)].
    + assert (Hnan : qr_nan K (qrd_upto m n A cnt) = None) by (destruct HI as (_ & _ & Hx & _); exact Hx).
      assert (Hlaws := HL cnt (Nat.lt_succ_diag_r cnt) Hnan).
      rewrite upto_S.
      destruct (isz (qr_norm m (qr_a K (qrd_upto m n A cnt)) cnt)) eqn:Ez.
      * right. exists cnt. split; [lia|]. split; [exact HI|].
        apply isz_spec in Ez.
        assert (Hcz : col_zero_from m (qr_a K (qrd_upto m n A cnt)) cnt).
        { unfold col_zero_from. exact (proj1 (nu_zero_iff m (qr_a K (qrd_upto m n A cnt)) cnt ltac:(lia) Hlaws) Ez). }
        split; [exact Hcz|].
        destruct (qrd_upto m n A cnt) as [a d nan]. cbn [qr_a qr_d qr_nan] in *. subst nan.
        rewrite step_stop by (apply isz_spec; exact Ez).
        rewrite (alpha_zero_if_col_zero m a cnt ltac:(lia) Hlaws Hcz). reflexivity.
      * left. apply Inv_step; auto; try lia. apply isz_false. exact Ez.
    + right. exists k. split; [lia|]. split; [exact HI|]. split; [exact Hz|].
      rewrite upto_S, Hs. apply (step_nan m n _ cnt k). reflexivity.
Qed.

(* ---------- kernel ---------- *)
Definition in_ker (m n : nat) (A : mat) (x : nat -> K) : Prop :=
  forall i, i < m -> sumf n (fun j => mget K A i j * x j) = 0.
Definition ker_trivial (m n : nat) (A : mat) : Prop :=
  forall x, in_ker m n A x -> forall j, j < n -> x j = 0.

Lemma Inv_image m n A k st x : Inv m n A k st -> forall i, i < m ->
  Tf m (qr_a K st) k (fun r => sumf n (fun j => mget K A r j * x j)) i =
  sumf n (fun j => Lg (qr_a K st) (qr_d K st) k i j * x j).
Proof.
  intros (Hw & Hl & Hn & Hu & Hd & HL) i Hi.
  rewrite (Tf_lin m n (qr_a K st) k (fun j r => mget K A r j) x i Hi).
  apply sumf_ext. intros j Hj. rewrite HL by auto. reflexivity.
Qed.

(* A x = 0  <->  (H_(k-1) ... H_0 A) x = 0 *)
Lemma Inv_ker m n A k st x : Inv m n A k st ->
  (in_ker m n A x <-> forall i, i < m -> sumf n (fun j => Lg (qr_a K st) (qr_d K st) k i j * x j) = 0).
Proof.
  intros HI. split.
  - intros Hx i Hi. rewrite <- (Inv_image m n A k st x HI i Hi).
    rewrite (Tf_ext m (qr_a K st) (qr_a K st) k ltac:(auto) _ (fun _ => 0)); auto.
    apply Tf_zero.
  - intros Hx.
    set (z := fun r => sumf n (fun j => mget K A r j * x j)).
    assert (Hz : ip m z z = 0).
    { assert (HI' := HI). destruct HI as (Hw & Hl & Hn & Hu & Hd & HL).
      rewrite <- (Tf_ip m (qr_a K st) k Hu z z).
      unfold QrAlg.ip. apply sumf_zero. intros i Hi.
    
      unfold z at 2. rewrite (Inv_image m n A k st x HI' i Hi), Hx by auto. ring. }
    intros i Hi. fold (z i).
    apply (sos_zero m z); auto.
    rewrite <- Hz. unfold QrAlg.ip. apply sumf_ext. intros; ring.
Qed.

(* an upper triangular system with nonzero diagonal has a solution *)
Lemma tri_solve k (U : nat -> nat -> K) (rhs : nat -> K) : (forall i, i < k -> U i i <> 0) ->
  forall t, t <= k -> exists x : nat -> K, forall i, k - t <= i < k ->
    sumf k (fun j => if i <=? j then U i j * x j else 0) = rhs i.
Proof.
  intros Hd. induction t; intros Ht.
  - exists (fun _ => 0). intros i Hi. lia.
  - destruct (IHt ltac:(lia)) as (x & Hx).
    set (i0 := (k - S t)%nat).
    set (rest := sumf k (fun j => if i0 <? j then U i0 j * x j else 0)).
    exists (fun j => if j =? i0 then (rhs i0 - rest) / U i0 i0 else x j).
    intros i Hi. destruct (Nat.eq_dec i i0) as [E|E].
    + subst i.
      rewrite (sumf_ext K k _ (fun j => (if j =? i0 then U i0 j * ((rhs i0 - rest) / U i0 i0) else 0)
                                        + (if i0 <? j then U i0 j * x j else 0))).
      2:{ intros j Hj. destruct (Nat.eqb_spec j i0).
          - subst j. rewrite Nat.leb_refl, Nat.ltb_irrefl. ring.
          - destruct (Nat.leb_spec i0 j); destruct (Nat.ltb_spec i0 j); try lia; ring. }
      rewrite sumf_add. fold rest.
      rewrite (sumf_single K k i0 (fun j => U i0 j * ((rhs i0 - rest) / U i0 i0))) by (unfold i0; lia).
      field. apply Hd. unfold i0; lia.
    + rewrite <- (Hx i) by (unfold i0 in *; lia).
      apply sumf_ext. intros j Hj. destruct (Nat.leb_spec i j); auto.
      destruct (Nat.eqb_spec j i0); [unfold i0 in *; lia|reflexivity].
Qed.

(* P1: a finished sweep with nonzero diagonal: only the zero vector is mapped to zero *)
Lemma Inv_full_ker_trivial m n A st : n <= m -> Inv m n A n st -> ker_trivial m n A.
Proof.
  intros Hnm HI x Hx.
  assert (Hx' := proj1 (Inv_ker m n A n st x HI) Hx).
  destruct HI as (Hw & Hl & Hn & Hu & Hd & HL).
  assert (Hall : forall t, t <= n -> forall j, n - t <= j < n -> x j = 0).
  { induction t; intros Ht j Hj; [lia|].
    destruct (Nat.eq_dec j (n - S t)) as [E|E]; [|apply IHt; lia].
    assert (Hrow := Hx' j ltac:(lia)).
    rewrite (sumf_ext K n _ (fun j' => if j' =? j then nth j (qr_d K st) 0 * x j' else 0)) in Hrow.
    2:{ intros j' Hj'. unfold Lg. destruct (Nat.ltb_spec j' n); [|lia].
        destruct (Nat.eqb_spec j' j).
        - subst j'. rewrite Nat.eqb_refl. reflexivity.
        - destruct (Nat.eqb_spec j j'); [lia|]. destruct (Nat.ltb_spec j j').
          + rewrite (IHt ltac:(lia) j') by lia. ring.
          + ring. }
    rewrite (sumf_single K n j (fun j' => nth j (qr_d K st) 0 * x j')) in Hrow by lia.
    assert (Hdj := Hd j ltac:(lia)).
    replace (x j) with ((nth j (qr_d K st) 0 * x j) / nth j (qr_d K st) 0) by (field; exact Hdj).
    rewrite Hrow. field. exact Hdj. }
  intros j Hj. apply (Hall n (le_n n)). lia.
Qed.

(* P2: a sweep that stops at diagonal k: a kernel vector with x_k = 1 *)
Lemma stop_kernel m n A k st : k < m -> k < n -> Inv m n A k st -> col_zero_from m (qr_a K st) k ->
  exists x, in_ker m n A x /\ x k = 1.
Proof.
  intros Hkm Hkn HI Hz.
  set (a := qr_a K st). set (d := qr_d K st).
  destruct (tri_solve k (Lg a d k) (fun i => - mget K a i k)) with (t := k) as (y & Hy); auto.
  { intros i Hi. unfold Lg. destruct (Nat.ltb_spec i k); [|lia]. rewrite Nat.eqb_refl.
    destruct HI as (_ & _ & _ & _ & Hd & _). apply Hd. exact Hi. }
  exists (fun j => if j <? k then y j else if j =? k then 1 else 0).
  split; [|rewrite Nat.ltb_irrefl, Nat.eqb_refl; reflexivity].
  apply (proj2 (Inv_ker m n A k st _ HI)). fold a d. intros i Hi.
  replace n with (k + (1 + (n - S k)))%nat by lia. rewrite sumf_split, sumf_split. simpl.
  rewrite Nat.add_0_r, Nat.ltb_irrefl, Nat.eqb_refl.
  rewrite (sumf_zero K (n - S k)).
  2:{ intros j Hj. destruct (Nat.ltb_spec (k + S j) k); [lia|]. destruct (Nat.eqb_spec (k + S j) k); [lia|]. ring. }
  assert (Ekk : Lg a d k i k = mget K a i k) by (unfold Lg; rewrite Nat.ltb_irrefl; reflexivity).
  rewrite Ekk.
  destruct (Nat.lt_ge_cases i k) as [Hik|Hik].
  - assert (E := Hy i ltac:(lia)).
    rewrite (sumf_ext K k _ (fun j => if i <=? j then Lg a d k i j * y j else 0)).
    2:{ intros j Hj. destruct (Nat.ltb_spec j k); [|lia]. destruct (Nat.leb_spec i j); auto.
        unfold Lg. destruct (Nat.ltb_spec j k); [|lia]. destruct (Nat.eqb_spec i j); [lia|].
        destruct (Nat.ltb_spec i j); [lia|]. ring. }
    rewrite E. ring.
  - rewrite (sumf_zero K k).
    2:{ intros j Hj. unfold Lg. destruct (Nat.ltb_spec j k); [|lia]. destruct (Nat.eqb_spec i j); [lia|].
        destruct (Nat.ltb_spec i j); [lia|]. ring. }
    rewrite (Hz i ltac:(lia) : mget K a i k = 0). ring.
Qed.

(* ---------- the rank rule ---------- *)
Lemma rank_all_nz (d : list K) : (forall t, t < length d -> nth t d 0 <> 0) ->
  length (filter (fun x => negb (isz x)) d) = length d.
Proof.
  induction d as [|x d IH]; intros H; simpl; auto.
  assert (Hx : isz x = false) by (apply isz_false; apply (H 0%nat); simpl; lia).
  rewrite Hx. simpl. f_equal. apply IH. intros t Ht. apply (H (S t)). simpl. lia.
Qed.

Lemma isz_0 : isz 0 = true.
Proof. apply isz_spec. reflexivity. Qed.

Lemma Inv_rank m n A k st : Inv m n A k st -> qr_rank K isz st = k.
Proof.
  intros (Hw & Hl & Hn & Hu & Hd & HL). unfold qr_rank. rewrite rank_all_nz; auto.
  rewrite Hl. exact Hd.
Qed.

Lemma stop_rank m n A k st : Inv m n A k st ->
  qr_rank K isz (QrS K (qr_a K st) (qr_d K st ++ [0]) (Some k)) = k.
Proof.
  intros HI. unfold qr_rank. cbn [qr_d]. rewrite filter_app, app_length. simpl. rewrite isz_0. simpl.
  rewrite Nat.add_0_r. exact (Inv_rank m n A k st HI).
Qed.

(* ---------- the theorems ---------- *)
(* (c) the rank reported by the sweep is n exactly when A has a trivial kernel; and then no diagonal
   is zero and nothing non-finite was computed.  Otherwise the sweep stops at the first diagonal k whose
   column is dependent on the previous ones, with rank k < n. *)
Theorem qr_rank_full_iff_trivial_kernel m n A : wf m n A -> n <= m -> run_laws m n A n ->
  (qr_rank K isz (qrd m n A) = n <-> ker_trivial m n A).
Proof.
  intros Hw Hnm HL. unfold QrModel.qrd. rewrite Nat.min_r by exact Hnm.
  destruct (run_char m n A n Hw Hnm (le_n n) HL) as [HI | (k & Hk & HI & Hz & Hs)].
  - split; intros _.
    + exact (Inv_full_ker_trivial m n A _ Hnm HI).
    + exact (Inv_rank m n A n _ HI).
  - split.
    + intros Hr. rewrite Hs, (stop_rank m n A k _ HI) in Hr. lia.
    + intros Hker. exfalso.
      destruct (stop_kernel m n A k _ ltac:(lia) Hk HI Hz) as (x & Hx & Hxk).
      assert (E := Hker x Hx k Hk). rewrite Hxk in E.
      exact (F_1_neq_0 (cth K) E).
Qed.

Theorem qr_outcome m n A : wf m n A -> n <= m -> run_laws m n A n ->
  (ker_trivial m n A /\ qr_nan K (qrd m n A) = None /\ qr_rank K isz (qrd m n A) = n /\
   forall t, t < n -> nth t (qr_d K (qrd m n A)) 0 <> 0) \/
  (exists k x, k < n /\ qr_nan K (qrd m n A) = Some k /\ qr_rank K isz (qrd m n A) = k /\
               nth k (qr_d K (qrd m n A)) 1 = 0 /\ in_ker m n A x /\ x k = 1).
Proof.
  intros Hw Hnm HL. unfold QrModel.qrd. rewrite Nat.min_r by exact Hnm.
  destruct (run_char m n A n Hw Hnm (le_n n) HL) as [HI | (k & Hk & HI & Hz & Hs)].
  - left. split; [exact (Inv_full_ker_trivial m n A _ Hnm HI)|].
    assert (Hr := Inv_rank m n A n _ HI).
    destruct HI as (Hw' & Hl & Hn & Hu & Hd & HL'). split; [exact Hn|].
    split; [exact Hr|exact Hd].
  - right. destruct (stop_kernel m n A k _ ltac:(lia) Hk HI Hz) as (x & Hx & Hxk).
    exists k, x. split; [exact Hk|]. rewrite Hs. cbn [qr_nan qr_d]. split; [reflexivity|].
    split; [exact (stop_rank m n A k _ HI)|]. split; [|split; assumption].
    destruct HI as (_ & Hl & _). rewrite app_nth2 by lia. rewrite Hl, Nat.sub_diag. reflexivity.
Qed.

(* (a)+(b) after a finite sweep the array holds R (d on the diagonal, the stored part above, zero below)
   and R = H_(n-1) ... H_0 A with unit reflection vectors: each H_t preserves every Hermitian inner product
   and is an involution, hence so does / A = H_0 ... H_(n-1) R *)
Theorem qr_sweep_factorisation m n A : wf m n A -> n <= m -> run_laws m n A n -> ker_trivial m n A ->
  let st := qrd m n A in
  (forall t, t < n -> ip m (vst (qr_a K st) t) (vst (qr_a K st) t) = 1) /\
  (forall x y, ip m (Tf m (qr_a K st) n x) (Tf m (qr_a K st) n y) = ip m x y) /\
  (forall i j, i < m -> j < n ->
     mget K (qr_R K m n st) i j = Tf m (qr_a K st) n (fun r => mget K A r j) i) /\
  (forall i j, i < m -> j < n -> j < i -> mget K (qr_R K m n st) i j = 0).
Proof.
  intros Hw Hnm HL Hker st.
  assert (HI : Inv m n A n st).
  { unfold st, QrModel.qrd. rewrite Nat.min_r by exact Hnm.
    destruct (run_char m n A n Hw Hnm (le_n n) HL) as [HI | (k & Hk & HI & Hz & Hs)]; auto.
    exfalso. destruct (stop_kernel m n A k _ ltac:(lia) Hk HI Hz) as (x & Hx & Hxk).
    assert (E := Hker x Hx k Hk). rewrite Hxk in E. exact (F_1_neq_0 (cth K) E). }
  destruct HI as (Hw' & Hl & Hn & Hu & Hd & HL').
  split; [exact Hu|]. split; [apply Tf_ip; exact Hu|].
  assert (HR : forall i j, i < m -> j < n ->
                 mget K (qr_R K m n st) i j = Lg (qr_a K st) (qr_d K st) n i j).
  { intros i j Hi Hj. unfold qr_R. rewrite mget_mbuild by auto. unfold Lg.
    destruct (Nat.ltb_spec j n); [|lia]. destruct (Nat.eqb_spec i j) as [E|E]; [rewrite E; reflexivity|reflexivity]. }
  split.
  - intros i j Hi Hj. rewrite HR by auto. apply HL'; auto.
  - intros i j Hi Hj Hji. rewrite HR by auto. unfold Lg. destruct (Nat.ltb_spec j n); [|lia].
    destruct (Nat.eqb_spec i j); [lia|]. destruct (Nat.ltb_spec i j); [lia|reflexivity].
Qed.

(* each reflection of the sweep, separately: unitary and involutive (statement (a)) *)
Theorem qr_reflection_unitary m (v : nat -> K) : ip m v v = 1 ->
  (forall x y, ip m (Hf m v x) (Hf m v y) = ip m x y) /\ (forall x i, Hf m v (Hf m v x) i = x i).
Proof.
  intros Hu. split.
  - apply (ip_Hf K cj_0 cj_1 cj_add cj_mul cj_cj m v Hu).
  - apply (Hf_invol K m v Hu).
Qed.
(* (d), mathematical core: c = H_(n-1) ... H_0 b is what the reflection loop of _vnacommon_qrsolve
   computes in B, and the back substitution solves R x = c (rows < n).  Any such x satisfies the normal
   equations A^H A x = A^H b. *)
Lemma Inv_normal_equations m n A st (b x : nat -> K) : n <= m -> Inv m n A n st ->
  (forall i, i < n -> sumf n (fun t => Lg (qr_a K st) (qr_d K st) n i t * x t) = Tf m (qr_a K st) n b i) ->
  forall j, j < n ->
    sumf n (fun t => sumf m (fun i => cj (mget K A i j) * mget K A i t) * x t) =
    sumf m (fun i => cj (mget K A i j) * b i).
Proof.
  intros Hnm HI Hx j Hj.
  assert (HI' := HI). destruct HI' as (Hw & Hl & Hn & Hu & Hd & HL).
  set (cj_ := fun r => mget K A r j).
  change (sumf m (fun i => cj (mget K A i j) * b i)) with (ip m cj_ b).
  rewrite <- (Tf_ip m (qr_a K st) n Hu cj_ b).
  transitivity (ip m cj_ (fun i => sumf n (fun t => mget K A i t * x t))).
  { symmetry. apply (ip_lin_r K m n cj_ (fun t i => mget K A i t) x). }
  rewrite <- (Tf_ip m (qr_a K st) n Hu cj_ (fun i => sumf n (fun t => mget K A i t * x t))).
  unfold QrAlg.ip. apply sumf_ext. intros i Hi.
  rewrite (Inv_image m n A n st x HI i Hi).
  destruct (Nat.lt_ge_cases i n) as [Hin|Hin].
  - rewrite Hx by auto. reflexivity.
  - unfold cj_. rewrite <- (HL i j Hi Hj). unfold Lg. destruct (Nat.ltb_spec j n); [|lia].
    destruct (Nat.eqb_spec i j); [lia|]. destruct (Nat.ltb_spec i j); [lia|]. rewrite cj_0. ring.
Qed.

Theorem qr_ls_normal_equations_partial m n A (b x : nat -> K) : wf m n A -> n <= m -> run_laws m n A n ->
  ker_trivial m n A ->
  let st := qrd m n A in
  (forall i, i < n -> sumf n (fun t => mget K (qr_R K m n st) i t * x t) = Tf m (qr_a K st) n b i) ->
  forall j, j < n ->
    sumf n (fun t => sumf m (fun i => cj (mget K A i j) * mget K A i t) * x t) =
    sumf m (fun i => cj (mget K A i j) * b i).
Proof.
  intros Hw Hnm HL Hker st Hx.
  assert (HI : Inv m n A n st).
  { unfold st, QrModel.qrd. rewrite Nat.min_r by exact Hnm.
    destruct (run_char m n A n Hw Hnm (le_n n) HL) as [HI | (k & Hk & HI & Hz & Hs)]; auto.
    exfalso. destruct (stop_kernel m n A k _ ltac:(lia) Hk HI Hz) as (y & Hy & Hyk).
    assert (E := Hker y Hy k Hk). rewrite Hyk in E. exact (F_1_neq_0 (cth K) E). }
  apply (Inv_normal_equations m n A st b x Hnm HI).
  intros i Hi. rewrite <- Hx by auto. apply sumf_ext. intros t Ht.
  unfold qr_R. rewrite mget_mbuild by lia. unfold Lg. destruct (Nat.ltb_spec t n); [|lia].
  destruct (Nat.eqb_spec i t) as [E|E]; [rewrite E; reflexivity|reflexivity].
Qed.
End QrP.
