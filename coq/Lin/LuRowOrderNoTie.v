(* The premise of the row-order theorems from the wording of the property: if at every column no two
   candidate pivot metrics tie (any two distinct candidates are comparable by the strict test) and some
   candidate of the column is nonzero, then the pivot search is decided (LuRowOrderProofs.run_decided).
   "Tie" concerns only candidates whose metric is above 0 (zero candidates are never chosen when a nonzero one
   exists, and tie among themselves in every sparse matrix).
   [max_of_no_tie]: a finite family whose members above 0 are pairwise comparable has a strict maximiser;
   [cand_nonzero_metric_pos]: a nonzero candidate has a metric above 0 (order premises: its original row is
   not zero, so its row scale is positive);  a nonsingular matrix has a nonzero candidate in every column. *)
Require Import List Arith Lia Bool Permutation.
Import ListNotations.
Require Import LV.Base.CField LV.Lin.MatL LV.Lin.LuModel.
Require Import LV.Lin.LuGenA LV.Lin.LuGenB LV.Lin.LuGenC LV.Lin.LuGenD LV.Lin.LuPivot LV.Lin.LuProofs
               LV.Lin.LuNonsing LV.Lin.LuDetModel LV.Lin.LuDetAlg LV.Lin.LuDetProofs LV.Lin.LuRowOrderProofs.
Local Open Scope cf_scope.

Section NoTie.
Variable K : CField.
Variable M : Type.
Variable nrm2 : K -> M.
Variable mulM : M -> M -> M.
Variable ltM : M -> M -> bool.
Variable zeroM : M.
Variable scale_of_max : M -> M.

Notation mat := (mat K).
Notation lu_state := (lu_state K M).
Notation lu_a := (lu_a K M).
Notation lu_ri := (lu_ri K M).
Notation lu_rs := (lu_rs K M).
Notation lu := (lu K M nrm2 mulM ltM zeroM scale_of_max).
Notation lu_upto := (lu_upto K M nrm2 mulM ltM zeroM scale_of_max).
Notation mg := (mget K).
Notation cand_s := (cand_s K M).
Notation cand_metric := (cand_metric K M nrm2 mulM zeroM).
Notation col_decided := (col_decided K M nrm2 mulM ltM zeroM).
Notation run_decided := (run_decided K M nrm2 mulM ltM zeroM scale_of_max).

(* no two candidates of column t tie FOR THE PIVOT: the strict test separates any two candidates whose
   metric is above 0.  Candidates of metric 0 (zero entries below the diagonal: every sparse, banded or diagonal
   matrix has several in one column) are never chosen when a candidate above 0 exists, so they may tie among
   themselves: I_3, diag(50,75,100) and the uncoupled Z / Y matrices of vnaconv_*n satisfy this premise. *)
Definition col_no_tie (n : nat) (st : lu_state) (t : nat) : Prop :=
  forall i i', t <= i < n -> t <= i' < n -> i <> i' ->
    ltM zeroM (cand_metric n st t i) = true -> ltM zeroM (cand_metric n st t i') = true ->
    ltM (cand_metric n st t i) (cand_metric n st t i') = true \/
    ltM (cand_metric n st t i') (cand_metric n st t i) = true.

Definition run_no_tie (a : mat) (n : nat) : Prop :=
  forall t, t < n -> col_no_tie n (lu_upto a n t) t.

(* some candidate of every column is nonzero *)
Definition run_cand_nonzero (a : mat) (n : nat) : Prop :=
  forall t, t < n -> exists i, t <= i < n /\ cand_s n (lu_upto a n t) t i <> 0.

Hypothesis ltM_irrefl : forall x, ltM x x = false.
Hypothesis ltM_trans : forall x y z, ltM x y = true -> ltM y z = true -> ltM x z = true.

Hypothesis ltM_cotrans : forall x y z, ltM x z = true -> ltM x y = false -> ltM y z = true.

Lemma pos_dec (f : nat -> M) t : forall k,
  (exists i, t <= i < t + k /\ ltM zeroM (f i) = true) \/ (forall i, t <= i < t + k -> ltM zeroM (f i) = false).
Proof.
  induction k.
  - right. intros i Hi. lia.
  - destruct IHk as [(i & Hi & Hp)|Hn].
    + left. exists i. split; [lia|exact Hp].
    + destruct (ltM zeroM (f (t + k)%nat)) eqn:E.
      * left. exists (t + k)%nat. split; [lia|exact E].
      * right. intros i Hi. destruct (Nat.eq_dec i (t + k)%nat) as [->|Hne]; [exact E|apply Hn; lia].
Qed.

(* a finite family whose members above 0 are pairwise comparable, one of them above 0, has a strict maximiser
   among the members above 0 *)
Lemma max_of_no_tie (f : nat -> M) t : forall k,
  (forall i i', t <= i < t + S k -> t <= i' < t + S k -> i <> i' ->
     ltM zeroM (f i) = true -> ltM zeroM (f i') = true ->
     ltM (f i) (f i') = true \/ ltM (f i') (f i) = true) ->
  (exists i, t <= i < t + S k /\ ltM zeroM (f i) = true) ->
  exists i0, t <= i0 < t + S k /\ ltM zeroM (f i0) = true /\
    forall i, t <= i < t + S k -> i <> i0 -> ltM zeroM (f i) = true -> ltM (f i) (f i0) = true.
Proof.
  induction k; intros Hnt (ip & Hip & Hpp).
  - exists t. assert (ip = t) by lia. subst ip. split; [lia|]. split; [exact Hpp|]. intros i Hi Hne. lia.
  - assert (Hnt' : forall i i', t <= i < t + S k -> t <= i' < t + S k -> i <> i' ->
              ltM zeroM (f i) = true -> ltM zeroM (f i') = true ->
              ltM (f i) (f i') = true \/ ltM (f i') (f i) = true).
    { intros i i' Hi Hi' Hne. apply Hnt; lia. }
    destruct (pos_dec f t (S k)) as [Hex|Hnone].
    + destruct (IHk Hnt' Hex) as (i0 & Hi0 & Hp0 & Hmax).
      destruct (ltM zeroM (f (t + S k)%nat)) eqn:Ee.
      * destruct (Hnt i0 (t + S k)%nat ltac:(lia) ltac:(lia) ltac:(lia) Hp0 Ee) as [Hlt|Hgt].
        -- exists (t + S k)%nat. split; [lia|]. split; [exact Ee|]. intros i Hi Hne Hp.
           destruct (Nat.eq_dec i i0) as [->|Hne0]; [exact Hlt|].
           apply (ltM_trans _ (f i0)); [apply Hmax; auto; lia|exact Hlt].
        -- exists i0. split; [lia|]. split; [exact Hp0|]. intros i Hi Hne Hp.
           destruct (Nat.eq_dec i (t + S k)%nat) as [->|Hne1]; [exact Hgt|apply Hmax; auto; lia].
      * exists i0. split; [lia|]. split; [exact Hp0|]. intros i Hi Hne Hp.
        destruct (Nat.eq_dec i (t + S k)%nat) as [->|Hne1]; [rewrite Ee in Hp; discriminate|apply Hmax; auto; lia].
    + assert (ip = (t + S k)%nat).
      { destruct (Nat.eq_dec ip (t + S k)%nat); auto. rewrite (Hnone ip) in Hpp by lia. discriminate. }
      subst ip. exists (t + S k)%nat. split; [lia|]. split; [exact Hpp|]. intros i Hi Hne Hp.
      rewrite (Hnone i) in Hp by lia. discriminate.
Qed.

Lemma decided_of_no_tie n st t : t < n -> col_no_tie n st t ->
  (t = (n - 1)%nat \/ exists i, t <= i < n /\ ltM zeroM (cand_metric n st t i) = true) ->
  col_decided n st t.
Proof.
  intros Ht Hnt [E|Hpos].
  - exists t. split; [lia|]. split; [intros i Hi Hne; lia|left; exact E].
  - destruct (max_of_no_tie (cand_metric n st t) t (n - t - 1)) as (i0 & Hi0 & Hp0 & Hmax).
    { intros i i' Hi Hi' Hne. apply Hnt; lia. }
    { destruct Hpos as (i & Hi & Hp). exists i. split; [lia|exact Hp]. }
    exists i0. split; [lia|]. split; [|right; exact Hp0].
    intros i Hi Hne. destruct (ltM zeroM (cand_metric n st t i)) eqn:Ep.
    + apply Hmax; auto; lia.
    + exact (ltM_cotrans _ _ _ Hp0 Ep).
Qed.

Section Order.
Hypothesis mulM_pos : forall x y, ltM zeroM x = true -> ltM zeroM y = true ->
  ltM zeroM (mulM x y) = true.
Hypothesis mulM_zero_r : forall x, mulM x zeroM = zeroM.
Hypothesis nrm2_zero : nrm2 0 = zeroM.
Hypothesis nrm2_pos : forall x : K, x <> 0 -> ltM zeroM (nrm2 x) = true.
Hypothesis scale_pos : forall x, ltM zeroM x = true -> ltM zeroM (scale_of_max x) = true.
Hypothesis K_zero_dec : forall x : K, x = 0 \/ x <> 0.

(* a nonzero candidate has a metric above 0, on every input *)
Lemma cand_nonzero_metric_pos a n t i : wf n n a -> t < n -> t <= i < n ->
  cand_s n (lu_upto a n t) t i <> 0 ->
  ltM zeroM (cand_metric n (lu_upto a n t) t i) = true.
Proof.
  intros Hw Ht Hi Hnz.
  pose proof (lu_invariant_all K M nrm2 mulM ltM zeroM scale_of_max ltM_irrefl ltM_trans ltM_cotrans mulM_pos
                mulM_zero_r nrm2_zero nrm2_pos scale_pos K_zero_dec a n Hw t ltac:(lia)) as HL.
  destruct (Sinv_upto K M nrm2 mulM ltM zeroM scale_of_max a n Hw t ltac:(lia)) as (Hwa & Hl & _).
  set (st := lu_upto a n t) in *.
  destruct (lu_column_spec_bi K M nrm2 mulM ltM zeroM n st t Hwa Hl Ht) as (_ & _ & _ & _ & _ & _ & Hs & _).
  assert (Hrow : exists c, c < n /\ mg a (nth i (lu_ri st) O) c <> 0).
  { destruct (row_zero_dec K K_zero_dec a (nth i (lu_ri st) O) n) as [Hzr|H]; auto.
    exfalso. apply Hnz. rewrite (Hs i Hi).
    exact (cand_zero_of_zero_row_Z K K_zero_dec (mg a) (mg (lu_a st)) (fun i => nth i (lu_ri st) O) n t _ i
             HL Hi Hzr). }
  unfold LuPivot.cand_metric. apply mulM_pos; [|apply nrm2_pos; exact Hnz].
  unfold st. rewrite (RSinv_upto K M nrm2 mulM ltM zeroM scale_of_max a n Hw t ltac:(lia) i Hi).
  apply scale_pos. apply (row_max_pos K M nrm2 ltM zeroM ltM_trans ltM_cotrans nrm2_pos). exact Hrow.
Qed.

(* the premise in the words of the property *)
Theorem run_decided_of_no_tie a n : wf n n a -> run_no_tie a n -> run_cand_nonzero a n -> run_decided a n.
Proof.
  intros Hw Hnt Hnz t Ht. apply decided_of_no_tie; auto. right.
  destruct (Hnz t Ht) as (i & Hi & Hs). exists i. split; [exact Hi|].
  apply cand_nonzero_metric_pos; auto.
Qed.

(* a nonsingular matrix has a nonzero candidate in every column (the pivot) *)
Lemma cand_nonzero_of_pivots_nonzero a n : wf n n a ->
  pivots_nonzero K M nrm2 mulM ltM zeroM scale_of_max a n -> run_cand_nonzero a n.
Proof.
  intros Hw Hp t Ht.
  destruct (Sinv_upto K M nrm2 mulM ltM zeroM scale_of_max a n Hw t ltac:(lia)) as (Hwa & Hl & _).
  pose proof (col_bi_range K M nrm2 mulM ltM zeroM n (lu_upto a n t) t Ht) as Hbi.
  exists (col_bi K M nrm2 mulM ltM zeroM n (lu_upto a n t) t). split; [exact Hbi|].
  rewrite <- (lu_column_pivot_value K M nrm2 mulM ltM zeroM n (lu_upto a n t) t Hwa Ht).
  rewrite <- (lu_upto_S K M nrm2 mulM ltM zeroM scale_of_max).
  rewrite (pivot_at_upto K M nrm2 mulM ltM zeroM scale_of_max a n t (S t)) by (auto; lia).
  rewrite <- (pivot_at_final K M nrm2 mulM ltM zeroM scale_of_max a n t Hw Ht). apply Hp. exact Ht.
Qed.

Theorem run_decided_of_no_tie_nonsingular a n : wf n n a -> run_no_tie a n ->
  det_lap K n a <> 0 -> run_decided a n.
Proof.
  intros Hw Hnt Hd. apply run_decided_of_no_tie; auto. apply cand_nonzero_of_pivots_nonzero; auto.
  apply (pivots_nonzero_iff_trivial_kernel K M nrm2 mulM ltM zeroM scale_of_max ltM_irrefl ltM_trans
           ltM_cotrans mulM_pos mulM_zero_r nrm2_zero nrm2_pos scale_pos K_zero_dec a n Hw).
  apply (det_nonzero_iff_kernel_trivial K M nrm2 mulM ltM zeroM scale_of_max ltM_irrefl ltM_trans ltM_cotrans
           mulM_pos mulM_zero_r nrm2_zero nrm2_pos scale_pos K_zero_dec a n Hw). exact Hd.
Qed.

(* row-order independence with the premise in the words of the property *)
Theorem row_order_independent_no_tie n (sg ts : nat -> nat) :
  (forall i, i < n -> sg i < n) -> (forall i, i < n -> ts i < n) ->
  (forall i, i < n -> ts (sg i) = i) -> (forall i, i < n -> sg (ts i) = i) ->
  forall (a a' : mat), wf n n a -> wf n n a' ->
  (forall i c, i < n -> c < n -> mg a' i c = mg a (sg i) c) ->
  run_no_tie a n -> det_lap K n a <> 0 ->
  map sg (lu_pivots K M (lu a' n)) = lu_pivots K M (lu a n) /\
  (forall i c, i < n -> c < n -> mg (lu_a (lu a' n)) i c = mg (lu_a (lu a n)) i c) /\
  (forall m (b b' : mat), (forall i k, i < n -> k < m -> mg b' i k = mg b (sg i) k) ->
     fst (mldivide K M nrm2 mulM ltM zeroM scale_of_max a' b' n m)
     = fst (mldivide K M nrm2 mulM ltM zeroM scale_of_max a b n m)).
Proof.
  intros H1 H2 H3 H4 a a' Hw Hw' Hr Hnt Hd.
  pose proof (run_decided_of_no_tie_nonsingular a n Hw Hnt Hd) as Hdec.
  destruct (lu_row_order_independent K M nrm2 mulM ltM zeroM scale_of_max ltM_irrefl ltM_trans n sg ts
              H1 H2 H3 H4 a a' Hw Hw' Hr Hdec) as (E1 & _ & E3).
  split; [exact E1|]. split; [exact E3|].
  intros m b b' Hb.
  exact (mldivide_row_order_independent K M nrm2 mulM ltM zeroM scale_of_max ltM_irrefl ltM_trans n sg ts
           H1 H2 H3 H4 a a' Hw Hw' Hr m b b' Hdec Hb).
Qed.
End Order.
End NoTie.
