(* The determinant of a list matrix, every n: Laplace expansion along the first column.
   Definitions only (no proofs).  This is a SPECIFICATION (the value _vnacommon_lu is documented to
   return: "Returns the determinant of the matrix"), not a model of C code; LuDetProofs.lu_det_all_n
   proves that the value the LU model returns equals it.

     Det 0 f     = 1
     Det (S n) f = sum_{i <= n} (-1)^i * f i 0 * Det n (minor of f without row i and column 0)

   Matrices are total functions nat -> nat -> K here (entries outside n x n are never read);
   [det_lap n a] is the determinant of the n x n list matrix [a]. *)
Require Import List Arith.
Require Import LV.Base.CField LV.Lin.MatL LV.Lin.LuGenA LV.Lin.LuGenD.
Local Open Scope cf_scope.

Section DetModel.
Variable K : CField.

(* row index of the minor -> row index of the matrix, row i left out *)
Definition skip (i r : nat) : nat := if r <? i then r else S r.

Definition minor (i : nat) (f : nat -> nat -> K) : nat -> nat -> K :=
  fun r c => f (skip i r) (S c).

Fixpoint Det (n : nat) (f : nat -> nat -> K) : K :=
  match n with
  | O => 1
  | S n' => sumf (S n') (fun i => pm1 K i * f i O * Det n' (minor i f))
  end.

Definition det_lap (n : nat) (a : mat K) : K := Det n (mget K a).

(* rows of a list matrix taken in the order given by the list sg: row i of the result is row
   (nth i sg) of a *)
Definition perm_rows (sg : list nat) (a : mat K) : mat K := map (fun k => mrow K a k) sg.
End DetModel.
