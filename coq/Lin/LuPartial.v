(* What _vnacommon_lu / _mldivide / _mrdivide / _minverse return in binary64 when the elimination
   meets an EXACTLY zero pivot, as an explicit outcome (definitions only; proofs in LuNonsing.v).

   LuModel.lu is total over an exact field: after a zero pivot in column j < n-1 it computes
   1 / 0 = 0 (the convention of the field) and goes on with finite values.  The C code does not:
       double complex scale = 1.0 / A(j, j);          (inf + NaN i)
       for (i = j + 1 .. n-1) A(i, j) *= scale;        0 * inf = NaN
   and every later column reads those entries (s -= A(i,k) * A(k,j)), so all later candidate
   values are NaN, no comparison `... > best_value` succeeds (no further row exchange) and
   d *= A(j', j') makes the returned determinant NaN.  If the zero pivot is in the LAST column
   (j = n-1) there is no division: every value is finite and the returned determinant is
   d * 0 = 0 exactly.
   [lu_c] runs LuModel.lu_column column by column and stops with [LuNonFinite j st] at the first
   column j < n-1 whose pivot is exactly zero (st = the state before that column, all finite).
   The zero test [isz] is a parameter (qi_isz at the Gaussian rationals).
   checks/C19.py compares this outcome with the C routines on matrices whose elimination is
   exact in binary64 and whose first dependent column is at every position 0..n-1. *)
Require Import List Arith Bool.
Import ListNotations.
Require Import LV.Base.CField LV.Lin.MatL LV.Lin.LuModel.
Local Open Scope cf_scope.

Section LuC.
Variable K : CField.
Variable M : Type.
Variable nrm2 : K -> M.
Variable mulM : M -> M -> M.
Variable ltM : M -> M -> bool.
Variable zeroM : M.
Variable scale_of_max : M -> M.
Variable isz : K -> bool.          (* x == 0 *)

Notation mat := (mat K).
Notation lu_state := (lu_state K M).

(* a returned binary64 determinant: a number, or NaN *)
Inductive cdet := DetFin (d : K) | DetNaN.

Inductive lu_outcome :=
| LuFinite (st : lu_state)               (* every value computed is finite; st as computed by lu *)
| LuNonFinite (j : nat) (st : lu_state). (* pivot of column j < n-1 is exactly 0; st = state before
                                            column j; from here on the C values are inf / NaN *)

Definition lu_c_step (n : nat) (r : lu_outcome) (j : nat) : lu_outcome :=
  match r with
  | LuNonFinite _ _ => r
  | LuFinite st =>
    let st' := lu_column K M nrm2 mulM ltM zeroM n st j in
    if isz (mget K (lu_a K M st') j j) && negb (Nat.eqb j (n - 1)) then LuNonFinite j st
    else LuFinite st'
  end.

Definition lu_c (a : mat) (n : nat) : lu_outcome :=
  fold_left (lu_c_step n) (seq 0 n) (LuFinite (lu_init K M nrm2 ltM zeroM scale_of_max a n)).

(* the determinant the C function returns *)
Definition lu_c_det (r : lu_outcome) : cdet :=
  match r with LuFinite st => DetFin (lu_d K M st) | LuNonFinite _ _ => DetNaN end.

(* the two tests the call sites apply to it (translate/lu_scale.py reads them from the C text):
     determinant == 0.0 || !isnormal(cabs(determinant))     rejects 0 and NaN
     determinant == 0.0                                     NaN == 0.0 is false: NaN is accepted *)
Definition site_rejects_full (d : cdet) : bool :=
  match d with DetNaN => true | DetFin x => isz x end.
Definition site_rejects_eq0 (d : cdet) : bool :=
  match d with DetNaN => false | DetFin x => isz x end.

(* the substitution loops divide by every pivot: with a zero pivot anywhere (also in the last
   column, where the factorisation itself stays finite) the solution contains inf / NaN *)
Definition all_pivots_nz (st : lu_state) (n : nat) : bool :=
  forallb (fun j => negb (isz (mget K (lu_a K M st) j j))) (seq 0 n).

Definition solution_c (r : lu_outcome) (n : nat) (x : mat) : option mat :=
  match r with
  | LuNonFinite _ _ => None
  | LuFinite st => if all_pivots_nz st n then Some x else None
  end.

(* the three solvers as the C code behaves: None = the output array holds non-finite values *)
Definition mldivide_c (a b : mat) (m n : nat) : option mat * cdet :=
  let r := lu_c a m in
  (solution_c r m (fst (mldivide K M nrm2 mulM ltM zeroM scale_of_max a b m n)), lu_c_det r).
Definition mrdivide_c (b a : mat) (m n : nat) : option mat * cdet :=
  let r := lu_c a n in
  (solution_c r n (fst (mrdivide K M nrm2 mulM ltM zeroM scale_of_max b a m n)), lu_c_det r).
Definition minverse_c (a : mat) (n : nat) : option mat * cdet :=
  let r := lu_c a n in
  (solution_c r n (fst (minverse K M nrm2 mulM ltM zeroM scale_of_max a n)), lu_c_det r).
End LuC.

Arguments DetFin {K}.
Arguments DetNaN {K}.
