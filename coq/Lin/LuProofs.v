(* Property C19: lemmas about the LU model that are not in the general-n development LuGen*.v
   nor in LuPivot.v / LuDet3.v:
   - a matrix whose LU run meets only nonzero pivots has a left inverse, hence a trivial
     kernel; contrapositive: for an exactly singular matrix the EXACT-FIELD total model lu has a
     zero on the diagonal of its final array and lu_d = 0 ([lu_singular_zero_pivot_exact_field],
     every n; needs a decidable zero test on K).  This is a statement about the total model only
     (which goes on with 1/0 = 0 after a zero pivot); what the C code returns (0 or NaN) is
     LuNonsing.lu_c_outcome on the partial model LuPartial.lu_c;
   - the refutation of scale invariance for the pivot metric |s_i| * rowmax_i
     ([pivot_scale_invariant_refuted], a vm_compute witness over Q[i]) next to the positive
     instance for |s_i| / rowmax_i on the same matrices. *)
Require Import List Arith Lia Bool QArith Qcanon.
Import ListNotations.
Require Import LV.Base.CField LV.Base.QcI LV.Lin.MatL LV.Lin.LuModel LV.Lin.LuQI LV.Lin.LsSpec LV.Lin.LuQI2.
Require Import LV.Lin.LuGenA LV.Lin.LuGenB LV.Lin.LuGenC LV.Lin.LuGenD.
Local Open Scope nat_scope.
Local Open Scope cf_scope.

Section Sing.
Variable K : CField.
Variable M : Type.
Variable nrm2 : K -> M.
Variable mulM : M -> M -> M.
Variable ltM : M -> M -> bool.
Variable zeroM : M.
Variable scale_of_max : M -> M.
Add Field Kf1 : (cth K).

Notation mat := (mat K).
Notation lu := (lu K M nrm2 mulM ltM zeroM scale_of_max).
Notation mrdivide := (mrdivide K M nrm2 mulM ltM zeroM scale_of_max).
Notation mg := (mget K).
Notation lu_a := (lu_a K M).
Notation lu_d := (lu_d K M).

Definition pivots_nonzero (a : mat) (n : nat) : Prop :=
  forall j, j < n -> mg (lu_a (lu a n)) j j <> 0.

(* A v = 0 *)
Definition in_kernel (a : mat) (n : nat) (v : nat -> K) : Prop :=
  forall i, i < n -> sumf n (fun k => mg a i k * v k) = 0.

Lemma lu_left_inverse a n : wf n n a -> pivots_nonzero a n ->
  exists x : mat, forall i k, i < n -> k < n ->
    sumf n (fun t => mg x i t * mg a t k) = (if Nat.eqb i k then 1 else 0).
Proof.
  intros Hw Hp. exists (fst (mrdivide (mident K n) a n n)). intros i k Hi Hk.
  pose proof (lu_solves_mrdivide K M nrm2 mulM ltM zeroM scale_of_max n n a (mident K n) Hw
                (wf_mbuild K n n _) Hp i k Hi Hk) as E.
  rewrite mget_mmul in E by assumption. rewrite E. unfold mident. apply mget_mbuild; assumption.
Qed.

Theorem lu_kernel_trivial a n : wf n n a -> pivots_nonzero a n ->
  forall v, in_kernel a n v -> forall k, k < n -> v k = 0.
Proof.
  intros Hw Hp v Hv k Hk.
  destruct (lu_left_inverse a n Hw Hp) as (x & Hx).
  assert (E1 : v k = sumf n (fun c => (if Nat.eqb c k then v c else 0))).
  { symmetry. apply (sumf_single K n k v Hk). }
  rewrite E1.
  transitivity (sumf n (fun c => sumf n (fun t => mg x k t * mg a t c) * v c)).
  { apply sumf_ext. intros c Hc. rewrite (Hx k c Hk Hc).
    destruct (Nat.eqb_spec c k); destruct (Nat.eqb_spec k c); try lia; ring. }
  transitivity (sumf n (fun c => sumf n (fun t => mg x k t * (mg a t c * v c)))).
  { apply sumf_ext. intros c Hc. rewrite sumf_scale_r. apply sumf_ext. intros t Ht. ring. }
  rewrite sumf_exchange.
  apply sumf_zero. intros t Ht.
  rewrite <- sumf_scale_l. rewrite (Hv t Ht). ring.
Qed.

Notation mldivide := (mldivide K M nrm2 mulM ltM zeroM scale_of_max).
Notation minverse := (minverse K M nrm2 mulM ltM zeroM scale_of_max).

(* The three solvers return the determinant accumulated by lu. *)
Lemma solvers_return_lu_d a b n m :
  snd (mldivide a b n m) = lu_d (lu a n) /\ snd (mrdivide b a m n) = lu_d (lu a n) /\
  snd (minverse a n) = lu_d (lu a n).
Proof. repeat split. Qed.

(* lu_solves, every n: if every pivot met is nonzero then  A (A \ B) = B,  (B / A) A = B,
   A A^-1 = I  (entrywise on the index range), and the returned determinant is the signed
   product of the pivots ((-1)^(number of row exchanges) * prod U_jj). *)
Theorem lu_solves n (a : mat) : wf n n a -> pivots_nonzero a n ->
  (forall m (b : mat), wf n m b -> forall i k, i < n -> k < m ->
      mg (mmul K n n m a (fst (mldivide a b n m))) i k = mg b i k) /\
  (forall m (b : mat), wf m n b -> forall i k, i < m -> k < n ->
      mg (mmul K m n n (fst (mrdivide b a m n)) a) i k = mg b i k) /\
  (forall i k, i < n -> k < n ->
      mg (mmul K n n n a (fst (minverse a n))) i k = (if Nat.eqb i k then 1 else 0)) /\
  lu_d (lu a n) = pm1 K (swap_count K M nrm2 mulM ltM zeroM scale_of_max a n n)
                  * prodf K n (fun j => mg (lu_a (lu a n)) j j).
Proof.
  intros Hw Hp. split; [|split; [|split]].
  - intros m b Hb. exact (lu_solves_mldivide K M nrm2 mulM ltM zeroM scale_of_max n m a b Hw Hb Hp).
  - intros m b Hb. exact (lu_solves_mrdivide K M nrm2 mulM ltM zeroM scale_of_max n m a b Hw Hb Hp).
  - exact (lu_solves_minverse K M nrm2 mulM ltM zeroM scale_of_max n a Hw Hp).
  - exact (lu_det_pivots K M nrm2 mulM ltM zeroM scale_of_max a n Hw).
Qed.

Lemma prodf_zero n (f : nat -> K) j : j < n -> f j = 0 -> prodf K n f = 0.
Proof.
  induction n; intros Hj Hz; [lia|]. simpl.
  destruct (Nat.eq_dec j n) as [->|Hne].
  - rewrite Hz. ring.
  - rewrite IHn by (auto; lia). ring.
Qed.

(* a zero pivot makes the returned determinant zero (every n) *)
Theorem lu_zero_pivot_det_zero a n j : wf n n a -> j < n -> mg (lu_a (lu a n)) j j = 0 ->
  lu_d (lu a n) = 0.
Proof.
  intros Hw Hj Hz. rewrite (lu_det_pivots K M nrm2 mulM ltM zeroM scale_of_max a n Hw).
  rewrite (prodf_zero n (fun j0 => mg (lu_a (lu a n)) j0 j0) j Hj Hz). ring.
Qed.

Section Dec.
Hypothesis K_zero_dec : forall x : K, x = 0 \/ x <> 0.

Lemma pivots_dec a n t : t <= n ->
  (exists j, j < t /\ mg (lu_a (lu a n)) j j = 0) \/ (forall j, j < t -> mg (lu_a (lu a n)) j j <> 0).
Proof.
  induction t; intros Ht.
  - right. intros j Hj. lia.
  - destruct (IHt ltac:(lia)) as [(j & Hj & Hz)|Hall].
    + left. exists j. split; [lia|exact Hz].
    + destruct (K_zero_dec (mg (lu_a (lu a n)) t t)) as [Hz|Hnz].
      * left. exists t. split; [lia|exact Hz].
      * right. intros j Hj. destruct (Nat.eq_dec j t) as [->|Hne]; [exact Hnz|apply Hall; lia].
Qed.

(* For an exactly singular matrix (some nonzero vector in its kernel) the final array of the total
   exact-field model has a zero on its diagonal and the model's determinant accumulator is 0.
   NOT a statement about the value the C code returns: after a zero pivot in a column j < n-1 the
   model continues with 1/0 = 0 whereas binary64 produces inf and NaN (see LuPartial / LuNonsing). *)
Theorem lu_singular_zero_pivot_exact_field a n : wf n n a ->
  (exists v, in_kernel a n v /\ exists k, k < n /\ v k <> 0) ->
  (exists j, j < n /\ mg (lu_a (lu a n)) j j = 0) /\ lu_d (lu a n) = 0.
Proof.
  intros Hw (v & Hv & k & Hk & Hvk).
  destruct (pivots_dec a n n (le_n n)) as [(j & Hj & Hz)|Hall].
  - split; [exists j; split; assumption|]. exact (lu_zero_pivot_det_zero a n j Hw Hj Hz).
  - exfalso. apply Hvk. exact (lu_kernel_trivial a n Hw Hall v Hv k Hk).
Qed.
End Dec.
End Sing.

(* ------------------------------------------------------------------------------------------
   Instances at the Gaussian rationals *)
Lemma qi_zero_dec : forall x : QIF, x = (@c0 QIF) \/ x <> (@c0 QIF).
Proof.
  intros x. destruct (qi_eqb x qi0) eqn:E.
  - left. apply qi_eqb_eq. exact E.
  - right. apply qi_neqb. exact E.
Qed.

(* a 3x3 matrix with two equal rows (kernel vector: LuNonsingQI.sing_v); the exact-field determinant
   checked by computation *)
Definition sing_a : mat QIF :=
  [ [mkqi 1 1 0 1; mkqi 2 1 0 1; mkqi 0 1 1 1];
    [mkqi 3 1 0 1; mkqi 1 1 1 1; mkqi 2 1 0 1];
    [mkqi 1 1 0 1; mkqi 2 1 0 1; mkqi 0 1 1 1] ].
Lemma sing_a_wf : wf 3 3 sing_a.
Proof. split; [reflexivity|repeat constructor]. Qed.

Example sing_a_flagged :
  lu_d QIF Qc (q2_lu_recip sing_a 3) = (@c0 QIF) /\ lu_d QIF Qc (q2_lu_max sing_a 3) = (@c0 QIF).
Proof. split; vm_compute; reflexivity. Qed.

(* ------------------------------------------------------------------------------------------
   Candidate defect D25.  With the row scale taken as the row maximum itself (metric
   |s_i| * rowmax_i, [scale_max]) multiplying a row by a power of two changes which original rows
   are chosen as pivots; with the reciprocal ([scale_recip], metric |s_i| / rowmax_i) the same
   two matrices give the same pivot rows. *)
Definition d25_a : mat QIF :=
  [ [mkqi 1 1 0 1; mkqi 1 1 0 1];
    [mkqi 1 2 0 1; mkqi 1 1 0 1] ].
(* row 1 multiplied by 4 *)
Definition d25_a4 : mat QIF :=
  [ [mkqi 1 1 0 1; mkqi 1 1 0 1];
    [mkqi 2 1 0 1; mkqi 4 1 0 1] ].

Definition scale_row (a : mat QIF) (n i : nat) (d : QIF) : mat QIF :=
  mbuild QIF n n (fun r c => if Nat.eqb r i then cmul d (mget QIF a r c) else mget QIF a r c).

Lemma d25_a4_is_scaled : d25_a4 = scale_row d25_a 2 1 (mkqi 4 1 0 1).
Proof. vm_compute. reflexivity. Qed.

Theorem pivot_scale_invariant_refuted :
  exists (a : mat QIF) (n i : nat) (d : QIF), wf n n a /\ i < n /\ d <> (@c0 QIF) /\
    lu_pivots QIF Qc (q2_lu_max (scale_row a n i d) n) <> lu_pivots QIF Qc (q2_lu_max a n).
Proof.
  exists d25_a, 2%nat, 1%nat, (mkqi 4 1 0 1). split; [split; [reflexivity|repeat constructor]|].
  split; [lia|]. split; [apply qi_neqb; vm_compute; reflexivity|].
  vm_compute. discriminate.
Qed.

Example pivot_scale_invariant_recip_witness :
  lu_pivots QIF Qc (q2_lu_recip (scale_row d25_a 2 1 (mkqi 4 1 0 1)) 2) = lu_pivots QIF Qc (q2_lu_recip d25_a 2).
Proof. vm_compute. reflexivity. Qed.

(* The three instantiations of the model at Q[i] with the reciprocal row scale are the same
   function: LuQI.q_lu (drv_lin, used by C04), LuQI2.q2_lu_recip (drv_lu2, used by C19) and
   LuPivot.qp_lu (the instance the scale-invariance theorem is stated for). *)
Require Import LV.Lin.LuPivot.
Lemma model_variants_agree :
  (forall a n, q2_lu_recip a n = qp_lu a n) /\ (forall a n, q_lu a n = qp_lu a n).
Proof. split; reflexivity. Qed.
