(* Property C19, Householder QR: the theorems of QrProofs.v with the Section hypotheses on the field
   collected in one record-like proposition [qr_field_laws] (conjugation is an involutive ring
   morphism, 2 <> 0, a sum of squared moduli vanishes only if every term does, [isz] decides x = 0).
   Lemmas only; Properties_C19.v restates them. *)
Require Import List Arith Lia Bool.
Import ListNotations.
Require Import LV.Base.CField LV.Lin.MatL LV.Lin.LuGenA LV.Lin.QrModel LV.Lin.QrAlg LV.Lin.QrProofs.
Local Open Scope nat_scope.

Definition qr_field_laws (K : CField) (isz : K -> bool) : Prop :=
  cj (@c0 K) = c0 /\ cj (@c1 K) = c1 /\
  (forall x y : K, cj (cadd x y) = cadd (cj x) (cj y)) /\
  (forall x y : K, cj (cmul x y) = cmul (cj x) (cj y)) /\
  (forall x : K, cj (cj x) = x) /\ char_ok K /\
  (forall n (f : nat -> K), sumf n (fun i => cmul (f i) (cj (f i))) = c0 -> forall i, i < n -> f i = c0) /\
  (forall x : K, isz x = true <-> x = c0).

Section T.
Variable K : CField.
Variables nrm phase : K -> K.
Variable isz : K -> bool.
Hypothesis FL : qr_field_laws K isz.

Lemma t_reflection_unitary m (v : nat -> K) : ip K m v v = c1 ->
  (forall x y, ip K m (Hf K m v x) (Hf K m v y) = ip K m x y) /\
  (forall x i, Hf K m v (Hf K m v x) i = x i).
Proof.
  destruct FL as (L0 & L1 & La & Lm & Lc & L2 & Ls & Lz).
  exact (qr_reflection_unitary K L0 L1 La Lm Lc m v).
Qed.

Lemma t_rank_full_iff_trivial_kernel m n (A : mat K) : wf m n A -> n <= m ->
  run_laws K nrm phase isz m n A n ->
  (qr_rank K isz (qrd K nrm phase isz m n A) = n <-> ker_trivial K m n A).
Proof.
  destruct FL as (L0 & L1 & La & Lm & Lc & L2 & Ls & Lz).
  exact (qr_rank_full_iff_trivial_kernel K L0 L1 La Lm Lc L2 Ls nrm phase isz Lz m n A).
Qed.

Lemma t_outcome m n (A : mat K) : wf m n A -> n <= m -> run_laws K nrm phase isz m n A n ->
  let st := qrd K nrm phase isz m n A in
  (ker_trivial K m n A /\ qr_nan K st = None /\ qr_rank K isz st = n /\
   forall t, t < n -> nth t (qr_d K st) c0 <> c0) \/
  (exists k x, k < n /\ qr_nan K st = Some k /\ qr_rank K isz st = k /\
               nth k (qr_d K st) c1 = c0 /\ in_ker K m n A x /\ x k = c1).
Proof.
  destruct FL as (L0 & L1 & La & Lm & Lc & L2 & Ls & Lz).
  exact (qr_outcome K L0 L1 La Lm Lc L2 Ls nrm phase isz Lz m n A).
Qed.

Lemma t_sweep_factorisation m n (A : mat K) : wf m n A -> n <= m -> run_laws K nrm phase isz m n A n ->
  ker_trivial K m n A ->
  let st := qrd K nrm phase isz m n A in
  (forall t, t < n -> ip K m (vst K (qr_a K st) t) (vst K (qr_a K st) t) = c1) /\
  (forall x y, ip K m (Tf K m (qr_a K st) n x) (Tf K m (qr_a K st) n y) = ip K m x y) /\
  (forall i j, i < m -> j < n ->
     mget K (qr_R K m n st) i j = Tf K m (qr_a K st) n (fun r => mget K A r j) i) /\
  (forall i j, i < m -> j < n -> j < i -> mget K (qr_R K m n st) i j = c0).
Proof.
  destruct FL as (L0 & L1 & La & Lm & Lc & L2 & Ls & Lz).
  exact (qr_sweep_factorisation K L0 L1 La Lm Lc L2 Ls nrm phase isz Lz m n A).
Qed.

Lemma t_ls_normal_equations_partial m n (A : mat K) (b x : nat -> K) : wf m n A -> n <= m ->
  run_laws K nrm phase isz m n A n -> ker_trivial K m n A ->
  let st := qrd K nrm phase isz m n A in
  (forall i, i < n -> sumf n (fun t => cmul (mget K (qr_R K m n st) i t) (x t)) = Tf K m (qr_a K st) n b i) ->
  forall j, j < n ->
    sumf n (fun t => cmul (sumf m (fun i => cmul (cj (mget K A i j)) (mget K A i t))) (x t)) =
    sumf m (fun i => cmul (cj (mget K A i j)) (b i)).
Proof.
  destruct FL as (L0 & L1 & La & Lm & Lc & L2 & Ls & Lz).
  exact (qr_ls_normal_equations_partial K L0 L1 La Lm Lc L2 Ls nrm phase isz Lz m n A b x).
Qed.
End T.
