(* The value _vnacommon_lu returns IS the determinant, every n.
   LuDetModel.det_lap = Laplace expansion along the first column (specification).
   Part 1 (no hypothesis on the pivot choice): if every pivot met is nonzero then
            lu_d (lu a n) = det_lap n a                               [lu_det_pivots_nonzero]
   Part 2 (order premises on the magnitude type, as in LuNonsing): the Crout invariant P A = L U holds
          for the total exact-field model on EVERY input (a zero pivot means that every candidate of
          the column is zero, the L terms 0 * (1/0) are 0), hence
            lu_d (lu a n) = det_lap n a   for every n and every matrix [lu_det_all_n]
          and   kernel_trivial a n <-> det_lap n a <> 0,  singular a n <-> det_lap n a = 0;
          for the outcome model of the C code (LuPartial.lu_c: NaN after a zero pivot before the last
          column): a finite value returned is det A; 0 is returned only if det A = 0; NaN is returned
          only if det A = 0                                            [lu_c_det_is_det]. *)
Require Import List Arith Lia Bool Permutation.
Import ListNotations.
Require Import LV.Base.CField LV.Lin.MatL LV.Lin.LuModel LV.Lin.LuPartial.
Require Import LV.Lin.LuGenA LV.Lin.LuGenB LV.Lin.LuGenC LV.Lin.LuGenD LV.Lin.LuPivot LV.Lin.LuProofs
               LV.Lin.LuNonsing.
Require Import LV.Lin.LuDetModel LV.Lin.LuDetAlg.
Local Open Scope cf_scope.

Section LuDet.
Variable K : CField.
Variable M : Type.
Variable nrm2 : K -> M.
Variable mulM : M -> M -> M.
Variable ltM : M -> M -> bool.
Variable zeroM : M.
Variable scale_of_max : M -> M.
Add Field KfLuDet : (cth K).

Notation mat := (mat K).
Notation lu_state := (lu_state K M).
Notation lu_a := (lu_a K M).
Notation lu_ri := (lu_ri K M).
Notation lu_rs := (lu_rs K M).
Notation lu_d := (lu_d K M).
Notation lu_column := (lu_column K M nrm2 mulM ltM zeroM).
Notation lu := (lu K M nrm2 mulM ltM zeroM scale_of_max).
Notation lu_upto := (lu_upto K M nrm2 mulM ltM zeroM scale_of_max).
Notation mg := (mget K).
Notation sumf := (@sumf K).
Notation prodf := (prodf K).
Notation Det := (Det K).
Notation det_lap := (det_lap K).
Notation Sinv_upto := (Sinv_upto K M nrm2 mulM ltM zeroM scale_of_max).
Notation lu_column_spec := (lu_column_spec K M nrm2 mulM ltM zeroM).
Notation lu_upto_S := (lu_upto_S K M nrm2 mulM ltM zeroM scale_of_max).
Notation swap_sign := (swap_sign K M nrm2 mulM ltM zeroM scale_of_max).
Notation pivots_nonzero := (pivots_nonzero K M nrm2 mulM ltM zeroM scale_of_max).
Notation cand_s := (cand_s K M).

(* ---------- the row permutation: each exchange negates ---------- *)
Lemma det_rowperm_upto a n : wf n n a -> forall t, t <= n ->
  Det n (rowperm K (mg a) (fun i => nth i (lu_ri (lu_upto a n t)) O))
  = prodf t (swap_sign a n) * Det n (mg a).
Proof.
  intros Hw. induction t; intros Ht.
  - cbn [LuGenD.prodf]. rewrite (Det_ext K n _ (mg a)); [ring|].
    intros i c Hi _. unfold rowperm, LuGenB.lu_upto, LuModel.lu_init.
    cbn [fold_left seq LuModel.lu_ri]. rewrite seq_nth by lia. reflexivity.
  - destruct (Sinv_upto a n Hw t ltac:(lia)) as (Hwa & Hl & Hrange & Hinj).
    destruct (lu_column_spec n (lu_upto a n t) t Hwa Hl ltac:(lia))
      as (bi & u & s & Hbi & Hw' & Hl' & Hri & _).
    rewrite <- lu_upto_S in *.
    assert (Es : swap_sign a n t = if bi =? t then 1 else copp 1).
    { unfold LuGenD.swap_sign, swapped_at. rewrite (Hri t), tr_l.
      destruct (Nat.eqb_spec bi t) as [->|Hne].
      - rewrite Nat.eqb_refl. reflexivity.
      - destruct (Nat.eqb_spec (nth t (lu_ri (lu_upto a n t)) O)
                               (nth bi (lu_ri (lu_upto a n t)) O)) as [E|E]; auto.
        apply Hinj in E; lia. }
    cbn [LuGenD.prodf]. rewrite Es.
    set (f := rowperm K (mg a) (fun i => nth i (lu_ri (lu_upto a n t)) O)) in *.
    rewrite (Det_ext K n _ (rowperm K f (tr t bi))).
    2:{ intros i c _ _. unfold f, rowperm. rewrite Hri. reflexivity. }
    destruct (Nat.eqb_spec bi t) as [->|Hne].
    + rewrite (Det_ext K n _ f).
      * rewrite IHt by lia. ring.
      * intros i c _ _. unfold rowperm. rewrite tr_same. reflexivity.
    + rewrite Det_swap by lia. rewrite IHt by lia. ring.
Qed.

Lemma swap_sign_sq a n t : prodf t (swap_sign a n) * prodf t (swap_sign a n) = 1.
Proof.
  induction t; cbn [LuGenD.prodf]; [ring|].
  transitivity ((prodf t (swap_sign a n) * prodf t (swap_sign a n)) * (swap_sign a n t * swap_sign a n t));
    [ring|].
  rewrite IHt. unfold LuGenD.swap_sign. destruct (swapped_at _ _ _ _ _ _ _ a n t); ring.
Qed.

(* ---------- from P A = L U to the determinant ---------- *)
Lemma lu_det_of_PA_LU a n : wf n n a ->
  (forall i c, i < n -> c < n ->
     mg a (nth i (lu_ri (lu a n)) O) c =
     sumf n (fun k => Lf K (mg (lu_a (lu a n))) i k * Uf K (mg (lu_a (lu a n))) k c)) ->
  lu_d (lu a n) = det_lap n a.
Proof.
  intros Hw HPA. unfold LuDetModel.det_lap.
  set (W := mg (lu_a (lu a n))) in *.
  pose proof (det_rowperm_upto a n Hw n (le_n n)) as HP.
  rewrite <- lu_upto_full in HP.
  assert (HU : Det n (rowperm K (mg a) (fun i => nth i (lu_ri (lu a n)) O)) = prodf n (fun j => W j j)).
  { rewrite (Det_ext K n _ (fun i c => Uf K W i c + sumf i (fun k => W i k * Uf K W k c))).
    - rewrite Det_unit_lower_times_upper. rewrite Det_upper.
      + apply prodf_ext. intros k _. unfold Uf. rewrite Nat.leb_refl. reflexivity.
      + intros i c _ Hc. unfold Uf. destruct (Nat.leb_spec i c); [lia|reflexivity].
    - intros i c Hi Hc. unfold rowperm. rewrite HPA by auto.
      rewrite (sumf_upto K n i); [|exact Hi|].
      2:{ intros k Hk. unfold Lf. destruct (Nat.ltb_spec k i); [lia|].
          destruct (Nat.eqb_spec k i); [lia|ring]. }
      unfold Lf at 2. rewrite Nat.ltb_irrefl, Nat.eqb_refl.
      rewrite (sumf_ext K i _ (fun k => W i k * Uf K W k c)).
      + ring.
      + intros k Hk. unfold Lf. destruct (Nat.ltb_spec k i); [reflexivity|lia]. }
  rewrite (lu_det_pivots K M nrm2 mulM ltM zeroM scale_of_max a n Hw).
  rewrite <- swap_sign_prod. fold W. rewrite <- HU, HP.
  transitivity ((prodf n (swap_sign a n) * prodf n (swap_sign a n)) * Det n (mg a)); [ring|].
  rewrite swap_sign_sq. ring.
Qed.

(* Part 1: every n, every outcome of the comparisons *)
Theorem lu_det_pivots_nonzero a n : wf n n a -> pivots_nonzero a n -> lu_d (lu a n) = det_lap n a.
Proof.
  intros Hw Hp. apply lu_det_of_PA_LU; auto.
  exact (lu_PA_eq_LU K M nrm2 mulM ltM zeroM scale_of_max a n Hw Hp).
Qed.


(* ================= Part 2: every input (order premises) ================= *)
(* the Crout invariant plus: below a zero pivot the stored L terms are zero *)
Definition LUrelZ (A0 W : nat -> nat -> K) (p : nat -> nat) (n j : nat) : Prop :=
  LUrel K A0 W p n j /\ (forall c i, c < j -> c < i < n -> W c c = 0 -> W i c = 0).

Section Order.
Hypothesis ltM_irrefl : forall x, ltM x x = false.
Hypothesis ltM_trans : forall x y z, ltM x y = true -> ltM y z = true -> ltM x z = true.
Hypothesis ltM_cotrans : forall x y z, ltM x z = true -> ltM x y = false -> ltM y z = true.
Hypothesis mulM_pos : forall x y, ltM zeroM x = true -> ltM zeroM y = true ->
  ltM zeroM (mulM x y) = true.
Hypothesis mulM_zero_r : forall x, mulM x zeroM = zeroM.
Hypothesis nrm2_zero : nrm2 0 = zeroM.
Hypothesis nrm2_pos : forall x : K, x <> 0 -> ltM zeroM (nrm2 x) = true.
Hypothesis scale_pos : forall x, ltM zeroM x = true -> ltM zeroM (scale_of_max x) = true.
Hypothesis K_zero_dec : forall x : K, x = 0 \/ x <> 0.

Lemma LUrelZ_step A0 W W' p p' n j bi (u s : nat -> K) :
  LUrelZ A0 W p n j -> j < n -> j <= bi < n ->
  (forall i, p' i = p (tr j bi i)) ->
  (forall i c, c <> j -> W' i c = W (tr j bi i) c) ->
  (forall i, i < j -> u i = W i j - sumf i (fun k => W i k * u k)) ->
  (forall i, j <= i < n -> s i = W i j - sumf j (fun k => W i k * u k)) ->
  (forall i, i < j -> W' i j = u i) ->
  W' j j = s bi ->
  (forall i, j < i < n -> W' i j = s (tr j bi i) * (1 / s bi)) ->
  (s bi = 0 -> forall i, j <= i < n -> s i = 0) ->
  LUrelZ A0 W' p' n (S j).
Proof.
  intros (HL & HZ) Hj Hbi Hp Hc Hu Hs Hu' Hjj Hl Hzc.
  assert (Tlt : forall i, i < j -> tr j bi i = i) by (intros; apply tr_other; lia).
  assert (Tn : forall i, i < n -> tr j bi i < n) by (intros; apply tr_lt; lia).
  assert (Tge : forall i, j <= i -> j <= tr j bi i).
  { intros i Hi. unfold tr. destruct (i =? j); [lia|]. destruct (i =? bi); lia. }
  assert (HZ' : forall c i, c < S j -> c < i < n -> W' c c = 0 -> W' i c = 0).
  { intros c i Hc' Hi Hz. destruct (Nat.eq_dec c j) as [->|Hne].
    - rewrite Hl by lia. rewrite Hjj in Hz.
      rewrite (Hzc Hz (tr j bi i)) by (split; [apply Tge; lia|apply Tn; lia]). ring.
    - rewrite Hc by lia. rewrite Hc, Tlt in Hz by lia. apply HZ; auto; try lia.
      destruct (lt_dec i j); [rewrite Tlt; lia|].
      pose proof (Tge i ltac:(lia)). pose proof (Tn i ltac:(lia)). lia. }
  destruct (K_zero_dec (s bi)) as [Hz|Hnz].
  2:{ split; [|exact HZ']. apply (LUrel_step K A0 W W' p p' n j bi u s); auto.
      rewrite Hjj. exact Hnz. }
  split; [|exact HZ'].
  destruct HL as (I1 & I2 & I3).
  repeat split.
  - intros i c Hi Hc' Hic.
    destruct (Nat.eq_dec c j) as [->|Hcj].
    + destruct (Nat.eq_dec i j) as [->|Hij].
      * rewrite Hp, tr_l. rewrite <- I3 by lia. rewrite Hjj, (Hs bi) by lia.
        rewrite (sumf_ext K j (fun k => W' j k * W' k j) (fun k => W bi k * u k)).
        { ring. }
        intros k Hk. rewrite Hc by lia. rewrite tr_l. rewrite Hu' by auto. reflexivity.
      * assert (Hij' : i < j) by lia.
        rewrite Hp, Tlt by auto. rewrite <- I3 by lia. rewrite Hu' by auto.
        rewrite (Hu i Hij').
        rewrite (sumf_ext K i (fun k => W' i k * W' k j) (fun k => W i k * u k)).
        { ring. }
        intros k Hk. rewrite Hc by lia. rewrite Tlt by auto. rewrite Hu' by lia. reflexivity.
    + assert (Hcj' : c < j) by lia. assert (Hij : i < j) by lia.
      rewrite Hp, Tlt by auto. rewrite I1 by auto.
      rewrite Hc, Tlt by auto. f_equal.
      apply sumf_ext. intros k Hk. rewrite !Hc by lia. rewrite !Tlt by lia. reflexivity.
  - intros i c Hi Hc' Hic.
    destruct (Nat.eq_dec c j) as [->|Hcj].
    + rewrite Hp. rewrite <- I3 by (try (apply Tn; auto); lia).
      rewrite Hl by lia. rewrite Hjj.
      rewrite (sumf_ext K j (fun k => W' i k * W' k j) (fun k => W (tr j bi i) k * u k)).
      { pose proof (Hs (tr j bi i) (conj (Tge i ltac:(lia)) (Tn i Hi))) as E.
        pose proof (Hzc Hz (tr j bi i) (conj (Tge i ltac:(lia)) (Tn i Hi))) as E0.
        rewrite E0 in E. rewrite E0.
        transitivity ((W (tr j bi i) j - sumf j (fun k => W (tr j bi i) k * u k))
                      + sumf j (fun k => W (tr j bi i) k * u k)); [ring|].
        rewrite <- E. ring. }
      intros k Hk. rewrite Hc by lia. rewrite Hu' by auto. reflexivity.
    + assert (Hcj' : c < j) by lia.
      rewrite Hp. rewrite I2; auto.
      * rewrite !Hc by auto. rewrite (Tlt c) by auto. f_equal.
        apply sumf_ext. intros k Hk. rewrite !Hc by lia. rewrite (Tlt k) by lia. reflexivity.
      * destruct (lt_dec i j); [rewrite Tlt; auto|]. pose proof (Tge i ltac:(lia)). lia.
  - intros i c Hi Hc'. rewrite Hc by lia. rewrite Hp. apply I3; auto. split; [lia|lia].
Qed.

(* a candidate in a row whose original row is all zero is zero: no premise on the earlier pivots *)
Lemma cand_zero_of_zero_row_Z A0 W p n j (u : nat -> K) i :
  LUrelZ A0 W p n j -> j <= i < n ->
  (forall c, c < n -> A0 (p i) c = 0) ->
  W i j - sumf j (fun k => W i k * u k) = 0.
Proof.
  intros ((_ & I2 & I3) & HZ) Hi Hz.
  assert (HW : forall m c, c < m -> c < j -> W i c = 0).
  { induction m; intros c Hcm Hcj; [lia|].
    pose proof (I2 i c ltac:(lia) Hcj ltac:(lia)) as E.
    rewrite Hz in E by lia.
    rewrite (sumf_zero K c) in E.
    2:{ intros k Hk. rewrite (IHm k) by lia. ring. }
    destruct (K_zero_dec (W c c)) as [Hcc|Hcc]; [apply HZ; auto; lia|].
    apply (mul_zero_r_nz K (W i c) (W c c)); [|exact Hcc].
    transitivity (0 + W i c * W c c); [ring|]. symmetry. exact E. }
  rewrite I3 by lia. rewrite Hz by lia.
  rewrite (sumf_zero K j).
  - ring.
  - intros k Hk. rewrite (HW (S k) k) by lia. ring.
Qed.

(* P A = L U (with the extra clause) after every column, on EVERY input *)
Theorem lu_invariant_all a n : wf n n a -> forall t, t <= n ->
  LUrelZ (mg a) (mg (lu_a (lu_upto a n t))) (fun i => nth i (lu_ri (lu_upto a n t)) O) n t.
Proof.
  intros Hw. induction t; intros Ht.
  - split; [repeat split; try (intros; lia)|intros; lia].
    intros i c Hi Hc. unfold LuGenB.lu_upto, LuModel.lu_init. simpl. rewrite seq_nth by auto. reflexivity.
  - specialize (IHt ltac:(lia)).
    pose proof (Sinv_upto a n Hw t ltac:(lia)) as HS.
    destruct HS as (Hwa & Hl & Hrange & Hinj).
    rewrite lu_upto_S.
    set (st := lu_upto a n t) in *.
    assert (Hj : t < n) by lia.
    destruct (lu_column_spec_bi K M nrm2 mulM ltM zeroM n st t Hwa Hl Hj)
      as (Hbi & Hw' & Hl' & Hri & Hc & Hu & Hs & Hu' & Hjj & Hlow & _).
    apply (LUrelZ_step (mg a) (mg (lu_a st)) _ (fun i => nth i (lu_ri st) O) _ n t
             (col_bi K M nrm2 mulM ltM zeroM n st t)
             (fun i => mg (phase1 K t (lu_a st)) i t) (cand_s n st t)); auto.
    (* zero pivot => every candidate of the column is zero *)
    intros Hz0 i Hi.
    destruct (K_zero_dec (cand_s n st t i)) as [E|Hnz]; [exact E|]. exfalso.
    assert (Hrow : exists c, c < n /\ mg a (nth i (lu_ri st) O) c <> 0).
    { destruct (row_zero_dec K K_zero_dec a (nth i (lu_ri st) O) n) as [Hzr|H]; auto.
      exfalso. apply Hnz. rewrite (Hs i Hi).
      exact (cand_zero_of_zero_row_Z (mg a) (mg (lu_a st)) (fun i => nth i (lu_ri st) O) n t _ i
               IHt Hi Hzr). }
    assert (Hrs : ltM zeroM (nth i (lu_rs st) zeroM) = true).
    { unfold st. rewrite (RSinv_upto K M nrm2 mulM ltM zeroM scale_of_max a n Hw t ltac:(lia) i Hi).
      fold st. apply scale_pos. apply (row_max_pos K M nrm2 ltM zeroM ltM_trans ltM_cotrans nrm2_pos).
      exact Hrow. }
    destruct (pivot_nonzero_if_any_s K M nrm2 mulM ltM zeroM ltM_irrefl ltM_trans mulM_pos mulM_zero_r
                nrm2_zero nrm2_pos n st t Hwa Hj) as (_ & _ & _ & Hp).
    { exists i. split; [exact Hi|]. split; [exact Hnz|exact Hrs]. }
    apply Hp. rewrite Hjj. exact Hz0.
Qed.

Theorem lu_PA_eq_LU_all a n : wf n n a ->
  forall i c, i < n -> c < n ->
    mg a (nth i (lu_ri (lu a n)) O) c =
    sumf n (fun k => Lf K (mg (lu_a (lu a n))) i k * Uf K (mg (lu_a (lu a n))) k c).
Proof.
  intros Hw.
  apply (LU_product K (mg a) (mg (lu_a (lu a n))) (fun i => nth i (lu_ri (lu a n)) O) n).
  exact (proj1 (lu_invariant_all a n Hw n (le_n n))).
Qed.

(* the determinant accumulator of the total exact-field model is det A on EVERY input, every n *)
Theorem lu_det_all_n a n : wf n n a -> lu_d (lu a n) = det_lap n a.
Proof. intros Hw. apply lu_det_of_PA_LU; auto. apply lu_PA_eq_LU_all; auto. Qed.

Notation kernel_trivial := (kernel_trivial K).
Notation singular := (singular K).

Theorem det_nonzero_iff_kernel_trivial a n : wf n n a -> (det_lap n a <> 0 <-> kernel_trivial a n).
Proof.
  intros Hw. rewrite <- (lu_det_all_n a n Hw).
  rewrite <- (pivots_nonzero_iff_trivial_kernel K M nrm2 mulM ltM zeroM scale_of_max ltM_irrefl ltM_trans
               ltM_cotrans mulM_pos mulM_zero_r nrm2_zero nrm2_pos scale_pos K_zero_dec a n Hw).
  rewrite (lu_det_pivots K M nrm2 mulM ltM zeroM scale_of_max a n Hw). split.
  - intros Hd j Hj Hz. apply Hd. rewrite (prodf_zero K n (fun j => mg (lu_a (lu a n)) j j) j Hj Hz). ring.
  - intros Hp Hd.
    assert (Hpm : forall k, LuGenD.pm1 K k <> 0).
    { induction k; cbn [LuGenD.pm1]; [apply (one_neq_zero K)|].
      intros E. apply IHk. transitivity (- (- (1) * LuGenD.pm1 K k)); [ring|]. rewrite E. ring. }
    assert (Hpr : forall t, t <= n -> prodf t (fun j => mg (lu_a (lu a n)) j j) <> 0).
    { induction t; intros Ht; cbn [LuGenD.prodf]; [apply (one_neq_zero K)|].
      intros E. destruct (K_zero_dec (prodf t (fun j => mg (lu_a (lu a n)) j j))) as [E1|E1].
      - apply (IHt ltac:(lia)). exact E1.
      - apply (Hp t ltac:(lia)). apply (mul_zero_r_nz K _ (prodf t (fun j => mg (lu_a (lu a n)) j j))); auto.
        rewrite <- E. ring. }
    apply (Hpr n (le_n n)).
    apply (mul_zero_r_nz K _ (LuGenD.pm1 K (swap_count K M nrm2 mulM ltM zeroM scale_of_max a n n))); auto.
    rewrite <- Hd. ring.
Qed.

Section Partial.
Variable isz : K -> bool.
Hypothesis isz_spec : forall x, isz x = true <-> x = 0.
Notation lu_c := (lu_c K M nrm2 mulM ltM zeroM scale_of_max isz).
Notation lu_c_outcome := (lu_c_outcome K M nrm2 mulM ltM zeroM scale_of_max isz isz_spec ltM_irrefl ltM_trans
                            ltM_cotrans mulM_pos mulM_zero_r nrm2_zero nrm2_pos scale_pos).

Theorem singular_iff_det_zero a n : wf n n a -> (singular a n <-> det_lap n a = 0).
Proof.
  intros Hw. split.
  - intros Hs. destruct (K_zero_dec (det_lap n a)) as [E|E]; auto.
    exfalso. apply (singular_not_trivial K a n Hs). apply det_nonzero_iff_kernel_trivial; auto.
  - intros Hd.
    destruct (lu_c_outcome a n Hw) as [(Hk & _)|[(Hs & _)|(Hs & _)]]; auto.
    exfalso. apply (proj2 (det_nonzero_iff_kernel_trivial a n Hw)) in Hk. exact (Hk Hd).
Qed.

(* what the C function returns (outcome model): a finite value is det A; NaN only when det A = 0 *)
Theorem lu_c_det_is_det a n : wf n n a ->
  match lu_c_det K M (lu_c a n) with
  | DetFin d => d = det_lap n a
  | DetNaN => det_lap n a = 0
  end.
Proof.
  intros Hw.
  destruct (lu_c_outcome a n Hw) as [(_ & E & _)|[(_ & E & _)|(Hs & j & _ & E & _)]];
    rewrite E; cbn [LuPartial.lu_c_det].
  - apply lu_det_all_n; auto.
  - apply lu_det_all_n; auto.
  - apply singular_iff_det_zero; auto.
Qed.

(* the full call-site test rejects exactly the matrices of determinant 0 *)
Theorem lu_c_rejects_iff_det_zero a n : wf n n a ->
  (site_rejects_full K isz (lu_c_det K M (lu_c a n)) = true <-> det_lap n a = 0).
Proof.
  intros Hw. rewrite <- (singular_iff_det_zero a n Hw).
  exact (lu_c_rejects_iff_singular K M nrm2 mulM ltM zeroM scale_of_max isz isz_spec ltM_irrefl ltM_trans
           ltM_cotrans mulM_pos mulM_zero_r nrm2_zero nrm2_pos scale_pos a n Hw).
Qed.
End Partial.

End Order.
End LuDet.
