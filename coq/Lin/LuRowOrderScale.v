(* Row SCALING at the solution level, every n: scaling row i of (A, b) by a nonzero factor d_i leaves the
   pivot rows unchanged (LuPivot.pivot_scale_invariant: the metric |s_i| / rowmax_i of the scaled partial
   pivoting as coded is scale invariant) AND leaves the matrix returned by mldivide unchanged, entry by entry,
   in exact arithmetic.  The two runs perform different operations (U rows scaled by d, L multipliers by
   d_i/d_c: LuPivot.ScaleRel), so the solution-level statement is by uniqueness: both results solve the
   nonsingular system A x = b.  Premise: the pivots of the run on A are nonzero (A nonsingular); premises on
   the magnitude type as in LuPivot (commutative monoid with inverse for positives, |xy| = |x||y|), discharged
   at Qc in [q_mldivide_row_scale_invariant]. *)
Require Import List Arith Lia Bool QArith Qcanon.
Import ListNotations.
Require Import LV.Base.CField LV.Base.QcI LV.Lin.MatL LV.Lin.LuModel LV.Lin.LuQI.
Require Import LV.Lin.LuGenA LV.Lin.LuGenB LV.Lin.LuGenC LV.Lin.LuGenD LV.Lin.LuPivot LV.Lin.LuProofs LV.Lin.LuNonsing.
Local Open Scope nat_scope.
Local Open Scope cf_scope.

Section RowScale.
Variable K : CField.
Variable M : Type.
Variable nrm2 : K -> M.
Variable mulM : M -> M -> M.
Variable ltM : M -> M -> bool.
Variable zeroM : M.
Add Field KfRS : (cth K).
Hypothesis mulM_zero_r : forall x, mulM x zeroM = zeroM.
Hypothesis nrm2_pos : forall x : K, x <> 0 -> ltM zeroM (nrm2 x) = true.
Variable oneM : M.
Variable invM : M -> M.
Hypothesis mulM_comm : forall x y, mulM x y = mulM y x.
Hypothesis mulM_assoc : forall x y z, mulM x (mulM y z) = mulM (mulM x y) z.
Hypothesis mulM_one_l : forall x, mulM oneM x = x.
Hypothesis invM_l : forall x, ltM zeroM x = true -> mulM (invM x) x = oneM.
Hypothesis invM_mul : forall x y, invM (mulM x y) = mulM (invM x) (invM y).
Hypothesis ltM_mul_pos : forall d x y, ltM zeroM d = true -> ltM (mulM d x) (mulM d y) = ltM x y.
Hypothesis nrm2_mul : forall x y : K, nrm2 (x * y) = mulM (nrm2 x) (nrm2 y).

Notation mat := (mat K).
Notation mg := (mget K).
Notation sumf := (@sumf K).
Notation lu_a := (lu_a K M).
Notation lu_ri := (lu_ri K M).
Notation lu_pivots := (lu_pivots K M).
Notation lu := (lu K M nrm2 mulM ltM zeroM invM).
Notation mldivide := (mldivide K M nrm2 mulM ltM zeroM invM).

(* rows of an n x m matrix scaled by d *)
Definition scale_rows_nm (d : nat -> K) (b : mat) (n m : nat) : mat :=
  mbuild K n m (fun i c => d i * mg b i c).

Theorem mldivide_row_scale_invariant n m (d : nat -> K) (a b : mat) :
  wf n n a -> wf n m b -> (forall i, i < n -> d i <> 0) ->
  (forall j, j < n -> mg (lu_a (lu a n)) j j <> 0) ->
  lu_pivots (lu (scale_rows K d a n) n) = lu_pivots (lu a n) /\
  lu_ri (lu (scale_rows K d a n) n) = lu_ri (lu a n) /\
  (forall j, j < n -> mg (lu_a (lu (scale_rows K d a n) n)) j j <> 0) /\
  forall i k, i < n -> k < m ->
    mg (fst (mldivide (scale_rows K d a n) (scale_rows_nm d b n m) n m)) i k =
    mg (fst (mldivide a b n m)) i k.
Proof.
  intros Hw Hb Hd Hnz.
  pose proof (pivot_scale_invariant_upto K M nrm2 mulM ltM zeroM mulM_zero_r nrm2_pos oneM invM mulM_comm
                mulM_assoc mulM_one_l invM_l invM_mul ltM_mul_pos nrm2_mul d n Hd a Hw Hnz n (le_n n)) as HR.
  rewrite <- !lu_upto_full in HR.
  destruct HR as (Eri & Epv & HS & _ & _ & _ & _ & HB & _).
  cbv zeta in HB. destruct HS as (_ & _ & Hrange & _).
  assert (Hnz' : forall j, j < n -> mg (lu_a (lu (scale_rows K d a n) n)) j j <> 0).
  { intros j Hj E. rewrite HB in E by lia.
    apply (Hnz j Hj). apply (mul_zero_r_nz K _ (d (nth j (lu_ri (lu a n)) O))).
    - rewrite <- E. ring.
    - apply Hd. apply Hrange. exact Hj. }
  split; [exact Epv|]. split; [exact Eri|]. split; [exact Hnz'|].
  intros i k Hi Hk.
  set (x := fst (mldivide a b n m)). set (x' := fst (mldivide (scale_rows K d a n) (scale_rows_nm d b n m) n m)).
  assert (Hwa' : wf n n (scale_rows K d a n)) by apply wf_mbuild.
  assert (Hwb' : wf n m (scale_rows_nm d b n m)) by apply wf_mbuild.
  assert (E : forall r, r < n -> sumf n (fun t => mg a r t * mg x t k) = mg b r k).
  { intros r Hr. rewrite <- (mget_mmul K n n m a x r k Hr Hk).
    apply (lu_solves_mldivide K M nrm2 mulM ltM zeroM invM n m a b Hw Hb Hnz r k Hr Hk). }
  assert (E' : forall r, r < n -> sumf n (fun t => mg a r t * mg x' t k) = mg b r k).
  { intros r Hr.
    pose proof (lu_solves_mldivide K M nrm2 mulM ltM zeroM invM n m _ _ Hwa' Hwb' Hnz' r k Hr Hk) as X.
    fold x' in X. rewrite (mget_mmul K n n m _ x' r k Hr Hk) in X.
    unfold scale_rows_nm in X at 1. rewrite mget_mbuild in X by auto.
    rewrite (sumf_ext K n _ (fun t => d r * (mg a r t * mg x' t k))) in X.
    2:{ intros t Ht. unfold scale_rows. rewrite mget_mbuild by auto. ring. }
    rewrite <- sumf_scale_l in X.
    assert (Z : sumf n (fun t => mg a r t * mg x' t k) - mg b r k = 0).
    { apply (mul_zero_r_nz K _ (d r)); [|apply Hd; auto].
      transitivity (d r * sumf n (fun t => mg a r t * mg x' t k) - d r * mg b r k); [ring|].
      rewrite X. ring. }
    transitivity ((sumf n (fun t => mg a r t * mg x' t k) - mg b r k) + mg b r k); [ring|].
    rewrite Z. ring. }
  assert (V : mg x' i k - mg x i k = 0).
  { apply (lu_kernel_trivial K M nrm2 mulM ltM zeroM invM a n Hw Hnz (fun t => mg x' t k - mg x t k)); auto.
    intros r Hr.
    rewrite (sumf_ext K n _ (fun t => mg a r t * mg x' t k + (- (1)) * (mg a r t * mg x t k)))
      by (intros; ring).
    rewrite sumf_add, <- sumf_scale_l, E, E' by auto. ring. }
  transitivity ((mg x' i k - mg x i k) + mg x i k); [ring|]. rewrite V. ring.
Qed.
End RowScale.

(* at Q[i] / Qc with the reciprocal row scale: no premise left on the magnitudes *)
Theorem q_mldivide_row_scale_invariant n m (d : nat -> QIF) (a b : mat QIF) :
  wf n n a -> wf n m b -> (forall i, i < n -> d i <> @c0 QIF) ->
  (forall j, j < n -> mget QIF (lu_a QIF Qc (qp_lu a n)) j j <> @c0 QIF) ->
  lu_pivots QIF Qc (qp_lu (scale_rows QIF d a n) n) = lu_pivots QIF Qc (qp_lu a n) /\
  forall i k, i < n -> k < m ->
    mget QIF (fst (mldivide QIF Qc qi_nrm Qcmult Qc_ltb 0%Qc Qcinv (scale_rows QIF d a n) (scale_rows_nm QIF d b n m) n m)) i k =
    mget QIF (fst (mldivide QIF Qc qi_nrm Qcmult Qc_ltb 0%Qc Qcinv a b n m)) i k.
Proof.
  intros Hw Hb Hd Hnz.
  destruct (mldivide_row_scale_invariant QIF Qc qi_nrm Qcmult Qc_ltb 0%Qc qc_mulM_zero_r qi_nrm2_pos
              1%Qc Qcinv qc_mulM_comm qc_mulM_assoc qc_mulM_one_l qc_invM_l qc_invM_mul
              qc_ltM_mul_pos qi_nrm2_mul n m d a b Hw Hb Hd Hnz) as (H1 & _ & _ & H4).
  split; [exact H1|exact H4].
Qed.
