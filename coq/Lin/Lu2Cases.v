(* At n = 2 the LU model depends on the magnitude comparison only through the choice of the first
   pivot row. *)
Require Import List Arith.
Import ListNotations.
Require Import LV.Base.CField LV.Lin.MatL LV.Lin.LuModel.
Local Open Scope cf_scope.
Section L2.
Variable K : CField.
Variable M : Type.
Variable nrm2 : K -> M.
Variable mulM : M -> M -> M.
Variable zeroM : M.
Variable scale_of_max : M -> M.

(* Which comparator is used matters at n = 2 only through the choice of the first pivot row:
   for every comparator the factorisation equals the one obtained with one of the two constant
   comparators. *)
Lemma lu2_cases (ltM : M -> M -> bool) (a b c d : K) :
  exists swap : bool,
    let s1 := lu K M nrm2 mulM ltM zeroM scale_of_max [[a; b]; [c; d]] 2 in
    let s2 := lu K M nrm2 mulM (fun _ _ => swap) zeroM scale_of_max [[a; b]; [c; d]] 2 in
    lu_a K M s1 = lu_a K M s2 /\ lu_ri K M s1 = lu_ri K M s2 /\ lu_d K M s1 = lu_d K M s2.
Proof.
  cbv beta iota zeta delta [lu lu_init lu_column row_max dot_sub mget mset mrow upd mbuild mzero swap_rows
     fold_left seq map nth rev app Nat.eqb Nat.sub negb fst snd lu_a lu_ri lu_rs lu_d lu_pivots lu_cands
     repeat length].
  repeat match goal with
         | |- context [if ltM ?x ?y then _ else _] => destruct (ltM x y)
         end;
  cbv beta iota zeta delta [lu lu_init lu_column row_max dot_sub mget mset mrow upd mbuild mzero swap_rows
     fold_left seq map nth rev app Nat.eqb Nat.sub negb fst snd lu_a lu_ri lu_rs lu_d lu_pivots lu_cands
     repeat length];
  first [ exists true; repeat split; reflexivity | exists false; repeat split; reflexivity ].
Qed.
End L2.
