(* Generic-n correctness of the LU model, part D: mrdivide, the permutation vector, the pivot
   list and the determinant accumulator. *)
Require Import List Arith Lia Bool Permutation.
Import ListNotations.
Require Import LV.Base.CField LV.Lin.MatL LV.Lin.LuModel LV.Lin.LuGenA LV.Lin.LuGenB LV.Lin.LuGenC.
Local Open Scope cf_scope.

Section LuGenD.
Variable K : CField.
Variable M : Type.
Variable nrm2 : K -> M.
Variable mulM : M -> M -> M.
Variable ltM : M -> M -> bool.
Variable zeroM : M.
Variable scale_of_max : M -> M.
Add Field KfD : (cth K).

Notation mat := (mat K).
Notation lu_state := (lu_state K M).
Notation lu_a := (lu_a K M).
Notation lu_ri := (lu_ri K M).
Notation lu_d := (lu_d K M).
Notation lu_pivots := (lu_pivots K M).
Notation lu_column := (lu_column K M nrm2 mulM ltM zeroM).
Notation lu := (lu K M nrm2 mulM ltM zeroM scale_of_max).
Notation lu_upto := (lu_upto K M nrm2 mulM ltM zeroM scale_of_max).
Notation mrdivide := (mrdivide K M nrm2 mulM ltM zeroM scale_of_max).
Notation mg := (mget K).
Notation Sinv_upto := (Sinv_upto K M nrm2 mulM ltM zeroM scale_of_max).
Notation lu_column_spec := (lu_column_spec K M nrm2 mulM ltM zeroM).
Notation lu_upto_S := (lu_upto_S K M nrm2 mulM ltM zeroM scale_of_max).

(* ---------- writes along one row at permuted columns ---------- *)
Definition rstep (i : nat) (p : nat -> nat) (g : mat -> nat -> K) (a : mat) (t : nat) : mat :=
  mset K a i (p t) (g a t).

Lemma fold_rstep_wf i p g r c l a : wf r c a -> wf r c (fold_left (rstep i p g) l a).
Proof. exact (fold_wstep_wf K (fun _ => i) p g r c l a). Qed.

Lemma fold_rstep_other i p g l i' c a : (i' <> i \/ forall t, In t l -> c <> p t) ->
  mg (fold_left (rstep i p g) l a) i' c = mg a i' c.
Proof.
  intros H. apply (fold_wstep_other K (fun _ => i) p g l i' c).
  intros t Ht. destruct H as [H|H]; [left; auto|right; auto].
Qed.

Lemma fold_rstep_prefix i p g l1 l2 i' c a : (i' <> i \/ forall t, In t l2 -> c <> p t) ->
  mg (fold_left (rstep i p g) (l1 ++ l2) a) i' c = mg (fold_left (rstep i p g) l1 a) i' c.
Proof. intros H. rewrite fold_left_app. apply fold_rstep_other; auto. Qed.

Lemma fold_rstep_at i p g r c l1 t0 l2 a : wf r c a -> i < r -> p t0 < c ->
  (forall t, In t l2 -> p t0 <> p t) ->
  mg (fold_left (rstep i p g) (l1 ++ t0 :: l2) a) i (p t0) = g (fold_left (rstep i p g) l1 a) t0.
Proof.
  intros Hw Hi Hc H.
  apply (fold_wstep_at K (fun _ => i) p g r c l1 t0 l2 a Hw Hi Hc).
  intros t Ht. right. auto.
Qed.

Definition rfwd_g (A b : mat) (p : nat -> nat) (i : nat) (x : mat) (j : nat) : K :=
  fold_left (fun s k => s - mg A k j * mg x i (p k)) (seq 0 j) (mg b i j) / mg A j j.
Definition rbwd_g (A : mat) (n : nat) (p : nat -> nat) (i : nat) (x : mat) (j : nat) : K :=
  fold_left (fun s k => s - mg A k j * mg x i (p k)) (seq (S j) (n - S j)) (mg x i (p j)).
Definition solve_row (A b : mat) p (n i : nat) (x : mat) : mat :=
  fold_left (rstep i p (rbwd_g A n p i)) (rev (seq 0 n))
            (fold_left (rstep i p (rfwd_g A b p i)) (seq 0 n) x).
Definition rsolve_all (A b : mat) p (n m : nat) : mat :=
  fold_left (fun x i => solve_row A b p n i x) (seq 0 m) (mzero K m n).

Lemma mrdivide_eq b a m n :
  mrdivide b a m n =
  (rsolve_all (lu_a (lu a n)) b (fun k => nth k (lu_ri (lu a n)) O) n m, lu_d (lu a n)).
Proof. reflexivity. Qed.

Definition row_solved (A b : mat) (p : nat -> nat) (n i : nat) (x : mat) : Prop :=
  exists z : nat -> K,
   (forall j, j < n -> z j = (mg b i j - sumf j (fun k => mg A k j * z k)) / mg A j j) /\
   (forall j, j < n ->
      mg x i (p j) = z j - sumf (n - S j)
                              (fun k => mg A (S j + k)%nat j * mg x i (p (S j + k)%nat))).

Lemma row_solved_ext A b p n i x x' : (forall c, mg x' i c = mg x i c) ->
  row_solved A b p n i x -> row_solved A b p n i x'.
Proof.
  intros H (z & Hz & Hx). exists z. split; auto.
  intros j Hj. rewrite H. rewrite (Hx j Hj). f_equal.
  apply sumf_ext. intros k Hk. rewrite H. reflexivity.
Qed.

Section Row.
Variables (p : nat -> nat) (n : nat).
Hypothesis Prange : forall t, t < n -> p t < n.
Hypothesis Pinj : forall t t', t < n -> t' < n -> p t = p t' -> t = t'.

Lemma solve_row_spec A b m i x : wf m n x -> i < m ->
  let x' := solve_row A b p n i x in
  wf m n x' /\ (forall i' c, i' <> i -> mg x' i' c = mg x i' c) /\ row_solved A b p n i x'.
Proof.
  intros Hw Hi x'. unfold x', solve_row.
  set (x1 := fold_left (rstep i p (rfwd_g A b p i)) (seq 0 n) x).
  assert (Hw1 : wf m n x1) by (apply fold_rstep_wf; auto).
  split; [apply fold_rstep_wf; auto|]. split.
  { intros i' c Hc. rewrite fold_rstep_other by auto. apply fold_rstep_other; auto. }
  exists (fun j => mg x1 i (p j)). split.
  - intros j Hj. unfold x1. rewrite (seq_split_at 0 n j) by lia.
    rewrite (fold_rstep_at i p _ m n); auto.
    2:{ intros t Ht E. apply in_seq in Ht. apply Pinj in E; lia. }
    unfold rfwd_g. rewrite fold_sub_seq. f_equal. f_equal.
    apply sumf_ext. intros k Hk. simpl. f_equal.
    symmetry. apply fold_rstep_prefix. right. intros t Ht E.
    assert (j <= t < n) by (destruct Ht as [Ht|Ht]; [lia|apply in_seq in Ht; lia]).
    apply Pinj in E; lia.
  - intros j Hj. rewrite (rev_seq_split_at n j) by auto.
    rewrite (fold_rstep_at i p _ m n); auto.
    2:{ intros t Ht E. rewrite <- in_rev in Ht. apply in_seq in Ht. apply Pinj in E; lia. }
    unfold rbwd_g. rewrite fold_sub_seq. f_equal.
    + apply fold_rstep_other. right. intros t Ht E. rewrite <- in_rev in Ht.
      apply in_seq in Ht. apply Pinj in E; lia.
    + apply sumf_ext. intros k Hk. f_equal.
      symmetry. apply fold_rstep_prefix. right. intros t Ht E.
      assert (t <= j) by (destruct Ht as [Ht|Ht]; [lia|
                          rewrite <- in_rev in Ht; apply in_seq in Ht; lia]).
      apply Pinj in E; lia.
Qed.

Lemma rsolve_all_spec A b m : forall t, t <= m ->
  let x := fold_left (fun x i => solve_row A b p n i x) (seq 0 t) (mzero K m n) in
  wf m n x /\ forall i, i < t -> row_solved A b p n i x.
Proof.
  induction t; intros Ht.
  - simpl. split; [apply wf_mzero|]. intros; lia.
  - rewrite seq_S, fold_left_app. simpl.
    destruct (IHt ltac:(lia)) as (Hw & Hc).
    set (x0 := fold_left (fun x i => solve_row A b p n i x) (seq 0 t) (mzero K m n)) in *.
    destruct (solve_row_spec A b m t x0 Hw ltac:(lia)) as (Hw' & Ho & Hs).
    split; auto. intros i Hi. destruct (Nat.eq_dec i t) as [->|Hit]; auto.
    apply (row_solved_ext A b p n i x0); [|apply Hc; lia].
    intros c. apply Ho. auto.
Qed.
End Row.

(* ---------- algebra of the row solve ---------- *)
Lemma U_apply_left W n (rhs z : nat -> K) :
  (forall j, j < n -> W j j <> 0) ->
  (forall j, j < n -> z j = (rhs j - sumf j (fun k => W k j * z k)) / W j j) ->
  forall j, j < n -> sumf n (fun k => z k * Uf K W k j) = rhs j.
Proof.
  intros Hnz Hz j Hj. rewrite (sumf_upto K n j); auto.
  - rewrite (sumf_ext K j _ (fun k => W k j * z k)) by (intros; unfold Uf; bsimp; ring).
    unfold Uf. bsimp. pose proof (Hz j Hj) as E.
    set (T := sumf j _) in *. rewrite E. field. apply Hnz; auto.
  - intros k Hk. unfold Uf. bsimp. ring.
Qed.

Lemma L_apply_left W n (z w : nat -> K) :
  (forall j, j < n ->
     w j = z j - sumf (n - S j) (fun k => W (S j + k)%nat j * w (S j + k)%nat)) ->
  forall j, j < n -> sumf n (fun k => w k * Lf K W k j) = z j.
Proof.
  intros Hw j Hj.
  rewrite (sumf_ext K n _ (fun k => if j <=? k then w k * Lf K W k j else 0))
    by (intros; unfold Lf; bsimp; ring).
  rewrite sumf_cut_ge by lia. replace (n - j)%nat with (1 + (n - S j))%nat by lia.
  rewrite sumf_split. cbn [sumf]. rewrite Nat.add_0_r.
  rewrite (sumf_ext K (n - S j) _ (fun k => W (S j + k)%nat j * w (S j + k)%nat)).
  2:{ intros k Hk. replace (j + (1 + k))%nat with (S j + k)%nat by lia.
      unfold Lf. bsimp. ring. }
  pose proof (Hw j Hj) as E. set (T := sumf (n - S j) _) in *.
  unfold Lf. bsimp. rewrite E. ring.
Qed.

Lemma lu_rsolve_algebra (A0 W : nat -> nat -> K) (pl : list nat) n (rhs z x : nat -> K) :
  Permutation pl (seq 0 n) ->
  (forall i c, i < n -> c < n ->
     A0 (nth i pl O) c = sumf n (fun k => Lf K W i k * Uf K W k c)) ->
  (forall j, j < n -> W j j <> 0) ->
  (forall j, j < n -> z j = (rhs j - sumf j (fun k => W k j * z k)) / W j j) ->
  (forall j, j < n ->
     x (nth j pl O) = z j - sumf (n - S j)
                      (fun k => W (S j + k)%nat j * x (nth (S j + k)%nat pl O))) ->
  forall c, c < n -> sumf n (fun r => x r * A0 r c) = rhs c.
Proof.
  intros Hperm HA Hnz Hz Hx c Hc.
  rewrite <- (sumf_reindex K n pl (fun r => x r * A0 r c) Hperm).
  rewrite (sumf_ext K n _
            (fun j => sumf n (fun k => (x (nth j pl O) * Lf K W j k) * Uf K W k c))).
  2:{ intros j Hj. rewrite HA by auto. rewrite sumf_scale_l. apply sumf_ext. intros; ring. }
  rewrite sumf_exchange.
  rewrite (sumf_ext K n _ (fun k => z k * Uf K W k c)).
  - apply (U_apply_left W n rhs z); auto.
  - intros k Hk. rewrite <- sumf_scale_r.
    rewrite (L_apply_left W n z (fun j => x (nth j pl O))); auto.
Qed.

Theorem lu_solves_mrdivide : forall n m (a b : mat), wf n n a -> wf m n b ->
  (forall j, j < n -> mg (lu_a (lu a n)) j j <> 0) ->
  forall i k, i < m -> k < n ->
    mg (mmul K m n n (fst (mrdivide b a m n)) a) i k = mg b i k.
Proof.
  intros n m a b Hwa Hwb Hnz i k Hi Hk.
  rewrite mget_mmul by auto. rewrite mrdivide_eq. cbn [fst].
  set (st := lu a n).
  pose proof (Sinv_upto a n Hwa n (le_n n)) as HS.
  pose proof (lu_invariant K M nrm2 mulM ltM zeroM scale_of_max a n Hwa n (le_n n) Hnz) as HI.
  change (lu_upto a n n) with st in HS, HI.
  pose proof (Sinv_perm K M n st HS) as Hperm.
  destruct HS as (HwW & Hl & Hrange & Hinj).
  destruct (rsolve_all_spec (fun k => nth k (lu_ri st) O) n Hrange Hinj (lu_a st) b m m (le_n m))
    as (HwX & Hrows).
  destruct (Hrows i Hi) as (z & Hz & Hx).
  apply (lu_rsolve_algebra (mg a) (mg (lu_a st)) (lu_ri st) n (fun c => mg b i c) z
           (fun r => mg (rsolve_all (lu_a st) b (fun k0 => nth k0 (lu_ri st) O) n m) i r));
    auto.
  apply (LU_product K (mg a) (mg (lu_a st)) (fun i => nth i (lu_ri st) O) n). exact HI.
Qed.

(* ---------- permutation vector, pivots, determinant accumulator ---------- *)
Theorem lu_ri_perm a n : wf n n a -> Permutation (lu_ri (lu a n)) (seq 0 n).
Proof.
  intros Hw. apply (Sinv_perm K M n). exact (Sinv_upto a n Hw n (le_n n)).
Qed.

Lemma lu_upto_stable a n : wf n n a -> forall j t, j < t -> t <= n ->
  nth j (lu_ri (lu_upto a n t)) O = nth j (lu_ri (lu_upto a n (S j))) O /\
  (forall i c, i <= j -> c <= j ->
     mg (lu_a (lu_upto a n t)) i c = mg (lu_a (lu_upto a n (S j))) i c).
Proof.
  intros Hw j t Hjt. induction t; intros Ht; [lia|].
  destruct (Nat.eq_dec j t) as [->|Hne]; [split; auto|].
  destruct (IHt ltac:(lia) ltac:(lia)) as (IH1 & IH2).
  destruct (Sinv_upto a n Hw t ltac:(lia)) as (Hwa & Hl & _).
  rewrite lu_upto_S.
  destruct (lu_column_spec n (lu_upto a n t) t Hwa Hl ltac:(lia))
    as (bi & u & s & Hbi & Hw' & Hl' & Hri & Hc & _).
  split.
  - rewrite Hri. rewrite tr_other by lia. exact IH1.
  - intros i c Hi Hc'. rewrite Hc by lia. rewrite tr_other by lia. apply IH2; auto.
Qed.

Lemma lu_pivots_upto a n : wf n n a -> forall t, t <= n ->
  length (lu_pivots (lu_upto a n t)) = t /\
  forall j, j < t -> nth j (lu_pivots (lu_upto a n t)) O = nth j (lu_ri (lu_upto a n (S j))) O.
Proof.
  intros Hw. induction t; intros Ht.
  - split; [reflexivity|intros; lia].
  - destruct (IHt ltac:(lia)) as (IHl & IHn).
    destruct (Sinv_upto a n Hw t ltac:(lia)) as (Hwa & Hl & _).
    destruct (lu_column_spec n (lu_upto a n t) t Hwa Hl ltac:(lia))
      as (bi & u & s & Hbi & Hw' & Hl' & Hri & Hc & _ & _ & _ & _ & _ & _ & Hp).
    rewrite <- lu_upto_S in Hp. rewrite Hp. split.
    + rewrite app_length, IHl. simpl. lia.
    + intros j Hj. destruct (Nat.eq_dec j t) as [->|Hne].
      * rewrite app_nth2 by lia. rewrite IHl, Nat.sub_diag. reflexivity.
      * rewrite app_nth1 by lia. apply IHn. lia.
Qed.

Theorem lu_pivots_eq_ri a n : wf n n a -> lu_pivots (lu a n) = lu_ri (lu a n).
Proof.
  intros Hw. change (lu a n) with (lu_upto a n n).
  destruct (lu_pivots_upto a n Hw n (le_n n)) as (Hl & Hn).
  destruct (Sinv_upto a n Hw n (le_n n)) as (_ & Hl' & _).
  apply (nth_ext _ _ O O); [lia|].
  intros j Hj. rewrite Hl in Hj. rewrite Hn by auto.
  symmetry. apply (lu_upto_stable a n Hw j n); lia.
Qed.

Fixpoint prodf (n : nat) (f : nat -> K) : K :=
  match n with O => 1 | S n' => prodf n' f * f n' end.

Lemma prodf_ext n f g : (forall k, k < n -> f k = g k) -> prodf n f = prodf n g.
Proof.
  induction n; intros H; simpl; auto.
  rewrite IHn by (intros; apply H; lia). rewrite H by lia. reflexivity.
Qed.

(* column j swapped rows iff the original row sitting at position j changed at step j *)
Definition swapped_at (a : mat) (n j : nat) : bool :=
  negb (nth j (lu_ri (lu_upto a n j)) O =? nth j (lu_ri (lu_upto a n (S j))) O).
Definition swap_sign (a : mat) (n j : nat) : K := if swapped_at a n j then copp 1 else 1.

Lemma lu_det_upto a n : wf n n a -> forall t, t <= n ->
  lu_d (lu_upto a n t) =
  prodf t (swap_sign a n) * prodf t (fun j => mg (lu_a (lu_upto a n t)) j j).
Proof.
  intros Hw. induction t; intros Ht.
  - simpl. ring.
  - destruct (Sinv_upto a n Hw t ltac:(lia)) as (Hwa & Hl & Hrange & Hinj).
    destruct (lu_column_spec n (lu_upto a n t) t Hwa Hl ltac:(lia))
      as (bi & u & s & Hbi & Hw' & Hl' & Hri & Hc & _ & _ & _ & _ & _ & Hd & _).
    rewrite <- lu_upto_S in *. rewrite Hd. rewrite IHt by lia. cbn [prodf].
    rewrite (prodf_ext t (fun j => mg (lu_a (lu_upto a n (S t))) j j)
                         (fun j => mg (lu_a (lu_upto a n t)) j j)).
    2:{ intros k Hk. rewrite Hc by lia. rewrite tr_other by lia. reflexivity. }
    assert (Es : swap_sign a n t = if bi =? t then 1 else copp 1).
    { unfold swap_sign, swapped_at. rewrite (Hri t), tr_l.
      destruct (Nat.eqb_spec bi t) as [->|Hne].
      - rewrite Nat.eqb_refl. reflexivity.
      - destruct (Nat.eqb_spec (nth t (lu_ri (lu_upto a n t)) O)
                               (nth bi (lu_ri (lu_upto a n t)) O)) as [E|E]; auto.
        apply Hinj in E; lia. }
    rewrite Es. ring.
Qed.

(* (-1)^k *)
Fixpoint pm1 (k : nat) : K := match k with O => 1 | S k' => copp 1 * pm1 k' end.
Definition swap_count (a : mat) (n t : nat) : nat :=
  length (filter (swapped_at a n) (seq 0 t)).

Lemma swap_sign_prod a n t : prodf t (swap_sign a n) = pm1 (swap_count a n t).
Proof.
  unfold swap_count. induction t; [reflexivity|].
  cbn [prodf]. rewrite seq_S, filter_app, app_length, IHt. rewrite Nat.add_0_l.
  unfold swap_sign. cbn [filter].
  destruct (swapped_at a n t); cbn [length].
  - rewrite Nat.add_1_r. cbn [pm1]. ring.
  - rewrite Nat.add_0_r. ring.
Qed.

Theorem lu_det_pivots a n : wf n n a ->
  lu_d (lu a n) = pm1 (swap_count a n n) * prodf n (fun j => mg (lu_a (lu a n)) j j).
Proof.
  intros Hw. rewrite <- swap_sign_prod. exact (lu_det_upto a n Hw n (le_n n)).
Qed.

End LuGenD.
