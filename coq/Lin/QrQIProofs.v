(* The Householder-QR theorems of QrProofs.v at the Gaussian rationals (property C19): every Section
   hypothesis is discharged (conjugation laws, characteristic, "a sum of squared moduli vanishes only
   if every term does" from the order of Qc, the zero test), and the per-run laws of sqrt() /
   cexp(I carg()) are replaced by the executable check QrQI.qq_run_lawsb.  Examples: a full-rank 3 x 2
   system (laws hold, rank 2, hence trivial kernel) and a rank-deficient one (stop at diagonal 1,
   rank 1, hence not of full column rank). *)
Require Import List Arith Lia Bool QArith Qcanon.
Import ListNotations.
Require Import LV.Base.CField LV.Base.QcI LV.Lin.MatL LV.Lin.LuGenA LV.Lin.LsSpec LV.Lin.LuQI2 LV.Lin.LsProofs
               LV.Lin.LsLuProofs LV.Lin.QrModel LV.Lin.QrAlg LV.Lin.QrProofs LV.Lin.QrTheorems LV.Lin.QrQI.
Local Open Scope nat_scope.

Lemma qif_cj_1 : @cj QIF (@c1 QIF) = @c1 QIF.
Proof. apply qi_eq; simpl; ring. Qed.

Lemma qi_isz0_spec (x : QIF) : qi_isz0 x = true <-> x = @c0 QIF.
Proof. unfold qi_isz0. apply qi_eqb_eq. Qed.

Lemma qif_sos_zero n (f : nat -> QIF) :
  sumf n (fun i => cmul (f i) (cj (f i))) = @c0 QIF -> forall i, i < n -> f i = @c0 QIF.
Proof.
  intros H i Hi. apply qi_nrm_zero.
  assert (E : qsum n (fun k => qi_nrm (f k)) = 0%Qc).
  { transitivity (qre (sumf n (fun k => cmul (f k) (cj (f k))))).
    - rewrite qre_sumf. apply qsum_ext. intros k _. destruct (f k); unfold qi_nrm; simpl; ring.
    - rewrite H. reflexivity. }
  apply (qsum_terms_zero n (fun k => qi_nrm (f k))); auto.
  - intros; apply qi_nrm_nonneg.
  - rewrite E. apply Qcle_refl.
Qed.

(* the field hypotheses of the QR theorems are met by Q[i] *)
Lemma qif_field_laws : qr_field_laws QIF qi_isz0.
Proof.
  unfold qr_field_laws.
  split; [exact qif_cj_0|]. split; [exact qif_cj_1|]. split; [exact qif_cj_add|].
  split; [exact qif_cj_mul|]. split; [exact qif_cj_cj|]. split; [exact QIF_char|].
  split; [exact qif_sos_zero|exact qi_isz0_spec].
Qed.

Lemma qq_step_lawsb_sound m a k : qq_step_lawsb m a k = true -> step_laws QIF qi_sqrt qi_phase m a k.
Proof.
  unfold qq_step_lawsb, step_laws. intros H. cbv zeta in *.
  apply andb_prop in H; destruct H as [H G7]. apply andb_prop in H; destruct H as [H G6].
  apply andb_prop in H; destruct H as [H G5]. apply andb_prop in H; destruct H as [H G4].
  apply andb_prop in H; destruct H as [H G3]. apply andb_prop in H; destruct H as [G1 G2].
  split; [apply qi_eqb_eq; exact G1|]. split; [apply qi_eqb_eq; exact G2|].
  split; [apply qi_eqb_eq; exact G3|]. split; [apply qi_eqb_eq; exact G4|].
  split; [apply qi_eqb_eq; exact G5|]. split; [apply qi_eqb_eq; exact G6|apply qi_eqb_eq; exact G7].
Qed.

Lemma qq_run_lawsb_sound m n a : qq_run_lawsb m n a = true ->
  run_laws QIF qi_sqrt qi_phase qi_isz0 m n a (Nat.min m n).
Proof.
  unfold qq_run_lawsb, run_laws. intros H k Hk Hnan.
  rewrite forallb_forall in H. specialize (H k ltac:(apply in_seq; lia)).
  unfold qq_qrd_upto in H. rewrite Hnan in H. apply qq_step_lawsb_sound. exact H.
Qed.

(* (c) at Q[i]: the rank reported is n iff the column rank is full (LsLuProofs.full_col_rank), for every
   run on which the sqrt / phase oracles behaved (checked by computation) *)
Theorem qq_rank_full_iff_full_col_rank m n (a : mat QIF) : wf m n a -> n <= m ->
  qq_run_lawsb m n a = true -> (qq_rank (qq_qrd m n a) = n <-> full_col_rank m n a).
Proof.
  intros Hw Hnm HL. apply qq_run_lawsb_sound in HL. rewrite Nat.min_r in HL by exact Hnm.
  exact (qr_rank_full_iff_trivial_kernel QIF qif_cj_0 qif_cj_1 qif_cj_add qif_cj_mul qif_cj_cj QIF_char
           qif_sos_zero qi_sqrt qi_phase qi_isz0 qi_isz0_spec m n a Hw Hnm HL).
Qed.

(* ---------- examples: every hypothesis met ---------- *)
Definition qz' (x : Z) : qi := QI (qz x) 0%Qc.
(* columns (7,24,0) and (-7,1,24): both Householder steps meet rational norms (25, 40, 25, 40) *)
Definition ex_qr_a : mat QIF := [[qz' 7; qz' (-7)]; [qz' 24; qz' 1]; [qz' 0; qz' 24]].
(* second column = 2 x first: the column under diagonal 1 is exactly zero after the first reflection *)
Definition ex_qr_def : mat QIF := [[qz' 7; qz' 14]; [qz' 24; qz' 48]; [qz' 0; qz' 0]].

Lemma ex_qr_a_wf : wf 3 2 ex_qr_a.
Proof. split; [reflexivity|repeat constructor]. Qed.
Lemma ex_qr_def_wf : wf 3 2 ex_qr_def.
Proof. split; [reflexivity|repeat constructor]. Qed.

Example ex_qr_a_laws : qq_run_lawsb 3 2 ex_qr_a = true.
Proof. vm_compute. reflexivity. Qed.
Example ex_qr_a_run :
  qr_d QIF (qq_qrd 3 2 ex_qr_a) = [qz' (-25); qz' (-25)] /\ qr_nan QIF (qq_qrd 3 2 ex_qr_a) = None /\
  qq_rank (qq_qrd 3 2 ex_qr_a) = 2.
Proof. vm_compute. repeat split; reflexivity. Qed.
Example ex_qr_a_full_rank : full_col_rank 3 2 ex_qr_a.
Proof.
  apply (qq_rank_full_iff_full_col_rank 3 2 ex_qr_a ex_qr_a_wf ltac:(lia) ex_qr_a_laws).
  vm_compute. reflexivity.
Qed.

Example ex_qr_def_laws : qq_run_lawsb 3 2 ex_qr_def = true.
Proof. vm_compute. reflexivity. Qed.
Example ex_qr_def_run :
  qr_nan QIF (qq_qrd 3 2 ex_qr_def) = Some 1 /\ qq_rank (qq_qrd 3 2 ex_qr_def) = 1 /\
  fst (fst (qq_qrsolve 3 2 1 ex_qr_def [[qz' 1]; [qz' 2]; [qz' 3]])) = None.
Proof. vm_compute. repeat split; reflexivity. Qed.
Example ex_qr_def_not_full_rank : ~ full_col_rank 3 2 ex_qr_def.
Proof.
  intros H. apply (qq_rank_full_iff_full_col_rank 3 2 ex_qr_def ex_qr_def_wf ltac:(lia) ex_qr_def_laws) in H.
  vm_compute in H. discriminate H.
Qed.
