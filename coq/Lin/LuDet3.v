(* The determinant returned by the executable LU model (Lin/LuModel.v, field lu_d) equals the
   determinant of the input matrix for n <= 3, for EVERY pivot order.

   LuGenD.lu_det_pivots shows lu_d = (-1)^(number of row exchanges) * product of the pivots for
   all n, but does not relate that to a determinant of the input.  Here the link is made for
   n <= 3 by exhaustive symbolic execution of the model: the matrix is made explicit, the
   row-scale vector is generalised to arbitrary values, and every outcome of every magnitude
   comparison [ltM _ _] met by the model is explored (2^1, 2^3, 2^6 leaves for n = 1, 2, 3;
   order-inconsistent outcomes are covered too, the algebra does not depend on them).  In each
   leaf the claim is a field identity under the hypothesis that the pivots are nonzero.

   The pivot-selection parameters (M, nrm2, mulM, ltM, zeroM, scale_of_max) are abstract, so the
   result holds for whatever row the model picks, including the row-scale defect variants. *)
Require Import List Arith Lia QArith Qcanon.
Import ListNotations.
Require Import LV.Base.CField LV.Base.QcI LV.Lin.MatL LV.Lin.LuModel LV.Lin.LuQI.
Require Import LV.Lin.LuGenA.
Local Open Scope cf_scope.

Section Det3.
Variable K : CField.
Variable M : Type.
Variable nrm2 : K -> M.
Variable mulM : M -> M -> M.
Variable ltM : M -> M -> bool.
Variable zeroM : M.
Variable scale_of_max : M -> M.
Add Field Kf : (cth K).
Notation mat := (mat K).
Notation lu := (lu K M nrm2 mulM ltM zeroM scale_of_max).
Notation lu_column := (lu_column K M nrm2 mulM ltM zeroM).
Notation row_max := (row_max K M nrm2 ltM zeroM).
Notation LuS := (LuS K M).
Notation lu_a := (lu_a K M).
Notation lu_d := (lu_d K M).

Definition det1 (a : mat) : K := mget K a 0 0.
Definition det2 (a : mat) : K := mget K a 0 0 * mget K a 1 1 - mget K a 0 1 * mget K a 1 0.
(* cofactor expansion along the first row *)
Definition det3 (a : mat) : K :=
  mget K a 0 0 * (mget K a 1 1 * mget K a 2 2 - mget K a 1 2 * mget K a 2 1)
  - mget K a 0 1 * (mget K a 1 0 * mget K a 2 2 - mget K a 1 2 * mget K a 2 0)
  + mget K a 0 2 * (mget K a 1 0 * mget K a 2 1 - mget K a 1 1 * mget K a 2 0).
Definition detn (n : nat) (a : mat) : K :=
  match n with 0%nat => 1 | 1%nat => det1 a | 2%nat => det2 a | _ => det3 a end.

(* The same as det3, as the signed sum over the six permutations (rule of Sarrus). *)
Lemma det3_sarrus (a : mat) :
  det3 a = mget K a 0 0 * mget K a 1 1 * mget K a 2 2 + mget K a 0 1 * mget K a 1 2 * mget K a 2 0
         + mget K a 0 2 * mget K a 1 0 * mget K a 2 1 - mget K a 0 2 * mget K a 1 1 * mget K a 2 0
         - mget K a 0 1 * mget K a 1 0 * mget K a 2 2 - mget K a 0 0 * mget K a 1 2 * mget K a 2 1.
Proof. unfold det3. ring. Qed.

(* Reduction of the model on explicit lists; the field operations of K, the comparison and the
   metrics stay opaque. *)
Ltac red_lu_in H :=
  cbv beta iota zeta delta [LuModel.lu_column dot_sub mget mset mrow upd swap_rows
     fold_left seq map nth app Nat.eqb Nat.sub negb fst snd LuModel.lu_a LuModel.lu_ri
     LuModel.lu_rs LuModel.lu_d LuModel.lu_pivots LuModel.lu_cands] in H.
Ltac red_lu :=
  cbv beta iota zeta delta [LuModel.lu_column dot_sub mget mset mrow upd swap_rows
     fold_left seq map nth app Nat.eqb Nat.sub negb fst snd LuModel.lu_a LuModel.lu_ri
     LuModel.lu_rs LuModel.lu_d LuModel.lu_pivots LuModel.lu_cands].
(* One column step [H : st = lu_column n (LuS explicit...) j]: reduce, and split on every
   comparison that the step performs. *)
Ltac do_col H :=
  red_lu_in H;
  repeat (match type of H with
          | context [if ltM ?x ?y then _ else _] => destruct (ltM x y)
          end; red_lu_in H).

Lemma lu1_gen (a00 : K) (r0 : M) (st : lu_state K M) :
  st = fold_left (lu_column 1) [0]%nat (LuS [[a00]] [0]%nat [r0] 1 [] []) ->
  lu_d st = det1 [[a00]].
Proof.
  intros Hst. do_col Hst.
  all: subst st; unfold det1; red_lu; ring.
Qed.

Lemma lu2_gen (a00 a01 a10 a11 : K) (r0 r1 : M) (st : lu_state K M) :
  st = fold_left (lu_column 2) [0;1]%nat
         (LuS [[a00;a01];[a10;a11]] [0;1]%nat [r0;r1] 1 [] []) ->
  mget K (lu_a st) 0 0 <> 0 ->
  lu_d st = det2 [[a00;a01];[a10;a11]].
Proof.
  intros Hst.
  match type of Hst with _ = fold_left ?f _ ?s =>
    change (st = f (f s 0%nat) 1%nat) in Hst;
    remember (f s 0%nat) as st1 eqn:E1 end.
  do_col E1.
  all: subst st1; do_col Hst.
  all: subst st; unfold det2; red_lu; intros H0.
  all: field; assumption.
Qed.

Lemma lu3_gen (a00 a01 a02 a10 a11 a12 a20 a21 a22 : K) (r0 r1 r2 : M) (st : lu_state K M) :
  st = fold_left (lu_column 3) [0;1;2]%nat
         (LuS [[a00;a01;a02];[a10;a11;a12];[a20;a21;a22]] [0;1;2]%nat [r0;r1;r2] 1 [] []) ->
  mget K (lu_a st) 0 0 <> 0 -> mget K (lu_a st) 1 1 <> 0 ->
  lu_d st = det3 [[a00;a01;a02];[a10;a11;a12];[a20;a21;a22]].
Proof.
  intros Hst.
  match type of Hst with _ = fold_left ?f _ ?s =>
    change (st = f (f (f s 0%nat) 1%nat) 2%nat) in Hst;
    remember (f s 0%nat) as st1 eqn:E1 end.
  do_col E1.
  all: subst st1;
    match type of Hst with _ = ?f (?f ?s 1%nat) 2%nat =>
      remember (f s 1%nat) as st2 eqn:E2 end.
  all: do_col E2.
  all: subst st2; do_col Hst.
  (* 64 leaves.  H0 : first pivot <> 0 (an input entry), H1 : second pivot <> 0 (contains
     1 / first pivot); the third pivot contains 1 / second pivot syntactically, so the second
     pivot is made an atom q1 before denominators are cleared. *)
  all: subst st; unfold det3; red_lu; intros H0 H1.
  all: match type of H1 with ?e <> 0 => set (q1 := e) in * end.
  all: field_simplify_eq; [ | split; assumption].
  all: subst q1; field; assumption.
Qed.

Lemma wf_1 (a : mat) : wf 1 1 a -> exists a00, a = [[a00]].
Proof.
  intros [Hl Hf].
  destruct a as [|[|a00 [|? ?]] [|? ?]]; try discriminate Hl;
    repeat match goal with H : Forall _ (_ :: _) |- _ => inversion H; clear H; subst end;
    try discriminate.
  eexists; reflexivity.
Qed.

Lemma wf_2 (a : mat) : wf 2 2 a -> exists a00 a01 a10 a11, a = [[a00;a01];[a10;a11]].
Proof.
  intros [Hl Hf].
  destruct a as [|[|a00 [|a01 [|? ?]]] [|[|a10 [|a11 [|? ?]]] [|? ?]]]; try discriminate Hl;
    repeat match goal with H : Forall _ (_ :: _) |- _ => inversion H; clear H; subst end;
    try discriminate.
  do 4 eexists; reflexivity.
Qed.

Lemma wf_3 (a : mat) : wf 3 3 a ->
  exists a00 a01 a02 a10 a11 a12 a20 a21 a22, a = [[a00;a01;a02];[a10;a11;a12];[a20;a21;a22]].
Proof.
  intros [Hl Hf].
  destruct a as [|r0 [|r1 [|r2 [|? ?]]]]; try discriminate Hl.
  inversion Hf as [|? ? H0 Hf1]; subst. inversion Hf1 as [|? ? H1 Hf2]; subst.
  inversion Hf2 as [|? ? H2 _]; subst.
  destruct r0 as [|a00 [|a01 [|a02 [|? ?]]]]; try discriminate H0.
  destruct r1 as [|a10 [|a11 [|a12 [|? ?]]]]; try discriminate H1.
  destruct r2 as [|a20 [|a21 [|a22 [|? ?]]]]; try discriminate H2.
  do 9 eexists; reflexivity.
Qed.

(* Only the first n-1 pivots are needed (the last one is a factor, never a divisor); the
   hypothesis is stated for all of them to match the other theorems of the development. *)
Theorem lu_det_le3 : forall n (a : mat), (n <= 3)%nat -> wf n n a ->
  (forall j, (j < n)%nat -> mget K (lu_a (lu a n)) j j <> 0) ->
  lu_d (lu a n) = detn n a.
Proof.
  intros n a Hn Hw Hp.
  destruct n as [|[|[|[|n]]]]; try lia.
  - reflexivity.
  - destruct (wf_1 a Hw) as (a00 & ->).
    apply (lu1_gen a00 (scale_of_max (row_max [[a00]] 1 0))). reflexivity.
  - destruct (wf_2 a Hw) as (a00 & a01 & a10 & a11 & ->).
    set (a := [[a00;a01];[a10;a11]]) in *.
    apply (lu2_gen a00 a01 a10 a11 (scale_of_max (row_max a 2 0)) (scale_of_max (row_max a 2 1))).
    + reflexivity.
    + apply Hp; lia.
  - destruct (wf_3 a Hw) as (a00 & a01 & a02 & a10 & a11 & a12 & a20 & a21 & a22 & ->).
    set (a := [[a00;a01;a02];[a10;a11;a12];[a20;a21;a22]]) in *.
    apply (lu3_gen a00 a01 a02 a10 a11 a12 a20 a21 a22
             (scale_of_max (row_max a 3 0)) (scale_of_max (row_max a 3 1))
             (scale_of_max (row_max a 3 2))).
    + reflexivity.
    + apply Hp; lia.
    + apply Hp; lia.
Qed.

Corollary lu_det_3 (a : mat) : wf 3 3 a ->
  (forall j, (j < 3)%nat -> mget K (lu_a (lu a 3)) j j <> 0) ->
  lu_d (lu a 3) = det3 a.
Proof. intros Hw Hp. exact (lu_det_le3 3 a (le_n 3) Hw Hp). Qed.
End Det3.

(* Non-vacuity: a concrete 3x3 matrix over the Gaussian rationals whose first pivot position
   holds 0, so that a row exchange is forced; the hypotheses of lu_det_le3 are discharged by
   computation and the theorem is applied. *)
Local Open Scope nat_scope.
Definition exd_a : mat QIF :=
  [ [mkqi 0 1 0 1; mkqi 2 1 0 1; mkqi 1 1 1 1];
    [mkqi 1 1 0 1; mkqi 1 1 (-1) 1; mkqi 1 1 0 1];
    [mkqi 2 1 0 1; mkqi 1 1 0 1; mkqi 3 1 1 2] ].

Lemma exd_a_wf : wf 3 3 exd_a.
Proof. split; [reflexivity|repeat constructor]. Qed.

Lemma exd_pivots_nz : forall j, j < 3 ->
  mget QIF (lu_a QIF Qc (q_lu exd_a 3)) j j <> (@c0 QIF).
Proof.
  intros j Hj. destruct j as [|[|[|j]]]; try lia; apply qi_neqb; vm_compute; reflexivity.
Qed.

Example exd_swapped : lu_ri QIF Qc (q_lu exd_a 3) <> seq 0 3.
Proof. vm_compute. discriminate. Qed.

Example exd_det : lu_d QIF Qc (q_lu exd_a 3) = det3 QIF exd_a.
Proof.
  exact (lu_det_le3 QIF Qc qi_nrm Qcmult Qc_ltb 0%Qc row_scale_of_max 3 exd_a
           (le_n 3) exd_a_wf exd_pivots_nz).
Qed.

(* ... and the determinant is not zero, so the statement is not about a degenerate matrix *)
Example exd_det_nz : det3 QIF exd_a <> (@c0 QIF).
Proof. apply qi_neqb; vm_compute; reflexivity. Qed.

