(* Least-squares specification for src/vnacommon_qrsolve.c and vnacommon_qr.c + vnacommon_qrsolve2.c
   (property C19): the solution of an over-determined system A X = B (A is m x n, B is m x o) is
   specified by the normal equations  A^H A X = A^H B.  The Householder code itself (sqrt,
   cexp(i arg)) is NOT modelled; only this specification is, and the C routines are compared
   with it numerically by checks/C19.py.

   [ls_solve] is a certifying computation: it solves N X = A^H B with N = A^H A by Gauss-Jordan
   elimination (exact over the Gaussian rationals) and then *checks* N X = A^H B entry by entry;
   it answers None when the elimination meets a column without a nonzero pivot (rank deficient
   A) or the check fails.  Executable definitions only; the theorems are in LsProofs.v. *)
Require Import List Arith Bool.
Import ListNotations.
Require Import LV.Base.CField LV.Lin.MatL.
Local Open Scope cf_scope.

Section Ls.
Variable K : CField.
Variable isz : K -> bool.          (* zero test of the field *)

Notation mat := (mat K).

(* conjugate transpose of an r x c matrix *)
Definition mherm (r c : nat) (a : mat) : mat := mbuild K c r (fun i j => cj (mget K a j i)).
Definition normal_mat (m n : nat) (a : mat) : mat := mmul K n m n (mherm m n a) a.
Definition normal_rhs (m n o : nat) (a b : mat) : mat := mmul K n m o (mherm m n a) b.

(* one Gauss-Jordan column step on the augmented rows [N | I] *)
Definition gj_step (n : nat) (st : option (list (list K))) (col : nat) : option (list (list K)) :=
  match st with
  | None => None
  | Some rows =>
    match find (fun i => negb (isz (nth col (nth i rows []) 0))) (seq col (n - col)) with
    | None => None
    | Some p =>
      let rows1 := swap_rows [] rows p col in
      let pr := nth col rows1 [] in
      let pv := nth col pr 0 in
      let prn := map (fun x => x / pv) pr in
      Some (map (fun i => if Nat.eqb i col then prn
                          else let r := nth i rows1 [] in
                               let c := nth col r 0 in
                               map (fun xy => snd xy - c * fst xy) (combine prn r))
                (seq 0 n))
    end
  end.

(* solve N X = C (N is n x n, C is n x o) on the augmented rows [N | C] *)
Definition gj_solve (n o : nat) (N c : mat) : option mat :=
  let aug := map (fun i => firstn n (mrow K N i ++ repeat 0 n) ++ firstn o (mrow K c i ++ repeat 0 o))
                 (seq 0 n) in
  match fold_left (gj_step n) (seq 0 n) (Some aug) with
  | None => None
  | Some rows => Some (map (fun r => skipn n r) rows)
  end.

Definition mat_eqb (r c : nat) (a b : mat) : bool :=
  forallb (fun i => forallb (fun j => isz (mget K a i j - mget K b i j)) (seq 0 c)) (seq 0 r).

Definition ls_solve (m n o : nat) (a b : mat) : option mat :=
  let N := normal_mat m n a in
  let c := normal_rhs m n o a b in
  match gj_solve n o N c with
  | None => None
  | Some x => if mat_eqb n o (mmul K n n o N x) c then Some x else None
  end.

(* the residual A x - b and its squared 2-norm (as a field element: sum of z * conj z) *)
Definition residual (m n o : nat) (a x b : mat) : mat := msub K m o (mmul K m n o a x) b.
Definition sqnorm (r c : nat) (e : mat) : K :=
  msum K r (fun i => msum K c (fun j => mget K e i j * cj (mget K e i j))).
End Ls.
