(* The Householder-QR model (QrModel.v) at the Gaussian rationals, property C19.
   sqrt and the phase factor are "certificate oracles": [qi_sqrt] is the exact square root when the
   (real) argument is the square of a rational and an integer-part approximation otherwise;
   [qi_phase x] = x / sqrt(x conj x) (1 for x = 0).  Whether they behaved like sqrt() and
   cexp(I carg()) ON A GIVEN RUN is checked by computation: [qq_run_lawsb] evaluates, for every
   diagonal of the run, the law instances that the theorems of QrProofs.v use
   (QrProofs.step_laws; QrQIProofs.qq_run_lawsb_sound links the two).  checks/C19.py generates
   inputs for which every norm met is rational (products of rational Householder reflections
   applied to a triangular matrix) and requires [qq_run_lawsb] = true on each.
   Definitions only. *)
Require Import List Arith Bool QArith Qcanon.
Import ListNotations.
Require Import LV.Base.CField LV.Base.QcI LV.Lin.MatL LV.Lin.QrModel.

Definition qi_isz0 (x : qi) : bool := qi_eqb x qi0.
Definition qi_sqrt (x : qi) : qi := QI (Qc_sqrt_abs (qre x)) 0.
Definition qi_phase (x : qi) : qi :=
  if qi_eqb x qi0 then qi1 else qi_div x (qi_sqrt (qi_mul x (qi_cj x))).

Definition qq_qrd_upto := qrd_upto QIF qi_sqrt qi_phase qi_isz0.
Definition qq_qrd := qrd QIF qi_sqrt qi_phase qi_isz0.
Definition qq_qrsolve := qrsolve QIF qi_sqrt qi_phase qi_isz0.
Definition qq_rank := qr_rank QIF qi_isz0.
Definition qq_R := qr_R QIF.

(* the law instances of one step (same shape as QrProofs.step_laws) *)
Definition qq_step_lawsb (m : nat) (a : mat QIF) (k : nat) : bool :=
  let akk := mget QIF a k k in
  let sub := qr_subdot QIF m a k in
  let s := qi_add (cabs2 QIF akk) sub in
  let sg := qi_sqrt s in
  let p := qi_phase akk in
  let rho := qi_sqrt (cabs2 QIF akk) in
  let s' := qi_add (cabs2 QIF (qi_sub akk (qr_alpha QIF qi_sqrt qi_phase m a k))) sub in
  let nu := qi_sqrt s' in
  qi_eqb (qi_mul sg sg) s && qi_eqb (qi_cj sg) sg &&
  qi_eqb (qi_mul p (qi_cj p)) qi1 && qi_eqb (qi_mul (qi_cj p) akk) rho && qi_eqb (qi_cj rho) rho &&
  qi_eqb (qi_mul nu nu) s' && qi_eqb (qi_cj nu) nu.

(* all diagonals of the run of _vnacommon_qrd on an m x n matrix (steps after a NaN stop are not run) *)
Definition qq_run_lawsb (m n : nat) (a : mat QIF) : bool :=
  forallb (fun k => let st := qq_qrd_upto m n a k in
                    match qr_nan QIF st with
                    | Some _ => true
                    | None => qq_step_lawsb m (qr_a QIF st) k
                    end) (seq 0 (Nat.min m n)).

Definition qr_nan_opt (st : qr_state QIF) : option nat := qr_nan QIF st.
