(* LuNonsing at the Gaussian rationals (the instance the correspondence of C19 runs): every
   premise on the magnitude type is discharged for M := Qc, nrm2 := |.|^2, scale := 1/max.
   Examples: a singular 3x3 matrix with an explicit kernel vector whose first zero pivot is in
   the last column (determinant exactly 0), a singular 2x2 and a 3x3 matrix whose first zero pivot
   is in column 0 resp. 1 (non-finite from there on, NaN returned, the bare `== 0.0` test accepts
   it), a nonsingular 3x3 matrix (trivial kernel proved through a left inverse). *)
Require Import List Arith Lia Bool QArith Qcanon.
Import ListNotations.
Require Import LV.Base.CField LV.Base.QcI LV.Lin.MatL LV.Lin.LuModel LV.Lin.LuPartial LV.Lin.LuQI LV.Lin.LsSpec LV.Lin.LuQI2.
Require Import LV.Lin.LuGenA LV.Lin.LuGenB LV.Lin.LuGenC LV.Lin.LuGenD LV.Lin.LuGen LV.Lin.LuPivot LV.Lin.LuProofs LV.Lin.LuNonsing.
Local Open Scope nat_scope.

Section QcMore.
Local Open Scope Qc_scope.
Lemma qc_ltM_cotrans : forall x y z, Qc_ltb x z = true -> Qc_ltb x y = false -> Qc_ltb y z = true.
Proof.
  intros x y z H1 H2. apply Qc_ltb_true in H1. apply Qc_ltb_false in H2. apply Qc_ltb_true.
  eapply Qcle_lt_trans; eauto.
Qed.

Lemma qc_scale_pos : forall x, Qc_ltb 0 x = true -> Qc_ltb 0 (scale_recip x) = true.
Proof.
  intros x H. unfold scale_recip. pose proof (qc_invM_l x H) as E.
  apply Qc_ltb_true in H. apply Qc_ltb_true.
  destruct (Qclt_le_dec 0 (/ x)) as [Hp|Hn]; auto. exfalso.
  assert (Hle : / x * x <= 0 * x) by (apply Qcmult_le_compat_r; auto; apply Qclt_le_weak; auto).
  rewrite E in Hle. replace (0 * x) with 0 in Hle by ring.
  revert Hle. unfold Qcle. cbn. unfold Qle. cbn. lia.
Qed.
End QcMore.

Lemma qi_isz_spec : forall x : QIF, qi_isz x = true <-> x = @c0 QIF.
Proof. intros x. unfold qi_isz. apply qi_eqb_eq. Qed.

Notation q_kernel_trivial := (kernel_trivial QIF).
Notation q_singular := (singular QIF).
Notation q_pivots_nonzero := (pivots_nonzero QIF Qc qi_nrm Qcmult Qc_ltb 0%Qc scale_recip).

(* every pivot met is nonzero  <=>  the input has a trivial kernel *)
Theorem q_pivots_nonzero_iff (a : mat QIF) n : wf n n a ->
  (q_pivots_nonzero a n <-> q_kernel_trivial a n).
Proof.
  exact (pivots_nonzero_iff_trivial_kernel QIF Qc qi_nrm Qcmult Qc_ltb 0%Qc scale_recip
           qc_ltM_irrefl qc_ltM_trans qc_ltM_cotrans qc_mulM_pos qc_mulM_zero_r qi_nrm2_zero
           qi_nrm2_pos qc_scale_pos qi_zero_dec a n).
Qed.

Theorem q_lu_c_outcome (a : mat QIF) n : wf n n a ->
  (q_kernel_trivial a n /\ q2_lu_c_recip a n = LuFinite QIF Qc (q2_lu_recip a n) /\
   q_pivots_nonzero a n /\ lu_d QIF Qc (q2_lu_recip a n) <> @c0 QIF) \/
  (q_singular a n /\ q2_lu_c_recip a n = LuFinite QIF Qc (q2_lu_recip a n) /\ 0 < n /\
   (forall k, k < n - 1 -> pivot_at QIF Qc qi_nrm Qcmult Qc_ltb 0%Qc scale_recip a n k <> @c0 QIF) /\
   pivot_at QIF Qc qi_nrm Qcmult Qc_ltb 0%Qc scale_recip a n (n - 1) = @c0 QIF /\
   lu_d QIF Qc (q2_lu_recip a n) = @c0 QIF) \/
  (q_singular a n /\ exists j, j < n - 1 /\
   q2_lu_c_recip a n = LuNonFinite QIF Qc j (lu_upto QIF Qc qi_nrm Qcmult Qc_ltb 0%Qc scale_recip a n j) /\
   (forall k, k < j -> pivot_at QIF Qc qi_nrm Qcmult Qc_ltb 0%Qc scale_recip a n k <> @c0 QIF) /\
   pivot_at QIF Qc qi_nrm Qcmult Qc_ltb 0%Qc scale_recip a n j = @c0 QIF).
Proof.
  exact (lu_c_outcome QIF Qc qi_nrm Qcmult Qc_ltb 0%Qc scale_recip qi_isz qi_isz_spec
           qc_ltM_irrefl qc_ltM_trans qc_ltM_cotrans qc_mulM_pos qc_mulM_zero_r qi_nrm2_zero
           qi_nrm2_pos qc_scale_pos a n).
Qed.

Theorem q_lu_c_rejects_iff_singular (a : mat QIF) n : wf n n a ->
  (site_rejects_full QIF qi_isz (lu_c_det QIF Qc (q2_lu_c_recip a n)) = true <-> q_singular a n).
Proof.
  exact (lu_c_rejects_iff_singular QIF Qc qi_nrm Qcmult Qc_ltb 0%Qc scale_recip qi_isz qi_isz_spec
           qc_ltM_irrefl qc_ltM_trans qc_ltM_cotrans qc_mulM_pos qc_mulM_zero_r qi_nrm2_zero
           qi_nrm2_pos qc_scale_pos a n).
Qed.

Theorem q_solvers_c_nonsingular n (a : mat QIF) : wf n n a -> q_kernel_trivial a n ->
  (forall m (b : mat QIF), wf n m b -> exists x d, q2_mldivide_c_recip a b n m = (Some x, DetFin d) /\
      d <> @c0 QIF /\
      forall i k, i < n -> k < m -> mget QIF (mmul QIF n n m a x) i k = mget QIF b i k) /\
  (forall m (b : mat QIF), wf m n b -> exists x d, q2_mrdivide_c_recip b a m n = (Some x, DetFin d) /\
      d <> @c0 QIF /\
      forall i k, i < m -> k < n -> mget QIF (mmul QIF m n n x a) i k = mget QIF b i k) /\
  (exists x d, q2_minverse_c_recip a n = (Some x, DetFin d) /\ d <> @c0 QIF /\
      forall i k, i < n -> k < n ->
        mget QIF (mmul QIF n n n a x) i k = (if Nat.eqb i k then @c1 QIF else @c0 QIF)).
Proof.
  exact (solvers_c_nonsingular QIF Qc qi_nrm Qcmult Qc_ltb 0%Qc scale_recip qi_isz qi_isz_spec
           qc_ltM_irrefl qc_ltM_trans qc_ltM_cotrans qc_mulM_pos qc_mulM_zero_r qi_nrm2_zero
           qi_nrm2_pos qc_scale_pos n a).
Qed.

Theorem q_solvers_c_singular n (a : mat QIF) : wf n n a -> q_singular a n ->
  forall (b : mat QIF) m,
  fst (q2_mldivide_c_recip a b n m) = None /\ fst (q2_mrdivide_c_recip b a m n) = None /\
  fst (q2_minverse_c_recip a n) = None /\
  site_rejects_full QIF qi_isz (snd (q2_mldivide_c_recip a b n m)) = true /\
  site_rejects_full QIF qi_isz (snd (q2_mrdivide_c_recip b a m n)) = true /\
  site_rejects_full QIF qi_isz (snd (q2_minverse_c_recip a n)) = true.
Proof.
  exact (solvers_c_singular QIF Qc qi_nrm Qcmult Qc_ltb 0%Qc scale_recip qi_isz qi_isz_spec
           qc_ltM_irrefl qc_ltM_trans qc_ltM_cotrans qc_mulM_pos qc_mulM_zero_r qi_nrm2_zero
           qi_nrm2_pos qc_scale_pos n a).
Qed.

(* ---------------- examples ---------------- *)
Definition qz (z : Z) : qi := mkqi z 1 0 1.

(* (1) LuProofs.sing_a (rows 0 and 2 equal): kernel vector = cross product of rows 0 and 1 *)
Definition sing_v (k : nat) : QIF :=
  match k with O => mkqi 5 1 (-1) 1 | 1 => mkqi (-2) 1 3 1 | _ => mkqi (-5) 1 1 1 end.

Example sing_a_kernel : in_kernel QIF sing_a 3 sing_v /\ sing_v 0 <> @c0 QIF.
Proof.
  split.
  - intros i Hi. destruct i as [|[|[|i]]]; try lia; apply qi_eqb_eq; vm_compute; reflexivity.
  - apply qi_neqb. vm_compute. reflexivity.
Qed.

Example sing_a_singular : q_singular sing_a 3.
Proof.
  exists sing_v. destruct sing_a_kernel as (H1 & H2). split; [exact H1|]. exists 0. split; [lia|exact H2].
Qed.

(* all hypotheses of the "singular" direction instantiated: the run is finite, the first zero pivot
   is in the last column, the returned determinant is exactly 0 and both call-site tests reject it *)
Example sing_a_outcome :
  q2_lu_c_recip sing_a 3 = LuFinite QIF Qc (q2_lu_recip sing_a 3) /\
  lu_c_det QIF Qc (q2_lu_c_recip sing_a 3) = DetFin (@c0 QIF) /\
  site_rejects_full QIF qi_isz (lu_c_det QIF Qc (q2_lu_c_recip sing_a 3)) = true /\
  site_rejects_eq0 QIF qi_isz (lu_c_det QIF Qc (q2_lu_c_recip sing_a 3)) = true /\
  fst (q2_minverse_c_recip sing_a 3) = None.
Proof.
  pose proof (proj2 (q_lu_c_rejects_iff_singular sing_a 3 sing_a_wf) sing_a_singular) as Hr.
  repeat split; try exact Hr; vm_compute; reflexivity.
Qed.

(* (2) first column zero: zero pivot in column 0 < n-1 *)
Definition sing_b : mat QIF := [[qz 0; qz 1]; [qz 0; qz 2]].
Definition sing_b_v (k : nat) : QIF := match k with O => qz 1 | _ => qz 0 end.
Lemma sing_b_wf : wf 2 2 sing_b.
Proof. split; [reflexivity|repeat constructor]. Qed.
Example sing_b_singular : q_singular sing_b 2.
Proof.
  exists sing_b_v. split.
  - intros i Hi. destruct i as [|[|i]]; try lia; apply qi_eqb_eq; vm_compute; reflexivity.
  - exists 0. split; [lia|]. apply qi_neqb. vm_compute. reflexivity.
Qed.

(* the total exact-field model goes on with 1/0 = 0 and returns plausible finite numbers ... *)
Example sing_b_exact_field_artefact :
  fst (q2_minverse_recip sing_b 2) = [[qz 0; qz 0]; [qz 0; mkqi 1 2 0 1]] /\
  lu_d QIF Qc (q2_lu_recip sing_b 2) = @c0 QIF.
Proof. split; vm_compute; reflexivity. Qed.

(* ... the C code does not: non-finite from column 0 on, NaN returned; the full test rejects it,
   the bare `== 0.0` test ACCEPTS it *)
Example sing_b_outcome :
  lu_c_stop (q2_lu_c_recip sing_b 2) = Some 0 /\
  lu_c_det QIF Qc (q2_lu_c_recip sing_b 2) = DetNaN /\
  fst (q2_minverse_c_recip sing_b 2) = None /\
  site_rejects_full QIF qi_isz (lu_c_det QIF Qc (q2_lu_c_recip sing_b 2)) = true /\
  site_rejects_eq0 QIF qi_isz (lu_c_det QIF Qc (q2_lu_c_recip sing_b 2)) = false.
Proof. repeat split; vm_compute; reflexivity. Qed.

(* "a singular matrix is always caught by `determinant == 0.0`" is false of the code as it is *)
Theorem eq0_test_accepts_singular_refuted :
  exists (a : mat QIF) n, wf n n a /\ q_singular a n /\
    site_rejects_eq0 QIF qi_isz (lu_c_det QIF Qc (q2_lu_c_recip a n)) = false.
Proof.
  exists sing_b, 2. split; [exact sing_b_wf|]. split; [exact sing_b_singular|].
  vm_compute. reflexivity.
Qed.

(* (3) 3x3, column 1 = 2 * column 0: first zero pivot in the middle column *)
Definition sing_c : mat QIF :=
  [[qz 1; qz 2; qz 3]; [qz 2; qz 4; qz 1]; [mkqi 0 1 1 1; mkqi 0 1 2 1; qz 5]].
Definition sing_c_v (k : nat) : QIF := match k with O => qz 2 | 1 => qz (-1) | _ => qz 0 end.
Lemma sing_c_wf : wf 3 3 sing_c.
Proof. split; [reflexivity|repeat constructor]. Qed.
Example sing_c_singular : q_singular sing_c 3.
Proof.
  exists sing_c_v. split.
  - intros i Hi. destruct i as [|[|[|i]]]; try lia; apply qi_eqb_eq; vm_compute; reflexivity.
  - exists 0. split; [lia|]. apply qi_neqb. vm_compute. reflexivity.
Qed.
Example sing_c_outcome :
  lu_c_stop (q2_lu_c_recip sing_c 3) = Some 1 /\
  site_rejects_full QIF qi_isz (lu_c_det QIF Qc (q2_lu_c_recip sing_c 3)) = true /\
  site_rejects_eq0 QIF qi_isz (lu_c_det QIF Qc (q2_lu_c_recip sing_c 3)) = false.
Proof. repeat split; vm_compute; reflexivity. Qed.

(* (4) nonsingular: LuGen.ex_a has a left inverse (computed by the model, checked here), hence a
   trivial kernel; the theorem then gives nonzero pivots and the solvers from that INPUT
   hypothesis alone *)
Definition ex_a_linv : mat QIF := fst (q2_mrdivide_recip (mident QIF 3) LuGen.ex_a 3 3).

Example ex_a_kernel_trivial : q_kernel_trivial LuGen.ex_a 3.
Proof.
  apply (left_inverse_kernel_trivial QIF LuGen.ex_a ex_a_linv 3).
  intros i k Hi Hk.
  destruct i as [|[|[|i]]]; try lia; destruct k as [|[|[|k]]]; try lia; apply qi_eqb_eq; vm_compute; reflexivity.
Qed.

Example ex_a_nonsingular_solved :
  q_pivots_nonzero LuGen.ex_a 3 /\
  exists x d, q2_mldivide_c_recip LuGen.ex_a LuGen.ex_b 3 2 = (Some x, DetFin d) /\ d <> @c0 QIF /\
    forall i k, i < 3 -> k < 2 ->
      mget QIF (mmul QIF 3 3 2 LuGen.ex_a x) i k = mget QIF LuGen.ex_b i k.
Proof.
  split.
  - apply (q_pivots_nonzero_iff LuGen.ex_a 3 LuGen.ex_a_wf). exact ex_a_kernel_trivial.
  - exact (proj1 (q_solvers_c_nonsingular 3 LuGen.ex_a LuGen.ex_a_wf ex_a_kernel_trivial) 2 LuGen.ex_b LuGen.ex_b_wf).
Qed.
