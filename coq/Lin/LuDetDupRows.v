(* Duplicated equations in the EXACT-FIELD model: a matrix with two equal rows has determinant 0
   (LuDetAlg.Det_eq_rows), hence is singular, and the outcome model of the C function (LuPartial.lu_c) returns
   0 or NaN, which the full call-site test rejects.
   What this assumes about the C code: the model divides the L terms in an exact field, s * (1 / p) = s / p, in
   particular p * (1 / p) = 1, so that the twin of the pivot row gets the L term 1 and eliminates to exact zeros.
   _vnacommon_lu computes `scale = 1.0 / A(j,j); A(i,j) *= scale` in binary64, where fl(p * fl(1/p)) <> 1 for
   about 15 % of the doubles p (e.g. p = 49): for such pivots the C code does NOT meet an exactly zero pivot on
   duplicated rows and returns a small normal determinant (finding DL90, tie 3f of checks/C19.py).  The partial
   binary64 outcome layer (LuFinite / LuNonFinite) describes the C code only on eliminations in which every
   product pivot * reciprocal that matters is exact (dyadic pivots: the P L U families of the tie). *)
Require Import List Arith Lia Bool.
Require Import LV.Base.CField LV.Lin.MatL LV.Lin.LuModel LV.Lin.LuPartial.
Require Import LV.Lin.LuGenA LV.Lin.LuGenB LV.Lin.LuGenC LV.Lin.LuGenD LV.Lin.LuPivot LV.Lin.LuProofs LV.Lin.LuNonsing
               LV.Lin.LuDetModel LV.Lin.LuDetAlg LV.Lin.LuDetProofs.
Local Open Scope cf_scope.

Section DupRows.
Variable K : CField.
Notation mg := (mget K).

Theorem dup_rows_det_zero n (a : mat K) i j : wf n n a -> i < n -> j < n -> i <> j ->
  (forall c, c < n -> mg a i c = mg a j c) -> det_lap K n a = 0.
Proof.
  intros Hw Hi Hj Hne Heq. unfold LuDetModel.det_lap.
  apply (Det_eq_rows K n (mg a) i j Hi Hj Hne).
  intros c. destruct (lt_dec c n) as [Hc|Hc]; [apply Heq; exact Hc|].
  unfold mget. rewrite !nth_overflow; auto.
  - rewrite (wf_row K n n a j Hw Hj). lia.
  - rewrite (wf_row K n n a i Hw Hi). lia.
Qed.

Variable M : Type.
Variable nrm2 : K -> M.
Variable mulM : M -> M -> M.
Variable ltM : M -> M -> bool.
Variable zeroM : M.
Variable scale_of_max : M -> M.
Variable isz : K -> bool.
Hypothesis isz_spec : forall x, isz x = true <-> x = 0.
Hypothesis ltM_irrefl : forall x, ltM x x = false.
Hypothesis ltM_trans : forall x y z, ltM x y = true -> ltM y z = true -> ltM x z = true.
Hypothesis ltM_cotrans : forall x y z, ltM x z = true -> ltM x y = false -> ltM y z = true.
Hypothesis mulM_pos : forall x y, ltM zeroM x = true -> ltM zeroM y = true ->
  ltM zeroM (mulM x y) = true.
Hypothesis mulM_zero_r : forall x, mulM x zeroM = zeroM.
Hypothesis nrm2_zero : nrm2 0 = zeroM.
Hypothesis nrm2_pos : forall x : K, x <> 0 -> ltM zeroM (nrm2 x) = true.
Hypothesis scale_pos : forall x, ltM zeroM x = true -> ltM zeroM (scale_of_max x) = true.

Lemma isz_dec' : forall x : K, x = 0 \/ x <> 0.
Proof.
  intros x. destruct (isz x) eqn:E; [left; apply isz_spec; exact E|right].
  intros H. apply isz_spec in H. congruence.
Qed.

(* exact field: duplicated equations are rejected by the full call-site test *)
Theorem dup_rows_rejected_exact_field n (a : mat K) i j : wf n n a -> i < n -> j < n -> i <> j ->
  (forall c, c < n -> mg a i c = mg a j c) ->
  site_rejects_full K isz (lu_c_det K M (lu_c K M nrm2 mulM ltM zeroM scale_of_max isz a n)) = true.
Proof.
  intros Hw Hi Hj Hne Heq.
  apply (lu_c_rejects_iff_det_zero K M nrm2 mulM ltM zeroM scale_of_max ltM_irrefl ltM_trans ltM_cotrans mulM_pos
           mulM_zero_r nrm2_zero nrm2_pos scale_pos isz_dec' isz isz_spec a n Hw).
  exact (dup_rows_det_zero n a i j Hw Hi Hj Hne Heq).
Qed.
End DupRows.
