(* Determinant theory for LuDetModel.Det (Laplace expansion along the first column), every n, over
   an abstract field: extensionality, linearity in each row, two equal rows give 0 (no hypothesis on
   the characteristic), a transposition of two rows negates, adding a combination of other rows
   to a row changes nothing, upper triangular = product of the diagonal,
   (unit lower triangular) x (upper triangular) has the determinant of the upper factor. *)
Require Import List Arith Lia Bool.
Require Import LV.Base.CField LV.Lin.MatL LV.Lin.LuGenA LV.Lin.LuGenD LV.Lin.LuDetModel.
Local Open Scope cf_scope.

Section DetAlg.
Variable K : CField.
Add Field KfDetAlg : (cth K).

Notation sumf := (@sumf K).
Notation prodf := (prodf K).
Notation pm1 := (pm1 K).
Notation Det := (Det K).
Notation minor := (minor K).

Ltac sk := unfold skip in *; repeat match goal with
  | |- context [?a <? ?b] => destruct (Nat.ltb_spec a b)
  | H : context [?a <? ?b] |- _ => destruct (Nat.ltb_spec a b)
  end; try lia.

Ltac eqs := repeat match goal with
  | |- context [?a =? ?b] => destruct (Nat.eqb_spec a b)
  end; try lia.

Lemma skip_lt i r n : r < n -> skip i r < S n.
Proof. intros; sk. Qed.

Lemma Det_ext n : forall f g, (forall i c, i < n -> c < n -> f i c = g i c) -> Det n f = Det n g.
Proof.
  induction n; intros f g H; [reflexivity|].
  cbn [LuDetModel.Det]. apply sumf_ext. intros i Hi.
  rewrite (H i O) by lia. f_equal. apply IHn.
  intros r c Hr Hc. unfold LuDetModel.minor. apply H; [apply skip_lt; auto|lia].
Qed.

(* ---------- rows ---------- *)
Definition setrow (f : nat -> nat -> K) (r : nat) (u : nat -> K) : nat -> nat -> K :=
  fun i c => if i =? r then u c else f i c.
Definition rowperm (f : nat -> nat -> K) (p : nat -> nat) : nat -> nat -> K :=
  fun i c => f (p i) c.
Definition unskip (i r : nat) : nat := if r <? i then r else (r - 1)%nat.

Lemma minor_setrow_eq r f w x c : minor r (setrow f r w) x c = minor r f x c.
Proof. unfold LuDetModel.minor, setrow. eqs; auto. sk. Qed.

Lemma minor_setrow_ne i r f w x c : r <> i ->
  minor i (setrow f r w) x c = setrow (minor i f) (unskip i r) (fun c => w (S c)) x c.
Proof.
  intros Hne. unfold LuDetModel.minor, setrow, unskip.
  destruct (Nat.eqb_spec (skip i x) r) as [E|E];
  destruct (Nat.ltb_spec r i); eqs; auto; sk.
Qed.

Lemma Det_minor_setrow_ne n i r f w : r <> i ->
  Det n (minor i (setrow f r w)) = Det n (setrow (minor i f) (unskip i r) (fun c => w (S c))).
Proof. intros Hne. apply Det_ext. intros x c _ _. apply minor_setrow_ne. exact Hne. Qed.

Lemma Det_setrow_lin n : forall f r u v a b, r < n ->
  Det n (setrow f r (fun c => a * u c + b * v c))
  = a * Det n (setrow f r u) + b * Det n (setrow f r v).
Proof.
  induction n; intros f r u v a b Hr; [lia|].
  cbn [LuDetModel.Det]. rewrite !sumf_scale_l, <- sumf_add. apply sumf_ext. intros i Hi.
  destruct (Nat.eq_dec i r) as [->|Hne].
  - rewrite (Det_ext n _ (minor r f)) by (intros; apply minor_setrow_eq).
    rewrite (Det_ext n (minor r (setrow f r u)) (minor r f)) by (intros; apply minor_setrow_eq).
    rewrite (Det_ext n (minor r (setrow f r v)) (minor r f)) by (intros; apply minor_setrow_eq).
    unfold setrow. rewrite Nat.eqb_refl. ring.
  - rewrite !Det_minor_setrow_ne by auto. cbv beta.
    rewrite (IHn (minor i f) (unskip i r) (fun c => u (S c)) (fun c => v (S c)) a b)
      by (unfold unskip; sk).
    assert (E : forall w, setrow f r w i O = f i O).
    { intros w. unfold setrow. destruct (Nat.eqb_spec i r); [lia|reflexivity]. }
    rewrite !E. ring.
Qed.

Lemma Det_setrow_add n f r u v : r < n ->
  Det n (setrow f r (fun c => u c + v c)) = Det n (setrow f r u) + Det n (setrow f r v).
Proof.
  intros Hr. rewrite (Det_ext n _ (setrow f r (fun c => 1 * u c + 1 * v c))).
  - rewrite Det_setrow_lin by auto. ring.
  - intros i c _ _. unfold setrow. destruct (i =? r); auto. ring.
Qed.

Lemma setrow_self f r i c : setrow f r (f r) i c = f i c.
Proof. unfold setrow. destruct (Nat.eqb_spec i r) as [->|]; auto. Qed.

(* ---------- adjacent equal rows ---------- *)
Lemma sumf_two m (g : nat -> K) r : S r < m ->
  (forall i, i < m -> i <> r -> i <> S r -> g i = 0) -> sumf m g = g r + g (S r).
Proof.
  induction m; intros Hr Hz; [lia|]. cbn [LuGenA.sumf].
  destruct (Nat.eq_dec m (S r)) as [->|Hne].
  - f_equal. rewrite <- (sumf_single K (S r) r g) by lia.
    apply sumf_ext. intros k Hk. destruct (Nat.eqb_spec k r) as [->|]; auto. apply Hz; lia.
  - rewrite IHm by (auto; try lia; intros; apply Hz; lia).
    rewrite (Hz m) by lia. ring.
Qed.

Lemma Det_adj_eq n : forall f r, S r < n -> (forall c, f r c = f (S r) c) -> Det n f = 0.
Proof.
  induction n; intros f r Hr Heq; [lia|].
  cbn [LuDetModel.Det]. rewrite (sumf_two (S n) _ r Hr).
  - rewrite (Det_ext n (minor (S r) f) (minor r f)).
    + rewrite (Heq O). cbn [LuGenD.pm1]. ring.
    + intros x c _ _. unfold LuDetModel.minor. unfold skip.
      destruct (Nat.ltb_spec x (S r)); destruct (Nat.ltb_spec x r); auto; try lia.
      assert (x = r) by lia. subst x. apply Heq.
  - intros i Hi H1 H2.
    assert (E : Det n (minor i f) = 0); [|rewrite E; ring].
    destruct (lt_dec i r) as [Hlt|Hge].
    + apply (IHn _ (r - 1)%nat); [lia|]. intros c. unfold LuDetModel.minor.
      replace (skip i (r - 1)) with r by sk. replace (skip i (S (r - 1))) with (S r) by sk.
      apply Heq.
    + apply (IHn _ r); [lia|]. intros c. unfold LuDetModel.minor.
      replace (skip i r) with r by sk. replace (skip i (S r)) with (S r) by sk. apply Heq.
Qed.

(* ---------- from "rows i and j equal => 0" to "exchanging rows i and j negates" ---------- *)
Lemma swap_of_eq_rows n f i j : i < n -> j < n -> i <> j ->
  (forall g, (forall c, g i c = g j c) -> Det n g = 0) ->
  Det n (rowperm f (tr i j)) = - Det n f.
Proof.
  intros Hi Hj Hne Hz.
  set (G := fun (a b : nat -> K) => setrow (setrow f i a) j b).
  assert (Ef : Det n f = Det n (G (f i) (f j))).
  { apply Det_ext. intros x c _ _. unfold G, setrow.
    destruct (Nat.eqb_spec x j); destruct (Nat.eqb_spec x i); subst; auto; try lia. }
  assert (Es : Det n (rowperm f (tr i j)) = Det n (G (f j) (f i))).
  { apply Det_ext. intros x c _ _. unfold G, setrow, rowperm, tr.
    destruct (Nat.eqb_spec x j); destruct (Nat.eqb_spec x i); subst; auto; try lia. }
  assert (Hcomm : forall a b, Det n (G a b) = Det n (setrow (setrow f j b) i a)).
  { intros a b. apply Det_ext. intros x c _ _. unfold G, setrow.
    destruct (Nat.eqb_spec x j); destruct (Nat.eqb_spec x i); subst; auto; try lia. }
  assert (Hrow : forall a, Det n (G a a) = 0).
  { intros a. apply Hz. intros c. unfold G, setrow.
    rewrite Nat.eqb_refl. destruct (Nat.eqb_spec i j); [lia|]. rewrite Nat.eqb_refl. reflexivity. }
  pose proof (Hrow (fun c => f i c + f j c)) as H0.
  unfold G in H0. rewrite Det_setrow_add in H0 by auto. fold (G (fun c => f i c + f j c) (f i)) in H0.
  fold (G (fun c => f i c + f j c) (f j)) in H0.
  rewrite !Hcomm in H0. rewrite !Det_setrow_add in H0 by auto. rewrite <- !Hcomm in H0.
  rewrite !Hrow in H0. rewrite Ef, Es.
  transitivity (- Det n (G (f i) (f j)) + (0 + Det n (G (f j) (f i)) + (Det n (G (f i) (f j)) + 0))).
  - ring.
  - rewrite H0. ring.
Qed.

Lemma Det_adj_swap n f r : S r < n -> Det n (rowperm f (tr r (S r))) = - Det n f.
Proof.
  intros Hr. apply swap_of_eq_rows; try lia. intros g Hg. apply (Det_adj_eq n g r); auto.
Qed.

(* ---------- any two equal rows ---------- *)
Lemma Det_eq_rows_dist d : forall n f i, i + S d < n -> (forall c, f i c = f (i + S d)%nat c) ->
  Det n f = 0.
Proof.
  induction d; intros n f i Hi Heq.
  - apply (Det_adj_eq n f i); [lia|]. intros c. rewrite Heq. f_equal. lia.
  - set (j := (i + S d)%nat).
    assert (E : Det n (rowperm f (tr j (S j))) = 0).
    { apply (IHd n _ i); [lia|]. intros c. unfold rowperm. fold j.
      rewrite (tr_other j (S j) i) by lia. rewrite tr_l. rewrite Heq. f_equal. lia. }
    rewrite Det_adj_swap in E by lia.
    transitivity (- - Det n f); [ring|]. rewrite E. ring.
Qed.

Lemma Det_eq_rows n f i j : i < n -> j < n -> i <> j -> (forall c, f i c = f j c) -> Det n f = 0.
Proof.
  intros Hi Hj Hne Heq. destruct (lt_dec i j).
  - apply (Det_eq_rows_dist (j - i - 1) n f i); [lia|]. intros c. rewrite Heq. f_equal. lia.
  - apply (Det_eq_rows_dist (i - j - 1) n f j); [lia|]. intros c. rewrite <- Heq. f_equal. lia.
Qed.

(* exchanging any two rows negates the determinant *)
Theorem Det_swap n f i j : i < n -> j < n -> i <> j -> Det n (rowperm f (tr i j)) = - Det n f.
Proof.
  intros Hi Hj Hne. apply swap_of_eq_rows; auto. intros g Hg. apply (Det_eq_rows n g i j); auto.
Qed.

(* ---------- row operations ---------- *)
Lemma Det_row_add n f r k a : r < n -> k < n -> k <> r ->
  Det n (setrow f r (fun c => f r c + a * f k c)) = Det n f.
Proof.
  intros Hr Hk Hne.
  rewrite (Det_ext n _ (setrow f r (fun c => 1 * f r c + a * f k c))).
  2:{ intros i c _ _. unfold setrow. destruct (i =? r); auto. ring. }
  rewrite Det_setrow_lin by auto.
  rewrite (Det_ext n (setrow f r (f r)) f) by (intros; apply setrow_self).
  rewrite (Det_eq_rows n (setrow f r (f k)) r k); auto; [ring|].
  intros c. unfold setrow. rewrite Nat.eqb_refl. destruct (Nat.eqb_spec k r); [lia|reflexivity].
Qed.

Lemma Det_row_add_comb n f r (l : nat -> K) : r < n -> forall m, m <= r ->
  Det n (setrow f r (fun c => f r c + sumf m (fun k => l k * f k c))) = Det n f.
Proof.
  intros Hr. induction m; intros Hm.
  - rewrite <- (Det_ext n (setrow f r (f r))).
    + apply Det_ext. intros; apply setrow_self.
    + intros i c _ _. unfold setrow. destruct (i =? r); auto. cbn [LuGenA.sumf]. ring.
  - rewrite <- (IHm ltac:(lia)).
    set (f1 := setrow f r (fun c => f r c + sumf m (fun k => l k * f k c))).
    rewrite <- (Det_row_add n f1 r m (l m)) by lia.
    apply Det_ext. intros i c _ _. unfold f1, setrow.
    destruct (Nat.eqb_spec i r) as [->|]; auto.
    rewrite Nat.eqb_refl. destruct (Nat.eqb_spec m r); [lia|]. cbn [LuGenA.sumf]. ring.
Qed.

(* ---------- triangular matrices ---------- *)
Lemma prodf_shift n (g : nat -> K) : prodf (S n) g = g O * prodf n (fun i => g (S i)).
Proof.
  induction n; [cbn; ring|].
  change (prodf (S (S n)) g) with (prodf (S n) g * g (S n)). rewrite IHn. cbn [LuGenD.prodf]. ring.
Qed.

Theorem Det_upper n : forall f, (forall i c, i < n -> c < i -> f i c = 0) ->
  Det n f = prodf n (fun i => f i i).
Proof.
  induction n; intros f Hu; [reflexivity|].
  rewrite prodf_shift. cbn [LuDetModel.Det].
  rewrite (sumf_ext K (S n) _ (fun i => if (i =? 0)%nat then pm1 O * f O O * Det n (minor O f) else 0)).
  - rewrite (sumf_single K (S n) O (fun _ => pm1 O * f O O * Det n (minor O f))) by lia.
    rewrite (IHn (minor O f)).
    + cbn [LuGenD.pm1]. unfold LuDetModel.minor, skip. cbn. ring.
    + intros i c Hi Hc. unfold LuDetModel.minor, skip. cbn. apply Hu; lia.
  - intros i Hi. destruct (Nat.eqb_spec i O) as [->|Hne]; auto.
    rewrite (Hu i O) by lia. ring.
Qed.

(* rows i >= m are the rows of L U, rows i < m the rows of U: all these matrices have the same
   determinant (row m of L U is row m of U plus a combination of the rows of U above it) *)
Theorem Det_unit_lower_times_upper n (L U : nat -> nat -> K) :
  Det n (fun i c => U i c + sumf i (fun k => L i k * U k c)) = Det n U.
Proof.
  set (P := fun i c => U i c + sumf i (fun k => L i k * U k c)).
  set (h := fun (m i c : nat) => if i <? m then U i c else P i c).
  assert (Hstep : forall m, m < n -> Det n (h m) = Det n (h (S m))).
  { intros m Hm. rewrite <- (Det_row_add_comb n (h (S m)) m (L m) Hm m (le_n m)).
    apply Det_ext. intros i c _ _. unfold setrow, h.
    destruct (Nat.eqb_spec i m) as [->|Hne].
    - rewrite Nat.ltb_irrefl. destruct (Nat.ltb_spec m (S m)); [|lia]. unfold P. f_equal.
      apply sumf_ext. intros k Hk. destruct (Nat.ltb_spec k (S m)); [reflexivity|lia].
    - destruct (Nat.ltb_spec i m); destruct (Nat.ltb_spec i (S m)); auto; lia. }
  assert (H : forall m, m <= n -> Det n (h O) = Det n (h m)).
  { induction m; intros Hm; [reflexivity|]. rewrite IHm by lia. apply Hstep. lia. }
  transitivity (Det n (h O)).
  - apply Det_ext. intros i c _ _. reflexivity.
  - rewrite (H n (le_n n)). apply Det_ext. intros i c Hi _. unfold h.
    destruct (Nat.ltb_spec i n); [reflexivity|lia].
Qed.
End DetAlg.
