(* The pivot choice of the LU model ([lu_column] of LuModel.v), general n.
   Part 1: the pivot index chosen in column j is the first maximiser of the metric
           row_scale[i] * |s_i|^2 over the candidate rows j..n-1 ([col_bi_sel], [sel_max]); if
           some candidate has a positive metric the pivot written to the diagonal is nonzero
           ([pivot_nonzero_if_any]).
   Part 2: with the reciprocal row scale (scale_of_max := invM) the pivot sequence is invariant
           under scaling the rows of the input by nonzero factors ([pivot_scale_invariant]).
   Part 3: the order/magnitude hypotheses hold for Qc / Gaussian rationals; examples.
   Hypotheses on M are section hypotheses; after the sections close every theorem is generalised
   over exactly those it uses (noted above each theorem; see also the Check output). *)
Require Import List Arith Lia Bool Permutation.
Import ListNotations.
Require Import LV.Base.CField LV.Lin.MatL LV.Lin.LuModel.
Require Import LV.Lin.LuGenA LV.Lin.LuGenB LV.Lin.LuGenC LV.Lin.LuGenD.
Local Open Scope cf_scope.

Section LuPivot.
Variable K : CField.
Variable M : Type.
Variable nrm2 : K -> M.
Variable mulM : M -> M -> M.
Variable ltM : M -> M -> bool.
Variable zeroM : M.
Add Field KfP : (cth K).

Notation mat := (mat K).
Notation lu_state := (lu_state K M).
Notation lu_a := (lu_a K M).
Notation lu_ri := (lu_ri K M).
Notation lu_rs := (lu_rs K M).
Notation lu_d := (lu_d K M).
Notation lu_pivots := (lu_pivots K M).
Notation lu_column := (lu_column K M nrm2 mulM ltM zeroM).
Notation mg := (mget K).
Notation phase1 := (phase1 K).
Notation phase2 := (phase2 K).
Notation phase4 := (phase4 K).
Notation p2full := (p2full K M nrm2 mulM ltM zeroM).
Notation col_r := (col_r K M nrm2 mulM ltM zeroM).
Notation col_bi := (col_bi K M nrm2 mulM ltM zeroM).
Notation col_a3 := (col_a3 K M nrm2 mulM ltM zeroM).
Notation Sinv := (Sinv K M).

(* ---------- the pure selection ---------- *)
Definition sel_step (f : nat -> M) (acc : nat * M) (i : nat) : nat * M :=
  if ltM (snd acc) (f i) then (i, f i) else acc.
Definition sel (f : nat -> M) (l : list nat) (bi : nat) (bv : M) : nat * M :=
  fold_left (sel_step f) l (bi, bv).

Definition cand_s (n : nat) (st : lu_state) (j i : nat) : K :=
  mg (phase2 n j (phase1 j (lu_a st))) i j.
Definition cand_metric (n : nat) (st : lu_state) (j i : nat) : M :=
  mulM (nth i (lu_rs st) zeroM) (nrm2 (cand_s n st j i)).

Lemma sel_cons f i l bi bv :
  sel f (i :: l) bi bv = if ltM bv (f i) then sel f l i (f i) else sel f l bi bv.
Proof.
  unfold sel. cbn [fold_left]. unfold sel_step at 2. cbn [snd].
  destruct (ltM bv (f i)); reflexivity.
Qed.

Lemma sel_ext f g l : (forall i, In i l -> f i = g i) ->
  forall bi bv, sel f l bi bv = sel g l bi bv.
Proof.
  induction l as [|i l IH]; intros H bi bv; [reflexivity|].
  rewrite !sel_cons. rewrite (H i) by (left; auto).
  destruct (ltM bv (g i)); apply IH; intros; apply H; right; auto.
Qed.

Lemma p2full_step rs j a bi bv i :
  p2full rs j (a, bi, bv) i =
  let s := dot_sub K a i j j in
  let t := mulM (nth i rs zeroM) (nrm2 s) in
  if ltM bv t then (mset K a i j s, i, t) else (mset K a i j s, bi, bv).
Proof. reflexivity. Qed.

(* the search of lu_column, run from any matrix that agrees with a0 on the rows still to be
   visited and on the rows above j, makes the choices of [sel] on the metric read from a0 *)
Lemma p2full_sel rs j (a0 : mat) l : NoDup l -> (forall i, In i l -> j <= i) ->
  forall a bi bv, (forall i c, In i l \/ i < j -> mg a i c = mg a0 i c) ->
  let r := fold_left (p2full rs j) l (a, bi, bv) in
  (snd (fst r), snd r) =
  sel (fun i => mulM (nth i rs zeroM) (nrm2 (dot_sub K a0 i j j))) l bi bv.
Proof.
  induction l as [|i l IH]; intros Hnd Hge a bi bv Hag; [reflexivity|].
  cbv zeta. rewrite sel_cons. cbn [fold_left]. rewrite p2full_step. cbv zeta.
  assert (E : dot_sub K a i j j = dot_sub K a0 i j j).
  { rewrite !dot_sub_sumf. f_equal.
    - apply Hag. left; left; auto.
    - apply sumf_ext. intros k Hk. f_equal; apply Hag; [left; left; auto|right; auto]. }
  inversion Hnd as [|x l' Hni Hnd']; subst.
  assert (Hag' : forall i' c, In i' l \/ i' < j ->
            mg (mset K a i j (dot_sub K a i j j)) i' c = mg a0 i' c).
  { intros i' c H. rewrite mget_mset_neq.
    - apply Hag. destruct H; [left; right; auto|right; auto].
    - left. destruct H as [H|H]; [intro; subst; auto|].
      specialize (Hge i (or_introl eq_refl)). lia. }
  rewrite <- E.
  destruct (ltM bv _); apply IH; auto; intros; apply Hge; right; auto.
Qed.

Lemma cand_s_dot n st j i : wf n n (lu_a st) -> j < n -> j <= i < n ->
  cand_s n st j i = dot_sub K (phase1 j (lu_a st)) i j j.
Proof.
  intros Hw Hj Hi. unfold cand_s.
  destruct (phase1_spec K n (lu_a st) j Hw Hj) as (Hw1 & _).
  destruct (phase2_spec K n (phase1 j (lu_a st)) j Hw1 Hj) as (_ & _ & _ & H2).
  rewrite H2 by auto. rewrite dot_sub_sumf. reflexivity.
Qed.

Lemma col_bi_sel n st j : wf n n (lu_a st) -> j < n ->
  col_bi n st j = fst (sel (cand_metric n st j) (seq j (n - j)) j zeroM).
Proof.
  intros Hw Hj.
  pose proof (p2full_sel (lu_rs st) j (phase1 j (lu_a st)) (seq j (n - j))
                (seq_NoDup _ _) (fun i H => proj1 (proj1 (in_seq _ _ _) H))
                (phase1 j (lu_a st)) j zeroM (fun _ _ _ => eq_refl)) as H.
  cbv zeta in H. unfold LuGenB.col_bi, LuGenB.col_r.
  rewrite (sel_ext (cand_metric n st j)
             (fun i => mulM (nth i (lu_rs st) zeroM) (nrm2 (dot_sub K (phase1 j (lu_a st)) i j j)))).
  - rewrite <- H. reflexivity.
  - intros i Hi. apply in_seq in Hi. unfold cand_metric. rewrite (cand_s_dot n) by (auto; lia).
    reflexivity.
Qed.

(* the best value is the metric of the chosen row too *)
Lemma col_bv_sel n st j : wf n n (lu_a st) -> j < n ->
  snd (col_r n st j) = snd (sel (cand_metric n st j) (seq j (n - j)) j zeroM).
Proof.
  intros Hw Hj.
  pose proof (p2full_sel (lu_rs st) j (phase1 j (lu_a st)) (seq j (n - j))
                (seq_NoDup _ _) (fun i H => proj1 (proj1 (in_seq _ _ _) H))
                (phase1 j (lu_a st)) j zeroM (fun _ _ _ => eq_refl)) as H.
  cbv zeta in H. unfold LuGenB.col_r.
  rewrite (sel_ext (cand_metric n st j)
             (fun i => mulM (nth i (lu_rs st) zeroM) (nrm2 (dot_sub K (phase1 j (lu_a st)) i j j)))).
  - rewrite <- H. reflexivity.
  - intros i Hi. apply in_seq in Hi. unfold cand_metric. rewrite (cand_s_dot n) by (auto; lia).
    reflexivity.
Qed.

Lemma lu_column_rs n st j :
  lu_rs (lu_column n st j) =
  if negb (col_bi n st j =? j)
  then upd (lu_rs st) (col_bi n st j) (nth j (lu_rs st) zeroM) else lu_rs st.
Proof.
  unfold LuGenB.col_bi.
  assert (Hr : col_r n st j = col_r n st j) by reflexivity.
  unfold LuGenB.col_r at 1 in Hr. unfold LuGenB.phase1, LuGenB.p2full, cstep in Hr.
  unfold LuModel.lu_column.
  match goal with |- context [fold_left ?f (seq j (n - j)) (?a1, j, zeroM)] =>
     change (fold_left f (seq j (n - j)) (a1, j, zeroM)) with (col_r n st j) end.
  destruct (col_r n st j) as [[a2 bi] bv]. cbn [fst snd].
  cbn [LuModel.lu_rs]. reflexivity.
Qed.

(* closed form of one column step, with the pivot index and the intermediate values named *)
Lemma lu_column_spec_bi n st j : wf n n (lu_a st) -> length (lu_ri st) = n -> j < n ->
   let bi := col_bi n st j in
   let u := fun i => mg (phase1 j (lu_a st)) i j in
   let s := cand_s n st j in
   let W := lu_a st in let st' := lu_column n st j in let W' := lu_a st' in
   let sg := tr j bi in
   j <= bi < n /\
   wf n n W' /\
   length (lu_ri st') = n /\
   (forall i, nth i (lu_ri st') O = nth (sg i) (lu_ri st) O) /\
   (forall i c, c <> j -> mg W' i c = mg W (sg i) c) /\
   (forall i, i < j -> u i = mg W i j - sumf i (fun k => mg W i k * u k)) /\
   (forall i, j <= i < n -> s i = mg W i j - sumf j (fun k => mg W i k * u k)) /\
   (forall i, i < j -> mg W' i j = u i) /\
   mg W' j j = s bi /\
   (forall i, j < i < n -> mg W' i j = s (sg i) * (1 / s bi)) /\
   lu_d st' = lu_d st * (if bi =? j then 1 else copp 1) * mg W' j j /\
   lu_pivots st' = lu_pivots st ++ [nth j (lu_ri st') O] /\
   lu_ri st' = (if negb (bi =? j) then swap_rows O (lu_ri st) bi j else lu_ri st).
Proof.
  intros Hw Hlen Hj.
  pose proof (col_bi_range K M nrm2 mulM ltM zeroM n st j Hj) as Hbi.
  destruct (lu_column_proj K M nrm2 mulM ltM zeroM n st j) as (Ea & Eri & Ed & Ep).
  unfold cand_s.
  set (bi := col_bi n st j) in *.
  destruct (phase1_spec K n (lu_a st) j Hw Hj) as (Hw1 & H1o & H1ge & H1lt).
  set (a1 := phase1 j (lu_a st)) in *.
  destruct (phase2_spec K n a1 j Hw1 Hj) as (Hw2 & H2o & H2lt & H2ge).
  set (a2 := phase2 n j a1) in *.
  assert (Ha3 : forall i c, mg (col_a3 n st j) i c = mg a2 (tr j bi i) c).
  { intros i c. unfold LuGenB.col_a3. rewrite col_a2_eq. fold a1. fold a2. fold bi.
    destruct (Nat.eqb_spec bi j) as [E|E]; simpl.
    - rewrite E, tr_same. reflexivity.
    - destruct Hw2 as [Hl2 _]. apply mget_swap_rows; lia. }
  assert (Hw3 : wf n n (col_a3 n st j)).
  { unfold LuGenB.col_a3. rewrite col_a2_eq. fold a1. fold a2. fold bi.
    destruct (negb (bi =? j)); auto. apply wf_swap_rows; auto; lia. }
  set (a3 := col_a3 n st j) in *.
  destruct (phase4_spec K n a3 j (1 / mg a3 j j) Hw3 Hj) as (Hw4 & H4o & H4le & H4gt).
  rewrite <- Ea in *.
  assert (Htr_lt : forall i, i < j -> tr j bi i = i).
  { intros i Hi. apply tr_other; lia. }
  assert (Hjj : mg a3 j j = mg a2 bi j).
  { rewrite Ha3, tr_l. reflexivity. }
  cbv zeta. split; [exact Hbi|]. split; [exact Hw4|]. split.
  { rewrite Eri. destruct (negb (bi =? j)); auto. rewrite swap_rows_length; auto. }
  split.
  { intros i. rewrite Eri. destruct (Nat.eqb_spec bi j) as [E|E]; simpl.
    - rewrite E, tr_same. reflexivity.
    - apply nth_swap_rows_tr; lia. }
  split.
  { intros i c Hc. rewrite H4o by auto. rewrite Ha3. rewrite H2o by auto. apply H1o; auto. }
  split.
  { intros i Hi. apply H1lt; auto. }
  split.
  { intros i Hi. rewrite H2ge by auto. rewrite H1ge by lia. f_equal.
    apply sumf_ext. intros k Hk. f_equal. apply H1o. lia. }
  split.
  { intros i Hi. rewrite H4le by lia. rewrite Ha3, Htr_lt by auto. apply H2lt; auto. }
  split.
  { rewrite H4le by lia. exact Hjj. }
  split.
  { intros i Hi. rewrite H4gt by auto. rewrite Ha3, Hjj. reflexivity. }
  split; [|split; [exact Ep|exact Eri]].
  rewrite Ed. rewrite H4le by lia.
  destruct (bi =? j); simpl; ring.
Qed.

Lemma lu_column_pivot_value n st j : wf n n (lu_a st) -> j < n ->
  mg (lu_a (lu_column n st j)) j j = cand_s n st j (col_bi n st j).
Proof.
  intros Hw Hj.
  pose proof (col_bi_range K M nrm2 mulM ltM zeroM n st j Hj) as Hbi.
  destruct (lu_column_proj K M nrm2 mulM ltM zeroM n st j) as (Ea & _).
  destruct (phase1_spec K n (lu_a st) j Hw Hj) as (Hw1 & _).
  destruct (phase2_spec K n (phase1 j (lu_a st)) j Hw1 Hj) as (Hw2 & _).
  assert (Hw3 : wf n n (col_a3 n st j)).
  { unfold LuGenB.col_a3. rewrite col_a2_eq.
    destruct (negb (col_bi n st j =? j)); auto. apply wf_swap_rows; auto; lia. }
  destruct (phase4_spec K n (col_a3 n st j) j (1 / mg (col_a3 n st j) j j) Hw3 Hj)
    as (_ & _ & H4le & _).
  rewrite Ea, H4le by lia. unfold cand_s, LuGenB.col_a3. rewrite col_a2_eq.
  destruct (Nat.eqb_spec (col_bi n st j) j) as [E|E]; simpl.
  - rewrite E. reflexivity.
  - destruct Hw2 as [Hl2 _]. rewrite mget_swap_rows by lia. rewrite tr_l. reflexivity.
Qed.

Lemma lu_column_spec_ex n st j : wf n n (lu_a st) -> length (lu_ri st) = n -> j < n ->
  exists (u s : nat -> K), s = cand_s n st j /\
   let bi := col_bi n st j in
   let W := lu_a st in let st' := lu_column n st j in let W' := lu_a st' in
   let sg := tr j bi in
   j <= bi < n /\
   wf n n W' /\
   length (lu_ri st') = n /\
   (forall i, nth i (lu_ri st') O = nth (sg i) (lu_ri st) O) /\
   (forall i c, c <> j -> mg W' i c = mg W (sg i) c) /\
   (forall i, i < j -> u i = mg W i j - sumf i (fun k => mg W i k * u k)) /\
   (forall i, j <= i < n -> s i = mg W i j - sumf j (fun k => mg W i k * u k)) /\
   (forall i, i < j -> mg W' i j = u i) /\
   mg W' j j = s bi /\
   (forall i, j < i < n -> mg W' i j = s (sg i) * (1 / s bi)) /\
   lu_d st' = lu_d st * (if bi =? j then 1 else copp 1) * mg W' j j /\
   lu_pivots st' = lu_pivots st ++ [nth j (lu_ri st') O] /\
   lu_ri st' = (if negb (bi =? j) then swap_rows O (lu_ri st) bi j else lu_ri st).
Proof.
  intros Hw Hl Hj.
  exists (fun i => mg (phase1 j (lu_a st)) i j), (cand_s n st j). split; [reflexivity|].
  exact (lu_column_spec_bi n st j Hw Hl Hj).
Qed.

Lemma Sinv_step n st j : Sinv n st -> j < n -> Sinv n (lu_column n st j).
Proof.
  intros (Hwa & Hl & Hrange & Hinj) Hj.
  destruct (lu_column_spec K M nrm2 mulM ltM zeroM n st j Hwa Hl Hj)
    as (bi & u & s & Hbi & Hw' & Hl' & Hri & _).
  split; [exact Hw'|]. split; [exact Hl'|]. split.
  - intros i Hi. rewrite Hri. apply Hrange. apply tr_lt; lia.
  - intros i i' Hi Hi'. rewrite !Hri. intros E. apply Hinj in E; try (apply tr_lt; lia).
    eapply tr_inj; eauto.
Qed.

Definition scale_rows (d : nat -> K) (a : mat) (n : nat) : mat :=
  mbuild K n n (fun i c => d i * mg a i c).

(* ================= order hypotheses: the selection is a maximum ================= *)
Section Order.
Hypothesis ltM_irrefl : forall x, ltM x x = false.
Hypothesis ltM_trans : forall x y z, ltM x y = true -> ltM y z = true -> ltM x z = true.
(* zeroM_min is listed for completeness only: no lemma below uses it (and it is false for
   M := Qc, where only the values that occur are non-negative) *)
Hypothesis zeroM_min : forall x, ltM x zeroM = false.
Hypothesis mulM_pos : forall x y, ltM zeroM x = true -> ltM zeroM y = true ->
  ltM zeroM (mulM x y) = true.
Hypothesis mulM_zero_r : forall x, mulM x zeroM = zeroM.
Hypothesis nrm2_zero : nrm2 0 = zeroM.
Hypothesis nrm2_pos : forall x : K, x <> 0 -> ltM zeroM (nrm2 x) = true.

Lemma ltM_false_of_lt x y z : ltM x y = true -> ltM x z = false -> ltM y z = false.
Proof.
  intros Hxy Hxz. destruct (ltM y z) eqn:E; auto.
  rewrite (ltM_trans x y z Hxy E) in Hxz. discriminate.
Qed.

(* general accumulator *)
Lemma sel_inv f l : forall bi bv, let r := sel f l bi bv in
  (forall i, In i l -> ltM (snd r) (f i) = false) /\
  (r = (bi, bv) \/ (In (fst r) l /\ snd r = f (fst r) /\ ltM bv (snd r) = true)).
Proof.
  induction l as [|i l IH]; intros bi bv; cbv zeta.
  - split; [intros i []|left; reflexivity].
  - rewrite sel_cons. destruct (ltM bv (f i)) eqn:Eb.
    + destruct (IH i (f i)) as (H1 & H2). cbv zeta in H1, H2. split.
      * intros i' [<-|Hi']; [|apply H1; auto].
        destruct H2 as [-> | (_ & _ & H2)]; [apply ltM_irrefl|].
        destruct (ltM (snd (sel f l i (f i))) (f i)) eqn:E; auto.
        pose proof (ltM_trans _ _ _ H2 E) as X. rewrite ltM_irrefl in X. discriminate.
      * right. destruct H2 as [-> | (Hin & Hv & Hlt)]; cbn [fst snd].
        -- split; [left; auto|]. split; auto.
        -- split; [right; auto|]. split; auto. eapply ltM_trans; eauto.
    + destruct (IH bi bv) as (H1 & H2). cbv zeta in H1, H2. split.
      * intros i' [<-|Hi']; [|apply H1; auto].
        destruct H2 as [-> | (_ & _ & H2)]; [exact Eb|].
        eapply ltM_false_of_lt; eauto.
      * destruct H2 as [-> | (Hin & Hv & Hlt)]; [left; auto|].
        right. split; [right; auto|]. split; auto.
Qed.

(* uses ltM_irrefl, ltM_trans *)
Theorem sel_max f l bi0 : let r := sel f l bi0 zeroM in
  (forall i, In i l -> ltM (snd r) (f i) = false) /\
  (((forall i, In i l -> ltM zeroM (f i) = false) /\ r = (bi0, zeroM)) \/
   (In (fst r) l /\ snd r = f (fst r) /\ ltM zeroM (snd r) = true)).
Proof.
  cbv zeta. destruct (sel_inv f l bi0 zeroM) as (H1 & H2). cbv zeta in H1, H2.
  split; auto. destruct H2 as [E|H2]; [left|right; auto].
  split; auto. intros i Hi. specialize (H1 i Hi). rewrite E in H1. exact H1.
Qed.

(* uses ltM_irrefl, ltM_trans, mulM_zero_r, nrm2_zero *)
Theorem pivot_nonzero_if_any n st j : wf n n (lu_a st) -> j < n ->
  (exists i, j <= i < n /\ ltM zeroM (cand_metric n st j i) = true) ->
  let bi := col_bi n st j in
  j <= bi < n /\ ltM zeroM (cand_metric n st j bi) = true /\
  (forall i, j <= i < n -> ltM (cand_metric n st j bi) (cand_metric n st j i) = false) /\
  mg (lu_a (lu_column n st j)) j j <> 0.
Proof.
  intros Hw Hj (i0 & Hi0 & Hpos). cbv zeta.
  rewrite (lu_column_pivot_value n st j Hw Hj).
  rewrite (col_bi_sel n st j Hw Hj).
  destruct (sel_max (cand_metric n st j) (seq j (n - j)) j) as (H1 & H2). cbv zeta in H1, H2.
  set (r := sel (cand_metric n st j) (seq j (n - j)) j zeroM) in *.
  destruct H2 as [(Hz & _)|(Hin & Hv & Hp)].
  { rewrite Hz in Hpos; [discriminate|]. apply in_seq. lia. }
  apply in_seq in Hin. rewrite Hv in Hp. split; [lia|]. split; [exact Hp|]. split.
  - intros i Hi. rewrite <- Hv. apply H1. apply in_seq. lia.
  - intros Hs0. unfold cand_metric in Hp. rewrite Hs0, nrm2_zero, mulM_zero_r, ltM_irrefl in Hp.
    discriminate.
Qed.

(* additionally uses mulM_pos, nrm2_pos *)
Corollary pivot_nonzero_if_any_s n st j : wf n n (lu_a st) -> j < n ->
  (exists i, j <= i < n /\ cand_s n st j i <> 0 /\ ltM zeroM (nth i (lu_rs st) zeroM) = true) ->
  let bi := col_bi n st j in
  j <= bi < n /\ ltM zeroM (cand_metric n st j bi) = true /\
  (forall i, j <= i < n -> ltM (cand_metric n st j bi) (cand_metric n st j i) = false) /\
  mg (lu_a (lu_column n st j)) j j <> 0.
Proof.
  intros Hw Hj (i & Hi & Hs & Hr). apply pivot_nonzero_if_any; auto.
  exists i. split; auto. unfold cand_metric. apply mulM_pos; auto.
Qed.


(* ================= Part 2: reciprocal row scale, invariance under row scaling ============ *)
Section Scale.
Variable oneM : M.
Variable invM : M -> M.
Hypothesis mulM_comm : forall x y, mulM x y = mulM y x.
Hypothesis mulM_assoc : forall x y z, mulM x (mulM y z) = mulM (mulM x y) z.
Hypothesis mulM_one_l : forall x, mulM oneM x = x.
Hypothesis invM_l : forall x, ltM zeroM x = true -> mulM (invM x) x = oneM.
Hypothesis invM_mul : forall x y, invM (mulM x y) = mulM (invM x) (invM y).
Hypothesis ltM_mul_pos : forall d x y, ltM zeroM d = true ->
  ltM (mulM d x) (mulM d y) = ltM x y.
Hypothesis nrm2_mul : forall x y : K, nrm2 (x * y) = mulM (nrm2 x) (nrm2 y).

Notation lu_init := (lu_init K M nrm2 ltM zeroM invM).
Notation lu := (lu K M nrm2 mulM ltM zeroM invM).
Notation lu_upto := (lu_upto K M nrm2 mulM ltM zeroM invM).
Notation row_max := (row_max K M nrm2 ltM zeroM).

(* (2a) uses nrm2_pos, nrm2_mul, ltM_mul_pos, mulM_zero_r *)
Lemma row_max_scale_gen d a n i l : (forall c, In c l -> c < n) -> i < n -> d i <> 0 ->
  forall mx,
  fold_left (fun mx j => let t := nrm2 (mg (scale_rows d a n) i j) in if ltM mx t then t else mx)
            l (mulM (nrm2 (d i)) mx) =
  mulM (nrm2 (d i))
    (fold_left (fun mx j => let t := nrm2 (mg a i j) in if ltM mx t then t else mx) l mx).
Proof.
  intros Hl Hi Hdi. induction l as [|c l IH]; intros mx; [reflexivity|].
  cbn [fold_left]. cbv zeta.
  assert (E : nrm2 (mg (scale_rows d a n) i c) = mulM (nrm2 (d i)) (nrm2 (mg a i c))).
  { unfold scale_rows. rewrite mget_mbuild by (auto; apply Hl; left; auto). apply nrm2_mul. }
  rewrite E. rewrite ltM_mul_pos by (apply nrm2_pos; auto).
  destruct (ltM mx (nrm2 (mg a i c))); apply IH; intros; apply Hl; right; auto.
Qed.

Lemma row_max_scale d a n i : i < n -> d i <> 0 ->
  row_max (scale_rows d a n) n i = mulM (nrm2 (d i)) (row_max a n i).
Proof.
  intros Hi Hdi. unfold LuModel.row_max.
  rewrite <- (row_max_scale_gen d a n i (seq 0 n)); auto.
  - rewrite mulM_zero_r. reflexivity.
  - intros c Hc. apply in_seq in Hc. lia.
Qed.

(* (2b) uses mulM_comm, mulM_assoc, mulM_one_l, invM_l (and invM_mul for the second form) *)
Lemma metric_scale' dd r ns : ltM zeroM dd = true ->
  mulM (mulM (invM dd) r) (mulM dd ns) = mulM r ns.
Proof.
  intros Hd. rewrite (mulM_comm (invM dd) r). rewrite <- mulM_assoc.
  rewrite (mulM_assoc (invM dd) dd ns). rewrite invM_l by auto. rewrite mulM_one_l. reflexivity.
Qed.

Lemma metric_scale dd rm ns : ltM zeroM dd = true ->
  mulM (invM (mulM dd rm)) (mulM dd ns) = mulM (invM rm) ns.
Proof. intros Hd. rewrite invM_mul. apply metric_scale'; auto. Qed.

Section Run.
Variable d : nat -> K.
Variable n : nat.
Hypothesis Hd : forall i, i < n -> d i <> 0.

(* st: state of the run on A;  st': state of the run on diag(d) A, same column *)
Definition ScaleRel (j : nat) (st st' : lu_state) : Prop :=
  lu_ri st' = lu_ri st /\ lu_pivots st' = lu_pivots st /\ Sinv n st /\ Sinv n st' /\
  length (lu_rs st) = n /\ length (lu_rs st') = n /\
  let dp := fun i => d (nth i (lu_ri st) O) in
  let W := mg (lu_a st) in let W' := mg (lu_a st') in
  (forall i c, i < n -> j <= c < n -> W' i c = dp i * W i c) /\
  (forall i c, i < n -> c < j -> i <= c -> W' i c = dp i * W i c) /\
  (forall i c, i < n -> c < j -> c < i -> W' i c = dp i / dp c * W i c) /\
  (forall i, j <= i < n ->
     nth i (lu_rs st') zeroM = mulM (invM (nrm2 (dp i))) (nth i (lu_rs st) zeroM)).

(* (2c) uses nrm2_pos, nrm2_mul, mulM_comm, mulM_assoc, mulM_one_l, invM_l *)
Theorem pivot_scale_invariant_step j st st' : ScaleRel j st st' -> j < n ->
  mg (lu_a (lu_column n st j)) j j <> 0 ->
  col_bi n st' j = col_bi n st j /\ ScaleRel (S j) (lu_column n st j) (lu_column n st' j).
Proof.
  intros (Eri & Epv & HS & HS' & Hlr & Hlr' & HA & HB & HC & HD) Hj Hnz.
  cbv zeta in HA, HB, HC, HD.
  pose proof HS as (Hw & Hl & Hrange & Hinj). pose proof HS' as (Hw' & Hl' & _).
  destruct (lu_column_spec_ex n st j Hw Hl Hj)
    as (u & s & Es & Hbi & Hw1 & Hl1 & Hri1 & Hc1 & Hu & Hs & Hu1 & Hjj1 & Hlow1 & _ & Hp1 & Eri1).
  destruct (lu_column_spec_ex n st' j Hw' Hl' Hj)
    as (u' & s' & Es' & Hbi' & Hw1' & Hl1' & Hri1' & Hc1' & Hu' & Hs' & Hu1' & Hjj1' & Hlow1'
        & _ & Hp1' & Eri1').
  set (dp := fun i => d (nth i (lu_ri st) O)) in *.
  assert (Hdp : forall i, i < n -> dp i <> 0) by (intros i Hi; apply Hd, Hrange; auto).
  assert (Hu_sc : forall m i, i < m -> i < j -> u' i = dp i * u i).
  { induction m; intros i Him Hij; [lia|].
    rewrite (Hu' i Hij), (Hu i Hij). rewrite HA by lia.
    rewrite (sumf_ext K i (fun k => mg (lu_a st') i k * u' k)
                          (fun k => dp i * (mg (lu_a st) i k * u k))).
    { rewrite <- sumf_scale_l. unfold dp. ring. }
    intros k Hk. rewrite HC by lia. rewrite IHm by lia. unfold dp. field. apply Hdp; lia. }
  assert (Hs_sc : forall i, j <= i < n -> s' i = dp i * s i).
  { intros i Hi. rewrite (Hs' i Hi), (Hs i Hi). rewrite HA by lia.
    rewrite (sumf_ext K j (fun k => mg (lu_a st') i k * u' k)
                          (fun k => dp i * (mg (lu_a st) i k * u k))).
    { rewrite <- sumf_scale_l. unfold dp. ring. }
    intros k Hk. rewrite HC by lia. rewrite (Hu_sc (S k)) by lia. unfold dp. field. apply Hdp; lia. }
  assert (Hmet : forall i, j <= i < n -> cand_metric n st' j i = cand_metric n st j i).
  { intros i Hi. unfold cand_metric. rewrite <- Es', <- Es. rewrite Hs_sc by auto.
    rewrite nrm2_mul, HD by auto. apply metric_scale'. apply nrm2_pos, Hdp. lia. }
  assert (Ebi : col_bi n st' j = col_bi n st j).
  { rewrite !col_bi_sel by auto. f_equal. apply sel_ext.
    intros i Hi. apply in_seq in Hi. apply Hmet. lia. }
  split; [exact Ebi|].
  rewrite Ebi in *. set (bi := col_bi n st j) in *.
  assert (Tlt : forall i, i < j -> tr j bi i = i) by (intros; apply tr_other; lia).
  assert (Tn : forall i, i < n -> tr j bi i < n) by (intros; apply tr_lt; lia).
  assert (Tge : forall i, j <= i -> j <= tr j bi i).
  { intros i Hi. unfold tr. destruct (i =? j); [lia|]. destruct (i =? bi); lia. }
  assert (Eri2 : lu_ri (lu_column n st' j) = lu_ri (lu_column n st j)).
  { rewrite Eri1', Eri1, Eri. reflexivity. }
  assert (Hsb : s bi <> 0) by (rewrite <- Hjj1; exact Hnz).
  split; [exact Eri2|]. split.
  { rewrite Hp1', Hp1, Epv, Eri2. reflexivity. }
  split; [apply Sinv_step; auto|]. split; [apply Sinv_step; auto|]. split.
  { rewrite lu_column_rs.
    match goal with |- context [if ?b then _ else _] => destruct b end;
    rewrite ?upd_length; auto. }
  split.
  { rewrite lu_column_rs.
    match goal with |- context [if ?b then _ else _] => destruct b end;
    rewrite ?upd_length; auto. }
  cbv zeta. split; [|split; [|split]].
  - intros i c Hi Hc. rewrite Hc1', Hc1 by lia. rewrite Hri1. apply HA; auto. lia.
  - intros i c Hi Hc Hic. destruct (Nat.eq_dec c j) as [->|Hcj].
    + destruct (Nat.eq_dec i j) as [->|Hij].
      * rewrite Hjj1', Hjj1, Hri1, tr_l. apply Hs_sc. lia.
      * rewrite Hu1', Hu1 by lia. rewrite Hri1, Tlt by lia. apply (Hu_sc (S i)); lia.
    + rewrite Hc1', Hc1 by lia. rewrite Hri1. rewrite Tlt by lia. apply HB; lia.
  - intros i c Hi Hc Hci. destruct (Nat.eq_dec c j) as [->|Hcj].
    + rewrite Hlow1', Hlow1 by lia. rewrite !Hri1, tr_l.
      pose proof (Tge i ltac:(lia)). pose proof (Tn i Hi).
      rewrite !Hs_sc by lia. unfold dp.
      field. split; [exact Hsb|]. apply Hdp; lia.
    + rewrite Hc1', Hc1 by lia. rewrite !Hri1. rewrite (Tlt c) by lia.
      apply HC; auto; try lia.
      destruct (lt_dec i j); [rewrite Tlt; lia|]. pose proof (Tge i ltac:(lia)). lia.
  - intros i Hi. rewrite !lu_column_rs. rewrite Ebi. fold bi. rewrite Hri1.
    destruct (Nat.eqb_spec bi j) as [E|E]; simpl.
    + rewrite E, tr_same. apply HD. lia.
    + destruct (Nat.eq_dec i bi) as [->|Hne].
      * rewrite !nth_upd_eq by lia. rewrite tr_r. apply HD. lia.
      * rewrite !nth_upd_neq by auto. rewrite tr_other by lia. apply HD; lia.
Qed.

(* uses additionally invM_mul, ltM_mul_pos, mulM_zero_r (through row_max_scale) *)
Lemma ScaleRel_init a : wf n n a -> ScaleRel 0 (lu_init a n) (lu_init (scale_rows d a n) n).
Proof.
  intros Hw.
  pose proof (Sinv_upto K M nrm2 mulM ltM zeroM invM a n Hw 0 (Nat.le_0_l n)) as HS.
  pose proof (Sinv_upto K M nrm2 mulM ltM zeroM invM (scale_rows d a n) n
                (wf_mbuild K n n _) 0 (Nat.le_0_l n)) as HS'.
  change (lu_upto a n 0) with (lu_init a n) in HS.
  change (lu_upto (scale_rows d a n) n 0) with (lu_init (scale_rows d a n) n) in HS'.
  split; [reflexivity|]. split; [reflexivity|]. split; [exact HS|]. split; [exact HS'|].
  unfold LuModel.lu_init. cbn [LuModel.lu_a LuModel.lu_ri LuModel.lu_rs].
  split; [rewrite map_length, seq_length; auto|].
  split; [rewrite map_length, seq_length; auto|].
  cbv zeta. split; [|split; [|split]]; try (intros; lia).
  - intros i c Hi Hc. unfold scale_rows. rewrite mget_mbuild by lia.
    rewrite seq_nth by auto. reflexivity.
  - intros i Hi. rewrite !nth_map_seq by lia. rewrite seq_nth by lia. cbn [Nat.add].
    rewrite row_max_scale by (auto; try lia; apply Hd; lia). apply invM_mul.
Qed.

Lemma pivot_scale_invariant_upto a : wf n n a ->
  (forall j, j < n -> mg (lu_a (lu a n)) j j <> 0) ->
  forall t, t <= n -> ScaleRel t (lu_upto a n t) (lu_upto (scale_rows d a n) n t).
Proof.
  intros Hw Hnz. induction t; intros Ht.
  - apply ScaleRel_init; auto.
  - rewrite !lu_upto_S. apply pivot_scale_invariant_step; [apply IHt; lia|lia|].
    rewrite <- lu_upto_S.
    destruct (lu_upto_stable K M nrm2 mulM ltM zeroM invM a n Hw t n) as (_ & H); try lia.
    rewrite <- H by lia. apply Hnz. lia.
Qed.
End Run.

(* (2d) *)
Theorem pivot_scale_invariant a n d : wf n n a -> (forall i, i < n -> d i <> 0) ->
  (forall j, j < n -> mg (lu_a (lu a n)) j j <> 0) ->
  lu_pivots (lu (scale_rows d a n) n) = lu_pivots (lu a n).
Proof.
  intros Hw Hd Hnz.
  destruct (pivot_scale_invariant_upto d n Hd a Hw Hnz n (le_n n)) as (_ & H & _).
  exact H.
Qed.

(* the permutation vectors agree as well *)
Theorem ri_scale_invariant a n d : wf n n a -> (forall i, i < n -> d i <> 0) ->
  (forall j, j < n -> mg (lu_a (lu a n)) j j <> 0) ->
  lu_ri (lu (scale_rows d a n) n) = lu_ri (lu a n).
Proof.
  intros Hw Hd Hnz.
  destruct (pivot_scale_invariant_upto d n Hd a Hw Hnz n (le_n n)) as (H & _).
  exact H.
Qed.
End Scale.
End Order.

End LuPivot.

(* ================= Part 3: the hypotheses hold for Qc / Gaussian rationals ================ *)
Require Import QArith Qcanon.
Require Import LV.Base.QcI LV.Lin.LuQI.

Section QcInst.
Local Open Scope Qc_scope.

Lemma Qc_ltb_true x y : Qc_ltb x y = true <-> x < y.
Proof.
  unfold Qc_ltb. destruct (Qclt_le_dec x y) as [H|H]; split; auto; try discriminate.
  intros H'. exfalso. exact (Qcle_not_lt _ _ H H').
Qed.

Lemma Qc_ltb_false x y : Qc_ltb x y = false <-> y <= x.
Proof.
  unfold Qc_ltb. destruct (Qclt_le_dec x y) as [H|H]; split; auto; try discriminate.
  intros H'. exfalso. exact (Qcle_not_lt _ _ H' H).
Qed.

Lemma qc_ltM_irrefl : forall x, Qc_ltb x x = false.
Proof. intros x. apply Qc_ltb_false. apply Qcle_refl. Qed.

Lemma qc_ltM_trans : forall x y z, Qc_ltb x y = true -> Qc_ltb y z = true -> Qc_ltb x z = true.
Proof. intros x y z H1 H2. apply Qc_ltb_true in H1, H2. apply Qc_ltb_true. eapply Qclt_trans; eauto. Qed.

Lemma qc_mulM_pos : forall x y, Qc_ltb 0 x = true -> Qc_ltb 0 y = true -> Qc_ltb 0 (x * y) = true.
Proof.
  intros x y H1 H2. apply Qc_ltb_true in H1, H2. apply Qc_ltb_true.
  replace 0 with (0 * y) by ring. apply Qcmult_lt_compat_r; auto.
Qed.

Lemma qc_mulM_zero_r : forall x, x * 0 = 0.
Proof. intros; ring. Qed.

Lemma qc_mulM_comm : forall x y : Qc, x * y = y * x.
Proof. intros; ring. Qed.

Lemma qc_mulM_assoc : forall x y z : Qc, x * (y * z) = (x * y) * z.
Proof. intros; ring. Qed.

Lemma qc_mulM_one_l : forall x : Qc, 1 * x = x.
Proof. intros; ring. Qed.

Lemma qc_invM_l : forall x, Qc_ltb 0 x = true -> / x * x = 1.
Proof.
  intros x H. apply Qc_ltb_true in H. apply Qcmult_inv_l.
  intro E. rewrite E in H. exact (Qclt_not_eq _ _ H eq_refl).
Qed.

Lemma qc_invM_mul : forall x y, / (x * y) = / x * / y.
Proof. exact Qcinv_mult_distr. Qed.

Lemma qc_ltM_mul_pos : forall d x y, Qc_ltb 0 d = true -> Qc_ltb (d * x) (d * y) = Qc_ltb x y.
Proof.
  intros d x y Hd. apply Qc_ltb_true in Hd.
  destruct (Qc_ltb x y) eqn:E.
  - apply Qc_ltb_true in E. apply Qc_ltb_true.
    rewrite (Qcmult_comm d x), (Qcmult_comm d y). apply Qcmult_lt_compat_r; auto.
  - apply Qc_ltb_false in E. apply Qc_ltb_false.
    rewrite (Qcmult_comm d x), (Qcmult_comm d y). apply Qcmult_le_compat_r; auto.
    apply Qclt_le_weak; auto.
Qed.

Lemma Q_sq_nonneg (a : Q) : (0 <= a * a)%Q.
Proof.
  destruct a as [p q]. unfold Qle, Qmult. simpl. rewrite Z.mul_1_r. apply Z.square_nonneg.
Qed.

Lemma Qc_sq_nonneg (a : Qc) : 0 <= a * a.
Proof.
  unfold Qcle. cbn [this Qcmult Q2Qc]. rewrite !Qred_correct. apply Q_sq_nonneg.
Qed.

Lemma qi_nrm_nonneg (x : qi) : 0 <= qi_nrm x.
Proof.
  unfold qi_nrm. replace 0 with (0 + 0) by ring.
  apply Qcplus_le_compat; apply Qc_sq_nonneg.
Qed.

Lemma qi_nrm2_zero : qi_nrm (@c0 QIF) = 0.
Proof. unfold qi_nrm. simpl. ring. Qed.

Lemma qi_nrm2_pos : forall x : QIF, x <> @c0 QIF -> Qc_ltb 0 (qi_nrm x) = true.
Proof.
  intros x Hx. apply Qc_ltb_true.
  destruct (Qcle_lt_or_eq _ _ (qi_nrm_nonneg x)) as [H|H]; auto.
  exfalso. apply Hx. apply qi_nrm_zero. symmetry. exact H.
Qed.

Lemma qi_nrm2_mul : forall x y : QIF, qi_nrm (@cmul QIF x y) = qi_nrm x * qi_nrm y.
Proof. intros [a b] [c d]. unfold qi_nrm. simpl. ring. Qed.
End QcInst.
Local Open Scope nat_scope.

(* the two theorems at the Gaussian rationals, reciprocal row scale *)
Definition qp_lu := lu QIF Qc qi_nrm Qcmult Qc_ltb 0%Qc Qcinv.

Theorem q_pivot_scale_invariant (a : mat QIF) n (d : nat -> QIF) : wf n n a ->
  (forall i, i < n -> d i <> @c0 QIF) ->
  (forall j, j < n -> mget QIF (lu_a QIF Qc (qp_lu a n)) j j <> @c0 QIF) ->
  lu_pivots QIF Qc (qp_lu (scale_rows QIF d a n) n) = lu_pivots QIF Qc (qp_lu a n).
Proof.
  apply (pivot_scale_invariant QIF Qc qi_nrm Qcmult Qc_ltb 0%Qc qc_mulM_zero_r qi_nrm2_pos
           1%Qc Qcinv qc_mulM_comm qc_mulM_assoc qc_mulM_one_l qc_invM_l qc_invM_mul
           qc_ltM_mul_pos qi_nrm2_mul).
Qed.

Definition q_pivot_nonzero_if_any :=
  pivot_nonzero_if_any QIF Qc qi_nrm Qcmult Qc_ltb 0%Qc qc_ltM_irrefl qc_ltM_trans
    qc_mulM_zero_r qi_nrm2_zero.

Definition q_pivot_nonzero_if_any_s :=
  pivot_nonzero_if_any_s QIF Qc qi_nrm Qcmult Qc_ltb 0%Qc qc_ltM_irrefl qc_ltM_trans
    qc_mulM_pos qc_mulM_zero_r qi_nrm2_zero qi_nrm2_pos.

(* ---------- non-vacuity: a concrete 3x3 matrix ---------- *)
Definition ex_a : mat QIF :=
  [[mkqi 1 1 0 1; mkqi 2 1 0 1; mkqi 3 1 1 1];
   [mkqi 4 1 0 1; mkqi 5 1 (-1) 2; mkqi 6 1 0 1];
   [mkqi 7 1 2 1; mkqi 8 1 0 1; mkqi 10 1 0 1]].
Definition ex_d (i : nat) : QIF :=
  match i with O => mkqi 1000 1 0 1 | 1 => mkqi 0 1 1 7 | _ => mkqi (-3) 2 1 5 end.

Lemma ex_wf : wf 3 3 ex_a.
Proof. split; [reflexivity|repeat constructor]. Qed.

Lemma ex_d_nz : forall i, i < 3 -> ex_d i <> @c0 QIF.
Proof.
  intros i Hi. apply qi_neqb.
  destruct i as [|[|[|i]]]; try lia; vm_compute; reflexivity.
Qed.

Lemma ex_pivots_nz : forall j, j < 3 -> mget QIF (lu_a QIF Qc (qp_lu ex_a 3)) j j <> @c0 QIF.
Proof.
  intros j Hj. apply qi_neqb.
  destruct j as [|[|[|j]]]; try lia; vm_compute; reflexivity.
Qed.

Example ex_scale_invariant :
  lu_pivots QIF Qc (qp_lu (scale_rows QIF ex_d ex_a 3) 3) = lu_pivots QIF Qc (qp_lu ex_a 3).
Proof. exact (q_pivot_scale_invariant ex_a 3 ex_d ex_wf ex_d_nz ex_pivots_nz). Qed.

(* the pivot sequence of the example is not the identity: rows were exchanged *)
Example ex_pivots : lu_pivots QIF Qc (qp_lu ex_a 3) = [2; 0; 1].
Proof. vm_compute. reflexivity. Qed.

(* first column of the same matrix: row 2 has a positive metric, so the chosen pivot is a
   maximiser of the metric and the diagonal entry written by the column step is nonzero *)
Example ex_first_column_pivot :
  let st := lu_init QIF Qc qi_nrm Qc_ltb 0%Qc Qcinv ex_a 3 in
  let bi := col_bi QIF Qc qi_nrm Qcmult Qc_ltb 0%Qc 3 st 0 in
  0 <= bi < 3 /\
  Qc_ltb 0%Qc (cand_metric QIF Qc qi_nrm Qcmult 0%Qc 3 st 0 bi) = true /\
  (forall i, 0 <= i < 3 ->
     Qc_ltb (cand_metric QIF Qc qi_nrm Qcmult 0%Qc 3 st 0 bi)
            (cand_metric QIF Qc qi_nrm Qcmult 0%Qc 3 st 0 i) = false) /\
  mget QIF (lu_a QIF Qc (lu_column QIF Qc qi_nrm Qcmult Qc_ltb 0%Qc 3 st 0)) 0 0 <> @c0 QIF.
Proof.
  apply q_pivot_nonzero_if_any; [exact ex_wf|lia|].
  exists 2. split; [lia|]. vm_compute. reflexivity.
Qed.

Print Assumptions col_bi_sel.
Print Assumptions lu_column_rs.
Print Assumptions lu_column_pivot_value.
Print Assumptions lu_column_spec_bi.
Print Assumptions sel_max.
Print Assumptions pivot_nonzero_if_any.
Print Assumptions pivot_nonzero_if_any_s.
Print Assumptions row_max_scale.
Print Assumptions metric_scale.
Print Assumptions pivot_scale_invariant_step.
Print Assumptions pivot_scale_invariant.
Print Assumptions ri_scale_invariant.
Print Assumptions q_pivot_scale_invariant.
Print Assumptions ex_scale_invariant.
Print Assumptions ex_first_column_pivot.
