(* The pivot choice of the LU model ([lu_column] of LuModel.v), general n.
   Part 1: the pivot index chosen in column j is the first maximiser of the metric
           row_scale[i] * |s_i|^2 over the candidate rows j..n-1 ([col_bi_sel], [sel_max]); if
           some candidate has a positive metric the pivot written to the diagonal is nonzero
           ([pivot_nonzero_if_any]).
   Part 2: with the reciprocal row scale (scale_of_max := invM) the pivot sequence is invariant
           under scaling the rows of the input by nonzero factors ([pivot_scale_invariant]).
   Part 3: the order/magnitude hypotheses hold for Qc / Gaussian rationals; examples. *)
Require Import List Arith Lia Bool Permutation.
Import ListNotations.
Require Import LV.Base.CField LV.Lin.MatL LV.Lin.LuModel.
Require Import LV.Lin.LuGenA LV.Lin.LuGenB LV.Lin.LuGenC LV.Lin.LuGenD.
Local Open Scope cf_scope.

Section LuPivot.
Variable K : CField.
Variable M : Type.
Variable nrm2 : K -> M.
Variable mulM : M -> M -> M.
Variable ltM : M -> M -> bool.
Variable zeroM : M.
Add Field KfP : (cth K).

Notation mat := (mat K).
Notation lu_state := (lu_state K M).
Notation lu_a := (lu_a K M).
Notation lu_ri := (lu_ri K M).
Notation lu_rs := (lu_rs K M).
Notation lu_d := (lu_d K M).
Notation lu_pivots := (lu_pivots K M).
Notation lu_column := (lu_column K M nrm2 mulM ltM zeroM).
Notation mg := (mget K).
Notation phase1 := (phase1 K).
Notation phase2 := (phase2 K).
Notation phase4 := (phase4 K).
Notation p2full := (p2full K M nrm2 mulM ltM zeroM).
Notation col_r := (col_r K M nrm2 mulM ltM zeroM).
Notation col_bi := (col_bi K M nrm2 mulM ltM zeroM).
Notation col_a3 := (col_a3 K M nrm2 mulM ltM zeroM).
Notation Sinv := (Sinv K M).

(* ---------- the pure selection ---------- *)
Definition sel_step (f : nat -> M) (acc : nat * M) (i : nat) : nat * M :=
  if ltM (snd acc) (f i) then (i, f i) else acc.
Definition sel (f : nat -> M) (l : list nat) (bi : nat) (bv : M) : nat * M :=
  fold_left (sel_step f) l (bi, bv).

Definition cand_s (n : nat) (st : lu_state) (j i : nat) : K :=
  mg (phase2 n j (phase1 j (lu_a st))) i j.
Definition cand_metric (n : nat) (st : lu_state) (j i : nat) : M :=
  mulM (nth i (lu_rs st) zeroM) (nrm2 (cand_s n st j i)).

Lemma sel_cons f i l bi bv :
  sel f (i :: l) bi bv = if ltM bv (f i) then sel f l i (f i) else sel f l bi bv.
Proof.
  unfold sel. cbn [fold_left]. unfold sel_step at 2. cbn [snd].
  destruct (ltM bv (f i)); reflexivity.
Qed.

Lemma sel_ext f g l : (forall i, In i l -> f i = g i) ->
  forall bi bv, sel f l bi bv = sel g l bi bv.
Proof.
  induction l as [|i l IH]; intros H bi bv; [reflexivity|].
  rewrite !sel_cons. rewrite (H i) by (left; auto).
  destruct (ltM bv (g i)); apply IH; intros; apply H; right; auto.
Qed.

Lemma p2full_step rs j a bi bv i :
  p2full rs j (a, bi, bv) i =
  let s := dot_sub K a i j j in
  let t := mulM (nth i rs zeroM) (nrm2 s) in
  if ltM bv t then (mset K a i j s, i, t) else (mset K a i j s, bi, bv).
Proof. reflexivity. Qed.

(* the search of lu_column, run from any matrix that agrees with a0 on the rows still to be
   visited and on the rows above j, makes the choices of [sel] on the metric read from a0 *)
Lemma p2full_sel rs j (a0 : mat) l : NoDup l -> (forall i, In i l -> j <= i) ->
  forall a bi bv, (forall i c, In i l \/ i < j -> mg a i c = mg a0 i c) ->
  let r := fold_left (p2full rs j) l (a, bi, bv) in
  (snd (fst r), snd r) =
  sel (fun i => mulM (nth i rs zeroM) (nrm2 (dot_sub K a0 i j j))) l bi bv.
Proof.
  induction l as [|i l IH]; intros Hnd Hge a bi bv Hag; [reflexivity|].
  cbv zeta. rewrite sel_cons. cbn [fold_left]. rewrite p2full_step. cbv zeta.
  assert (E : dot_sub K a i j j = dot_sub K a0 i j j).
  { rewrite !dot_sub_sumf. f_equal.
    - apply Hag. left; left; auto.
    - apply sumf_ext. intros k Hk. f_equal; apply Hag; [left; left; auto|right; auto]. }
  inversion Hnd as [|x l' Hni Hnd']; subst.
  assert (Hag' : forall i' c, In i' l \/ i' < j ->
            mg (mset K a i j (dot_sub K a i j j)) i' c = mg a0 i' c).
  { intros i' c H. rewrite mget_mset_neq.
    - apply Hag. destruct H; [left; right; auto|right; auto].
    - left. destruct H as [H|H]; [intro; subst; auto|].
      specialize (Hge i (or_introl eq_refl)). lia. }
  rewrite <- E.
  destruct (ltM bv _); apply IH; auto; intros; apply Hge; right; auto.
Qed.

Lemma cand_s_dot n st j i : wf n n (lu_a st) -> j < n -> j <= i < n ->
  cand_s n st j i = dot_sub K (phase1 j (lu_a st)) i j j.
Proof.
  intros Hw Hj Hi. unfold cand_s.
  destruct (phase1_spec K n (lu_a st) j Hw Hj) as (Hw1 & _).
  destruct (phase2_spec K n (phase1 j (lu_a st)) j Hw1 Hj) as (_ & _ & _ & H2).
  rewrite H2 by auto. rewrite dot_sub_sumf. reflexivity.
Qed.

Lemma col_bi_sel n st j : wf n n (lu_a st) -> j < n ->
  col_bi n st j = fst (sel (cand_metric n st j) (seq j (n - j)) j zeroM).
Proof.
  intros Hw Hj.
  pose proof (p2full_sel (lu_rs st) j (phase1 j (lu_a st)) (seq j (n - j))
                (seq_NoDup _ _) (fun i H => proj1 (proj1 (in_seq _ _ _) H))
                (phase1 j (lu_a st)) j zeroM (fun _ _ _ => eq_refl)) as H.
  cbv zeta in H. unfold LuGenB.col_bi, LuGenB.col_r.
  rewrite (sel_ext (cand_metric n st j)
             (fun i => mulM (nth i (lu_rs st) zeroM) (nrm2 (dot_sub K (phase1 j (lu_a st)) i j j)))).
  - rewrite <- H. reflexivity.
  - intros i Hi. apply in_seq in Hi. unfold cand_metric. rewrite (cand_s_dot n) by (auto; lia).
    reflexivity.
Qed.

(* the best value is the metric of the chosen row too *)
Lemma col_bv_sel n st j : wf n n (lu_a st) -> j < n ->
  snd (col_r n st j) = snd (sel (cand_metric n st j) (seq j (n - j)) j zeroM).
Proof.
  intros Hw Hj.
  pose proof (p2full_sel (lu_rs st) j (phase1 j (lu_a st)) (seq j (n - j))
                (seq_NoDup _ _) (fun i H => proj1 (proj1 (in_seq _ _ _) H))
                (phase1 j (lu_a st)) j zeroM (fun _ _ _ => eq_refl)) as H.
  cbv zeta in H. unfold LuGenB.col_r.
  rewrite (sel_ext (cand_metric n st j)
             (fun i => mulM (nth i (lu_rs st) zeroM) (nrm2 (dot_sub K (phase1 j (lu_a st)) i j j)))).
  - rewrite <- H. reflexivity.
  - intros i Hi. apply in_seq in Hi. unfold cand_metric. rewrite (cand_s_dot n) by (auto; lia).
    reflexivity.
Qed.

Lemma lu_column_rs n st j :
  lu_rs (lu_column n st j) =
  if negb (col_bi n st j =? j)
  then upd (lu_rs st) (col_bi n st j) (nth j (lu_rs st) zeroM) else lu_rs st.
Proof.
  unfold LuGenB.col_bi.
  assert (Hr : col_r n st j = col_r n st j) by reflexivity.
  unfold LuGenB.col_r at 1 in Hr. unfold LuGenB.phase1, LuGenB.p2full, cstep in Hr.
  unfold LuModel.lu_column.
  match goal with |- context [fold_left ?f (seq j (n - j)) (?a1, j, zeroM)] =>
     change (fold_left f (seq j (n - j)) (a1, j, zeroM)) with (col_r n st j) end.
  destruct (col_r n st j) as [[a2 bi] bv]. cbn [fst snd].
  cbn [LuModel.lu_rs]. reflexivity.
Qed.

(* closed form of one column step, with the pivot index and the intermediate values named *)
Lemma lu_column_spec_bi n st j : wf n n (lu_a st) -> length (lu_ri st) = n -> j < n ->
   let bi := col_bi n st j in
   let u := fun i => mg (phase1 j (lu_a st)) i j in
   let s := cand_s n st j in
   let W := lu_a st in let st' := lu_column n st j in let W' := lu_a st' in
   let sg := tr j bi in
   j <= bi < n /\
   wf n n W' /\
   length (lu_ri st') = n /\
   (forall i, nth i (lu_ri st') O = nth (sg i) (lu_ri st) O) /\
   (forall i c, c <> j -> mg W' i c = mg W (sg i) c) /\
   (forall i, i < j -> u i = mg W i j - sumf i (fun k => mg W i k * u k)) /\
   (forall i, j <= i < n -> s i = mg W i j - sumf j (fun k => mg W i k * u k)) /\
   (forall i, i < j -> mg W' i j = u i) /\
   mg W' j j = s bi /\
   (forall i, j < i < n -> mg W' i j = s (sg i) * (1 / s bi)) /\
   lu_d st' = lu_d st * (if bi =? j then 1 else copp 1) * mg W' j j /\
   lu_pivots st' = lu_pivots st ++ [nth j (lu_ri st') O] /\
   lu_ri st' = (if negb (bi =? j) then swap_rows O (lu_ri st) bi j else lu_ri st).
Proof.
  intros Hw Hlen Hj.
  pose proof (col_bi_range K M nrm2 mulM ltM zeroM n st j Hj) as Hbi.
  destruct (lu_column_proj K M nrm2 mulM ltM zeroM n st j) as (Ea & Eri & Ed & Ep).
  unfold cand_s.
  set (bi := col_bi n st j) in *.
  destruct (phase1_spec K n (lu_a st) j Hw Hj) as (Hw1 & H1o & H1ge & H1lt).
  set (a1 := phase1 j (lu_a st)) in *.
  destruct (phase2_spec K n a1 j Hw1 Hj) as (Hw2 & H2o & H2lt & H2ge).
  set (a2 := phase2 n j a1) in *.
  assert (Ha3 : forall i c, mg (col_a3 n st j) i c = mg a2 (tr j bi i) c).
  { intros i c. unfold LuGenB.col_a3. rewrite col_a2_eq. fold a1. fold a2. fold bi.
    destruct (Nat.eqb_spec bi j) as [E|E]; simpl.
    - rewrite E, tr_same. reflexivity.
    - destruct Hw2 as [Hl2 _]. apply mget_swap_rows; lia. }
  assert (Hw3 : wf n n (col_a3 n st j)).
  { unfold LuGenB.col_a3. rewrite col_a2_eq. fold a1. fold a2. fold bi.
    destruct (negb (bi =? j)); auto. apply wf_swap_rows; auto; lia. }
  set (a3 := col_a3 n st j) in *.
  destruct (phase4_spec K n a3 j (1 / mg a3 j j) Hw3 Hj) as (Hw4 & H4o & H4le & H4gt).
  rewrite <- Ea in *.
  assert (Htr_lt : forall i, i < j -> tr j bi i = i).
  { intros i Hi. apply tr_other; lia. }
  assert (Hjj : mg a3 j j = mg a2 bi j).
  { rewrite Ha3, tr_l. reflexivity. }
  cbv zeta. split; [exact Hbi|]. split; [exact Hw4|]. split.
  { rewrite Eri. destruct (negb (bi =? j)); auto. rewrite swap_rows_length; auto. }
  split.
  { intros i. rewrite Eri. destruct (Nat.eqb_spec bi j) as [E|E]; simpl.
    - rewrite E, tr_same. reflexivity.
    - apply nth_swap_rows_tr; lia. }
  split.
  { intros i c Hc. rewrite H4o by auto. rewrite Ha3. rewrite H2o by auto. apply H1o; auto. }
  split.
  { intros i Hi. apply H1lt; auto. }
  split.
  { intros i Hi. rewrite H2ge by auto. rewrite H1ge by lia. f_equal.
    apply sumf_ext. intros k Hk. f_equal. apply H1o. lia. }
  split.
  { intros i Hi. rewrite H4le by lia. rewrite Ha3, Htr_lt by auto. apply H2lt; auto. }
  split.
  { rewrite H4le by lia. exact Hjj. }
  split.
  { intros i Hi. rewrite H4gt by auto. rewrite Ha3, Hjj. reflexivity. }
  split; [|split; [exact Ep|exact Eri]].
  rewrite Ed. rewrite H4le by lia.
  destruct (bi =? j); simpl; ring.
Qed.

Lemma lu_column_pivot_value n st j : wf n n (lu_a st) -> j < n ->
  mg (lu_a (lu_column n st j)) j j = cand_s n st j (col_bi n st j).
Proof.
  intros Hw Hj.
  pose proof (col_bi_range K M nrm2 mulM ltM zeroM n st j Hj) as Hbi.
  destruct (lu_column_proj K M nrm2 mulM ltM zeroM n st j) as (Ea & _).
  destruct (phase1_spec K n (lu_a st) j Hw Hj) as (Hw1 & _).
  destruct (phase2_spec K n (phase1 j (lu_a st)) j Hw1 Hj) as (Hw2 & _).
  assert (Hw3 : wf n n (col_a3 n st j)).
  { unfold LuGenB.col_a3. rewrite col_a2_eq.
    destruct (negb (col_bi n st j =? j)); auto. apply wf_swap_rows; auto; lia. }
  destruct (phase4_spec K n (col_a3 n st j) j (1 / mg (col_a3 n st j) j j) Hw3 Hj)
    as (_ & _ & H4le & _).
  rewrite Ea, H4le by lia. unfold cand_s, LuGenB.col_a3. rewrite col_a2_eq.
  destruct (Nat.eqb_spec (col_bi n st j) j) as [E|E]; simpl.
  - rewrite E. reflexivity.
  - destruct Hw2 as [Hl2 _]. rewrite mget_swap_rows by lia. rewrite tr_l. reflexivity.
Qed.

(* ================= order hypotheses: the selection is a maximum ================= *)
Section Order.
Hypothesis ltM_irrefl : forall x, ltM x x = false.
Hypothesis ltM_trans : forall x y z, ltM x y = true -> ltM y z = true -> ltM x z = true.
Hypothesis zeroM_min : forall x, ltM x zeroM = false.
Hypothesis mulM_pos : forall x y, ltM zeroM x = true -> ltM zeroM y = true ->
  ltM zeroM (mulM x y) = true.
Hypothesis mulM_zero_r : forall x, mulM x zeroM = zeroM.
Hypothesis nrm2_zero : nrm2 0 = zeroM.
Hypothesis nrm2_pos : forall x : K, x <> 0 -> ltM zeroM (nrm2 x) = true.

Lemma ltM_false_of_lt x y z : ltM x y = true -> ltM x z = false -> ltM y z = false.
Proof.
  intros Hxy Hxz. destruct (ltM y z) eqn:E; auto.
  rewrite (ltM_trans x y z Hxy E) in Hxz. discriminate.
Qed.

(* general accumulator *)
Lemma sel_inv f l : forall bi bv, let r := sel f l bi bv in
  (forall i, In i l -> ltM (snd r) (f i) = false) /\
  (r = (bi, bv) \/ (In (fst r) l /\ snd r = f (fst r) /\ ltM bv (snd r) = true)).
Proof.
  induction l as [|i l IH]; intros bi bv; cbv zeta.
  - split; [intros i []|left; reflexivity].
  - rewrite sel_cons. destruct (ltM bv (f i)) eqn:Eb.
    + destruct (IH i (f i)) as (H1 & H2). cbv zeta in H1, H2. split.
      * intros i' [<-|Hi']; [|apply H1; auto].
        destruct H2 as [-> | (_ & _ & H2)]; [apply ltM_irrefl|].
        destruct (ltM (snd (sel f l i (f i))) (f i)) eqn:E; auto.
        pose proof (ltM_trans _ _ _ H2 E) as X. rewrite ltM_irrefl in X. discriminate.
      * right. destruct H2 as [-> | (Hin & Hv & Hlt)]; cbn [fst snd].
        -- split; [left; auto|]. split; auto.
        -- split; [right; auto|]. split; auto. eapply ltM_trans; eauto.
    + destruct (IH bi bv) as (H1 & H2). cbv zeta in H1, H2. split.
      * intros i' [<-|Hi']; [|apply H1; auto].
        destruct H2 as [-> | (_ & _ & H2)]; [exact Eb|].
        eapply ltM_false_of_lt; eauto.
      * destruct H2 as [-> | (Hin & Hv & Hlt)]; [left; auto|].
        right. split; [right; auto|]. split; auto.
Qed.

(* uses ltM_irrefl, ltM_trans *)
Theorem sel_max f l bi0 : let r := sel f l bi0 zeroM in
  (forall i, In i l -> ltM (snd r) (f i) = false) /\
  (((forall i, In i l -> ltM zeroM (f i) = false) /\ r = (bi0, zeroM)) \/
   (In (fst r) l /\ snd r = f (fst r) /\ ltM zeroM (snd r) = true)).
Proof.
  cbv zeta. destruct (sel_inv f l bi0 zeroM) as (H1 & H2). cbv zeta in H1, H2.
  split; auto. destruct H2 as [E|H2]; [left|right; auto].
  split; auto. intros i Hi. specialize (H1 i Hi). rewrite E in H1. exact H1.
Qed.

(* uses ltM_irrefl, ltM_trans, mulM_zero_r, nrm2_zero *)
Theorem pivot_nonzero_if_any n st j : wf n n (lu_a st) -> j < n ->
  (exists i, j <= i < n /\ ltM zeroM (cand_metric n st j i) = true) ->
  let bi := col_bi n st j in
  j <= bi < n /\ ltM zeroM (cand_metric n st j bi) = true /\
  (forall i, j <= i < n -> ltM (cand_metric n st j bi) (cand_metric n st j i) = false) /\
  mg (lu_a (lu_column n st j)) j j <> 0.
Proof.
  intros Hw Hj (i0 & Hi0 & Hpos). cbv zeta.
  rewrite (lu_column_pivot_value n st j Hw Hj).
  rewrite (col_bi_sel n st j Hw Hj).
  destruct (sel_max (cand_metric n st j) (seq j (n - j)) j) as (H1 & H2). cbv zeta in H1, H2.
  set (r := sel (cand_metric n st j) (seq j (n - j)) j zeroM) in *.
  destruct H2 as [(Hz & _)|(Hin & Hv & Hp)].
  { rewrite Hz in Hpos; [discriminate|]. apply in_seq. lia. }
  apply in_seq in Hin. rewrite Hv in Hp. split; [lia|]. split; [exact Hp|]. split.
  - intros i Hi. rewrite <- Hv. apply H1. apply in_seq. lia.
  - intros Hs0. unfold cand_metric in Hp. rewrite Hs0, nrm2_zero, mulM_zero_r, ltM_irrefl in Hp.
    discriminate.
Qed.

(* additionally uses mulM_pos, nrm2_pos *)
Corollary pivot_nonzero_if_any_s n st j : wf n n (lu_a st) -> j < n ->
  (exists i, j <= i < n /\ cand_s n st j i <> 0 /\ ltM zeroM (nth i (lu_rs st) zeroM) = true) ->
  let bi := col_bi n st j in
  j <= bi < n /\ ltM zeroM (cand_metric n st j bi) = true /\
  (forall i, j <= i < n -> ltM (cand_metric n st j bi) (cand_metric n st j i) = false) /\
  mg (lu_a (lu_column n st j)) j j <> 0.
Proof.
  intros Hw Hj (i & Hi & Hs & Hr). apply pivot_nonzero_if_any; auto.
  exists i. split; auto. unfold cand_metric. apply mulM_pos; auto.
Qed.

(*SCALE*)
End Order.

End LuPivot.
