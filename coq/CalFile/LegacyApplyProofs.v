(* apply_same: lemmas.  Equal loaded terms give equal vnacal_apply output (Cal/ApplyModel.v), stated on
   the calibration as loaded: (1) the 2.x, 3.x and 1.0 documents of one container, (2) the calibration
   reloaded from a file saved at exact precisions against the stored calibration. *)
Require Import ZArith List Bool String Lia.
Import ListNotations.
Require Import LV.Base.CField LV.Gen.LayoutGen LV.Cal.Sym LV.Cal.ApplyModel.
Require Import LV.CalFile.CalSaveModel LV.CalFile.CalSaveProofs LV.CalFile.LegacyModel LV.CalFile.LegacyProofs LV.CalFile.LegacyApply.
Open Scope Z_scope.

Section ApplySame.
  Variable num : Type.
  Variable num0 : num.
  Variable sc_int : Z -> F.scalar.
  Variable sc_real : Z -> num -> F.scalar.
  Variable sc_cx : Z -> (num * num) -> F.scalar.
  Variable sc_name : string -> F.scalar.
  Variable sc_type : F.ctype -> F.scalar.
  Hypothesis int_rt : forall n, - 2147483648 <= n <= 2147483647 -> F.s_int (sc_int n) = Some n.
  Hypothesis cx_accepted : forall p z, F.s_cx (sc_cx p z) = true.
  Hypothesis name_text : forall n, F.s_text (sc_name n) = n.
  Hypothesis type_rt : forall t, F.s_type (sc_type t) = Some t.
  Variable O : Ops.
  Variable val : string -> O.

  Notation save_doc := (save_doc num num0 sc_int sc_real sc_cx sc_name sc_type).
  Notation legacy_doc := (legacy_doc num num0 sc_int sc_real sc_cx sc_name sc_type).

  (* the calibrations loaded from the 2.x tree and from the 1.0 / 3.x document of the same container give
     the same vnacal_apply result at every frequency index, for every measured matrix m *)
  Theorem apply_same_versions_models : forall st minor2 minor3 v cals2 cals3 cals1,
    wf_container num sc_real v -> all_e12 num (v_slots num v) ->
    F.load (legacy_vline minor2) (Some (legacy_doc st v)) = F.Ok cals2 ->
    F.load (v3_vline minor3) (Some (save_doc v)) = F.Ok cals3 ->
    F.load save_vline (Some (save_doc v)) = F.Ok cals1 ->
    forall findex m,
      map (fun c => apply_loaded O val c findex m) cals2 = map (fun c => apply_loaded O val c findex m) cals1 /\
      map (fun c => apply_loaded O val c findex m) cals3 = map (fun c => apply_loaded O val c findex m) cals1.
  Proof.
    intros st minor2 minor3 v cals2 cals3 cals1 Hwf He H2 H3 H1 findex m.
    destruct (legacy_versions_models num num0 sc_int sc_real sc_cx sc_name sc_type int_rt cx_accepted name_text type_rt
                st minor2 minor3 v Hwf He) as [E2 [E3 _]].
    rewrite E2, H1 in H2. rewrite E3, H1 in H3. inversion H2; inversion H3; subst. split; reflexivity.
  Qed.

  (* ---- the reloaded calibration against the stored one *)
  Variable cls : num -> F.rclass.
  Variable val_cx : string -> option (num * num).
  Variable inj : num * num -> O.                       (* a stored double complex as a value of the apply model *)
  Hypothesis val_inj : forall s z, val_cx s = Some z -> val s = inj z.

  (* vnacal_apply with the calibration the container holds *)
  Definition apply_stored (k : scal num) (findex : nat) (m : list O) : option (fres O) :=
    match nth_error (k_fvec num k) findex with
    | Some _ =>
        let ly := F.mk_layout (k_type num k) (k_rows num k) (k_cols num k) in
        Some (apply_fill O (caltype_of (k_type num k)) (Z.to_nat (k_rows num k)) (Z.to_nat (k_cols num k))
                (map (fun j => inj (e_at num num0 k (Z.of_nat findex) j)) (zupto (F.l_terms ly))) m)
    | None => None
    end.

  Lemma cal_same_apply : forall k l, cal_same num num0 cls val_cx k l ->
    forall findex m, apply_loaded O val l findex m = apply_stored k findex m.
  Proof.
    intros k l [A1 [A2 [A3 [A4 [A5 [A6 [A7 [A8 A9]]]]]]]] findex m.
    unfold apply_loaded, apply_stored.
    destruct (nth_error (k_fvec num k) findex) as [f|] eqn:Ef.
    - destruct (A9 findex f Ef) as [cells [B1 [B2 B3]]]. rewrite B1, A2, A3, A4. f_equal. f_equal.
      set (N := F.l_terms (F.mk_layout (k_type num k) (k_rows num k) (k_cols num k))) in *.
      unfold term_vals, zupto.
      apply (nth_ext _ _ (o0 O) (o0 O)).
      + rewrite !map_length, zfrom_length. lia.
      + intros n Hn. rewrite map_length in Hn.
        set (fv := fun x : option string => match x with Some s => val s | None => o0 O end).
        assert (EL : nth n (map fv cells) (o0 O) = fv (nth n cells None)) by (apply (map_nth fv cells None n)).
        rewrite EL. unfold fv.
        rewrite (nth_indep (map _ (zfrom 0 (Z.to_nat N))) (o0 O) (inj (e_at num num0 k (Z.of_nat findex) 0)))
          by (rewrite map_length, zfrom_length; lia).
        rewrite (map_nth (fun j => inj (e_at num num0 k (Z.of_nat findex) j)) (zfrom 0 (Z.to_nat N)) 0 n).
        rewrite nth_zfrom by lia. rewrite Z.add_0_l.
        destruct (B3 (Z.of_nat n) ltac:(lia)) as [s [C1 C2]].
        unfold nthc in C1. destruct (Z.ltb_spec (Z.of_nat n) 0); [lia|]. rewrite Nat2Z.id in C1. rewrite C1.
        apply val_inj. exact C2.
    - apply nth_error_None in Ef. rewrite <- A8 in Ef. apply nth_error_None in Ef. rewrite Ef. reflexivity.
  Qed.

  Lemma cal_same_apply_all : forall ks ls, Forall2 (cal_same num num0 cls val_cx) ks ls ->
    forall findex m, map (fun l => apply_loaded O val l findex m) ls = map (fun k => apply_stored k findex m) ks.
  Proof.
    intros ks ls H findex m. induction H as [|k l ks ls Hk _ IH]; [reflexivity|].
    simpl. rewrite (cal_same_apply k l Hk). rewrite IH. reflexivity.
  Qed.

  (* save at exact precisions, load, apply: the same result as applying the stored calibration *)
  Variable maxp : Z.
  Variable rd : Z -> num -> num.
  Hypothesis real_rt : forall p x, F.s_real (sc_real p x) = cls (rd p x).
  Hypothesis cx_rt : forall p z, val_cx (F.s_text (sc_cx p z)) = Some (rdc num rd p z).
  Hypothesis num_rt : forall p x, exact_prec maxp p = true -> rd p x = x.

  Theorem apply_same_roundtrip_models : forall v : container num,
    exact_prec maxp (v_fprec num v) = true -> exact_prec maxp (v_dprec num v) = true ->
    wf_container_stored num cls v ->
    exists cals, F.load save_vline (Some (save_doc v)) = F.Ok cals /\
      forall findex m, map (fun l => apply_loaded O val l findex m) cals
                       = map (fun k => apply_stored k findex m) (live num (v_slots num v)).
  Proof.
    intros v Hf Hd Hwf.
    destruct (cal_roundtrip_exact_models num num0 sc_int sc_real sc_cx sc_name sc_type int_rt cx_accepted name_text type_rt
                maxp cls rd val_cx real_rt cx_rt num_rt v Hf Hd Hwf) as [cals [E [H2 _]]].
    exists cals. split; [exact E|]. intros findex m. apply cal_same_apply_all. exact H2.
  Qed.
End ApplySame.
