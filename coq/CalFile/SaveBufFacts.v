(* Facts about the generated configuration Gen/SaveBufGen.v (re-proved on every run). *)
Require Import ZArith List Bool.
Import ListNotations.
Require Import LV.CalFile.NumText LV.CalFile.NumTextProofs LV.CalFile.CalFileModel LV.CalFile.CalFileProofs LV.Gen.SaveBufGen.
Open Scope Z_scope.

Lemma save_cfg_fits :
  (forall p, accepts (c_fset save_cfg) p = true -> fits (c_maxp save_cfg) (c_dbl save_cfg) p = true) /\
  (forall p, accepts (c_dset save_cfg) p = true -> fits (c_maxp save_cfg) (c_cpx save_cfg) p = true) /\
  (forall p, fits (c_maxp save_cfg) (c_int save_cfg) p = true).
Proof. exact (cfg_safe_sound save_cfg eq_refl). Qed.

Lemma save_cfg_accepts :
  accepts (c_fset save_cfg) default_fprecision = true /\ accepts (c_dset save_cfg) default_dprecision = true /\
  accepts (c_fset save_cfg) 40 = true /\ accepts (c_dset save_cfg) max_precision = true.
Proof. vm_compute. repeat split; reflexivity. Qed.

