(* Finding DJ91, witness: a number type whose printing at fewer than 17 digits really rounds (the last
   decimal digit is dropped), a stored container that satisfies wf_container_stored (frequencies
   10000000 < 10000002 < 10000004, T8 1x1) at the DEFAULT fprecision (accepted by the setter): the loader
   model refuses the document the saver model writes, and the collision disjunct of
   roundtrip_or_collision is the one that holds.  At fprecision 17 the same container round-trips. *)
Require Import ZArith List Bool String QArith Lia.
Import ListNotations.
Require Import LV.CalFile.NumText LV.CalFile.CalFileModel LV.CalFile.CalSaveModel LV.CalFile.CalSaveProofs LV.CalFile.LegacyFreqCollision.
Require Import LV.Gen.SaveBufGen.
Open Scope Z_scope.

Module Round.
  Definition num := Z.
  Definition cls (x : num) : rclass := if x <? 0 then RNeg else RNonneg (inject_Z x).
  (* what strtod returns for the text printf wrote: exact at MAX / >= 17 digits, else the last digit is lost *)
  Definition rd (p : Z) (x : num) : num := if exact_prec max_precision p then x else x / 10 * 10.
  Definition sc_int (n : Z) : scalar := Build_scalar "int" (Some n) RBad false None false.
  Definition sc_real (p : Z) (x : num) : scalar := Build_scalar "f" None (cls (rd p x)) false None false.
  Definition sc_cx (p : Z) (z : num * num) : scalar := Build_scalar "z" None RBad true None false.
  Definition sc_name (n : string) : scalar := Build_scalar n None RBad false None false.
  Definition sc_type (t : ctype) : scalar := Build_scalar "type" None RBad false (Some t) false.

  Lemma int_rt : forall n, - 2147483648 <= n <= 2147483647 -> s_int (sc_int n) = Some n.
  Proof. reflexivity. Qed.
  Lemma cx_accepted : forall p z, s_cx (sc_cx p z) = true.
  Proof. reflexivity. Qed.
  Lemma name_text : forall n, s_text (sc_name n) = n.
  Proof. reflexivity. Qed.
  Lemma type_rt : forall t, s_type (sc_type t) = Some t.
  Proof. reflexivity. Qed.
  Lemma real_rt : forall p x, s_real (sc_real p x) = cls (rd p x).
  Proof. reflexivity. Qed.
  Lemma num_rt : forall p x, exact_prec max_precision p = true -> rd p x = x.
  Proof. intros p x H. unfold rd. rewrite H. reflexivity. Qed.
  Lemma rd_readable : forall p x, readable (cls x) = true -> readable (cls (rd p x)) = true.
  Proof.
    intros p x H. unfold cls in *. destruct (Z.ltb_spec x 0) as [N|N]; [discriminate|].
    unfold rd. destruct (exact_prec max_precision p).
    - destruct (Z.ltb_spec x 0); [lia|reflexivity].
    - assert (0 <= x / 10 * 10) by (apply Z.mul_nonneg_nonneg; [apply Z.div_pos; lia|lia]).
      destruct (Z.ltb_spec (x / 10 * 10) 0); [lia|reflexivity].
  Qed.
  (* the rounding regime is real: at 6 digits 10000002 reads back as 10000000 *)
  Example rd_rounds : rd 6 10000002 = 10000000 /\ rd 17 10000002 = 10000002.
  Proof. vm_compute. split; reflexivity. Qed.

  Definition t8 : scal num :=
    {| k_name := "g"; k_type := T8; k_rows := 1; k_cols := 1; k_fvec := [10000000; 10000002; 10000004]; k_z0 := (50, 0);
       k_props := None;
       k_terms := [[(1, 0); (1, 0); (1, 0)]; [(0, 0); (0, 0); (0, 0)]; [(0, 0); (0, 0); (0, 0)]; [(1, 0); (1, 0); (1, 0)]] |}.
  Definition box (fp : Z) : container num := {| v_fprec := fp; v_dprec := 7; v_props := None; v_slots := [Some t8] |}.

  Lemma box_stored : forall fp, wf_container_stored num cls (box fp).
  Proof.
    intros fp. split.
    - exact I.
    - repeat constructor; try reflexivity; simpl; try lia; discriminate.
    - repeat constructor; simpl; intuition.
  Qed.

  Notation saved fp := (save_doc num 0 sc_int sc_real sc_cx sc_name sc_type (box fp)).

  (* as computed: at the default fprecision the saved document is refused; at 17 it loads *)
  Example box_refused :
    accepts (c_fset save_cfg) default_fprecision = true /\
    load save_vline (Some (saved default_fprecision)) = Err EBadMsg /\
    (exists cals, load save_vline (Some (saved 17)) = Ok cals /\ map c_freqs cals = [3]).
  Proof. vm_compute. split; [reflexivity|]. split; [reflexivity|]. eexists. split; reflexivity. Qed.

  (* through the theorem: the left disjunct is false here, so it is the collision that holds *)
  Example box_collides :
    exists c, In c (live num (v_slots num (box default_fprecision))) /\
              collides num sc_real default_fprecision (k_fvec num c).
  Proof.
    destruct (roundtrip_or_collision num 0 sc_int sc_real sc_cx sc_name sc_type int_rt cx_accepted name_text type_rt
                cls rd real_rt rd_readable (box default_fprecision) (box_stored _)) as [Ok|Col]; [|exact Col].
    destruct box_refused as (_ & E & _). rewrite E in Ok. discriminate.
  Qed.
End Round.

(* the rounding regime without a collision: stored 10000002 < 10000012 < 10000023 at 6 digits are written and
   read back as 10000000 < 10000010 < 10000020 - the loaded frequencies are NOT the stored ones *)
Module RoundOk.
  Import Round.
  Definition t8b : scal num :=
    {| k_name := "h"; k_type := T8; k_rows := 1; k_cols := 1; k_fvec := [10000002; 10000012; 10000023]; k_z0 := (50, 0);
       k_props := None;
       k_terms := [[(1, 0); (1, 0); (1, 0)]; [(0, 0); (0, 0); (0, 0)]; [(0, 0); (0, 0); (0, 0)]; [(1, 0); (1, 0); (1, 0)]] |}.
  Definition boxb : container num := {| v_fprec := 6; v_dprec := 7; v_props := None; v_slots := [Some t8b] |}.
  Example rounded_frequencies_load :
    match load save_vline (Some (save_doc num 0 sc_int sc_real sc_cx sc_name sc_type boxb)) with
    | Ok [c] => map fst (c_data c) = [XQ (inject_Z 10000000); XQ (inject_Z 10000010); XQ (inject_Z 10000020)]
    | _ => False
    end.
  Proof. vm_compute. reflexivity. Qed.
End RoundOk.
