(* Every error-term cell of an accepted document is written: load v d = Ok cals -> wf_cells.
   The indices a parser writes depend only on the shape it accepts (lengths, the '~' positions), not
   on the texts; for the version >= 1 steps the coverage proved for the saver's documents
   (CalSaveProofs.entry_ok) therefore carries over to every accepted tree; the version 0 ("e" triples)
   path is covered directly. *)
Require Import ZArith List Bool String QArith Lia.
Import ListNotations.
Require Import LV.CalFile.CalFileModel LV.CalFile.CalFileProofs LV.CalFile.CalSaveModel LV.CalFile.CalSaveProofs.
Open Scope Z_scope.

Definition isdef (x : option string) : bool := match x with Some _ => true | None => false end.
Definition dmap (c : cells) : list bool := map isdef c.
Definition sim (c c' : cells) : Prop := dmap c = dmap c'.
Definition E (k : Z) : string := EmptyString.

Lemma sim_refl : forall c, sim c c.
Proof. reflexivity. Qed.
Lemma sim_trans : forall a b c, sim a b -> sim b c -> sim a c.
Proof. unfold sim. intros. congruence. Qed.
Lemma sim_sym : forall a b, sim a b -> sim b a.
Proof. unfold sim. intros. congruence. Qed.

Lemma set_nth_sim : forall c c' n v v', sim c c' -> sim (set_nth c n v) (set_nth c' n v').
Proof.
  unfold sim, dmap. induction c as [|x r IH]; intros [|y s] n v v' H; simpl in *; try discriminate; [reflexivity|].
  inversion H. destruct n as [|n]; simpl; [f_equal; assumption|]. f_equal; [assumption|]. apply IH. assumption.
Qed.
Lemma wr_sim : forall c c' i v v', sim c c' -> sim (wr c i v) (wr c' i v').
Proof. intros. unfold wr. destruct (i <? 0); [assumption|]. apply set_nth_sim. assumption. Qed.
Lemma wrs_sim : forall d t t' n k c c', sim c c' -> sim (wrs d t k n c) (wrs d t' k n c').
Proof. intros d t t'. induction n as [|n IH]; intros k c c' H; simpl; [exact H|]. apply IH. apply wr_sim. exact H. Qed.

Lemma wrs_split : forall d t a b k c, wrs d t k (a + b) c = wrs d t (k + Z.of_nat a) b (wrs d t k a c).
Proof.
  intros d t. induction a as [|a IH]; intros b k c; simpl.
  - rewrite Z.add_0_r. reflexivity.
  - rewrite IH. f_equal. lia.
Qed.

(* ---------------------------------------------------------------- shapes of what the parsers write *)
Lemma pv_items_shape : forall d items k c c', pv_items d k items c = Ok c' ->
  sim c' (wrs d E k (List.length items) c).
Proof.
  intros d. induction items as [|x r IH]; intros k c c' H; simpl in H.
  - inversion H. apply sim_refl.
  - destruct x as [s|q|p|]; try discriminate. destruct (s_cx s); [|discriminate].
    simpl. eapply sim_trans; [apply (IH _ _ _ H)|]. apply wrs_sim. apply wr_sim. apply sim_refl.
Qed.

Lemma parse_vector_shape : forall d len n c c', parse_vector d len n c = Ok c' -> sim c' (wrs d E 0 (Z.to_nat len) c).
Proof.
  intros d len n c c' H. unfold parse_vector in H. destruct n as [s|items|p|]; try discriminate.
  destruct (Z.eqb_spec (Z.of_nat (List.length items)) len) as [El|El]; [|discriminate].
  subst len. rewrite Nat2Z.id. apply pv_items_shape. exact H.
Qed.

Lemma pm_row_shape : forall d nd row items col k c c' k', pm_row d nd row col k items c = Ok (c', k') ->
  k' = k + Z.of_nat (List.length items)
       - (if nd && (col <=? row) && (row <? col + Z.of_nat (List.length items)) then 1 else 0) /\
  sim c' (wrs d E k (Z.to_nat (k' - k)) c).
Proof.
  intros d nd row. induction items as [|x r IH]; intros col k c c' k' H.
  - simpl in H. inversion H; subst. split.
    + assert (Ez : nd && (col <=? row) && (row <? col + Z.of_nat (@List.length node [])) = false).
      { simpl List.length. simpl Z.of_nat. rewrite Z.add_0_r. destruct nd; simpl; [|reflexivity].
        destruct (Z.leb_spec col row), (Z.ltb_spec row col); simpl; try reflexivity; lia. }
      rewrite Ez. simpl. lia.
    + rewrite Z.sub_diag. apply sim_refl.
  - simpl pm_row in H. simpl List.length. rewrite Nat2Z.inj_succ.
    destruct (nd && (row =? col)) eqn:Ed.
    + destruct x as [s|q|p|]; try discriminate. destruct (is_null_text (s_text s)); [|discriminate].
      destruct (IH _ _ _ _ _ H) as [A B]. split; [|exact B].
      apply andb_prop in Ed. destruct Ed as [Ed1 Ed2]. apply Z.eqb_eq in Ed2. subst col. rewrite Ed1 in *.
      rewrite A. cbn [andb]. bdestr.
    + destruct x as [s|q|p|]; try discriminate. destruct (s_cx s); [|discriminate].
      destruct (IH _ _ _ _ _ H) as [A B].
      assert (Hk : k' = k + Z.succ (Z.of_nat (List.length r))
                        - (if nd && (col <=? row) && (row <? col + Z.succ (Z.of_nat (List.length r))) then 1 else 0)).
      { rewrite A. destruct nd; cbn [andb] in *; [|lia]. apply Z.eqb_neq in Ed. bdestr. }
      split; [exact Hk|].
      assert (Hge : k + 1 <= k').
      { rewrite A. destruct nd; cbn [andb]; bdestr. }
      replace (Z.to_nat (k' - k)) with (S (Z.to_nat (k' - (k + 1)))) by lia. simpl.
      eapply sim_trans; [exact B|]. apply wrs_sim. apply wr_sim. apply sim_refl.
Qed.

Lemma pm_rows_shape : forall d nd ncols rows r0 k c c', 0 <= r0 ->
  pm_rows d nd (Z.of_nat ncols) r0 k rows c = Ok c' ->
  exists k', k' = k + Z.of_nat (List.length rows) * Z.of_nat ncols
                  - (if nd then diag_rows r0 (List.length rows) ncols else 0) /\ k <= k' /\
             sim c' (wrs d E k (Z.to_nat (k' - k)) c).
Proof.
  intros d nd ncols. induction rows as [|x r IH]; intros r0 k c c' Hr H.
  - simpl in H. inversion H; subst. exists k. split.
    + unfold diag_rows. simpl List.length. destruct nd; lia.
    + split; [lia|]. rewrite Z.sub_diag. apply sim_refl.
  - simpl pm_rows in H. destruct x as [s|items|p|]; try discriminate.
    destruct (Z.eqb_spec (Z.of_nat (List.length items)) (Z.of_nat ncols)) as [El|El]; [|discriminate].
    destruct (pm_row d nd r0 0 k items c) as [[c1 k1]|e] eqn:E1; [|discriminate].
    destruct (pm_row_shape _ _ _ _ _ _ _ _ _ E1) as [A1 B1].
    destruct (IH (r0 + 1) k1 c1 c' ltac:(lia) H) as [k' [A2 [D2 B2]]].
    rewrite El in A1.
    assert (Hk1 : k <= k1).
    { rewrite A1. destruct nd; cbn [andb]; bdestr. }
    exists k'. split.
    + rewrite A2, A1. unfold diag_rows. simpl List.length. rewrite Nat2Z.inj_succ. destruct nd; cbn [andb]; [|lia]. bdestr.
    + split; [lia|].
      replace (Z.to_nat (k' - k)) with (Z.to_nat (k1 - k) + Z.to_nat (k' - k1))%nat by lia.
      rewrite wrs_split. replace (k + Z.of_nat (Z.to_nat (k1 - k))) with k1 by lia.
      eapply sim_trans; [exact B2|]. apply wrs_sim. exact B1.
Qed.

Lemma parse_matrix_shape : forall d rows cols n nd c c', 0 <= cols ->
  parse_matrix d rows cols n nd c = Ok c' -> sim c' (wrs d E 0 (Z.to_nat (mat_cells rows cols nd)) c).
Proof.
  intros d rows cols n nd c c' Hc H. unfold parse_matrix in H. destruct n as [s|rs|p|]; try discriminate.
  destruct (Z.eqb_spec (Z.of_nat (List.length rs)) rows) as [El|El]; [|discriminate].
  rewrite <- (Z2Nat.id cols Hc) in H.
  destruct (pm_rows_shape _ _ _ _ _ _ _ _ (Z.le_refl 0) H) as [k' [A [D B]]].
  replace (Z.to_nat (mat_cells rows cols nd)) with (Z.to_nat (k' - 0)); [exact B|].
  f_equal. rewrite A. unfold mat_cells, diag_rows. subst rows. rewrite Z2Nat.id by exact Hc. destruct nd; lia.
Qed.

(* ---------------------------------------------------------------- the steps of version >= 1 *)
Definition step_shape (st : pstep) (c : cells) : cells :=
  match st with
  | PVec _ d len => wrs d E 0 (Z.to_nat len) c
  | PMat _ d rows cols nd => wrs d E 0 (Z.to_nat (mat_cells rows cols nd)) c
  | POld => c
  end.
Definition steps_shape (steps : list pstep) (c : cells) : cells := fold_left (fun c st => step_shape st c) steps c.
Definition step_fine (st : pstep) : Prop :=
  match st with PVec _ _ _ => True | PMat _ _ _ cols _ => 0 <= cols | POld => False end.

Lemma step_shape_sim : forall st c c', sim c c' -> sim (step_shape st c) (step_shape st c').
Proof. intros [i d len|i d rows cols nd|] c c' H; simpl; try apply wrs_sim; exact H. Qed.

Lemma run_steps_shape : forall ly m steps c c' c0, Forall step_fine steps ->
  run_steps ly m steps c = Ok c' -> sim c c0 -> sim c' (steps_shape steps c0).
Proof.
  intros ly m. induction steps as [|st r IH]; intros c c' c0 Hf H Hs; simpl in H.
  - inversion H; subst. exact Hs.
  - inversion Hf as [|? ? Hst Hr]; subst. simpl steps_shape.
    destruct st as [i d len|i d rows cols nd|]; simpl in Hst; [| |contradiction].
    + destruct (lookup m i) as [n|]; [|discriminate].
      destruct (parse_vector d len n c) as [c1|e] eqn:E1; [|discriminate].
      apply (IH _ _ _ Hr H). eapply sim_trans; [apply (parse_vector_shape _ _ _ _ _ E1)|]. simpl. apply wrs_sim. exact Hs.
    + destruct (lookup m i) as [n|]; [|discriminate].
      destruct (parse_matrix d rows cols n nd c) as [c1|e] eqn:E1; [|discriminate].
      apply (IH _ _ _ Hr H). eapply sim_trans; [apply (parse_matrix_shape _ _ _ _ _ _ _ Hst E1)|]. simpl. apply wrs_sim. exact Hs.
Qed.

Lemma psteps_ver : forall ver ly, (ver =? 0) = false -> psteps ver ly = psteps 1 ly.
Proof. intros ver ly H. unfold psteps. destruct (l_type ly); try reflexivity. rewrite H. reflexivity. Qed.

Lemma psteps_fine : forall t mr mc, 0 <= mr -> 0 <= mc -> Forall step_fine (psteps 1 (mk_layout t mr mc)).
Proof.
  intros t mr mc Hr Hc. destruct t; unfold psteps, mk_layout; cbn [l_type l_mr l_mc l_ti l_tx l_tm l_tt l_el_off l_el_terms Z.eqb];
    repeat (apply Forall_cons; [simpl; try exact I; lia|]); apply Forall_nil.
Qed.

Lemma sim_defined : forall N c c', sim c c' -> cells_defined N c' = true -> cells_defined N c = true.
Proof.
  intros N c c' Hs H. unfold cells_defined in *. apply andb_prop in H. destruct H as [H1 H2].
  assert (Hl : List.length c = List.length c').
  { unfold sim, dmap in Hs. apply (f_equal (@List.length bool)) in Hs. rewrite !map_length in Hs. exact Hs. }
  rewrite Hl, H1. simpl.
  assert (G : forall l, forallb (fun x : option string => match x with Some _ => true | None => false end) l
                        = forallb (fun b : bool => b) (dmap l)).
  { induction l as [|x r IHl]; simpl; [reflexivity|]. rewrite IHl. destruct x; reflexivity. }
  rewrite G in *. unfold sim in Hs. rewrite Hs. exact H2.
Qed.

(* the saver's entry for a one-value number type: only its shape matters here *)
Definition u_cx (p : Z) (z : unit * unit) : scalar := Build_scalar EmptyString None RBad true None false.
Lemma u_cx_accepted : forall p z, s_cx (u_cx p z) = true.
Proof. reflexivity. Qed.

Lemma run_steps_defined : forall ver t mr mc m c, 0 <= mr -> 0 <= mc -> (ver =? 0) = false ->
  run_steps (mk_layout t mr mc) m (psteps ver (mk_layout t mr mc)) (blank (mk_layout t mr mc)) = Ok c ->
  cells_defined (l_terms (mk_layout t mr mc)) c = true.
Proof.
  intros ver t mr mc m c Hr Hc Hv H. rewrite (psteps_ver _ _ Hv) in H.
  destruct (entry_ok unit u_cx u_cx_accepted 0 (fun _ => (tt, tt)) t mr mc RNeg Hr Hc) as [me [_ [_ E3]]].
  pose proof (psteps_fine t mr mc Hr Hc) as Hf.
  pose proof (run_steps_shape _ _ _ _ _ _ Hf H (sim_refl _)) as S1.
  pose proof (run_steps_shape _ _ _ _ _ _ Hf E3 (sim_refl _)) as S2.
  apply (sim_defined _ _ _ (sim_trans _ _ _ S1 (sim_sym _ _ S2))).
  pose proof (l_terms_nonneg t mr mc Hr Hc) as Hn.
  unfold cells_defined. rewrite map_length. unfold zupto. rewrite zfrom_length, Z2Nat.id, Z.eqb_refl by exact Hn. simpl.
  induction (zfrom 0 (Z.to_nat (l_terms (mk_layout t mr mc)))) as [|x r IHr]; simpl; [reflexivity|exact IHr].
Qed.

(* ---------------------------------------------------------------- version 0: the "e" triples *)
Definition old_base (ly : layout) (term : Z) : Z := if term =? 0 then 0 else if term =? 1 then l_ti ly else l_tm ly.
Definition old_dst (ly : layout) (term cell : Z) : Z := dst (DPack (l_mc ly) (l_tt ly) (old_base ly term)) cell.
Fixpoint old_triple (ly : layout) (cell term : Z) (n : nat) (c : cells) : cells :=
  match n with
  | O => c
  | S m => old_triple ly cell (term + 1) m (wr c (old_dst ly term cell) EmptyString)
  end.
Fixpoint old_cells (ly : layout) (cell : Z) (n : nat) (c : cells) : cells :=
  match n with
  | O => c
  | S m => old_cells ly (cell + 1) m (old_triple ly cell 0 3 c)
  end.

Lemma old_triple_sim : forall ly cell n term c c', sim c c' -> sim (old_triple ly cell term n c) (old_triple ly cell term n c').
Proof. intros ly cell. induction n as [|n IH]; intros term c c' H; simpl; [exact H|]. apply IH. apply wr_sim. exact H. Qed.
Lemma old_cells_sim : forall ly n cell c c', sim c c' -> sim (old_cells ly cell n c) (old_cells ly cell n c').
Proof. intros ly. induction n as [|n IH]; intros cell c c' H; cbn [old_cells]; [exact H|]. apply IH. apply old_triple_sim. exact H. Qed.
Lemma old_cells_split : forall ly a b cell c, old_cells ly cell (a + b) c = old_cells ly (cell + Z.of_nat a) b (old_cells ly cell a c).
Proof.
  intros ly. induction a as [|a IH]; intros b cell c; cbn [old_cells Nat.add].
  - simpl Z.of_nat. rewrite Z.add_0_r. reflexivity.
  - rewrite IH. f_equal. lia.
Qed.

Lemma po_triple_shape : forall ly cell items term c c', po_triple ly cell term items c = Ok c' ->
  sim c' (old_triple ly cell term (List.length items) c).
Proof.
  intros ly cell. induction items as [|x r IH]; intros term c c' H; simpl in H.
  - inversion H. apply sim_refl.
  - destruct x as [s|q|p|]; try discriminate. destruct (s_cx s); [|discriminate].
    simpl. eapply sim_trans; [apply (IH _ _ _ H)|]. apply old_triple_sim. apply wr_sim. apply sim_refl.
Qed.

Lemma po_row_shape : forall ly items cell c c' cell', po_row ly cell items c = Ok (c', cell') ->
  cell' = cell + Z.of_nat (List.length items) /\ sim c' (old_cells ly cell (List.length items) c).
Proof.
  intros ly. induction items as [|x r IH]; intros cell c c' cell' H; simpl in H.
  - inversion H; subst. split; [simpl; lia|apply sim_refl].
  - destruct x as [s|trip|p|]; try discriminate.
    destruct (Z.eqb_spec (Z.of_nat (List.length trip)) 3) as [E3|E3]; [|discriminate].
    destruct (po_triple ly cell 0 trip c) as [c1|e] eqn:E1; [|discriminate].
    destruct (IH _ _ _ _ H) as [A B]. split; [simpl List.length; lia|].
    simpl List.length. cbn [old_cells]. eapply sim_trans; [exact B|]. apply old_cells_sim.
    pose proof (po_triple_shape _ _ _ _ _ _ E1) as S. replace (List.length trip) with 3%nat in S by lia. exact S.
Qed.

Lemma po_rows_shape : forall ly ncols rows cell c c', l_mc ly = Z.of_nat ncols -> po_rows ly cell rows c = Ok c' ->
  sim c' (old_cells ly cell (List.length rows * ncols) c).
Proof.
  intros ly ncols. induction rows as [|x r IH]; intros cell c c' Hm H; simpl in H.
  - inversion H. apply sim_refl.
  - destruct x as [s|items|p|]; try discriminate.
    destruct (Z.eqb_spec (Z.of_nat (List.length items)) (l_mc ly)) as [El|El]; [|discriminate].
    destruct (po_row ly cell items c) as [[c1 cell1]|e] eqn:E1; [|discriminate].
    destruct (po_row_shape _ _ _ _ _ _ E1) as [A B].
    assert (Hl : List.length items = ncols) by lia.
    simpl List.length. simpl Nat.mul. rewrite old_cells_split.
    eapply sim_trans; [apply (IH _ _ _ Hm H)|]. rewrite A, Hl. apply old_cells_sim. rewrite Hl in B. exact B.
Qed.

Lemma parse_old_e_shape : forall ly n c c', 0 <= l_mc ly -> parse_old_e ly n c = Ok c' ->
  0 <= l_mr ly /\ sim c' (old_cells ly 0 (Z.to_nat (l_mr ly) * Z.to_nat (l_mc ly)) c).
Proof.
  intros ly n c c' Hc H. unfold parse_old_e in H. destruct n as [s|rs|p|]; try discriminate.
  destruct (Z.eqb_spec (Z.of_nat (List.length rs)) (l_mr ly)) as [El|El]; [|discriminate].
  split; [lia|]. rewrite <- El, Nat2Z.id.
  apply (po_rows_shape ly (Z.to_nat (l_mc ly)) rs 0 c c'); [lia|exact H].
Qed.

(* defined cells *)
Definition defd (c : cells) (j : Z) : Prop := isdef (nthc c j) = true.
Lemma wr_defd_old : forall c i v j, defd c j -> defd (wr c i v) j.
Proof.
  intros c i v j H. unfold defd in *. destruct (nthc_wr_cases c i v j) as [Ec|[_ [_ Ec]]]; rewrite Ec; [exact H|reflexivity].
Qed.
Lemma wr_defd_new : forall c i v, 0 <= i < Z.of_nat (List.length c) -> defd (wr c i v) i.
Proof. intros c i v H. unfold defd. rewrite nthc_wr_same by exact H. reflexivity. Qed.

Lemma old_triple_length : forall ly cell n term c, List.length (old_triple ly cell term n c) = List.length c.
Proof. intros ly cell. induction n as [|n IH]; intros term c; simpl; [reflexivity|]. rewrite IH. apply wr_length. Qed.
Lemma old_cells_length : forall ly n cell c, List.length (old_cells ly cell n c) = List.length c.
Proof. intros ly. induction n as [|n IH]; intros cell c; cbn [old_cells]; [reflexivity|]. rewrite IH. apply old_triple_length. Qed.
Lemma old_triple_old : forall ly cell n term c j, defd c j -> defd (old_triple ly cell term n c) j.
Proof. intros ly cell. induction n as [|n IH]; intros term c j H; simpl; [exact H|]. apply IH. apply wr_defd_old. exact H. Qed.
Lemma old_cells_old : forall ly n cell c j, defd c j -> defd (old_cells ly cell n c) j.
Proof. intros ly. induction n as [|n IH]; intros cell c j H; cbn [old_cells]; [exact H|]. apply IH. apply old_triple_old. exact H. Qed.
Lemma old_triple_new : forall ly cell n term c t, term <= t < term + Z.of_nat n ->
  0 <= old_dst ly t cell < Z.of_nat (List.length c) -> defd (old_triple ly cell term n c) (old_dst ly t cell).
Proof.
  intros ly cell. induction n as [|n IH]; intros term c t Ht Hb; simpl; [lia|].
  destruct (Z.eq_dec t term) as [Et|Et].
  - subst t. apply old_triple_old. apply wr_defd_new. exact Hb.
  - apply IH; [lia|]. rewrite wr_length. exact Hb.
Qed.
Lemma old_cells_new : forall ly n cell c x t, cell <= x < cell + Z.of_nat n -> 0 <= t < 3 ->
  0 <= old_dst ly t x < Z.of_nat (List.length c) -> defd (old_cells ly cell n c) (old_dst ly t x).
Proof.
  intros ly. induction n as [|n IH]; intros cell c x t Hx Ht Hb; cbn [old_cells]; [lia|].
  destruct (Z.eq_dec x cell) as [Ex|Ex].
  - subst x. apply old_cells_old. apply old_triple_new; [simpl Z.of_nat; lia|exact Hb].
  - apply IH; [lia|exact Ht|]. rewrite old_triple_length. exact Hb.
Qed.

Lemma all_defd_cells_defined : forall (c : cells) N, 0 <= N -> Z.of_nat (List.length c) = N ->
  (forall j, 0 <= j < N -> defd c j) -> cells_defined N c = true.
Proof.
  intros c N HN Hl Hd. unfold cells_defined. rewrite Hl, Z.eqb_refl. simpl.
  apply forallb_forall. intros x Hx. destruct (In_nth _ _ None Hx) as [n [Hn En]].
  specialize (Hd (Z.of_nat n) ltac:(lia)). unfold defd, nthc in Hd.
  destruct (Z.ltb_spec (Z.of_nat n) 0); [lia|]. rewrite Nat2Z.id, En in Hd. destruct x; [reflexivity|discriminate].
Qed.

Lemma run_steps_old_defined : forall mr mc m c, 0 <= mr -> 0 <= mc ->
  run_steps (mk_layout E12 mr mc) m (psteps 0 (mk_layout E12 mr mc)) (blank (mk_layout E12 mr mc)) = Ok c ->
  cells_defined (l_terms (mk_layout E12 mr mc)) c = true.
Proof.
  intros mr mc m c Hr Hc H. set (ly := mk_layout E12 mr mc) in *.
  assert (F : l_mr ly = mr /\ l_mc ly = mc /\ l_ti ly = mr /\ l_tm ly = mr + mr /\ l_tt ly = mr + mr + mr /\ l_terms ly = mc * (mr + mr + mr)).
  { unfold ly, mk_layout. cbn [l_mr l_mc l_ti l_tm l_tt l_terms]. lia. }
  destruct F as [F1 [F2 [F3 [F4 [F5 F6]]]]].
  change (psteps 0 ly) with [POld] in H. simpl run_steps in H.
  destruct (lookup m ME) as [n|]; [|discriminate].
  destruct (parse_old_e ly n (blank ly)) as [c1|e] eqn:E1; [|discriminate]. inversion H; subst c1; clear H.
  destruct (parse_old_e_shape ly n (blank ly) c ltac:(lia) E1) as [_ S].
  apply (sim_defined _ _ _ S).
  assert (HN : 0 <= l_terms ly) by nia.
  apply all_defd_cells_defined; [exact HN| |].
  - rewrite old_cells_length. unfold blank. rewrite repeat_length. lia.
  - intros j Hj. rewrite F6 in Hj.
    assert (Hmr : 0 < mr) by nia. assert (Hmc : 0 < mc) by nia.
    set (e := mr + mr + mr) in *.
    pose proof (Z.div_mod j e ltac:(lia)) as Hdm. pose proof (Z.mod_pos_bound j e ltac:(lia)) as Hmb.
    assert (Hcol : 0 <= j / e < mc) by (split; [apply Z.div_pos; lia|apply Z.div_lt_upper_bound; lia]).
    set (col := j / e) in *. set (r := j mod e) in *.
    pose proof (Z.div_mod r mr ltac:(lia)) as Hdm2. pose proof (Z.mod_pos_bound r mr Hmr) as Hmb2.
    assert (Hterm : 0 <= r / mr < 3) by (split; [apply Z.div_pos; lia|apply Z.div_lt_upper_bound; lia]).
    set (term := r / mr) in *. set (row := r mod mr) in *.
    assert (Ej : old_dst ly term (row * mc + col) = j).
    { unfold old_dst. rewrite F2, F5. fold e. rewrite (dst_pack mc e _ row col) by lia.
      unfold old_base. rewrite F3, F4.
      destruct (Z.eqb_spec term 0) as [T0|T0]; [nia|]. destruct (Z.eqb_spec term 1) as [T1|T1]; [nia|].
      assert (term = 2) by lia. nia. }
    rewrite <- Ej. apply old_cells_new.
    + rewrite F1, F2. nia.
    + exact Hterm.
    + rewrite Ej. unfold blank. rewrite repeat_length, Z2Nat.id by exact HN. lia.
Qed.

(* ---------------------------------------------------------------- from the entry up to load *)
Lemma parse_entries_cells : forall ver t mr mc, 0 <= mr -> 0 <= mc -> ((ver =? 0) = true -> t = E12) ->
  forall items prev l, parse_entries ver (mk_layout t mr mc) prev items = Ok l ->
  forallb (fun fc => cells_defined (l_terms (mk_layout t mr mc)) (snd fc)) l = true.
Proof.
  intros ver t mr mc Hr Hc Hv. induction items as [|x r IH]; intros prev l H; simpl in H.
  - inversion H. reflexivity.
  - destruct x as [s|q|pairs|]; try discriminate.
    destruct (scan_entry pairs [] RNeg) as [[m f]|e]; [|discriminate].
    destruct (forallb _ _); [|discriminate].
    assert (G : forall x c l', run_steps (mk_layout t mr mc) m (psteps ver (mk_layout t mr mc)) (blank (mk_layout t mr mc)) = Ok c ->
                parse_entries ver (mk_layout t mr mc) (Some x) r = Ok l' ->
                forallb (fun fc => cells_defined (l_terms (mk_layout t mr mc)) (snd fc)) ((x, c) :: l') = true).
    { intros x c l' Hc1 Hl'. simpl. rewrite (IH _ _ Hl'), andb_true_r.
      destruct (ver =? 0) eqn:Ev.
      - rewrite (Hv eq_refl) in *. apply Z.eqb_eq in Ev. subst ver. apply (run_steps_old_defined mr mc m c Hr Hc Hc1).
      - apply (run_steps_defined ver t mr mc m c Hr Hc Ev Hc1). }
    destruct f as [| | |q|]; try discriminate.
    + destruct (match prev with Some p => xle (XQ q) p | None => false end); [discriminate|].
      destruct (run_steps _ m _ _) as [c|e] eqn:Ec; [|discriminate].
      destruct (parse_entries ver _ (Some (XQ q)) r) as [l'|e] eqn:El; [|discriminate].
      inversion H; subst. apply (G _ _ _ eq_refl El).
    + destruct (match prev with Some p => xle XInf p | None => false end); [discriminate|].
      destruct (run_steps _ m _ _) as [c|e] eqn:Ec; [|discriminate].
      destruct (parse_entries ver _ (Some XInf) r) as [l'|e] eqn:El; [|discriminate].
      inversion H; subst. apply (G _ _ _ eq_refl El).
Qed.

Lemma parse_set_wf_cells : forall ver n c, parse_set ver n = Ok c -> wf_cells c = true.
Proof.
  intros ver n c H. unfold parse_set in H. destruct n as [s|q|pairs|]; try discriminate H.
  destruct (scan_set pairs acc0) as [a|e]; [|discriminate H].
  destruct (a_name a) as [name|]; [|discriminate H].
  destruct (a_data a) as [data|]; [|discriminate H].
  destruct ((a_rows a <? 0) || (a_colsn a <? 0) || (a_fr a <? 0)) eqn:Eneg; [discriminate H|].
  apply orb_false_elim in Eneg. destruct Eneg as [Eneg E3]. apply orb_false_elim in Eneg. destruct Eneg as [E1 E2].
  apply Z.ltb_ge in E1. apply Z.ltb_ge in E2.
  match type of H with (match ?ty with _ => _ end) = _ => destruct ty as [t|] eqn:Ety; [|discriminate H] end.
  destruct ((a_rows a <? min_dim) || (a_colsn a <? min_dim) || negb (dims_fit t (a_rows a) (a_colsn a))); [discriminate H|].
  cbv zeta in H.
  destruct (int_max / 4 <? Z.max (a_rows a) (a_colsn a) * Z.max (a_rows a) (a_colsn a)); [discriminate H|].
  match type of H with (match ?p with _ => _ end) = _ => destruct p; [|discriminate H] end.
  destruct (parse_data ver (mk_layout t (a_rows a) (a_colsn a)) (a_fr a) data) as [d|e] eqn:Epd; [|discriminate H].
  inversion H; subst; clear H. unfold wf_cells. cbn [c_type c_rows c_cols c_data].
  unfold parse_data in Epd. destruct data as [s|items|p|]; try discriminate Epd.
  destruct (Z.of_nat (List.length items) =? a_fr a); [|discriminate Epd].
  apply (parse_entries_cells ver t (a_rows a) (a_colsn a) E1 E2) with (items := items) (prev := None); [|exact Epd].
  intros Ev. rewrite Ev in Ety. destruct (a_ty a) as [t0|].
  - destruct (ctype_eqb t0 E12); inversion Ety; reflexivity.
  - inversion Ety; reflexivity.
Qed.

Lemma parse_calibrations_wfc : forall ver items acc l,
  Forall (fun c => wf_cells c = true) acc -> parse_calibrations ver items acc = Ok l ->
  Forall (fun c => wf_cells c = true) l.
Proof.
  intros ver items. induction items as [|x r IH]; intros acc l Hacc H; simpl in H.
  - inversion H; subst. exact Hacc.
  - destruct (parse_set ver x) as [c|e] eqn:Ec; [|discriminate H].
    apply (IH _ _ (add_cal_forall _ _ _ Hacc (parse_set_wf_cells _ _ _ Ec)) H).
Qed.

Lemma parse_document_wfc : forall ver pairs acc l,
  Forall (fun c => wf_cells c = true) acc -> parse_document ver pairs acc = Ok l ->
  Forall (fun c => wf_cells c = true) l.
Proof.
  intros ver pairs. induction pairs as [|[k v] r IH]; intros acc l Hacc H; simpl in H.
  - inversion H; subst. exact Hacc.
  - destruct k as [s|q|p|]; try (apply (IH _ _ Hacc H)).
    match type of H with (match ?p with _ => _ end) = _ => destruct p; [|discriminate H] end.
    destruct (String.eqb (s_text s) "calibrations" || (ver =? 0) && String.eqb (s_text s) "sets").
    + destruct v as [s2|items|p2|]; try discriminate H.
      destruct (parse_calibrations ver items acc) as [acc2|e2] eqn:Ea; [|discriminate H].
      apply (IH _ _ (parse_calibrations_wfc _ _ _ _ Hacc Ea) H).
    + apply (IH _ _ Hacc H).
Qed.

(* every calibration of an accepted document is well formed: shape (CalFileProofs.load_ok_wf_shape) and cells *)
Theorem load_ok_wf_cal : forall v d cals, load v d = Ok cals -> Forall (fun c => wf_cal c = true) cals.
Proof.
  intros v d cals H. pose proof (load_ok_wf_shape v d cals H) as Hs.
  assert (Hc : Forall (fun c => wf_cells c = true) cals).
  { unfold load in H. destruct (version_of v) as [ver|e]; [|discriminate H].
    destruct d as [[s|q|pairs|]|]; try discriminate H.
    apply (parse_document_wfc _ _ _ _ (Forall_nil _) H). }
  rewrite Forall_forall in *. intros c Hin. unfold wf_cal. rewrite (Hs c Hin), (Hc c Hin). reflexivity.
Qed.
