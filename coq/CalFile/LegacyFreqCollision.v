(* C07, finding DJ91: the round trip WITHOUT the hypothesis "the frequencies as written at fprecision read
   back strictly ascending" (wf_freqs of CalSaveProofs.wf_scal, i.e. the loader's own test on the saved
   text).  The only conditions are on the STORED container (wf_container_stored: stored frequencies
   non-negative / +inf and strictly ascending).  Then either the loader model accepts the saved document
   and returns the used slots, or some calibration has two consecutive frequencies whose texts at
   fprecision read back NOT ascending (the second <= the first): the saved file is refused.  Lemmas only. *)
Require Import ZArith List Bool String QArith Lia.
Import ListNotations.
Require Import LV.CalFile.CalFileModel LV.CalFile.CalSaveModel LV.CalFile.CalSaveProofs.
Open Scope Z_scope.

Section Collision.
  Variable num : Type.
  Variable num0 : num.
  Variable sc_int : Z -> scalar.
  Variable sc_real : Z -> num -> scalar.
  Variable sc_cx : Z -> (num * num) -> scalar.
  Variable sc_name : string -> scalar.
  Variable sc_type : ctype -> scalar.
  Hypothesis int_rt : forall n, - 2147483648 <= n <= 2147483647 -> s_int (sc_int n) = Some n.
  Hypothesis cx_accepted : forall p z, s_cx (sc_cx p z) = true.
  Hypothesis name_text : forall n, s_text (sc_name n) = n.
  Hypothesis type_rt : forall t, s_type (sc_type t) = Some t.
  Variable cls : num -> rclass.
  Variable rd : Z -> num -> num.
  Hypothesis real_rt : forall p x, s_real (sc_real p x) = cls (rd p x).
  (* number-text layer: a non-negative (or +inf) double printed with p digits reads back non-negative or +inf *)
  Hypothesis rd_readable : forall p x, readable (cls x) = true -> readable (cls (rd p x)) = true.

  Notation fclass := (fclass num sc_real).
  Notation scal := (scal num).
  Notation container := (container num).

  (* two consecutive frequencies of the vector whose texts at precision fp do not read back ascending *)
  Definition collides (fp : Z) (fvec : list num) : Prop :=
    exists i f g, nth_error fvec i = Some f /\ nth_error fvec (S i) = Some g /\
                  xle (xf_of (fclass fp g)) (xf_of (fclass fp f)) = true.

  Lemma freqs_ok_readable : forall l prev, freqs_ok prev (map cls l) = true -> Forall (fun f => readable (cls f) = true) l.
  Proof.
    induction l as [|f r IH]; intros prev H; [constructor|].
    simpl in H. apply andb_prop in H. destruct H as (H & H3). apply andb_prop in H. destruct H as (H1 & _).
    constructor; [exact H1|apply (IH _ H3)].
  Qed.

  Lemma freqs_ok_or_collision : forall fp l f0,
    Forall (fun f => readable (fclass fp f) = true) (f0 :: l) ->
    freqs_ok (Some (xf_of (fclass fp f0))) (map (fclass fp) l) = true \/ collides fp (f0 :: l).
  Proof.
    intros fp. induction l as [|g r IH]; intros f0 R; [left; reflexivity|].
    inversion R as [|? ? R0 R1]; subst. inversion R1 as [|? ? Rg Rr]; subst.
    simpl map. simpl freqs_ok. rewrite Rg. simpl andb.
    destruct (xle (xf_of (fclass fp g)) (xf_of (fclass fp f0))) eqn:E.
    - right. exists 0%nat, f0, g. simpl. auto.
    - simpl. destruct (IH g R1) as [Ok|(i & a & b & A & B & C)]; [left; exact Ok|].
      right. exists (S i), a, b. simpl. auto.
  Qed.

  Lemma freqs_ok_or_collision0 : forall fp l, Forall (fun f => readable (fclass fp f) = true) l ->
    freqs_ok None (map (fclass fp) l) = true \/ collides fp l.
  Proof.
    intros fp [|f0 l] R; [left; reflexivity|].
    simpl map. simpl freqs_ok. inversion R; subst. rewrite H1. simpl andb. apply freqs_ok_or_collision. exact R.
  Qed.

  Lemma stored_readable_at : forall fp l, freqs_ok None (map cls l) = true ->
    Forall (fun f => readable (fclass fp f) = true) l.
  Proof.
    intros fp l H. pose proof (freqs_ok_readable l None H) as R. rewrite Forall_forall in *.
    intros f Hf. unfold CalSaveProofs.fclass. rewrite real_rt. apply rd_readable. apply R. exact Hf.
  Qed.

  Lemma scals_ok_or_collision : forall fp (l : list scal), Forall (wf_scal_stored num cls) l ->
    Forall (wf_scal num sc_real fp) l \/ exists c, In c l /\ collides fp (k_fvec num c).
  Proof.
    intros fp. induction l as [|c r IH]; intros H; [left; constructor|].
    inversion H as [|? ? Hc Hr]; subst. destruct Hc as [A1 A2 A3 A4 A5 A6 A7].
    destruct (freqs_ok_or_collision0 fp (k_fvec num c) (stored_readable_at fp _ A7)) as [Ok|Col].
    - destruct (IH Hr) as [Okr|(c' & Hin & Col)].
      + left. constructor; [|exact Okr]. split; assumption.
      + right. exists c'. split; [right; exact Hin|exact Col].
    - right. exists c. split; [left; reflexivity|exact Col].
  Qed.

  Notation save_doc := (save_doc num num0 sc_int sc_real sc_cx sc_name sc_type).

  (* the headline: conditions on the stored container only *)
  Theorem roundtrip_or_collision : forall v : container, wf_container_stored num cls v ->
    load save_vline (Some (save_doc v))
      = Ok (map (loaded_cal num num0 sc_real sc_cx (v_fprec num v) (v_dprec num v)) (live num (v_slots num v)))
    \/ exists c, In c (live num (v_slots num v)) /\ collides (v_fprec num v) (k_fvec num c).
  Proof.
    intros v [H1 H2 H3]. destruct (scals_ok_or_collision (v_fprec num v) _ H2) as [Ok|Col]; [left|right; exact Col].
    apply (load_save_doc num num0 sc_int sc_real sc_cx sc_name sc_type int_rt cx_accepted name_text type_rt).
    split; assumption.
  Qed.
End Collision.
